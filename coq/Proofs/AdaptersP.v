(* Facts used by PinChecks/PcAdaptersGen.v (part 9 of rs2coq: the bundled adapters).

   A. The operations of Gen/AdaptersPrims.v in the model's vocabulary (assoc,
      get_ast / set_ast, with_policy, oset_insert, rmem, first_char, ...).
   B. The model's adapter functions as instances of the loop shapes of
      Proofs/RustVecP.v: the filter test of the loaders (get_filtered_out) as a
      fold over the enumerated filter, the loaders as folds of one step, the
      selection of remove_filtered_policy, what save_policy writes.
   C. The states a MemoryAdapter can be in (`mem_wf`: a LinkedHashSet of lines
      sec :: ptype :: fields, i.e. no duplicate line and at least two fields a
      line) and the facts that need it.
   No induction is done on a generated term anywhere. *)
From CV Require Import Model.Base Model.Csv Model.Enforce Model.Engine.
From CV Require Import Gen.RustStr Gen.RustVec Gen.AdaptersPrims.
From CV Require Import Proofs.BaseP Proofs.C04SetP Proofs.RustVecP.
From Coq Require Import Lia FinFun.

(* ================================================================== *)
(* A. the primitives                                                   *)

Lemma rs_map_get_assoc : forall {A} (l : list (text * A)) k, rs_map_get l k = assoc k l.
Proof.
  intros A l k. induction l as [|[k' v] l IH]; [reflexivity|].
  cbn [rs_map_get assoc]. unfold rs_eq. rewrite (teqb_sym k' k), IH. reflexivity.
Qed.

Lemma rs_model_get_assoc : forall m sec, rs_model_get m sec = assoc sec m.
Proof. intros m sec. apply rs_map_get_assoc. Qed.

Lemma rs_astmap_get_assoc : forall am k, rs_astmap_get am k = assoc k am.
Proof. intros am k. apply rs_map_get_assoc. Qed.

Lemma rs_map_put_assoc_set : forall {A} (l : list (text * A)) k v,
  rs_map_put l k v = match assoc k l with Some _ => assoc_set k v l | None => l end.
Proof.
  intros A l k v. induction l as [|[k' v'] l IH]; [reflexivity|].
  cbn [rs_map_put assoc assoc_set]. unfold rs_eq. rewrite (teqb_sym k' k).
  destruct (teqb k k'); [reflexivity|]. rewrite IH. destruct (assoc k l); reflexivity.
Qed.

(* the write-back through get_mut(sec) / get_mut(key) is the model's set_ast *)
Lemma rs_model_put_set_ast : forall m sec key a,
  rs_model_put m sec key a = match get_ast m sec key with Some _ => set_ast m sec key a | None => m end.
Proof.
  intros m sec key a. unfold rs_model_put, get_ast, set_ast.
  rewrite rs_map_get_assoc. destruct (assoc sec m) as [am|] eqn:E; [|reflexivity].
  rewrite !rs_map_put_assoc_set, E. destruct (assoc key am) eqn:E2; [reflexivity|].
  apply assoc_set_id, E.
Qed.

Lemma rs_ast_set_policy_with : forall a p, rs_ast_set_policy a p = with_policy a p.
Proof. reflexivity. Qed.

Lemma rs_oset_contains_rmem : forall s r, rs_oset_contains s r = rmem r s.
Proof.
  intros s r. unfold rs_oset_contains, rmem, memb. induction s as [|x s IH]; [reflexivity|].
  cbn [existsb]. rewrite rs_vec_eq_reqb, (reqb_sym x r), IH. reflexivity.
Qed.

(* LinkedHashSet::insert, as the model has it *)
Lemma rs_oset_insert_oset : forall s r, rs_oset_insert s r = oset_insert s r.
Proof.
  intros s r. unfold rs_oset_insert, oset_insert. fold (rs_oset_remove s r).
  rewrite rs_oset_remove_rremove. destruct (rmem r s) eqn:E; [reflexivity|].
  rewrite rremove_absent; [reflexivity|]. apply sp_mem_not_In. exact E.
Qed.

Lemma rs_oset_insert_new_rmem : forall s r, rs_oset_insert_new s r = negb (rmem r s).
Proof. intros s r. unfold rs_oset_insert_new. rewrite rs_oset_contains_rmem. reflexivity. Qed.

Lemma rs_oset_remove_was_rmem : forall s r, rs_oset_remove_was s r = rmem r s.
Proof. intros s r. apply rs_oset_contains_rmem. Qed.

Lemma rs_first_char_first : forall s, rs_first_char s = first_char s.
Proof. intros [|c s]; reflexivity. Qed.

Lemma nl_eqb : forall c, Nat.eqb (nat_of_ascii c) 10 = Ascii.eqb c nl.
Proof. intros [[] [] [] [] [] [] [] []]; reflexivity. Qed.

Lemma rs_split_nl_from_lines : forall s cur, rs_split_nl_from cur s = split_lines s (rev cur).
Proof.
  induction s as [|c s IH]; intros cur; cbn [rs_split_nl_from split_lines].
  - rewrite rev_involutive. reflexivity.
  - rewrite nl_eqb. destruct (Ascii.eqb c nl).
    + rewrite rev_involutive, IH. reflexivity.
    + rewrite IH, rev_app_distr. reflexivity.
Qed.

Lemma rs_split_nl_lines : forall s, rs_split_nl s = split_lines s [].
Proof. intros s. apply rs_split_nl_from_lines. Qed.

(* what the line handlers do before looking at the tokens *)
Definition line_tokens (line : text) : option (list text) :=
  if rs_is_empty line || rs_starts_with_char line "#"%char then None else rs_parse_csv_line line.

Lemma line_tokens_load : forall line, line_tokens line = load_line_tokens line.
Proof. intros [|c s]; reflexivity. Qed.

(* parse_csv_line never yields an empty list of columns: tokens[0] is in range *)
Lemma parse_csv_line_nonempty : forall line cols, parse_csv_line line = Some cols -> cols <> [].
Proof.
  intros line cols. unfold parse_csv_line. destruct (trim line) as [|c l]; [discriminate|].
  destruct (Ascii.eqb c hash); [discriminate|].
  destruct (scan_cols (S (S (length (c :: l)))) (c :: l) false); [discriminate|].
  intros H. inversion H. discriminate.
Qed.

Lemma nth_error_tl : forall {A} (l : list A) i, nth_error (tl l) i = nth_error l (S i).
Proof. intros A [|x l] i; [destruct i; reflexivity|reflexivity]. Qed.

(* ================================================================== *)
(* B. the model's functions as loop shapes                             *)

(* ---- the filter test of the loaders ---- *)
(* one filter value against the fields: true = the line is left out *)
Definition fout (fields : list text) (iv : nat * text) : bool :=
  let (i, v) := iv in
  match v with
  | [] => false
  | _ :: _ => match nth_error fields i with Some f => negb (teqb f v) | None => true end
  end.

Lemma fold_fout : forall fields vals k b,
  fold_left (fun (s : bool) iv => s || fout fields iv) (enum_from k vals) b
  = b || get_filtered_out vals (skipn k fields).
Proof.
  intros fields vals. induction vals as [|v vs IH]; intros k b; cbn [enum_from fold_left get_filtered_out].
  - rewrite orb_false_r. reflexivity.
  - rewrite IH, tl_skipn, <- orb_assoc. f_equal. f_equal.
    unfold fout. rewrite teqb_nil_r. destruct v as [|c v]; [reflexivity|].
    rewrite (skipn_nth_error k fields). destruct (nth_error fields k); reflexivity.
Qed.

Lemma fold_fout0 : forall fields vals b,
  fold_left (fun (s : bool) iv => s || fout fields iv) (enum_from 0 vals) b
  = b || get_filtered_out vals fields.
Proof. intros fields vals b. apply (fold_fout fields vals 0 b). Qed.

(* ---- the loaders as folds of one step ---- *)
(* the state of the loop: (self.is_filtered, the model) - booleans come first in the tuples the translator builds *)
Definition mem_step (fp fg : list text) (s : bool * model) (ln : rule) : bool * model :=
  match ln with
  | sec :: pt :: fields =>
    if get_filtered_out (sec_filter fp fg sec) fields then (true, snd s)
    else (fst s, load_mem_line (snd s) ln)
  | _ => s
  end.

Lemma mem_load_filtered_fold : forall fp fg l md b,
  fold_left (mem_step fp fg) l (b, md) =
  (b || snd (mem_load_filtered fp fg md l), fst (mem_load_filtered fp fg md l)).
Proof.
  intros fp fg l. induction l as [|ln l IH]; intros md b; cbn [fold_left mem_load_filtered fst snd].
  - rewrite orb_false_r. reflexivity.
  - destruct ln as [|sec [|pt fields]]; cbn [mem_step]; try apply IH.
    destruct (get_filtered_out (sec_filter fp fg sec) fields) eqn:E; cbn [fst snd].
    + rewrite IH. destruct (mem_load_filtered fp fg md l) as [md' fl]. cbn [fst snd].
      rewrite orb_true_r. reflexivity.
    + rewrite IH.
      match goal with |- context [mem_load_filtered fp fg ?m l] => destruct (mem_load_filtered fp fg m l) as [md' fl] end.
      reflexivity.
Qed.

(* a parsed line of the file / string adapters *)
Definition str_step (fp fg : list text) (s : bool * model) (ln : rule) : bool * model :=
  match ln with
  | (c :: krest) :: fields =>
    if get_filtered_out (sec_filter fp fg [c]) fields then (true, snd s)
    else (fst s, load_line (snd s) ln)
  | _ => s
  end.

Lemma str_load_filtered_fold : forall fp fg l md b,
  fold_left (str_step fp fg) l (b, md) =
  (b || snd (str_load_filtered fp fg md l), fst (str_load_filtered fp fg md l)).
Proof.
  intros fp fg l. induction l as [|ln l IH]; intros md b; cbn [fold_left str_load_filtered fst snd].
  - rewrite orb_false_r. reflexivity.
  - destruct ln as [|[|c krest] fields]; cbn [str_step]; try apply IH.
    destruct (get_filtered_out (sec_filter fp fg [c]) fields) eqn:E; cbn [fst snd].
    + rewrite IH. destruct (str_load_filtered fp fg md l) as [md' fl]. cbn [fst snd].
      rewrite orb_true_r. reflexivity.
    + rewrite IH. cbn [load_line].
      match goal with |- context [str_load_filtered fp fg ?m l] => destruct (str_load_filtered fp fg m l) as [md' fl] end.
      reflexivity.
Qed.

(* a raw line: skipped (empty, comment, unparsable) or one parsed line *)
Definition raw_step {S} (step : S -> rule -> S) (s : S) (line : text) : S :=
  match load_line_tokens line with Some toks => step s toks | None => s end.

Lemma fold_raw_step : forall {S} (step : S -> rule -> S) lines s,
  fold_left (raw_step step) lines s =
  fold_left step (flat_map (fun l => match load_line_tokens l with Some t => [t] | None => [] end) lines) s.
Proof.
  intros S step lines. induction lines as [|l lines IH]; intros s; [reflexivity|].
  cbn [fold_left flat_map]. rewrite fold_left_app, IH. unfold raw_step.
  destruct (load_line_tokens l); reflexivity.
Qed.

(* ---- save_policy of the memory adapter ---- *)
Definition save_key_step (s : list rule) (ka : text * assertion) : list rule :=
  match first_char (fst ka) with
  | Some sec => fold_left (fun (st : list rule) (r : rule) => oset_insert st (sec :: fst ka :: r)) (a_policy (snd ka)) s
  | None => s
  end.

Lemma fold_save_key_step : forall am s,
  fold_left save_key_step am s = fold_left oset_insert (mem_lines_of am) s.
Proof.
  induction am as [|[k a] am IH]; intros s; [reflexivity|].
  cbn [fold_left]. unfold mem_lines_of. cbn [flat_map]. rewrite fold_left_app.
  fold (mem_lines_of am). rewrite IH. f_equal. unfold save_key_step. cbn [fst snd].
  destruct (first_char k) as [sec|]; [|reflexivity].
  generalize (a_policy a) s. intros l. induction l as [|r l IHl]; intros s0; [reflexivity|].
  cbn [fold_left map]. apply IHl.
Qed.

(* the lines save_policy produces, before they go through the set *)
Definition mem_raw_lines (md : model) : list rule :=
  (match assoc s_p md with Some am => mem_lines_of am | None => [] end) ++
  (match assoc s_g md with Some am => mem_lines_of am | None => [] end).

Lemma mem_lines_raw : forall md, mem_lines md = fold_left ins_new (mem_raw_lines md) [].
Proof. reflexivity. Qed.

(* ---- the selection of remove_filtered_policy, exactly as the source walks a line ---- *)
(* None = panic: line[0] / line[1] out of range (the second only when the first
   comparison succeeded: && is lazy), or the field filter runs off the line *)
Definition mrf_check (sec pt : text) (idx : nat) (vals : list text) (ln : rule) : option (rule * bool) :=
  match nth_error ln 0 with
  | None => None
  | Some s0 =>
    if teqb sec s0 then
      match nth_error ln 1 with
      | None => None
      | Some p1 => if teqb pt p1 then option_map (fun b => (ln, b)) (fmatch vals (skipn (idx + 2) ln))
                   else Some (ln, false)
      end
    else Some (ln, false)
  end.

Definition mrf_upd (s : bool * list rule) (y : rule * bool) : bool * list rule :=
  let (res, tmp) := s in let (ln, b) := y in
  if b then (true, tmp) else (res, oset_insert tmp ln).

Definition mrf_spec (sec pt : text) (idx : nat) (vals : list text) (l : list rule) : option (list rule * bool) :=
  match vals with
  | [] => Some (l, false)
  | _ :: _ =>
    match map_opt (mrf_check sec pt idx vals) l with
    | Some ys => let s := fold_left mrf_upd ys (false, []) in Some (snd s, fst s)
    | None => None
    end
  end.

(* ================================================================== *)
(* C. the reachable states of a MemoryAdapter                          *)

(* every line carries its section and policy type; the lines are a set *)
Definition lines_wf (l : list rule) : Prop := forall ln, In ln l -> 2 <= length ln.
Definition mem_wf (l : list rule) : Prop := NoDup l /\ lines_wf l.

Definition lines_wfb (l : list rule) : bool := forallb (fun ln => Nat.leb 2 (length ln)) l.

Lemma lines_wfb_wf : forall l, lines_wfb l = true <-> lines_wf l.
Proof.
  intros l. unfold lines_wfb, lines_wf. rewrite forallb_forall. split; intros H ln Hin.
  - apply Nat.leb_le, H, Hin.
  - apply Nat.leb_le, H, Hin.
Qed.

Lemma oset_insert_fresh : forall l r, ~ In r l -> oset_insert l r = l ++ [r].
Proof.
  intros l r H. unfold oset_insert. apply sp_mem_not_In in H. rewrite rmem_sp_mem, H. reflexivity.
Qed.

Lemma fold_oset_insert_NoDup : forall l acc, NoDup (acc ++ l) -> fold_left oset_insert l acc = acc ++ l.
Proof.
  induction l as [|x l IH]; intros acc H; cbn [fold_left].
  - rewrite app_nil_r. reflexivity.
  - assert (Hx : ~ In x acc).
    { intros Hin. apply NoDup_remove_2 in H. apply H. apply in_or_app. left. exact Hin. }
    rewrite (oset_insert_fresh acc x Hx), IH; rewrite <- app_assoc; [reflexivity|exact H].
Qed.

Lemma fold_ins_new_NoDup : forall l acc, NoDup (acc ++ l) -> fold_left ins_new l acc = acc ++ l.
Proof.
  induction l as [|x l IH]; intros acc H; cbn [fold_left].
  - rewrite app_nil_r. reflexivity.
  - assert (Hx : ~ In x acc).
    { intros Hin. apply NoDup_remove_2 in H. apply H. apply in_or_app. left. exact Hin. }
    unfold ins_new at 2. apply sp_mem_not_In in Hx. rewrite rmem_sp_mem, Hx.
    rewrite IH; rewrite <- app_assoc; [reflexivity|exact H].
Qed.

(* on lines that carry their section and policy type, the source's walk of a line is the model's *)
Lemma mrf_check_model : forall sec pt idx vals ln, 2 <= length ln ->
  mrf_check sec pt idx vals ln =
  option_map (fun b => (ln, b))
             (if teqb sec (nth 0 ln []) && teqb pt (nth 1 ln [])
              then fmatch vals (skipn (idx + 2) ln) else Some false).
Proof.
  intros sec pt idx vals [|a [|b ln]] H; cbn [length] in H; try lia.
  unfold mrf_check. cbn [nth_error nth].
  destruct (teqb sec a); cbn [andb]; [|reflexivity].
  destruct (teqb pt b); reflexivity.
Qed.

(* the kept lines of the model's selection are a sub-list of the stored lines *)
Lemma mem_filter_lines_kept : forall sec pt idx vals l kept res,
  mem_filter_lines sec pt idx vals l = Some (kept, res) -> forall x, In x kept -> In x l.
Proof.
  intros sec pt idx vals l. induction l as [|ln l IH]; intros kept res H x Hx; cbn [mem_filter_lines] in H.
  - inversion H; subst. destruct Hx.
  - destruct (if teqb sec (nth 0 ln []) && teqb pt (nth 1 ln []) then fmatch vals (skipn (idx + 2) ln) else Some false)
      as [b|]; [|discriminate].
    destruct (mem_filter_lines sec pt idx vals l) as [[k r]|]; [|discriminate].
    inversion H; subst. destruct b.
    + right. apply (IH k r eq_refl x Hx).
    + destruct Hx as [<-|Hx]; [left; reflexivity|right; apply (IH k r eq_refl x Hx)].
Qed.

Lemma mem_filter_lines_NoDup : forall sec pt idx vals l kept res,
  mem_filter_lines sec pt idx vals l = Some (kept, res) -> NoDup l -> NoDup kept.
Proof.
  intros sec pt idx vals l. induction l as [|ln l IH]; intros kept res H Hnd; cbn [mem_filter_lines] in H.
  - inversion H; subst. constructor.
  - destruct (if teqb sec (nth 0 ln []) && teqb pt (nth 1 ln []) then fmatch vals (skipn (idx + 2) ln) else Some false)
      as [b|]; [|discriminate].
    destruct (mem_filter_lines sec pt idx vals l) as [[k r]|] eqn:E; [|discriminate].
    inversion Hnd as [|x l' Hnin Hnd']; subst. inversion H; subst. destruct b.
    + apply (IH k r eq_refl Hnd').
    + constructor; [|apply (IH k r eq_refl Hnd')].
      intros Hin. apply Hnin. apply (mem_filter_lines_kept sec pt idx vals l k r E ln Hin).
Qed.

(* the source's selection (a second set filled by insert) is the model's on a reachable state *)
Lemma mrf_fold_model : forall sec pt idx vals l, lines_wf l ->
  forall res tmp,
  match map_opt (mrf_check sec pt idx vals) l, mem_filter_lines sec pt idx vals l with
  | Some ys, Some (kept, r) =>
      NoDup (tmp ++ kept) ->
      fold_left mrf_upd ys (res, tmp) = (res || r, tmp ++ kept)
  | None, None => True
  | _, _ => False
  end.
Proof.
  intros sec pt idx vals l. induction l as [|ln l IH]; intros Hwf res tmp; cbn [map_opt mem_filter_lines].
  - intros _. cbn [fold_left]. rewrite orb_false_r, app_nil_r. reflexivity.
  - assert (Hln : 2 <= length ln) by (apply Hwf; left; reflexivity).
    assert (Hwf' : lines_wf l) by (intros x Hx; apply Hwf; right; exact Hx).
    rewrite (mrf_check_model sec pt idx vals ln Hln).
    destruct (if teqb sec (nth 0 ln []) && teqb pt (nth 1 ln []) then fmatch vals (skipn (idx + 2) ln) else Some false)
      as [b|]; cbn [option_map]; [|exact I].
    destruct b.
    + specialize (IH Hwf' true tmp).
      destruct (map_opt (mrf_check sec pt idx vals) l) as [ys|], (mem_filter_lines sec pt idx vals l) as [[kept r]|];
        try exact IH. intros Hnd. cbn [fold_left mrf_upd]. rewrite (IH Hnd). cbn [orb]. rewrite orb_true_r. reflexivity.
    + specialize (IH Hwf' res (oset_insert tmp ln)).
      destruct (map_opt (mrf_check sec pt idx vals) l) as [ys|], (mem_filter_lines sec pt idx vals l) as [[kept r]|];
        try exact IH. intros Hnd. cbn [fold_left mrf_upd orb].
      assert (Hfresh : ~ In ln tmp).
      { intros Hin. apply NoDup_remove_2 in Hnd. apply Hnd, in_or_app. left. exact Hin. }
      rewrite (oset_insert_fresh tmp ln Hfresh) in IH |- *. rewrite <- app_assoc in IH. cbn [app] in IH.
      rewrite (IH Hnd). reflexivity.
Qed.

Theorem mrf_spec_model : forall sec pt idx vals l, mem_wf l ->
  mrf_spec sec pt idx vals l =
  match vals with [] => Some (l, false) | _ :: _ => mem_filter_lines sec pt idx vals l end.
Proof.
  intros sec pt idx vals l [Hnd Hwf]. unfold mrf_spec. destruct vals as [|v vs]; [reflexivity|].
  pose proof (mrf_fold_model sec pt idx (v :: vs) l Hwf false []) as H.
  pose proof (mem_filter_lines_NoDup sec pt idx (v :: vs) l) as Hk.
  destruct (map_opt (mrf_check sec pt idx (v :: vs)) l) as [ys|],
           (mem_filter_lines sec pt idx (v :: vs) l) as [[kept r]|]; try contradiction; [|reflexivity].
  cbn [app orb] in H. rewrite (H (Hk kept r eq_refl Hnd)). reflexivity.
Qed.

(* the panics of the source's selection: the first line on which the walk of mrf_check panics *)
Lemma mrf_spec_None : forall sec pt idx vals l,
  mrf_spec sec pt idx vals l = None <->
  vals <> [] /\ exists l1 ln l2, l = l1 ++ ln :: l2 /\ mrf_check sec pt idx vals ln = None /\
                                 (forall y, In y l1 -> mrf_check sec pt idx vals y <> None).
Proof.
  intros sec pt idx vals l. unfold mrf_spec. destruct vals as [|v vs].
  - split; [discriminate|]. intros [H _]. exfalso. apply H. reflexivity.
  - assert (G : forall l0, map_opt (mrf_check sec pt idx (v :: vs)) l0 = None <->
             exists l1 ln l2, l0 = l1 ++ ln :: l2 /\ mrf_check sec pt idx (v :: vs) ln = None /\
                              (forall y, In y l1 -> mrf_check sec pt idx (v :: vs) y <> None)).
    { induction l0 as [|x l0 IH]; cbn [map_opt].
      - split; [discriminate|]. intros [l1 [ln [l2 [H _]]]]. destruct l1; discriminate H.
      - destruct (mrf_check sec pt idx (v :: vs) x) as [y|] eqn:E.
        + destruct (map_opt (mrf_check sec pt idx (v :: vs)) l0) as [ys|] eqn:Em.
          * split; [discriminate|]. intros [l1 [ln [l2 [H [Hp Hb]]]]]. destruct l1 as [|z l1].
            { cbn [app] in H. injection H as -> _. rewrite E in Hp. discriminate. }
            cbn [app] in H. injection H as -> ->.
            destruct IH as [_ IH]. assert (C : Some ys = None); [|discriminate C]. apply IH.
            exists l1, ln, l2. split; [reflexivity|]. split; [exact Hp|]. intros w Hw. apply Hb. right. exact Hw.
          * split; [|reflexivity]. intros _. destruct (proj1 IH eq_refl) as [l1 [ln [l2 [H [Hp Hb]]]]].
            exists (x :: l1), ln, l2. split; [rewrite H; reflexivity|]. split; [exact Hp|].
            intros w [<-|Hw]; [rewrite E; discriminate|apply Hb, Hw].
        + split; [|reflexivity]. intros _. exists [], x, l0. split; [reflexivity|]. split; [exact E|]. intros y []. }
    destruct (map_opt (mrf_check sec pt idx (v :: vs)) l) as [ys|] eqn:Em.
    + split; [discriminate|]. intros [_ H]. apply G in H. rewrite Em in H. discriminate H.
    + split; [|reflexivity]. intros _. split; [discriminate|]. apply G. exact Em.
Qed.

(* ---- mem_wf is an invariant of the operations ---- *)
Lemma mem_wf_nil : mem_wf [].
Proof. split; [constructor|intros ln []]. Qed.

Lemma NoDup_snoc : forall {A} (l : list A) x, NoDup l -> ~ In x l -> NoDup (l ++ [x]).
Proof.
  intros A l x Hnd Hx. induction l as [|y l IH]; cbn [app].
  - constructor; [intros []|constructor].
  - inversion Hnd as [|y' l' Hy Hnd']; subst. constructor.
    + intros Hin. apply in_app_or in Hin. destruct Hin as [Hin|[<-|[]]]; [contradiction|].
      apply Hx. left. reflexivity.
    + apply IH; [exact Hnd'|]. intros Hin. apply Hx. right. exact Hin.
Qed.

Lemma mem_wf_ins_new : forall l ln, mem_wf l -> 2 <= length ln -> mem_wf (ins_new l ln).
Proof.
  intros l ln [Hnd Hwf] Hln. unfold ins_new. destruct (rmem ln l) eqn:E; [split; assumption|].
  split.
  - rewrite rmem_sp_mem in E. apply sp_mem_not_In in E. apply NoDup_snoc; assumption.
  - intros x Hx. apply in_app_or in Hx. destruct Hx as [Hx|[<-|[]]]; [apply Hwf, Hx|exact Hln].
Qed.

Lemma mem_wf_fold_ins_new : forall lns l, mem_wf l -> lines_wf lns -> mem_wf (fold_left ins_new lns l).
Proof.
  induction lns as [|ln lns IH]; intros l Hl Hlns; cbn [fold_left]; [exact Hl|].
  apply IH.
  - apply mem_wf_ins_new; [exact Hl|]. apply Hlns. left. reflexivity.
  - intros x Hx. apply Hlns. right. exact Hx.
Qed.

Lemma mem_wf_rremove : forall l ln, mem_wf l -> mem_wf (rremove ln l).
Proof.
  intros l ln [Hnd Hwf]. split.
  - unfold rremove. apply NoDup_filter, Hnd.
  - intros x Hx. apply rremove_In in Hx. apply Hwf, Hx.
Qed.

Lemma mem_wf_fold_rremove : forall lns l, mem_wf l -> mem_wf (fold_left (fun l0 ln => rremove ln l0) lns l).
Proof.
  induction lns as [|ln lns IH]; intros l Hl; cbn [fold_left]; [exact Hl|].
  apply IH, mem_wf_rremove, Hl.
Qed.

Lemma lines_wf_mem_line : forall sec pt rs, lines_wf (map (mem_line sec pt) rs).
Proof.
  intros sec pt rs ln Hin. apply in_map_iff in Hin. destruct Hin as [r [<- _]].
  unfold mem_line. cbn [length]. lia.
Qed.

Lemma mem_wf_filter_lines : forall sec pt idx vals l kept res,
  mem_filter_lines sec pt idx vals l = Some (kept, res) -> mem_wf l -> mem_wf kept.
Proof.
  intros sec pt idx vals l kept res H [Hnd Hwf]. split.
  - apply (mem_filter_lines_NoDup sec pt idx vals l kept res H Hnd).
  - intros x Hx. apply Hwf. apply (mem_filter_lines_kept sec pt idx vals l kept res H x Hx).
Qed.

Lemma lines_wf_mem_lines_of : forall am, lines_wf (mem_lines_of am).
Proof.
  intros am ln Hin. unfold mem_lines_of in Hin. apply in_flat_map in Hin.
  destruct Hin as [[k a] [_ Hin]]. cbn [fst snd] in Hin. destruct (first_char k) as [sec|]; [|destruct Hin].
  apply in_map_iff in Hin. destruct Hin as [r [<- _]]. cbn [length]. lia.
Qed.

Lemma mem_wf_mem_lines : forall md, mem_wf (mem_lines md).
Proof.
  intros md. rewrite mem_lines_raw. apply mem_wf_fold_ins_new; [apply mem_wf_nil|].
  unfold mem_raw_lines. intros ln Hin. apply in_app_or in Hin.
  destruct Hin as [Hin|Hin].
  - destruct (assoc s_p md) as [am|]; [apply (lines_wf_mem_lines_of am ln Hin)|destruct Hin].
  - destruct (assoc s_g md) as [am|]; [apply (lines_wf_mem_lines_of am ln Hin)|destruct Hin].
Qed.

(* a stored line of the memory adapter as the loaders index it: line[0], line[1], line[2..] *)
Definition line2 (ln : rule) : option rule :=
  match ln with
  | _ :: _ :: _ => Some ln
  | _ => None
  end.

Lemma map_opt_line2 : forall l, map_opt line2 l = if lines_wfb l then Some l else None.
Proof.
  induction l as [|ln l IH]; [reflexivity|].
  cbn [map_opt lines_wfb forallb]. fold (lines_wfb l). rewrite IH.
  destruct ln as [|a [|b fields]]; try reflexivity.
  cbn [line2 length Nat.leb andb]. destruct (lines_wfb l); reflexivity.
Qed.

Lemma rremove_absent_b : forall r l, rmem r l = false -> rremove r l = l.
Proof. intros r l H. apply rremove_absent. apply sp_mem_not_In. exact H. Qed.

Lemma existsb_negb : forall {A} (p : A -> bool) l, existsb (fun x => negb (p x)) l = negb (forallb p l).
Proof.
  intros A p l. induction l as [|x l IH]; [reflexivity|].
  cbn [existsb forallb]. rewrite IH. destruct (p x); reflexivity.
Qed.

Lemma lines_wfb_false : forall l, lines_wfb l = false <-> exists ln, In ln l /\ length ln < 2.
Proof.
  induction l as [|x l IH]; cbn [lines_wfb forallb].
  - split; [discriminate|]. intros [ln [[] _]].
  - fold (lines_wfb l). destruct (Nat.leb 2 (length x)) eqn:Ex; cbn [andb].
    + rewrite IH. split; intros [ln [Hin Hlen]].
      * exists ln. split; [right; exact Hin|exact Hlen].
      * destruct Hin as [<-|Hin]; [apply Nat.leb_le in Ex; lia|exists ln; split; assumption].
    + split; [|reflexivity]. intros _. exists x. split; [left; reflexivity|]. apply Nat.leb_gt in Ex. exact Ex.
Qed.

(* indexing a list whose head is known (nth_error itself is kept folded on variables) *)
Lemma nth_error_cons0 : forall {A} (x : A) l, nth_error (x :: l) 0 = Some x.
Proof. reflexivity. Qed.
Lemma nth_error_consS : forall {A} (x : A) l n, nth_error (x :: l) (S n) = nth_error l n.
Proof. reflexivity. Qed.
Lemma nth_error_nil : forall {A} n, nth_error (@nil A) n = None.
Proof. intros A [|n]; reflexivity. Qed.

Lemma mem_wf_oset_insert : forall l ln, mem_wf l -> 2 <= length ln -> mem_wf (oset_insert l ln).
Proof.
  intros l ln Hl Hln. unfold oset_insert. destruct (rmem ln l) eqn:E.
  - destruct (mem_wf_rremove l ln Hl) as [Hnd Hwf]. split.
    + apply NoDup_snoc; [exact Hnd|]. intros Hin. apply rremove_In in Hin. destruct Hin as [_ Hne]. apply Hne. reflexivity.
    + intros x Hx. apply in_app_or in Hx. destruct Hx as [Hx|[<-|[]]]; [apply Hwf, Hx|exact Hln].
  - pose proof (mem_wf_ins_new l ln Hl Hln) as H. unfold ins_new in H. rewrite E in H. exact H.
Qed.

Lemma mem_wf_fold_oset_insert : forall lns l, mem_wf l -> lines_wf lns -> mem_wf (fold_left oset_insert lns l).
Proof.
  induction lns as [|ln lns IH]; intros l Hl Hlns; cbn [fold_left]; [exact Hl|].
  apply IH.
  - apply mem_wf_oset_insert; [exact Hl|]. apply Hlns. left. reflexivity.
  - intros x Hx. apply Hlns. right. exact Hx.
Qed.

Lemma lines_wf_mem_raw_lines : forall md, lines_wf (mem_raw_lines md).
Proof.
  intros md ln Hin. unfold mem_raw_lines in Hin. apply in_app_or in Hin. destruct Hin as [Hin|Hin].
  - destruct (assoc s_p md) as [am|]; [apply (lines_wf_mem_lines_of am ln Hin)|destruct Hin].
  - destruct (assoc s_g md) as [am|]; [apply (lines_wf_mem_lines_of am ln Hin)|destruct Hin].
Qed.

(* ---- when the model store yields no line twice (the hypothesis of gen_mem_save_policy_ok) ---- *)
Lemma NoDup_app_intro : forall {A} (l1 l2 : list A),
  NoDup l1 -> NoDup l2 -> (forall x, In x l1 -> ~ In x l2) -> NoDup (l1 ++ l2).
Proof.
  intros A l1 l2 H1 H2 Hd. induction l1 as [|x l1 IH]; [exact H2|].
  inversion H1 as [|x' l' Hx Hnd]; subst. cbn [app]. constructor.
  - intros Hin. apply in_app_or in Hin. destruct Hin as [Hin|Hin]; [contradiction|].
    apply (Hd x); [left; reflexivity|exact Hin].
  - apply IH; [exact Hnd|]. intros y Hy. apply Hd. right. exact Hy.
Qed.

(* every line of an assertion map carries one of its keys as policy type *)
Lemma mem_lines_of_key : forall am ln, In ln (mem_lines_of am) -> exists k, In k (map fst am) /\ nth_error ln 1 = Some k.
Proof.
  intros am ln Hin. unfold mem_lines_of in Hin. apply in_flat_map in Hin. destruct Hin as [[k a] [Hka Hin]].
  cbn [fst snd] in Hin. destruct (first_char k) as [sec|]; [|destruct Hin].
  apply in_map_iff in Hin. destruct Hin as [r [<- _]]. exists k. split; [|reflexivity].
  apply in_map_iff. exists (k, a). split; [reflexivity|exact Hka].
Qed.

Lemma mem_lines_of_NoDup : forall am,
  NoDup (map fst am) -> (forall k a, In (k, a) am -> NoDup (a_policy a)) -> NoDup (mem_lines_of am).
Proof.
  induction am as [|[k a] am IH]; intros Hk Hp; [constructor|].
  cbn [map fst] in Hk. inversion Hk as [|k' l' Hnin Hk']; subst.
  unfold mem_lines_of. cbn [flat_map fst snd]. fold (mem_lines_of am). apply NoDup_app_intro.
  - destruct (first_char k) as [sec|]; [|constructor].
    apply Injective_map_NoDup; [|apply (Hp k a); left; reflexivity].
    intros r1 r2 H. inversion H. reflexivity.
  - apply IH; [exact Hk'|]. intros k0 a0 Hin. apply (Hp k0 a0). right. exact Hin.
  - intros ln H1 H2. destruct (first_char k) as [sec|]; [|destruct H1].
    apply in_map_iff in H1. destruct H1 as [r [<- _]].
    destruct (mem_lines_of_key am _ H2) as [k0 [Hk0 Hnth]]. cbn [nth_error] in Hnth. inversion Hnth; subst. contradiction.
Qed.

(* the rule lists of the store are sets, the keys of a section are distinct (LinkedHashSet / LinkedHashMap),
   and no policy type is defined in both sections (DefaultModel::add_def stores a definition under the section
   its key starts with) *)
Definition store_sets (md : model) : Prop :=
  forall sec am, sec = s_p \/ sec = s_g -> assoc sec md = Some am ->
    NoDup (map fst am) /\ forall k a, In (k, a) am -> NoDup (a_policy a).
Definition pg_keys_disjoint (md : model) : Prop :=
  forall amp amg k, assoc s_p md = Some amp -> assoc s_g md = Some amg -> In k (map fst amp) -> ~ In k (map fst amg).

Theorem mem_raw_lines_NoDup : forall md, store_sets md -> pg_keys_disjoint md -> NoDup (mem_raw_lines md).
Proof.
  intros md Hs Hd. unfold mem_raw_lines. apply NoDup_app_intro.
  - destruct (assoc s_p md) as [amp|] eqn:Ep; [|constructor].
    destruct (Hs s_p amp (or_introl eq_refl) Ep) as [H1 H2]. apply mem_lines_of_NoDup; assumption.
  - destruct (assoc s_g md) as [amg|] eqn:Eg; [|constructor].
    destruct (Hs s_g amg (or_intror eq_refl) Eg) as [H1 H2]. apply mem_lines_of_NoDup; assumption.
  - intros ln H1 H2. destruct (assoc s_p md) as [amp|] eqn:Ep; [|destruct H1].
    destruct (assoc s_g md) as [amg|] eqn:Eg; [|destruct H2].
    destruct (mem_lines_of_key amp ln H1) as [k1 [Hk1 Hn1]]. destruct (mem_lines_of_key amg ln H2) as [k2 [Hk2 Hn2]].
    rewrite Hn1 in Hn2. inversion Hn2; subst. apply (Hd amp amg k2 Ep Eg Hk1 Hk2).
Qed.
