(* C04, part 3: the store invariant (duplicate-free rule lists, distinct keys
   per section) holds initially and is kept by every step. *)
From CV Require Import Model.Base Model.Effector Model.RoleGraph Model.Expr Model.Enforce
     Model.Engine Model.SpecC04.
From CV Require Import Proofs.ListAux Proofs.BaseP Proofs.C04SetP Proofs.C04StepP.
From Coq Require Import Lia.

Definition AmInv (am : amap) : Prop :=
  NoDup (map fst am) /\ forall k a, In (k, a) am -> NoDup (a_policy a).
Definition ModelInv (md : model) : Prop := forall sec am, In (sec, am) md -> AmInv am.
Definition StoreInv (s : estate) : Prop := ModelInv (e_model s).

(* ---- the boolean version ---- *)
Lemma am_invb_spec : forall am, am_invb am = true <-> AmInv am.
Proof.
  intros am. unfold am_invb, AmInv. rewrite andb_true_iff, (nodupb_NoDup teqb teqb_eq), forallb_forall.
  split; intros [H1 H2]; split; try exact H1.
  - intros k a Hin. apply (nodupb_NoDup reqb reqb_eq). apply (H2 (k, a) Hin).
  - intros [k a] Hin. apply (nodupb_NoDup reqb reqb_eq). apply (H2 k a Hin).
Qed.

Lemma model_invb_spec : forall md, model_invb md = true <-> ModelInv md.
Proof.
  intros md. unfold model_invb, ModelInv. rewrite forallb_forall. split.
  - intros H sec am Hin. apply am_invb_spec. apply (H (sec, am) Hin).
  - intros H [sec am] Hin. apply am_invb_spec. apply (H sec am Hin).
Qed.

(* ---- basic preservation ---- *)
Lemma ModelInv_assoc : forall md sec am, ModelInv md -> assoc sec md = Some am -> AmInv am.
Proof. intros md sec am H E. apply (H sec am). apply assoc_In, E. Qed.

Lemma ModelInv_get : forall md sec k a, ModelInv md -> get_ast md sec k = Some a -> NoDup (a_policy a).
Proof.
  intros md sec k a H E. unfold get_ast in E. destruct (assoc sec md) as [am|] eqn:Es; [|discriminate].
  destruct (ModelInv_assoc md sec am H Es) as [_ H2]. apply (H2 k a). apply assoc_In, E.
Qed.

Lemma ModelInv_assoc_set : forall md sec am, ModelInv md -> AmInv am -> ModelInv (assoc_set sec am md).
Proof.
  intros md sec am H Ha sec' am' Hin. apply assoc_set_In in Hin.
  destruct Hin as [[_ ->]|Hin]; [exact Ha|exact (H _ _ Hin)].
Qed.

Lemma AmInv_assoc_set : forall am k a, AmInv am -> NoDup (a_policy a) -> AmInv (assoc_set k a am).
Proof.
  intros am k a [H1 H2] Ha. split.
  - apply assoc_set_NoDup, H1.
  - intros k' a' Hin. apply assoc_set_In in Hin. destruct Hin as [[_ ->]|Hin]; [exact Ha|exact (H2 _ _ Hin)].
Qed.

Lemma ModelInv_set_ast : forall md sec k a, ModelInv md -> NoDup (a_policy a) -> ModelInv (set_ast md sec k a).
Proof.
  intros md sec k a H Ha. unfold set_ast. destruct (assoc sec md) as [am|] eqn:Es; [|exact H].
  apply ModelInv_assoc_set; [exact H|]. apply AmInv_assoc_set; [|exact Ha].
  apply (ModelInv_assoc md sec am H Es).
Qed.

Lemma ModelInv_set_policy : forall md sec pt l, ModelInv md -> NoDup l -> ModelInv (set_policy md sec pt l).
Proof.
  intros md sec pt l H Hl. unfold set_policy. destruct (get_ast md sec pt) as [a|]; [|exact H].
  apply ModelInv_set_ast; [exact H|exact Hl].
Qed.

Lemma AmInv_map : forall (f : assertion -> assertion) am,
  (forall a, NoDup (a_policy a) -> NoDup (a_policy (f a))) ->
  AmInv am -> AmInv (map (fun ka => (fst ka, f (snd ka))) am).
Proof.
  intros f am Hf [H1 H2]. split.
  - rewrite map_map. cbn [fst]. exact H1.
  - intros k a' Hin. apply in_map_iff in Hin. destruct Hin as [[k0 a0] [E Hin]].
    cbn [fst snd] in E. inversion E; subst. apply Hf. apply (H2 k a0 Hin).
Qed.

Lemma AmInv_unmap : forall (f : assertion -> assertion) am,
  (forall a, a_policy (f a) = a_policy a) ->
  AmInv (map (fun ka => (fst ka, f (snd ka))) am) -> AmInv am.
Proof.
  intros f am Hf [H1 H2]. split.
  - rewrite map_map in H1. cbn [fst] in H1. exact H1.
  - intros k a Hin. rewrite <- Hf. apply (H2 k (f a)).
    apply in_map_iff. exists (k, a). split; [reflexivity|exact Hin].
Qed.

Lemma ModelInv_map_ast : forall f md, (forall a, a_policy (f a) = a_policy a) ->
  (ModelInv (map_ast f md) <-> ModelInv md).
Proof.
  intros f md Hf. unfold ModelInv, map_ast. split.
  - intros H sec am Hin. apply (AmInv_unmap f am Hf). apply (H sec).
    apply in_map_iff. exists (sec, am). split; [reflexivity|exact Hin].
  - intros H sec am' Hin. apply in_map_iff in Hin. destruct Hin as [[s0 am0] [E Hin]].
    cbn [fst snd] in E. inversion E; subst. apply AmInv_map.
    + intros a Ha. rewrite Hf. exact Ha.
    + apply (H sec am0 Hin).
Qed.

(* the invariant does not look at handles *)
Lemma ModelInv_eqh : forall md md', eqh md md' -> ModelInv md -> ModelInv md'.
Proof.
  intros md md' E H.
  apply (ModelInv_map_ast (fun a => with_handle a HOwn) md'); [reflexivity|].
  fold (erase_h md'). rewrite <- E. apply ModelInv_map_ast; [reflexivity|exact H].
Qed.

(* ---- clear ---- *)
Lemma clear_sec_inv : forall md sec, ModelInv md -> ModelInv (clear_sec md sec).
Proof.
  intros md sec H. unfold clear_sec. destruct (assoc sec md) as [am|] eqn:Es; [|exact H].
  apply ModelInv_assoc_set; [exact H|].
  apply (AmInv_map (fun a => with_policy a [])).
  - intros a _. constructor.
  - apply (ModelInv_assoc md sec am H Es).
Qed.

Lemma m_clear_policy_inv : forall md, ModelInv md -> ModelInv (m_clear_policy md).
Proof. intros md H. unfold m_clear_policy. apply clear_sec_inv, clear_sec_inv, H. Qed.

(* ---- loading ---- *)
Lemma oset_insert_NoDup : forall l r, NoDup l -> NoDup (oset_insert l r).
Proof.
  intros l r H. unfold oset_insert. destruct (rmem r l) eqn:E.
  - apply NoDup_snoc.
    + unfold rremove. apply NoDup_filter, H.
    + rewrite rremove_In. intros [_ C]. apply C. reflexivity.
  - apply NoDup_snoc; [exact H|]. apply sp_mem_not_In. exact E.
Qed.

Lemma load_key_inv : forall md sec key fields,
  ModelInv md ->
  ModelInv (match get_ast md sec key with
            | Some a => set_ast md sec key (with_policy a (oset_insert (a_policy a) fields))
            | None => md
            end).
Proof.
  intros md sec key fields H. destruct (get_ast md sec key) as [a|] eqn:E; [|exact H].
  apply ModelInv_set_ast; [exact H|]. cbn [with_policy a_policy].
  apply oset_insert_NoDup. apply (ModelInv_get md sec key a H E).
Qed.

Lemma load_line_inv : forall md ln, ModelInv md -> ModelInv (load_line md ln).
Proof.
  intros md ln H. unfold load_line. destruct ln as [|[|c krest] fields]; try exact H.
  apply load_key_inv, H.
Qed.

Lemma load_mem_line_inv : forall md ln, ModelInv md -> ModelInv (load_mem_line md ln).
Proof.
  intros md ln H. unfold load_mem_line. destruct ln as [|sec [|pt fields]]; try exact H.
  apply load_key_inv, H.
Qed.

Lemma fold_inv : forall (f : model -> rule -> model) l md,
  (forall md ln, ModelInv md -> ModelInv (f md ln)) -> ModelInv md -> ModelInv (fold_left f l md).
Proof.
  intros f l. induction l as [|x l IH]; intros md Hf H; cbn [fold_left]; [exact H|].
  apply IH; [exact Hf|]. apply Hf, H.
Qed.

Lemma str_load_filtered_inv : forall fp fg lines md,
  ModelInv md -> ModelInv (fst (str_load_filtered fp fg md lines)).
Proof.
  intros fp fg. induction lines as [|ln rest IH]; intros md H; cbn [str_load_filtered]; [exact H|].
  destruct ln as [|[|c krest] fields]; try (apply IH, H).
  match goal with |- context [str_load_filtered fp fg ?m rest] =>
    assert (Hm : ModelInv m) by (destruct (get_filtered_out _ fields); [exact H|apply load_line_inv, H]);
    specialize (IH m Hm); destruct (str_load_filtered fp fg m rest) end.
  exact IH.
Qed.

Lemma mem_load_filtered_inv : forall fp fg lines md,
  ModelInv md -> ModelInv (fst (mem_load_filtered fp fg md lines)).
Proof.
  intros fp fg. induction lines as [|ln rest IH]; intros md H; cbn [mem_load_filtered]; [exact H|].
  destruct ln as [|sec [|pt fields]]; try (apply IH, H).
  match goal with |- context [mem_load_filtered fp fg ?m rest] =>
    assert (Hm : ModelInv m) by (destruct (get_filtered_out _ fields); [exact H|apply load_mem_line_inv, H]);
    specialize (IH m Hm); destruct (mem_load_filtered fp fg m rest) end.
  exact IH.
Qed.

Lemma ad0_load_inv : forall a md, ModelInv md -> ModelInv (snd (fst (ad0_load a md))).
Proof.
  intros a md H. destruct a as [|l f|l f|l f|i sc]; cbn [ad0_load fst snd]; try exact H.
  - apply fold_inv; [exact load_mem_line_inv|exact H].
  - apply fold_inv; [exact load_line_inv|exact H].
  - apply fold_inv; [exact load_line_inv|exact H].
Qed.

Lemma ad0_load_filtered_inv : forall a fp fg md,
  ModelInv md -> ModelInv (snd (fst (ad0_load_filtered a fp fg md))).
Proof.
  intros a fp fg md H. destruct a as [|l f|l f|l f|i sc]; cbn [ad0_load_filtered]; try exact H.
  - pose proof (mem_load_filtered_inv fp fg l md H) as K.
    destruct (mem_load_filtered fp fg md l). exact K.
  - pose proof (str_load_filtered_inv fp fg l md H) as K.
    destruct (str_load_filtered fp fg md l). exact K.
  - pose proof (str_load_filtered_inv fp fg l md H) as K.
    destruct (str_load_filtered fp fg md l). exact K.
Qed.

Lemma ad_load_inv : forall a md, ModelInv md -> ModelInv (snd (fst (ad_load a md))).
Proof.
  intros a md H. destruct a as [|l f|l f|l f|i sc]; try (apply (ad0_load_inv _ md H)).
  cbn [ad_load]. pose proof (ad0_load_inv i md H) as K.
  destruct sc as [|[| | | |] sc]; try exact H;
    destruct (ad0_load i md) as [[i' md'] r]; cbn [fst snd] in *; try exact K.
  apply clear_sec_inv, K.
Qed.

Lemma ad_load_filtered_inv : forall a fp fg md,
  ModelInv md -> ModelInv (snd (fst (ad_load_filtered a fp fg md))).
Proof.
  intros a fp fg md H. destruct a as [|l f|l f|l f|i sc]; try (apply (ad0_load_filtered_inv _ fp fg md H)).
  cbn [ad_load_filtered]. pose proof (ad0_load_filtered_inv i fp fg md H) as K.
  destruct sc as [|[| | | |] sc]; try exact H;
    destruct (ad0_load_filtered i fp fg md) as [[i' md'] r]; cbn [fst snd] in *; try exact K.
  apply clear_sec_inv, K.
Qed.

Lemma brl_inv : forall s, StoreInv s -> StoreInv (fst (build_role_links s)).
Proof. intros s H. apply (ModelInv_eqh (e_model s)); [apply eqh_sym, brl_eqh|exact H]. Qed.

Lemma finish_load_inv : forall s ad md r,
  StoreInv s -> ModelInv md -> StoreInv (fst (finish_load s ad md r)).
Proof.
  intros s ad md r Hs Hm. unfold finish_load. destruct r as [|e|]; [|exact Hs|exact Hs].
  destruct (e_auto_build (upd_model (upd_adapter s ad) md)); [|exact Hm].
  pose proof (brl_inv (upd_model (upd_adapter s ad) md) Hm) as K.
  destruct (build_role_links (upd_model (upd_adapter s ad) md)). exact K.
Qed.

Lemma step_load_inv : forall s, StoreInv s -> StoreInv (fst (step_load s)).
Proof.
  intros s H. unfold step_load.
  pose proof (ad_load_inv (e_adapter s) _ (m_clear_policy_inv _ H)) as K.
  destruct (ad_load (e_adapter s) (m_clear_policy (e_model s))) as [[ad md] r]. cbn [fst snd] in K.
  apply finish_load_inv; assumption.
Qed.

Lemma step_load_filtered_inv : forall s fp fg, StoreInv s -> StoreInv (fst (step_load_filtered s fp fg)).
Proof.
  intros s fp fg H. unfold step_load_filtered.
  pose proof (ad_load_filtered_inv (e_adapter s) fp fg _ (m_clear_policy_inv _ H)) as K.
  destruct (ad_load_filtered (e_adapter s) fp fg (m_clear_policy (e_model s))) as [[ad md] r].
  cbn [fst snd] in K. apply finish_load_inv; assumption.
Qed.

Lemma register_g_model : forall s, e_model (fst (register_g_functions s)) = e_model s.
Proof.
  intros s. unfold register_g_functions. destruct (assoc s_g (e_model s)) as [am|]; [|reflexivity].
  destruct (register_g am (f_gfuns (e_fs s))). reflexivity.
Qed.

(* ---- the management calls ---- *)
(* the model after a basic call, up to handles: unchanged, or the
   specification's result written at (sec, pt) *)
Lemma step_basic_model : forall s sec pt b,
  eqh (e_model (fst (step_basic s sec pt b))) (e_model s) \/
  exists a l' flag rs,
    get_ast (e_model s) sec pt = Some a /\ sp_apply b (a_policy a) = Some (l', flag, rs) /\
    eqh (e_model (fst (step_basic s sec pt b))) (set_policy (e_model s) sec pt l').
Proof.
  intros s sec pt b. destruct (adapter_call s sec pt b) as [ad r] eqn:H.
  assert (Hr : r = Ok true \/ r <> Ok true)
    by (destruct r as [[|]|e|]; [left; reflexivity|right; discriminate..]).
  destruct Hr as [->|Hr].
  - rewrite (step_basic_accept s sec pt b ad H).
    destruct (get_ast (e_model s) sec pt) as [a|] eqn:Eg; [|left; apply eqh_refl].
    destruct (sp_apply b (a_policy a)) as [[[l' flag] rs]|] eqn:Ea; [|left; apply eqh_refl].
    right. exists a, l', flag, rs. split; [reflexivity|]. split; [exact Ea|].
    eapply eqh_trans; [apply links_tail_eqh|]. rewrite emit_mgmt_model. apply eqh_refl.
  - rewrite (step_basic_refuse s sec pt b ad r H Hr). left. apply eqh_refl.
Qed.

Lemma step_basic_inv : forall s sec pt b, StoreInv s -> StoreInv (fst (step_basic s sec pt b)).
Proof.
  intros s sec pt b H. unfold StoreInv in *.
  destruct (step_basic_model s sec pt b) as [E|[a [l' [flag [rs [Eg [Ea E]]]]]]].
  - apply (ModelInv_eqh _ _ (eqh_sym _ _ E) H).
  - apply (ModelInv_eqh _ _ (eqh_sym _ _ E)). apply ModelInv_set_policy; [exact H|].
    apply (sp_apply_NoDup b (a_policy a) l' flag rs); [|exact Ea].
    apply (ModelInv_get _ _ _ _ H Eg).
Qed.

Lemma seq_or_inv : forall (P : estate -> Prop) ra f,
  P (fst ra) -> (forall s, P s -> P (fst (f s))) -> P (fst (seq_or ra f)).
Proof.
  intros P [s0 r0] f H0 Hf. unfold seq_or. destruct r0 as [a|e|]; try exact H0.
  specialize (Hf s0 H0). destruct (f s0) as [s1 [b|e|]]; exact Hf.
Qed.

Lemma step_rbac_inv : forall s r, StoreInv s -> StoreInv (fst (step_rbac s r)).
Proof.
  intros s r H. rewrite step_rbac_ops. destruct (rbac_ops_basic r) as [[sec [pt [b [E1 _]]]] H2].
  destruct (rbac_ops r) as [o1 [o2|]]; cbn [fst snd] in *.
  - destruct (H2 o2 eq_refl) as [sec2 [pt2 [b2 [E2 _]]]].
    apply seq_or_inv.
    + rewrite (step_is_basic s o1 sec pt b E1). apply step_basic_inv, H.
    + intros s' Hs'. rewrite (step_is_basic s' o2 sec2 pt2 b2 E2). apply step_basic_inv, Hs'.
  - rewrite (step_is_basic s o1 sec pt b E1). apply step_basic_inv, H.
Qed.

Lemma step_clear_inv : forall s, StoreInv s -> StoreInv (fst (step_clear s)).
Proof.
  intros s H. destruct (clear_call s) as [ad r] eqn:Ec.
  assert (Hr : r = LROk \/ r <> LROk) by (destruct r; [left; reflexivity|right; discriminate..]).
  destruct Hr as [->|Hr].
  - rewrite (step_clear_accept s ad Ec). cbv zeta.
    assert (H2 : StoreInv (upd_model (upd_adapter s ad) (m_clear_policy (e_model s))))
      by (apply m_clear_policy_inv, H).
    destruct (e_auto_build s).
    + pose proof (brl_inv _ H2) as K.
      destruct (build_role_links (upd_model (upd_adapter s ad) (m_clear_policy (e_model s)))) as [s3 [|e]];
        cbn [fst] in *; [|exact K].
      unfold StoreInv. rewrite emit_model. exact K.
    + cbn [fst]. unfold StoreInv. rewrite emit_model. exact H2.
  - rewrite (step_clear_refuse s ad r Ec Hr). exact H.
Qed.

Lemma step_save_inv : forall s, StoreInv s -> StoreInv (fst (step_save s)).
Proof.
  intros s H. unfold step_save. destruct (ad_is_filtered (e_adapter s)); [exact H|].
  destruct (ad_save (e_adapter s) (e_model s)) as [ad [|e|]]; cbn [fst]; try exact H.
  unfold StoreInv. rewrite emit_model. exact H.
Qed.

Lemma step_set_role_manager_inv : forall s mx, StoreInv s -> StoreInv (fst (step_set_role_manager s mx)).
Proof.
  intros s mx H. unfold step_set_role_manager.
  match goal with |- context [upd_fs (upd_model s ?md) ?fs] =>
    set (md1 := md); set (fs1 := fs) end.
  assert (H1 : StoreInv (upd_fs (upd_model s md1) fs1)).
  { unfold StoreInv. cbn [upd_fs upd_model e_model]. subst md1.
    destruct (assoc s_g (e_model s)) as [am|] eqn:E; [|exact H].
    apply (ModelInv_eqh (e_model s)); [|exact H]. apply eqh_sym.
    apply (eqh_assoc_set _ _ am _ E). rewrite map_map. apply map_ext. intros [k a]. reflexivity. }
  set (s1 := upd_fs (upd_model s md1) fs1) in *.
  assert (H2 : StoreInv (fst (if e_auto_build s1 then build_role_links s1 else (s1, LOk)))).
  { destruct (e_auto_build s1); [apply brl_inv, H1|exact H1]. }
  destruct (if e_auto_build s1 then build_role_links s1 else (s1, LOk)) as [s2 [|c]]; cbn [fst] in *.
  - pose proof (register_g_model s2) as K. destruct (register_g_functions s2) as [s3 e'].
    cbn [fst] in *. unfold StoreInv. rewrite K. exact H2.
  - exact H2.
Qed.

(* OSetModel installs a new model definition: its own rule lists must be
   sets (in the implementation they are, by their type) *)
Definition op_ok (o : op) : Prop :=
  match o with OSetModel d => ModelInv (d_model d) | _ => True end.

Theorem step_inv : forall s o, StoreInv s -> op_ok o -> StoreInv (fst (step s o)).
Proof.
  intros s o H Hok. destruct o.
  - rewrite (step_is_basic s (OAdd sec pt r) sec pt (BAdd r) eq_refl). apply step_basic_inv, H.
  - rewrite (step_is_basic s (OAddMany sec pt rs) sec pt (BAddMany rs) eq_refl). apply step_basic_inv, H.
  - rewrite (step_is_basic s (ORemove sec pt r) sec pt (BRemove r) eq_refl). apply step_basic_inv, H.
  - rewrite (step_is_basic s (ORemoveMany sec pt rs) sec pt (BRemoveMany rs) eq_refl).
    apply step_basic_inv, H.
  - rewrite (step_is_basic s (ORemoveFiltered sec pt idx vals) sec pt (BFiltered idx vals) eq_refl).
    apply step_basic_inv, H.
  - apply step_rbac_inv, H.
  - apply step_clear_inv, H.
  - apply step_load_inv, H.
  - apply step_load_filtered_inv, H.
  - apply step_save_inv, H.
  - cbn [step]. pose proof (brl_inv s H) as K. destruct (build_role_links s). exact K.
  - cbn [step]. unfold step_set_model. cbn [op_ok] in Hok.
    match goal with |- context [step_load ?s0] =>
      assert (K : StoreInv (fst (step_load s0))) by (apply step_load_inv; exact Hok);
      destruct (step_load s0) as [s1 [b|e|]] end; cbn [fst] in *; try exact K.
    pose proof (register_g_model s1) as G. destruct (register_g_functions s1) as [s2 e].
    cbn [fst] in *. unfold StoreInv. rewrite G. exact K.
  - cbn [step]. unfold step_set_adapter. apply step_load_inv. exact H.
  - apply step_set_role_manager_inv, H.
  - exact H.
  - exact H.
  - exact H.
  - exact H.
  - exact H.
  - exact H.
Qed.

Theorem run_ops_inv : forall ops s, StoreInv s -> Forall op_ok ops -> StoreInv (run_ops s ops).
Proof.
  unfold run_ops. induction ops as [|o ops IH]; intros s H Hok; cbn [fold_left]; [exact H|].
  inversion Hok as [|o' ops' Ho Hops]; subst. apply IH; [|exact Hops]. apply step_inv; assumption.
Qed.

Theorem new_enforcer_inv : forall d a w, ModelInv (d_model d) -> StoreInv (fst (new_enforcer d a w)).
Proof.
  intros d a w H. unfold new_enforcer, new_raw.
  match goal with |- context [register_g_functions ?s0] =>
    pose proof (register_g_model s0) as G; destruct (register_g_functions s0) as [s1 [|e]] end;
    cbn [fst e_model] in G.
  - assert (K : StoreInv s1) by (unfold StoreInv; rewrite G; exact H).
    destruct (ad_is_filtered (e_adapter s1)); [exact K|]. apply step_load_inv, K.
  - unfold StoreInv. cbn [fst]. rewrite G. exact H.
Qed.

(* a definition without rules and with distinct keys is fine *)
Lemma empty_defs_inv : forall md,
  (forall sec am, In (sec, am) md -> NoDup (map fst am) /\ forall k a, In (k, a) am -> a_policy a = []) ->
  ModelInv md.
Proof.
  intros md H sec am Hin. destruct (H sec am Hin) as [H1 H2]. split; [exact H1|].
  intros k a Ha. rewrite (H2 k a Ha). constructor.
Qed.

Theorem new_enforcer_inv_empty : forall d a w,
  (forall sec am, In (sec, am) (d_model d) ->
                  NoDup (map fst am) /\ forall k a0, In (k, a0) am -> a_policy a0 = []) ->
  StoreInv (fst (new_enforcer d a w)).
Proof. intros d a w H. apply new_enforcer_inv, empty_defs_inv, H. Qed.
