(* Part 21 (linking), inventory, second half: the model store, the role links, the role manager behind the
   handles, the Enforcer's own methods, the built-in functions, the cache, the lock programs, and the upper layers.

   primitive                          Rust function                                  generated function (file)
   ---------------------------------  ---------------------------------------------  -----------------------------------
   Engine.m_add_policy                DefaultModel::add_policy                       gen_m_add_policy            Model2Gen
   Engine.m_add_policies              DefaultModel::add_policies                     gen_m_add_policies          Model2Gen
   Engine.m_remove_policy             DefaultModel::remove_policy                    gen_m_remove_policy         Model2Gen
   Engine.m_remove_policies           DefaultModel::remove_policies                  gen_m_remove_policies       Model2Gen
   Engine.m_remove_filtered           DefaultModel::remove_filtered_policy           gen_m_remove_filtered_policy Model2Gen
   Engine.m_get_policy / QueryRt.mdl_get_policy    DefaultModel::get_policy          gen_m_get_policy            Model2Gen
   Engine.m_has_policy / QueryRt.mdl_has_policy    DefaultModel::has_policy          gen_m_has_policy            Model2Gen (StoreGen)
   Engine.m_get_filtered / QueryRt.mdl_get_filtered_policy  ::get_filtered_policy    gen_m_get_filtered_policy   Model2Gen (StoreGen)
   Engine.m_values / QueryRt.mdl_values_for_field  ::get_values_for_field_in_policy  gen_m_get_values_for_field_in_policy
   Engine.m_clear_policy              DefaultModel::clear_policy                     LinksGen.gen_clear_policy   LinksGen
   Engine.m_get_all                   MgmtApi::get_all_policy / _grouping_policy     genq_get_all_[grouping_]policy  QueryGen
   Engine.link_rule / link_rules      Assertion::build_[incremental_]role_links      gen_ast_build_[incremental_]role_links  LinksGen
   Engine.build_links_am              DefaultModel::build_role_links                 gen_model_build_role_links  LinksGen
   Engine.build_role_links            Enforcer::build_role_links                     gen_build_role_links (EnforcerGen) over gen_model_build_role_links
   EnforcerPrims.model_build_role_links  DefaultModel::build_role_links              gen_model_build_role_links  LinksGen
   EnforcerPrims.rm_clear             DefaultRoleManager::clear                      gen_clear                   RoleManagerGen
   Engine.incremental_links, InternalPrims.build_incremental_role_links
                                      Enforcer:: / DefaultModel::build_incremental_role_links
                                                                                     gen_enf_build_incremental_role_links (Enforcer2Gen),
                                                                                     gen_model_build_incremental_role_links (LinksGen)
   LinksPrims.rs_rm_add_link          DefaultRoleManager::add_link                   gen_add_link                RoleManagerGen [wf]
   LinksPrims.rs_rm_delete_link       DefaultRoleManager::delete_link                gen_delete_link             RoleManagerGen [wf]
   Enforce.handle_has_link            DefaultRoleManager::has_link                   gen_has_link                RoleManagerGen [wf, fuel]
   Engine.handle_get_roles / QueryRt.rm_get_roles   DefaultRoleManager::get_roles    gen_get_roles               RoleManagerGen [wf] (as sets)
   Engine.handle_get_users / QueryRt.rm_get_users   DefaultRoleManager::get_users    gen_get_users               RoleManagerGen [wf] (as sets)
   Enforcer2Rt.rm_new                 DefaultRoleManager::new                        gen_new                     RoleManagerGen
   Effector.new_stream / push / next / done   DefaultEffector::new_stream, DefaultEffectStream::push_effect / next
                                                                                     gen_new_stream, gen_push_effect, gen_next   EffectorGen
   Engine.emit                        EventEmitter::emit(PolicyChange, ..)           gen_enf_emit                Enforcer2Gen [abs]
   InternalPrims.emit_clear_cache     EventEmitter::emit(ClearCache, ..)             gen_enf_emit                Enforcer2Gen [no ClearCache callback]
   EnforcerPrims.on_ / off_policy_change  EventEmitter::on / off                     gen_enf_on / gen_enf_off    Enforcer2Gen [abs]
   Engine.register_g_functions        Enforcer::register_g_functions                 gen_enf_register_g_functions Enforcer2Gen [abs]
   Engine.new_raw / new_enforcer      Enforcer::new_raw / new                        gen_enf_new_raw / gen_enf_new Enforcer2Gen [abs]
   Enforce.call_fn (dispatch)         rhai Engine over the registrations             eng_call on r_engine        Enforcer2Gen [eng_coherent: partial]
   Enforcer2Rt.fm_default             FunctionMap::default                           gen_fm_default_table        Enforcer2Gen
   Enforce.get_ast in the enforce loops   get_or_err! / get_or_err_with_context!     gen_get_or_err[_with_context]  Model2Gen
   PathMatch.key_match / key_get      function_map::key_match / key_get              gen_key_match / gen_key_get StrFnGen
   PathMatch.key_match2..5, key_get2/3, regex_match_words   function_map::..         gen_key_match2 .. gen_regex_match  FmapGen [model answers]
   Enforce.builtin                    FunctionMap::default entries                   the above, by name          [agree or model error]
   CachedRt.cg_get / cg_set / cg_clear    DefaultCache::get / set / clear            gen_cache_get / _set / _clear  Model2Gen [sub-cache]
   CachedRt.cg_call                   the wrapped Enforcer's methods                 src_step (EnforcerGen, InternalGen, ApiGen)
   CachedRt.cg_inner_enforce[_ctx], QueryRt.enf_enforce   Enforcer::private_enforce[_with_context], enforce
                                                                                     gen_private_enforce[_with_context]  EnforceGen
   Locks.enforce_prog / mgmt_prog / handle_read_prog    the lock discipline of 95 functions   gen_locks_*          LocksGen
   ApiRt step_add .. step_remove_filtered, int_remove_filtered   InternalApi::*_internal    gen_*_internal       InternalGen
   Enforcer2Rt.x_core_call            CoreApi::load_policy from Enforcer::new        gen_load_policy             EnforcerGen *)
From CV Require Import Model.Base Model.Effector Model.RoleGraph Model.RoleGraphM Model.PathMatch Model.Expr Model.Enforce.
From CV Require Import Model.Engine Model.Cached Model.Locks Model.SpecC11.
From CV Require Import Gen.RustStr Gen.RustVec Gen.RustIter Gen.StoreGen Gen.StrFnGen.
From CV Require Import Gen.InternalPrims Gen.InternalGen Gen.ApiRt Gen.ApiGen Gen.EnforcerPrims Gen.EnforcerGen.
From CV Require Import Gen.RustEnf Gen.EnforceGen Gen.LinksPrims Gen.LinksGen Gen.Petgraph Gen.RoleManagerGen.
From CV Require Import Gen.QueryRt Gen.QueryGen Gen.CachedRt Gen.CachedGen Gen.Enforcer2Rt Gen.Enforcer2Gen.
From CV Require Import Gen.Regex Gen.RegexSyntax Gen.FmapRt Gen.FmapGen Gen.Model2Rt Gen.MokaRt Gen.Model2Gen.
From CV Require Import Gen.LocksRt Gen.LocksGen.
From CV Require Import Proofs.BaseP Proofs.RoleGraphP Proofs.RoleGraphMA Proofs.C11P Proofs.C13P Proofs.RustLinksP.
From CV Require Import Proofs.Enforcer2P Proofs.Model2P Proofs.LocksGenP Proofs.SrcStepP.
From CV Require Import Proofs.LinkBaseP Proofs.LinkRmP Proofs.LinkInvP Proofs.LinkEnforceP.
From CV Require Import PinChecks.PcStoreGen PinChecks.PcStrFnGen PinChecks.PcInternalGen PinChecks.PcApiGen.
From CV Require Import PinChecks.PcEnforcerGen PinChecks.PcEnforceGen PinChecks.PcLinksGen PinChecks.PcRoleManagerGen.
From CV Require Import PinChecks.PcQueryGen PinChecks.PcCachedGen PinChecks.PcEnforcer2Gen PinChecks.PcFmapGen.
From CV Require Import PinChecks.PcModel2Gen PinChecks.PcLocksGen.
From Coq Require Import Permutation.

(* ------------------------------------------------------------------ *)
(* (B) the model store                                                 *)

Theorem link_m_add_policy : forall md sec pt r, gen_m_add_policy md sec pt r = Some (m_add_policy md sec pt r).
Proof. exact gen_m_add_policy_ok. Qed.
Theorem link_m_add_policies : forall md sec pt rs, gen_m_add_policies md sec pt rs = Some (m_add_policies md sec pt rs).
Proof. exact gen_m_add_policies_ok. Qed.
Theorem link_m_remove_policy : forall md sec pt r, gen_m_remove_policy md sec pt r = Some (m_remove_policy md sec pt r).
Proof. exact gen_m_remove_policy_ok. Qed.
Theorem link_m_remove_policies : forall md sec pt rs,
  gen_m_remove_policies md sec pt rs = Some (m_remove_policies md sec pt rs).
Proof. exact gen_m_remove_policies_ok. Qed.
Theorem link_m_remove_filtered : forall md sec pt idx vals,
  gen_m_remove_filtered_policy md sec pt idx vals = option_map rf_shape (m_remove_filtered md sec pt idx vals).
Proof. exact gen_m_remove_filtered_policy_ok. Qed.
Theorem link_m_get_policy : forall md sec pt, gen_m_get_policy md sec pt = Some (m_get_policy md sec pt).
Proof. exact gen_m_get_policy_ok. Qed.
Theorem link_m_has_policy : forall md sec pt r, gen_m_has_policy md sec pt r = Some (m_has_policy md sec pt r).
Proof. exact gen_m_has_policy_ok. Qed.
Theorem link_m_get_filtered : forall md sec pt idx vals,
  gen_m_get_filtered_policy md sec pt idx vals = m_get_filtered md sec pt idx vals.
Proof. exact gen_m_get_filtered_policy_ok. Qed.
Theorem link_m_values : forall md sec pt idx,
  gen_m_get_values_for_field_in_policy md sec pt idx = m_values md sec pt idx.
Proof. exact gen_m_get_values_for_field_in_policy_ok. Qed.
Theorem link_m_clear_policy : forall md, LinksGen.gen_clear_policy md = Some (m_clear_policy md).
Proof. exact PcLinksGen.gen_clear_policy_ok. Qed.
Theorem link_m_get_all : forall ptab s,
  ans_rules (genq_get_all_policy s) = ask ptab s (QGetAll s_p) /\
  ans_rules (genq_get_all_grouping_policy s) = ask ptab s (QGetAll s_g).
Proof. intros ptab s. split; [apply genq_get_all_policy_ok|apply genq_get_all_grouping_policy_ok]. Qed.

(* the store as the query helpers see it (Gen/QueryRt.v): the same translated functions *)
Theorem link_mdl_get_policy : forall md sec pt, gen_m_get_policy md sec pt = Some (mdl_get_policy md sec pt).
Proof. exact gen_m_get_policy_ok. Qed.
Theorem link_mdl_get_filtered_policy : forall md sec pt idx vals,
  gen_m_get_filtered_policy md sec pt idx vals = mdl_get_filtered_policy md sec pt idx vals.
Proof. intros. rewrite gen_m_get_filtered_policy_ok. apply gen_get_filtered_model. Qed.
Theorem link_mdl_has_policy : forall md sec pt r, gen_m_has_policy md sec pt r = mdl_has_policy md sec pt r.
Proof. intros. rewrite gen_m_has_policy_ok. apply gen_has_policy_model. Qed.
Theorem link_mdl_values_for_field : forall md sec pt idx,
  gen_m_get_values_for_field_in_policy md sec pt idx = mdl_values_for_field md sec pt idx.
Proof. intros. rewrite gen_m_get_values_for_field_in_policy_ok. apply gen_values_for_field_model. Qed.

(* ------------------------------------------------------------------ *)
(* (C) the role links                                                  *)

Theorem link_link_rules : forall h a m, Nat.ltb (count_us (a_value a)) 2 = false ->
  option_map (fun x => (snd (fst x), snd x)) (gen_ast_build_role_links h a m) =
  Some (link_rules (count_us (a_value a)) true m (a_policy a)).
Proof. exact gen_ast_links_link_rules. Qed.
Theorem link_link_rules_incremental : forall h d a m ins rs,
  Nat.ltb (count_us (a_value a)) 2 = false -> event_rules d = Some (ins, rs) ->
  option_map (fun x => (snd (fst x), snd x)) (gen_ast_build_incremental_role_links h d a m) =
  Some (link_rules (count_us (a_value a)) ins m rs).
Proof. exact gen_ast_incremental_link_rules. Qed.
Theorem link_build_links_am : forall md m,
  gen_model_build_role_links HCur md m =
  Some (match assoc s_g md with
        | None => (md, m, LOk)
        | Some am => match build_links_am am m with (am', m', e) => (assoc_set s_g am' md, m', e) end
        end).
Proof. exact gen_model_build_role_links_model. Qed.
Theorem link_build_role_links : forall s,
  match gen_model_build_role_links HCur (e_model s) [] with
  | Some (md', m', e) => build_role_links s = (upd_fs (upd_model s md') (set_rm (e_fs s) m'), e)
  | None => False
  end.
Proof. exact gen_model_build_role_links_enforcer. Qed.
Theorem link_model_build_role_links : forall s,
  match gen_model_build_role_links HCur (e_model s) (f_rm (e_fs s)) with
  | Some (md', m', e) => model_build_role_links s = (upd_fs (upd_model s md') (set_rm (e_fs s) m'), e)
  | None => False
  end.
Proof.
  intros s. rewrite gen_model_build_role_links_model. unfold model_build_role_links.
  destruct (assoc s_g (e_model s)) as [am|].
  - destruct (build_links_am am (f_rm (e_fs s))) as [[am' m'] e]. reflexivity.
  - destruct s as [md mx ad [rm rmx gf uf] en sv bl nt cb wt wl]. reflexivity.
Qed.
(* Enforcer::build_role_links = rm.clear(), then the model's *)
Theorem link_build_role_links_split : forall s, model_build_role_links (EnforcerPrims.rm_clear s) = build_role_links s.
Proof. exact build_role_links_split. Qed.
Theorem link_incremental_links : forall s pt rs,
  match gen_model_build_incremental_role_links HCur (EvAddMany s_g pt rs) (e_model s) (f_rm (e_fs s)) with
  | Some (md', m', e) => incremental_links s pt true rs = (upd_fs (upd_model s md') (set_rm (e_fs s) m'), e)
  | None => False
  end /\
  match gen_model_build_incremental_role_links HCur (EvRemoveMany s_g pt rs) (e_model s) (f_rm (e_fs s)) with
  | Some (md', m', e) => incremental_links s pt false rs = (upd_fs (upd_model s md') (set_rm (e_fs s) m'), e)
  | None => False
  end.
Proof. exact gen_model_incremental_links. Qed.
Theorem link_build_incremental_role_links : forall s d,
  match gen_model_build_incremental_role_links HCur d (e_model s) (f_rm (e_fs s)) with
  | Some (md', m', e) => build_incremental_role_links s d = (upd_fs (upd_model s md') (set_rm (e_fs s) m'), e)
  | None => False
  end.
Proof. exact gen_model_build_incremental_role_links_model. Qed.
Theorem link_enf_build_incremental_role_links : forall x d,
  (abs (fst (gen_enf_build_incremental_role_links x d)), snd (gen_enf_build_incremental_role_links x d)) =
  (fst (build_incremental_role_links (abs x) d), lerr_out (snd (build_incremental_role_links (abs x) d)) true).
Proof. exact gen_enf_build_incremental_role_links_ok. Qed.
(* EnforcerPrims.rm_clear: the translated clear on the representation of the current manager *)
Theorem link_rm_clear : forall s, rm_wf s ->
  upd_fs s (set_rm (e_fs s) (lk_rm_clear (f_rm (e_fs s)))) = EnforcerPrims.rm_clear s.
Proof. intros s Hwf. rewrite (LinkRmP.link_rm_clear _ Hwf). reflexivity. Qed.

(* ------------------------------------------------------------------ *)
(* (D) the role manager behind a handle                                *)

Theorem link_handle_has_link : forall ord fuel fs h a b d, ord_ok ord ->
  wf (handle_rm fs h) -> rm_fuel_ok fuel (handle_rm fs h) ->
  lk_rm_has_link ord fuel (handle_lvl fs h) (handle_rm fs h) a b d = handle_has_link fs h a b d.
Proof.
  intros ord fuel fs h a b d Hord Hwf Hf. rewrite (link_rm_has_link ord Hord _ _ _ _ _ _ Hwf Hf).
  destruct h; reflexivity.
Qed.
Theorem link_handle_get_roles : forall ord fs h n d, ord_ok ord -> wf (handle_rm fs h) ->
  forall y, In y (lk_rm_get_roles ord (handle_rm fs h) n d) <-> In y (handle_get_roles fs h n d).
Proof.
  intros ord fs h n d Hord Hwf y. rewrite (link_rm_get_roles ord Hord _ n d Hwf y). destruct h; reflexivity.
Qed.
Theorem link_handle_get_users : forall ord fs h n d, ord_ok ord -> wf (handle_rm fs h) ->
  forall y, In y (lk_rm_get_users ord (handle_rm fs h) n d) <-> In y (handle_get_users fs h n d).
Proof.
  intros ord fs h n d Hord Hwf y. rewrite (link_rm_get_users ord Hord _ n d Hwf y). destruct h; reflexivity.
Qed.
(* the listings of the query helpers (Gen/QueryRt.v: in the order `ord'` of the HashSet they are collected from) *)
Theorem link_rm_get_roles_q : forall ord ord' fs h n d, ord_ok ord -> ord_ok ord' -> wf (handle_rm fs h) ->
  forall y, In y (lk_rm_get_roles ord (handle_rm fs h) n d) <-> In y (rm_get_roles ord' fs h n d).
Proof.
  intros ord ord' fs h n d Hord Hord' Hwf y. unfold rm_get_roles.
  rewrite (link_handle_get_roles ord fs h n d Hord Hwf y). split; intros H.
  - apply (Permutation_in _ (Permutation_sym (Hord' _)) H).
  - apply (Permutation_in _ (Hord' _) H).
Qed.
Theorem link_rm_get_users_q : forall ord ord' fs h n d, ord_ok ord -> ord_ok ord' -> wf (handle_rm fs h) ->
  forall y, In y (lk_rm_get_users ord (handle_rm fs h) n d) <-> In y (rm_get_users ord' fs h n d).
Proof.
  intros ord ord' fs h n d Hord Hord' Hwf y. unfold rm_get_users.
  rewrite (link_handle_get_users ord fs h n d Hord Hwf y). split; intros H.
  - apply (Permutation_in _ (Permutation_sym (Hord' _)) H).
  - apply (Permutation_in _ (Hord' _) H).
Qed.
(* the hypothesis, on reachable states: the current manager, the private default manager of a definition, and every
   manager captured by a registered closure are well formed *)
Theorem link_handle_wf_reachable : forall d a w ops,
  let s := run_ops (fst (new_enforcer d a w)) ops in
  wf (handle_rm (e_fs s) HCur) /\ wf (handle_rm (e_fs s) HOwn) /\
  forall k h, In (k, h) (f_gfuns (e_fs s)) -> wf (handle_rm (e_fs s) h).
Proof.
  intros d a w ops s. destruct (link_inv_reachable d a w ops) as [Hwf Hg]. fold s in Hwf, Hg.
  split; [exact Hwf|]. split; [apply wf_nil|]. intros k h Hin. apply handle_rm_wf; [exact Hwf|apply (Hg k h Hin)].
Qed.
(* DefaultRoleManager::new *)
Theorem link_rm_new : forall lvl, rm_rep (snd (rm_new lvl)) (fst (rm_new lvl)) (gen_new lvl).
Proof. intros lvl. apply rm_rep_new. Qed.

(* ------------------------------------------------------------------ *)
(* (F) the Enforcer's own methods (Gen/Enforcer2Gen.v, on renf / abs)    *)

Theorem link_emit : forall x d, abs (gen_enf_emit x KPolicyChange d) = emit (abs x) d.
Proof. exact gen_enf_emit_ok. Qed.
Theorem link_emit_clear_cache : forall x d, Enforcer2Rt.hm_get evkind_eqb (r_events x) KClearCache = None ->
  gen_enf_emit x KClearCache d = x /\ abs (gen_enf_emit x KClearCache d) = emit_clear_cache (abs x).
Proof. exact gen_enf_emit_clear_cache. Qed.
Theorem link_on_policy_change : forall x f, abs (gen_enf_on x KPolicyChange f) = on_policy_change (abs x).
Proof. exact gen_enf_on_ok. Qed.
Theorem link_off_policy_change : forall x, abs (gen_enf_off x KPolicyChange) = off_policy_change (abs x).
Proof. exact gen_enf_off_ok. Qed.
Theorem link_register_g_functions : forall x,
  abs (fst (gen_enf_register_g_functions x)) = fst (register_g_functions (abs x)) /\
  snd (gen_enf_register_g_functions x) = lerr_out (snd (register_g_functions (abs x))) true.
Proof. exact gen_enf_register_g_functions_ok. Qed.
Theorem link_new_raw : forall d a,
  abs (fst (gen_enf_new_raw d a)) = fst (new_raw d a false) /\
  snd (gen_enf_new_raw d a) = lerr_out (snd (new_raw d a false)) true.
Proof. exact gen_enf_new_raw_ok. Qed.
Theorem link_new_enforcer : forall d a, (abs (fst (gen_enf_new d a)), snd (gen_enf_new d a)) = new_enforcer d a false.
Proof. exact gen_enf_new_ok. Qed.
Theorem link_core_call_load_policy : forall x,
  abs (fst (x_core_call x EnforcerGen.gen_load_policy)) = fst (step_load (abs x)) /\
  snd (x_core_call x EnforcerGen.gen_load_policy) = snd (step_load (abs x)).
Proof. exact core_call_load_policy. Qed.
Theorem link_fm_default :
  map (fun kf => (fst kf, opfun_arity (snd kf))) fm_default = gen_fm_default_table /\
  (forall n a, In (n, a) gen_fm_default_table -> In (n, OfBuiltin n) fm_default).
Proof. exact gen_fm_default_table_ok. Qed.
(* the dispatch order of Enforce.call_fn against the registrations of the rhai engine: PARTIAL (part 15, findings
   F1 / F2: a role definition named like a default function of the same arity shadows it in the engine) *)
Theorem link_engine_dispatch_partial : forall d a,
  snd (gen_enf_new d a) = Ok true ->
  builtins_unshadowed fm_default (f_gfuns (e_fs (abs (fst (gen_enf_new_raw d a))))) ->
  eng_coherent (fst (gen_enf_new d a)).
Proof. exact gen_enf_new_coherent_partial. Qed.
Theorem link_enf_enforce : forall ptab x rv, gen_enf_enforce ptab x rv = enforce ptab (abs x) rv.
Proof. exact gen_enf_enforce_ok. Qed.

(* ------------------------------------------------------------------ *)
(* (G) the built-in matcher functions                                  *)

Theorem link_key_match : forall k1 k2, gen_key_match k1 k2 = key_match k1 k2.
Proof. exact gen_key_match_ok. Qed.
Theorem link_key_get : forall k1 k2, gen_key_get k1 k2 = key_get k1 k2.
Proof. exact gen_key_get_ok. Qed.
(* the regex-based ones: wherever the model answers (pattern inside the modelled class) *)
Theorem link_key_match2 : forall k1 k2 b, key_match2 k1 k2 = Some b -> gen_key_match2 k1 k2 = Some b.
Proof. exact fm_key_match2_opt. Qed.
Theorem link_key_match3 : forall k1 k2 b, key_match3 k1 k2 = Some b -> gen_key_match3 k1 k2 = Some b.
Proof. exact fm_key_match3_opt. Qed.
Theorem link_key_match4 : forall k1 k2 b, key_match4 k1 k2 = Some b -> gen_key_match4 k1 k2 = Some b.
Proof. exact fm_key_match4_opt. Qed.
Theorem link_key_match5 : forall k1 k2 b, key_match5 k1 k2 = Some b -> gen_key_match5 k1 k2 = Some b.
Proof. exact fm_key_match5_opt. Qed.
Theorem link_regex_match : forall k pat b, regex_match_words k pat = Some b -> gen_regex_match k pat = Some b.
Proof. exact fm_regex_match_words_opt. Qed.
Theorem link_key_get2 : forall k1 k2 v t, key_get2 k1 k2 v = Some t -> gen_key_get2 k1 k2 v = Some t.
Proof. exact fm_key_get2_opt. Qed.
Theorem link_key_get3 : forall k1 k2 v t, key_get3 k1 k2 v = Some t -> gen_key_get3 k1 k2 v = Some t.
Proof. exact fm_key_get3_opt. Qed.

(* FunctionMap::default as ONE table: Enforce.builtin with every function replaced by its translation *)
Definition bi_skel :=
  ltac:(let t := eval cbv delta [builtin] in builtin in
        let t := eval pattern key_match, key_get, key_match2, key_match3, key_match4, key_match5,
                              regex_match_words, key_get2, key_get3 in t in
        match t with ?f _ _ _ _ _ _ _ _ _ => exact f end).
Lemma bi_skel_model :
  bi_skel key_match key_get key_match2 key_match3 key_match4 key_match5 regex_match_words key_get2 key_get3 = builtin.
Proof. reflexivity. Qed.
Definition lk_builtin :=
  bi_skel gen_key_match gen_key_get gen_key_match2 gen_key_match3 gen_key_match4 gen_key_match5
          gen_regex_match gen_key_get2 gen_key_get3.

Theorem link_builtin : forall f ss, lk_builtin f ss = builtin f ss \/ builtin f ss = Some EErr.
Proof.
  intros f ss. unfold lk_builtin, bi_skel, builtin. cbv beta.
  destruct ss as [|a [|b1 [|c [|x ss]]]]; try (left; reflexivity).
  - destruct (teqb f (T "keyMatch")); [left; rewrite gen_key_match_ok; reflexivity|].
    destruct (teqb f (T "keyGet")); [left; rewrite gen_key_get_ok; reflexivity|].
    destruct (teqb f (T "keyMatch2")).
    { destruct (key_match2 a b1) as [r|] eqn:E; [left; rewrite (fm_key_match2_opt _ _ _ E); reflexivity|right; reflexivity]. }
    destruct (teqb f (T "keyMatch3")).
    { destruct (key_match3 a b1) as [r|] eqn:E; [left; rewrite (fm_key_match3_opt _ _ _ E); reflexivity|right; reflexivity]. }
    destruct (teqb f (T "keyMatch4")).
    { destruct (key_match4 a b1) as [r|] eqn:E; [left; rewrite (fm_key_match4_opt _ _ _ E); reflexivity|right; reflexivity]. }
    destruct (teqb f (T "keyMatch5")).
    { destruct (key_match5 a b1) as [r|] eqn:E; [left; rewrite (fm_key_match5_opt _ _ _ E); reflexivity|right; reflexivity]. }
    destruct (teqb f (T "regexMatch")); [|left; reflexivity].
    destruct (regex_match_words a b1) as [r|] eqn:E; [left; rewrite (fm_regex_match_words_opt _ _ _ E); reflexivity|right; reflexivity].
  - destruct (teqb f (T "keyGet2")).
    { destruct (key_get2 a b1 c) as [r|] eqn:E; [left; rewrite (fm_key_get2_opt _ _ _ _ E); reflexivity|right; reflexivity]. }
    destruct (teqb f (T "keyGet3")); [|left; reflexivity].
    destruct (key_get3 a b1 c) as [r|] eqn:E; [left; rewrite (fm_key_get3_opt _ _ _ _ E); reflexivity|right; reflexivity].
Qed.
(* the second case is real (finding of part 16): outside the modelled class the source may answer *)
Example link_builtin_outside_class :
  builtin (T "regexMatch") [T "GETx"; T "^GET|POST$"] = Some EErr /\
  lk_builtin (T "regexMatch") [T "GETx"; T "^GET|POST$"] = Some (EV (VBool true)).
Proof. split; vm_compute; reflexivity. Qed.

(* ------------------------------------------------------------------ *)
(* (I) the cache of the cached enforcer                                *)

(* DefaultCache over mini-moka, which may forget: the entries it holds are a sub-cache of the model's list *)
Theorem link_cache_get : forall (m : moka ckey bool) k,
  let (m', r) := gen_cache_get ckey bool ckey_eqb m k in
  sub_cache (mk_entries m') (mk_entries m) /\ r = cache_get k (mk_entries m').
Proof. exact gen_cache_get_ok. Qed.
Theorem link_cache_set : forall (m : moka ckey bool) k v,
  sub_cache (mk_entries (gen_cache_set ckey bool ckey_eqb m k v)) ((k, v) :: mk_entries m) /\
  (mk_sched m = [] -> forall k', cache_get k' (mk_entries (gen_cache_set ckey bool ckey_eqb m k v)) = cache_get k' ((k, v) :: mk_entries m)) /\
  cache_get k (mk_entries (gen_cache_set ckey bool ckey_eqb m k v)) = Some v.
Proof. exact gen_cache_set_ok. Qed.
Theorem link_cache_clear : forall (m : moka ckey bool), mk_entries (gen_cache_clear ckey bool ckey_eqb m) = [].
Proof. exact gen_cache_clear_ok. Qed.
(* hence the cached enforcer over the TRANSLATED cache decides like the plain enforcer, whatever is forgotten *)
Theorem link_cache_same_decisions : forall ptab h s sched cap,
  mrun ptab {| ms_inner := s; ms_cache := gen_cache_new ckey bool sched cap |} h = prun ptab s h.
Proof. exact gen_cache_same_decisions. Qed.
(* the wrapped enforcer *)
Theorem link_cg_call : forall c o,
  cg_call c o = (let (s', r) := src_step (c_inner c) o in ({| c_inner := s'; c_cache := c_cache c |}, r)).
Proof. intros c o. unfold cg_call. rewrite src_step_eq. reflexivity. Qed.
Theorem link_cg_inner_enforce : forall ptab c rv,
  cg_inner_enforce ptab c rv =
  match src_enforce ptab (c_inner c) rv with Ok b => Ok (b, tt) | Err e => Err e | Panic => Panic end.
Proof. intros ptab c rv. unfold cg_inner_enforce. rewrite src_enforce_eq. reflexivity. Qed.
Theorem link_cg_inner_enforce_ctx : forall ptab c x rv,
  cg_inner_enforce_ctx ptab c x rv =
  match src_enforce_with_ctx4 ptab (c_inner c) (x_r x) (x_p x) (x_e x) (x_m x) rv with
  | Ok b => Ok (b, tt) | Err e => Err e | Panic => Panic end.
Proof. intros ptab c x rv. unfold cg_inner_enforce_ctx. rewrite src_enforce_with_ctx4_eq. reflexivity. Qed.
Theorem link_cenforce : forall ptab c k, gen_cenforce ptab c k = cenforce ptab c k.
Proof. exact gen_cenforce_ok. Qed.
Theorem link_enf_enforce_q : forall ptab s req, enf_enforce ptab s req = src_enforce ptab s (map VStr req).
Proof. intros ptab s req. unfold enf_enforce. rewrite src_enforce_eq. reflexivity. Qed.

(* ------------------------------------------------------------------ *)
(* (J) the lock programs of Model/Locks.v are the ones READ from the source *)

Theorem link_locks_enforce : forall k,
  gen_locks_private_enforce k = rm_part (enforce_prog k) /\
  gen_locks_private_enforce_with_context k = rm_part (enforce_prog k) /\
  gen_locks_enforce k = rm_part (enforce_prog k) /\
  gen_locks_enforce_with_context k = rm_part (enforce_prog k) /\
  gen_locks_cached_enforce k = rm_part (enforce_prog k).
Proof.
  intros k. exact (conj (pc_private_enforce_eq k) (conj (pc_private_enforce_with_context_eq k) (conj (pc_enforce_eq k) (conj (pc_enforce_with_context_eq k) (pc_cached_enforce_eq k))))).
Qed.
Theorem link_locks_mgmt : forall k,
  gen_locks_add_policy_internal k = rm_part (mgmt_prog k) /\
  gen_locks_add_policies_internal k = rm_part (mgmt_prog k) /\
  gen_locks_remove_policy_internal k = rm_part (mgmt_prog k) /\
  gen_locks_remove_policies_internal k = rm_part (mgmt_prog k) /\
  gen_locks_remove_filtered_policy_internal k = rm_part (mgmt_prog k) /\
  gen_locks_assertion_build_role_links k = rm_part (mgmt_prog k) /\
  gen_locks_assertion_build_incremental_role_links k = rm_part (mgmt_prog k) /\
  gen_locks_model_build_role_links k = rm_part (mgmt_prog k) /\
  gen_locks_model_build_incremental_role_links k = rm_part (mgmt_prog k) /\
  gen_locks_enforcer_build_role_links k = rm_part (mgmt_prog k) /\
  gen_locks_enforcer_build_incremental_role_links k = rm_part (mgmt_prog k).
Proof.
  intros k. exact (conj (pc_add_policy_internal_eq k) (conj (pc_add_policies_internal_eq k) (conj (pc_remove_policy_internal_eq k) (conj (pc_remove_policies_internal_eq k) (conj (pc_remove_filtered_policy_internal_eq k) (conj (pc_assertion_build_role_links_eq k) (conj (pc_assertion_build_incremental_role_links_eq k) (conj (pc_model_build_role_links_eq k) (conj (pc_model_build_incremental_role_links_eq k) (conj (pc_enforcer_build_role_links_eq k) (pc_enforcer_build_incremental_role_links_eq k))))))))))).
Qed.
Theorem link_locks_handle_read : forall k,
  gen_locks_get_roles_for_user k = handle_read_prog k /\
  gen_locks_get_users_for_role k = handle_read_prog k /\
  gen_locks_get_implicit_roles_for_user k = handle_read_prog k.
Proof.
  intros k. exact (conj (pc_get_roles_for_user_eq k) (conj (pc_get_users_for_role_eq k) (pc_get_implicit_roles_for_user_eq k))).
Qed.
(* every function of the table (the whole management / RBAC API): its executions issue a call program *)
Theorem link_locks_table : forall name p B lo hi, In (name, p, B, lo, hi) gen_locks_table ->
  forall t, lk_fn p t -> exists c, t = rm_part (call_prog c).
Proof. exact pc_table_calls. Qed.

(* ------------------------------------------------------------------ *)
(* (K) the upper layers: what Gen/ApiRt.v takes from Model/Engine.v      *)

Theorem link_int_add : forall s sec pt r, gen_add_policy_internal s sec pt r = step_add s sec pt r.
Proof. exact gen_add_policy_internal_ok. Qed.
Theorem link_int_add_many : forall s sec pt rs, gen_add_policies_internal s sec pt rs = step_add_many s sec pt rs.
Proof. exact gen_add_policies_internal_ok. Qed.
Theorem link_int_remove : forall s sec pt r, gen_remove_policy_internal s sec pt r = step_remove s sec pt r.
Proof. exact gen_remove_policy_internal_ok. Qed.
Theorem link_int_remove_many : forall s sec pt rs, gen_remove_policies_internal s sec pt rs = step_remove_many s sec pt rs.
Proof. exact gen_remove_policies_internal_ok. Qed.
Theorem link_int_remove_filtered : forall s sec pt idx vals,
  gen_remove_filtered_policy_internal s sec pt idx vals = step_remove_filtered s sec pt idx vals.
Proof. exact gen_remove_filtered_policy_internal_ok. Qed.
(* the pair that ApiRt.int_remove_filtered restores: its state and its flag are the translated function's *)
Theorem link_int_remove_filtered_pair : forall s sec pt idx vals,
  fst (int_remove_filtered s sec pt idx vals) = fst (gen_remove_filtered_policy_internal s sec pt idx vals) /\
  match snd (int_remove_filtered s sec pt idx vals), snd (gen_remove_filtered_policy_internal s sec pt idx vals) with
  | Ok (b, _), Ok b' => b = b'
  | Err e, Err e' => e = e'
  | Panic, Panic => True
  | _, _ => False
  end.
Proof.
  intros s sec pt idx vals. rewrite gen_remove_filtered_policy_internal_ok. unfold int_remove_filtered.
  destruct (step_remove_filtered s sec pt idx vals) as [s' [b|e|]]; split; reflexivity.
Qed.
(* the whole transition function and the decision, over the translated source *)
Theorem link_step : forall s o, src_step s o = step s o.
Proof. exact src_step_eq. Qed.
Theorem link_enforce : forall ptab s rv, src_enforce ptab s rv = enforce ptab s rv.
Proof. exact src_enforce_eq. Qed.
