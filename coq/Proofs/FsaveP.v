(* Facts used by PinChecks/PcFsaveGen.v (part 17 of rs2coq: the write side and
   the file reading of the file adapter, save / clear of the string adapter).

   A. the string-building operations of Gen/FsRt.v in the model's vocabulary
      (Csv.join, render_line_file / render_line_string, SpecC16.save_text_file, save_text_string).
   B. `save_spec`: the save protocol of FileAdapter::save_policy_file written
      once, by hand, over the calls of Gen/FsRt.v, and what it does under EVERY
      fault script: the calls it issues are those of Model/FileSave.v's
      `save_new` (all of them when nothing fails), the file system it leaves
      is a `run_cut` / `save_new_failed` state of that sequence, so that the
      C10 theorems (Proofs/C10P.v) apply; the result it reports is truthful.
      PcFsaveGen.v proves the TRANSLATED save_policy_file equal to save_spec.
   C. the `while let Some(line) = lines.next_line().await?` loop as a
      recursion over the lines (`read_run`), what it delivers under a fault
      script, and BufRead::lines against the model's split_lines.
   D. how results of the translated methods read as results of the adapter
      model (Engine.v: the ad0_.. functions). *)
From CV Require Import Model.Base Model.Csv Model.Enforce Model.Engine Model.FileSave Model.SpecC16.
From CV Require Import Gen.RustStr Gen.RustVec Gen.AdaptersPrims Gen.FsRt.
From CV Require Import Proofs.ListAux Proofs.BaseP Proofs.CsvP Proofs.C10P Proofs.RustVecP Proofs.AdaptersP.
From Coq Require Import Lia.

(* ================================================================== *)
(* A. strings                                                          *)

Lemma rs_join_join : forall v sep, rs_join v sep = join sep v.
Proof.
  intros v sep. induction v as [|x v IH]; [reflexivity|].
  cbn [rs_join join]. destruct v as [|y v]; [apply app_nil_r|]. rewrite IH. reflexivity.
Qed.

Lemma nl_10 : ascii_of_nat 10 = nl.
Proof. reflexivity. Qed.

(* the text built by the two nested loops of save_policy: one line per rule *)
Lemma fold_render_rules : forall (g : text -> rule -> text) k (rs : list rule) buf,
  fold_left (fun b r => b ++ g k r ++ [nl]) rs buf
  = buf ++ flat_map (fun l => g (hd [] l) (tl l) ++ [nl]) (map (fun r => k :: r) rs).
Proof.
  intros g k rs. induction rs as [|r rs IH]; intros buf; cbn [fold_left map flat_map].
  - symmetry. apply app_nil_r.
  - rewrite IH. cbn [hd tl]. rewrite <- !app_assoc. reflexivity.
Qed.

Lemma fold_render_amap : forall (g : text -> rule -> text) (F : text -> text * assertion -> text) (am : amap) buf,
  (forall b ka, F b ka = fold_left (fun b r => b ++ g (fst ka) r ++ [nl]) (a_policy (snd ka)) b) ->
  fold_left F am buf
  = buf ++ flat_map (fun l => g (hd [] l) (tl l) ++ [nl])
                    (flat_map (fun ka => map (fun r => fst ka :: r) (a_policy (snd ka))) am).
Proof.
  intros g F am buf HF. revert buf. induction am as [|ka am IH]; intros buf; cbn [fold_left flat_map].
  - symmetry. apply app_nil_r.
  - rewrite IH, HF, fold_render_rules, flat_map_app, <- app_assoc. reflexivity.
Qed.

(* ================================================================== *)
(* B. the save protocol                                                *)

Definition tmp_of (path : text) : text := path ++ T ".tmp".

Lemma tmp_of_neq : forall path, tmp_of path <> path.
Proof.
  intros path E. apply (f_equal (@length ascii)) in E. unfold tmp_of in E.
  rewrite app_length in E. cbn [T length] in E. vm_compute (length (T ".tmp")) in E. lia.
Qed.

Definition io_err {A} (e : io_error) : res casbin_error A := RErr (ErrIo e).

(* FileAdapter::save_policy_file, by hand: create the temporary file, write,
   flush - on an error of any of the three remove the temporary file (ignoring
   how that goes) and report the error -, then rename it over the policy file *)
Definition save_spec (path : text) (w : world) (bytes : text) : world * res casbin_error unit :=
  let tmp := tmp_of path in
  let cleanup (w1 : world) (e : io_error) := let (w2, _) := fs_remove_file w1 tmp in (w2, @io_err unit e) in
  let (w1, r1) := fs_create w tmp in
  match r1 with
  | RErr e => cleanup w1 e
  | ROk file =>
    let (w2, r2) := fs_write_all w1 file bytes in
    match r2 with
    | RErr e => cleanup w2 e
    | ROk _ =>
      let (w3, r3) := fs_flush w2 file in
      match r3 with
      | RErr e => cleanup w3 e
      | ROk _ =>
        let (w4, r4) := fs_rename w3 tmp path in
        match r4 with
        | RErr e => (w4, io_err e)
        | ROk _ => (w4, ROk tt)
        end
      end
    end
  end.

Definition mkw (fs : fsys) (ops : list fop) (sc : list fault) (dead : bool) : world :=
  {| w_fs := fs; w_ops := ops; w_script := sc; w_dead := dead |}.

Definition fault_ok (f : fault) : bool := match f with FOk => true | _ => false end.
Definition all_ok (sc : list fault) : bool := forallb fault_ok sc.

Lemma all_ok_tl : forall sc, all_ok sc = true -> all_ok (tl sc) = true.
Proof. intros [|f sc] H; [reflexivity|]. cbn [all_ok forallb] in H. apply andb_true_iff in H. apply H. Qed.

(* a call on a live world whose next script entry is FOk (or missing) completes *)
Lemma fs_call_ok : forall fs ops sc o, all_ok sc = true ->
  fs_call (mkw fs ops sc false) o = (mkw (apply_fop fs o) (ops ++ [o]) (tl sc) false, fop_accepted fs o).
Proof.
  intros fs ops sc o H. unfold fs_call, mkw. cbn [w_dead w_script w_fs w_ops].
  destruct sc as [|[|k|k] sc]; try reflexivity; discriminate H.
Qed.
Lemma fs_tick_ok : forall fs ops sc, all_ok sc = true ->
  fs_tick (mkw fs ops sc false) = (mkw fs ops (tl sc) false, true).
Proof.
  intros fs ops sc H. unfold fs_tick, mkw. cbn [w_dead w_script w_fs w_ops].
  destruct sc as [|[|k|k] sc]; try reflexivity; discriminate H.
Qed.

Lemma tl_tl_tl_tl : forall {A} (l : list A), tl (tl (tl (tl l))) = skipn 4 l.
Proof. intros A [|a [|b [|c [|d l]]]]; reflexivity. Qed.

(* (S1) nothing fails: the calls are exactly save_new, in order, all completed *)
Theorem save_spec_ok : forall path fs ops sc bytes, all_ok sc = true ->
  save_spec path (mkw fs ops sc false) bytes
  = (mkw (run_fops fs (save_new (tmp_of path) path bytes)) (ops ++ save_new (tmp_of path) path bytes) (skipn 4 sc) false,
     ROk tt).
Proof.
  intros path fs ops sc bytes H. unfold save_spec, fs_create, fs_write_all, fs_flush, fs_rename.
  rewrite fs_call_ok by exact H. cbn [fop_accepted io_result].
  rewrite fs_call_ok by (apply all_ok_tl, H). cbn [fop_accepted apply_fop]. unfold content at 1. rewrite assoc_set_same.
  cbn [io_result]. rewrite fs_tick_ok by (apply all_ok_tl, all_ok_tl, H). cbn [io_result].
  rewrite fs_call_ok by (apply all_ok_tl, all_ok_tl, all_ok_tl, H).
  cbn [fop_accepted]. unfold content at 1. rewrite assoc_set_same.
  cbn [io_result]. unfold run_fops, save_new. cbn [fold_left].
  rewrite tl_tl_tl_tl, <- !app_assoc. cbn [app apply_fop]. rewrite !assoc_set_same. reflexivity.
Qed.

Arguments tmp_of : simpl never.

(* every script: split on the entries the protocol consumes *)
Ltac fs_norm :=
  cbn [w_dead w_script w_fs w_ops fst snd io_result fop_accepted apply_fop apply_cut andb app];
  unfold content; rewrite ?assoc_set_same;
  cbn [w_dead w_script w_fs w_ops fst snd io_result fop_accepted apply_fop apply_cut andb app].
Ltac script_split :=
  repeat (fs_norm;
          match goal with
          | |- context [match ?s with [] => _ | _ :: _ => _ end] => is_var s; destruct s as [|[|?|?] s]
          end);
  fs_norm.
Ltac save_unfold :=
  unfold save_spec, fs_create, fs_write_all, fs_flush, fs_rename, fs_remove_file, fs_call, fs_tick, mkw, io_err.

Ltac cut_closer :=
  unfold save_new_failed, save_new; cbn [run_cut apply_fop app]; unfold content; rewrite ?assoc_set_same; cbn [app]; reflexivity.
Ltac cut_try k0 :=
  first [ exists 0, k0; left; cut_closer | exists 0, k0; right; cut_closer
        | exists 1, k0; left; cut_closer | exists 1, k0; right; cut_closer
        | exists 2, k0; left; cut_closer | exists 2, k0; right; cut_closer
        | exists 3, k0; left; cut_closer ].
Ltac cut_pick := first [ match goal with k : nat |- _ => cut_try k end | cut_try 0 ].

Theorem save_spec_cut : forall path w bytes,
  exists n k, w_fs (fst (save_spec path w bytes)) = run_cut (save_new (tmp_of path) path bytes) n k (w_fs w)
           \/ w_fs (fst (save_spec path w bytes)) = save_new_failed (tmp_of path) path bytes n k (w_fs w).
Proof.
  intros path [fs ops sc [|]] bytes.
  - save_unfold. fs_norm. exists 0, 0. left. reflexivity.
  - save_unfold. script_split; cut_pick.
Qed.

(* (S2) the headline: under every fault script - errors, kills, several of them - the policy file holds
   the complete old contents or the complete new contents *)
Theorem save_spec_atomic : forall path w bytes,
  let fs' := w_fs (fst (save_spec path w bytes)) in
  content fs' path = content (w_fs w) path \/ content fs' path = Some bytes.
Proof.
  intros path w bytes. cbv zeta. destruct (save_spec_cut path w bytes) as [n [k [E|E]]]; rewrite E.
  - apply save_atomic, tmp_of_neq.
  - apply (save_atomic_cleanup (tmp_of path) path bytes n k (w_fs w)), tmp_of_neq.
Qed.

(* (S3) the reported result is truthful: Ok only when the whole sequence ran (the policy file holds the new
   contents and there is no temporary file); otherwise the policy file is as it was *)
Theorem save_spec_truthful : forall path w bytes,
  (snd (save_spec path w bytes) = ROk tt ->
     w_fs (fst (save_spec path w bytes)) = run_fops (w_fs w) (save_new (tmp_of path) path bytes)) /\
  (snd (save_spec path w bytes) <> ROk tt ->
     content (w_fs (fst (save_spec path w bytes))) path = content (w_fs w) path).
Proof.
  intros path [fs ops sc [|]] bytes.
  - save_unfold. fs_norm. split; [discriminate|reflexivity].
  - save_unfold. script_split; (split; [intros H; try discriminate H|intros H; try (exfalso; apply H; reflexivity)]);
      unfold run_fops, save_new; cbn [fold_left apply_fop]; unfold content; rewrite ?assoc_set_same; cbn [app];
      repeat first [rewrite assoc_remove_other by apply tmp_of_neq | rewrite assoc_set_other by apply tmp_of_neq];
      reflexivity.
Qed.

(* (S6) the calls it issues: a prefix of save_new, then possibly the removal of the temporary file *)
Ltac ops_closer := unfold save_new; cbn [firstn app]; rewrite <- ?app_assoc; cbn [app]; reflexivity.
Ltac ops_try m := first [ exists m; left; ops_closer | exists m; right; ops_closer ].
Theorem save_spec_ops : forall path w bytes,
  exists m, w_ops (fst (save_spec path w bytes)) = w_ops w ++ firstn m (save_new (tmp_of path) path bytes)
         \/ w_ops (fst (save_spec path w bytes)) = w_ops w ++ firstn m (save_new (tmp_of path) path bytes) ++ [Remove (tmp_of path)].
Proof.
  intros path [fs ops sc [|]] bytes.
  - save_unfold. fs_norm. exists 0. left. cbn [firstn]. symmetry. apply app_nil_r.
  - save_unfold. script_split; first [ops_try 0 | ops_try 1 | ops_try 2 | ops_try 3].
Qed.

(* (S4) one reported error, at call n (0 create, 1 write_all after k bytes, 2 flush), the clean-up succeeding:
   the state is FileSave.v's save_new_failed - no temporary file is left; at call 3 (rename) the temporary
   file, complete, is left behind and the policy file is untouched *)
Theorem save_spec_one_error : forall path fs ops n k rest bytes, n <= 2 -> all_ok rest = true ->
  save_spec path (mkw fs ops (repeat FOk n ++ FErr k :: rest) false) bytes
  = (mkw (save_new_failed (tmp_of path) path bytes n k fs)
         (ops ++ firstn (S n) [Create (tmp_of path); Append (tmp_of path) bytes] ++ [Remove (tmp_of path)])
         (tl rest) false, RErr (ErrIo IoOs)).
Proof.
  intros path fs ops n k rest bytes Hn Hrest.
  assert (Hr : forall fs0 ops0 o, fs_call {| w_fs := fs0; w_ops := ops0; w_script := rest; w_dead := false |} o
                = (mkw (apply_fop fs0 o) (ops0 ++ [o]) (tl rest) false, fop_accepted fs0 o)) by (intros; apply (fs_call_ok _ _ _ _ Hrest)).
  destruct n as [|[|[|n]]]; [| | |lia]; cbn [repeat app]; unfold save_spec, fs_create, fs_write_all, fs_flush, fs_rename, fs_remove_file, io_err.
  - unfold fs_call at 1, mkw. fs_norm. rewrite Hr. unfold mkw, save_new_failed, save_new. cbn [run_cut apply_fop firstn app].
    rewrite <- app_assoc. reflexivity.
  - unfold fs_call at 1, mkw. fs_norm. unfold fs_call at 1. fs_norm. rewrite Hr. unfold mkw, save_new_failed, save_new.
    cbn [run_cut apply_fop firstn app]. unfold content; rewrite ?assoc_set_same. cbn [app]. rewrite <- !app_assoc. reflexivity.
  - unfold fs_call at 1, mkw. fs_norm. unfold fs_call at 1. fs_norm. unfold fs_tick. fs_norm. rewrite Hr.
    unfold mkw, save_new_failed, save_new.
    cbn [run_cut apply_fop firstn app]. unfold content; rewrite ?assoc_set_same. cbn [app]. rewrite <- !app_assoc. reflexivity.
Qed.

Theorem save_spec_rename_error : forall path fs ops k rest bytes,
  save_spec path (mkw fs ops (repeat FOk 3 ++ FErr k :: rest) false) bytes
  = (mkw (run_cut (save_new (tmp_of path) path bytes) 2 0 fs) (ops ++ save_new (tmp_of path) path bytes) rest false,
     RErr (ErrIo IoOs)).
Proof.
  intros path fs ops k rest bytes. cbn [repeat app]. save_unfold. fs_norm.
  unfold save_new. cbn [run_cut apply_fop]. unfold content; rewrite ?assoc_set_same. cbn [app]. rewrite <- !app_assoc. reflexivity.
Qed.

(* (S5) the process killed during call n (3 = the rename, which then has not happened): the file system is
   FileSave.v's interrupted run; nothing that follows in the code has any effect *)
Theorem save_spec_killed : forall path fs ops n k rest bytes, n <= 3 ->
  w_fs (fst (save_spec path (mkw fs ops (repeat FOk n ++ FCrash k :: rest) false) bytes))
  = run_cut (save_new (tmp_of path) path bytes) (Nat.min n 2) k fs /\
  w_dead (fst (save_spec path (mkw fs ops (repeat FOk n ++ FCrash k :: rest) false) bytes)) = true.
Proof.
  intros path fs ops n k rest bytes Hn.
  destruct n as [|[|[|[|n]]]]; [| | | |lia]; cbn [repeat app Nat.min]; save_unfold; fs_norm;
    unfold save_new; cbn [run_cut apply_fop]; unfold content; rewrite ?assoc_set_same; cbn [app]; split; reflexivity.
Qed.

(* ================================================================== *)
(* C. reading                                                          *)

(* `while let Some(line) = lines.next_line().await? { step }` over the lines still to come: every next_line
   consumes one script entry; an error leaves the loop with what was delivered so far.
   None = the step panicked; the boolean = the loop ran to the end of the file *)
Fixpoint read_lines {X} (step : X -> text -> option X) (ls : list text) (x : X) (w : world) : option (X * world * bool) :=
  let (w', ok) := fs_tick w in
  if ok then match ls with
             | [] => Some (x, w', true)
             | l :: r => match step x l with Some x' => read_lines step r x' w' | None => None end
             end
  else Some (x, w', false).

Lemma rs_while_some_S : forall {A St R} f (cond : St -> flow (St * option A) R) (body : A -> St -> flow St R) s,
  rs_while_some (S f) cond body s =
  match cond s with
  | LNext (s1, Some x) =>
      match body x s1 with
      | LNext s2 => rs_while_some f cond body s2
      | LBreak s2 => Done s2
      | LReturn r => Returned r
      | LPanic => Panicked
      end
  | LNext (s1, None) => Done s1
  | LBreak _ => Panicked
  | LReturn r => Returned r
  | LPanic => Panicked
  end.
Proof. reflexivity. Qed.

Section WhileLines.
  Context {X St R : Type}.
  Variable mk : list text -> X -> world -> St.
  Variable step : X -> text -> option X.
  Variable fail : X -> world -> io_error -> R.

  (* the loop SHAPE: from a pointwise description of the scrutinee and of the body *)
  Lemma rs_while_lines : forall (cond : St -> flow (St * option text) R) (body : text -> St -> flow St R),
    (forall ls x w, cond (mk ls x w) =
                    let '(w', ls', r) := fs_next_line w ls in
                    match r with ROk o => LNext (mk ls' x w', o) | RErr e => LReturn (fail x w' e) end) ->
    (forall l ls x w, body l (mk ls x w) = match step x l with Some x' => LNext (mk ls x' w) | None => LPanic end) ->
    forall ls x w s fuel, s = mk ls x w -> fuel = S (length ls) ->
    rs_while_some fuel cond body s =
    match read_lines step ls x w with
    | None => Panicked
    | Some (x', w', true) => Done (mk [] x' w')
    | Some (x', w', false) => Returned (fail x' w' IoOs)
    end.
  Proof.
    intros cond body Hc Hb ls. induction ls as [|l ls IH]; intros x w s fuel Hs Hf; subst s fuel.
    - rewrite rs_while_some_S. cbn [read_lines]. rewrite Hc. unfold fs_next_line.
      destruct (fs_tick w) as [w' [|]]; reflexivity.
    - rewrite rs_while_some_S. cbn [read_lines]. rewrite Hc. unfold fs_next_line.
      destruct (fs_tick w) as [w' [|]]; [|reflexivity].
      rewrite Hb. destruct (step x l) as [x'|]; [|reflexivity]. apply IH; reflexivity.
  Qed.
End WhileLines.

Lemma fs_tick_fs : forall w, w_fs (fst (fs_tick w)) = w_fs w /\ w_ops (fst (fs_tick w)) = w_ops w.
Proof.
  intros [fs ops sc [|]]; unfold fs_tick; cbn [w_dead]; [split; reflexivity|].
  cbn [w_script]. destruct sc as [|[|k|k] sc]; split; reflexivity.
Qed.

(* nothing fails: every line is delivered; one script entry a line and one for the end of the file *)
Lemma read_lines_ok : forall {X} (f : X -> text -> X) (step : X -> text -> option X),
  (forall x l, step x l = Some (f x l)) ->
  forall ls x fs ops sc, all_ok sc = true ->
  read_lines step ls x (mkw fs ops sc false) = Some (fold_left f ls x, mkw fs ops (skipn (S (length ls)) sc) false, true).
Proof.
  intros X f step Hstep ls. induction ls as [|l ls IH]; intros x fs ops sc H; cbn [read_lines length fold_left].
  - rewrite fs_tick_ok by exact H. destruct sc; reflexivity.
  - rewrite fs_tick_ok by exact H. rewrite Hstep. fold (mkw fs ops (tl sc) false).
    rewrite IH by (apply all_ok_tl, H). destruct sc as [|a sc]; [destruct (length ls); reflexivity|reflexivity].
Qed.

(* under ANY script: a prefix of the lines is delivered, all of them when the loop reports the end of the
   file; no file is touched *)
Lemma read_lines_prefix : forall {X} (f : X -> text -> X) (step : X -> text -> option X),
  (forall x l, step x l = Some (f x l)) ->
  forall ls x w, exists j w' b,
    read_lines step ls x w = Some (fold_left f (firstn j ls) x, w', b) /\
    j <= length ls /\ (b = true -> j = length ls) /\ w_fs w' = w_fs w /\ w_ops w' = w_ops w.
Proof.
  intros X f step Hstep ls. induction ls as [|l ls IH]; intros x w; cbn [read_lines].
  - destruct (fs_tick_fs w) as [F1 F2]. destruct (fs_tick w) as [w' [|]]; cbn [fst] in F1, F2.
    + exists 0, w', true. repeat split; try assumption; reflexivity.
    + exists 0, w', false. repeat split; try assumption; try reflexivity; try discriminate.
  - destruct (fs_tick_fs w) as [F1 F2]. destruct (fs_tick w) as [w' [|]]; cbn [fst] in F1, F2.
    + rewrite Hstep. destruct (IH (f x l) w') as [j [w2 [b [E [Hj [Hb [G1 G2]]]]]]].
      exists (S j), w2, b. cbn [firstn fold_left length]. rewrite E.
      repeat split; try lia; try congruence. intros Hb'. rewrite (Hb Hb'). reflexivity.
    + exists 0, w', false. cbn [firstn fold_left length]. repeat split; try assumption; try lia; try discriminate.
Qed.

(* FileAdapter::load_policy_file / load_filtered_policy_file, by hand: open, then the loop over lines() *)
Definition load_spec {X} (step : X -> text -> option X) (path : text) (x : X) (w : world)
  : option (X * world * res casbin_error unit) :=
  let (w1, r) := fs_open w path in
  match r with
  | RErr e => Some (x, w1, io_err e)
  | ROk file =>
    match read_lines step (fs_lines w1 file) x w1 with
    | None => None
    | Some (x', w2, true) => Some (x', w2, ROk tt)
    | Some (x', w2, false) => Some (x', w2, io_err IoOs)
    end
  end.

Lemma load_spec_ok : forall {X} (f : X -> text -> X) (step : X -> text -> option X),
  (forall x l, step x l = Some (f x l)) ->
  forall path x fs ops sc bytes, all_ok sc = true -> content fs path = Some bytes ->
  load_spec step path x (mkw fs ops sc false)
  = Some (fold_left f (rs_buf_lines bytes) x, mkw fs ops (skipn (2 + length (rs_buf_lines bytes)) sc) false, ROk tt).
Proof.
  intros X f step Hstep path x fs ops sc bytes H Hc. unfold load_spec, fs_open.
  rewrite fs_tick_ok by exact H. change (w_fs (mkw fs ops sc false)) with fs. rewrite Hc. cbn [andb io_result].
  unfold fs_lines. change (w_fs (mkw fs ops (tl sc) false)) with fs. rewrite Hc.
  rewrite (read_lines_ok f step Hstep) by (apply all_ok_tl, H).
  destruct sc as [|a sc]; [destruct (length (rs_buf_lines bytes)); reflexivity|reflexivity].
Qed.

(* no such file: an error, nothing delivered *)
Lemma load_spec_missing : forall {X} (step : X -> text -> option X) path x w, content (w_fs w) path = None ->
  exists w', load_spec step path x w = Some (x, w', RErr (ErrIo IoOs)) /\ w_fs w' = w_fs w.
Proof.
  intros X step path x w Hc. unfold load_spec, fs_open. rewrite Hc.
  destruct (fs_tick_fs w) as [F1 _]. destruct (fs_tick w) as [w' ok]. cbn [fst] in F1.
  rewrite andb_false_r. cbn [io_result]. exists w'. split; [reflexivity|exact F1].
Qed.

(* under any script: a prefix of the lines of the file is delivered, all of them when Ok is reported *)
Lemma load_spec_prefix : forall {X} (f : X -> text -> X) (step : X -> text -> option X),
  (forall x l, step x l = Some (f x l)) ->
  forall path x w bytes, content (w_fs w) path = Some bytes ->
  exists j w' r, load_spec step path x w = Some (fold_left f (firstn j (rs_buf_lines bytes)) x, w', r) /\
                 (r = ROk tt -> j = length (rs_buf_lines bytes)) /\ w_fs w' = w_fs w /\ w_ops w' = w_ops w.
Proof.
  intros X f step Hstep path x w bytes Hc. unfold load_spec, fs_open. rewrite Hc.
  destruct (fs_tick_fs w) as [F1 F2]. destruct (fs_tick w) as [w1 [|]]; cbn [fst andb io_result] in *.
  - unfold fs_lines. rewrite F1, Hc.
    destruct (read_lines_prefix f step Hstep (rs_buf_lines bytes) x w1) as [j [w2 [b [E [Hj [Hb [G1 G2]]]]]]].
    rewrite E. destruct b.
    + exists j, w2, (ROk tt). repeat split; try congruence. intros _. apply Hb. reflexivity.
    + exists j, w2, (io_err IoOs). repeat split; try congruence; try discriminate.
  - exists 0, w1, (io_err IoOs). cbn [firstn fold_left]. repeat split; try assumption; try discriminate.
Qed.

(* ---- BufRead::lines against the model's split_lines: the same parsed lines ---- *)
Definition tok (l : text) : list rule := match load_line_tokens l with Some t => [t] | None => [] end.

Lemma cr_ws : forall c, Nat.eqb (nat_of_ascii c) 13 = true -> is_ws c = true.
Proof. intros c H. apply Nat.eqb_eq in H. unfold is_ws. rewrite H. reflexivity. Qed.

Lemma cr_not_hash : forall c, Nat.eqb (nat_of_ascii c) 13 = true -> Ascii.eqb c hash = false.
Proof.
  intros c H. apply Nat.eqb_eq in H. destruct (Ascii.eqb c hash) eqn:E; [|reflexivity].
  apply Ascii.eqb_eq in E. subst c. discriminate H.
Qed.

(* a carriage return at the end of a line does not change what the line handler sees *)
Lemma load_line_tokens_snoc_cr : forall m c, Nat.eqb (nat_of_ascii c) 13 = true ->
  load_line_tokens (m ++ [c]) = load_line_tokens m.
Proof.
  intros m c Hc. pose proof (cr_ws c Hc) as Hws.
  assert (Ht : trim (m ++ [c]) = trim m) by (apply trim_ws_r; cbn [all_ws forallb]; rewrite Hws; reflexivity).
  destruct m as [|d m].
  - cbn [app load_line_tokens]. rewrite (cr_not_hash c Hc). unfold parse_csv_line.
    change [c] with ([] ++ [c]). rewrite Ht. reflexivity.
  - cbn [app load_line_tokens]. destruct (Ascii.eqb d hash); [reflexivity|].
    unfold parse_csv_line. change (d :: m ++ [c]) with ((d :: m) ++ [c]). rewrite Ht. reflexivity.
Qed.

Lemma tok_strip_cr : forall l, tok (rs_strip_cr l) = tok l.
Proof.
  intros l. unfold rs_strip_cr, tok. destruct (rev l) as [|c r] eqn:E; [reflexivity|].
  destruct (Nat.eqb (nat_of_ascii c) 13) eqn:Hc; [|reflexivity].
  assert (El : l = rev r ++ [c]) by (rewrite <- (rev_involutive l), E; reflexivity).
  rewrite El, (load_line_tokens_snoc_cr _ _ Hc). reflexivity.
Qed.

Lemma tok_lines_from : forall s cur,
  flat_map tok (rs_lines_from cur s) = flat_map tok (split_lines s (rev cur)).
Proof.
  induction s as [|c s IH]; intros cur; cbn [rs_lines_from split_lines].
  - rewrite rev_involutive. destruct cur as [|a cur]; reflexivity.
  - rewrite nl_eqb. destruct (Ascii.eqb c nl).
    + cbn [flat_map]. rewrite tok_strip_cr, rev_involutive, (IH []). reflexivity.
    + rewrite IH, rev_app_distr. reflexivity.
Qed.

(* what the file adapter reads from a text is what the model's AFile holds for it *)
Lemma tok_buf_lines : forall s, flat_map tok (rs_buf_lines s) = parsed_lines s.
Proof. intros s. unfold rs_buf_lines, parsed_lines. apply (tok_lines_from s []). Qed.

(* ================================================================== *)
(* D. results of the translated methods as results of the adapter model *)

Definition errc_of (e : casbin_error) : errc :=
  match e with ErrIo _ => EIo | ErrModel _ => EModel | ErrAdapter _ => EAdapter end.
Definition out_of {A} (r : res casbin_error A) : outcome A :=
  match r with ROk a => Ok a | RErr e => Err (errc_of e) end.
Definition lres_of (r : res casbin_error unit) : lres :=
  match r with ROk _ => LROk | RErr e => LRErr (errc_of e) end.

(* ---- the text save_policy builds, as the model's ---- *)
Definition render_step (g : text -> rule -> text) (buf : text) (ka : text * assertion) : text :=
  fold_left (fun b r => b ++ g (fst ka) r ++ [nl]) (a_policy (snd ka)) buf.

Lemma render_folds : forall (g : text -> rule -> text) md amp, assoc s_p md = Some amp ->
  flat_map (fun l => g (hd [] l) (tl l) ++ [nl]) (text_lines md)
  = match assoc s_g md with
    | Some amg => fold_left (render_step g) amg (fold_left (render_step g) amp [])
    | None => fold_left (render_step g) amp []
    end.
Proof.
  intros g md amp E. unfold text_lines. rewrite E, flat_map_app.
  rewrite (fold_render_amap g (render_step g) amp []) by (intros; reflexivity). cbn [app].
  destruct (assoc s_g md) as [amg|].
  - rewrite (fold_render_amap g (render_step g) amg) by (intros; reflexivity). reflexivity.
  - cbn [flat_map]. apply app_nil_r.
Qed.

Lemma save_text_file_folds : forall md amp, assoc s_p md = Some amp ->
  save_text_file md = match assoc s_g md with
                      | Some amg => fold_left (render_step render_line_file) amg (fold_left (render_step render_line_file) amp [])
                      | None => fold_left (render_step render_line_file) amp []
                      end.
Proof. intros md amp E. apply (render_folds render_line_file md amp E). Qed.

Lemma save_text_string_folds : forall md amp, assoc s_p md = Some amp ->
  save_text_string md = match assoc s_g md with
                        | Some amg => fold_left (render_step render_line_string) amg (fold_left (render_step render_line_string) amp [])
                        | None => fold_left (render_step render_line_string) amp []
                        end.
Proof. intros md amp E. apply (render_folds render_line_string md amp E). Qed.

Lemma read_lines_ext : forall {X} (s1 s2 : X -> text -> option X), (forall x l, s1 x l = s2 x l) ->
  forall ls x w, read_lines s1 ls x w = read_lines s2 ls x w.
Proof.
  intros X s1 s2 H ls. induction ls as [|l ls IH]; intros x w; cbn [read_lines]; [reflexivity|].
  destruct (fs_tick w) as [w' [|]]; [|reflexivity]. rewrite H. destruct (s2 x l); [apply IH|reflexivity].
Qed.

Lemma load_spec_ext : forall {X} (s1 s2 : X -> text -> option X), (forall x l, s1 x l = s2 x l) ->
  forall path x w, load_spec s1 path x w = load_spec s2 path x w.
Proof.
  intros X s1 s2 H path x w. unfold load_spec. destruct (fs_open w path) as [w1 [file|e]]; [|reflexivity].
  rewrite (read_lines_ext s1 s2 H). reflexivity.
Qed.
