(* Part 21 (linking), the state invariant under which the role-manager links hold.
   link_inv s:
     rm_wf s        the enforcer's current role manager is well formed (Proofs/C13P.v);
     gfuns_wf s     every role manager that a registered g-closure captured and that was since replaced
                    (handle HFrozen m _) is well formed.
   Both are needed because the translated DefaultRoleManager is proved equal to the model under `rm_inv`
   (distinct node weights, edges between nodes: PinChecks/PcRoleManagerGen.v), which the representation
   `rm_conc` of a plain manager has exactly when the manager is `wf` (Proofs/LinkRmP.v).
   link_inv holds after new_enforcer and is preserved by every `step`. *)
From CV Require Import Model.Base Model.RoleGraph Model.Expr Model.Enforce Model.Engine.
From CV Require Import Proofs.BaseP Proofs.RoleGraphP Proofs.C13P Proofs.Enforcer2P.

Definition handle_wf (h : handle) : Prop :=
  match h with HFrozen m _ => wf m | _ => True end.
Definition gfuns_ok (gf : list ((text * nat) * handle)) : Prop :=
  forall k h, In (k, h) gf -> handle_wf h.
Definition gfuns_wf (s : estate) : Prop := gfuns_ok (f_gfuns (e_fs s)).

Definition link_inv (s : estate) : Prop := rm_wf s /\ gfuns_wf s.

(* the manager and the hierarchy bound behind a handle *)
Definition handle_rm (fs : fstate) (h : handle) : rmgr :=
  match h with HOwn => [] | HCur => f_rm fs | HFrozen m _ => m end.
Definition handle_lvl (fs : fstate) (h : handle) : nat :=
  match h with HOwn => 0 | HCur => f_rm_max fs | HFrozen _ mx => mx end.

Lemma handle_rm_wf : forall fs h, wf (f_rm fs) -> handle_wf h -> wf (handle_rm fs h).
Proof. intros fs [| |m mx] Hwf Hh; cbn [handle_rm]; [apply wf_nil|exact Hwf|exact Hh]. Qed.

Lemma find_gfun_In : forall k gf h, find_gfun k gf = Some h -> exists k', In (k', h) gf.
Proof.
  intros k. induction gf as [|[k' h'] gf IH]; intros h H; cbn [find_gfun] in H; [discriminate|].
  destruct (gkey_eqb k k').
  - injection H as <-. exists k'. left. reflexivity.
  - destruct (IH h H) as (k'' & Hin). exists k''. right. exact Hin.
Qed.

(* ---- register_g_functions only adds closures over the CURRENT manager ---- *)
Lemma register_g_ok : forall am gf, gfuns_ok gf -> gfuns_ok (fst (register_g am gf)).
Proof.
  induction am as [|[k a] am IH]; intros gf H; cbn [register_g]; [exact H|].
  destruct (Nat.eqb (count_us (a_value a)) 2).
  - apply IH. intros k' h [E|Hin]; [inversion E; exact I|apply (H k' h Hin)].
  - destruct (Nat.eqb (count_us (a_value a)) 3); [|exact H].
    apply IH. intros k' h [E|Hin]; [inversion E; exact I|apply (H k' h Hin)].
Qed.

Lemma register_g_functions_inv : forall s, link_inv s -> link_inv (fst (register_g_functions s)).
Proof.
  intros s [Hwf Hg]. unfold register_g_functions. destruct (assoc s_g (e_model s)) as [am|]; [|split; assumption].
  pose proof (register_g_ok am (f_gfuns (e_fs s)) Hg) as H.
  destruct (register_g am (f_gfuns (e_fs s))) as [gf e]. split; [exact Hwf|exact H].
Qed.

Lemma gfuns_frame_inv : forall s s', rm_wf s' -> gfuns_wf s -> f_gfuns (e_fs s') = f_gfuns (e_fs s) -> link_inv s'.
Proof. intros s s' Hwf Hg E. split; [exact Hwf|]. unfold gfuns_wf. rewrite E. exact Hg. Qed.

Lemma shape_gfuns : forall s s' sec pt pol' ins rs,
  mgmt_shape s s' sec pt pol' ins rs -> f_gfuns (e_fs s') = f_gfuns (e_fs s).
Proof. intros s s' sec pt pol' ins rs [(_ & (_ & Hg & _) & _) _ _ _]. exact Hg. Qed.

Lemma inv_srf : forall s sec pt idx vals, link_inv s -> link_inv (fst (step_remove_filtered s sec pt idx vals)).
Proof.
  intros s sec pt idx vals [Hwf Hg]. pose proof (wf_srf s sec pt idx vals Hwf) as Hwf'.
  destruct (step_remove_filtered s sec pt idx vals) as [s' out] eqn:H.
  apply step_remove_filtered_shape in H. cbv zeta in H. destruct H as (pol' & rs & Hsh & _).
  apply (gfuns_frame_inv s); [exact Hwf'|exact Hg|apply (shape_gfuns _ _ _ _ _ _ _ Hsh)].
Qed.

Lemma inv_seq_or : forall ra f, link_inv (fst ra) -> (forall s, link_inv s -> link_inv (fst (f s))) ->
  link_inv (fst (seq_or ra f)).
Proof.
  intros [s [a|c|]] f H Hf; cbn [seq_or fst] in *; try exact H.
  specialize (Hf s H). destruct (f s) as [s' [b|c|]]; exact Hf.
Qed.

Lemma inv_build_role_links : forall s, gfuns_wf s -> link_inv (fst (build_role_links s)).
Proof.
  intros s Hg. pose proof (wf_build_role_links s) as Hwf.
  destruct (build_role_links s) as [s' e] eqn:H. apply build_role_links_frame in H.
  destruct H as (_ & Hgf & _). apply (gfuns_frame_inv s); assumption.
Qed.

Lemma inv_emit : forall s ev, link_inv s -> link_inv (emit s ev).
Proof. intros s ev H. unfold emit. destruct (e_watcher s); exact H. Qed.

Lemma inv_finish_load : forall s ad md r, link_inv s -> link_inv (fst (finish_load s ad md r)).
Proof.
  intros s ad md r [Hwf Hg]. unfold finish_load. destruct r as [|e|]; try (split; assumption).
  destruct (e_auto_build (upd_model (upd_adapter s ad) md)); [|split; assumption].
  pose proof (inv_build_role_links (upd_model (upd_adapter s ad) md) Hg) as H.
  destruct (build_role_links (upd_model (upd_adapter s ad) md)) as [s2 e]. exact H.
Qed.

Lemma inv_step_load : forall s, link_inv s -> link_inv (fst (step_load s)).
Proof.
  intros s H. unfold step_load.
  destruct (ad_load (e_adapter s) (m_clear_policy (e_model s))) as [[ad md] r]. apply inv_finish_load, H.
Qed.

Ltac by_shape lem H Hwf Hg :=
  apply lem in H; destruct H as (?pol' & _ & ?Hsh);
  apply (gfuns_frame_inv _ _ (wf_shape _ _ _ _ _ _ _ Hsh Hwf) Hg (shape_gfuns _ _ _ _ _ _ _ Hsh)).

Theorem link_inv_step : forall s o, link_inv s -> link_inv (fst (step s o)).
Proof.
  intros s o Hinv. pose proof Hinv as [Hwf Hg]. destruct o; cbn [step].
  - destruct (step_add s sec pt r) as [s' out] eqn:H. by_shape step_add_shape H Hwf Hg.
  - destruct (step_add_many s sec pt rs) as [s' out] eqn:H. by_shape step_add_many_shape H Hwf Hg.
  - destruct (step_remove s sec pt r) as [s' out] eqn:H. by_shape step_remove_shape H Hwf Hg.
  - destruct (step_remove_many s sec pt rs) as [s' out] eqn:H. by_shape step_remove_many_shape H Hwf Hg.
  - apply inv_srf, Hinv.
  - destruct r; cbn [step_rbac].
    + destruct (step_add s s_p s_p (user :: perm)) as [s' out] eqn:H. by_shape step_add_shape H Hwf Hg.
    + destruct (step_add_many s s_p s_p _) as [s' out] eqn:H. by_shape step_add_many_shape H Hwf Hg.
    + destruct (step_add s s_g s_g _) as [s' out] eqn:H. by_shape step_add_shape H Hwf Hg.
    + destruct (step_add_many s s_g s_g _) as [s' out] eqn:H. by_shape step_add_many_shape H Hwf Hg.
    + destruct (step_remove s s_g s_g _) as [s' out] eqn:H. by_shape step_remove_shape H Hwf Hg.
    + apply inv_srf, Hinv.
    + apply inv_seq_or; [apply inv_srf, Hinv|]. intros s1 H1. apply inv_srf, H1.
    + apply inv_seq_or; [apply inv_srf, Hinv|]. intros s1 H1. apply inv_srf, H1.
    + apply inv_srf, Hinv.
    + destruct (step_remove s s_p s_p _) as [s' out] eqn:H. by_shape step_remove_shape H Hwf Hg.
    + apply inv_srf, Hinv.
  - (* OClear *)
    unfold step_clear.
    destruct (if e_auto_save s then ad_clear (e_adapter s) else (e_adapter s, LROk)) as [ad r].
    destruct r as [|e|]; try exact Hinv.
    set (s2 := upd_model (upd_adapter s ad) (m_clear_policy (e_model (upd_adapter s ad)))).
    assert (H2 : link_inv s2) by (split; assumption).
    destruct (e_auto_build s2).
    + pose proof (inv_build_role_links s2 Hg) as H. destruct (build_role_links s2) as [s3 [|e]];
        cbn [fst] in *; [|exact H]. apply inv_emit, H.
    + apply inv_emit, H2.
  - apply inv_step_load, Hinv.
  - unfold step_load_filtered.
    destruct (ad_load_filtered (e_adapter s) fp fg (m_clear_policy (e_model s))) as [[ad md] r].
    apply inv_finish_load, Hinv.
  - unfold step_save. destruct (ad_is_filtered (e_adapter s)); [exact Hinv|].
    destruct (ad_save (e_adapter s) (e_model s)) as [ad [|e|]]; cbn [fst]; try exact Hinv.
    apply inv_emit. exact Hinv.
  - pose proof (inv_build_role_links s Hg) as H. destruct (build_role_links s) as [s' e]. exact H.
  - (* OSetModel *)
    unfold step_set_model.
    match goal with |- link_inv (fst (match step_load ?s0 with _ => _ end)) =>
      assert (H0 : link_inv s0) by (split; assumption);
      pose proof (inv_step_load s0 H0) as H; destruct (step_load s0) as [s1 [b|e|]] end;
      cbn [fst] in *; try exact H.
    pose proof (register_g_functions_inv s1 H) as Hr. destruct (register_g_functions s1) as [s2 e]. exact Hr.
  - unfold step_set_adapter. apply inv_step_load. split; assumption.
  - (* OSetRoleManager: the closures over the current manager keep the (well-formed) manager they captured *)
    unfold step_set_role_manager. cbv zeta.
    match goal with |- link_inv (fst (let (s2, e) := (if e_auto_build ?x then _ else _) in _)) =>
      set (s1 := x) end.
    assert (Hg1 : gfuns_wf s1).
    { unfold gfuns_wf, s1. cbn [e_fs upd_fs f_gfuns]. intros k h Hin. apply in_map_iff in Hin.
      destruct Hin as ([k0 h0] & E & Hin0). cbn [fst snd] in E. inversion E; subst k h.
      specialize (Hg k0 h0 Hin0). destruct h0 as [| |m0 mx0]; cbn [freeze_handle handle_wf] in *; auto. }
    assert (H1 : link_inv s1) by (split; [apply wf_nil|exact Hg1]).
    assert (H2 : link_inv (fst (if e_auto_build s1 then build_role_links s1 else (s1, LOk)))).
    { destruct (e_auto_build s1); [apply inv_build_role_links, Hg1|exact H1]. }
    destruct (if e_auto_build s1 then build_role_links s1 else (s1, LOk)) as [s2 [|c]];
      cbn [fst] in *; [|exact H2].
    pose proof (register_g_functions_inv s2 H2) as Hr. destruct (register_g_functions s2) as [s3 e']. exact Hr.
  - exact Hinv.
  - exact Hinv.
  - exact Hinv.
  - exact Hinv.
  - exact Hinv.
  - exact Hinv.
Qed.

Theorem link_inv_new_enforcer : forall d a w, link_inv (fst (new_enforcer d a w)).
Proof.
  intros d a w. unfold new_enforcer.
  assert (H0 : link_inv (fst (new_raw d a w))).
  { unfold new_raw. apply register_g_functions_inv. split; [apply wf_nil|]. intros k h []. }
  destruct (new_raw d a w) as [s [|e]]; cbn [fst] in *; [|exact H0].
  destruct (ad_is_filtered (e_adapter s)); [exact H0|]. apply inv_step_load, H0.
Qed.

Theorem link_inv_run_ops : forall ops s, link_inv s -> link_inv (run_ops s ops).
Proof.
  unfold run_ops. induction ops as [|o ops IH]; intros s H; cbn [fold_left]; [exact H|].
  apply IH, link_inv_step, H.
Qed.

Theorem link_inv_reachable : forall d a w ops, link_inv (run_ops (fst (new_enforcer d a w)) ops).
Proof. intros d a w ops. apply link_inv_run_ops, link_inv_new_enforcer. Qed.
