(* C04 at the level of the TRANSLATED SOURCE: the headline theorems of Properties/C04.v restated about `src_step` /
   `src_run_ops` / `src_enforce*` (Proofs/SrcStepP.v: the dispatch over Gen/InternalGen.v from src/internal_api.rs,
   Gen/ApiGen.v from src/rbac_api.rs + src/management_api.rs, Gen/EnforcerGen.v from src/enforcer.rs, and
   Gen/EnforceGen.v for the decisions).  Proofs: the C04 theorems composed with src_step_eq & co. *)
From CV Require Import Model.Base Model.Effector Model.RoleGraph Model.Expr Model.Enforce Model.Engine Model.SpecC04.
From CV Require Import Proofs.BaseP Proofs.C04InvP Proofs.C04StepP Proofs.C04P Proofs.C04LinksP Proofs.SrcStepP.

(* ---- (1) the store invariant along every history of translated calls ---- *)
Lemma src_c04_inv_step : forall s o, StoreInv s -> op_ok o -> StoreInv (fst (src_step s o)).
Proof. intros s o Hs Ho. rewrite src_step_eq. apply step_inv; assumption. Qed.

Lemma src_c04_inv_run : forall ops s,
  StoreInv s -> Forall op_ok ops -> StoreInv (src_run_ops s ops).
Proof. intros ops s Hs Ho. rewrite src_run_ops_eq. apply run_ops_inv; assumption. Qed.

(* ---- (3) an ACCEPTED management call: the addressed list is the ideal ordered-set result ---- *)
Lemma src_c04_accept : forall s o sec pt b ad a l' flag rs s' res,
  bop_of o = Some (sec, pt, b) ->
  adapter_call s sec pt b = (ad, Ok true) ->
  get_ast (e_model s) sec pt = Some a ->
  sp_apply b (a_policy a) = Some (l', flag, rs) ->
  src_step s o = (s', res) ->
  m_get_policy (e_model s') sec pt = l' /\
  (forall sec' pt', (sec', pt') <> (sec, pt) ->
                    m_get_policy (e_model s') sec' pt' = m_get_policy (e_model s) sec' pt') /\
  eqh (e_model s') (set_policy (e_model s) sec pt l') /\
  e_adapter s' = ad /\ frame s s' /\
  res = mgmt_answer s sec pt b flag rs /\
  e_fs s' = set_rm (e_fs s) (mgmt_rm s sec pt b flag rs).
Proof.
  intros s o sec pt b ad a l' flag rs s' res Hb Hc Hg Hsp Hst. rewrite src_step_eq in Hst.
  exact (step_mgmt_accept s o sec pt b ad a l' flag rs s' res Hb Hc Hg Hsp Hst).
Qed.

(* the adapter refuses, fails or panics: its answer is the call's answer and nothing but the adapter moves *)
Lemma src_c04_refuse : forall s o sec pt b ad r,
  bop_of o = Some (sec, pt, b) -> adapter_call s sec pt b = (ad, r) -> r <> Ok true ->
  src_step s o = (upd_adapter s ad, r).
Proof. intros s o sec pt b ad r Hb Hc Hr. rewrite src_step_eq. eapply step_mgmt_refuse; eassumption. Qed.

(* ---- (4) flag = change; no change = identity ---- *)
Lemma src_c04_flag_is_change : forall s o s' c, mgmt_op o -> src_step s o = (s', Ok c) ->
  (c = true <-> pols_differ (e_model s) (e_model s')).
Proof. intros s o s' c Hm Hst. rewrite src_step_eq in Hst. exact (flag_is_change s o s' c Hm Hst). Qed.

Lemma src_c04_false_is_identity : forall s o s',
  mgmt_op o -> src_step s o = (s', Ok false) -> unchanged s s'.
Proof. intros s o s' Hm Hst. rewrite src_step_eq in Hst. exact (false_is_identity s o s' Hm Hst). Qed.

Lemma src_c04_false_keeps_decisions : forall ptab s o s', mgmt_op o -> src_step s o = (s', Ok false) ->
  (forall rv, src_enforce ptab s' rv = src_enforce ptab s rv) /\
  (forall k rv, src_enforce_with_ctx ptab s' k rv = src_enforce_with_ctx ptab s k rv).
Proof.
  intros ptab s o s' Hm Hst. rewrite src_step_eq in Hst.
  destruct (false_keeps_decisions ptab s o s' Hm Hst) as [Hp Hc]. split.
  - intros rv. rewrite !src_enforce_eq. apply Hp.
  - intros k rv. rewrite !src_enforce_with_ctx_eq. apply Hc.
Qed.

(* ---- (6) the executable predicate holds of the translated source's own trace ---- *)
(* Proofs/C04P.model_trace, by the same text over src_step *)
Fixpoint src_model_trace (s : estate) (ops : list op) : list (op * outcome bool * list rule * list rule) :=
  match ops with
  | [] => []
  | o :: ops' =>
    let (s', res) := src_step s o in
    (o, res, m_get_all (e_model s') s_p, m_get_all (e_model s') s_g) :: src_model_trace s' ops'
  end.

Lemma src_model_trace_eq : forall ops s, src_model_trace s ops = model_trace s ops.
Proof.
  induction ops as [|o ops IH]; intros s; [reflexivity|].
  cbn [src_model_trace model_trace]. rewrite src_step_eq. destruct (step s o) as [s' res]. rewrite IH. reflexivity.
Qed.

Lemma src_c04_pred_holds : forall ops s,
  accepting s -> Forall (fun o => in_scope (e_auto_build s) o = true) ops ->
  c04_check (ideal_of (e_model s)) (src_model_trace s ops) = true.
Proof. intros ops s Ha Hs. rewrite src_model_trace_eq. apply c04_check_model; assumption. Qed.
