(* C04: concrete states and calls (non-vacuity, refutation witnesses). *)
From CV Require Import Model.Base Model.Effector Model.RoleGraph Model.Expr Model.Enforce
     Model.Engine Model.SpecC04.
From CV Require Import Proofs.BaseP Proofs.C04P Proofs.C04LinksP.
From Coq Require Import Lia.
Open Scope string_scope. Open Scope list_scope.

Definition R (l : list string) : rule := map T l.
Definition mk_ast (v : string) (toks : list string) : assertion :=
  {| a_value := T v; a_tokens := map T toks; a_policy := []; a_handle := HOwn |}.
Definition ex_model : model :=
  [ (s_r, [(T "r", mk_ast "sub, obj, act" ["r_sub"; "r_obj"; "r_act"])]);
    (s_p, [(T "p", mk_ast "sub, obj, act" ["p_sub"; "p_obj"; "p_act"]);
           (T "p2", mk_ast "sub, act" ["p2_sub"; "p2_act"])]);
    (s_g, [(T "g", mk_ast "_, _" []); (T "g2", mk_ast "_, _, _" [])]);
    (s_e, [(T "e", mk_ast "some(where (p_eft == allow))" [])]);
    (s_m, [(T "m", mk_ast "g(r_sub, p_sub) && r_obj == p_obj && r_act == p_act" [])]) ].
Definition ex_def : modeldef := {| d_model := ex_model; d_mexprs := [] |}.
Definition ex_lines : list rule :=
  [ R ["p"; "p"; "alice"; "data1"; "read"];
    R ["p"; "p"; "bob"; "data2"; "write"];
    R ["p"; "p"; "alice"; "data2"; "read"];
    R ["p"; "p"; "carol"; "data1"; "write"];
    R ["p"; "p2"; "alice"; "admin"];
    R ["g"; "g"; "alice"; "admin"];
    R ["g"; "g"; "bob"; "admin"];
    R ["g"; "g2"; "alice"; "admin"; "dom1"] ].
(* memory adapter in sync with the store, auto-save / auto-build on *)
Definition ex_s0 : estate := fst (new_enforcer ex_def (AMemory ex_lines false) true).
(* the same with auto-save off: every call goes straight to the model *)
Definition ex_s1 : estate := fst (step ex_s0 (OEnableAutoSave false)).
(* ... and auto-build off too *)
Definition ex_s2 : estate := fst (step ex_s1 (OEnableAutoBuild false)).
Definition pol (s : estate) (sec pt : string) : list rule := m_get_policy (e_model s) (T sec) (T pt).
Definition after (s : estate) (o : op) : estate := fst (step s o).

Definition ex_pp : list rule :=
  [R ["alice"; "data1"; "read"]; R ["bob"; "data2"; "write"];
   R ["alice"; "data2"; "read"]; R ["carol"; "data1"; "write"]].

Example ex_init :
  snd (new_enforcer ex_def (AMemory ex_lines false) true) = Ok true /\
  model_invb (e_model ex_s0) = true /\
  pol ex_s0 "p" "p" = ex_pp /\ pol ex_s0 "p" "p2" = [R ["alice"; "admin"]] /\
  pol ex_s0 "g" "g" = [R ["alice"; "admin"]; R ["bob"; "admin"]] /\
  pol ex_s0 "g" "g2" = [R ["alice"; "admin"; "dom1"]].
Proof. vm_compute. repeat split. Qed.

(* re-adding a stored rule: false, contents and ORDER as before -- through the
   model (auto-save off) and through the in-sync memory adapter (which refuses) *)
Example ex_readd :
  snd (step ex_s1 (OAdd s_p s_p (R ["alice"; "data1"; "read"]))) = Ok false /\
  pol (after ex_s1 (OAdd s_p s_p (R ["alice"; "data1"; "read"]))) "p" "p" = ex_pp /\
  snd (step ex_s0 (OAdd s_p s_p (R ["alice"; "data1"; "read"]))) = Ok false /\
  pol (after ex_s0 (OAdd s_p s_p (R ["alice"; "data1"; "read"]))) "p" "p" = ex_pp.
Proof. vm_compute. repeat split. Qed.

Example ex_add_new :
  snd (step ex_s0 (OAdd s_p s_p (R ["dave"; "data1"; "read"]))) = Ok true /\
  pol (after ex_s0 (OAdd s_p s_p (R ["dave"; "data1"; "read"]))) "p" "p" =
  ex_pp ++ [R ["dave"; "data1"; "read"]].
Proof. vm_compute. repeat split. Qed.

(* a batch with an internal duplicate: first occurrences, appended in order *)
Definition ex_batch : list rule :=
  [R ["dave"; "data1"; "read"]; R ["erin"; "data1"; "read"]; R ["dave"; "data1"; "read"]].
Example ex_batch_dup :
  snd (step ex_s0 (OAddMany s_p s_p ex_batch)) = Ok true /\
  pol (after ex_s0 (OAddMany s_p s_p ex_batch)) "p" "p" =
  ex_pp ++ [R ["dave"; "data1"; "read"]; R ["erin"; "data1"; "read"]].
Proof. vm_compute. repeat split. Qed.

(* a batch containing a stored rule: nothing at all is added *)
Example ex_batch_present :
  snd (step ex_s1 (OAddMany s_p s_p [R ["dave"; "data1"; "read"]; R ["bob"; "data2"; "write"]])) = Ok false /\
  pol (after ex_s1 (OAddMany s_p s_p [R ["dave"; "data1"; "read"]; R ["bob"; "data2"; "write"]])) "p" "p" = ex_pp.
Proof. vm_compute. repeat split. Qed.

Example ex_remove_many :
  snd (step ex_s1 (ORemoveMany s_p s_p [R ["alice"; "data1"; "read"]; R ["bob"; "data2"; "write"]])) = Ok true /\
  pol (after ex_s1 (ORemoveMany s_p s_p [R ["alice"; "data1"; "read"]; R ["bob"; "data2"; "write"]])) "p" "p" =
  [R ["alice"; "data2"; "read"]; R ["carol"; "data1"; "write"]] /\
  snd (step ex_s1 (ORemoveMany s_p s_p [R ["alice"; "data1"; "read"]; R ["zed"; "data2"; "write"]])) = Ok false /\
  pol (after ex_s1 (ORemoveMany s_p s_p [R ["alice"; "data1"; "read"]; R ["zed"; "data2"; "write"]])) "p" "p" = ex_pp.
Proof. vm_compute. repeat split. Qed.

(* a filter with an interior wildcard *)
Example ex_filtered_wild :
  snd (step ex_s0 (ORemoveFiltered s_p s_p 0 (R ["alice"; ""; "read"]))) = Ok true /\
  pol (after ex_s0 (ORemoveFiltered s_p s_p 0 (R ["alice"; ""; "read"]))) "p" "p" =
  [R ["bob"; "data2"; "write"]; R ["carol"; "data1"; "write"]].
Proof. vm_compute. repeat split. Qed.

(* a non-empty filter value beyond the end of a stored rule *)
Example ex_out_of_range :
  snd (step ex_s1 (ORemoveFiltered s_p (T "p2") 0 (R [""; ""; "x"]))) = Panic /\
  sp_remove_filtered (pol ex_s1 "p" "p2") 0 (R [""; ""; "x"]) = None /\
  e_model (after ex_s1 (ORemoveFiltered s_p (T "p2") 0 (R [""; ""; "x"]))) = e_model ex_s1.
Proof. vm_compute. repeat split. Qed.

(* an unknown policy type *)
Example ex_unknown :
  snd (step ex_s1 (OAdd s_p (T "p9") (R ["alice"; "data1"; "read"]))) = Ok false /\
  e_model (after ex_s1 (OAdd s_p (T "p9") (R ["alice"; "data1"; "read"]))) = e_model ex_s1 /\
  snd (step ex_s1 (ORemoveFiltered s_p (T "p9") 0 (R ["alice"]))) = Ok false.
Proof. vm_compute. repeat split. Qed.

(* delete_user = two filtered removals, g/g then p/p *)
Example ex_delete_user :
  snd (step ex_s0 (ORbac (RDeleteUser (T "alice")))) = Ok true /\
  pol (after ex_s0 (ORbac (RDeleteUser (T "alice")))) "g" "g" = [R ["bob"; "admin"]] /\
  pol (after ex_s0 (ORbac (RDeleteUser (T "alice")))) "p" "p" =
  [R ["bob"; "data2"; "write"]; R ["carol"; "data1"; "write"]] /\
  pol (after ex_s0 (ORbac (RDeleteUser (T "alice")))) "p" "p2" = [R ["alice"; "admin"]] /\
  snd (step ex_s0 (ORbac (RDeleteUser (T "zed")))) = Ok false.
Proof. vm_compute. repeat split. Qed.

Example ex_clear :
  snd (step ex_s0 OClear) = Ok true /\
  m_get_all (e_model (after ex_s0 OClear)) s_p = [] /\ m_get_all (e_model (after ex_s0 OClear)) s_g = [] /\
  f_rm (e_fs (after ex_s0 OClear)) = [].
Proof. vm_compute. repeat split. Qed.

(* ---- the hypotheses of the theorems are satisfiable ---- *)
Example ex_accept_hyps :
  adapter_call ex_s1 s_p s_p (BAdd (R ["dave"; "data1"; "read"])) = (e_adapter ex_s1, Ok true) /\
  option_map a_policy (get_ast (e_model ex_s1) s_p s_p) = Some ex_pp /\
  sp_apply (BAdd (R ["dave"; "data1"; "read"])) ex_pp =
  Some (ex_pp ++ [R ["dave"; "data1"; "read"]], true, [R ["dave"; "data1"; "read"]]).
Proof. vm_compute. repeat split. Qed.

Example ex_memory_accepts :
  snd (adapter_call ex_s0 s_p s_p (BAdd (R ["dave"; "data1"; "read"]))) = Ok true /\
  snd (adapter_call ex_s0 s_p s_p (BAdd (R ["alice"; "data1"; "read"]))) = Ok false.
Proof. vm_compute. repeat split. Qed.

(* the role-link condition holds for ordinary grouping calls *)
Example ex_links_fine_add : g_links_fine ex_s0 s_g true [R ["dave"; "admin"]].
Proof.
  intros a H. vm_compute in H. inversion H; subst. vm_compute. split; [lia|reflexivity].
Qed.
Example ex_links_fine_del : g_links_fine ex_s0 s_g false [R ["alice"; "admin"]].
Proof.
  intros a H. vm_compute in H. inversion H; subst. vm_compute. split; [lia|reflexivity].
Qed.
Example ex_links_fine_g2 : g_links_fine ex_s0 (T "g2") false [R ["alice"; "admin"; "dom1"]].
Proof.
  intros a H. vm_compute in H. inversion H; subst. vm_compute. split; [lia|reflexivity].
Qed.
Example ex_g_remove :
  snd (step ex_s0 (ORemove s_g s_g (R ["alice"; "admin"]))) = Ok true /\
  pol (after ex_s0 (ORemove s_g s_g (R ["alice"; "admin"]))) "g" "g" = [R ["bob"; "admin"]].
Proof. vm_compute. repeat split. Qed.

(* ---- what the theorems do NOT say, with witnesses ---- *)
(* a grouping rule shorter than its definition: the call fails with an error
   AFTER the rule was stored (and handed to the adapter) *)
Example ex_short_g_rule_not_atomic :
  snd (step ex_s0 (OAdd s_g s_g (R ["x"]))) = Err EPolicy /\
  pol (after ex_s0 (OAdd s_g s_g (R ["x"]))) "g" "g" = [R ["alice"; "admin"]; R ["bob"; "admin"]; R ["x"]] /\
  links_okb 2 true (f_rm (e_fs ex_s0)) [R ["x"]] = false.
Proof. vm_compute. repeat split. Qed.

(* removing a grouping rule whose names the role manager does not know
   (stored while auto-build was off): Err after the rule was removed *)
Definition ex_s3 : estate :=
  after (after (after ex_s0 (OEnableAutoBuild false)) (OAdd s_g s_g (R ["zoe"; "staff"]))) (OEnableAutoBuild true).
Example ex_unknown_names_not_atomic :
  snd (step ex_s3 (ORemove s_g s_g (R ["zoe"; "staff"]))) = Err ERbac /\
  pol ex_s3 "g" "g" = [R ["alice"; "admin"]; R ["bob"; "admin"]; R ["zoe"; "staff"]] /\
  pol (after ex_s3 (ORemove s_g s_g (R ["zoe"; "staff"]))) "g" "g" = [R ["alice"; "admin"]; R ["bob"; "admin"]] /\
  links_okb 2 false (f_rm (e_fs ex_s3)) [R ["zoe"; "staff"]] = false.
Proof. vm_compute. repeat split. Qed.

(* OSetModel with a definition whose own rule list has a duplicate, and an
   adapter whose load fails: the invariant is lost (op_ok is needed) *)
Definition ex_dup_def : modeldef :=
  {| d_model := [(s_p, [(T "p", {| a_value := T "sub"; a_tokens := [T "p_sub"];
                                   a_policy := [R ["a"]; R ["a"]]; a_handle := HOwn |})])];
     d_mexprs := [] |}.
Definition ex_sF : estate := fst (new_enforcer ex_def (AScripted ANull [RPass; RFail]) false).
Example ex_inv_needs_op_ok :
  model_invb (e_model ex_sF) = true /\
  model_invb (e_model (after ex_sF (OSetModel ex_dup_def))) = false.
Proof. vm_compute. repeat split. Qed.

(* clear answers Ok true on an empty store: its flag is not "changed" *)
Definition ex_empty : estate := fst (new_enforcer ex_def ANull false).
Example ex_clear_true_on_empty :
  snd (step ex_empty OClear) = Ok true /\ e_model (after ex_empty OClear) = e_model ex_empty.
Proof. vm_compute. repeat split. Qed.

(* a call answering Ok false may still redirect a role-manager handle: the
   identity of theorem false_is_identity is up to handles and no better *)
Definition ex_h0 : estate :=
  after (fst (new_enforcer ex_def (AMemory ex_lines true) false)) (OEnableAutoSave false).
Example ex_false_moves_handle :
  option_map a_handle (get_ast (e_model ex_h0) s_g s_g) = Some HOwn /\
  snd (step ex_h0 (ORemoveFiltered s_g s_g 0 (R ["zed"]))) = Ok false /\
  option_map a_handle (get_ast (e_model (after ex_h0 (ORemoveFiltered s_g s_g 0 (R ["zed"])))) s_g s_g) = Some HCur.
Proof. vm_compute. repeat split. Qed.

(* a filtered removal that matches nothing answers Err, not Ok false, when the
   grouping definition is malformed (fewer than two underscores) *)
Definition ex_bad_def : modeldef :=
  {| d_model := [(s_p, [(T "p", mk_ast "sub, obj" ["p_sub"; "p_obj"])]); (s_g, [(T "g", mk_ast "_" [])])];
     d_mexprs := [] |}.
Definition ex_b0 : estate := fst (new_enforcer ex_bad_def ANull false).
Example ex_nomatch_bad_def :
  snd (step ex_b0 (ORemoveFiltered s_g s_g 0 (R ["zed"]))) = Err EModel /\
  snd (step ex_b0 (ORemove s_g s_g (R ["zed"; "y"]))) = Ok false.
Proof. vm_compute. repeat split. Qed.

(* the memory adapter stores a line for a policy type the model does not
   know: the call answers Ok false but the adapter has changed *)
Example ex_unknown_type_reaches_adapter :
  snd (step ex_s0 (OAdd s_p (T "p9") (R ["alice"; "x"]))) = Ok false /\
  e_adapter (after ex_s0 (OAdd s_p (T "p9") (R ["alice"; "x"]))) =
  AMemory (ex_lines ++ [R ["p"; "p9"; "alice"; "x"]]) false.
Proof. vm_compute. repeat split. Qed.

(* ---- the executable predicate on concrete traces ---- *)
Definition ex_ops : list op :=
  [ OAdd s_p s_p (R ["alice"; "data1"; "read"]);
    OAdd s_p s_p (R ["dave"; "data1"; "read"]);
    OAddMany s_p s_p ex_batch;
    OAddMany s_p (T "p2") ex_batch;
    ORemoveMany s_p s_p [R ["alice"; "data1"; "read"]; R ["zed"; "data2"; "write"]];
    ORemoveFiltered s_p s_p 0 (R ["alice"; ""; "read"]);
    ORemoveFiltered s_p (T "p2") 0 (R [""; ""; "x"]);
    OAdd s_p (T "p9") (R ["alice"; "data1"; "read"]);
    OAdd s_g s_g (R ["carol"; "admin"]);
    ORbac (RAddRole (T "dave") (T "admin") None);
    ORbac (RDeleteUser (T "alice"));
    ORbac (RDeletePermission (R ["data2"]));
    OClear;
    OAdd s_p s_p (R ["alice"; "data1"; "read"]) ].

Example ex_scope : accepting ex_s2 /\ forallb (in_scope (e_auto_build ex_s2)) ex_ops = true.
Proof. split; [left|]; vm_compute; reflexivity. Qed.

(* by computation; also an instance of c04_check_model *)
Example ex_check_quiet : c04_check (ideal_of (e_model ex_s2)) (model_trace ex_s2 ex_ops) = true.
Proof. vm_compute. reflexivity. Qed.

(* with the in-sync memory adapter and role links on, on a well-formed model,
   the same calls still pass (outside the scope of c04_check_model) *)
Example ex_check_full : c04_check (ideal_of (e_model ex_s0)) (model_trace ex_s0 ex_ops) = true.
Proof. vm_compute. reflexivity. Qed.

(* the predicate rejects wrong observations: a wrong flag, a reordered store *)
Example ex_check_rejects_flag :
  c04_check (ideal_of (e_model ex_s2))
            [(OAdd s_p s_p (R ["alice"; "data1"; "read"]), Ok true,
              m_get_all (e_model ex_s2) s_p, m_get_all (e_model ex_s2) s_g)] = false.
Proof. vm_compute. reflexivity. Qed.
Example ex_check_rejects_order :
  c04_check (ideal_of (e_model ex_s2))
            [(OAdd s_p s_p (R ["alice"; "data1"; "read"]), Ok false,
              rev (m_get_all (e_model ex_s2) s_p), m_get_all (e_model ex_s2) s_g)] = false.
Proof. vm_compute. reflexivity. Qed.
(* hashlink's LinkedHashSet::insert moves a re-inserted rule to the back; a
   store that did this on re-add would be rejected *)
Example ex_check_rejects_move_to_back :
  c04_check (ideal_of (e_model ex_s2))
            [(OAdd s_p s_p (R ["alice"; "data1"; "read"]), Ok false,
              map (fun r => T "p" :: T "p" :: r)
                  [R ["bob"; "data2"; "write"]; R ["alice"; "data2"; "read"];
                   R ["carol"; "data1"; "write"]; R ["alice"; "data1"; "read"]]
              ++ [R ["p"; "p2"; "alice"; "admin"]],
              m_get_all (e_model ex_s2) s_g)] = false.
Proof. vm_compute. reflexivity. Qed.

(* read views on the example *)
Example ex_views :
  m_get_filtered (e_model ex_s0) s_p s_p 1 (R ["data1"]) =
  Some [R ["alice"; "data1"; "read"]; R ["carol"; "data1"; "write"]] /\
  m_values (e_model ex_s0) s_p s_p 0 = Some (R ["bob"; "alice"; "carol"]) /\
  m_values (e_model ex_s0) s_p s_p 3 = None /\
  m_has_policy (e_model ex_s0) s_p s_p (R ["bob"; "data2"; "write"]) = true.
Proof. vm_compute. repeat split. Qed.

(* ---- role-manager synchronisation ---- *)
Example ex_gsync : GSync ex_s0 /\ e_auto_build ex_s0 = true.
Proof.
  apply (new_enforcer_gsync ex_def (AMemory ex_lines false) true ex_s0 true); [reflexivity|].
  vm_compute. reflexivity.
Qed.

Definition ex_g_ops : list op :=
  [ ORemove s_g s_g (R ["alice"; "admin"]);
    OAdd s_g (T "g2") (R ["bob"; "admin"; "dom2"]);
    ORbac (RDeleteUser (T "bob"));
    ORemoveFiltered s_g (T "g2") 2 (R ["dom2"]);
    OAdd s_g s_g (R ["carol"; "admin"]) ].
Example ex_all_ok : all_ok ex_s0 ex_g_ops.
Proof.
  unfold ex_g_ops. cbn [all_ok mgmt_op]. repeat split; try (eexists; vm_compute; reflexivity).
Qed.

(* a state that is NOT in sync (a grouping rule stored while auto-build was off) *)
Example ex_not_gsync : ~ GSync ex_s3.
Proof.
  intros H.
  destruct (get_ast (e_model ex_s3) s_g s_g) as [a|] eqn:E; [|vm_compute in E; discriminate].
  destruct (H s_g a (R ["zoe"; "staff"]) E) as [_ U].
  - vm_compute in E. inversion E. vm_compute. right. right. left. reflexivity.
  - vm_compute in E. inversion E; subst. vm_compute in U. discriminate.
Qed.
