(* C16 part A / C09 text clause: the CSV policy-line format round-trips. *)
From CV Require Import Model.Base Model.Enforce Model.Engine Model.Csv Model.SpecC16.
From CV Require Import Proofs.BaseP.
From Coq Require Import Lia.

(* ------------------------------------------------------------------ *)
(* characters                                                           *)
(* ------------------------------------------------------------------ *)
Lemma aeqb_true : forall a b, Ascii.eqb a b = true -> a = b.
Proof. intros a b H. apply Ascii.eqb_eq, H. Qed.
Lemma aeqb_false : forall a b, Ascii.eqb a b = false <-> a <> b.
Proof. intros a b. apply Ascii.eqb_neq. Qed.

Lemma ws_not_comma : forall c, is_ws c = true -> c <> comma.
Proof. intros c H E. subst c. vm_compute in H. discriminate. Qed.
Lemma ws_not_dquote : forall c, is_ws c = true -> c <> dquote.
Proof. intros c H E. subst c. vm_compute in H. discriminate. Qed.
Lemma ws_not_hash : forall c, is_ws c = true -> c <> hash.
Proof. intros c H E. subst c. vm_compute in H. discriminate. Qed.

Lemma has_c_In : forall c s, has_c c s = true <-> In c s.
Proof. intros c s. unfold has_c. apply memb_In_gen. intros x y. apply Ascii.eqb_eq. Qed.
Lemma has_c_false : forall c s, has_c c s = false <-> ~ In c s.
Proof.
  intros c s. split.
  - intros H Hin. apply has_c_In in Hin. rewrite Hin in H. discriminate.
  - intros H. destruct (has_c c s) eqn:E; [|reflexivity]. apply has_c_In in E. contradiction.
Qed.
Lemma has_c_app : forall c a b, has_c c (a ++ b) = has_c c a || has_c c b.
Proof. intros c a b. unfold has_c, memb. apply existsb_app. Qed.

Lemma all_ws_Forall : forall s, all_ws s = true <-> Forall (fun c => is_ws c = true) s.
Proof. intros s. unfold all_ws. rewrite forallb_forall, Forall_forall. reflexivity. Qed.
Lemma all_ws_app : forall a b, all_ws (a ++ b) = all_ws a && all_ws b.
Proof. intros a b. unfold all_ws. apply forallb_app. Qed.
Lemma all_ws_rev : forall a, all_ws a = true -> all_ws (rev a) = true.
Proof.
  intros a H. apply all_ws_Forall. apply Forall_rev. apply all_ws_Forall, H.
Qed.
Lemma all_ws_cons : forall c s, all_ws (c :: s) = true <-> is_ws c = true /\ all_ws s = true.
Proof. intros c s. unfold all_ws. cbn [forallb]. apply andb_true_iff. Qed.
Lemma all_ws_no : forall x s, is_ws x = false -> all_ws s = true -> ~ In x s.
Proof.
  intros x s Hx Hs Hin. apply all_ws_Forall in Hs. rewrite Forall_forall in Hs.
  apply Hs in Hin. rewrite Hin in Hx. discriminate.
Qed.
Lemma blanks_only_ws : forall s, blanks_only s = true -> all_ws s = true.
Proof.
  intros s H. unfold blanks_only in H. unfold all_ws. rewrite forallb_forall in *.
  intros c Hc. apply H in Hc. apply orb_true_iff in Hc.
  destruct Hc as [Hc|Hc]; apply aeqb_true in Hc; subst c; reflexivity.
Qed.
Lemma blanks_only_no_nl : forall s, blanks_only s = true -> no_nl s = true.
Proof.
  intros s H. unfold no_nl. apply negb_true_iff. apply has_c_false. intros Hin.
  unfold blanks_only in H. rewrite forallb_forall in H. apply H in Hin.
  vm_compute in Hin. discriminate.
Qed.
Lemma colfmt_ok_wsok : forall f, colfmt_ok f = true -> colfmt_wsok f = true.
Proof.
  intros f H. unfold colfmt_ok in H. apply andb_true_iff in H. destruct H as [H1 H2].
  unfold colfmt_wsok. rewrite (blanks_only_ws _ H1), (blanks_only_ws _ H2). reflexivity.
Qed.

(* ------------------------------------------------------------------ *)
(* (1) trim                                                             *)
(* ------------------------------------------------------------------ *)
(* empty or starting with a non-blank *)
Definition starts_nonws (s : text) : Prop :=
  match s with [] => True | c :: _ => is_ws c = false end.
Definition tightP (s : text) : Prop := starts_nonws s /\ starts_nonws (rev s).

Lemma starts_nonws_app : forall a b, a <> [] -> starts_nonws a -> starts_nonws (a ++ b).
Proof. intros [|c a] b Hne H; [contradiction|exact H]. Qed.

Lemma trim_start_ws_app : forall w s, all_ws w = true -> trim_start (w ++ s) = trim_start s.
Proof.
  induction w as [|c w IH]; intros s H; cbn [app]; [reflexivity|].
  apply all_ws_cons in H. destruct H as [Hc Hw]. cbn [trim_start]. rewrite Hc. apply IH, Hw.
Qed.
Lemma trim_start_all_ws : forall w, all_ws w = true -> trim_start w = [].
Proof. intros w H. rewrite <- (app_nil_r w). rewrite trim_start_ws_app by exact H. reflexivity. Qed.
Lemma trim_start_id : forall s, starts_nonws s -> trim_start s = s.
Proof. intros [|c s] H; cbn [trim_start]; [reflexivity|]. cbn in H. rewrite H. reflexivity. Qed.
Lemma trim_start_decomp : forall s,
  exists w, s = w ++ trim_start s /\ all_ws w = true /\ starts_nonws (trim_start s).
Proof.
  induction s as [|c s IH].
  - exists []. cbn. auto.
  - cbn [trim_start]. destruct (is_ws c) eqn:E.
    + destruct IH as [w [H1 [H2 H3]]]. exists (c :: w). cbn [app]. rewrite <- H1.
      split; [reflexivity|]. split; [|exact H3]. apply all_ws_cons. auto.
    + exists []. cbn [app]. split; [reflexivity|]. split; [reflexivity|]. exact E.
Qed.
Lemma trim_start_snoc : forall a c, is_ws c = false -> trim_start (a ++ [c]) = trim_start a ++ [c].
Proof.
  induction a as [|x a IH]; intros c Hc; cbn [app trim_start].
  - rewrite Hc. reflexivity.
  - destruct (is_ws x); [apply IH, Hc|reflexivity].
Qed.

Lemma trim_end_ws_app : forall s w, all_ws w = true -> trim_end (s ++ w) = trim_end s.
Proof.
  intros s w H. unfold trim_end. rewrite rev_app_distr.
  rewrite trim_start_ws_app by (apply all_ws_rev, H). reflexivity.
Qed.
Lemma trim_end_id : forall s, starts_nonws (rev s) -> trim_end s = s.
Proof. intros s H. unfold trim_end. rewrite trim_start_id by exact H. apply rev_involutive. Qed.
Lemma trim_end_cons : forall c t, is_ws c = false -> trim_end (c :: t) = c :: trim_end t.
Proof.
  intros c t H. unfold trim_end. cbn [rev]. rewrite trim_start_snoc by exact H.
  rewrite rev_app_distr. reflexivity.
Qed.
Lemma trim_end_decomp : forall s,
  exists w, s = trim_end s ++ w /\ all_ws w = true /\ starts_nonws (rev (trim_end s)).
Proof.
  intros s. destruct (trim_start_decomp (rev s)) as [w [H1 [H2 H3]]].
  exists (rev w). unfold trim_end. rewrite rev_involutive. split; [|split].
  - rewrite <- rev_app_distr, <- H1, rev_involutive. reflexivity.
  - apply all_ws_rev, H2.
  - exact H3.
Qed.

Lemma tightP_trim : forall s, tightP s -> trim s = s.
Proof.
  intros s [H1 H2]. unfold trim. rewrite trim_start_id by exact H1. apply trim_end_id, H2.
Qed.

(* trim removes exactly the surrounding white space *)
Lemma trim_padP : forall w1 s w2,
  all_ws w1 = true -> all_ws w2 = true -> tightP s -> trim (w1 ++ s ++ w2) = s.
Proof.
  intros w1 s w2 H1 H2 [Hs He]. unfold trim. rewrite trim_start_ws_app by exact H1.
  destruct s as [|c s].
  - cbn [app]. rewrite trim_start_all_ws by exact H2. reflexivity.
  - rewrite trim_start_id by exact Hs. rewrite trim_end_ws_app by exact H2.
    apply trim_end_id, He.
Qed.

Lemma trim_decomp : forall s,
  exists w1 w2, s = w1 ++ trim s ++ w2 /\ all_ws w1 = true /\ all_ws w2 = true /\ tightP (trim s).
Proof.
  intros s. destruct (trim_start_decomp s) as [w1 [H1 [H2 H3]]].
  destruct (trim_end_decomp (trim_start s)) as [w2 [H4 [H5 H6]]].
  exists w1, w2. unfold trim. split; [|split; [exact H2|split; [exact H5|]]].
  - rewrite <- H4. exact H1.
  - split; [|exact H6].
    destruct (trim_start s) as [|c t] eqn:E; [cbn; exact I|].
    cbn in H3. rewrite trim_end_cons by exact H3. exact H3.
Qed.

Lemma trim_tightP : forall s, tightP (trim s).
Proof. intros s. destruct (trim_decomp s) as [w1 [w2 [_ [_ [_ H]]]]]. exact H. Qed.

Lemma trim_idem : forall s, trim (trim s) = trim s.
Proof. intros s. apply tightP_trim, trim_tightP. Qed.

Lemma trim_pad_any : forall w1 s w2,
  all_ws w1 = true -> all_ws w2 = true -> trim (w1 ++ s ++ w2) = trim s.
Proof.
  intros w1 s w2 H1 H2. destruct (trim_decomp s) as [a [b [E [Ha [Hb Ht]]]]].
  rewrite E at 1.
  replace (w1 ++ (a ++ trim s ++ b) ++ w2) with ((w1 ++ a) ++ trim s ++ (b ++ w2))
    by (rewrite <- !app_assoc; reflexivity).
  apply trim_padP; [| |exact Ht]; rewrite all_ws_app; [rewrite H1, Ha|rewrite Hb, H2]; reflexivity.
Qed.
Lemma trim_ws_r : forall s w, all_ws w = true -> trim (s ++ w) = trim s.
Proof. intros s w H. apply (trim_pad_any [] s w); [reflexivity|exact H]. Qed.
Lemma trim_ws_l : forall s w, all_ws w = true -> trim (w ++ s) = trim s.
Proof.
  intros s w H. rewrite <- (app_nil_r s) at 1. apply (trim_pad_any w s []); [exact H|reflexivity].
Qed.
Lemma trim_all_ws : forall w, all_ws w = true -> trim w = [].
Proof. intros w H. rewrite <- (app_nil_l w). rewrite trim_ws_r by exact H. reflexivity. Qed.

(* boolean and Prop forms of `tight` agree *)
Lemma hd_app_ne : forall (d : ascii) a b, a <> [] -> hd d (a ++ b) = hd d a.
Proof. intros d [|x a] b H; [contradiction|reflexivity]. Qed.
Lemma last_rev_hd : forall (s : text) d, last s d = hd d (rev s).
Proof.
  induction s as [|a s IH]; intros d; [reflexivity|].
  cbn [rev]. destruct s as [|b s]; [reflexivity|].
  rewrite hd_app_ne by (cbn [rev]; intros E; apply app_eq_nil in E; destruct E; discriminate).
  rewrite <- IH. reflexivity.
Qed.
Lemma tight_tightP : forall s, tight s = true <-> tightP s.
Proof.
  intros [|c s]; unfold tight, tightP.
  - cbn. tauto.
  - rewrite last_rev_hd. rewrite andb_true_iff, !negb_true_iff.
    cbn [starts_nonws]. destruct (rev (c :: s)) as [|x r] eqn:E.
    + exfalso. cbn [rev] in E. apply app_eq_nil in E. destruct E; discriminate.
    + cbn [hd]. tauto.
Qed.

Lemma trim_pad : forall w1 s w2,
  all_ws w1 = true -> all_ws w2 = true -> tight s = true -> trim (w1 ++ s ++ w2) = s.
Proof. intros w1 s w2 H1 H2 H. apply trim_padP; [exact H1|exact H2|apply tight_tightP, H]. Qed.
Lemma trim_tight : forall s, tight (trim s) = true.
Proof. intros s. apply tight_tightP, trim_tightP. Qed.
Lemma tight_trim : forall s, tight s = true -> trim s = s.
Proof. intros s H. apply tightP_trim, tight_tightP, H. Qed.
(* a non-blank first byte survives trimming *)
Lemma trim_cons_nonws : forall w c t, all_ws w = true -> is_ws c = false ->
  trim (w ++ c :: t) = c :: trim_end t.
Proof.
  intros w c t Hw Hc. unfold trim. rewrite trim_start_ws_app by exact Hw.
  cbn [trim_start]. rewrite Hc. apply trim_end_cons, Hc.
Qed.

(* ------------------------------------------------------------------ *)
(* spans                                                                *)
(* ------------------------------------------------------------------ *)
Lemma span_ws_app : forall w s, all_ws w = true -> starts_nonws s -> span_ws (w ++ s) = (w, s).
Proof.
  induction w as [|c w IH]; intros s Hw Hs; cbn [app].
  - destruct s as [|c s]; [reflexivity|]. cbn in Hs. cbn [span_ws]. rewrite Hs. reflexivity.
  - apply all_ws_cons in Hw. destruct Hw as [Hc Hw]. cbn [span_ws]. rewrite Hc.
    rewrite IH by assumption. reflexivity.
Qed.
Definition starts_with (x : ascii) (s : text) : Prop :=
  match s with [] => True | c :: _ => c = x end.
Lemma span_not_app : forall x a s, ~ In x a -> starts_with x s -> span_not x (a ++ s) = (a, s).
Proof.
  induction a as [|c a IH]; intros s Ha Hs; cbn [app].
  - destruct s as [|c s]; [reflexivity|]. cbn in Hs. subst c. cbn [span_not].
    rewrite Ascii.eqb_refl. reflexivity.
  - cbn [span_not]. destruct (Ascii.eqb c x) eqn:E.
    + apply aeqb_true in E. subst c. exfalso. apply Ha. left. reflexivity.
    + rewrite IH; [reflexivity| |exact Hs]. intros H. apply Ha. right. exact H.
Qed.
Lemma span_ws_eq : forall s, fst (span_ws s) ++ snd (span_ws s) = s.
Proof.
  induction s as [|c s IH]; [reflexivity|]. cbn [span_ws]. destruct (is_ws c); [|reflexivity].
  destruct (span_ws s) as [a b]. cbn [fst snd app] in *. rewrite IH. reflexivity.
Qed.
Lemma span_not_eq : forall x s, fst (span_not x s) ++ snd (span_not x s) = s.
Proof.
  intros x. induction s as [|c s IH]; [reflexivity|]. cbn [span_not].
  destruct (Ascii.eqb c x); [reflexivity|].
  destruct (span_not x s) as [a b]. cbn [fst snd app] in *. rewrite IH. reflexivity.
Qed.

(* a match is a prefix of the text *)
Lemma esc_c_match_eq : forall s, fst (esc_c_match s) ++ snd (esc_c_match s) = s.
Proof.
  intros s. unfold esc_c_match.
  pose proof (span_ws_eq s) as Hw. destruct (span_ws s) as [w r]. cbn [fst snd] in Hw.
  destruct r as [|c r1].
  - cbn [fst snd]. exact Hw.
  - destruct (Ascii.eqb c dquote).
    + pose proof (span_not_eq dquote r1) as Hb. destruct (span_not dquote r1) as [body r2].
      cbn [fst snd] in Hb. destruct r2 as [|q r3].
      * cbn [fst snd]. rewrite app_nil_r in *. subst r1. exact Hw.
      * pose proof (span_ws_eq r3) as H2. destruct (span_ws r3) as [w2 r4].
        cbn [fst snd] in *. rewrite <- Hw, <- Hb, <- H2.
        rewrite <- !app_assoc. cbn [app]. rewrite <- !app_assoc. reflexivity.
    + apply span_not_eq.
Qed.

(* ------------------------------------------------------------------ *)
(* (2) one column                                                       *)
(* ------------------------------------------------------------------ *)
Record safeP (v : text) : Prop := {
  sp_ne : v <> [];
  sp_tight : tightP v;
  sp_noq : ~ In dquote v;
  sp_nonl : ~ In nl v;
  sp_nocr : ~ In cr v }.

Lemma csv_safe_safeP : forall v, csv_safe v = true <-> safeP v.
Proof.
  intros v. unfold csv_safe. destruct v as [|c v].
  - split; [discriminate|]. intros [H _ _ _ _]. contradiction.
  - fold (has_c dquote (c :: v)) (has_c nl (c :: v)) (has_c (ascii_of_nat 13) (c :: v)).
    rewrite !andb_true_iff. rewrite !(negb_true_iff (has_c _ _)). rewrite !has_c_false.
    fold cr. pose proof (tight_tightP (c :: v)) as Ht. unfold tight in Ht.
    rewrite andb_true_iff in Ht. split.
    + intros [[[[H1 H2] H3] H4] H5]. constructor; [discriminate|apply Ht; auto|assumption..].
    + intros [_ H1 H2 H3 H4]. apply Ht in H1. tauto.
Qed.

Definition col_body (f : colfmt) (v : text) : text :=
  if cf_quote f || has_c comma v then dquote :: v ++ [dquote] else v.
Lemma render_col_body : forall f v, render_col f v = cf_pre f ++ col_body f v ++ cf_post f.
Proof. reflexivity. Qed.

Lemma dquote_nonws : is_ws dquote = false. Proof. reflexivity. Qed.
Lemma comma_nonws : is_ws comma = false. Proof. reflexivity. Qed.

Lemma col_body_tightP : forall f v, safeP v -> tightP (col_body f v).
Proof.
  intros f v Hv. unfold col_body. destruct (cf_quote f || has_c comma v).
  - split; [exact dquote_nonws|]. cbn [rev]. rewrite rev_app_distr. exact dquote_nonws.
  - apply sp_tight, Hv.
Qed.
Lemma col_body_ne : forall f v, v <> [] -> col_body f v <> [].
Proof. intros f v H. unfold col_body. destruct (cf_quote f || has_c comma v); [discriminate|exact H]. Qed.

Lemma starts_comma_nonws : forall rest, starts_with comma rest -> starts_nonws rest.
Proof. intros [|c r] H; [exact I|]. cbn in H. subst c. exact comma_nonws. Qed.

(* the scanner takes exactly the rendered column, whatever blanks surround the
   value, when the rest is empty or starts with the separating comma *)
Lemma esc_c_match_col : forall f v rest,
  colfmt_wsok f = true -> safeP v -> starts_with comma rest ->
  esc_c_match (render_col f v ++ rest) = (render_col f v, rest).
Proof.
  intros f v rest Hf Hv Hrest. unfold colfmt_wsok in Hf. apply andb_true_iff in Hf.
  destruct Hf as [Hpre Hpost]. rewrite render_col_body. unfold col_body.
  destruct (cf_quote f || has_c comma v) eqn:Eq.
  - (* quoted *)
    unfold esc_c_match. rewrite <- !app_assoc. cbn [app]. rewrite <- !app_assoc. cbn [app].
    rewrite span_ws_app by (try exact Hpre; exact dquote_nonws).
    rewrite Ascii.eqb_refl.
    rewrite span_not_app by (try (apply sp_noq, Hv); reflexivity).
    rewrite span_ws_app by (try exact Hpost; apply starts_comma_nonws, Hrest).
    reflexivity.
  - (* bare *)
    apply orb_false_iff in Eq. destruct Eq as [_ Hnc]. apply has_c_false in Hnc.
    assert (Hnin : ~ In comma (cf_pre f ++ v ++ cf_post f)).
    { rewrite !in_app_iff. intros [H|[H|H]].
      - revert H. apply all_ws_no; [exact comma_nonws|exact Hpre].
      - apply Hnc, H.
      - revert H. apply all_ws_no; [exact comma_nonws|exact Hpost]. }
    destruct v as [|c v']; [exfalso; apply (sp_ne _ Hv); reflexivity|].
    assert (Hc : is_ws c = false) by (apply (sp_tight _ Hv)).
    assert (Hq : Ascii.eqb c dquote = false).
    { apply aeqb_false. intros E. apply (sp_noq _ Hv). left. exact E. }
    unfold esc_c_match. rewrite <- !app_assoc.
    rewrite span_ws_app by (try exact Hpre; exact Hc).
    cbn [app]. rewrite Hq.
    replace (cf_pre f ++ c :: v' ++ cf_post f ++ rest)
      with ((cf_pre f ++ (c :: v') ++ cf_post f) ++ rest)
      by (rewrite <- !app_assoc; reflexivity).
    apply span_not_app; [exact Hnin|exact Hrest].
Qed.

Lemma column_of_body : forall f v, safeP v -> column_of (col_body f v) = v.
Proof.
  intros f v Hv. unfold column_of. rewrite tightP_trim by (apply col_body_tightP, Hv).
  unfold col_body. destruct (cf_quote f || has_c comma v).
  - rewrite Ascii.eqb_refl. rewrite rev_app_distr. cbn [rev app]. rewrite Ascii.eqb_refl.
    apply rev_involutive.
  - destruct v as [|c v']; [reflexivity|].
    assert (Hq : Ascii.eqb c dquote = false).
    { apply aeqb_false. intros E. apply (sp_noq _ Hv). left. exact E. }
    rewrite Hq. reflexivity.
Qed.

Lemma column_of_pad : forall w1 s w2, all_ws w1 = true -> all_ws w2 = true ->
  column_of (w1 ++ s ++ w2) = column_of s.
Proof. intros w1 s w2 H1 H2. unfold column_of. rewrite trim_pad_any by assumption. reflexivity. Qed.

Lemma column_of_col : forall f v, colfmt_wsok f = true -> safeP v -> column_of (render_col f v) = v.
Proof.
  intros f v Hf Hv. unfold colfmt_wsok in Hf. apply andb_true_iff in Hf. destruct Hf as [H1 H2].
  rewrite render_col_body. rewrite column_of_pad by assumption. apply column_of_body, Hv.
Qed.

Lemma render_col_ne : forall f v, v <> [] -> render_col f v <> [].
Proof.
  intros f v H E. rewrite render_col_body in E. apply app_eq_nil in E. destruct E as [_ E].
  apply app_eq_nil in E. destruct E as [E _]. revert E. apply col_body_ne, H.
Qed.

(* ------------------------------------------------------------------ *)
(* (3) rows                                                             *)
(* ------------------------------------------------------------------ *)
Definition colw (fv : colfmt * text) : text := render_col (fst fv) (snd fv).
Fixpoint row_tail (cs : list (colfmt * text)) : text :=
  match cs with
  | [] => []
  | c :: cs' => comma :: colw c ++ row_tail cs'
  end.
Definition col_okP (fv : colfmt * text) : Prop := colfmt_wsok (fst fv) = true /\ safeP (snd fv).

Lemma row_tail_app : forall a b, row_tail (a ++ b) = row_tail a ++ row_tail b.
Proof.
  induction a as [|c a IH]; intros b; cbn [app row_tail]; [reflexivity|].
  rewrite IH. rewrite <- app_assoc. reflexivity.
Qed.
Lemma row_tail_starts : forall cs, starts_with comma (row_tail cs).
Proof. intros [|c cs]; cbn; auto. Qed.

Lemma render_row_tail : forall vs fs f v, length vs <= length fs ->
  render_row (f :: fs) (v :: vs) = render_col f v ++ row_tail (combine fs vs).
Proof.
  induction vs as [|v' vs IH]; intros fs f v Hlen.
  - cbn [render_row]. rewrite combine_nil. reflexivity.
  - destruct fs as [|f' fs]; [cbn in Hlen; lia|].
    cbn [length] in Hlen. change (render_row (f :: f' :: fs) (v :: v' :: vs))
      with (render_col f v ++ comma :: render_row (f' :: fs) (v' :: vs)).
    rewrite IH by lia. reflexivity.
Qed.

(* the scanner steps over each comma with an empty match and then reads one
   column: two iterations per column *)
Lemma scan_row_tail : forall cs fuel, Forall col_okP cs -> 2 * length cs < fuel ->
  scan_cols fuel (row_tail cs) true = map snd cs.
Proof.
  induction cs as [|[f v] cs IH]; intros fuel Hok Hfuel.
  - destruct fuel as [|fuel]; [lia|]. reflexivity.
  - inversion Hok as [|x xs [Hf Hv] Hok']; subst. cbn [fst snd] in Hf, Hv.
    destruct fuel as [|[|fuel]]; [cbn [length] in Hfuel; lia..|].
    cbn [length] in Hfuel. cbn [row_tail map snd].
    (* the empty match at the comma *)
    assert (E1 : esc_c_match (comma :: colw (f, v) ++ row_tail cs)
                 = ([], comma :: colw (f, v) ++ row_tail cs)).
    { unfold esc_c_match. cbn [span_ws]. rewrite comma_nonws.
      change (Ascii.eqb comma dquote) with false. cbv iota.
      cbn [span_not]. rewrite Ascii.eqb_refl. reflexivity. }
    cbn [scan_cols]. rewrite E1.
    (* the column *)
    unfold colw at 1. cbn [fst snd].
    rewrite esc_c_match_col by (try assumption; apply row_tail_starts).
    destruct (render_col f v) as [|c0 r0] eqn:Erc.
    { exfalso. revert Erc. apply render_col_ne, (sp_ne _ Hv). }
    rewrite <- Erc. rewrite column_of_col by assumption.
    rewrite IH by (try assumption; lia). reflexivity.
Qed.

Lemma scan_row : forall f v cs fuel, col_okP (f, v) -> Forall col_okP cs ->
  2 * length cs + 1 < fuel ->
  scan_cols fuel (render_col f v ++ row_tail cs) false = v :: map snd cs.
Proof.
  intros f v cs fuel [Hf Hv] Hok Hfuel. cbn [fst snd] in Hf, Hv.
  destruct fuel as [|fuel]; [lia|]. cbn [scan_cols].
  rewrite esc_c_match_col by (try assumption; apply row_tail_starts).
  destruct (render_col f v) as [|c0 r0] eqn:Erc.
  { exfalso. revert Erc. apply render_col_ne, (sp_ne _ Hv). }
  rewrite <- Erc. rewrite column_of_col by assumption.
  rewrite scan_row_tail by (try assumption; lia). reflexivity.
Qed.

Lemma row_tail_length : forall cs, Forall col_okP cs -> 2 * length cs <= length (row_tail cs).
Proof.
  induction cs as [|[f v] cs IH]; intros Hok; cbn [length row_tail]; [lia|].
  inversion Hok as [|x xs [Hf Hv] Hok']; subst. cbn [fst snd] in Hf, Hv.
  rewrite app_length. unfold colw. cbn [fst snd].
  assert (1 <= length (render_col f v)).
  { destruct (render_col f v) eqn:E; [exfalso; revert E; apply render_col_ne, (sp_ne _ Hv)|cbn; lia]. }
  specialize (IH Hok'). lia.
Qed.

(* the trimmed row is again a row: the first column loses its leading blanks
   and the last one its trailing blanks *)
Lemma trim_row : forall f v cs, col_okP (f, v) -> Forall col_okP cs ->
  exists f' cs', trim (render_col f v ++ row_tail cs) = render_col f' v ++ row_tail cs' /\
                 col_okP (f', v) /\ Forall col_okP cs' /\ map snd cs' = map snd cs /\
                 cf_pre f' = [].
Proof.
  intros f v cs [Hf Hv] Hok. cbn [fst snd] in Hf, Hv.
  pose proof Hf as Hf'. unfold colfmt_wsok in Hf'. apply andb_true_iff in Hf'.
  destruct Hf' as [Hpre Hpost].
  destruct (rev cs) as [|[fn vn] rcs] eqn:Ercs.
  - (* single column *)
    assert (cs = []) by (apply (f_equal (@rev _)) in Ercs; rewrite rev_involutive in Ercs; exact Ercs).
    subst cs. exists {| cf_pre := []; cf_post := []; cf_quote := cf_quote f |}, [].
    cbn [row_tail]. rewrite !app_nil_r. rewrite (render_col_body f v).
    rewrite trim_padP by (try assumption; apply col_body_tightP, Hv).
    split; [|split; [|split; [|split]]]; try reflexivity.
    + rewrite render_col_body. cbn [cf_pre cf_post]. rewrite app_nil_r. reflexivity.
    + split; [reflexivity|exact Hv].
    + constructor.
  - (* several columns: cs = cs0 ++ [(fn, vn)] *)
    assert (Ecs : cs = rev rcs ++ [(fn, vn)]).
    { apply (f_equal (@rev _)) in Ercs. rewrite rev_involutive in Ercs. exact Ercs. }
    subst cs. apply Forall_app in Hok. destruct Hok as [Hok0 Hokn].
    inversion Hokn as [|x xs [Hfn Hvn] _]; subst. cbn [fst snd] in Hfn, Hvn.
    pose proof Hfn as Hfn'. unfold colfmt_wsok in Hfn'. apply andb_true_iff in Hfn'.
    destruct Hfn' as [Hpren Hpostn].
    set (f1 := {| cf_pre := []; cf_post := cf_post f; cf_quote := cf_quote f |}).
    set (fl := {| cf_pre := cf_pre fn; cf_post := []; cf_quote := cf_quote fn |}).
    exists f1, (rev rcs ++ [(fl, vn)]).
    assert (Emid : render_col f v ++ row_tail (rev rcs ++ [(fn, vn)]) =
                   cf_pre f ++ (render_col f1 v ++ row_tail (rev rcs ++ [(fl, vn)])) ++ cf_post fn).
    { rewrite !row_tail_app. cbn [row_tail]. unfold colw. cbn [fst snd].
      rewrite !render_col_body. unfold f1, fl. cbn [cf_pre cf_post]. unfold col_body. cbn [cf_quote].
      rewrite !app_nil_r. cbn [app]. rewrite <- !app_assoc. cbn [app]. rewrite <- !app_assoc.
      reflexivity. }
    split; [|split; [|split; [|split]]].
    + rewrite Emid. apply trim_padP; [exact Hpre|exact Hpostn|]. split.
      * rewrite render_col_body. unfold f1. cbn [cf_pre app]. rewrite <- app_assoc.
        apply starts_nonws_app; [apply col_body_ne, (sp_ne _ Hv)|apply col_body_tightP, Hv].
      * rewrite row_tail_app. cbn [row_tail]. unfold colw. cbn [fst snd].
        rewrite (render_col_body fl vn). unfold fl at 2 3. cbn [cf_pre cf_post].
        rewrite !app_nil_r. rewrite !rev_app_distr. cbn [rev]. rewrite !rev_app_distr.
        rewrite <- !app_assoc.
        apply starts_nonws_app.
        -- intros E. apply (f_equal (@rev _)) in E. rewrite rev_involutive in E.
           revert E. apply col_body_ne, (sp_ne _ Hvn).
        -- apply (col_body_tightP fl vn Hvn).
    + split; [|exact Hv]. unfold colfmt_wsok, f1. cbn [cf_pre cf_post]. exact Hpost.
    + apply Forall_app. split; [exact Hok0|]. constructor; [|constructor].
      split; [|exact Hvn]. unfold colfmt_wsok, fl. cbn [fst cf_pre cf_post].
      rewrite Hpren. reflexivity.
    + rewrite !map_app. reflexivity.
    + reflexivity.
Qed.

Definition ptypeP (pt : text) : Prop :=
  safeP pt /\ ~ In comma pt /\ (forall r, pt <> hash :: r).
Lemma ptype_safe_P : forall pt, ptype_safe pt = true <-> ptypeP pt.
Proof.
  intros pt. unfold ptype_safe, ptypeP. fold (has_c comma pt).
  rewrite !andb_true_iff, negb_true_iff, has_c_false, csv_safe_safeP.
  destruct pt as [|c r].
  - split; [intros [_ H]; discriminate|]. intros [[H _ _ _ _] _]. exfalso. apply H. reflexivity.
  - rewrite negb_true_iff, aeqb_false. split.
    + intros [[H1 H2] H3]. split; [exact H1|split; [exact H2|]]. intros r' E. inversion E. contradiction.
    + intros [H1 [H2 H3]]. split; [split; assumption|]. intros E. subst c. apply (H3 r). reflexivity.
Qed.

(* the core statement on zipped (format, value) columns *)
Lemma parse_row_cols : forall f pt cs, colfmt_wsok f = true -> ptypeP pt -> Forall col_okP cs ->
  parse_csv_line (render_col f pt ++ row_tail cs) = Some (pt :: map snd cs).
Proof.
  intros f pt cs Hf [Hpt [Hnc Hnh]] Hok.
  destruct (trim_row f pt cs) as [f' [cs' [Et [[Hf' _] [Hok' [Emap Hpre']]]]]];
    [split; assumption|exact Hok|]. cbn [fst] in Hf'.
  unfold parse_csv_line. rewrite Et.
  assert (Hlen : 2 * length cs' + 1 <= length (render_col f' pt ++ row_tail cs')).
  { rewrite app_length. pose proof (row_tail_length cs' Hok').
    assert (1 <= length (render_col f' pt)).
    { destruct (render_col f' pt) eqn:E; [exfalso; revert E; apply render_col_ne, (sp_ne _ Hpt)|cbn; lia]. }
    lia. }
  rewrite scan_row by (try assumption; try (split; assumption); lia).
  rewrite Emap.
  (* the first byte is not '#' *)
  rewrite render_col_body, Hpre'. cbn [app]. unfold col_body.
  destruct (cf_quote f' || has_c comma pt).
  - cbn [app]. change (Ascii.eqb dquote hash) with false. reflexivity.
  - destruct pt as [|c r]; [exfalso; apply (sp_ne _ Hpt); reflexivity|].
    cbn [app]. assert (E : Ascii.eqb c hash = false).
    { apply aeqb_false. intros E. subst c. apply (Hnh r). reflexivity. }
    rewrite E. reflexivity.
Qed.

Lemma Forall_combine_ok : forall fs vs,
  Forall (fun f => colfmt_wsok f = true) fs -> Forall safeP vs -> Forall col_okP (combine fs vs).
Proof.
  induction fs as [|f fs IH]; intros vs Hf Hv; [constructor|].
  destruct vs as [|v vs]; [constructor|].
  inversion Hf; subst. inversion Hv; subst. cbn [combine]. constructor.
  - split; assumption.
  - apply IH; assumption.
Qed.
Lemma map_snd_combine : forall (fs : list colfmt) (vs : list text),
  length vs <= length fs -> map snd (combine fs vs) = vs.
Proof.
  induction fs as [|f fs IH]; intros [|v vs] H; cbn [combine map snd]; try reflexivity.
  - cbn in H. lia.
  - rewrite IH by (cbn in H; lia). reflexivity.
Qed.

(* general form: any white space (also CR, VT, FF) around the values *)
Lemma parse_render_row_ws : forall fs pt vs,
  ptype_safe pt = true -> forallb csv_safe vs = true -> forallb colfmt_wsok fs = true ->
  length fs = S (length vs) ->
  parse_csv_line (render_row fs (pt :: vs)) = Some (pt :: vs).
Proof.
  intros fs pt vs Hpt Hvs Hfs Hlen. destruct fs as [|f fs]; [discriminate|].
  cbn [length] in Hlen. cbn [forallb] in Hfs. apply andb_true_iff in Hfs. destruct Hfs as [Hf Hfs].
  rewrite render_row_tail by lia.
  rewrite parse_row_cols; [|exact Hf|apply ptype_safe_P, Hpt|].
  - rewrite map_snd_combine by lia. reflexivity.
  - apply Forall_combine_ok.
    + apply Forall_forall. rewrite forallb_forall in Hfs. exact Hfs.
    + apply Forall_forall. rewrite forallb_forall in Hvs. intros x Hx. apply csv_safe_safeP, Hvs, Hx.
Qed.

Lemma forallb_impl : forall {A} (p q : A -> bool) l,
  (forall x, p x = true -> q x = true) -> forallb p l = true -> forallb q l = true.
Proof.
  intros A p q l H Hp. rewrite forallb_forall in *. intros x Hx. apply H, Hp, Hx.
Qed.

Theorem parse_render_row : forall fs pt vs,
  ptype_safe pt = true -> forallb csv_safe vs = true -> forallb colfmt_ok fs = true ->
  length fs = S (length vs) ->
  parse_csv_line (render_row fs (pt :: vs)) = Some (pt :: vs).
Proof.
  intros fs pt vs Hpt Hvs Hfs Hlen. apply parse_render_row_ws; try assumption.
  revert Hfs. apply forallb_impl. exact colfmt_ok_wsok.
Qed.

(* parsing only sees the trimmed line *)
Lemma parse_csv_line_trim : forall l, parse_csv_line (trim l) = parse_csv_line l.
Proof. intros l. unfold parse_csv_line. rewrite trim_idem. reflexivity. Qed.
Lemma parse_csv_line_pad : forall w1 l w2, all_ws w1 = true -> all_ws w2 = true ->
  parse_csv_line (w1 ++ l ++ w2) = parse_csv_line l.
Proof.
  intros w1 l w2 H1 H2. rewrite <- parse_csv_line_trim. rewrite trim_pad_any by assumption.
  apply parse_csv_line_trim.
Qed.

Lemma parse_csv_line_ws_r : forall l w, all_ws w = true -> parse_csv_line (l ++ w) = parse_csv_line l.
Proof. intros l w H. apply (parse_csv_line_pad [] l w); [reflexivity|exact H]. Qed.

(* ---- the adapters' own rendering ---- *)
Definition f_plain : colfmt := {| cf_pre := []; cf_post := []; cf_quote := false |}.
Definition f_sp : colfmt := {| cf_pre := T " "; cf_post := []; cf_quote := false |}.

Lemma csv_field_col : forall v, csv_field v = render_col f_plain v.
Proof.
  intros v. unfold csv_field. rewrite render_col_body. unfold col_body, f_plain. cbn [cf_pre cf_post cf_quote].
  rewrite app_nil_r. cbn [app orb]. reflexivity.
Qed.
Lemma sp_csv_field_col : forall v, T " " ++ csv_field v = render_col f_sp v.
Proof.
  intros v. unfold csv_field. rewrite render_col_body. unfold col_body, f_sp. cbn [cf_pre cf_post cf_quote].
  rewrite app_nil_r. cbn [orb]. reflexivity.
Qed.

Lemma join_comma_tail : forall v vs,
  join [comma] (map csv_field (v :: vs)) = csv_field v ++ row_tail (map (pair f_plain) vs).
Proof.
  intros v vs. revert v. induction vs as [|v' vs IH]; intros v.
  - cbn [map join row_tail]. rewrite app_nil_r. reflexivity.
  - change (join [comma] (map csv_field (v :: v' :: vs)))
      with (csv_field v ++ [comma] ++ join [comma] (map csv_field (v' :: vs))).
    rewrite IH. cbn [map row_tail]. unfold colw. cbn [fst snd]. rewrite <- csv_field_col. reflexivity.
Qed.
Lemma join_commasp_tail : forall v vs,
  join (T ", ") (map csv_field (v :: vs)) = csv_field v ++ row_tail (map (pair f_sp) vs).
Proof.
  intros v vs. revert v. induction vs as [|v' vs IH]; intros v.
  - cbn [map join row_tail]. rewrite app_nil_r. reflexivity.
  - change (join (T ", ") (map csv_field (v :: v' :: vs)))
      with (csv_field v ++ T ", " ++ join (T ", ") (map csv_field (v' :: vs))).
    rewrite IH. cbn [map row_tail]. unfold colw. cbn [fst snd]. rewrite <- sp_csv_field_col. reflexivity.
Qed.

Lemma render_col_plain_bare : forall pt, ~ In comma pt -> render_col f_plain pt = pt.
Proof.
  intros pt H. rewrite <- csv_field_col. unfold csv_field. fold (has_c comma pt).
  apply has_c_false in H. rewrite H. reflexivity.
Qed.

Lemma render_line_file_row : forall pt v vs, ~ In comma pt ->
  render_line_file pt (v :: vs) =
  render_col f_plain pt ++ row_tail ((f_sp, v) :: map (pair f_plain) vs).
Proof.
  intros pt v vs Hpt. unfold render_line_file. rewrite join_comma_tail.
  cbn [row_tail]. unfold colw. cbn [fst snd]. rewrite <- sp_csv_field_col.
  rewrite render_col_plain_bare by exact Hpt. rewrite <- !app_assoc. reflexivity.
Qed.
Lemma render_line_string_row : forall pt v vs, ~ In comma pt ->
  render_line_string pt (v :: vs) =
  render_col f_plain pt ++ row_tail ((f_sp, v) :: map (pair f_sp) vs).
Proof.
  intros pt v vs Hpt. unfold render_line_string. rewrite join_commasp_tail.
  cbn [row_tail]. unfold colw. cbn [fst snd]. rewrite <- sp_csv_field_col.
  rewrite render_col_plain_bare by exact Hpt. rewrite <- !app_assoc. reflexivity.
Qed.

Lemma Forall_map_pair_ok : forall f vs, colfmt_wsok f = true -> Forall safeP vs ->
  Forall col_okP (map (pair f) vs).
Proof.
  intros f vs Hf Hvs. induction Hvs as [|v vs Hv _ IH]; cbn [map]; constructor; [|exact IH].
  split; assumption.
Qed.
Lemma map_snd_pair : forall (f : colfmt) (vs : list text), map snd (map (pair f) vs) = vs.
Proof. intros f vs. rewrite map_map. cbn [snd]. apply map_id. Qed.
Lemma forallb_safeP : forall vs, forallb csv_safe vs = true -> Forall safeP vs.
Proof.
  intros vs H. apply Forall_forall. rewrite forallb_forall in H.
  intros x Hx. apply csv_safe_safeP, H, Hx.
Qed.

(* C09, line level: what the file adapter writes for a rule is read back as
   that rule *)
Theorem parse_render_line_file : forall pt vs,
  ptype_safe pt = true -> forallb csv_safe vs = true -> vs <> [] ->
  parse_csv_line (render_line_file pt vs) = Some (pt :: vs).
Proof.
  intros pt vs Hpt Hvs Hne. destruct vs as [|v vs]; [contradiction|].
  apply ptype_safe_P in Hpt. pose proof Hpt as [_ [Hnc _]].
  apply forallb_safeP in Hvs. inversion Hvs as [|x xs Hv Hvs']; subst.
  rewrite render_line_file_row by exact Hnc.
  rewrite parse_row_cols; [|reflexivity|exact Hpt|].
  - cbn [map snd]. rewrite map_snd_pair. reflexivity.
  - constructor; [split; [reflexivity|exact Hv]|]. apply Forall_map_pair_ok; [reflexivity|exact Hvs'].
Qed.
Theorem parse_render_line_string : forall pt vs,
  ptype_safe pt = true -> forallb csv_safe vs = true -> vs <> [] ->
  parse_csv_line (render_line_string pt vs) = Some (pt :: vs).
Proof.
  intros pt vs Hpt Hvs Hne. destruct vs as [|v vs]; [contradiction|].
  apply ptype_safe_P in Hpt. pose proof Hpt as [_ [Hnc _]].
  apply forallb_safeP in Hvs. inversion Hvs as [|x xs Hv Hvs']; subst.
  rewrite render_line_string_row by exact Hnc.
  rewrite parse_row_cols; [|reflexivity|exact Hpt|].
  - cbn [map snd]. rewrite map_snd_pair. reflexivity.
  - constructor; [split; [reflexivity|exact Hv]|]. apply Forall_map_pair_ok; [reflexivity|exact Hvs'].
Qed.

(* a rule without fields does not round-trip: the written line `p, ` reads
   back with one empty field *)
Lemma render_line_empty_rule :
  parse_csv_line (render_line_file (T "p") []) = Some [T "p"; []].
Proof. vm_compute. reflexivity. Qed.

(* ---- fuel: the bound of parse_csv_line is never what stops the scanner ---- *)
Lemma scan_cols_fuel : forall f1 s adj f2, length s < f1 -> length s < f2 ->
  scan_cols f1 s adj = scan_cols f2 s adj.
Proof.
  induction f1 as [|f1 IH]; intros s adj f2 H1 H2; [lia|].
  destruct f2 as [|f2]; [lia|]. cbn [scan_cols].
  pose proof (esc_c_match_eq s) as Heq. destruct (esc_c_match s) as [span rest].
  cbn [fst snd] in Heq. destruct span as [|c0 span].
  - destruct s as [|c s']; [reflexivity|]. cbn [length] in H1, H2.
    destruct adj; [|f_equal]; apply IH; lia.
  - f_equal. apply IH; rewrite <- Heq in H1, H2; cbn [app length] in H1, H2;
      rewrite app_length in H1, H2; lia.
Qed.
Lemma scan_cols_fuel_enough : forall s adj extra,
  scan_cols (S (S (length s)) + extra) s adj = scan_cols (S (S (length s))) s adj.
Proof. intros s adj extra. apply scan_cols_fuel; lia. Qed.

(* ------------------------------------------------------------------ *)
(* (4) files                                                            *)
(* ------------------------------------------------------------------ *)
(* the loader's own "skip" test is redundant: parse_csv_line already rejects
   empty lines and lines starting with '#' *)
Lemma load_line_tokens_eq : forall l, load_line_tokens l = parse_csv_line l.
Proof.
  intros [|c r]; [reflexivity|]. cbn [load_line_tokens].
  destruct (Ascii.eqb c hash) eqn:E; [|reflexivity].
  apply aeqb_true in E. subst c. unfold parse_csv_line.
  pose proof (trim_cons_nonws [] hash r eq_refl eq_refl) as Ht. cbn [app] in Ht.
  rewrite Ht. rewrite Ascii.eqb_refl. reflexivity.
Qed.

Definition tokens_of (l : text) : list (list text) :=
  match load_line_tokens l with Some t => [t] | None => [] end.

Lemma split_lines_line : forall l rest cur, ~ In nl l ->
  split_lines (l ++ nl :: rest) cur = (rev cur ++ l) :: split_lines rest [].
Proof.
  induction l as [|c l IH]; intros rest cur H; cbn [app split_lines].
  - rewrite Ascii.eqb_refl. rewrite app_nil_r. reflexivity.
  - assert (E : Ascii.eqb c nl = false).
    { apply aeqb_false. intros E. apply H. left. exact E. }
    rewrite E. rewrite IH by (intros Hin; apply H; right; exact Hin).
    cbn [rev]. rewrite <- app_assoc. reflexivity.
Qed.
Lemma split_lines_last : forall l cur, ~ In nl l -> split_lines l cur = [rev cur ++ l].
Proof.
  induction l as [|c l IH]; intros cur H; cbn [split_lines].
  - rewrite app_nil_r. reflexivity.
  - assert (E : Ascii.eqb c nl = false).
    { apply aeqb_false. intros E. apply H. left. exact E. }
    rewrite E. rewrite IH by (intros Hin; apply H; right; exact Hin).
    cbn [rev]. rewrite <- app_assoc. reflexivity.
Qed.

Lemma parsed_lines_cons : forall l rest, ~ In nl l ->
  parsed_lines (l ++ nl :: rest) = tokens_of l ++ parsed_lines rest.
Proof.
  intros l rest H. unfold parsed_lines. rewrite split_lines_line by exact H.
  cbn [rev app flat_map]. reflexivity.
Qed.
Lemma parsed_lines_last : forall l, ~ In nl l -> parsed_lines l = tokens_of l.
Proof.
  intros l H. unfold parsed_lines. rewrite split_lines_last by exact H.
  cbn [rev app flat_map]. rewrite app_nil_r. reflexivity.
Qed.

(* generic: a text made of terminated lines *)
Lemma parsed_lines_flat : forall {A} (g : A -> text) (row : A -> list (list text)) (xs : list A) tail,
  (forall x, In x xs -> ~ In nl (g x) /\ tokens_of (g x) = row x) ->
  parsed_lines (flat_map (fun x => g x ++ [nl]) xs ++ tail) = flat_map row xs ++ parsed_lines tail.
Proof.
  intros A g row xs tail. induction xs as [|x xs IH]; intros H; cbn [flat_map app]; [reflexivity|].
  destruct (H x (or_introl eq_refl)) as [H1 H2].
  rewrite <- !app_assoc. cbn [app]. rewrite parsed_lines_cons by exact H1.
  rewrite H2. rewrite IH by (intros y Hy; apply H; right; exact Hy).
  rewrite app_assoc. reflexivity.
Qed.

(* no line break inside a rendered row *)
Lemma render_col_nonl : forall f v, ~ In nl (cf_pre f) -> ~ In nl (cf_post f) -> ~ In nl v ->
  ~ In nl (render_col f v).
Proof.
  intros f v H1 H2 H3. rewrite render_col_body. unfold col_body.
  destruct (cf_quote f || has_c comma v); rewrite !in_app_iff.
  - intros [H|[H|H]]; [auto| |auto]. destruct H as [H|H]; [discriminate|].
    apply in_app_iff in H. destruct H as [H|[H|[]]]; [auto|discriminate].
  - tauto.
Qed.
Definition col_nonlP (fv : colfmt * text) : Prop :=
  ~ In nl (cf_pre (fst fv)) /\ ~ In nl (cf_post (fst fv)) /\ ~ In nl (snd fv).
Lemma row_tail_nonl : forall cs, Forall col_nonlP cs -> ~ In nl (row_tail cs).
Proof.
  induction cs as [|[f v] cs IH]; intros H; cbn [row_tail]; [intros []|].
  inversion H as [|x xs [H1 [H2 H3]] H']; subst. cbn [fst snd] in *.
  intros [Hc|Hin]; [discriminate|]. apply in_app_iff in Hin. destruct Hin as [Hin|Hin].
  - revert Hin. unfold colw. cbn [fst snd]. apply render_col_nonl; assumption.
  - revert Hin. apply IH, H'.
Qed.
Lemma no_nl_P : forall s, no_nl s = true <-> ~ In nl s.
Proof. intros s. unfold no_nl. rewrite negb_true_iff. apply has_c_false. Qed.

Lemma render_row_nonl : forall fs pt vs,
  ptype_safe pt = true -> forallb csv_safe vs = true -> forallb colfmt_ok fs = true ->
  length fs = S (length vs) -> ~ In nl (render_row fs (pt :: vs)).
Proof.
  intros fs pt vs Hpt Hvs Hfs Hlen. destruct fs as [|f fs]; [discriminate|].
  cbn [length] in Hlen. cbn [forallb] in Hfs. apply andb_true_iff in Hfs. destruct Hfs as [Hf Hfs].
  rewrite render_row_tail by lia. rewrite in_app_iff.
  assert (Hfn : forall g, colfmt_ok g = true -> ~ In nl (cf_pre g) /\ ~ In nl (cf_post g)).
  { intros g Hg. unfold colfmt_ok in Hg. apply andb_true_iff in Hg. destruct Hg as [G1 G2].
    split; apply no_nl_P, blanks_only_no_nl; assumption. }
  intros [H|H].
  - revert H. destruct (Hfn f Hf). apply render_col_nonl; try assumption.
    apply ptype_safe_P in Hpt. destruct Hpt as [Hs _]. apply (sp_nonl _ Hs).
  - revert H. apply row_tail_nonl.
    apply forallb_safeP in Hvs. clear Hlen Hf.
    revert vs Hvs. induction fs as [|g fs IH]; intros vs Hvs; [constructor|].
    destruct vs as [|v vs]; [constructor|]. cbn [combine].
    cbn [forallb] in Hfs. apply andb_true_iff in Hfs. destruct Hfs as [Hg Hfs].
    inversion Hvs as [|x xs Hv Hvs']; subst. constructor.
    + destruct (Hfn g Hg). split; [assumption|split; [assumption|]]. apply (sp_nonl _ Hv).
    + apply IH; assumption.
Qed.

(* one line of a laid-out policy file, with an optional CR before the LF *)
Lemma tokens_of_item : forall it crs, fitem_ok it = true -> all_ws crs = true ->
  tokens_of (fitem_text it ++ crs) = fitem_rows it.
Proof.
  intros it crs Hok Hcr. unfold tokens_of. rewrite load_line_tokens_eq.
  destruct it as [fs pt vs|ws|pre body]; cbn [fitem_ok fitem_text fitem_rows] in *.
  - apply andb_true_iff in Hok. destruct Hok as [Hok Hlen].
    apply andb_true_iff in Hok. destruct Hok as [Hok Hfs].
    apply andb_true_iff in Hok. destruct Hok as [Hpt Hvs].
    apply Nat.eqb_eq in Hlen.
    rewrite parse_csv_line_ws_r by exact Hcr.
    rewrite parse_render_row by assumption. reflexivity.
  - apply andb_true_iff in Hok. destruct Hok as [Hws _].
    unfold parse_csv_line. rewrite trim_all_ws; [reflexivity|].
    rewrite all_ws_app, Hws, Hcr. reflexivity.
  - apply andb_true_iff in Hok. destruct Hok as [Hok _].
    apply andb_true_iff in Hok. destruct Hok as [Hpre _].
    unfold parse_csv_line. rewrite <- app_assoc. cbn [app].
    rewrite trim_cons_nonws by (try exact Hpre; reflexivity).
    rewrite Ascii.eqb_refl. reflexivity.
Qed.
Lemma fitem_text_nonl : forall it, fitem_ok it = true -> ~ In nl (fitem_text it).
Proof.
  intros it Hok. destruct it as [fs pt vs|ws|pre body]; cbn [fitem_ok fitem_text] in *.
  - apply andb_true_iff in Hok. destruct Hok as [Hok Hlen].
    apply andb_true_iff in Hok. destruct Hok as [Hok Hfs].
    apply andb_true_iff in Hok. destruct Hok as [Hpt Hvs].
    apply Nat.eqb_eq in Hlen. apply render_row_nonl; assumption.
  - apply andb_true_iff in Hok. destruct Hok as [_ H]. apply no_nl_P, H.
  - apply andb_true_iff in Hok. destruct Hok as [Hok H2].
    apply andb_true_iff in Hok. destruct Hok as [_ H1].
    apply no_nl_P in H1. apply no_nl_P in H2. rewrite in_app_iff.
    intros [H|[H|H]]; [auto|discriminate|auto].
Qed.

(* a policy file, whatever its layout, stands for exactly its rows *)
Theorem parsed_lines_file : forall items final,
  forallb (fun ib => fitem_ok (fst ib)) items = true ->
  (match final with Some it => fitem_ok it | None => true end) = true ->
  parsed_lines (render_file items final) = file_rows items final.
Proof.
  intros items final Hitems Hfinal. unfold render_file, file_rows.
  assert (E : flat_map (fun ib => fitem_text (fst ib) ++ eol (snd ib)) items =
              flat_map (fun ib : fitem * bool =>
                          (fitem_text (fst ib) ++ (if snd ib then [cr] else [])) ++ [nl]) items).
  { apply flat_map_ext. intros [it b]. cbn [fst snd]. destruct b; cbn [eol].
    - rewrite <- app_assoc. reflexivity.
    - rewrite app_nil_r. reflexivity. }
  rewrite E.
  rewrite (parsed_lines_flat (fun ib : fitem * bool => fitem_text (fst ib) ++ (if snd ib then [cr] else []))
                             (fun ib => fitem_rows (fst ib))).
  - f_equal. destruct final as [it|].
    + rewrite parsed_lines_last by (apply fitem_text_nonl, Hfinal).
      rewrite <- (app_nil_r (fitem_text it)). apply tokens_of_item; [exact Hfinal|reflexivity].
    + reflexivity.
  - intros [it b] Hin. rewrite forallb_forall in Hitems. specialize (Hitems _ Hin). cbn [fst snd] in *.
    split.
    + rewrite in_app_iff. intros [H|H]; [revert H; apply fitem_text_nonl, Hitems|].
      destruct b; [destruct H as [H|[]]; discriminate|destruct H].
    + apply tokens_of_item; [exact Hitems|]. destruct b; reflexivity.
Qed.

(* ---- connection with Engine.v: the text an adapter writes stands for
   text_lines, the abstraction the AFile / AString adapters hold ---- *)
Definition line_okP (l : rule) : Prop :=
  exists pt vs, l = pt :: vs /\ ptype_safe pt = true /\ forallb csv_safe vs = true /\ vs <> [].

Lemma amap_lines_ok : forall am, amap_text_safe am = true ->
  Forall line_okP (flat_map (fun ka : text * assertion => map (fun r => fst ka :: r) (a_policy (snd ka))) am).
Proof.
  intros am H. unfold amap_text_safe in H. rewrite forallb_forall in H.
  apply Forall_forall. intros l Hl. apply in_flat_map in Hl. destruct Hl as [ka [Hka Hl]].
  apply in_map_iff in Hl. destruct Hl as [r [Hr Hin]]. subst l.
  specialize (H _ Hka). apply andb_true_iff in H. destruct H as [Hpt Hrs].
  rewrite forallb_forall in Hrs. specialize (Hrs _ Hin). unfold rule_text_safe in Hrs.
  apply andb_true_iff in Hrs. destruct Hrs as [Hne Hsafe].
  exists (fst ka), r. split; [reflexivity|]. split; [exact Hpt|]. split; [exact Hsafe|].
  intros E. subst r. discriminate.
Qed.
Lemma text_lines_ok : forall md, model_text_safe md = true -> Forall line_okP (text_lines md).
Proof.
  intros md H. unfold model_text_safe in H. apply andb_true_iff in H. destruct H as [Hp Hg].
  unfold text_lines. apply Forall_app. split.
  - destruct (assoc s_p md); [apply amap_lines_ok, Hp|constructor].
  - destruct (assoc s_g md); [apply amap_lines_ok, Hg|constructor].
Qed.

Lemma render_line_file_nonl : forall pt vs, ptype_safe pt = true -> forallb csv_safe vs = true ->
  vs <> [] -> ~ In nl (render_line_file pt vs).
Proof.
  intros pt vs Hpt Hvs Hne. destruct vs as [|v vs]; [contradiction|].
  apply ptype_safe_P in Hpt. destruct Hpt as [Hs [Hnc _]].
  apply forallb_safeP in Hvs. inversion Hvs as [|x xs Hv Hvs']; subst.
  rewrite render_line_file_row by exact Hnc. rewrite in_app_iff. intros [H|H].
  - revert H. apply render_col_nonl; [intros []|intros []|apply (sp_nonl _ Hs)].
  - revert H. apply row_tail_nonl. constructor.
    + split; [|split]; cbn; [intros [H|[]]; discriminate|intros []|apply (sp_nonl _ Hv)].
    + clear Hv Hvs Hne. induction Hvs' as [|y ys Hy _ IH]; cbn [map]; [constructor|]. constructor; [|exact IH].
      split; [|split]; cbn; [intros []|intros []|apply (sp_nonl _ Hy)].
Qed.
Lemma render_line_string_nonl : forall pt vs, ptype_safe pt = true -> forallb csv_safe vs = true ->
  vs <> [] -> ~ In nl (render_line_string pt vs).
Proof.
  intros pt vs Hpt Hvs Hne. destruct vs as [|v vs]; [contradiction|].
  apply ptype_safe_P in Hpt. destruct Hpt as [Hs [Hnc _]].
  apply forallb_safeP in Hvs. inversion Hvs as [|x xs Hv Hvs']; subst.
  rewrite render_line_string_row by exact Hnc. rewrite in_app_iff. intros [H|H].
  - revert H. apply render_col_nonl; [intros []|intros []|apply (sp_nonl _ Hs)].
  - revert H. apply row_tail_nonl. constructor.
    + split; [|split]; cbn; [intros [H|[]]; discriminate|intros []|apply (sp_nonl _ Hv)].
    + clear Hv Hvs Hne. induction Hvs' as [|y ys Hy _ IH]; cbn [map]; [constructor|]. constructor; [|exact IH].
      split; [|split]; cbn; [intros [H|[]]; discriminate|intros []|apply (sp_nonl _ Hy)].
Qed.

Lemma parsed_lines_rendered : forall (g : rule -> text) ls,
  (forall pt vs, ptype_safe pt = true -> forallb csv_safe vs = true -> vs <> [] ->
     ~ In nl (g (pt :: vs)) /\ parse_csv_line (g (pt :: vs)) = Some (pt :: vs)) ->
  Forall line_okP ls ->
  parsed_lines (flat_map (fun l => g l ++ [nl]) ls) = ls.
Proof.
  intros g ls Hg Hls.
  rewrite <- (app_nil_r (flat_map _ ls)).
  rewrite (parsed_lines_flat g (fun l => [l])).
  - change (parsed_lines []) with (@nil (list text)). rewrite app_nil_r.
    clear. induction ls as [|l ls IH]; cbn [flat_map app]; [reflexivity|]. rewrite IH. reflexivity.
  - intros l Hl. rewrite Forall_forall in Hls. destruct (Hls _ Hl) as [pt [vs [E [H1 [H2 H3]]]]].
    subst l. destruct (Hg pt vs H1 H2 H3) as [G1 G2]. split; [exact G1|].
    unfold tokens_of. rewrite load_line_tokens_eq, G2. reflexivity.
Qed.

(* C09 text clause: for a store with text-safe contents, loading the text the
   file (string) adapter saves yields exactly the lines of the store, in order *)
Theorem save_file_parsed : forall md, model_text_safe md = true ->
  parsed_lines (save_text_file md) = text_lines md.
Proof.
  intros md H. unfold save_text_file.
  apply (parsed_lines_rendered (fun l => render_line_file (hd [] l) (tl l))).
  - intros pt vs H1 H2 H3. cbn [hd tl]. split.
    + apply render_line_file_nonl; assumption.
    + apply parse_render_line_file; assumption.
  - apply text_lines_ok, H.
Qed.
Theorem save_string_parsed : forall md, model_text_safe md = true ->
  parsed_lines (save_text_string md) = text_lines md.
Proof.
  intros md H. unfold save_text_string.
  apply (parsed_lines_rendered (fun l => render_line_string (hd [] l) (tl l))).
  - intros pt vs H1 H2 H3. cbn [hd tl]. split.
    + apply render_line_string_nonl; assumption.
    + apply parse_render_line_string; assumption.
  - apply text_lines_ok, H.
Qed.

(* ------------------------------------------------------------------ *)
(* (5) the hypotheses are needed; the repaired defects                  *)
(* ------------------------------------------------------------------ *)
(* a leading or trailing blank is trimmed away *)
Lemma leading_blank_refuted :
  parse_csv_line (render_line_file (T "p") [T " a"]) = Some [T "p"; T "a"].
Proof. vm_compute. reflexivity. Qed.
Lemma trailing_blank_refuted :
  parse_csv_line (render_line_file (T "p") [T "a "; T "b"]) = Some [T "p"; T "a"; T "b"].
Proof. vm_compute. reflexivity. Qed.
(* a value that is itself quoted loses its quotes; a quote inside a value that
   needs quoting ends the column early *)
Lemma quoted_value_refuted :
  parse_csv_line (render_line_file (T "p") [T """a"""]) = Some [T "p"; T "a"].
Proof. vm_compute. reflexivity. Qed.
Lemma quote_and_comma_refuted :
  parse_csv_line (render_line_file (T "p") [T "a"",b"]) = Some [T "p"; T "a"; T "b"""].
Proof. vm_compute. reflexivity. Qed.
(* a line break inside a value splits the rule over two lines *)
Lemma newline_refuted :
  parsed_lines (render_line_file (T "p") [T "a"; "b"%char :: nl :: T "c"] ++ [nl])
  = [[T "p"; T "a"; T "b"]; [T "c"]].
Proof. vm_compute. reflexivity. Qed.
(* a policy type starting with '#' turns the line into a comment *)
Lemma hash_ptype_refuted : parse_csv_line (render_line_file (T "#p") [T "a"]) = None.
Proof. vm_compute. reflexivity. Qed.
(* D18 (repaired): the old expression left the blanks after a closing quote to
   the second alternative, which produced a spurious empty column *)
Lemma d18_old_splitter :
  parse_csv_line_old (T """a,b"" , c") = Some [T "a,b"; []; T "c"].
Proof. vm_compute. reflexivity. Qed.
Lemma d18_repaired :
  parse_csv_line (T """a,b"" , c") = Some [T "a,b"; T "c"].
Proof. vm_compute. reflexivity. Qed.
(* D17 (repaired): written without quotes a value containing a comma splits *)
Lemma d17_unquoted_splits :
  parse_csv_line (render_line_unquoted (T "p") [T "a,b"; T "c"]) = Some [T "p"; T "a"; T "b"; T "c"].
Proof. vm_compute. reflexivity. Qed.
Lemma d17_repaired :
  parse_csv_line (render_line_file (T "p") [T "a,b"; T "c"]) = Some [T "p"; T "a,b"; T "c"].
Proof. vm_compute. reflexivity. Qed.

(* ---- the executable predicates hold of the model ---- *)
Lemma c16_csv_pred_model : forall fs pt vs,
  ptype_safe pt = true -> forallb csv_safe vs = true -> forallb colfmt_ok fs = true ->
  length fs = S (length vs) ->
  c16_csv_pred (pt :: vs) (parse_csv_line (render_row fs (pt :: vs))) = true.
Proof.
  intros fs pt vs H1 H2 H3 H4. rewrite parse_render_row by assumption.
  unfold c16_csv_pred. apply reqb_refl.
Qed.
Lemma list_eqb_reqb_refl : forall l, list_eqb reqb l l = true.
Proof. intros l. apply (list_eqb_eq reqb reqb_eq). reflexivity. Qed.
Lemma c16_file_pred_model : forall items final,
  forallb (fun ib => fitem_ok (fst ib)) items = true ->
  (match final with Some it => fitem_ok it | None => true end) = true ->
  c16_file_pred (file_rows items final) (parsed_lines (render_file items final)) = true.
Proof.
  intros items final H1 H2. rewrite parsed_lines_file by assumption. apply list_eqb_reqb_refl.
Qed.

(* non-vacuity: a concrete laid-out file with quoting, blanks, comments, CRLF *)
Definition ex_file_items : list (fitem * bool) :=
  [ (FComment [] (T " policy"), false);
    (FRow [ {| cf_pre := T " "; cf_post := []; cf_quote := false |};
            {| cf_pre := T "  "; cf_post := T " "; cf_quote := true |};
            {| cf_pre := []; cf_post := [ascii_of_nat 9]; cf_quote := false |};
            {| cf_pre := T " "; cf_post := T "  "; cf_quote := false |} ]
          (T "p") [T "alice"; T "x,y"; T "a b"], true);
    (FBlank (T "  "), false);
    (FComment (T " ") (T "g, x, y"), true);
    (FRow [ {| cf_pre := []; cf_post := []; cf_quote := false |};
            {| cf_pre := T " "; cf_post := []; cf_quote := false |};
            {| cf_pre := T " "; cf_post := []; cf_quote := true |} ]
          (T "g2") [T "bob"; T "admin"], false) ].
Lemma ex_file_ok : forallb (fun ib => fitem_ok (fst ib)) ex_file_items = true.
Proof. vm_compute. reflexivity. Qed.
Lemma ex_file_rows :
  parsed_lines (render_file ex_file_items (Some (FRow [f_plain; f_sp] (T "p") [T "last"])))
  = [[T "p"; T "alice"; T "x,y"; T "a b"]; [T "g2"; T "bob"; T "admin"]; [T "p"; T "last"]].
Proof. vm_compute. reflexivity. Qed.
