(* C14 at the level of the TRANSLATED SOURCE: the headline theorems of Properties/C14.v restated about `src_step` /
   `src_run_ops` / `src_new_enforcer` (Proofs/SrcStepP.v, Proofs/SrcQueryP.v: the Gallina generated each run from
   src/internal_api.rs - whose ..._internal functions emit the PolicyChange events -, src/rbac_api.rs,
   src/management_api.rs, src/enforcer.rs - clear_policy, save_policy, enable_auto_notify_watcher).
   Proofs/C14P.model_trace gets a src_ twin by the same text, proved equal first.
   Proofs: the C14 theorems (Proofs/C14P.v, Properties/C14.v) composed with src_step_eq & co. *)
From CV Require Import Model.Base Model.Effector Model.RoleGraph Model.PathMatch
     Model.Expr Model.Enforce Model.Engine Model.SpecC14.
From CV Require Import Proofs.BaseP Proofs.C10P Proofs.C14P Properties.C14.
From CV Require Import Proofs.SrcStepP Proofs.SrcQueryP.

(* ---- twin ---- *)
Fixpoint src_model_trace (s : estate) (ops : list op) : list obs :=
  match ops with
  | [] => []
  | o :: rest =>
    let s' := fst (src_step s o) in
    {| o_op := o; o_res := snd (src_step s o);
       o_events := new_events s s';
       o_p := m_get_all (e_model s') s_p; o_g := m_get_all (e_model s') s_g |}
      :: src_model_trace s' rest
  end.

Lemma src_model_trace_eq : forall ops s, src_model_trace s ops = model_trace s ops.
Proof.
  induction ops as [|o rest IH]; intros s; [reflexivity|].
  cbn [src_model_trace model_trace]. cbv zeta. rewrite src_step_eq, IH. reflexivity.
Qed.

(* ---- (5a) exactly one registered callback while notifications are on, in every reachable state ---- *)
Lemma src_c14_notify_inv_step : forall s o, NotifyInv s -> NotifyInv (fst (src_step s o)).
Proof. intros s o H. rewrite src_step_eq. apply notify_inv_step. exact H. Qed.

Lemma src_c14_notify_inv_reachable : forall d a w ops,
  NotifyInv (src_run_ops (fst (src_new_enforcer d a w)) ops).
Proof. intros d a w ops. rewrite src_new_enforcer_eq, src_run_ops_eq. apply notify_inv_reachable. Qed.

(* ---- (5b) delivery count and payload ---- *)
(* single-call management operations, notifications on: a reported change delivers exactly one event carrying
   exactly `expected_event`; no change, an adapter error or a panic deliver nothing; a late error has delivered *)
Lemma src_c14_delivery_single : forall s o c s' res,
  op_prim o = Some c -> e_watcher s = true -> NotifyInv s -> e_auto_notify s = true ->
  src_step s o = (s', res) ->
  match res with
  | Ok true => e_wlog s' = e_wlog s ++ [expected_event c (e_model s)]
  | Ok false => e_wlog s' = e_wlog s
  | Err EAdapter => e_wlog s' = e_wlog s
  | Err _ => late_ok c (e_model s) -> e_wlog s' = e_wlog s ++ [expected_event c (e_model s)]
  | Panic => e_wlog s' = e_wlog s
  end.
Proof.
  intros s o c s' res Ho Hw Hi Hn Hst. rewrite src_step_eq in Hst.
  exact (delivery_single s o c s' res Ho Hw Hi Hn Hst).
Qed.

(* notifications off: no management call (two-call helpers included) reaches the watcher *)
Lemma src_c14_delivery_off : forall s o,
  is_mgmt o = true -> e_watcher s = true -> e_auto_notify s = false ->
  e_wlog (fst (src_step s o)) = e_wlog s.
Proof. intros s o Hm Hw Hn. rewrite src_step_eq. apply delivery_off; assumption. Qed.

(* clear_policy / save_policy deliver once per registered callback; nothing when they fail *)
Lemma src_c14_delivery_clear : forall s s' res,
  e_watcher s = true -> src_step s OClear = (s', res) ->
  e_wlog s' = e_wlog s ++ match res with Ok _ => repeat EvClear (e_callbacks s) | _ => [] end.
Proof. intros s s' res Hw Hst. rewrite src_step_eq in Hst. exact (delivery_clear s s' res Hw Hst). Qed.

Lemma src_c14_delivery_save : forall s s' res,
  e_watcher s = true -> src_step s OSave = (s', res) ->
  e_model s' = e_model s /\
  e_wlog s' = e_wlog s ++
    match res with
    | Ok _ => repeat (EvSave (m_get_all (e_model s) s_p ++ m_get_all (e_model s) s_g)) (e_callbacks s)
    | _ => []
    end.
Proof. intros s s' res Hw Hst. rewrite src_step_eq in Hst. exact (delivery_save s s' res Hw Hst). Qed.

(* one public call, everything at once: the events delivered, the replica step, the predicate's delivery rule *)
Lemma src_c14_step : forall s o,
  e_watcher s = true -> NotifyInv s -> gdefs_ok (e_model s) = true ->
  notified_op o = true -> (mutating o = true -> e_auto_notify s = true) ->
  exists evs,
    e_wlog (fst (src_step s o)) = e_wlog s ++ evs /\
    store_of (e_model (fst (src_step s o))) = replay evs (store_of (e_model s)) /\
    events_ok (e_auto_notify s) (store_of (e_model s))
              (m_get_all (e_model s) s_p) (m_get_all (e_model s) s_g) o (snd (src_step s o)) evs = true.
Proof. intros s o Hw Hi Hg Hn Hm. rewrite !src_step_eq. exact (c14_step s o Hw Hi Hg Hn Hm). Qed.

(* ---- (6) the replica ---- *)
(* for every history of notified operations in which every mutating call runs with notifications on: the events
   logged during the history, folded into the initial store, give the primary's store *)
Lemma src_c14_replica_eq : forall ops s0,
  C14Inv s0 -> forallb notified_op ops = true -> toggles_ok (e_auto_notify s0) ops = true ->
  exists evs,
    e_wlog (src_run_ops s0 ops) = e_wlog s0 ++ evs /\
    store_of (e_model (src_run_ops s0 ops)) = replay evs (store_of (e_model s0)).
Proof. intros ops s0 Hi Hn Ht. rewrite src_run_ops_eq. apply replica_eq; assumption. Qed.

(* ... at every prefix, as the listings get_all_policy / get_all_grouping_policy, in order *)
Lemma src_c14_replica_eq_listing : forall ops1 ops2 s0,
  C14Inv s0 -> forallb notified_op (ops1 ++ ops2) = true ->
  toggles_ok (e_auto_notify s0) (ops1 ++ ops2) = true ->
  let s := src_run_ops s0 ops1 in
  let replica := replay (new_events s0 s) (store_of (e_model s0)) in
  replica = store_of (e_model s) /\
  st_flat s_p replica = m_get_all (e_model s) s_p /\
  st_flat s_g replica = m_get_all (e_model s) s_g.
Proof.
  intros ops1 ops2 s0 Hi Hn Ht. cbv zeta. rewrite src_run_ops_eq.
  exact (replica_eq_listing ops1 ops2 s0 Hi Hn Ht).
Qed.

(* for every successfully constructed enforcer (with a watcher) and every such history *)
Lemma src_c14_replica_eq_constructed : forall d a b ops,
  snd (src_new_enforcer d a true) = Ok b ->
  forallb notified_op ops = true -> toggles_ok true ops = true ->
  let s0 := fst (src_new_enforcer d a true) in
  exists evs,
    e_wlog (src_run_ops s0 ops) = e_wlog s0 ++ evs /\
    store_of (e_model (src_run_ops s0 ops)) = replay evs (store_of (e_model s0)) /\
    m_get_all (e_model (src_run_ops s0 ops)) s_p = st_flat s_p (replay evs (store_of (e_model s0))) /\
    m_get_all (e_model (src_run_ops s0 ops)) s_g = st_flat s_g (replay evs (store_of (e_model s0))).
Proof.
  intros d a b ops. rewrite src_new_enforcer_eq. intros Hok Hn Ht. cbv zeta. rewrite src_run_ops_eq.
  exact (c14_replica_eq_constructed d a b ops Hok Hn Ht).
Qed.

(* ---- (7) the translated source's own traces satisfy the executable predicate ---- *)
Lemma src_c14_pred_holds : forall ops s,
  C14Inv s -> forallb notified_op ops = true -> toggles_ok (e_auto_notify s) ops = true ->
  c14_pred (e_auto_notify s) (store_of (e_model s)) (src_model_trace s ops) = true.
Proof. intros ops s Hi Hn Ht. rewrite src_model_trace_eq. apply c14_pred_model; assumption. Qed.
