(* The query interface over the TRANSLATED SOURCE, second version.  `src_ask` (Proofs/SrcQueryP.v) answers the
   decision queries through the translated enforcement loops but the listings through the model's tables;
   `src_ask2` answers EVERY query constructor for which rs2coq part 13 generated a function THROUGH that function
   (Gen/QueryGen.v, regenerated each run from src/rbac_api.rs and src/management_api.rs):

     QGetPolicy p/g        genq_get_policy, genq_get_named_policy, genq_get_grouping_policy, genq_get_named_grouping_policy
     QGetAll p/g           genq_get_all_policy, genq_get_all_grouping_policy
     QHasPolicy p/g        genq_has_policy, genq_has_named_policy, genq_has_grouping_policy, genq_has_grouping_named_policy
     QGetFiltered p/g      genq_get_filtered_policy, genq_get_filtered_named_policy, genq_get_filtered_grouping_policy,
                           genq_get_filtered_named_grouping_policy
     QValues p 0/1/2       genq_get_all_subjects / objects / actions and their _named_ forms
     QValues g 1           genq_get_all_roles, genq_get_all_named_roles
     QRolesFor / QUsersFor / QHasRole      genq_get_roles_for_user, genq_get_users_for_role, genq_has_role_for_user
     QPermsFor                             genq_get_permissions_for_user
     QImplicitRoles / QImplicitPerms       genq_get_implicit_roles_for_user, genq_get_implicit_permissions_for_user
     QImplicitUsers                        genq_get_implicit_users_for_permission
     QEnforce / QEnforceCtx                src_enforce, src_enforce_with_ctx (Gen/EnforceGen.v)

   The API of the source has NO function for the remaining arguments (a section other than "p" / "g" in the
   management queries, a field index without a getter in QValues) and part 13 generated none for QIsFiltered
   (Adapter::is_filtered, a field read) and QHasLink (through get_role_manager(): part 7, another state
   representation): those keep the model's answer, as in src_ask.

   `ord` is the iteration order of the hash containers the source goes through, `fuel` bounds the work-list loop of
   get_implicit_roles_for_user (the source's loop has no bound: None = not enough fuel).

   src_ask2_equiv: for every iteration order, on every state whose role manager is well formed (needed by
   QImplicitRoles / QImplicitPerms only) and with fuel above the size of the role graph (the same two queries
   only), the answer is the model's, listings the source returns from a hash container being compared as sets /
   bags (answer_equiv, Proofs/C18P.v).  Both hypotheses hold on every reachable state for a suitable fuel
   (src_ask2_reachable). *)
From CV Require Import Model.Base Model.Effector Model.RoleGraph Model.Expr Model.Enforce Model.Engine Model.SpecC13.
From CV Require Import Gen.RustStr Gen.RustVec Gen.RustIter Gen.QueryRt Gen.QueryGen.
From CV Require Import Proofs.BaseP Proofs.RoleGraphP Proofs.C13P Proofs.C18P Proofs.QueryP PinChecks.PcQueryGen.
From CV Require Import Proofs.SrcStepP Proofs.SrcQueryP.
From Coq Require Import Permutation Lia.

Section SrcAsk2.
  Variable ptab : text -> option expr.
  Variable ord : list text -> list text.
  Variable fuel : nat.

  Definition src_ask2 (s : estate) (q : query) : answer :=
    match q with
    | QEnforce rv => AnsDec (src_enforce ptab s rv)
    | QEnforceCtx k rv => AnsDec (src_enforce_with_ctx ptab s k rv)
    | QGetPolicy sec pt =>
      if teqb sec s_p
      then (if teqb pt s_p then ans_rules (genq_get_policy s) else ans_rules (genq_get_named_policy s pt))
      else if teqb sec s_g
      then (if teqb pt s_g then ans_rules (genq_get_grouping_policy s)
            else ans_rules (genq_get_named_grouping_policy s pt))
      else AnsRules (m_get_policy (e_model s) sec pt)
    | QGetAll sec =>
      if teqb sec s_p then ans_rules (genq_get_all_policy s)
      else if teqb sec s_g then ans_rules (genq_get_all_grouping_policy s)
      else AnsRules (m_get_all (e_model s) sec)
    | QHasPolicy sec pt r =>
      if teqb sec s_p
      then (if teqb pt s_p then ans_bool (genq_has_policy s r) else ans_bool (genq_has_named_policy s pt r))
      else if teqb sec s_g
      then (if teqb pt s_g then ans_bool (genq_has_grouping_policy s r)
            else ans_bool (genq_has_grouping_named_policy s pt r))
      else AnsBool (m_has_policy (e_model s) sec pt r)
    | QGetFiltered sec pt idx vals =>
      if teqb sec s_p
      then (if teqb pt s_p then ans_rules (genq_get_filtered_policy s idx vals)
            else ans_rules (genq_get_filtered_named_policy s pt idx vals))
      else if teqb sec s_g
      then (if teqb pt s_g then ans_rules (genq_get_filtered_grouping_policy s idx vals)
            else ans_rules (genq_get_filtered_named_grouping_policy s pt idx vals))
      else match m_get_filtered (e_model s) sec pt idx vals with Some l => AnsRules l | None => AnsPanic end
    | QValues sec pt idx =>
      let model_answer :=
        match m_values (e_model s) sec pt idx with Some l => AnsNames l | None => AnsPanic end in
      if teqb sec s_p
      then match idx with
           | 0 => if teqb pt s_p then ans_names (genq_get_all_subjects s)
                  else ans_names (genq_get_all_named_subjects s pt)
           | 1 => if teqb pt s_p then ans_names (genq_get_all_objects s)
                  else ans_names (genq_get_all_named_objects s pt)
           | 2 => if teqb pt s_p then ans_names (genq_get_all_actions s)
                  else ans_names (genq_get_all_named_actions s pt)
           | _ => model_answer
           end
      else if teqb sec s_g
      then match idx with
           | 1 => if teqb pt s_g then ans_names (genq_get_all_roles s)
                  else ans_names (genq_get_all_named_roles s pt)
           | _ => model_answer
           end
      else model_answer
    | QRolesFor n d => ans_nameset (genq_get_roles_for_user ord s n d)
    | QUsersFor n d => ans_nameset (genq_get_users_for_role ord s n d)
    | QHasRole n r d => ans_bool (genq_has_role_for_user ord s n r d)
    | QImplicitRoles n d => ans_nameset (genq_get_implicit_roles_for_user ord fuel s n d)
    | QPermsFor n d => ans_rules (genq_get_permissions_for_user s n d)
    | QImplicitPerms n d => ans_bag (genq_get_implicit_permissions_for_user ord fuel s n d)
    | QImplicitUsers p => ans_nameset (genq_get_implicit_users_for_permission ptab ord s p)
    | QIsFiltered => AnsBool (ad_is_filtered (e_adapter s))
    | QHasLink a b d => AnsBool (has_link (f_rm_max (e_fs s)) (f_rm (e_fs s)) a b d)
    end.

  (* what part 13 needs of the state and of the fuel, query by query: only the two queries that run the
     work-list loop of get_implicit_roles_for_user need anything *)
  Definition q_side (s : estate) (q : query) : Prop :=
    match q with
    | QImplicitRoles _ d | QImplicitPerms _ d =>
      wf (f_rm (e_fs s)) /\ S (S (graph_size (f_rm (e_fs s)) d)) <= fuel
    | _ => True
    end.

  Lemma src_ask2_equiv : forall s q, q_ord_ok ord -> q_side s q ->
    answer_equiv (src_ask2 s q) (ask ptab s q).
  Proof.
    intros s q Hord Hside. destruct q as [rv|k rv|sec pt|sec|sec pt r|sec pt idx vals|sec pt idx
                                         |n d|n d|n r d|n d|n d|n d|p| |a b d]; cbn [src_ask2].
    - cbn [ask]. rewrite src_enforce_eq. apply answer_equiv_refl.
    - cbn [ask]. rewrite src_enforce_with_ctx_eq. apply answer_equiv_refl.
    - (* QGetPolicy *)
      destruct (teqb sec s_p) eqn:Ep.
      { apply teqb_eq in Ep. subst sec. destruct (teqb pt s_p) eqn:Ept.
        - apply teqb_eq in Ept. subst pt. rewrite (genq_get_policy_ok ptab). apply answer_equiv_refl.
        - rewrite (genq_get_named_policy_ok ptab). apply answer_equiv_refl. }
      destruct (teqb sec s_g) eqn:Eg.
      { apply teqb_eq in Eg. subst sec. destruct (teqb pt s_g) eqn:Ept.
        - apply teqb_eq in Ept. subst pt. rewrite (genq_get_grouping_policy_ok ptab). apply answer_equiv_refl.
        - rewrite (genq_get_named_grouping_policy_ok ptab). apply answer_equiv_refl. }
      apply answer_equiv_refl.
    - (* QGetAll *)
      destruct (teqb sec s_p) eqn:Ep.
      { apply teqb_eq in Ep. subst sec. rewrite (genq_get_all_policy_ok ptab). apply answer_equiv_refl. }
      destruct (teqb sec s_g) eqn:Eg.
      { apply teqb_eq in Eg. subst sec. rewrite (genq_get_all_grouping_policy_ok ptab). apply answer_equiv_refl. }
      apply answer_equiv_refl.
    - (* QHasPolicy *)
      destruct (teqb sec s_p) eqn:Ep.
      { apply teqb_eq in Ep. subst sec. destruct (teqb pt s_p) eqn:Ept.
        - apply teqb_eq in Ept. subst pt. rewrite (genq_has_policy_ok ptab). apply answer_equiv_refl.
        - rewrite (genq_has_named_policy_ok ptab). apply answer_equiv_refl. }
      destruct (teqb sec s_g) eqn:Eg.
      { apply teqb_eq in Eg. subst sec. destruct (teqb pt s_g) eqn:Ept.
        - apply teqb_eq in Ept. subst pt. rewrite (genq_has_grouping_policy_ok ptab). apply answer_equiv_refl.
        - rewrite (genq_has_grouping_named_policy_ok ptab). apply answer_equiv_refl. }
      apply answer_equiv_refl.
    - (* QGetFiltered *)
      destruct (teqb sec s_p) eqn:Ep.
      { apply teqb_eq in Ep. subst sec. destruct (teqb pt s_p) eqn:Ept.
        - apply teqb_eq in Ept. subst pt. rewrite (genq_get_filtered_policy_ok ptab). apply answer_equiv_refl.
        - rewrite (genq_get_filtered_named_policy_ok ptab). apply answer_equiv_refl. }
      destruct (teqb sec s_g) eqn:Eg.
      { apply teqb_eq in Eg. subst sec. destruct (teqb pt s_g) eqn:Ept.
        - apply teqb_eq in Ept. subst pt. rewrite (genq_get_filtered_grouping_policy_ok ptab).
          apply answer_equiv_refl.
        - rewrite (genq_get_filtered_named_grouping_policy_ok ptab). apply answer_equiv_refl. }
      apply answer_equiv_refl.
    - (* QValues *)
      cbv zeta. destruct (teqb sec s_p) eqn:Ep.
      { apply teqb_eq in Ep. subst sec. destruct idx as [|[|[|idx]]].
        - destruct (teqb pt s_p) eqn:Ept.
          + apply teqb_eq in Ept. subst pt. rewrite (genq_get_all_subjects_ok ptab). apply answer_equiv_refl.
          + rewrite (genq_get_all_named_subjects_ok ptab). apply answer_equiv_refl.
        - destruct (teqb pt s_p) eqn:Ept.
          + apply teqb_eq in Ept. subst pt. rewrite (genq_get_all_objects_ok ptab). apply answer_equiv_refl.
          + rewrite (genq_get_all_named_objects_ok ptab). apply answer_equiv_refl.
        - destruct (teqb pt s_p) eqn:Ept.
          + apply teqb_eq in Ept. subst pt. rewrite (genq_get_all_actions_ok ptab). apply answer_equiv_refl.
          + rewrite (genq_get_all_named_actions_ok ptab). apply answer_equiv_refl.
        - apply answer_equiv_refl. }
      destruct (teqb sec s_g) eqn:Eg.
      { apply teqb_eq in Eg. subst sec. destruct idx as [|[|idx]].
        - apply answer_equiv_refl.
        - destruct (teqb pt s_g) eqn:Ept.
          + apply teqb_eq in Ept. subst pt. rewrite (genq_get_all_roles_ok ptab). apply answer_equiv_refl.
          + rewrite (genq_get_all_named_roles_ok ptab). apply answer_equiv_refl.
        - apply answer_equiv_refl. }
      apply answer_equiv_refl.
    - apply genq_get_roles_for_user_ok. exact Hord.
    - apply genq_get_users_for_role_ok. exact Hord.
    - rewrite (genq_has_role_for_user_ok ptab ord s n r d Hord). apply answer_equiv_refl.
    - destruct Hside as [Hwf Hf]. apply genq_get_implicit_roles_for_user_ok; assumption.
    - rewrite (genq_get_permissions_for_user_ok ptab). apply answer_equiv_refl.
    - destruct Hside as [Hwf Hf]. apply genq_get_implicit_permissions_for_user_ok; assumption.
    - apply genq_get_implicit_users_for_permission_ok. exact Hord.
    - apply answer_equiv_refl.
    - apply answer_equiv_refl.
  Qed.

  (* one hypothesis for all queries at once *)
  Lemma q_side_all : forall s, wf (f_rm (e_fs s)) ->
    (forall d, S (S (graph_size (f_rm (e_fs s)) d)) <= fuel) -> forall q, q_side s q.
  Proof. intros s Hwf Hf q. destruct q; cbn [q_side]; try exact I; split; auto. Qed.

  (* the decision queries and the ordered listings: plain equality *)
  Lemma src_ask2_enforce : forall s rv, src_ask2 s (QEnforce rv) = ask ptab s (QEnforce rv).
  Proof. intros s rv. cbn [src_ask2 ask]. rewrite src_enforce_eq. reflexivity. Qed.
End SrcAsk2.

(* fuel that is enough for a query on a state *)
Definition q_fuel (s : estate) (q : query) : nat :=
  match q with
  | QImplicitRoles _ d | QImplicitPerms _ d => S (S (graph_size (f_rm (e_fs s)) d))
  | _ => 0
  end.

Lemma q_side_fuel : forall fuel s q, wf (f_rm (e_fs s)) -> q_fuel s q <= fuel -> q_side fuel s q.
Proof. intros fuel s q Hwf Hf. destruct q; cbn [q_side q_fuel] in *; try exact I; split; assumption. Qed.

(* the hypotheses hold on every state the translated source can reach from the translated constructor, for every
   fuel above q_fuel; in particular some fuel is enough *)
Lemma src_ask2_reachable : forall ptab ord d a w ops q fuel, q_ord_ok ord ->
  let s := src_run_ops (fst (src_new_enforcer d a w)) ops in
  q_fuel s q <= fuel ->
  answer_equiv (src_ask2 ptab ord fuel s q) (ask ptab s q).
Proof.
  intros ptab ord d a w ops q fuel Hord s Hf. apply src_ask2_equiv; [exact Hord|].
  apply q_side_fuel; [|exact Hf].
  unfold s. rewrite src_run_ops_eq, src_new_enforcer_eq. apply wf_run_ops, wf_new_enforcer.
Qed.

Lemma src_ask2_reachable_ex : forall ptab ord d a w ops q, q_ord_ok ord ->
  let s := src_run_ops (fst (src_new_enforcer d a w)) ops in
  exists F, forall fuel, F <= fuel -> answer_equiv (src_ask2 ptab ord fuel s q) (ask ptab s q).
Proof.
  intros ptab ord d a w ops q Hord s. exists (q_fuel s q). intros fuel Hf.
  apply (src_ask2_reachable ptab ord d a w ops q fuel Hord Hf).
Qed.

(* src_ask2 agrees with src_ask (the first source-level query interface) up to answer_equiv *)
Lemma src_ask2_src_ask : forall ptab ord fuel s q, q_ord_ok ord -> q_side fuel s q ->
  answer_equiv (src_ask2 ptab ord fuel s q) (src_ask ptab s q).
Proof. intros ptab ord fuel s q Hord Hs. rewrite src_ask_eq. apply src_ask2_equiv; assumption. Qed.

(* answer_equiv is an equivalence: what lets statements over `ask` be moved to src_ask2 *)
Lemma answer_equiv_sym : forall a b, answer_equiv a b -> answer_equiv b a.
Proof.
  intros a b H. destruct a, b; cbn [answer_equiv] in *;
    try (symmetry; exact H); try (intros e; symmetry; apply H).
Qed.
Lemma answer_equiv_trans : forall a b c, answer_equiv a b -> answer_equiv b c -> answer_equiv a c.
Proof.
  intros a b c H1 H2. destruct a, b; cbn [answer_equiv] in H1; try discriminate;
    destruct c; cbn [answer_equiv] in *; try discriminate; try congruence;
    try (eapply Permutation_trans; eassumption); try (intros e; rewrite (H1 e); apply H2).
Qed.

(* two states the model cannot tell apart by a query are not told apart by the translated query functions *)
Lemma src_ask2_transfer : forall ptab ord fuel s1 s2 q, q_ord_ok ord -> q_side fuel s1 q -> q_side fuel s2 q ->
  answer_equiv (ask ptab s1 q) (ask ptab s2 q) ->
  answer_equiv (src_ask2 ptab ord fuel s1 q) (src_ask2 ptab ord fuel s2 q).
Proof.
  intros ptab ord fuel s1 s2 q Hord H1 H2 H.
  eapply answer_equiv_trans; [apply src_ask2_equiv; assumption|].
  eapply answer_equiv_trans; [exact H|]. apply answer_equiv_sym, src_ask2_equiv; assumption.
Qed.

(* ---- non-vacuity: ex1 of Proofs/C13P.v (a diamond with a cycle), reversed iteration order ---- *)
Example src_ask2_ex_side : q_ord_ok (@rev text) /\ q_side 6 ex1 (QImplicitRoles (T "alice") None).
Proof. split; [exact ex_ord_ok|]. split; [exact ex_wf|exact ex_fuel]. Qed.
