(* C02 at the level of the TRANSLATED SOURCE: the theorems of Properties/C02.v restated about Gen/EffectorGen.v
   (generated each run from src/effector.rs), by composing them with PinChecks/PcEffectorGen.v. *)
From CV Require Import Model.Base Model.Effector Gen.EffectorGen Proofs.BaseP Proofs.EffectorP PinChecks.PcEffectorGen.
From Coq Require Import Lia.

(* what the enforcer does with a stream: push until the first completion signal *)
Fixpoint gen_run (s : gstate) (l : list eff) : gstate :=
  match l with
  | [] => s
  | e :: l' => let (s', fl) := gen_push_effect s e in if fl then s' else gen_run s' l'
  end.

Lemma gen_run_ok : forall l s, gen_run (embed s) l = embed (run s l).
Proof.
  induction l as [|e l IH]; intros s; [reflexivity|].
  cbn [gen_run run]. rewrite gen_push_effect_ok.
  destruct (done (push s e)) eqn:E; [reflexivity|apply IH].
Qed.

Lemma gen_new_stream_text : forall r c, c <> 0 ->
  gen_new_stream (erule_text r) c = Some (embed (new_stream_r r c)).
Proof.
  intros r c Hc. rewrite gen_new_stream_ok. unfold new_stream.
  destruct (Nat.eqb c 0) eqn:E; [apply Nat.eqb_eq in E; contradiction|].
  rewrite EffectorP.parse_erule_text. reflexivity.
Qed.

(* result: for each of the four effect expressions and every non-empty sequence of effects, the translated
   new_stream / push_effect / next, driven the way the enforcement loop drives them, give the declarative result *)
Lemma src_c02_result : forall (r : erule) (l : list eff), l <> [] ->
  exists s0, gen_new_stream (erule_text r) (length l) = Some s0 /\
    g_done (gen_run s0 l) = true /\ gen_next (gen_run s0 l) = Some (decl r l).
Proof.
  intros r l Hl. exists (embed (new_stream_r r (length l))). split.
  - apply gen_new_stream_text. destruct l; [contradiction|cbn; lia].
  - rewrite gen_run_ok, gen_next_ok. destruct (run_result r l Hl) as [Hd Hn]. split; [exact Hd|exact Hn].
Qed.

(* a completion signalled strictly before the announced capacity is final *)
Lemma src_c02_early_final : forall (r : erule) (c : nat) (l1 : list eff) (e : eff), c <> 0 ->
  exists s0, gen_new_stream (erule_text r) c = Some s0 /\
    (let s1 := fst (gen_push_all s0 l1) in
     g_done s1 = false -> snd (gen_push_effect s1 e) = true -> length l1 + 1 < c ->
     forall l2, decl r (l1 ++ e :: l2) = g_res (fst (gen_push_effect s1 e))).
Proof.
  intros r c l1 e Hc. exists (embed (new_stream_r r c)). split; [apply gen_new_stream_text; exact Hc|].
  cbv zeta. rewrite gen_push_all_ok. cbn [fst]. rewrite gen_push_effect_ok. cbn [fst snd embed g_done g_res].
  intros Hd He Hlen l2.
  assert (Hrun : forall l s, done (fst (push_all s l)) = false -> fst (push_all s l) = run s l).
  { induction l as [|x l IH]; intros s H; [reflexivity|].
    cbn [push_all run] in *. destruct (push_all (push s x) l) as [s'' fl] eqn:Ep. cbn [fst] in *.
    destruct (done (push s x)) eqn:Ed.
    - exfalso. destruct (push_all_done_sticky l (push s x) Ed) as [Hs _]. rewrite Ep in Hs. cbn [fst] in Hs. congruence.
    - specialize (IH (push s x)). rewrite Ep in IH. cbn [fst] in IH. apply IH. exact H. }
  pose proof (Hrun l1 (new_stream_r r c) Hd) as E. rewrite E in Hd, He. rewrite E.
  exact (early_final r c l1 e Hd He Hlen l2).
Qed.

(* complete once the announced number of effects has been pushed, also when the caller ignores the flag *)
Lemma src_c02_cap_complete : forall (r : erule) (l : list eff), l <> [] ->
  exists s0, gen_new_stream (erule_text r) (length l) = Some s0 /\
    g_done (fst (gen_push_all s0 l)) = true /\ last (snd (gen_push_all s0 l)) false = true.
Proof.
  intros r l Hl. exists (embed (new_stream_r r (length l))). split.
  - apply gen_new_stream_text. destruct l; [contradiction|cbn; lia].
  - rewrite gen_push_all_ok. cbn [fst snd embed g_done]. apply (cap_complete r l Hl).
Qed.
