(* C06 at the level of the TRANSLATED SOURCE: the headline theorems of Properties/C06.v (enforcement is total and
   fails closed on request-controlled input) restated about
     gen_private_enforce / gen_private_enforce_with_context   (Gen/EnforceGen.v: src/enforcer.rs, the two private_enforce functions)
     src_enforce / src_enforce_with_ctx                        (Proofs/SrcStepP.v: the same on an enforcer state)
     gen_key_match / gen_key_get                               (Gen/StrFnGen.v: src/model/function_map.rs)
   Proofs: the C06 theorems (Proofs/C06P.v) composed with gen_private_enforce_with_context_ok & co
   (PinChecks/PcEnforceGen.v) and gen_key_match_ok / gen_key_get_ok (PinChecks/PcStrFnGen.v).
   The model's enforce_core takes the name of the effect token as a parameter `et`; the source computes it from the
   policy key (`format!("{}_eft", p_type)` = tok pk s_eft): the statements below are the model's at that value.
   NOT restated: c06_matchers_defined (keyMatch2..5 / keyGet2,3 are not fully translated: their regular expression
   is compiled at run time, see Properties/RegexFmGen.v) and the theorems about the model-only reference
   semantics perm_combine (c06_combine_*, c06_decision_has_clean_prefix), which have no source counterpart.
   Totality of the translated functions: a Gallina function of type `.. -> outcome bool` / `bool` / `text` is
   total by construction; a panic of the source is the value Panic (resp. None in the option-typed parts). *)
From CV Require Import Model.Base Model.Effector Model.RoleGraph Model.PathMatch Model.Expr
     Model.Enforce Model.Engine Model.SpecC15.
From CV Require Import Proofs.BaseP Proofs.EnforceP Proofs.C06P.
From CV Require Import Gen.RustStr Gen.StrFnGen PinChecks.PcStrFnGen.
From CV Require Import Gen.RustVec Gen.RustEnf Gen.EnforceGen PinChecks.PcEnforceGen.
From CV Require Import Proofs.SrcStepP.

(* ------------------------------------------------------------------ *)
(* 1. keyMatch / keyGet as registered functions: the value of the translated function, never a panic *)
Lemma src_c06_key_fns_registered : forall a b,
  builtin (T "keyMatch") [a; b] = Some (EV (VBool (gen_key_match a b))) /\
  builtin (T "keyGet") [a; b] = Some (EV (VStr (gen_key_get a b))).
Proof. intros a b. rewrite gen_key_match_ok, gen_key_get_ok. split; reflexivity. Qed.

(* through the function table of any enforcer that has not shadowed them: every pair of texts *)
Lemma src_c06_key_fns_no_panic : forall fs a b,
  assoc (T "keyMatch") (f_ufuns fs) = None -> find_gfun (T "keyMatch", 2) (f_gfuns fs) = None ->
  assoc (T "keyGet") (f_ufuns fs) = None -> find_gfun (T "keyGet", 2) (f_gfuns fs) = None ->
  call_fn fs (T "keyMatch") [VStr a; VStr b] = Some (EV (VBool (gen_key_match a b))) /\
  call_fn fs (T "keyGet") [VStr a; VStr b] = Some (EV (VStr (gen_key_get a b))).
Proof.
  intros fs a b Hu1 Hg1 Hu2 Hg2. rewrite gen_key_match_ok, gen_key_get_ok. unfold call_fn.
  cbn [all_strs length]. rewrite Hu1, Hu2. cbn [length]. rewrite Hg1, Hg2. split; reflexivity.
Qed.

(* ------------------------------------------------------------------ *)
(* 2. the translated enforcement loop never panics, for ANY request list; the one remaining Panic is an effect
      text the effector does not support *)
Lemma src_c06_no_panic : forall ptab en md mx fs rk pk ek mk rv,
  (forall e_ast, get_ast md s_e ek = Some e_ast -> parse_erule (a_value e_ast) <> None) ->
  gen_private_enforce_with_context ptab en md mx fs rk pk ek mk rv <> Panic.
Proof.
  intros ptab en md mx fs rk pk ek mk rv H. rewrite gen_private_enforce_with_context_ok.
  apply enforce_no_panic. exact H.
Qed.

Lemma src_c06_plain_no_panic : forall ptab en md mx fs rv,
  (forall e_ast, get_ast md s_e s_e = Some e_ast -> parse_erule (a_value e_ast) <> None) ->
  gen_private_enforce ptab en md mx fs rv <> Panic.
Proof.
  intros ptab en md mx fs rv H. rewrite gen_private_enforce_plain. apply enforce_no_panic. exact H.
Qed.

Lemma src_c06_panic_needs_effect : forall ptab md mx fs rk pk ek mk rv r_ast p_ast m_ast e_ast,
  get_ast md s_r rk = Some r_ast -> get_ast md s_p pk = Some p_ast ->
  get_ast md s_m mk = Some m_ast -> get_ast md s_e ek = Some e_ast ->
  length (a_tokens r_ast) = length rv ->
  parse_erule (a_value e_ast) = None ->
  gen_private_enforce_with_context ptab true md mx fs rk pk ek mk rv = Panic.
Proof.
  intros ptab md mx fs rk pk ek mk rv r_ast p_ast m_ast e_ast Hr Hp Hm He Hl Hpe.
  rewrite gen_private_enforce_with_context_ok.
  apply (enforce_panics_on_bad_effect ptab md mx fs rk pk ek mk (tok pk s_eft) rv r_ast p_ast m_ast e_ast); assumption.
Qed.

(* for an enforcer state: plain and context-qualified requests *)
Lemma src_c06_state_no_panic : forall ptab s rv,
  effect_supported s s_e -> src_enforce ptab s rv <> Panic.
Proof. intros ptab s rv H. rewrite src_enforce_eq. apply state_enforce_no_panic. exact H. Qed.

Lemma src_c06_state_ctx_no_panic : forall ptab s k rv,
  effect_supported s (s_e ++ k) -> src_enforce_with_ctx ptab s k rv <> Panic.
Proof. intros ptab s k rv H. rewrite src_enforce_with_ctx_eq. apply state_enforce_ctx_no_panic. exact H. Qed.

(* a hand-assembled EnforceContext: the four section names are independent *)
Lemma src_c06_state_ctx4_no_panic : forall ptab s rk pk ek mk rv,
  effect_supported s ek -> src_enforce_with_ctx4 ptab s rk pk ek mk rv <> Panic.
Proof.
  intros ptab s rk pk ek mk rv H. rewrite src_enforce_with_ctx4_eq. unfold enforce_with_ctx4.
  apply enforce_no_panic. exact H.
Qed.

(* ------------------------------------------------------------------ *)
(* 3. wrong arity is a request error (with the enforcer enabled); a disabled enforcer grants everything; a
      missing section is a model error *)
Lemma src_c06_arity : forall ptab md mx fs rk pk ek mk rv r_ast p_ast m_ast e_ast,
  get_ast md s_r rk = Some r_ast -> get_ast md s_p pk = Some p_ast ->
  get_ast md s_m mk = Some m_ast -> get_ast md s_e ek = Some e_ast ->
  length (a_tokens r_ast) <> length rv ->
  gen_private_enforce_with_context ptab true md mx fs rk pk ek mk rv = Err ERequest.
Proof.
  intros ptab md mx fs rk pk ek mk rv r_ast p_ast m_ast e_ast Hr Hp Hm He Hl.
  rewrite gen_private_enforce_with_context_ok.
  apply (enforce_arity ptab md mx fs rk pk ek mk (tok pk s_eft) rv r_ast p_ast m_ast e_ast); assumption.
Qed.

Lemma src_c06_disabled_grants_everything : forall ptab md mx fs rk pk ek mk rv,
  gen_private_enforce_with_context ptab false md mx fs rk pk ek mk rv = Ok true.
Proof. intros. rewrite gen_private_enforce_with_context_ok. apply enforce_disabled. Qed.

Lemma src_c06_missing_section : forall ptab md mx fs rk pk ek mk rv,
  (get_ast md s_r rk = None \/ get_ast md s_p pk = None \/
   get_ast md s_m mk = None \/ get_ast md s_e ek = None) ->
  gen_private_enforce_with_context ptab true md mx fs rk pk ek mk rv = Err EModel.
Proof.
  intros ptab md mx fs rk pk ek mk rv H. rewrite gen_private_enforce_with_context_ok.
  apply enforce_missing_section. exact H.
Qed.

(* ------------------------------------------------------------------ *)
(* 4. errors never grant *)
Lemma src_c06_error_never_grants :
  forall ptab md mx fs rk pk ek mk rv r_ast p_ast m_ast e_ast er m good bad rest effs c,
  get_ast md s_r rk = Some r_ast -> get_ast md s_p pk = Some p_ast ->
  get_ast md s_m mk = Some m_ast -> get_ast md s_e ek = Some e_ast ->
  parse_erule (a_value e_ast) = Some er -> assoc mk mx = Some m ->
  length (a_tokens r_ast) = length rv ->
  a_policy p_ast = good ++ bad :: rest ->
  map (rule_outcome ptab fs m (tok pk s_eft) (a_tokens p_ast) (bind (a_tokens r_ast) rv [])) good = map Ok effs ->
  forced er effs = None ->
  rule_outcome ptab fs m (tok pk s_eft) (a_tokens p_ast) (bind (a_tokens r_ast) rv []) bad = Err c ->
  gen_private_enforce_with_context ptab true md mx fs rk pk ek mk rv = Err c.
Proof.
  intros ptab md mx fs rk pk ek mk rv r_ast p_ast m_ast e_ast er m good bad rest effs c
         Hr Hp Hm He Hpe Hmx Hl Hpol Hgood Hf Hbad.
  rewrite gen_private_enforce_with_context_ok.
  apply (enforce_error_reached ptab md mx fs rk pk ek mk (tok pk s_eft) rv r_ast p_ast m_ast e_ast er m
                               good bad rest effs c); assumption.
Qed.

Lemma src_c06_malformed_rule :
  forall ptab md mx fs rk pk ek mk rv r_ast p_ast m_ast e_ast er m good bad rest effs,
  get_ast md s_r rk = Some r_ast -> get_ast md s_p pk = Some p_ast ->
  get_ast md s_m mk = Some m_ast -> get_ast md s_e ek = Some e_ast ->
  parse_erule (a_value e_ast) = Some er -> assoc mk mx = Some m ->
  length (a_tokens r_ast) = length rv ->
  a_policy p_ast = good ++ bad :: rest ->
  map (rule_outcome ptab fs m (tok pk s_eft) (a_tokens p_ast) (bind (a_tokens r_ast) rv [])) good = map Ok effs ->
  forced er effs = None ->
  length (a_tokens p_ast) <> length bad ->
  gen_private_enforce_with_context ptab true md mx fs rk pk ek mk rv = Err EPolicy.
Proof.
  intros ptab md mx fs rk pk ek mk rv r_ast p_ast m_ast e_ast er m good bad rest effs
         Hr Hp Hm He Hpe Hmx Hl Hpol Hgood Hf Hbad.
  rewrite gen_private_enforce_with_context_ok.
  apply (enforce_malformed_rule ptab md mx fs rk pk ek mk (tok pk s_eft) rv r_ast p_ast m_ast e_ast er m
                                good bad rest effs); assumption.
Qed.

Lemma src_c06_error_empty_policy :
  forall ptab md mx fs rk pk ek mk rv r_ast p_ast m_ast e_ast er m c,
  get_ast md s_r rk = Some r_ast -> get_ast md s_p pk = Some p_ast ->
  get_ast md s_m mk = Some m_ast -> get_ast md s_e ek = Some e_ast ->
  parse_erule (a_value e_ast) = Some er -> assoc mk mx = Some m ->
  length (a_tokens r_ast) = length rv ->
  a_policy p_ast = [] ->
  eval_matcher ptab fs m (bind (a_tokens p_ast) (map (fun _ => VStr []) (a_tokens p_ast))
                               (bind (a_tokens r_ast) rv [])) = Err c ->
  gen_private_enforce_with_context ptab true md mx fs rk pk ek mk rv = Err c.
Proof.
  intros ptab md mx fs rk pk ek mk rv r_ast p_ast m_ast e_ast er m c Hr Hp Hm He Hpe Hmx Hl Hpol Hev.
  rewrite gen_private_enforce_with_context_ok.
  apply (enforce_error_empty_policy ptab md mx fs rk pk ek mk (tok pk s_eft) rv r_ast p_ast m_ast e_ast er m c);
    assumption.
Qed.

(* ------------------------------------------------------------------ *)
(* 5. the executable predicate holds of the translated function's outcomes *)
Lemma src_c06_pred_holds : forall ptab en md mx fs rk pk ek mk rv r_ast p_ast m_ast e_ast,
  get_ast md s_r rk = Some r_ast -> get_ast md s_p pk = Some p_ast ->
  get_ast md s_m mk = Some m_ast -> get_ast md s_e ek = Some e_ast ->
  parse_erule (a_value e_ast) <> None ->
  c06_pred en (length (a_tokens r_ast)) (length rv)
           (gen_private_enforce_with_context ptab en md mx fs rk pk ek mk rv) = true.
Proof.
  intros ptab en md mx fs rk pk ek mk rv r_ast p_ast m_ast e_ast Hr Hp Hm He Hpe.
  rewrite gen_private_enforce_with_context_ok.
  apply (c06_pred_model ptab en md mx fs rk pk ek mk (tok pk s_eft) rv r_ast p_ast m_ast e_ast); assumption.
Qed.

(* ------------------------------------------------------------------ *)
(* the instance of Proofs/C06P.v, run through the generated loop *)
Definition src_ex06_enforce (effect : text) (rv : list value) : outcome bool :=
  gen_private_enforce ex06_ptab true (ex06_model effect) [(s_m, ex06_matcher)] ex06_fs rv.

Example src_ex06_effect_supported :
  forall e_ast, get_ast (ex06_model s_allow_override) s_e s_e = Some e_ast ->
                parse_erule (a_value e_ast) <> None.
Proof. intros e_ast H. vm_compute in H. inversion H; subst. vm_compute. discriminate. Qed.
