(* General facts behind PinChecks/PcQueryGen.v (rs2coq part 13: the read side of
   the RBAC / management API).  Nothing here mentions a generated term.

   A. hash iteration orders            B. Vec::swap_remove / remove / pop
   C. HashSet insert, the visit fold   D. `while` + the work-list closure
   E. the policy-store reads = the model's read views
   F. flat_map / concat / permutations (get_all_*, implicit permissions)
   G. the candidate loop of get_implicit_users_for_permission *)
From CV Require Import Model.Base Model.RoleGraph Model.Expr Model.Enforce Model.Engine.
From CV Require Import Gen.RustStr Gen.RustVec Gen.RustIter Gen.StoreGen Gen.QueryRt.
From CV Require Import Proofs.ListAux Proofs.BaseP Proofs.RoleGraphP Proofs.RustVecP Proofs.C13P.
From CV Require Import PinChecks.PcStoreGen.
From Coq Require Import Lia Permutation Relations.

(* ================================================================== *)
(* A. iteration orders of hash containers                              *)
Definition q_ord_ok (ord : list text -> list text) : Prop := forall l, Permutation (ord l) l.

Lemma q_ord_ok_id : q_ord_ok (fun l => l).
Proof. intros l. apply Permutation_refl. Qed.
Lemma q_ord_ok_rev : q_ord_ok (@rev text).
Proof. intros l. apply Permutation_sym, Permutation_rev. Qed.

Lemma q_ord_In : forall ord l x, q_ord_ok ord -> (In x (ord l) <-> In x l).
Proof.
  intros ord l x H. split; intros Hx.
  - apply (Permutation_in x (H l) Hx).
  - apply (Permutation_in x (Permutation_sym (H l)) Hx).
Qed.

Lemma q_ord_NoDup : forall ord l, q_ord_ok ord -> NoDup l -> NoDup (ord l).
Proof. intros ord l H Hn. apply (Permutation_NoDup (Permutation_sym (H l)) Hn). Qed.

Lemma rs_eq_true : forall a b, rs_eq a b = true <-> a = b.
Proof. intros a b. unfold rs_eq. apply teqb_eq. Qed.

Lemma existsb_rs_eq_In : forall x l, existsb (rs_eq x) l = true <-> In x l.
Proof.
  intros x l. rewrite existsb_exists. split.
  - intros [y [Hy E]]. apply rs_eq_true in E. subst y. exact Hy.
  - intros H. exists x. split; [exact H|]. apply rs_eq_true. reflexivity.
Qed.

(* two searches over lists with the same members, with pointwise equal tests *)
Lemma existsb_same : forall {A} (p q : A -> bool) l1 l2,
  (forall x, In x l1 <-> In x l2) -> (forall x, p x = q x) -> existsb p l1 = existsb q l2.
Proof.
  intros A p q l1 l2 Hl Hp. apply Bool.eq_iff_eq_true. rewrite !existsb_exists. split.
  - intros [x [Hx E]]. exists x. split; [apply Hl, Hx|rewrite <- Hp; exact E].
  - intros [x [Hx E]]. exists x. split; [apply Hl, Hx|rewrite Hp; exact E].
Qed.

(* ================================================================== *)
(* B. taking one element out of a vector                               *)
Lemma rs_swap_remove_0 : forall {A} (q : list A), q <> [] ->
  exists x q1, rs_swap_remove q 0 = Some (x, q1) /\ Permutation q (x :: q1).
Proof.
  intros A q Hq. unfold rs_swap_remove.
  destruct (rev q) as [|lst rinit] eqn:Er.
  - exfalso. apply Hq. apply (f_equal (@rev A)) in Er. rewrite rev_involutive in Er. exact Er.
  - assert (Eq : q = rev rinit ++ [lst]).
    { rewrite <- (rev_involutive q), Er. reflexivity. }
    clear Er. destruct (rev rinit) as [|a init'].
    + subst q. cbn. eexists; eexists; split; [reflexivity|apply Permutation_refl].
    + subst q. cbn [app nth_error length Nat.eqb firstn skipn].
      eexists; eexists; split; [reflexivity|].
      apply perm_skip. apply Permutation_sym, Permutation_cons_append.
Qed.

Lemma rs_vec_remove_0 : forall {A} (q : list A), q <> [] ->
  exists x q1, rs_vec_remove q 0 = Some (x, q1) /\ Permutation q (x :: q1).
Proof.
  intros A [|x t] Hq; [contradiction|]. exists x, t. split; [reflexivity|apply Permutation_refl].
Qed.

Lemma rs_vec_pop_ne : forall {A} (q : list A), q <> [] ->
  exists x q1, rs_vec_pop q = (Some x, q1) /\ Permutation q (x :: q1).
Proof.
  intros A q Hq. unfold rs_vec_pop. destruct (rev q) as [|x r] eqn:Er.
  - exfalso. apply Hq. apply (f_equal (@rev A)) in Er. rewrite rev_involutive in Er. exact Er.
  - exists x, (rev r). split; [reflexivity|].
    rewrite <- (rev_involutive q), Er. cbn [rev]. apply Permutation_sym, Permutation_cons_append.
Qed.

(* ================================================================== *)
(* C. HashSet::insert and the visit of one successor                   *)
Lemma hs_insert_new_false : forall s x, hs_insert_new s x = false <-> In x s.
Proof.
  intros s x. unfold hs_insert_new. rewrite Bool.negb_false_iff. apply existsb_rs_eq_In.
Qed.
Lemma hs_insert_new_true : forall s x, hs_insert_new s x = true <-> ~ In x s.
Proof.
  intros s x. unfold hs_insert_new. rewrite Bool.negb_true_iff. split.
  - intros E H. apply existsb_rs_eq_In in H. congruence.
  - intros H. destruct (existsb (rs_eq x) s) eqn:E; [|reflexivity].
    apply existsb_rs_eq_In in E. contradiction.
Qed.
Lemma hs_insert_old : forall s x, In x s -> hs_insert s x = s.
Proof. intros s x H. unfold hs_insert. apply existsb_rs_eq_In in H. rewrite H. reflexivity. Qed.
Lemma hs_insert_fresh : forall s x, ~ In x s -> hs_insert s x = s ++ [x].
Proof.
  intros s x H. unfold hs_insert. destruct (existsb (rs_eq x) s) eqn:E; [|reflexivity].
  apply existsb_rs_eq_In in E. contradiction.
Qed.
Lemma hs_contains_In : forall s x, hs_contains s x = true <-> In x s.
Proof. intros s x. apply existsb_rs_eq_In. Qed.
Lemma rs_vec_contains_In : forall v x, rs_vec_contains v x = true <-> In x v.
Proof.
  intros v x. unfold rs_vec_contains. rewrite existsb_exists. split.
  - intros [y [Hy E]]. apply rs_eq_true in E. subst y. exact Hy.
  - intros H. exists x. split; [exact H|]. apply rs_eq_true. reflexivity.
Qed.

(* `if res.insert(r) { q.push(r) }` on the pair (q, res) *)
Definition wl_visit (st : list text * list text) (r : text) : list text * list text :=
  let (q, res) := st in (if hs_insert_new res r then q ++ [r] else q, hs_insert res r).

Lemma wl_fold : forall l q res, NoDup res ->
  exists nw, fold_left wl_visit l (q, res) = (q ++ nw, res ++ nw) /\ NoDup (res ++ nw) /\
             forall y, In y nw <-> In y l /\ ~ In y res.
Proof.
  induction l as [|r l IH]; intros q res Hnd.
  - exists []. rewrite !app_nil_r. split; [reflexivity|]. split; [exact Hnd|].
    intros y. cbn [In]. tauto.
  - cbn [fold_left wl_visit]. destruct (in_dec text_eq_dec r res) as [Hr|Hr].
    + rewrite (proj2 (hs_insert_new_false res r) Hr), (hs_insert_old res r Hr).
      destruct (IH q res Hnd) as (nw & Hf & Hn & Hin). exists nw.
      split; [exact Hf|]. split; [exact Hn|]. intros y. rewrite Hin. cbn [In]. split; [tauto|].
      intros [[->|H] Hy]; [contradiction|tauto].
    + rewrite (proj2 (hs_insert_new_true res r) Hr), (hs_insert_fresh res r Hr).
      assert (Hnd' : NoDup (res ++ [r])).
      { apply NoDup_app_intro; [exact Hnd|constructor; [intros []|constructor]|].
        intros x Hx [<-|[]]. contradiction. }
      destruct (IH (q ++ [r]) (res ++ [r]) Hnd') as (nw & Hf & Hn & Hin). exists (r :: nw).
      split; [rewrite Hf, <- !app_assoc; reflexivity|].
      split; [rewrite <- app_assoc in Hn; exact Hn|].
      intros y. cbn [In]. rewrite Hin, in_app_iff. cbn [In]. split.
      * intros [<-|[Hy Hn']]; [tauto|]. split; [tauto|]. intros H. apply Hn'. left. exact H.
      * intros [[<-|Hy] Hn']; [tauto|].
        destruct (text_eq_dec r y) as [->|Hne]; [tauto|]. right. split; [exact Hy|].
        intros [H|[H|[]]]; contradiction.
Qed.

(* ================================================================== *)
(* D. the work list: `while !q.is_empty() { x = take one out of q; for r in
      succ x { if res.insert(r) { q.push(r) } } }` computes the transitive
      closure, whichever element is taken out and in whatever order the
      successors come; it finishes within |universe| + 2 evaluations of the
      condition *)
Section WorkList.
  Context {R0 : Type}.
  Variable succ : text -> list text.
  Variable univ : list text.
  Hypothesis succ_univ : forall x y, In y (succ x) -> In y univ.
  Variable cond : list text * list text -> option bool.
  Variable body : list text * list text -> flow (list text * list text) R0.
  Hypothesis cond_ok : forall q res, cond (q, res) = Some (negb (is_nil q)).
  Hypothesis body_ok : forall q res, q <> [] ->
    exists x q1, Permutation q (x :: q1) /\
                 body (q, res) = LNext (fold_left wl_visit (succ x) (q1, res)).
  Variable u : text.

  Let Rel (x y : text) : Prop := In y (succ x).

  Definition wl_inv (q res : list text) : Prop :=
    (forall x, In x q -> x = u \/ In x res) /\
    NoDup res /\
    (forall x, In x res -> clos_trans text Rel u x) /\
    (forall x, x = u \/ In x res -> ~ In x q -> forall y, Rel x y -> In y res).

  Lemma wl_inv_init : wl_inv [u] [].
  Proof.
    split; [intros x [<-|[]]; left; reflexivity|]. split; [constructor|].
    split; [intros x []|]. intros x [->|[]] Hn. exfalso. apply Hn. left. reflexivity.
  Qed.

  Lemma wl_inv_univ : forall q res, wl_inv q res -> incl res univ.
  Proof.
    intros q res (_ & _ & H3 & _) x Hx. apply H3 in Hx. apply clos_trans_last in Hx.
    destruct Hx as [c Hc]. apply (succ_univ c x Hc).
  Qed.

  Lemma wl_inv_step : forall q res x q1 nw,
    wl_inv q res -> Permutation q (x :: q1) -> NoDup (res ++ nw) ->
    (forall y, In y nw <-> In y (succ x) /\ ~ In y res) ->
    wl_inv (q1 ++ nw) (res ++ nw).
  Proof.
    intros q res x q1 nw (H1 & H2 & H3 & H4) Hp Hnd Hnw.
    assert (Hxq : In x q) by (apply (Permutation_in x (Permutation_sym Hp)); left; reflexivity).
    assert (Hq1 : forall y, In y q1 -> In y q).
    { intros y Hy. apply (Permutation_in y (Permutation_sym Hp)). right. exact Hy. }
    assert (Hx : x = u \/ clos_trans text Rel u x).
    { destruct (H1 x Hxq) as [->|Hr]; [left; reflexivity|right; apply H3, Hr]. }
    split; [|split; [exact Hnd|split]].
    - intros y Hy. apply in_app_or in Hy. destruct Hy as [Hy|Hy].
      + destruct (H1 y (Hq1 y Hy)) as [->|Hr]; [left; reflexivity|right; apply in_or_app; left; exact Hr].
      + right. apply in_or_app. right. exact Hy.
    - intros y Hy. apply in_app_or in Hy. destruct Hy as [Hy|Hy]; [apply H3, Hy|].
      apply Hnw in Hy. destruct Hy as [Hy _].
      destruct Hx as [->|Hx]; [apply t_step, Hy|].
      apply (t_trans text Rel u x y Hx). apply t_step, Hy.
    - intros z Hz Hnq y Hzy. apply in_or_app.
      destruct (text_eq_dec z x) as [->|Hne].
      + destruct (in_dec text_eq_dec y res) as [Hy|Hy]; [left; exact Hy|right].
        apply Hnw. split; assumption.
      + left. assert (Hz' : z = u \/ In z res).
        { destruct Hz as [->|Hz]; [left; reflexivity|].
          apply in_app_or in Hz. destruct Hz as [Hz|Hz]; [right; exact Hz|].
          exfalso. apply Hnq. apply in_or_app. right. exact Hz. }
        apply (H4 z Hz'); [|exact Hzy].
        intros Hzq. apply (Permutation_in z Hp) in Hzq. destruct Hzq as [E|Hzq]; [congruence|].
        apply Hnq. apply in_or_app. left. exact Hzq.
  Qed.

  Lemma wl_inv_done : forall res r, wl_inv [] res -> (In r res <-> clos_trans text Rel u r).
  Proof.
    intros res r (_ & _ & H3 & H4). split; [apply H3|]. intros H. apply clos_trans_tn1 in H.
    induction H as [y Hy|y z Hyz Hn1 IH].
    - apply (H4 u); [left; reflexivity|intros []|exact Hy].
    - apply (H4 y); [right; exact IH|intros []|exact Hyz].
  Qed.

  Lemma wl_run : forall fuel q res, wl_inv q res ->
    length q + (length univ - length res) < fuel ->
    exists res', rs_while fuel cond body (q, res) = Done ([], res') /\ wl_inv [] res'.
  Proof.
    induction fuel as [|fuel IH]; intros q res HI Hf; [lia|].
    cbn [rs_while]. rewrite cond_ok. destruct q as [|a q0]; cbn [is_nil negb].
    - exists res. split; [reflexivity|exact HI].
    - destruct (body_ok (a :: q0) res) as (x & q1 & Hp & Hb); [discriminate|]. rewrite Hb.
      assert (Hnd : NoDup res) by apply HI.
      destruct (wl_fold (succ x) q1 res Hnd) as (nw & Hfold & Hnd' & Hnw). rewrite Hfold.
      assert (HI' : wl_inv (q1 ++ nw) (res ++ nw)).
      { apply (wl_inv_step (a :: q0) res x q1 nw HI Hp Hnd' Hnw). }
      apply IH; [exact HI'|].
      pose proof (Permutation_length Hp) as Hl. cbn [length] in Hl.
      pose proof (NoDup_incl_length Hnd' (wl_inv_univ _ _ HI')) as Hb'.
      rewrite !app_length in *. cbn [length] in Hf. lia.
  Qed.

  Theorem rs_while_worklist : forall fuel, length univ + 2 <= fuel ->
    exists res, rs_while fuel cond body ([u], []) = Done ([], res) /\ NoDup res /\
                forall r, In r res <-> clos_trans text Rel u r.
  Proof.
    intros fuel Hf. destruct (wl_run fuel [u] [] wl_inv_init) as (res & Hrun & HI).
    - cbn [length]. lia.
    - exists res. split; [exact Hrun|]. split; [apply HI|]. intros r. apply wl_inv_done, HI.
  Qed.
End WorkList.

Lemma clos_trans_ext : forall {A} (R1 R2 : A -> A -> Prop), (forall x y, R1 x y <-> R2 x y) ->
  forall a b, clos_trans A R1 a b <-> clos_trans A R2 a b.
Proof.
  intros A R1 R2 H a b. split; intros Hc; induction Hc as [x y Hxy|x y z _ IH1 _ IH2].
  - apply t_step, H, Hxy.
  - apply (t_trans _ _ _ _ _ IH1 IH2).
  - apply t_step, H, Hxy.
  - apply (t_trans _ _ _ _ _ IH1 IH2).
Qed.

(* the work list over a role manager: the successors of x are its direct roles
   in ANY order; the fuel is the one of the model's implicit_roles *)
Theorem worklist_roles : forall {R0} ord (m : rmgr) (d : option text)
    (cond : list text * list text -> option bool)
    (body : list text * list text -> flow (list text * list text) R0) (u : text) fuel,
  q_ord_ok ord -> wf m ->
  (forall q res, cond (q, res) = Some (negb (is_nil q))) ->
  (forall q res, q <> [] ->
     exists x q1, Permutation q (x :: q1) /\
                  body (q, res) = LNext (fold_left wl_visit (ord (get_roles m x d)) (q1, res))) ->
  S (S (graph_size m d)) <= fuel ->
  exists res, rs_while fuel cond body ([u], []) = Done ([], res) /\ NoDup res /\
              forall r, In r res <-> clos_trans text (Edge m d) u r.
Proof.
  intros R0 ord m d cond body u fuel Hord Hwf Hc Hb Hf.
  assert (Hsu : forall x y, In y (ord (get_roles m x d)) -> In y (node_list m d)).
  { intros x y Hy. apply (proj1 (q_ord_In ord _ y Hord)) in Hy.
    apply (proj1 (get_roles_spec m x d y Hwf)) in Hy.
    apply (Edge_nodes m d x y Hwf Hy). }
  assert (Hfu : length (node_list m d) + 2 <= fuel) by (rewrite <- graph_size_nodes; lia).
  destruct (@rs_while_worklist R0 (fun x => ord (get_roles m x d)) (node_list m d) Hsu cond body Hc Hb
                               u fuel Hfu) as (res & Hrun & Hnd & Hres).
  exists res. split; [exact Hrun|]. split; [exact Hnd|]. intros r. rewrite Hres.
  apply clos_trans_ext. intros x y. rewrite (q_ord_In ord _ y Hord).
  apply (get_roles_spec m x d y Hwf).
Qed.

(* the same without `wf`, against the relation the SOURCE follows (the listing of
   direct roles): the universe is then the set of link targets *)
Definition edge_targets (m : rmgr) (d : option text) : list text :=
  match graph_of m d with Some g => map snd (edges g) | None => [] end.

Lemma get_roles_targets : forall m x d y, In y (get_roles m x d) -> In y (edge_targets m d).
Proof.
  intros m x d y. unfold get_roles, edge_targets. destruct (graph_of m d) as [g|]; [|intros []].
  destruct (has_node g x); [|intros []]. unfold succs. intros H.
  apply in_map_iff in H. destruct H as [e [He Hf]]. apply filter_In in Hf.
  apply in_map_iff. exists e. split; [exact He|apply Hf].
Qed.

Theorem worklist_roles_any : forall {R0} ord (m : rmgr) (d : option text)
    (cond : list text * list text -> option bool)
    (body : list text * list text -> flow (list text * list text) R0) (u : text) fuel,
  q_ord_ok ord ->
  (forall q res, cond (q, res) = Some (negb (is_nil q))) ->
  (forall q res, q <> [] ->
     exists x q1, Permutation q (x :: q1) /\
                  body (q, res) = LNext (fold_left wl_visit (ord (get_roles m x d)) (q1, res))) ->
  length (edge_targets m d) + 2 <= fuel ->
  exists res, rs_while fuel cond body ([u], []) = Done ([], res) /\ NoDup res /\
              forall r, In r res <-> clos_trans text (fun x y => In y (get_roles m x d)) u r.
Proof.
  intros R0 ord m d cond body u fuel Hord Hc Hb Hf.
  assert (Hsu : forall x y, In y (ord (get_roles m x d)) -> In y (edge_targets m d)).
  { intros x y Hy. apply (proj1 (q_ord_In ord _ y Hord)) in Hy. apply (get_roles_targets m x d y Hy). }
  destruct (@rs_while_worklist R0 (fun x => ord (get_roles m x d)) (edge_targets m d) Hsu cond body Hc Hb
                               u fuel Hf) as (res & Hrun & Hnd & Hres).
  exists res. split; [exact Hrun|]. split; [exact Hnd|]. intros r. rewrite Hres.
  apply clos_trans_ext. intros x y. apply (q_ord_In ord _ y Hord).
Qed.

(* ================================================================== *)
(* E. the reads of the policy store are the model's read views         *)
Lemma mdl_get_policy_model : forall md sec pt, mdl_get_policy md sec pt = m_get_policy md sec pt.
Proof. reflexivity. Qed.
Lemma mdl_get_filtered_policy_model : forall md sec pt idx vals,
  mdl_get_filtered_policy md sec pt idx vals = m_get_filtered md sec pt idx vals.
Proof. intros md sec pt idx vals. symmetry. apply gen_get_filtered_model. Qed.
Lemma mdl_has_policy_model : forall md sec pt r,
  mdl_has_policy md sec pt r = Some (m_has_policy md sec pt r).
Proof. intros md sec pt r. symmetry. apply gen_has_policy_model. Qed.
Lemma mdl_values_for_field_model : forall md sec pt idx,
  mdl_values_for_field md sec pt idx = m_values md sec pt idx.
Proof. intros md sec pt idx. symmetry. apply gen_values_for_field_model. Qed.

Lemma get_ast_lookups : forall md sec pt,
  get_ast md sec pt = match hm_get_section md sec with Some am => amap_get am pt | None => None end.
Proof. reflexivity. Qed.

(* ================================================================== *)
(* F. accumulating the items of a list of lists                        *)
Lemma fold_extend_flat_map : forall {A B} (g : A -> list B) l acc,
  fold_left (fun s x => s ++ g x) l acc = acc ++ flat_map g l.
Proof.
  intros A B g l. induction l as [|x l IH]; intros acc; cbn [fold_left flat_map].
  - rewrite app_nil_r. reflexivity.
  - rewrite IH, app_assoc. reflexivity.
Qed.

Lemma fold_app_concat : forall {A} (ys : list (list A)) acc,
  fold_left (fun s y => s ++ y) ys acc = acc ++ concat ys.
Proof.
  intros A ys. induction ys as [|y ys IH]; intros acc; cbn [fold_left concat].
  - rewrite app_nil_r. reflexivity.
  - rewrite IH, app_assoc. reflexivity.
Qed.

Lemma concat_opt_map_opt : forall {A B} (g : A -> option (list B)) l,
  concat_opt (map g l) = match map_opt g l with Some ys => Some (concat ys) | None => None end.
Proof.
  intros A B g l. induction l as [|x l IH]; cbn [map concat_opt map_opt]; [reflexivity|].
  destruct (g x) as [y|]; [|reflexivity]. rewrite IH.
  destruct (map_opt g l) as [ys|]; reflexivity.
Qed.

(* visiting the same names in another order: the same panics, the same rules
   up to their order *)
Definition opt_perm {A} (a b : option (list A)) : Prop :=
  match a, b with
  | Some x, Some y => Permutation x y
  | None, None => True
  | _, _ => False
  end.

Lemma opt_perm_refl : forall {A} (a : option (list A)), opt_perm a a.
Proof. intros A [x|]; cbn; [apply Permutation_refl|exact I]. Qed.
Lemma opt_perm_trans : forall {A} (a b c : option (list A)), opt_perm a b -> opt_perm b c -> opt_perm a c.
Proof.
  intros A [x|] [y|] [z|]; cbn; try tauto. apply Permutation_trans.
Qed.

Lemma concat_opt_perm : forall {A B} (g : A -> option (list B)) l1 l2, Permutation l1 l2 ->
  opt_perm (concat_opt (map g l1)) (concat_opt (map g l2)).
Proof.
  intros A B g l1 l2 H. induction H as [|x l1 l2 _ IH|x y l|l1 l2 l3 _ IH1 _ IH2].
  - apply opt_perm_refl.
  - cbn [map concat_opt]. destruct (g x) as [a|]; [|exact I].
    destruct (concat_opt (map g l1)) as [b|], (concat_opt (map g l2)) as [c|]; cbn in *; try tauto.
    apply Permutation_app_head, IH.
  - cbn [map concat_opt]. destruct (g y) as [a|], (g x) as [b|]; cbn; try exact I.
    destruct (concat_opt (map g l)) as [c|]; cbn; [|exact I].
    rewrite !app_assoc. apply Permutation_app_tail, Permutation_app_comm.
  - apply (opt_perm_trans _ _ _ IH1 IH2).
Qed.

(* ================================================================== *)
(* G. the candidate loop of get_implicit_users_for_permission:
      `if ok && !res.contains(user) { res.push(user) }` *)
Definition uf_step (res : list text) (p : text * bool) : list text :=
  if snd p && negb (rs_vec_contains res (fst p)) then res ++ [fst p] else res.

Lemma uf_fold : forall ys res0, NoDup res0 ->
  NoDup (fold_left uf_step ys res0) /\
  forall u, In u (fold_left uf_step ys res0) <-> In u res0 \/ In (u, true) ys.
Proof.
  induction ys as [|[x b] ys IH]; intros res0 Hnd; cbn [fold_left].
  - split; [exact Hnd|]. intros u. cbn [In]. tauto.
  - unfold uf_step at 2 4. cbn [fst snd]. destruct b; cbn [andb].
    + destruct (rs_vec_contains res0 x) eqn:E; cbn [negb].
      * apply rs_vec_contains_In in E. destruct (IH res0 Hnd) as [H1 H2]. split; [exact H1|].
        intros u. rewrite H2. cbn [In]. split; [tauto|].
        intros [H|[H|H]]; [tauto| |tauto]. inversion H; subst. tauto.
      * assert (Hx : ~ In x res0).
        { intros H. apply rs_vec_contains_In in H. congruence. }
        assert (Hnd' : NoDup (res0 ++ [x])).
        { apply NoDup_app_intro; [exact Hnd|constructor; [intros []|constructor]|].
          intros y Hy [<-|[]]. contradiction. }
        destruct (IH (res0 ++ [x]) Hnd') as [H1 H2]. split; [exact H1|].
        intros u. rewrite H2, in_app_iff. cbn [In]. split.
        -- intros [[H|[<-|[]]]|H]; [tauto| |tauto]. right. left. reflexivity.
        -- intros [H|[H|H]]; [tauto| |tauto]. inversion H; subst. tauto.
    + destruct (IH res0 Hnd) as [H1 H2]. split; [exact H1|].
      intros u. rewrite H2. cbn [In]. split; [tauto|].
      intros [H|[H|H]]; [tauto|discriminate H|tauto].
Qed.

Lemma map_opt_total : forall {A B} (g : A -> option B) (f : A -> B) l,
  (forall x, In x l -> g x = Some (f x)) -> map_opt g l = Some (map f l).
Proof.
  intros A B g f l. induction l as [|x l IH]; intros H; cbn [map_opt map]; [reflexivity|].
  rewrite (H x (or_introl eq_refl)), IH; [reflexivity|]. intros y Hy. apply H. right. exact Hy.
Qed.

Lemma map_opt_none : forall {A B} (g : A -> option B) l x, In x l -> g x = None -> map_opt g l = None.
Proof.
  intros A B g l. induction l as [|y l IH]; intros x Hx Hg; [destruct Hx|]. cbn [map_opt].
  destruct Hx as [->|Hx]; [rewrite Hg; reflexivity|].
  destruct (g y); [|reflexivity]. rewrite (IH x Hx Hg). reflexivity.
Qed.

Lemma map_opt_ext : forall {A B} (g h : A -> option B) l, (forall x, g x = h x) -> map_opt g l = map_opt h l.
Proof.
  intros A B g h l H. induction l as [|x l IH]; cbn [map_opt]; [reflexivity|]. rewrite H, IH. reflexivity.
Qed.

Lemma filter_same_members : forall {A} (p q : A -> bool) l1 l2,
  (forall x, In x l1 <-> In x l2) -> (forall x, p x = q x) ->
  forall x, In x (filter p l1) <-> In x (filter q l2).
Proof. intros A p q l1 l2 Hl Hp x. rewrite !filter_In, Hl, Hp. reflexivity. Qed.
