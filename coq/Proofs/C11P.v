(* C11 — caching never changes a decision. Proofs about Model/Cached.v. *)
From CV Require Import Model.Base Model.Effector Model.RoleGraph Model.PathMatch Model.Expr
     Model.Enforce Model.Engine Model.Cached Model.SpecC11.
From CV Require Import Proofs.BaseP Proofs.ExModels.
From Coq Require Import Lia.

(* ================= 1. the cache key equality is Leibniz equality ================= *)

Lemma seqb_eq : forall a b, seqb a b = true <-> a = b.
Proof.
  intros [x|x|x] [y|y|y]; cbn [seqb]; split; intros H; try discriminate.
  - apply teqb_eq in H. subst. reflexivity.
  - inversion H; subst. apply teqb_refl.
  - apply Z.eqb_eq in H. subst. reflexivity.
  - inversion H; subst. apply Z.eqb_refl.
  - apply Bool.eqb_prop in H. subst. reflexivity.
  - inversion H; subst. apply Bool.eqb_reflx.
Qed.

Lemma fld_eqb_eq : forall p q : text * scalar,
  teqb (fst p) (fst q) && seqb (snd p) (snd q) = true <-> p = q.
Proof.
  intros [a x] [b y]. cbn [fst snd]. rewrite andb_true_iff, teqb_eq, seqb_eq. split.
  - intros [-> ->]. reflexivity.
  - intros H. inversion H; subst. split; reflexivity.
Qed.

(* veqb is exactly Leibniz equality on every constructor, VMap included *)
Lemma veqb_eq : forall a b, veqb a b = true <-> a = b.
Proof.
  intros [x|x|x| |x] [y|y|y| |y]; cbn [veqb]; split; intros H;
    try discriminate; try reflexivity.
  - apply teqb_eq in H. subst. reflexivity.
  - inversion H; subst. apply teqb_refl.
  - apply Z.eqb_eq in H. subst. reflexivity.
  - inversion H; subst. apply Z.eqb_refl.
  - apply Bool.eqb_prop in H. subst. reflexivity.
  - inversion H; subst. apply Bool.eqb_reflx.
  - apply (list_eqb_eq _ fld_eqb_eq) in H. subst. reflexivity.
  - inversion H; subst. apply (list_eqb_eq _ fld_eqb_eq). reflexivity.
Qed.

Lemma ckey_eqb_eq : forall a b, ckey_eqb a b = true <-> a = b.
Proof.
  intros [x|r1 p1 e1 m1 x] [y|r2 p2 e2 m2 y]; cbn [ckey_eqb]; split; intros H; try discriminate.
  - apply (list_eqb_eq _ veqb_eq) in H. subst. reflexivity.
  - inversion H; subst. apply (list_eqb_eq _ veqb_eq). reflexivity.
  - apply andb_true_iff in H. destruct H as [H Hx].
    apply andb_true_iff in H. destruct H as [H Hm].
    apply andb_true_iff in H. destruct H as [H He].
    apply andb_true_iff in H. destruct H as [Hr Hp].
    apply teqb_eq in Hr. apply teqb_eq in Hp. apply teqb_eq in He. apply teqb_eq in Hm.
    apply (list_eqb_eq _ veqb_eq) in Hx. subst. reflexivity.
  - inversion H; subst. rewrite !teqb_refl. cbn [andb].
    apply (list_eqb_eq _ veqb_eq). reflexivity.
Qed.

Lemma ckey_eqb_refl : forall a, ckey_eqb a a = true.
Proof. intros a. apply ckey_eqb_eq. reflexivity. Qed.

Lemma ckey_eqb_neq : forall a b, ckey_eqb a b = false <-> a <> b.
Proof.
  intros a b. split.
  - intros H E. apply ckey_eqb_eq in E. rewrite E in H. discriminate.
  - intros H. destruct (ckey_eqb a b) eqn:E; [|reflexivity].
    apply ckey_eqb_eq in E. contradiction.
Qed.

(* a plain key and a context key never collide, whatever the values *)
Lemma ckey_plain_ctx_distinct : forall k rv rv', ckey_eqb (CKCtx k rv) (CKPlain rv') = false.
Proof. reflexivity. Qed.

Lemma cache_get_In : forall k b l, cache_get k l = Some b -> In (k, b) l.
Proof.
  intros k b l. induction l as [|[k' b'] l IH]; cbn [cache_get]; intros H; [discriminate|].
  destruct (ckey_eqb k k') eqn:E.
  - apply ckey_eqb_eq in E. inversion H; subst. left. reflexivity.
  - right. apply IH, H.
Qed.

Lemma In_cache_get : forall k b l, In (k, b) l -> exists b', cache_get k l = Some b'.
Proof.
  intros k b l. induction l as [|[k' b'] l IH]; cbn [cache_get]; intros H; [destruct H|].
  destruct (ckey_eqb k k') eqn:E; [eexists; reflexivity|].
  destruct H as [H|H]; [|apply IH, H].
  inversion H; subst. rewrite ckey_eqb_refl in E. discriminate.
Qed.

(* ================= 2. what a decision reads ================= *)

(* of an assertion: everything but the role-manager handle *)
Definition ast_view (a : assertion) : text * list text * list rule :=
  (a_value a, a_tokens a, a_policy a).

(* the sections a decision looks into *)
Definition dsec (sec : text) : Prop := sec = s_r \/ sec = s_p \/ sec = s_e \/ sec = s_m.

Definition model_view_eq (m1 m2 : model) : Prop :=
  forall sec key, dsec sec ->
    option_map ast_view (get_ast m1 sec key) = option_map ast_view (get_ast m2 sec key).

(* same enabled flag, matcher expressions, function state, and the same
   r/p/e/m definitions and policy up to handles *)
Definition dec_eqv (s1 s2 : estate) : Prop :=
  e_enabled s1 = e_enabled s2 /\ e_mexprs s1 = e_mexprs s2 /\ e_fs s1 = e_fs s2 /\
  model_view_eq (e_model s1) (e_model s2).

Lemma model_view_eq_refl : forall m, model_view_eq m m.
Proof. intros m sec key _. reflexivity. Qed.

Lemma model_view_eq_sym : forall m1 m2, model_view_eq m1 m2 -> model_view_eq m2 m1.
Proof. intros m1 m2 H sec key Hd. symmetry. apply H, Hd. Qed.

Lemma model_view_eq_trans : forall m1 m2 m3,
  model_view_eq m1 m2 -> model_view_eq m2 m3 -> model_view_eq m1 m3.
Proof. intros m1 m2 m3 H1 H2 sec key Hd. rewrite (H1 sec key Hd). apply H2, Hd. Qed.

Lemma dec_eqv_refl : forall s, dec_eqv s s.
Proof.
  intros s. unfold dec_eqv. split; [reflexivity|]. split; [reflexivity|].
  split; [reflexivity|]. apply model_view_eq_refl.
Qed.

Lemma dec_eqv_sym : forall s1 s2, dec_eqv s1 s2 -> dec_eqv s2 s1.
Proof.
  intros s1 s2 (H1 & H2 & H3 & H4). unfold dec_eqv.
  split; [congruence|]. split; [congruence|]. split; [congruence|].
  apply model_view_eq_sym, H4.
Qed.

Lemma dec_eqv_trans : forall s1 s2 s3, dec_eqv s1 s2 -> dec_eqv s2 s3 -> dec_eqv s1 s3.
Proof.
  intros s1 s2 s3 (H1 & H2 & H3 & H4) (G1 & G2 & G3 & G4).
  unfold dec_eqv. split; [congruence|]. split; [congruence|]. split; [congruence|].
  eapply model_view_eq_trans; eassumption.
Qed.

Lemma view_get : forall m1 m2 sec key,
  model_view_eq m1 m2 -> dsec sec ->
  match get_ast m1 sec key, get_ast m2 sec key with
  | Some a, Some b => a_value a = a_value b /\ a_tokens a = a_tokens b /\ a_policy a = a_policy b
  | None, None => True
  | _, _ => False
  end.
Proof.
  intros m1 m2 sec key H Hd. specialize (H sec key Hd).
  destruct (get_ast m1 sec key) as [a|], (get_ast m2 sec key) as [b|];
    cbn [option_map] in H; try discriminate; [|exact I].
  unfold ast_view in H. inversion H. auto.
Qed.

Lemma enforce_core_view : forall ptab en md1 md2 mx fs rk pk ek mk et rv,
  model_view_eq md1 md2 ->
  enforce_core ptab en md1 mx fs rk pk ek mk et rv =
  enforce_core ptab en md2 mx fs rk pk ek mk et rv.
Proof.
  intros ptab en md1 md2 mx fs rk pk ek mk et rv H.
  unfold enforce_core. destruct (negb en); [reflexivity|].
  pose proof (view_get md1 md2 s_r rk H (or_introl eq_refl)) as Hr.
  pose proof (view_get md1 md2 s_p pk H (or_intror (or_introl eq_refl))) as Hp.
  pose proof (view_get md1 md2 s_m mk H (or_intror (or_intror (or_intror eq_refl)))) as Hm.
  pose proof (view_get md1 md2 s_e ek H (or_intror (or_intror (or_introl eq_refl)))) as He.
  destruct (get_ast md1 s_r rk) as [r1|], (get_ast md2 s_r rk) as [r2|];
    try contradiction; [|reflexivity].
  destruct (get_ast md1 s_p pk) as [p1|], (get_ast md2 s_p pk) as [p2|];
    try contradiction; [|reflexivity].
  destruct (get_ast md1 s_m mk) as [m1|], (get_ast md2 s_m mk) as [m2|];
    try contradiction; [|reflexivity].
  destruct (get_ast md1 s_e ek) as [e1|], (get_ast md2 s_e ek) as [e2|];
    try contradiction; [|reflexivity].
  destruct Hr as (_ & Hrt & _). destruct Hp as (_ & Hpt & Hpp). destruct He as (Hev & _ & _).
  rewrite Hrt, Hpt, Hpp, Hev. reflexivity.
Qed.

Theorem decide_eqv : forall ptab s1 s2, dec_eqv s1 s2 ->
  forall k, decide ptab s1 k = decide ptab s2 k.
Proof.
  intros ptab s1 s2 (He & Hx & Hf & Hm) [rv|rk pk ek mk rv]; cbn [decide];
    unfold enforce, enforce_with_ctx4, enforce_plain;
    rewrite He, Hx, Hf; apply enforce_core_view, Hm.
Qed.

(* get_ast after set_ast *)
Lemma get_ast_set_ast : forall m sec key a sec' key',
  get_ast (set_ast m sec key a) sec' key' =
  match assoc sec m with
  | None => get_ast m sec' key'
  | Some _ => if teqb sec' sec && teqb key' key then Some a else get_ast m sec' key'
  end.
Proof.
  intros m sec key a sec' key'. unfold set_ast, get_ast.
  destruct (assoc sec m) as [am|] eqn:Hs; [|reflexivity].
  destruct (teqb sec' sec) eqn:Es.
  - apply teqb_eq in Es. subst sec'. rewrite assoc_set_same, Hs. cbn [andb].
    destruct (teqb key' key) eqn:Ek.
    + apply teqb_eq in Ek. subst key'. apply assoc_set_same.
    + apply teqb_neq in Ek. apply assoc_set_other. auto.
  - apply teqb_neq in Es. cbn [andb]. rewrite assoc_set_other by auto. reflexivity.
Qed.

(* rewriting a handle, in any section, is invisible to decisions *)
Lemma set_handle_view : forall m sec key a h,
  get_ast m sec key = Some a ->
  model_view_eq m (set_ast m sec key (with_handle a h)).
Proof.
  intros m sec key a h Hg sec' key' _. rewrite get_ast_set_ast.
  destruct (assoc sec m) as [am|] eqn:Hs; [|reflexivity].
  destruct (teqb sec' sec && teqb key' key) eqn:E; [|reflexivity].
  apply andb_true_iff in E. destruct E as [E1 E2]. apply teqb_eq in E1, E2. subst.
  rewrite Hg. reflexivity.
Qed.

(* `decide` ignores a_handle: two models that differ only in handles *)
Definition strip_handle (a : assertion) : assertion := with_handle a HOwn.
Definition strip_model (m : model) : model :=
  map (fun sa => (fst sa, map (fun ka => (fst ka, strip_handle (snd ka))) (snd sa))) m.

Lemma assoc_map_snd : forall {A B} (f : A -> B) k (l : list (text * A)),
  assoc k (map (fun p => (fst p, f (snd p))) l) = option_map f (assoc k l).
Proof.
  intros A B f k l. induction l as [|[k' v] l IH]; cbn [map assoc fst snd]; [reflexivity|].
  destruct (teqb k k'); [reflexivity|exact IH].
Qed.

Lemma get_ast_strip : forall m sec key,
  get_ast (strip_model m) sec key = option_map strip_handle (get_ast m sec key).
Proof.
  intros m sec key. unfold get_ast, strip_model.
  rewrite (assoc_map_snd (fun am : amap =>
             map (fun ka : text * assertion => (fst ka, strip_handle (snd ka))) am)).
  destruct (assoc sec m) as [am|]; cbn [option_map]; [|reflexivity].
  apply assoc_map_snd.
Qed.

Lemma strip_model_view : forall m, model_view_eq m (strip_model m).
Proof.
  intros m sec key _. rewrite get_ast_strip.
  destruct (get_ast m sec key); reflexivity.
Qed.

Theorem decide_ignores_handles : forall ptab s1 s2,
  e_enabled s1 = e_enabled s2 -> e_mexprs s1 = e_mexprs s2 -> e_fs s1 = e_fs s2 ->
  strip_model (e_model s1) = strip_model (e_model s2) ->
  forall k, decide ptab s1 k = decide ptab s2 k.
Proof.
  intros ptab s1 s2 He Hx Hf Hm. apply decide_eqv.
  split; [exact He|]. split; [exact Hx|]. split; [exact Hf|].
  eapply model_view_eq_trans; [apply strip_model_view|].
  rewrite Hm. apply model_view_eq_sym, strip_model_view.
Qed.

(* the g section is not read by decisions at all (only through e_fs) *)
Lemma set_g_view : forall m am, model_view_eq m (assoc_set s_g am m).
Proof.
  intros m am sec key Hd. unfold get_ast.
  rewrite assoc_set_other; [reflexivity|].
  destruct Hd as [->|[->|[->| ->]]]; discriminate.
Qed.

(* ================= 3. calls that do not clear change no decision ================= *)

(* the exact projection decisions read *)
Definition dview (s : estate) := (e_enabled s, e_mexprs s, e_fs s, e_model s).

Lemma dview_dec_eqv : forall s1 s2, dview s1 = dview s2 -> dec_eqv s1 s2.
Proof.
  intros s1 s2 H. unfold dview in H. inversion H as [[H1 H2 H3 H4]].
  unfold dec_eqv. rewrite H4. split; [assumption|]. split; [assumption|].
  split; [assumption|]. apply model_view_eq_refl.
Qed.

Lemma dview_emit : forall s ev, dview (emit s ev) = dview s.
Proof. intros s ev. unfold emit. destruct (e_watcher s); reflexivity. Qed.

Lemma dview_emit_mgmt : forall s ch ev, dview (emit_mgmt s ch ev) = dview s.
Proof.
  intros s ch ev. unfold emit_mgmt. destruct (ch && e_auto_notify s); [apply dview_emit|reflexivity].
Qed.

Lemma emit_mgmt_false : forall s ev, emit_mgmt s false ev = s.
Proof. reflexivity. Qed.

(* does a management result clear the cache? *)
Definition mgmt_clears (r : outcome bool) : bool :=
  match r with Ok true => true | Err e => negb (errc_eqb e EAdapter) | _ => false end.

(* role-link maintenance never reports an adapter error *)
Lemma link_rule_err : forall cnt ins m r m' e,
  link_rule cnt ins m r = (m', LErr e) -> e <> EAdapter.
Proof.
  intros cnt ins m r m' e. unfold link_rule.
  destruct (Nat.ltb (length r) cnt); [intros H; inversion H; discriminate|].
  destruct (Nat.leb 4 cnt); [intros H; inversion H; discriminate|].
  destruct ins; [intros H; inversion H|].
  destruct (delete_link m (nth 0 r []) (nth 1 r [])
              (if Nat.eqb cnt 2 then None else Some (nth 2 r []))) as [m2 [|]];
    intros H; inversion H; discriminate.
Qed.

Lemma link_rules_err : forall cnt ins rs m m' e,
  link_rules cnt ins m rs = (m', LErr e) -> e <> EAdapter.
Proof.
  intros cnt ins. induction rs as [|r rs IH]; intros m m' e; cbn [link_rules].
  - intros H; inversion H.
  - destruct (link_rule cnt ins m r) as [m1 [|e1]] eqn:Hr.
    + apply IH.
    + intros H; inversion H; subst. eapply link_rule_err, Hr.
Qed.

Lemma incremental_links_err : forall s pt ins rs s' e,
  incremental_links s pt ins rs = (s', LErr e) -> e <> EAdapter.
Proof.
  intros s pt ins rs s' e. unfold incremental_links.
  destruct (get_ast (e_model s) s_g pt) as [a|]; [|intros H; inversion H].
  destruct (Nat.ltb (count_us (a_value a)) 2); [intros H; inversion H; discriminate|].
  destruct (link_rules (count_us (a_value a)) ins (f_rm (e_fs s)) rs) as [m' [|e1]] eqn:Hl;
    intros H; inversion H; subst.
  eapply link_rules_err, Hl.
Qed.

Lemma set_rm_same : forall fs, set_rm fs (f_rm fs) = fs.
Proof. intros [m mx g u]. reflexivity. Qed.

(* an incremental update with an empty rule list only redirects the handle *)
Lemma incremental_links_nil : forall s pt ins s' e,
  incremental_links s pt ins [] = (s', e) -> dec_eqv s s'.
Proof.
  intros s pt ins s' e. unfold incremental_links.
  destruct (get_ast (e_model s) s_g pt) as [a|] eqn:Hg;
    [|intros H; inversion H; subst; apply dec_eqv_refl].
  destruct (Nat.ltb (count_us (a_value a)) 2);
    [intros H; inversion H; subst; apply dec_eqv_refl|].
  cbn [link_rules]. intros H; inversion H; subst. unfold dec_eqv.
  cbn [upd_fs upd_model e_enabled e_mexprs e_fs e_model].
  split; [reflexivity|]. split; [reflexivity|]. split; [symmetry; apply set_rm_same|].
  apply set_handle_view, Hg.
Qed.

Lemma after_change_noclear : forall s sec pt changed ins rs s' res,
  after_change s sec pt changed ins rs = (s', res) -> mgmt_clears res = false ->
  changed = false /\ s' = s.
Proof.
  intros s sec pt changed ins rs s' res. unfold after_change.
  destruct (negb (teqb sec s_g) || negb (e_auto_build s) || negb changed) eqn:C.
  - intros H Hc. inversion H; subst. destruct changed; [discriminate|auto].
  - destruct changed; [|rewrite orb_true_r in C; discriminate].
    destruct (incremental_links s pt ins rs) as [s2 e] eqn:Hi.
    intros H Hc. inversion H; subst. destruct e as [|c]; [discriminate|].
    apply incremental_links_err in Hi. destruct c; try discriminate. contradiction.
Qed.

(* model-level operations reporting "no change" return the model untouched *)
Lemma m_add_policy_false : forall md sec pt r md',
  m_add_policy md sec pt r = (md', false) -> md' = md.
Proof.
  intros md sec pt r md'. unfold m_add_policy.
  destruct (get_ast md sec pt) as [a|]; [|intros H; inversion H; reflexivity].
  destruct (rmem r (a_policy a)); intros H; inversion H; reflexivity.
Qed.

Lemma m_add_policies_false : forall md sec pt rs md',
  m_add_policies md sec pt rs = (md', false) -> md' = md.
Proof.
  intros md sec pt rs md'. unfold m_add_policies.
  destruct rs as [|r0 rs]; [intros H; inversion H; reflexivity|].
  destruct (get_ast md sec pt) as [a|]; [|intros H; inversion H; reflexivity].
  destruct (existsb _ _); intros H; inversion H; reflexivity.
Qed.

Lemma m_remove_policy_false : forall md sec pt r md',
  m_remove_policy md sec pt r = (md', false) -> md' = md.
Proof.
  intros md sec pt r md'. unfold m_remove_policy.
  destruct (get_ast md sec pt) as [a|]; [|intros H; inversion H; reflexivity].
  destruct (rmem r (a_policy a)); intros H; inversion H; reflexivity.
Qed.

Lemma m_remove_policies_false : forall md sec pt rs md',
  m_remove_policies md sec pt rs = (md', false) -> md' = md.
Proof.
  intros md sec pt rs md'. unfold m_remove_policies.
  destruct rs as [|r0 rs]; [intros H; inversion H; reflexivity|].
  destruct (get_ast md sec pt) as [a|]; [|intros H; inversion H; reflexivity].
  destruct (forallb _ _); intros H; inversion H; reflexivity.
Qed.

Lemma m_remove_filtered_false : forall md sec pt idx vals md' rs,
  m_remove_filtered md sec pt idx vals = Some (md', false, rs) -> md' = md /\ rs = [].
Proof.
  intros md sec pt idx vals md' rs. unfold m_remove_filtered.
  destruct vals as [|v0 vals]; [intros H; inversion H; auto|].
  destruct (get_ast md sec pt) as [a|]; [|intros H; inversion H; auto].
  destruct (select_filtered idx (v0 :: vals) (a_policy a)) as [[|r0 rem]|];
    intros H; inversion H; auto.
Qed.

Lemma upd_model_same_dview : forall s, dview (upd_model s (e_model s)) = dview s.
Proof. reflexivity. Qed.

(* the five management entry points *)
Lemma step_add_noclear : forall s sec pt r s' res,
  step_add s sec pt r = (s', res) -> mgmt_clears res = false -> dec_eqv s s'.
Proof.
  intros s sec pt r s' res. unfold step_add.
  destruct (if e_auto_save s then ad_add (e_adapter s) sec pt r else (e_adapter s, Ok true))
    as [ad ares].
  destruct ares as [[|]|e|];
    try (intros H _; inversion H; subst; apply dview_dec_eqv; reflexivity).
  destruct (m_add_policy (e_model (upd_adapter s ad)) sec pt r) as [md added] eqn:Hm.
  intros H Hc. destruct (after_change_noclear _ _ _ _ _ _ _ _ H Hc) as [-> ->].
  apply m_add_policy_false in Hm. subst md. apply dview_dec_eqv. reflexivity.
Qed.

Lemma step_add_many_noclear : forall s sec pt rs s' res,
  step_add_many s sec pt rs = (s', res) -> mgmt_clears res = false -> dec_eqv s s'.
Proof.
  intros s sec pt rs s' res. unfold step_add_many.
  destruct (if e_auto_save s then ad_add_many (e_adapter s) sec pt rs else (e_adapter s, Ok true))
    as [ad ares].
  destruct ares as [[|]|e|];
    try (intros H _; inversion H; subst; apply dview_dec_eqv; reflexivity).
  destruct (m_add_policies (e_model (upd_adapter s ad)) sec pt rs) as [md added] eqn:Hm.
  intros H Hc. destruct (after_change_noclear _ _ _ _ _ _ _ _ H Hc) as [-> ->].
  apply m_add_policies_false in Hm. subst md. apply dview_dec_eqv. reflexivity.
Qed.

Lemma step_remove_noclear : forall s sec pt r s' res,
  step_remove s sec pt r = (s', res) -> mgmt_clears res = false -> dec_eqv s s'.
Proof.
  intros s sec pt r s' res. unfold step_remove.
  destruct (if e_auto_save s then ad_remove (e_adapter s) sec pt r else (e_adapter s, Ok true))
    as [ad ares].
  destruct ares as [[|]|e|];
    try (intros H _; inversion H; subst; apply dview_dec_eqv; reflexivity).
  destruct (m_remove_policy (e_model (upd_adapter s ad)) sec pt r) as [md removed] eqn:Hm.
  intros H Hc. destruct (after_change_noclear _ _ _ _ _ _ _ _ H Hc) as [-> ->].
  apply m_remove_policy_false in Hm. subst md. apply dview_dec_eqv. reflexivity.
Qed.

Lemma step_remove_many_noclear : forall s sec pt rs s' res,
  step_remove_many s sec pt rs = (s', res) -> mgmt_clears res = false -> dec_eqv s s'.
Proof.
  intros s sec pt rs s' res. unfold step_remove_many.
  destruct (if e_auto_save s then ad_remove_many (e_adapter s) sec pt rs else (e_adapter s, Ok true))
    as [ad ares].
  destruct ares as [[|]|e|];
    try (intros H _; inversion H; subst; apply dview_dec_eqv; reflexivity).
  destruct (m_remove_policies (e_model (upd_adapter s ad)) sec pt rs) as [md removed] eqn:Hm.
  intros H Hc. destruct (after_change_noclear _ _ _ _ _ _ _ _ H Hc) as [-> ->].
  apply m_remove_policies_false in Hm. subst md. apply dview_dec_eqv. reflexivity.
Qed.

Lemma step_remove_filtered_noclear : forall s sec pt idx vals s' res,
  step_remove_filtered s sec pt idx vals = (s', res) -> mgmt_clears res = false -> dec_eqv s s'.
Proof.
  intros s sec pt idx vals s' res. unfold step_remove_filtered.
  destruct (if e_auto_save s then ad_remove_filtered (e_adapter s) sec pt idx vals
            else (e_adapter s, Ok true)) as [ad ares].
  destruct ares as [[|]|e|];
    try (intros H _; inversion H; subst; apply dview_dec_eqv; reflexivity).
  destruct (m_remove_filtered (e_model (upd_adapter s ad)) sec pt idx vals)
    as [[[md removed] rs]|] eqn:Hm;
    [|intros H _; inversion H; subst; apply dview_dec_eqv; reflexivity].
  set (s2 := emit_mgmt (upd_model (upd_adapter s ad) md) removed (EvRemoveFiltered sec pt rs)).
  destruct (negb (teqb sec s_g) || negb (e_auto_build s2)).
  - intros H Hc. inversion H; subst s' res. destruct removed; [discriminate|].
    apply m_remove_filtered_false in Hm. destruct Hm as [-> ->].
    apply dview_dec_eqv. reflexivity.
  - destruct (incremental_links s2 pt false rs) as [s3 e] eqn:Hi.
    intros H Hc. inversion H; subst s' res. destruct e as [|c].
    + destruct removed; [discriminate|].
      apply m_remove_filtered_false in Hm. destruct Hm as [-> ->].
      apply incremental_links_nil in Hi.
      eapply dec_eqv_trans; [|exact Hi]. apply dview_dec_eqv. reflexivity.
    + apply incremental_links_err in Hi. destruct c; try discriminate. contradiction.
Qed.

Lemma step_save_eqv : forall s, dec_eqv s (fst (step_save s)).
Proof.
  intros s. unfold step_save. destruct (ad_is_filtered (e_adapter s)); [apply dec_eqv_refl|].
  destruct (ad_save (e_adapter s) (e_model s)) as [ad [|e|]]; cbn [fst];
    apply dview_dec_eqv; rewrite ?dview_emit; reflexivity.
Qed.

Definition is_rbac (o : op) : bool := match o with ORbac _ => true | _ => false end.

(* THE SUBSTANCE: a primitive call after which the cache is kept leaves every
   decision, plain or context-qualified, as it was *)
Theorem step_noclear_eqv : forall s o,
  is_rbac o = false -> clears_after o (snd (step s o)) = false -> dec_eqv s (fst (step s o)).
Proof.
  intros s o Hr. destruct o; cbn [is_rbac] in Hr; try discriminate; cbn [clears_after step];
    try discriminate; intros Hc.
  - destruct (step_add s sec pt r) as [s' res] eqn:H. eapply step_add_noclear; eauto.
  - destruct (step_add_many s sec pt rs) as [s' res] eqn:H. eapply step_add_many_noclear; eauto.
  - destruct (step_remove s sec pt r) as [s' res] eqn:H. eapply step_remove_noclear; eauto.
  - destruct (step_remove_many s sec pt rs) as [s' res] eqn:H. eapply step_remove_many_noclear; eauto.
  - destruct (step_remove_filtered s sec pt idx vals) as [s' res] eqn:H.
    eapply step_remove_filtered_noclear; eauto.
  - apply step_save_eqv.
  - apply dview_dec_eqv. reflexivity.
  - apply dview_dec_eqv. reflexivity.
  - apply dview_dec_eqv. reflexivity.
Qed.

Corollary step_noclear_decide : forall ptab s o,
  is_rbac o = false -> clears_after o (snd (step s o)) = false ->
  forall k, decide ptab (fst (step s o)) k = decide ptab s k.
Proof.
  intros ptab s o Hr Hc k. symmetry. apply decide_eqv, step_noclear_eqv; assumption.
Qed.

(* ================= 4. the coherence invariant ================= *)

Definition CacheCoherent (ptab : text -> option expr) (c : cstate) : Prop :=
  forall k b, cache_get k (c_cache c) = Some b -> decide ptab (c_inner c) k = Ok b.

(* the same through membership *)
Definition CacheCoherentIn (ptab : text -> option expr) (c : cstate) : Prop :=
  forall k b, In (k, b) (c_cache c) -> decide ptab (c_inner c) k = Ok b.

Lemma coherent_In_get : forall ptab c, CacheCoherentIn ptab c -> CacheCoherent ptab c.
Proof. intros ptab c H k b Hg. apply H, cache_get_In, Hg. Qed.

Lemma coherent_init : forall ptab s, CacheCoherent ptab {| c_inner := s; c_cache := [] |}.
Proof. intros ptab s k b H. discriminate. Qed.

Lemma coherentIn_init : forall ptab s, CacheCoherentIn ptab {| c_inner := s; c_cache := [] |}.
Proof. intros ptab s k b H. destruct H. Qed.

(* sub-caches: whatever the eviction policy forgets, coherence stays *)
Definition sub_cache (c' c : list (ckey * bool)) : Prop :=
  forall k b, cache_get k c' = Some b -> cache_get k c = Some b.

Lemma sub_cache_refl : forall c, sub_cache c c.
Proof. intros c k b H. exact H. Qed.

Lemma sub_cache_nil : forall c, sub_cache [] c.
Proof. intros c k b H. discriminate. Qed.

Theorem sub_cache_coherent : forall ptab c cache',
  sub_cache cache' (c_cache c) -> CacheCoherent ptab c ->
  CacheCoherent ptab {| c_inner := c_inner c; c_cache := cache' |}.
Proof.
  intros ptab c cache' Hsub Hc k b Hg. cbn [c_inner c_cache] in *. apply Hc, Hsub, Hg.
Qed.

Lemma cache_get_filter_out : forall keep k l,
  keep k = false -> cache_get k (filter (fun e : ckey * bool => keep (fst e)) l) = None.
Proof.
  intros keep k l Hk. induction l as [|[k' b'] l IH]; cbn [filter fst]; [reflexivity|].
  destruct (keep k') eqn:E; [|exact IH]. cbn [cache_get].
  destruct (ckey_eqb k k') eqn:Ek; [|exact IH].
  apply ckey_eqb_eq in Ek. subst. congruence.
Qed.

Lemma filter_sub_cache : forall keep l,
  sub_cache (filter (fun e : ckey * bool => keep (fst e)) l) l.
Proof.
  intros keep l k b. induction l as [|[k' b'] l IH]; cbn [filter fst]; [intros H; exact H|].
  destruct (keep k') eqn:E; cbn [cache_get].
  - destruct (ckey_eqb k k'); [intros H; exact H|exact IH].
  - intros H. destruct (ckey_eqb k k') eqn:Ek; [|apply IH, H].
    apply ckey_eqb_eq in Ek. subst k'.
    rewrite (cache_get_filter_out keep k l E) in H. discriminate.
Qed.

Lemma evict_coherent : forall ptab keep c, CacheCoherent ptab c -> CacheCoherent ptab (evict keep c).
Proof. intros ptab keep c Hc. apply sub_cache_coherent; [apply filter_sub_cache|exact Hc]. Qed.

(* a request: the answer is the uncached decision, the enforcer is untouched,
   the cache stays coherent *)
Lemma cenforce_spec : forall ptab c k, CacheCoherent ptab c ->
  snd (cenforce ptab c k) = decide ptab (c_inner c) k /\
  c_inner (fst (cenforce ptab c k)) = c_inner c /\
  CacheCoherent ptab (fst (cenforce ptab c k)).
Proof.
  intros ptab c k Hc. unfold cenforce.
  destruct (cache_get k (c_cache c)) as [b|] eqn:Hg.
  - cbn [fst snd]. split; [symmetry; apply Hc, Hg|]. split; [reflexivity|exact Hc].
  - destruct (decide ptab (c_inner c) k) as [b|e|] eqn:Hd; cbn [fst snd c_inner];
      (split; [reflexivity|]); (split; [reflexivity|]); try exact Hc.
    intros k' b'. cbn [c_cache c_inner cache_get].
    destruct (ckey_eqb k' k) eqn:E.
    + apply ckey_eqb_eq in E. subst k'. intros H; inversion H; subst. exact Hd.
    + apply Hc.
Qed.

Lemma cenforce_coherent : forall ptab c k,
  CacheCoherent ptab c -> CacheCoherent ptab (fst (cenforce ptab c k)).
Proof. intros ptab c k Hc. apply (cenforce_spec ptab c k Hc). Qed.

(* a primitive call *)
Lemma cstep_prim_coherent : forall ptab c o, is_rbac o = false ->
  CacheCoherent ptab c -> CacheCoherent ptab (fst (cstep_prim c o)).
Proof.
  intros ptab c o Hr Hc. unfold cstep_prim.
  pose proof (step_noclear_decide ptab (c_inner c) o Hr) as Hn.
  destruct (step (c_inner c) o) as [s' r]. cbn [fst snd] in *.
  destruct (clears_after o r); intros k b; cbn [c_cache c_inner]; [discriminate|].
  intros Hg. rewrite (Hn eq_refl). apply Hc, Hg.
Qed.

Lemma rbac_prims_prim : forall r,
  is_rbac (fst (rbac_prims r)) = false /\
  match snd (rbac_prims r) with Some o2 => is_rbac o2 = false | None => True end.
Proof. intros r. destruct r; cbn [rbac_prims fst snd is_rbac]; auto. Qed.

(* PRESERVATION for every call of the public surface *)
Theorem cstep_coherent : forall ptab c o,
  CacheCoherent ptab c -> CacheCoherent ptab (fst (cstep c o)).
Proof.
  intros ptab c o Hc.
  destruct o; try (apply cstep_prim_coherent; [reflexivity|exact Hc]).
  unfold cstep. pose proof (rbac_prims_prim r) as [Hp1 Hp2].
  destruct (rbac_prims r) as [o1 o2]. cbn [fst snd] in Hp1, Hp2.
  pose proof (cstep_prim_coherent ptab c o1 Hp1 Hc) as H1.
  destruct (cstep_prim c o1) as [c1 [a|e|]]; cbn [fst] in *; try exact H1.
  destruct o2 as [o2'|]; [|exact H1].
  pose proof (cstep_prim_coherent ptab c1 o2' Hp2 H1) as H2.
  destruct (cstep_prim c1 o2') as [c2 [b|e|]]; cbn [fst] in *; exact H2.
Qed.

(* ================= 5. the cached enforcer refines the plain one ================= *)

Lemma step_rbac_expand : forall s r,
  step s (ORbac r) =
  match rbac_prims r with
  | (o1, None) => step s o1
  | (o1, Some o2) => seq_or (step s o1) (fun s' => step s' o2)
  end.
Proof. intros s r. destruct r; reflexivity. Qed.

Theorem cstep_refines : forall c o,
  c_inner (fst (cstep c o)) = fst (step (c_inner c) o) /\
  snd (cstep c o) = snd (step (c_inner c) o).
Proof.
  intros c o.
  assert (Hp : forall c o, c_inner (fst (cstep_prim c o)) = fst (step (c_inner c) o) /\
                           snd (cstep_prim c o) = snd (step (c_inner c) o)).
  { intros c0 o0. unfold cstep_prim. destruct (step (c_inner c0) o0) as [s' r].
    split; reflexivity. }
  destruct o; try apply Hp.
  unfold cstep. rewrite step_rbac_expand.
  destruct (rbac_prims r) as [o1 o2].
  pose proof (Hp c o1) as [H1 H2].
  destruct (cstep_prim c o1) as [c1 r1]. destruct (step (c_inner c) o1) as [s1 r1'].
  cbn [fst snd] in H1, H2. subst r1' s1.
  destruct r1 as [a|e|]; destruct o2 as [o2'|]; unfold seq_or; try (split; reflexivity).
  pose proof (Hp c1 o2') as [G1 G2].
  destruct (cstep_prim c1 o2') as [c2 r2]. destruct (step (c_inner c1) o2') as [s2 r2'].
  cbn [fst snd] in G1, G2. subst r2' s2.
  destruct r2 as [b|e|]; split; reflexivity.
Qed.

(* ================= 6. main theorem ================= *)

Lemma crun_prun_gen : forall ptab h c, CacheCoherent ptab c ->
  crun ptab c h = prun ptab (c_inner c) h.
Proof.
  intros ptab. induction h as [|[o|k] h IH]; intros c Hc; cbn [crun prun]; [reflexivity| |].
  - pose proof (cstep_refines c o) as [H1 H2].
    pose proof (cstep_coherent ptab c o Hc) as H3.
    destruct (cstep c o) as [c' r]. destruct (step (c_inner c) o) as [s' r'].
    cbn [fst snd] in *. subst. f_equal. apply IH, H3.
  - pose proof (cenforce_spec ptab c k Hc) as (H1 & H2 & H3).
    destruct (cenforce ptab c k) as [c' r]. cbn [fst snd] in *. subst r.
    f_equal. rewrite <- H2. apply IH, H3.
Qed.

Theorem same_decisions : forall ptab h s,
  crun ptab {| c_inner := s; c_cache := [] |} h = prun ptab s h.
Proof. intros ptab h s. apply (crun_prun_gen ptab h _ (coherent_init ptab s)). Qed.

Lemma crun_state_gen : forall ptab h c, CacheCoherent ptab c ->
  c_inner (crun_state ptab c h) = prun_state (c_inner c) h /\
  CacheCoherent ptab (crun_state ptab c h).
Proof.
  intros ptab. induction h as [|[o|k] h IH]; intros c Hc; cbn [crun_state prun_state].
  - split; [reflexivity|exact Hc].
  - pose proof (cstep_refines c o) as [H1 _]. rewrite <- H1.
    apply IH, cstep_coherent, Hc.
  - pose proof (cenforce_spec ptab c k Hc) as (_ & H2 & H3). rewrite <- H2. apply IH, H3.
Qed.

Theorem same_inner_state : forall ptab h s,
  c_inner (crun_state ptab {| c_inner := s; c_cache := [] |} h) = prun_state s h.
Proof. intros ptab h s. apply (crun_state_gen ptab h _ (coherent_init ptab s)). Qed.

Theorem coherent_reachable : forall ptab h s,
  CacheCoherent ptab (crun_state ptab {| c_inner := s; c_cache := [] |} h).
Proof. intros ptab h s. apply (crun_state_gen ptab h _ (coherent_init ptab s)). Qed.

(* with arbitrary forgetting before every item (boolean key filters) *)
Lemma crun_evict_gen : forall ptab h c, CacheCoherent ptab c ->
  crun_evict ptab c h = prun ptab (c_inner c) (map snd h).
Proof.
  intros ptab. induction h as [|[keep [o|k]] h IH]; intros c Hc;
    cbn [crun_evict prun map snd]; [reflexivity| |].
  - pose proof (evict_coherent ptab keep c Hc) as Hc'.
    pose proof (cstep_refines (evict keep c) o) as [H1 H2].
    pose proof (cstep_coherent ptab _ o Hc') as H3.
    destruct (cstep (evict keep c) o) as [c' r]. cbn [evict c_inner] in H1, H2.
    destruct (step (c_inner c) o) as [s' r'].
    cbn [fst snd] in *. subst. f_equal. apply IH, H3.
  - pose proof (evict_coherent ptab keep c Hc) as Hc'.
    pose proof (cenforce_spec ptab _ k Hc') as (H1 & H2 & H3).
    destruct (cenforce ptab (evict keep c) k) as [c' r]. cbn [fst snd evict c_inner] in *.
    subst r. f_equal. rewrite <- H2. apply IH, H3.
Qed.

Theorem same_decisions_evict : forall ptab h s,
  crun_evict ptab {| c_inner := s; c_cache := [] |} h = prun ptab s (map snd h).
Proof. intros ptab h s. apply (crun_evict_gen ptab h _ (coherent_init ptab s)). Qed.

(* the fully general form: before every item the cache may be replaced by ANY
   sub-cache (as observed through cache_get), chosen by any policy *)
Inductive crun_any (ptab : text -> option expr) : cstate -> list citem -> list (outcome bool) -> Prop :=
| CRnil : forall c, crun_any ptab c [] []
| CRop : forall c cache0 o c' r h outs,
    sub_cache cache0 (c_cache c) ->
    cstep {| c_inner := c_inner c; c_cache := cache0 |} o = (c', r) ->
    crun_any ptab c' h outs -> crun_any ptab c (CIOp o :: h) (r :: outs)
| CRreq : forall c cache0 k c' r h outs,
    sub_cache cache0 (c_cache c) ->
    cenforce ptab {| c_inner := c_inner c; c_cache := cache0 |} k = (c', r) ->
    crun_any ptab c' h outs -> crun_any ptab c (CIReq k :: h) (r :: outs).

Theorem same_decisions_any : forall ptab c h outs,
  crun_any ptab c h outs -> CacheCoherent ptab c -> outs = prun ptab (c_inner c) h.
Proof.
  intros ptab c h outs Hr. induction Hr as [c|c cache0 o c' r h outs Hsub Hst Hr IH
                                            |c cache0 k c' r h outs Hsub Hst Hr IH];
    intros Hc; cbn [prun]; [reflexivity| |].
  - pose proof (sub_cache_coherent ptab c cache0 Hsub Hc) as Hc0.
    pose proof (cstep_refines {| c_inner := c_inner c; c_cache := cache0 |} o) as [H1 H2].
    pose proof (cstep_coherent ptab _ o Hc0) as H3.
    rewrite Hst in H1, H2, H3. cbn [fst snd c_inner] in *.
    destruct (step (c_inner c) o) as [s' r']. cbn [fst snd] in *. subst.
    f_equal. apply IH, H3.
  - pose proof (sub_cache_coherent ptab c cache0 Hsub Hc) as Hc0.
    pose proof (cenforce_spec ptab _ k Hc0) as (H1 & H2 & H3).
    rewrite Hst in H1, H2, H3. cbn [fst snd c_inner] in *. subst r.
    f_equal. rewrite <- H2. apply IH, H3.
Qed.

(* the plain run is one of the general runs (no forgetting) *)
Lemma crun_is_any : forall ptab h c, crun_any ptab c h (crun ptab c h).
Proof.
  intros ptab. induction h as [|[o|k] h IH]; intros c; cbn [crun]; [constructor| |].
  - destruct (cstep c o) as [c' r] eqn:Hs.
    eapply CRop with (cache0 := c_cache c); [apply sub_cache_refl| |apply IH].
    destruct c; exact Hs.
  - destruct (cenforce ptab c k) as [c' r] eqn:Hs.
    eapply CRreq with (cache0 := c_cache c); [apply sub_cache_refl| |apply IH].
    destruct c; exact Hs.
Qed.

(* the trace predicate holds of the model's own observations *)
Lemma outcome_eqb_refl : forall a, outcome_eqb a a = true.
Proof. intros [[|]|[]|]; reflexivity. Qed.

Lemma list_eqb_refl : forall {A} (eqb : A -> A -> bool), (forall x, eqb x x = true) ->
  forall l, list_eqb eqb l l = true.
Proof.
  intros A eqb H. induction l as [|x l IH]; cbn [list_eqb]; [reflexivity|].
  rewrite H, IH. reflexivity.
Qed.

Theorem c11_pred_model : forall ptab h s,
  c11_pred (crun ptab {| c_inner := s; c_cache := [] |} h) (prun ptab s h) = true.
Proof.
  intros ptab h s. rewrite same_decisions. apply list_eqb_refl, outcome_eqb_refl.
Qed.

(* the parametrised step instantiated with the real clearing rule is cstep *)
Lemma cstep_with_real : forall c o, cstep_with clears_after c o = cstep c o.
Proof. intros c o. destruct o; reflexivity. Qed.

(* ================= 7. necessity witnesses ================= *)
(* for each kind of call: the cached enforcer that differs from the real one
   only in NOT clearing on that kind answers a request differently from the
   uncached twin. Left: defective cached run; right: uncached run. *)

Definition cmp_runs (clr : op -> outcome bool -> bool) (s : estate) (h : list citem) :=
  (crun_with no_ptab clr (cinit s) h, prun no_ptab s h).

Definition w_acl := mk acl_def (mem [pl alice data1 read; pl bob data2 write]).
Definition w_rbac := mk rbac_def (mem [pl root data1 read; gl alice admin; gl admin root]).
Definition w_rbac1 := mk rbac_def (mem [pl admin data1 read; gl alice admin]).
Definition w_km := mk km_def (mem [pl alice (T "/data/*") read]).
Definition w_ctx := mk ctx_def (mem [pl alice data1 read; p2l alice data1 read]).
Definition k_a1r := CKPlain (req alice data1 read).
Definition k_a1w := CKPlain (req alice data1 write).
Definition k_a2r := CKPlain (req alice data2 read).
Definition k_b1r := CKPlain (req bob data1 read).

Lemma w_clear :
  cmp_runs (clears_except is_clear) w_acl [CIReq k_a1r; CIOp OClear; CIReq k_a1r] =
  ([Ok true; Ok true; Ok true], [Ok true; Ok true; Ok false]).
Proof. vm_compute. reflexivity. Qed.

Lemma w_load :
  cmp_runs (clears_except is_load) w_acl
    [CIOp (OEnableAutoSave false); CIOp (OAdd s_p s_p [alice; data2; read]); CIReq k_a2r;
     CIOp OLoad; CIReq k_a2r] =
  ([Ok true; Ok true; Ok true; Ok true; Ok true], [Ok true; Ok true; Ok true; Ok true; Ok false]).
Proof. vm_compute. reflexivity. Qed.

Lemma w_load_filtered :
  cmp_runs (clears_except is_load_filtered) w_acl
    [CIReq k_a1r; CIOp (OLoadFiltered [bob] []); CIReq k_a1r] =
  ([Ok true; Ok true; Ok true], [Ok true; Ok true; Ok false]).
Proof. vm_compute. reflexivity. Qed.

Lemma w_set_model :
  cmp_runs (clears_except is_set_model) w_acl [CIReq k_a1w; CIOp (OSetModel acl2_def); CIReq k_a1w] =
  ([Ok false; Ok true; Ok false], [Ok false; Ok true; Ok true]).
Proof. vm_compute. reflexivity. Qed.

Lemma w_set_adapter :
  cmp_runs (clears_except is_set_adapter) w_acl
    [CIReq k_a1r; CIOp (OSetAdapter (mem [pl bob data2 write])); CIReq k_a1r] =
  ([Ok true; Ok true; Ok true], [Ok true; Ok true; Ok false]).
Proof. vm_compute. reflexivity. Qed.

(* a smaller hierarchy limit cuts a two-step inheritance *)
Lemma w_set_role_manager :
  cmp_runs (clears_except is_set_rm) w_rbac [CIReq k_a1r; CIOp (OSetRoleManager 1); CIReq k_a1r] =
  ([Ok true; Ok true; Ok true], [Ok true; Ok true; Ok false]).
Proof. vm_compute. reflexivity. Qed.

(* a grouping rule added with auto-build off takes effect at build_role_links *)
Lemma w_build_role_links :
  cmp_runs (clears_except is_build) w_rbac
    [CIOp (OEnableAutoBuild false); CIOp (OAdd s_g s_g [bob; root]); CIReq k_b1r;
     CIOp OBuildRoleLinks; CIReq k_b1r] =
  ([Ok true; Ok true; Ok false; Ok true; Ok false], [Ok true; Ok true; Ok false; Ok true; Ok true]).
Proof. vm_compute. reflexivity. Qed.

Lemma w_enable_enforce :
  cmp_runs (clears_except is_enable) w_acl [CIReq k_a1w; CIOp (OEnableEnforce false); CIReq k_a1w] =
  ([Ok false; Ok true; Ok false], [Ok false; Ok true; Ok true]).
Proof. vm_compute. reflexivity. Qed.

(* a user function registered under a built-in's name overrides it *)
Lemma w_add_function :
  cmp_runs (clears_except is_add_function) w_km
    [CIReq (CKPlain (req alice (T "/data/1") read)); CIOp (OAddFunction (T "keyMatch") UEq);
     CIReq (CKPlain (req alice (T "/data/1") read))] =
  ([Ok true; Ok true; Ok true], [Ok true; Ok true; Ok false]).
Proof. vm_compute. reflexivity. Qed.

Lemma w_mgmt :
  cmp_runs (clears_except is_mgmt) w_acl
    [CIReq k_a2r; CIOp (OAdd s_p s_p [alice; data2; read]); CIReq k_a2r] =
  ([Ok false; Ok true; Ok false], [Ok false; Ok true; Ok true]).
Proof. vm_compute. reflexivity. Qed.

Lemma w_rbac_api :
  cmp_runs (clears_except is_mgmt) w_acl
    [CIReq k_a2r; CIOp (ORbac (RAddPermission alice [data2; read])); CIReq k_a2r] =
  ([Ok false; Ok true; Ok false], [Ok false; Ok true; Ok true]).
Proof. vm_compute. reflexivity. Qed.

(* a management call that changed the model and then failed in the role-link
   update (Err, not an adapter error) must clear too: here remove_policies
   deleted the link alice->admin before failing on a rule that has no link *)
Lemma w_mgmt_link_error :
  cmp_runs clears_ok_only w_rbac1
    [CIOp (OEnableAutoBuild false); CIOp (OAdd s_g s_g [bob; root]); CIOp (OEnableAutoBuild true);
     CIReq k_a1r; CIOp (ORemoveMany s_g s_g [[alice; admin]; [bob; root]]); CIReq k_a1r] =
  ([Ok true; Ok true; Ok true; Ok true; Err ERbac; Ok true],
   [Ok true; Ok true; Ok true; Ok true; Err ERbac; Ok false]).
Proof. vm_compute. reflexivity. Qed.

(* the context is part of the key: the same values decide differently with and
   without the context, so one shared slot would answer wrongly *)
Lemma w_ctx_decides_differently :
  decide no_ptab w_ctx (CKPlain (req alice data1 write)) = Ok false /\
  decide no_ptab w_ctx (CKCtx (T "2") (req alice data1 write)) = Ok true.
Proof. vm_compute. split; reflexivity. Qed.

Lemma w_ctx_shared_slot :
  let h := [CIReq (CKPlain (req alice data1 write)); CIReq (CKCtx (T "2") (req alice data1 write))] in
  crun_shared no_ptab (cinit w_ctx) h = [Ok false; Ok false] /\
  prun no_ptab w_ctx h = [Ok false; Ok true] /\
  crun no_ptab (cinit w_ctx) h = [Ok false; Ok true].
Proof. vm_compute. repeat split; reflexivity. Qed.

(* the only unconditional clear that is not needed in the model: set_effector
   (the model has the default effector only, the call is a no-op) *)
Lemma set_effector_changes_nothing : forall s, step s OSetEffector = (s, Ok true).
Proof. reflexivity. Qed.

(* non-vacuity: a reachable coherent state with a non-empty cache, a hit, and
   a call that keeps the cache *)
Lemma ex_nonvacuous :
  let c := crun_state no_ptab (cinit w_acl) [CIReq k_a1r; CIReq k_a1w; CIOp OSave] in
  c_cache c = [(k_a1w, false); (k_a1r, true)] /\
  snd (cenforce no_ptab c k_a1r) = Ok true.
Proof. vm_compute. split; reflexivity. Qed.

(* a management call returning Ok false with the filtered-remove handle quirk:
   the cache is kept, the handle changes, the decision does not *)
Lemma ex_remove_filtered_handle :
  let s := w_rbac in
  let s' := fst (step s (ORemoveFiltered s_g s_g 0 [bob])) in
  snd (step s (ORemoveFiltered s_g s_g 0 [bob])) = Ok false /\
  clears_after (ORemoveFiltered s_g s_g 0 [bob]) (Ok false) = false /\
  decide no_ptab s' k_a1r = decide no_ptab s k_a1r.
Proof. vm_compute. repeat split; reflexivity. Qed.
