(* rs2coq part 22: general facts about the runtime Gen/MiscRt.v (the Rust-level function map, the std HashMap of
   Gen/Enforcer2Rt.v as it is used by FunctionMap, loops that only accumulate) and the views through which the
   results of the translated NullAdapter methods are read as results of the adapter model (Model/Engine.v the ad0_ functions). *)
From CV Require Import Model.Base Model.Expr Model.Enforce Model.Engine.
From CV Require Import Gen.RustStr Gen.RustVec Gen.FsRt Gen.EnforcerPrims Gen.CachedRt Gen.Enforcer2Rt Gen.MiscRt.
From CV Require Import Proofs.BaseP Proofs.RustVecP Proofs.FsaveP.
From Coq Require Import Lia.

(* ------------------------------------------------------------------ *)
(* the results of the NullAdapter methods as results of the adapter model *)

(* NullAdapter is a unit struct: the adapter after a call is ANull again *)
Definition null_view_b (x : option (res casbin_error bool)) : option (adapter * outcome bool) :=
  match x with Some r => Some (ANull, out_of r) | None => None end.
Definition null_view_u (x : option (res casbin_error unit)) : option (adapter * lres) :=
  match x with Some r => Some (ANull, lres_of r) | None => None end.
Definition null_view_m (x : option (model * res casbin_error unit)) : option (adapter * model * lres) :=
  match x with Some (md, r) => Some (ANull, md, lres_of r) | None => None end.
(* save_policy takes the model by &mut; the model's ad0_save does not return it: it must come back unchanged *)
Definition null_view_s (x : option (model * res casbin_error unit)) : option (adapter * lres) :=
  match x with Some (md, r) => Some (ANull, lres_of r) | None => None end.

(* ------------------------------------------------------------------ *)
(* std HashMap as Enforcer2Rt restates it, keys compared by teqb        *)

Lemma NoDup_app_one : forall {A} (l : list A) x, NoDup l -> ~ In x l -> NoDup (l ++ [x]).
Proof.
  intros A l x Hnd Hni. induction l as [|y l IH]; cbn [app]; [constructor; [intros []|constructor]|].
  inversion Hnd as [|? ? Hy Hnd0]; subst. constructor.
  - intros Hin. apply in_app_or in Hin. destruct Hin as [Hin|[->|[]]]; [apply Hy, Hin|apply Hni; left; reflexivity].
  - apply IH; [exact Hnd0|]. intros H. apply Hni. right. exact H.
Qed.

Section HM.
  Context {V : Type}.
  Implicit Types (m : list (text * V)) (k n : text) (v : V).

  Lemma hm_get_app : forall m m' k,
    hm_get teqb (m ++ m') k = match hm_get teqb m k with Some v => Some v | None => hm_get teqb m' k end.
  Proof.
    induction m as [|[k' v'] m IH]; intros m' k; [reflexivity|].
    cbn [app hm_get]. destruct (teqb k k'); [reflexivity|apply IH].
  Qed.

  Lemma hm_get_remove_same : forall m n, hm_get teqb (hm_remove teqb m n) n = None.
  Proof.
    induction m as [|[k' v'] m IH]; intros n; [reflexivity|].
    unfold hm_remove in *. cbn [filter fst]. destruct (teqb n k') eqn:E; cbn [negb].
    - apply IH.
    - cbn [hm_get]. rewrite E. apply IH.
  Qed.

  Lemma hm_get_remove_other : forall m n k, k <> n -> hm_get teqb (hm_remove teqb m n) k = hm_get teqb m k.
  Proof.
    induction m as [|[k' v'] m IH]; intros n k Hne; [reflexivity|].
    unfold hm_remove in *. cbn [filter fst hm_get]. destruct (teqb n k') eqn:E; cbn [negb].
    - apply teqb_eq in E. subst k'. apply teqb_neq in Hne. rewrite Hne. apply IH. apply teqb_neq, Hne.
    - cbn [hm_get]. destruct (teqb k k'); [reflexivity|apply IH, Hne].
  Qed.

  (* insert: the key now holds the value, every other key what it held *)
  Lemma hm_get_insert_same : forall m n v, hm_get teqb (hm_insert teqb m n v) n = Some v.
  Proof.
    intros m n v. unfold hm_insert. rewrite hm_get_app, hm_get_remove_same. cbn [hm_get]. rewrite teqb_refl. reflexivity.
  Qed.
  Lemma hm_get_insert_other : forall m n k v, k <> n -> hm_get teqb (hm_insert teqb m n v) k = hm_get teqb m k.
  Proof.
    intros m n k v Hne. unfold hm_insert. rewrite hm_get_app, (hm_get_remove_other m n k Hne).
    destruct (hm_get teqb m k); [reflexivity|]. cbn [hm_get]. apply teqb_neq in Hne. rewrite Hne. reflexivity.
  Qed.

  (* "replaces": after an insert there is exactly one entry for the key, and the other entries are the old ones
     in their order *)
  Lemma hm_insert_one_entry : forall m n v,
    filter (fun kv => teqb n (fst kv)) (hm_insert teqb m n v) = [(n, v)].
  Proof.
    intros m n v. unfold hm_insert, hm_remove. rewrite filter_app. cbn [filter fst]. rewrite teqb_refl.
    assert (H : filter (fun kv : text * V => teqb n (fst kv)) (filter (fun kv => negb (teqb n (fst kv))) m) = []).
    { induction m as [|[k' v'] m IH]; [reflexivity|]. cbn [filter fst]. destruct (teqb n k') eqn:E; cbn [negb].
      - exact IH.
      - cbn [filter fst]. rewrite E. exact IH. }
    rewrite H. reflexivity.
  Qed.
  Lemma hm_insert_others : forall m n v,
    filter (fun kv => negb (teqb n (fst kv))) (hm_insert teqb m n v) = filter (fun kv => negb (teqb n (fst kv))) m.
  Proof.
    intros m n v. unfold hm_insert, hm_remove. rewrite filter_app. cbn [filter fst]. rewrite teqb_refl. cbn [negb].
    rewrite app_nil_r. induction m as [|[k' v'] m IH]; [reflexivity|]. cbn [filter fst].
    destruct (teqb n k') eqn:E; cbn [negb]; [exact IH|]. cbn [filter fst]. rewrite E. cbn [negb]. rewrite IH. reflexivity.
  Qed.
  Lemma hm_insert_keys_nodup : forall m n v, NoDup (map fst m) -> NoDup (map fst (hm_insert teqb m n v)).
  Proof.
    intros m n v Hnd. unfold hm_insert, hm_remove. rewrite map_app. cbn [map fst].
    assert (Hsub : forall k, In k (map fst (filter (fun kv : text * V => negb (teqb n (fst kv))) m)) -> In k (map fst m) /\ k <> n).
    { intros k Hk. apply in_map_iff in Hk. destruct Hk as [[k0 v0] [<- Hin]]. apply filter_In in Hin. destruct Hin as [Hin Hf].
      cbn [fst] in *. split; [apply in_map_iff; exists (k0, v0); split; [reflexivity|exact Hin]|].
      intros ->. rewrite teqb_refl in Hf. discriminate Hf. }
    assert (Hnd' : NoDup (map fst (filter (fun kv : text * V => negb (teqb n (fst kv))) m))).
    { clear Hsub. induction m as [|[k' v'] m IH]; [constructor|]. cbn [map fst] in Hnd. inversion Hnd as [|? ? Hni Hnd0]; subst.
      cbn [filter fst]. destruct (negb (teqb n k')); [|apply IH, Hnd0]. cbn [map fst]. constructor; [|apply IH, Hnd0].
      intros Hin. apply Hni. apply in_map_iff in Hin. destruct Hin as [[k0 v0] [E Hin]]. apply filter_In in Hin.
      apply in_map_iff. exists (k0, v0). split; [exact E|apply Hin]. }
    apply NoDup_app_one; [exact Hnd'|]. intros Hin. apply Hsub in Hin. destruct Hin as [_ Hne]. apply Hne. reflexivity.
  Qed.

  (* a fresh key: the entry goes to the end, nothing else moves *)
  Lemma hm_insert_fresh : forall m n v, ~ In n (map fst m) -> hm_insert teqb m n v = m ++ [(n, v)].
  Proof.
    intros m n v Hni. unfold hm_insert, hm_remove. f_equal.
    induction m as [|[k' v'] m IH]; [reflexivity|]. cbn [filter fst]. cbn [map fst] in Hni.
    destruct (teqb n k') eqn:E.
    - apply teqb_eq in E. subst k'. exfalso. apply Hni. left. reflexivity.
    - cbn [negb]. rewrite IH; [reflexivity|]. intros H. apply Hni. right. exact H.
  Qed.

  (* entry(k).or_insert(v) keeps an existing entry: it is NOT insert *)
  Lemma hm_or_insert_keeps : forall m n v v0, hm_get teqb m n = Some v0 -> hm_or_insert teqb m n v = m.
  Proof. intros m n v v0 H. unfold hm_or_insert. rewrite H. reflexivity. Qed.
End HM.

(* ------------------------------------------------------------------ *)
(* the Rust-level function map                                          *)

Lemma opfun_arity_le : forall p, 1 <= opfun_arity p <= 3.
Proof.
  intros [u|n]; cbn [opfun_arity].
  - destruct u; cbn [ufun_arity]; lia.
  - unfold builtin_arity. destruct (teqb n (T "keyGet2") || teqb n (T "keyGet3")); lia.
Qed.

Lemma opfn_ptr_of : forall p, opfn_ptr (opfn_of p) = p.
Proof. intros p. unfold opfn_of. destruct (opfun_arity p) as [|[|[|[|[|[|n]]]]]]; reflexivity. Qed.

Lemma opfn_variant_of : forall p, opfn_variant (opfn_of p) = opfun_arity p.
Proof.
  intros p. pose proof (opfun_arity_le p) as H. unfold opfn_of.
  destruct (opfun_arity p) as [|[|[|[|[|[|n]]]]]]; try reflexivity; lia.
Qed.

Lemma opfn_of_wt : forall p, opfn_wt (opfn_of p).
Proof. intros p. unfold opfn_wt. rewrite opfn_ptr_of, opfn_variant_of. reflexivity. Qed.

(* a well-typed OperatorFunction whose pointer the model knows is the image of its pointer *)
Lemma opfn_of_ptr : forall f, opfn_wt f -> opfn_of (opfn_ptr f) = f.
Proof.
  intros f H. unfold opfn_wt in H. unfold opfn_of. rewrite H. destruct f; reflexivity.
Qed.

Lemma fm_abs_rep : forall fm, fm_abs (fm_rep fm) = fm.
Proof.
  intros fm. unfold fm_abs, fm_rep. cbn [fm_fm].
  induction fm as [|[k p] fm IH]; [reflexivity|]. cbn [map fst snd]. rewrite opfn_ptr_of. f_equal. exact IH.
Qed.

Lemma map_hm_remove : forall {A B} (g : A -> B) (m : list (text * A)) n,
  map (fun kf => (fst kf, g (snd kf))) (hm_remove teqb m n) = hm_remove teqb (map (fun kf => (fst kf, g (snd kf))) m) n.
Proof.
  intros A B g m n. unfold hm_remove. induction m as [|[k v] m IH]; [reflexivity|].
  cbn [filter map fst snd]. destruct (negb (teqb n k)); cbn [map fst snd]; rewrite IH; reflexivity.
Qed.
Lemma map_hm_insert : forall {A B} (g : A -> B) (m : list (text * A)) n v,
  map (fun kf => (fst kf, g (snd kf))) (hm_insert teqb m n v) = hm_insert teqb (map (fun kf => (fst kf, g (snd kf))) m) n (g v).
Proof. intros A B g m n v. unfold hm_insert. rewrite map_app, map_hm_remove. reflexivity. Qed.

(* ------------------------------------------------------------------ *)
(* the function map of the enforcer, as the model's table of added functions *)

Lemma fm_users_app : forall a b, fm_users (a ++ b) = fm_users a ++ fm_users b.
Proof.
  induction a as [|[k [u|n]] a IH]; intros b; cbn [app fm_users]; [reflexivity| |apply IH].
  rewrite IH. reflexivity.
Qed.

Lemma assoc_app : forall {A} k (a b : list (text * A)),
  assoc k (a ++ b) = match assoc k a with Some v => Some v | None => assoc k b end.
Proof.
  intros A k a b. induction a as [|[k' v] a IH]; [reflexivity|]. cbn [app assoc]. destruct (teqb k k'); [reflexivity|exact IH].
Qed.

Lemma assoc_fm_users_remove_same : forall fm n, assoc n (fm_users (hm_remove teqb fm n)) = None.
Proof.
  induction fm as [|[k p] fm IH]; intros n; [reflexivity|]. unfold hm_remove in *. cbn [filter fst].
  destruct (teqb n k) eqn:E; cbn [negb]; [apply IH|]. destruct p as [u|b]; cbn [fm_users]; [|apply IH].
  cbn [assoc]. rewrite E. apply IH.
Qed.
Lemma assoc_fm_users_remove_other : forall fm n k, k <> n ->
  assoc k (fm_users (hm_remove teqb fm n)) = assoc k (fm_users fm).
Proof.
  induction fm as [|[k' p] fm IH]; intros n k Hne; [reflexivity|]. unfold hm_remove in *. cbn [filter fst].
  destruct (teqb n k') eqn:E; cbn [negb].
  - apply teqb_eq in E. subst k'. destruct p as [u|b]; cbn [fm_users]; [|apply IH, Hne].
    cbn [assoc]. apply teqb_neq in Hne. rewrite Hne. apply IH. apply teqb_neq, Hne.
  - destruct p as [u|b]; cbn [fm_users]; [|apply IH, Hne]. cbn [assoc]. destruct (teqb k k'); [reflexivity|apply IH, Hne].
Qed.

(* add_function(n, u) on the function map: every lookup sees what the model's newest-first list shows *)
Lemma assoc_fm_users_insert : forall fm n u k,
  assoc k (fm_users (hm_insert teqb fm n (OfUser u))) = assoc k ((n, u) :: fm_users fm).
Proof.
  intros fm n u k. unfold hm_insert. rewrite fm_users_app, assoc_app. cbn [fm_users assoc].
  destruct (teqb k n) eqn:E.
  - apply teqb_eq in E. subst k. rewrite assoc_fm_users_remove_same. reflexivity.
  - apply teqb_neq in E. rewrite (assoc_fm_users_remove_other fm n k E).
    destruct (assoc k (fm_users fm)); reflexivity.
Qed.

(* ------------------------------------------------------------------ *)
(* loops that only accumulate                                           *)

Lemma fold_left_app_flat_list : forall {A B} (f : A -> list B) l (s : list B),
  fold_left (fun acc x => acc ++ f x) l s = s ++ flat_map f l.
Proof.
  intros A B f l. induction l as [|x l IH]; intros s; cbn [fold_left flat_map]; [rewrite app_nil_r; reflexivity|].
  rewrite IH, app_assoc. reflexivity.
Qed.

Lemma fold_left_push_map : forall {A B} (f : A -> B) l (s : list B),
  fold_left (fun acc x => rs_push acc (f x)) l s = s ++ map f l.
Proof.
  intros A B f l. induction l as [|x l IH]; intros s; cbn [fold_left map]; [rewrite app_nil_r; reflexivity|].
  rewrite IH. unfold rs_push. rewrite <- app_assoc. reflexivity.
Qed.
