(* C16 (with C16q and C16e) at the level of the TRANSLATED SOURCE: the headline round-trip theorems of
   Properties/C16.v, C16q.v, C16e.v restated about
     gen_parse_csv_line            Gen/RegexGen.v  (part 14: src/util.rs parse_csv_line, through the regex semantics
                                                    of Gen/Regex.v)
     gen_csv_field                 Gen/StrFnGen.v  (part 2:  src/util.rs csv_field)
     gen_str_load_policy, gen_file_load_policy_line   Gen/AdaptersGen.v (part 9: string_adapter.rs, file_adapter.rs)
     gen_from_str, gen_get, gen_model_from_str, gen_to_text   Gen/IniGen.v (part 12: src/config.rs,
                                                    src/model/default_model.rs)
     gen_escape_assertion          Gen/RegexGen.v  (part 14: src/util.rs escape_assertion)
   Proofs: the C16 theorems (Proofs/C16P.v, CsvQP.v, EscPrintP.v) composed with the translation theorems of
   PinChecks/PcRegexGen.v, PcStrFnGen.v, PcAdaptersGen.v, PcIniGen.v.
   Side hypotheses the translation theorems need, carried explicitly:
     ascii_text t             (config.rs: Rust trims Unicode white space, the model ASCII white space)
     forallb is_ascii s       (escape_assertion: \b of the regex crate is Unicode-aware)
     length t < fuel          (the loops of parse_buffer: None = not enough fuel)
     small (S (length t))     (key suffixes r2, p2 .. are printed from a u64)
     forall l, ord l = l      (to_text iterates a HashMap of replacements: the result depends on the order -
                               a finding of part 12, Properties/IniGen.v inigen_to_text_any_order_refuted)
   gen_parse_csv_line / gen_csv_field need none. *)
From CV Require Import Model.Base Model.PathMatch Model.Expr Model.Enforce Model.Engine.
From CV Require Import Model.Csv Model.Ini Model.SpecC16 Model.SpecC16e.
From CV Require Import Proofs.BaseP Proofs.C16P Proofs.CsvQP Proofs.EscPrintP.
From CV Require Import Gen.RustStr Gen.StrFnGen PinChecks.PcStrFnGen.
From CV Require Import Gen.RustVec Gen.RustIter Gen.Regex Gen.RegexRt Gen.RegexGen.
From CV Require Import Proofs.RegexP Proofs.EscEvalM Proofs.RegexUtilP PinChecks.PcRegexGen.
From CV Require Import Gen.AdaptersPrims Gen.AdaptersGen Proofs.AdaptersP PinChecks.PcAdaptersGen.
From CV Require Import Gen.Petgraph Gen.IniRt Gen.IniGen Proofs.IniRtP PinChecks.PcIniGen.
From CV Require Import Proofs.SrcTextP.

(* ================================================================== *)
(* A. policy lines (CSV)                                                *)
(* ================================================================== *)

(* a rendered rule, under every spacing / quoting variant, is parsed by the translated parser to the rule *)
Lemma src_c16_parse_render_row : forall fs pt vs,
  ptype_safe pt = true -> forallb csv_safe vs = true -> forallb colfmt_ok fs = true ->
  length fs = S (length vs) ->
  gen_parse_csv_line (render_row fs (pt :: vs)) = Some (Some (pt :: vs)).
Proof.
  intros fs pt vs Hp Hv Hf Hl. apply gen_parse_csv_line_some. apply parse_render_row; assumption.
Qed.

(* the same for quoted values with inner edge white space (C16q) *)
Lemma src_c16q_parse_render_row : forall f0 fs pt vs,
  ptype_safe pt = true -> colfmt_ok f0 = true -> length fs = length vs ->
  forallb (fun fv => col_ok (fst fv) (snd fv)) (combine fs vs) = true ->
  gen_parse_csv_line (render_row (f0 :: fs) (pt :: vs)) = Some (Some (pt :: vs)).
Proof.
  intros f0 fs pt vs Hp Hf Hl Hc. apply gen_parse_csv_line_some. apply parse_render_row_q; assumption.
Qed.

(* white space around the whole line is irrelevant *)
Lemma src_c16_parse_line_pad : forall w1 l w2, all_ws w1 = true -> all_ws w2 = true ->
  gen_parse_csv_line (w1 ++ l ++ w2) = gen_parse_csv_line l.
Proof. intros w1 l w2 H1 H2. rewrite !gen_parse_csv_line_ok, (parse_csv_line_pad w1 l w2 H1 H2). reflexivity. Qed.

(* print ; parse with the translated csv_field and the translated parser: every value csv_field renders
   losslessly *)
Lemma src_c16q_line_file : forall pt vs,
  ptype_safe pt = true -> forallb csv_safe_r vs = true -> vs <> [] ->
  gen_parse_csv_line (src_render_line_file pt vs) = Some (Some (pt :: vs)).
Proof.
  intros pt vs Hp Hv Hne. rewrite src_render_line_file_eq. apply gen_parse_csv_line_some.
  apply parse_render_line_file_q; assumption.
Qed.
Lemma src_c16q_line_string : forall pt vs,
  ptype_safe pt = true -> forallb csv_safe_r vs = true -> vs <> [] ->
  gen_parse_csv_line (src_render_line_string pt vs) = Some (Some (pt :: vs)).
Proof.
  intros pt vs Hp Hv Hne. rewrite src_render_line_string_eq. apply gen_parse_csv_line_some.
  apply parse_render_line_string_q; assumption.
Qed.

(* a policy file - rows in any col_ok layout, blank lines, comment lines, LF or CRLF line ends, last line with
   or without terminator - is loaded by the translated StringAdapter::load_policy / the translated line handler
   of the FileAdapter as exactly its rows, in order *)
Lemma src_c16q_load_file_string : forall items final fl md,
  forallb (fun ib => fitem_ok_q (fst ib)) items = true ->
  (match final with Some it => fitem_ok_q it | None => true end) = true ->
  gen_str_load_policy (render_file items final) fl md =
  Some ((render_file items final, false, fold_left load_line (file_rows items final) md), tt).
Proof.
  intros items final fl md Hi Hf. rewrite gen_str_load_policy_spec, (parsed_lines_file_q items final Hi Hf).
  reflexivity.
Qed.
Lemma src_c16q_load_file_file : forall items final md,
  forallb (fun ib => fitem_ok_q (fst ib)) items = true ->
  (match final with Some it => fitem_ok_q it | None => true end) = true ->
  src_file_load (render_file items final) md = fold_left load_line (file_rows items final) md.
Proof.
  intros items final md Hi Hf. rewrite src_file_load_eq, (parsed_lines_file_q items final Hi Hf). reflexivity.
Qed.

(* whole store: save (over the translated csv_field) ; load (translated) is loading the store's lines *)
Lemma src_c16q_save_load_string : forall md md0 fl, model_text_safe_r md = true ->
  gen_str_load_policy (src_save_text_string md) fl md0 =
  Some ((src_save_text_string md, false, fold_left load_line (text_lines md) md0), tt).
Proof.
  intros md md0 fl Hs. rewrite gen_str_load_policy_spec, src_save_text_string_eq, (save_string_parsed_q md Hs).
  reflexivity.
Qed.
Lemma src_c16q_save_load_file : forall md md0, model_text_safe_r md = true ->
  src_file_load (src_save_text_file md) md0 = fold_left load_line (text_lines md) md0.
Proof.
  intros md md0 Hs. rewrite src_file_load_eq, src_save_text_file_eq, (save_file_parsed_q md Hs). reflexivity.
Qed.

(* ================================================================== *)
(* B. model text (ini)                                                  *)
(* ================================================================== *)

(* what "the translated Config holds configuration c" gives: every lookup through the translated Config::get *)
Lemma conf_ok_get : forall fuel t c, ascii_text t -> length t < fuel -> parse_config t = Some c ->
  exists st, gen_from_str fuel t = Some (ROk st) /\ conf_ok st c /\
    (forall sec opt, plain_key sec -> plain_key opt ->
       gen_get st (sec ++ T "::" ++ opt) = Some (cfg_get (sec, opt) c)) /\
    (forall key, plain_key key -> gen_get st key = Some (cfg_get (DEFAULT_SECTION, key) c)).
Proof.
  intros fuel t c Ha Hf Hp.
  pose proof (gen_from_str_ok fuel t Ha Hf) as H1. pose proof (gen_from_str_get fuel t Ha Hf) as H2.
  rewrite Hp in H1, H2. destruct H1 as (st & Hst & Hok). destruct H2 as (st' & Hst' & Hg1 & Hg2).
  rewrite Hst in Hst'. injection Hst' as <-. exists st.
  split; [exact Hst|]. split; [exact Hok|]. split; [exact Hg1|exact Hg2].
Qed.

(* the plain rendering `[section]` / `key = value` is read by the translated Config::from_str as exactly those
   bindings *)
Lemma src_c16_parse_plain : forall fuel secs, plain_ok secs = true ->
  ascii_text (render_plain secs) -> length (render_plain secs) < fuel ->
  exists st, gen_from_str fuel (render_plain secs) = Some (ROk st) /\ conf_ok st (cfg_of_plain secs) /\
    (forall sec opt, plain_key sec -> plain_key opt ->
       gen_get st (sec ++ T "::" ++ opt) = Some (cfg_get (sec, opt) (cfg_of_plain secs))).
Proof.
  intros fuel secs Hp Ha Hf.
  destruct (conf_ok_get fuel _ _ Ha Hf (parse_plain secs Hp)) as (st & H1 & H2 & H3 & _).
  exists st. split; [exact H1|]. split; [exact H2|exact H3].
Qed.

(* layout independence, exact form: the configuration read is the one the layout stands for *)
Lemma src_c16_parse_layout : forall fuel items, forallb litem_ok items = true ->
  ascii_text (render_layout items) -> length (render_layout items) < fuel ->
  exists st, gen_from_str fuel (render_layout items) = Some (ROk st) /\
    conf_ok st (cfg_of_defs (layout_defs items [])) /\
    (forall sec opt, plain_key sec -> plain_key opt ->
       gen_get st (sec ++ T "::" ++ opt) = Some (cfg_get (sec, opt) (cfg_of_defs (layout_defs items [])))).
Proof.
  intros fuel items Hi Ha Hf.
  destruct (conf_ok_get fuel _ _ Ha Hf (parse_layout_defs items Hi)) as (st & H1 & H2 & H3 & _).
  exists st. split; [exact H1|]. split; [exact H2|exact H3].
Qed.

(* hence two layouts of the same definitions give the same configuration (every lookup through the translated
   get agrees) and the same model, or both fail to load as a model *)
Lemma src_c16_layout_independence : forall fuel fuel' items items',
  forallb litem_ok items = true -> forallb litem_ok items' = true ->
  layout_defs items [] = layout_defs items' [] ->
  ascii_text (render_layout items) -> ascii_text (render_layout items') ->
  length (render_layout items) < fuel -> length (render_layout items') < fuel' ->
  small (S (length (render_layout items))) -> small (S (length (render_layout items'))) ->
  (exists st st', gen_from_str fuel (render_layout items) = Some (ROk st) /\
                  gen_from_str fuel' (render_layout items') = Some (ROk st') /\
                  forall sec opt, plain_key sec -> plain_key opt ->
                    gen_get st (sec ++ T "::" ++ opt) = gen_get st' (sec ++ T "::" ++ opt)) /\
  ((exists m, gen_model_from_str fuel (render_layout items) = Some (ROk m) /\
              gen_model_from_str fuel' (render_layout items') = Some (ROk m)) \/
   (exists e e', gen_model_from_str fuel (render_layout items) = Some (RErr e) /\
                 gen_model_from_str fuel' (render_layout items') = Some (RErr e'))).
Proof.
  intros fuel fuel' items items' Hi Hi' Hd Ha Ha' Hf Hf' Hs Hs'.
  destruct (layout_independence items items' Hi Hi' Hd) as [_ Hm]. split.
  - destruct (src_c16_parse_layout fuel items Hi Ha Hf) as (st & H1 & _ & H3).
    destruct (src_c16_parse_layout fuel' items' Hi' Ha' Hf') as (st' & H1' & _ & H3').
    exists st, st'. split; [exact H1|]. split; [exact H1'|].
    intros sec opt Hsec Hopt. rewrite (H3 sec opt Hsec Hopt), (H3' sec opt Hsec Hopt), Hd. reflexivity.
  - pose proof (gen_model_from_str_ok fuel _ Ha Hf Hs) as H1.
    pose proof (gen_model_from_str_ok fuel' _ Ha' Hf' Hs') as H2.
    rewrite <- Hm in H2. destruct (model_of_text (render_layout items)) as [md|].
    + left. eexists. split; [exact H1|exact H2].
    + right. destruct H1 as [e He]. destruct H2 as [e' He']. exists e, e'. split; assumption.
Qed.

(* at the model level, with continuation breaks in the matchers only: the models the translated loader builds
   from a layout and from the same layout with every break replaced by one blank have the same keys and tokens,
   identical request / policy / role / effect values, and matcher values equal up to blanks outside strings *)
Lemma src_c16_model_layout_breaks : forall fuel fuel' items,
  forallb litem_ok items = true -> breaks_in_matchers_only items [] = true ->
  ascii_text (render_layout items) -> ascii_text (render_layout (map unbreak items)) ->
  length (render_layout items) < fuel -> length (render_layout (map unbreak items)) < fuel' ->
  small (S (length (render_layout items))) -> small (S (length (render_layout (map unbreak items)))) ->
  exists m m', gen_model_from_str fuel (render_layout items) = Some (ROk m) /\
               gen_model_from_str fuel' (render_layout (map unbreak items)) = Some (ROk m') /\
               c16_model_equiv (dump_of (mdefs_of m)) (dump_of (mdefs_of m')) = true.
Proof.
  intros fuel fuel' items Hi Hb Ha Ha' Hf Hf' Hs Hs'.
  destruct (model_layout_breaks items Hi Hb) as (md & md' & H1 & H2 & He).
  pose proof (gen_model_from_str_ok fuel _ Ha Hf Hs) as G1. rewrite H1 in G1.
  pose proof (gen_model_from_str_ok fuel' _ Ha' Hf' Hs') as G2. rewrite H2 in G2.
  eexists. eexists. split; [exact G1|]. split; [exact G2|].
  rewrite !mdefs_of_model_of_mdefs. exact He.
Qed.

(* ================================================================== *)
(* (8) escape_assertion, translated (through the regex semantics)       *)
(* ================================================================== *)
Lemma esc_go_ascii : forall s rw pw, forallb is_ascii s = true -> forallb is_ascii (esc_go rw pw s) = true.
Proof.
  induction s as [|c s IH]; intros rw pw H; [reflexivity|].
  cbn [forallb] in H. apply andb_true_iff in H. destruct H as [Hc Hs].
  cbn [esc_go]. destruct rw.
  - destruct (is_digit c); cbn [forallb].
    + rewrite Hc. apply IH. exact Hs.
    + apply IH. exact Hs.
  - destruct (negb pw && is_rp c && tok_ahead s); cbn [forallb]; rewrite Hc; apply IH; exact Hs.
Qed.
Lemma escape_assertion_ascii : forall s, forallb is_ascii s = true -> forallb is_ascii (escape_assertion s) = true.
Proof. intros s H. apply esc_go_ascii. exact H. Qed.

(* a variable `p.f` becomes the token `p_f` *)
Lemma src_c16_escape_var : forall p f, rp_prefix p = true -> has_site false f = false ->
  forallb is_ascii (p ++ dot :: f) = true ->
  gen_escape_assertion (p ++ dot :: f) = tok p f.
Proof. intros p f Hp Hf Ha. rewrite (gen_escape_assertion_ok _ Ha). apply escape_var; assumption. Qed.

(* text without an r/p-prefixed dotted name at a word boundary is unchanged *)
Lemma src_c16_escape_no_site : forall s, has_site false s = false -> forallb is_ascii s = true ->
  gen_escape_assertion s = s.
Proof. intros s Hs Ha. rewrite (gen_escape_assertion_ok _ Ha). apply escape_no_site. exact Hs. Qed.

(* idempotence, on every ASCII text *)
Lemma src_c16_escape_idem : forall s, forallb is_ascii s = true ->
  gen_escape_assertion (gen_escape_assertion s) = gen_escape_assertion s.
Proof.
  intros s Ha. rewrite (gen_escape_assertion_ok s Ha).
  rewrite (gen_escape_assertion_ok _ (escape_assertion_ascii s Ha)). apply escape_idem.
Qed.

(* C16e: escaping commutes with printing - the translated escape_assertion applied to a printed matcher IS the
   matcher printed with variables as tokens *)
Lemma src_c16e_escape_print : forall e, esc_wf e = true -> forallb is_ascii (print_expr e) = true ->
  gen_escape_assertion (print_expr e) = print_expr_tok e.
Proof. intros e Hw Ha. rewrite (gen_escape_assertion_ok _ Ha). apply escape_print. exact Hw. Qed.

Lemma src_c16e_tok_stable : forall e, esc_wf e = true -> forallb is_ascii (print_expr_tok e) = true ->
  gen_escape_assertion (print_expr_tok e) = print_expr_tok e.
Proof. intros e Hw Ha. rewrite (gen_escape_assertion_ok _ Ha). apply escape_print_tok_stable. exact Hw. Qed.

(* ================================================================== *)
(* (9) to_text ; from_str with the translated printer and the translated loader *)
(* ================================================================== *)
(* the translated Model::to_text writes the plain rendering of the model's definitions *)
Lemma src_c16_to_text_plain : forall ord md, (forall l, ord l = l) -> mdefs_canon md = true -> table_wf md ->
  NoDup (map ad_key (sec_defs md (T "e"))) ->
  gen_to_text ord {| dm_model := model_of_mdefs md |} = Some (render_plain (totext_secs md)).
Proof.
  intros ord md Ho Hc Ht He. rewrite (gen_to_text_ok ord md Ho Hc Ht He), to_text_plain. reflexivity.
Qed.

(* the round trip: print with the translated to_text, load with the translated from_str: the model comes back *)
Lemma src_c16_to_text_roundtrip : forall ord fuel md,
  (forall l, ord l = l) ->
  totext_wf md = true -> mdefs_canon md = true -> table_ok (token_table md) = true -> totext_defs_ok md = true ->
  table_wf md -> NoDup (map ad_key (sec_defs md (T "e"))) ->
  exists t, gen_to_text ord {| dm_model := model_of_mdefs md |} = Some t /\
    (ascii_text t -> length t < fuel -> small (S (length t)) ->
     gen_model_from_str fuel t = Some (ROk {| dm_model := model_of_mdefs md |})).
Proof.
  intros ord fuel md Ho Hw Hc Htb Hd Htw He. exists (to_text md).
  split; [apply gen_to_text_ok; assumption|]. intros Ha Hf Hs.
  pose proof (gen_model_from_str_ok fuel (to_text md) Ha Hf Hs) as H.
  rewrite (to_text_roundtrip_structural md Hw Hc Htb Hd) in H. exact H.
Qed.

(* the same starting from a TEXT: whatever the translated loader built from t, printing it and loading the
   printed text gives the same model again (the structural conditions are about the loaded definitions) *)
Lemma src_c16_load_print_load : forall ord fuel fuel' t m,
  (forall l, ord l = l) ->
  ascii_text t -> length t < fuel -> small (S (length t)) ->
  gen_model_from_str fuel t = Some (ROk m) ->
  totext_wf (mdefs_of m) = true -> table_ok (token_table (mdefs_of m)) = true ->
  totext_defs_ok (mdefs_of m) = true ->
  table_wf (mdefs_of m) -> NoDup (map ad_key (sec_defs (mdefs_of m) (T "e"))) ->
  exists t', gen_to_text ord m = Some t' /\
    (ascii_text t' -> length t' < fuel' -> small (S (length t')) ->
     gen_model_from_str fuel' t' = Some (ROk m)).
Proof.
  intros ord fuel fuel' t m Ho Ha Hf Hs Hm.
  pose proof (gen_model_from_str_ok fuel t Ha Hf Hs) as H.
  destruct (model_of_text t) as [md|] eqn:Emd.
  - rewrite Hm in H. injection H as ->. rewrite mdefs_of_model_of_mdefs.
    intros Hw Htb Hd Htw He.
    assert (Hc : mdefs_canon md = true).
    { unfold model_of_text in Emd. destruct (parse_config t) as [c|]; [|discriminate].
      injection Emd as <-. apply load_model_canon. }
    apply src_c16_to_text_roundtrip; assumption.
  - destruct H as [e He]. rewrite Hm in He. discriminate.
Qed.

(* reading back what to_text wrote yields, definition by definition, what add_def makes of the written values *)
Lemma src_c16_to_text_reload : forall fuel md, totext_wf md = true ->
  ascii_text (to_text md) -> length (to_text md) < fuel -> small (S (length (to_text md))) ->
  gen_model_from_str fuel (to_text md) = Some (ROk {| dm_model := model_of_mdefs (reload_model md) |}).
Proof.
  intros fuel md Hw Ha Hf Hs. pose proof (gen_model_from_str_ok fuel (to_text md) Ha Hf Hs) as H.
  rewrite (to_text_reload md Hw) in H. exact H.
Qed.

(* ================================================================== *)
(* instances for the non-vacuity examples of Properties/C16src.v *)
(* the definitions a model text loads as (model level), and the translated loader's representation of them *)
Definition src_ex_md (t : text) : mdefs := match model_of_text t with Some md => md | None => [] end.
Definition src_ex_dm (t : text) : dmodel_state := {| dm_model := model_of_mdefs (src_ex_md t) |}.
(* every hypothesis of src_c16_to_text_roundtrip, as one executable check *)
Definition src_totext_hyps_b (fuel : nat) (md : mdefs) : bool :=
  totext_wf md && mdefs_canon md && table_ok (token_table md) && totext_defs_ok md &&
  table_wfb md && text_nodupb (map ad_key (sec_defs md (T "e"))) &&
  ascii_textb (to_text md) && Nat.ltb (length (to_text md)) fuel.
(* an empty store with the policy types of the example file, to load it into *)
Definition src_ex_csv_store0 : model :=
  [ (s_p, [ (T "p", {| a_value := []; a_tokens := []; a_policy := []; a_handle := HOwn |});
            (T "p2", {| a_value := []; a_tokens := []; a_policy := []; a_handle := HOwn |}) ]);
    (s_g, [ (T "g", {| a_value := []; a_tokens := []; a_policy := []; a_handle := HOwn |}) ]) ].
