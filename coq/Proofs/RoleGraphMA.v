(* Conservativity: the role manager WITH matching functions (Model/RoleGraphM.v)
   run on an embedded plain history is the plain role manager
   (Model/RoleGraph.v): same states (up to the embedding), same flags, same
   answers. *)
From CV Require Import Model.Base Model.RoleGraph Model.RoleGraphM
     Proofs.ListAux Proofs.BaseP Proofs.RoleGraphP Proofs.GenBfsP.
From Coq Require Import Lia.

(* ---- the embedding of a plain state ---- *)
Definition link_edge (p : text * text) : medge :=
  {| e_src := fst p; e_dst := snd p; e_kind := KLink |}.
Definition embed_g (g : dgraph) : mgraph :=
  {| m_nodes := nodes g; m_edges := map link_edge (edges g) |}.
Definition embed_kg (kg : text * dgraph) : text * mgraph := (fst kg, embed_g (snd kg)).
Definition embed (r : rmgr) : mrm :=
  {| r_doms := map embed_kg r; r_rfn := None; r_dfn := None |}.

(* the simulation relation of the task text, and its functional form *)
Definition sim (r : rmgr) (m : mrm) : Prop :=
  r_rfn m = None /\ r_dfn m = None /\
  map fst (r_doms m) = map fst r /\
  map (fun kg => m_nodes (snd kg)) (r_doms m) = map (fun kg => nodes (snd kg)) r /\
  map (fun kg => m_edges (snd kg)) (r_doms m) =
  map (fun kg => map (fun '(a, b) => {| e_src := a; e_dst := b; e_kind := KLink |}) (edges (snd kg))) r.

Lemma link_edge_pat : forall p,
  link_edge p = (fun '(a, b) => {| e_src := a; e_dst := b; e_kind := KLink |}) p.
Proof. intros [a b]. reflexivity. Qed.

Lemma sim_embed : forall r, sim r (embed r).
Proof.
  intros r. unfold sim, embed. cbn [r_rfn r_dfn r_doms].
  split; [reflexivity|]. split; [reflexivity|].
  rewrite !map_map. split; [|split]; apply map_ext; intros [k g]; cbn [embed_kg fst snd embed_g m_nodes m_edges];
    try reflexivity.
  apply map_ext. intros p. apply link_edge_pat.
Qed.

(* ---- assoc lists under the embedding ---- *)
Lemma assoc_embed : forall k r, assoc k (map embed_kg r) = option_map embed_g (assoc k r).
Proof.
  intros k r. induction r as [|[k' g] r IH]; cbn [map embed_kg fst snd assoc option_map]; [reflexivity|].
  destruct (teqb k k'); [reflexivity|exact IH].
Qed.

Lemma assoc_set_embed : forall k g r,
  assoc_set k (embed_g g) (map embed_kg r) = map embed_kg (assoc_set k g r).
Proof.
  intros k g r. induction r as [|[k' g'] r IH]; cbn [map embed_kg fst snd assoc_set]; [reflexivity|].
  destruct (teqb k k'); cbn [map embed_kg fst snd]; [reflexivity|]. rewrite IH. reflexivity.
Qed.

Definition graph_or_empty (r : rmgr) (dk : text) : dgraph :=
  match assoc dk r with Some g => g | None => empty_graph end.

Lemma mgraph_of_embed : forall r dk, mgraph_of (embed r) dk = embed_g (graph_or_empty r dk).
Proof.
  intros r dk. unfold mgraph_of, embed, graph_or_empty. cbn [r_doms]. rewrite assoc_embed.
  destruct (assoc dk r); reflexivity.
Qed.

Lemma set_dom_embed : forall r dk g, set_dom (embed r) dk (embed_g g) = embed (assoc_set dk g r).
Proof.
  intros r dk g. unfold set_dom, embed. cbn [r_doms r_rfn r_dfn]. rewrite assoc_set_embed. reflexivity.
Qed.

(* ---- graph operations under the embedding ---- *)
Lemma m_has_node_embed : forall g n, m_has_node (embed_g g) n = has_node g n.
Proof. reflexivity. Qed.

Lemma m_create_node_embed : forall g n, m_create_node None (embed_g g) n = embed_g (add_node g n).
Proof.
  intros g n. unfold m_create_node, add_node. rewrite m_has_node_embed.
  destruct (has_node g n); reflexivity.
Qed.

Lemma filter_edge_embed : forall a b es,
  filter (fun e => teqb (e_src e) a && teqb (e_dst e) b) (map link_edge es) =
  map link_edge (filter (fun p => peqb p (a, b)) es).
Proof.
  intros a b es. induction es as [|[x y] es IH]; cbn [map filter]; [reflexivity|].
  unfold peqb at 1. cbn [link_edge e_src e_dst fst snd].
  destruct (teqb x a && teqb y b); cbn [map]; rewrite IH; reflexivity.
Qed.

Lemma peqb_sym : forall p q, peqb p q = peqb q p.
Proof.
  intros p q. unfold peqb. rewrite (teqb_sym (fst p)), (teqb_sym (snd p)). reflexivity.
Qed.

Lemma memb_filter_peqb : forall p es,
  memb peqb p es = match filter (fun q => peqb q p) es with [] => false | _ :: _ => true end.
Proof.
  intros p es. unfold memb. induction es as [|q es IH]; cbn [existsb filter]; [reflexivity|].
  rewrite (peqb_sym p q). destruct (peqb q p); cbn [orb]; [reflexivity|exact IH].
Qed.

Lemma m_find_edge_embed : forall g a b,
  m_find_edge (embed_g g) a b = if has_edge g a b then Some KLink else None.
Proof.
  intros g a b. unfold m_find_edge, has_edge. cbn [embed_g m_edges].
  rewrite filter_edge_embed, memb_filter_peqb.
  destruct (filter (fun p => peqb p (a, b)) (edges g)) as [|p ps]; reflexivity.
Qed.

Lemma g_add_link_embed : forall g a b,
  (let g2 := m_create_node None (m_create_node None (embed_g g) a) b in
   match m_find_edge g2 a b with
   | Some KLink => g2
   | _ => m_add_edge g2 a b KLink
   end) = embed_g (g_add_link g a b).
Proof.
  intros g a b. cbv zeta. rewrite !m_create_node_embed, m_find_edge_embed. unfold g_add_link.
  destruct (has_edge (add_node (add_node g a) b) a b); reflexivity.
Qed.

Lemma filter_all_id : forall {A} (f : A -> bool) l, (forall x, In x l -> f x = true) -> filter f l = l.
Proof.
  intros A f l. induction l as [|x l IH]; intros H; cbn [filter]; [reflexivity|].
  rewrite (H x) by (left; reflexivity). f_equal. apply IH. intros y Hy. apply H. right. exact Hy.
Qed.

Lemma remove_first_embed : forall a b es, NoDup es ->
  remove_first_edge a b (map link_edge es) =
  map link_edge (filter (fun e => negb (peqb e (a, b))) es).
Proof.
  intros a b es Hnd. induction Hnd as [|[x y] es Hx Hnd IH]; cbn [map filter remove_first_edge]; [reflexivity|].
  unfold peqb at 1. cbn [link_edge e_src e_dst fst snd].
  destruct (teqb x a && teqb y b) eqn:E; cbn [negb map].
  - apply andb_true_iff in E. destruct E as [E1 E2]. apply teqb_eq in E1. apply teqb_eq in E2. subst x y.
    f_equal. symmetry. apply filter_all_id. intros p Hp.
    apply negb_true_iff, peqb_neq. intros ->. contradiction.
  - rewrite IH. reflexivity.
Qed.

(* ---- one step ---- *)
Lemma matched_domains_embed : forall r d,
  matched_domains (embed r) d = match assoc (dom_key d) r with Some _ => [dom_key d] | None => [] end.
Proof.
  intros r d. unfold matched_domains, embed. cbn [r_dfn r_doms]. rewrite assoc_embed.
  destruct (assoc (dom_key d) r); reflexivity.
Qed.

Lemma domain_has_role_embed : forall r n d,
  domain_has_role (embed r) n d =
  match graph_of r d with Some g => has_node g n | None => false end.
Proof.
  intros r n d. unfold domain_has_role. rewrite matched_domains_embed. unfold graph_of.
  destruct (assoc (dom_key d) r) as [g|] eqn:E; cbn [existsb]; [|reflexivity].
  rewrite mgraph_of_embed. unfold graph_or_empty. rewrite E.
  cbn [embed r_rfn]. rewrite m_has_node_embed, !orb_false_r. reflexivity.
Qed.

Lemma m_add_link_embed : forall r a b d,
  m_add_link (embed r) a b d = embed (add_link r a b d).
Proof.
  intros r a b d. unfold m_add_link, add_link. destruct (teqb a b); [reflexivity|].
  cbv zeta. rewrite mgraph_of_embed.
  change (r_rfn (embed r)) with (@None mfun).
  pose proof (g_add_link_embed (graph_or_empty r (dom_key d)) a b) as H. cbv zeta in H.
  rewrite H. rewrite set_dom_embed. reflexivity.
Qed.

Lemma m_delete_link_embed : forall r a b d, wf r ->
  m_delete_link (embed r) a b d = (embed (fst (delete_link r a b d)), snd (delete_link r a b d)).
Proof.
  intros r a b d Hwf. unfold m_delete_link, delete_link. destruct (teqb a b); [reflexivity|].
  rewrite !domain_has_role_embed.
  destruct (graph_of r d) as [g|] eqn:Hg; cbn [negb orb fst snd]; [|reflexivity].
  rewrite <- negb_andb. destruct (has_node g a && has_node g b) eqn:E; cbn [negb fst snd]; [|reflexivity].
  apply andb_true_iff in E. destruct E as [Ea Eb].
  cbv zeta. rewrite mgraph_of_embed. change (r_rfn (embed r)) with (@None mfun).
  unfold graph_or_empty. unfold graph_of in Hg. rewrite Hg.
  rewrite !m_create_node_embed.
  assert (H1 : add_node g a = g) by (unfold add_node; rewrite Ea; reflexivity).
  rewrite H1.
  assert (H2 : add_node g b = g) by (unfold add_node; rewrite Eb; reflexivity).
  rewrite H2. cbn [embed_g m_nodes m_edges].
  rewrite remove_first_embed.
  - change {| m_nodes := nodes g;
              m_edges := map link_edge (filter (fun e => negb (peqb e (a, b))) (edges g)) |}
      with (embed_g (g_del_link g a b)).
    rewrite set_dom_embed. reflexivity.
  - assert (Hgw : wf_graph g) by (apply (wf_graph_of r d g Hwf); exact Hg).
    destruct Hgw as (_ & He & _). exact He.
Qed.

Lemma mstep_embed : forall r o, wf r ->
  mstep (embed r) (mop_of o) = (embed (fst (lstep r o)), snd (lstep r o)).
Proof.
  intros r [a b d|a b d|] Hwf; cbn [mop_of mstep lstep fst snd].
  - rewrite m_add_link_embed. reflexivity.
  - apply m_delete_link_embed, Hwf.
  - reflexivity.
Qed.

(* ---- whole histories ---- *)
Lemma mrun_embed_gen : forall h r, wf r ->
  fold_left (fun m o => fst (mstep m o)) (map mop_of h) (embed r) =
  embed (fold_left (fun m o => fst (lstep m o)) h r).
Proof.
  induction h as [|o h IH]; intros r Hwf; cbn [map fold_left]; [reflexivity|].
  rewrite (mstep_embed r o Hwf). cbn [fst]. apply IH. apply wf_lstep, Hwf.
Qed.

Theorem mrun_embed : forall h, mrun (map mop_of h) = embed (lrun h).
Proof. intros h. unfold mrun, lrun. apply (mrun_embed_gen h [] wf_nil). Qed.

Theorem mrun_sim : forall h, sim (lrun h) (mrun (map mop_of h)).
Proof. intros h. rewrite mrun_embed. apply sim_embed. Qed.

Fixpoint lrun_flags (m : rmgr) (h : list lop) : list bool :=
  match h with
  | [] => []
  | o :: h' => snd (lstep m o) :: lrun_flags (fst (lstep m o)) h'
  end.

Lemma flags_embed_gen : forall h r, wf r ->
  mrun_flags (embed r) (map mop_of h) = lrun_flags r h.
Proof.
  induction h as [|o h IH]; intros r Hwf; cbn [map mrun_flags lrun_flags]; [reflexivity|].
  rewrite (mstep_embed r o Hwf). f_equal. apply IH. apply wf_lstep, Hwf.
Qed.

Theorem conservative_flags : forall h, mrun_flags empty_mrm (map mop_of h) = lrun_flags [] h.
Proof. intros h. apply (flags_embed_gen h [] wf_nil). Qed.

(* ---- the successor iterator and the BFS ---- *)
Lemma out_edges_embed : forall g n,
  out_edges (embed_g g) n = map link_edge (filter (fun e => teqb (fst e) n) (edges g)).
Proof.
  intros g n. unfold out_edges. cbn [embed_g m_edges].
  induction (edges g) as [|[x y] es IH]; cbn [map filter]; [reflexivity|].
  cbn [link_edge e_src fst]. destruct (teqb x n); cbn [map]; rewrite IH; reflexivity.
Qed.

Lemma in_edges_embed : forall g n,
  in_edges (embed_g g) n = map link_edge (filter (fun e => teqb (snd e) n) (edges g)).
Proof.
  intros g n. unfold in_edges. cbn [embed_g m_edges].
  induction (edges g) as [|[x y] es IH]; cbn [map filter]; [reflexivity|].
  cbn [link_edge e_dst snd]. destruct (teqb y n); cbn [map]; rewrite IH; reflexivity.
Qed.

Lemma filter_is_link_embed : forall es, filter is_link (map link_edge es) = map link_edge es.
Proof.
  intros es. induction es as [|p es IH]; cbn [map filter]; [reflexivity|].
  cbn [is_link link_edge e_kind ekind_eqb]. rewrite IH. reflexivity.
Qed.

Lemma m_succs_embed : forall g n, m_succs false (embed_g g) n = succs g n.
Proof.
  intros g n. unfold m_succs, link_succs, succs. cbn [negb].
  rewrite out_edges_embed, filter_is_link_embed, map_map. apply map_ext.
  intros p. reflexivity.
Qed.

Lemma m_bfs_visit_gbfs : forall withm g fuel maxd q disc depth rem,
  m_bfs_visit fuel withm g maxd q disc depth rem =
  gbfs_visit fuel (m_succs withm g) maxd q disc depth rem.
Proof.
  intros withm g. induction fuel as [|fuel IH]; intros maxd q disc depth rem; [reflexivity|].
  cbn [m_bfs_visit]. rewrite gbfs_visit_S. destruct (Nat.leb maxd depth); [reflexivity|].
  destruct q as [|v q']; [reflexivity|]. f_equal. apply IH.
Qed.

Theorem m_bfs_visit_embed : forall g fuel maxd q disc depth rem,
  m_bfs_visit fuel false (embed_g g) maxd q disc depth rem = bfs_visit fuel g maxd q disc depth rem.
Proof.
  intros g fuel maxd q disc depth rem. rewrite m_bfs_visit_gbfs, bfs_visit_gbfs.
  apply gbfs_visit_ext. apply m_succs_embed.
Qed.

Lemma m_bfs_from_embed : forall g maxd a, m_bfs_from false (embed_g g) maxd a = bfs_from g maxd a.
Proof. intros g maxd a. unfold m_bfs_from, bfs_from. apply m_bfs_visit_embed. Qed.

(* ---- queries ---- *)
Lemma find_eq_name : forall n l,
  find (fun w => teqb w n || false) l = if memb teqb n l then Some n else None.
Proof.
  intros n l. unfold memb. induction l as [|w l IH]; cbn [find existsb]; [reflexivity|].
  rewrite orb_false_r, (teqb_sym n w). destruct (teqb w n) eqn:E; cbn [orb]; [|exact IH].
  apply teqb_eq in E. subst. reflexivity.
Qed.

Lemma existsb_eq_name : forall b l,
  existsb (fun w => teqb w b || false) l = memb teqb b l.
Proof.
  intros b l. unfold memb. induction l as [|w l IH]; cbn [existsb]; [reflexivity|].
  rewrite orb_false_r, (teqb_sym b w), IH. reflexivity.
Qed.

Lemma m_has_link_in_embed : forall maxd r g a b,
  m_has_link_in maxd (embed r) (embed_g g) a b =
  if has_node g a then memb teqb b (bfs_from g maxd a) else false.
Proof.
  intros maxd r g a b. unfold m_has_link_in, start_node. cbn [embed r_rfn ap_fn is_some_fn].
  rewrite m_has_node_embed. destruct (has_node g a) eqn:E.
  - rewrite m_bfs_from_embed. apply existsb_eq_name.
  - cbn [embed_g m_nodes]. rewrite find_eq_name. unfold has_node in E. rewrite E. reflexivity.
Qed.

Theorem m_has_link_embed : forall maxd r a b d,
  m_has_link maxd (embed r) a b d = has_link maxd r a b d.
Proof.
  intros maxd r a b d. unfold m_has_link, has_link. destruct (teqb a b); [reflexivity|].
  rewrite matched_domains_embed. unfold graph_of.
  destruct (assoc (dom_key d) r) as [g|] eqn:E; cbn [existsb]; [|reflexivity].
  rewrite mgraph_of_embed. unfold graph_or_empty. rewrite E.
  rewrite m_has_link_in_embed, orb_false_r. reflexivity.
Qed.

Lemma first_matching_embed : forall r g n,
  first_matching_node (embed r) (embed_g g) n = if has_node g n then Some n else None.
Proof.
  intros r g n. unfold first_matching_node. cbn [embed r_rfn ap_fn embed_g m_nodes].
  apply find_eq_name.
Qed.

Theorem m_get_roles_embed : forall r n d, m_get_roles (embed r) n d = get_roles r n d.
Proof.
  intros r n d. unfold m_get_roles, get_roles. rewrite matched_domains_embed. unfold graph_of.
  destruct (assoc (dom_key d) r) as [g|] eqn:E; cbn [flat_map]; [|reflexivity].
  rewrite mgraph_of_embed. unfold graph_or_empty. rewrite E.
  rewrite first_matching_embed, app_nil_r. destruct (has_node g n); [|reflexivity].
  cbn [embed r_rfn is_some_fn]. apply m_succs_embed.
Qed.

Theorem m_get_users_embed : forall r n d, m_get_users (embed r) n d = get_users r n d.
Proof.
  intros r n d. unfold m_get_users, get_users. rewrite matched_domains_embed. unfold graph_of.
  destruct (assoc (dom_key d) r) as [g|] eqn:E; cbn [flat_map]; [|reflexivity].
  rewrite mgraph_of_embed. unfold graph_or_empty. rewrite E.
  rewrite first_matching_embed, app_nil_r. destruct (has_node g n); [|reflexivity].
  rewrite in_edges_embed, map_map. unfold preds. apply map_ext. intros p. reflexivity.
Qed.

(* ---- the four conservativity theorems ---- *)
Theorem conservative_has : forall h maxd a b d,
  m_has_link maxd (mrun (map mop_of h)) a b d = has_link maxd (lrun h) a b d.
Proof. intros h maxd a b d. rewrite mrun_embed. apply m_has_link_embed. Qed.

Theorem conservative_roles : forall h n d,
  m_get_roles (mrun (map mop_of h)) n d = get_roles (lrun h) n d.
Proof. intros h n d. rewrite mrun_embed. apply m_get_roles_embed. Qed.

Theorem conservative_users : forall h n d,
  m_get_users (mrun (map mop_of h)) n d = get_users (lrun h) n d.
Proof. intros h n d. rewrite mrun_embed. apply m_get_users_embed. Qed.

Theorem conservative_answer : forall h maxd q,
  manswer maxd (mrun (map mop_of h)) q = answer maxd (lrun h) q.
Proof.
  intros h maxd [a b d|n d|n d]; cbn [manswer answer]; f_equal.
  - apply conservative_has.
  - apply conservative_roles.
  - apply conservative_users.
Qed.

(* non-vacuity: a history with adds, a duplicate, deletes (one failing) and a clear *)
Definition ex_cons_history : list lop :=
  [ LAdd (T "a") (T "b") None; LAdd (T "b") (T "c") None; LAdd (T "a") (T "b") None;
    LDel (T "x") (T "y") None; LAdd (T "c") (T "d") (Some (T "dom"));
    LDel (T "a") (T "b") None; LAdd (T "a") (T "c") None ].
Example ex_cons_flags :
  mrun_flags empty_mrm (map mop_of ex_cons_history) = [true; true; true; false; true; true; true]
  /\ lrun_flags [] ex_cons_history = [true; true; true; false; true; true; true].
Proof. vm_compute. split; reflexivity. Qed.
Example ex_cons_has :
  m_has_link 10 (mrun (map mop_of ex_cons_history)) (T "a") (T "c") None = true /\
  has_link 10 (lrun ex_cons_history) (T "a") (T "c") None = true /\
  m_has_link 10 (mrun (map mop_of ex_cons_history)) (T "a") (T "b") None = false.
Proof. vm_compute. repeat split; reflexivity. Qed.
