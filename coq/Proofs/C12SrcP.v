(* C12 at the level of the TRANSLATED SOURCE: the theorems of Properties/C12.v that go through the enforcer's public
   calls (load_filtered_policy, load_policy, save_policy, the constructor) restated about `src_step` / `src_ask` /
   `src_new_enforcer` (Proofs/SrcStepP.v, Proofs/SrcQueryP.v: Gen/EnforcerGen.v generated each run from
   src/enforcer.rs).  The adapter-level theorems of C12 (c12_load_filtered, c12_pred_holds, ...: ad0_load_filtered
   against filter_spec) are about the adapters' loaders, not about `step`, and are not restated.
   Proofs: the C12 theorems (Proofs/C12P.v) composed with src_step_eq & co. *)
From CV Require Import Model.Base Model.Effector Model.RoleGraph Model.PathMatch
     Model.Expr Model.Enforce Model.Engine Model.SpecC09 Model.SpecC12.
From CV Require Import Proofs.BaseP Proofs.C09P Proofs.C12P.
From CV Require Import Proofs.SrcStepP Proofs.SrcQueryP.

(* through the public calls: the policy after the translated load_filtered_policy is the filter of the policy after
   the translated load_policy (every section, every ptype), is_filtered() reports the mark (set iff some stored
   line of section p/g was rejected), the store is untouched, no panic *)
Lemma src_c12_enforcer_load_filtered : forall ptab s L fp fg,
  stored_lines (e_adapter s) = Some L ->
  let s' := fst (src_step s (OLoadFiltered fp fg)) in
  (forall sec pt, m_get_policy (e_model s') sec pt =
                  filter (keeps (sec_filter fp fg sec))
                         (m_get_policy (e_model (fst (src_step s OLoad))) sec pt)) /\
  src_ask ptab s' QIsFiltered = AnsBool (existsb (line_out fp fg) L) /\
  stored_lines (e_adapter s') = Some L /\
  snd (src_step s (OLoadFiltered fp fg)) <> Panic.
Proof.
  intros ptab s L fp fg HL. cbv zeta. rewrite !src_step_eq, src_ask_eq.
  exact (step_load_filtered_spec ptab s L fp fg HL).
Qed.

(* a full load clears the mark *)
Lemma src_c12_full_load_resets : forall ptab s,
  is_bundled (e_adapter s) = true ->
  src_ask ptab (fst (src_step s OLoad)) QIsFiltered = AnsBool false.
Proof. intros ptab s Hb. rewrite src_ask_eq, src_step_eq. apply full_load_resets_flag. exact Hb. Qed.

(* a filtered enforcer cannot overwrite the store: save_policy panics and changes nothing *)
Lemma src_c12_save_guard : forall s, ad_is_filtered (e_adapter s) = true -> src_step s OSave = (s, Panic).
Proof. intros s Hf. rewrite src_step_eq. apply save_guard. exact Hf. Qed.

(* the constructor performs no load on an adapter already marked filtered *)
Lemma src_c12_constructor_skips_load : forall d a w, ad_is_filtered a = true ->
  e_model (fst (src_new_enforcer d a w)) = d_model d /\
  e_adapter (fst (src_new_enforcer d a w)) = a /\
  snd (src_new_enforcer d a w) = lerr_out (snd (new_raw d a w)) true.
Proof. intros d a w Hf. rewrite src_new_enforcer_eq. apply constructor_skips_load. exact Hf. Qed.
