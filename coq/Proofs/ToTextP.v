(* C16 (9): Model::to_text followed by DefaultModel::from_str. *)
From CV Require Import Model.Base Model.PathMatch Model.Expr Model.Csv Model.Ini Model.SpecC16.
From CV Require Import Proofs.ListAux Proofs.BaseP Proofs.CsvP Proofs.IniP Proofs.EscP.
From Coq Require Import Lia.

(* ------------------------------------------------------------------ *)
(* to_text writes a plain rendering                                     *)
(* ------------------------------------------------------------------ *)
Lemma render_lines_app : forall a b, render_lines (a ++ b) = render_lines a ++ render_lines b.
Proof. intros a b. unfold render_lines. apply flat_map_app. Qed.
Lemma render_layout_app : forall a b, render_layout (a ++ b) = render_layout a ++ render_layout b.
Proof. intros a b. unfold render_layout. rewrite flat_map_app. apply render_lines_app. Qed.

Definition kv_line (kv : text * text) : text := fst kv ++ T " = " ++ snd kv ++ nlt.
Lemma render_plain_defs : forall kvs,
  render_layout (map (fun kv : text * text => LDef [] (fst kv) (T " ") (T " ") (snd kv) [] []) kvs)
  = flat_map kv_line kvs.
Proof.
  induction kvs as [|kv kvs IH]; [reflexivity|].
  cbn [map flat_map]. rewrite <- IH.
  change (LDef [] (fst kv) (T " ") (T " ") (snd kv) [] [] :: ?l)
    with ([LDef [] (fst kv) (T " ") (T " ") (snd kv) [] []] ++ l).
  rewrite (render_layout_app [LDef [] (fst kv) (T " ") (T " ") (snd kv) [] []]). f_equal.
  unfold render_layout, render_lines, kv_line. cbn [flat_map item_lines def_lines app].
  rewrite !app_nil_r. rewrite <- !app_assoc. reflexivity.
Qed.
Lemma render_plain_cons : forall n kvs secs,
  render_plain ((n, kvs) :: secs) = (lbracket :: n ++ [rbracket]) ++ nlt ++ flat_map kv_line kvs ++ render_plain secs.
Proof.
  intros n kvs secs. unfold render_plain, plain_items. cbn [flat_map fst snd].
  rewrite render_layout_app.
  change (LHeader [] n [] :: ?l) with ([LHeader [] n []] ++ l).
  rewrite render_layout_app. rewrite render_plain_defs.
  unfold render_layout at 1, render_lines. cbn [flat_map item_lines app].
  rewrite ?app_nil_r. rewrite <- ?app_assoc. cbn [app]. rewrite <- ?app_assoc. reflexivity.
Qed.
Lemma render_plain_nil : render_plain [] = [].
Proof. reflexivity. Qed.

Lemma write_defs_kvs : forall tb ds rw, write_defs tb ds rw = flat_map kv_line (totext_kvs tb rw ds).
Proof.
  intros tb ds rw. unfold write_defs, totext_kvs.
  induction ds as [|d ds IH]; [reflexivity|]. cbn [map flat_map]. rewrite IH.
  unfold kv_line, written_value. cbn [fst snd]. rewrite <- !app_assoc. reflexivity.
Qed.

Theorem to_text_plain : forall m, to_text m = render_plain (totext_secs m).
Proof.
  intros m. unfold to_text, totext_secs. cbv zeta.
  rewrite !write_defs_kvs.
  destruct (assoc (T "g") m) as [gs|]; cbn [app]; rewrite ?write_defs_kvs;
    rewrite !render_plain_cons, render_plain_nil; rewrite ?app_nil_r; rewrite <- ?app_assoc;
    reflexivity.
Qed.

(* ------------------------------------------------------------------ *)
(* the configuration read back                                          *)
(* ------------------------------------------------------------------ *)
Lemma pair_eqb_eq : forall a b, pair_eqb a b = true <-> a = b.
Proof.
  intros [a1 a2] [b1 b2]. unfold pair_eqb. cbn [fst snd]. rewrite andb_true_iff, !teqb_eq.
  split; [intros [-> ->]; reflexivity|intros E; inversion E; auto].
Qed.
Lemma pair_eqb_refl : forall a, pair_eqb a a = true.
Proof. intros a. apply pair_eqb_eq. reflexivity. Qed.

Lemma cfg_of_plain_fold : forall secs acc,
  fold_left (fun c sd => fold_left (fun c kv => cfg_set (sec_or_default (fst sd), fst kv) (snd kv) c) (snd sd) c)
            secs acc
  = fold_left (fun c kv => cfg_set (fst kv) (snd kv) c) (flat_cfg secs) acc.
Proof.
  induction secs as [|sd secs IH]; intros acc; [reflexivity|].
  cbn [fold_left]. unfold flat_cfg. cbn [flat_map]. rewrite fold_left_app. fold (flat_cfg secs).
  rewrite <- IH. f_equal.
  generalize (snd sd) as kvs. intros kvs. revert acc.
  induction kvs as [|kv kvs IHk]; intros acc; [reflexivity|]. cbn [map fold_left fst snd]. apply IHk.
Qed.

Lemma cfg_set_fresh : forall k v c, existsb (fun kv => pair_eqb k (fst kv)) c = false ->
  cfg_set k v c = c ++ [(k, v)].
Proof.
  intros k v c. induction c as [|[k' v'] c IH]; intros H; [reflexivity|].
  cbn [existsb fst] in H. apply orb_false_iff in H. destruct H as [H1 H2].
  cbn [cfg_set app]. rewrite H1. rewrite IH by exact H2. reflexivity.
Qed.
Lemma fold_cfg_set_nodup : forall l acc, cfg_nodup l = true ->
  (forall kv, In kv l -> existsb (fun x => pair_eqb (fst kv) (fst x)) acc = false) ->
  fold_left (fun c kv => cfg_set (fst kv) (snd kv) c) l acc = acc ++ l.
Proof.
  induction l as [|[k v] l IH]; intros acc Hnd Hacc; [rewrite app_nil_r; reflexivity|].
  cbn [cfg_nodup] in Hnd. apply andb_true_iff in Hnd. destruct Hnd as [Hk Hnd].
  apply negb_true_iff in Hk.
  cbn [fold_left fst snd]. rewrite cfg_set_fresh by (apply (Hacc (k, v)); left; reflexivity).
  rewrite IH; [rewrite <- app_assoc; reflexivity|exact Hnd|].
  intros kv Hin. rewrite existsb_app. rewrite (Hacc kv) by (right; exact Hin).
  cbn [existsb fst orb]. rewrite orb_false_r.
  destruct (pair_eqb (fst kv) k) eqn:E; [|reflexivity].
  apply pair_eqb_eq in E. subst k. rewrite existsb_exists in Hk || idtac.
  exfalso. assert (Hex : existsb (fun x => pair_eqb (fst kv) (fst x)) l = true).
  { apply existsb_exists. exists kv. split; [exact Hin|apply pair_eqb_refl]. }
  rewrite Hex in Hk. discriminate.
Qed.
Lemma cfg_of_plain_flat : forall secs, cfg_nodup (flat_cfg secs) = true ->
  cfg_of_plain secs = flat_cfg secs.
Proof.
  intros secs H. unfold cfg_of_plain. rewrite cfg_of_plain_fold.
  rewrite fold_cfg_set_nodup; [reflexivity|exact H|]. intros kv _. reflexivity.
Qed.

(* lookups in the flattened configuration *)
Lemma cfg_get_app : forall k a b,
  cfg_get k (a ++ b) = match cfg_get k a with Some v => Some v | None => cfg_get k b end.
Proof.
  intros k a b. induction a as [|[k' v'] a IH]; [reflexivity|].
  cbn [app cfg_get]. destruct (pair_eqb k k'); [reflexivity|exact IH].
Qed.
Lemma cfg_get_sec : forall s k n kvs,
  cfg_get (s, k) (map (fun kv : text * text => ((n, fst kv), snd kv)) kvs)
  = if teqb s n then assoc k kvs else None.
Proof.
  intros s k n kvs. induction kvs as [|[k' v'] kvs IH]; cbn [map cfg_get assoc fst snd].
  - destruct (teqb s n); reflexivity.
  - unfold pair_eqb. cbn [fst snd]. destruct (teqb s n); cbn [andb]; [|exact IH].
    destruct (teqb k k'); [reflexivity|exact IH].
Qed.

Lemma assoc_kvs_app : forall k (a b : list (text * text)),
  ~ In k (map fst a) -> assoc k (a ++ b) = assoc k b.
Proof.
  intros k a b H. induction a as [|[k' v'] a IH]; [reflexivity|].
  cbn [app assoc]. cbn [map fst] in H.
  assert (E : teqb k k' = false) by (apply teqb_neq; intros E; apply H; left; symmetry; exact E).
  rewrite E. apply IH. intros Hin. apply H. right. exact Hin.
Qed.

Lemma nodupb_NoDup : forall l, nodupb l = true -> NoDup l.
Proof.
  induction l as [|x l IH]; intros H; [constructor|]. cbn [nodupb] in H.
  apply andb_true_iff in H. destruct H as [H1 H2]. apply negb_true_iff in H1.
  constructor; [apply memb_not_In, H1|apply IH, H2].
Qed.

(* load_section over a configuration in which the section `sec` holds exactly
   the bindings `done ++ todo`, keyed sec_i in order *)
Lemma load_section_kvs : forall c sec (alls : list (text * text)),
  (forall k, cfg_get (sec_name sec, k) c = assoc k alls) ->
  forall todo done i fuel,
    alls = done ++ todo ->
    map fst todo = map (sec_key sec) (seq i (length todo)) ->
    ~ In (sec_key sec (i + length todo)) (map fst alls) ->
    (forall k, In k (map fst todo) -> ~ In k (map fst done)) ->
    NoDup (map fst todo) ->
    length todo < fuel ->
    load_section fuel c sec i = reload_defs sec todo.
Proof.
  intros c sec alls Hget. induction todo as [|[k v] todo IH]; intros done i fuel Halls Hkeys Hfresh Hdisj Hnd Hfuel.
  - destruct fuel as [|f]; [cbn in Hfuel; lia|]. cbn [load_section reload_defs].
    fold (sec_key sec i). rewrite Hget. cbn [length] in Hfresh. rewrite Nat.add_0_r in Hfresh.
    apply assoc_None in Hfresh. rewrite Hfresh. reflexivity.
  - destruct fuel as [|f]; [cbn in Hfuel; lia|]. cbn [length] in *.
    cbn [seq map fst] in Hkeys. inversion Hkeys as [[Hk Hrest]].
    cbn [load_section reload_defs]. fold (sec_key sec i). rewrite Hget, Halls.
    rewrite assoc_kvs_app by (apply Hdisj; left; exact Hk).
    cbn [assoc]. rewrite <- Hk, teqb_refl.
    destruct (add_def sec k v) as [d|]; [|reflexivity]. f_equal.
    apply (IH (done ++ [(k, v)]) (S i) f).
    + rewrite <- app_assoc. exact Halls.
    + exact Hrest.
    + replace (S i + length todo) with (i + S (length todo)) by lia. exact Hfresh.
    + intros k' Hin. rewrite map_app, in_app_iff. cbn [map fst In].
      inversion Hnd as [|x xs Hnotin Hnd']; subst x xs.
      intros [H|[H|[]]].
      * revert H. apply Hdisj. right. exact Hin.
      * subst k'. contradiction.
    + inversion Hnd; assumption.
    + lia.
Qed.

Lemma list_eqb_teqb_eq : forall a b, list_eqb teqb a b = true -> a = b.
Proof. intros a b H. apply (list_eqb_eq teqb teqb_eq), H. Qed.

Lemma NoDup_map_seq_S : forall (f : nat -> text) n, NoDup (map f (seq 1 (S n))) ->
  NoDup (map f (seq 1 n)) /\ ~ In (f (1 + n)) (map f (seq 1 n)).
Proof.
  intros f n H. rewrite seq_S, map_app in H. cbn [map] in H. split.
  - apply NoDup_app_l in H. exact H.
  - intros Hin. apply (NoDup_app_disj _ _ _ H Hin). left. reflexivity.
Qed.

Lemma load_section_sec : forall c sec ds tb rw fuel,
  (forall k, cfg_get (sec_name sec, k) c = assoc k (totext_kvs tb rw ds)) ->
  sec_keys_ok sec ds = true -> length ds < fuel ->
  load_section fuel c sec 1 = reload_defs sec (totext_kvs tb rw ds).
Proof.
  intros c sec ds tb rw fuel Hget Hok Hfuel. unfold sec_keys_ok in Hok.
  apply andb_true_iff in Hok. destruct Hok as [Hkeys Hnd].
  apply list_eqb_teqb_eq in Hkeys. apply nodupb_NoDup in Hnd.
  apply NoDup_map_seq_S in Hnd. destruct Hnd as [Hnd Hfresh].
  assert (Hfst : map fst (totext_kvs tb rw ds) = map ad_key ds).
  { unfold totext_kvs. rewrite map_map. reflexivity. }
  assert (Hlen : length (totext_kvs tb rw ds) = length ds).
  { unfold totext_kvs. apply map_length. }
  apply (load_section_kvs c sec (totext_kvs tb rw ds) Hget (totext_kvs tb rw ds) []).
  - reflexivity.
  - rewrite Hfst, Hlen. exact Hkeys.
  - rewrite Hfst, Hlen, Hkeys. exact Hfresh.
  - intros k _ [].
  - rewrite Hfst, Hkeys. exact Hnd.
  - rewrite Hlen. exact Hfuel.
Qed.

(* ------------------------------------------------------------------ *)
(* the round trip                                                       *)
(* ------------------------------------------------------------------ *)
Lemma flat_cfg_length_ge : forall secs n kvs, In (n, kvs) secs -> length kvs <= length (flat_cfg secs).
Proof.
  induction secs as [|sd secs IH]; intros n kvs Hin; [destruct Hin|].
  unfold flat_cfg. cbn [flat_map]. rewrite app_length, map_length. fold (flat_cfg secs).
  destruct Hin as [E|Hin].
  - subst sd. cbn [snd]. lia.
  - specialize (IH _ _ Hin). lia.
Qed.

Definition sname (sd : text * list (text * text)) : text := sec_or_default (fst sd).
Lemma cfg_get_flat_notin : forall secs s k, ~ In s (map sname secs) -> cfg_get (s, k) (flat_cfg secs) = None.
Proof.
  induction secs as [|sd secs IH]; intros s k H; [reflexivity|].
  unfold flat_cfg. cbn [flat_map]. fold (flat_cfg secs). rewrite cfg_get_app, cfg_get_sec.
  cbn [map] in H.
  assert (E : teqb s (sec_or_default (fst sd)) = false).
  { apply teqb_neq. intros E. apply H. left. symmetry. exact E. }
  rewrite E. apply IH. intros Hin. apply H. right. exact Hin.
Qed.
Lemma cfg_get_flat_In : forall secs n kvs k, NoDup (map sname secs) -> In (n, kvs) secs ->
  cfg_get (sec_or_default n, k) (flat_cfg secs) = assoc k kvs.
Proof.
  induction secs as [|sd secs IH]; intros n kvs k Hnd Hin; [destruct Hin|].
  unfold flat_cfg. cbn [flat_map]. fold (flat_cfg secs). rewrite cfg_get_app, cfg_get_sec.
  cbn [map] in Hnd. inversion Hnd as [|x xs Hnotin Hnd']; subst x xs.
  destruct Hin as [E|Hin].
  - subst sd. cbn [fst snd]. rewrite teqb_refl.
    destruct (assoc k kvs) as [v|]; [reflexivity|].
    apply cfg_get_flat_notin. exact Hnotin.
  - assert (E : teqb (sec_or_default n) (sec_or_default (fst sd)) = false).
    { apply teqb_neq. intros E. apply Hnotin. unfold sname at 1. rewrite <- E.
      apply (in_map sname) in Hin. exact Hin. }
    rewrite E. apply IH; assumption.
Qed.

Lemma totext_secs_names : forall m, NoDup (map sname (totext_secs m)).
Proof.
  intros m. unfold totext_secs. cbv zeta.
  destruct (assoc (T "g") m); cbn [app map sname fst]; apply nodupb_NoDup; vm_compute; reflexivity.
Qed.

Lemma totext_secs_In : forall m sec, In sec model_secs -> sec <> T "g" \/ assoc (T "g") m <> None ->
  In (sec_name sec, totext_kvs (token_table m) (rw_of sec) (sec_defs m sec)) (totext_secs m).
Proof.
  intros m sec Hsec Hg. unfold totext_secs. cbv zeta.
  cbn in Hsec. destruct Hsec as [E|[E|[E|[E|[E|[]]]]]]; subst sec.
  - left. reflexivity.
  - right. left. reflexivity.
  - apply in_or_app. right. apply in_or_app. right. left. reflexivity.
  - apply in_or_app. right. apply in_or_app. right. right. left. reflexivity.
  - apply in_or_app. right. apply in_or_app. left.
    destruct Hg as [Hg|Hg]; [exfalso; apply Hg; reflexivity|].
    unfold sec_defs. change ["g"%char] with (T "g") in *.
    destruct (assoc (T "g") m) as [gs|]; [left; reflexivity|contradiction].
Qed.

Lemma sec_name_default : forall sec, sec_or_default (sec_name sec) = sec_name sec.
Proof.
  intros sec. unfold sec_name.
  repeat match goal with |- context [if ?b then _ else _] => destruct b end; reflexivity.
Qed.

Lemma totext_cfg_get : forall m sec k, In sec model_secs ->
  cfg_get (sec_name sec, k) (flat_cfg (totext_secs m))
  = assoc k (totext_kvs (token_table m) (rw_of sec) (sec_defs m sec)).
Proof.
  intros m sec k Hsec.
  destruct (teqb sec (T "g")) eqn:Eg; [destruct (assoc (T "g") m) as [gs|] eqn:Ea|].
  - rewrite <- sec_name_default. apply cfg_get_flat_In; [apply totext_secs_names|].
    apply totext_secs_In; [exact Hsec|]. right. rewrite Ea. discriminate.
  - apply teqb_eq in Eg. subst sec. unfold sec_defs. rewrite Ea. cbn [totext_kvs map assoc].
    apply cfg_get_flat_notin. unfold totext_secs. cbv zeta. rewrite Ea.
    cbn [app map sname fst]. intros Hin. apply (memb_In (sec_name (T "g"))) in Hin.
    vm_compute in Hin. discriminate.
  - rewrite <- sec_name_default. apply cfg_get_flat_In; [apply totext_secs_names|].
    apply totext_secs_In; [exact Hsec|]. left. apply teqb_neq, Eg.
Qed.

(* reading back what to_text wrote yields, definition by definition, what
   add_def makes of the written values *)
Theorem to_text_reload : forall m, totext_wf m = true ->
  model_of_text (to_text m) = Some (reload_model m).
Proof.
  intros m Hwf. unfold totext_wf in Hwf. rewrite !andb_true_iff in Hwf.
  destruct Hwf as [[Hplain Hnd] Hkeys].
  unfold model_of_text. rewrite to_text_plain, parse_plain by exact Hplain.
  rewrite cfg_of_plain_flat by exact Hnd. cbn [option_map]. f_equal.
  unfold load_model, reload_model. fold model_secs. cbv zeta.
  apply flat_map_ext_in || idtac.
  assert (H : forall sec, In sec model_secs ->
            load_section (S (length (flat_cfg (totext_secs m)))) (flat_cfg (totext_secs m)) sec 1
            = reload_defs sec (totext_kvs (token_table m) (rw_of sec) (sec_defs m sec))).
  { intros sec Hsec. apply load_section_sec.
    - intros k. apply totext_cfg_get, Hsec.
    - rewrite forallb_forall in Hkeys. apply Hkeys, Hsec.
    - destruct (teqb sec (T "g")) eqn:Eg.
      + apply teqb_eq in Eg. subst sec. unfold sec_defs.
        destruct (assoc (T "g") m) as [gs|] eqn:Ea; [|cbn; lia].
        assert (Hin : In (sec_name (T "g"), totext_kvs (token_table m) (rw_of (T "g")) (sec_defs m (T "g")))
                         (totext_secs m)).
        { apply totext_secs_In; [exact Hsec|]. right. rewrite Ea. discriminate. }
        apply flat_cfg_length_ge in Hin. unfold totext_kvs in Hin. rewrite map_length in Hin.
        unfold sec_defs in Hin. rewrite Ea in Hin. lia.
      + assert (Hin : In (sec_name sec, totext_kvs (token_table m) (rw_of sec) (sec_defs m sec))
                         (totext_secs m)).
        { apply totext_secs_In; [exact Hsec|]. left. apply teqb_neq, Eg. }
        apply flat_cfg_length_ge in Hin. unfold totext_kvs in Hin. rewrite map_length in Hin. lia. }
  revert H. generalize model_secs as secs. induction secs as [|sec secs IH]; intros H; [reflexivity|].
  cbn [flat_map]. rewrite (H sec) by (left; reflexivity). f_equal.
  apply IH. intros s Hs. apply H. right. exact Hs.
Qed.

(* the round trip proper: when every written value is read back as the
   definition it came from *)
Theorem to_text_roundtrip : forall m, totext_wf m = true -> reload_model m = m ->
  model_of_text (to_text m) = Some m.
Proof. intros m Hwf Hfix. rewrite to_text_reload by exact Hwf. rewrite Hfix. reflexivity. Qed.

(* ------------------------------------------------------------------ *)
(* the documented models                                                *)
(* ------------------------------------------------------------------ *)
Definition lines_text (ls : list string) : text := flat_map (fun l => T l ++ nlt) ls.
Definition basic_model_text : text := lines_text
  [ "[request_definition]"; "r = sub, obj, act"; "[policy_definition]"; "p = sub, obj, act";
    "[policy_effect]"; "e = some(where (p.eft == allow))";
    "[matchers]"; "m = r.sub == p.sub && r.obj == p.obj && r.act == p.act" ]%string.
Definition rbac_model_text : text := lines_text
  [ "[request_definition]"; "r = sub, obj, act"; "[policy_definition]"; "p = sub, obj, act";
    "[role_definition]"; "g = _, _";
    "[policy_effect]"; "e = some(where (p.eft == allow))";
    "[matchers]"; "m = g(r.sub, p.sub) && r.obj == p.obj && r.act == p.act" ]%string.
Definition rbac_domains_model_text : text := lines_text
  [ "[request_definition]"; "r = sub, dom, obj, act"; "[policy_definition]"; "p = sub, dom, obj, act";
    "[role_definition]"; "g = _, _, _";
    "[policy_effect]"; "e = some(where (p.eft == allow))";
    "[matchers]"; "m = g(r.sub, p.sub, r.dom) && r.dom == p.dom && r.obj == p.obj && r.act == p.act" ]%string.
Definition priority_model_text : text := lines_text
  [ "[request_definition]"; "r = sub, obj, act"; "[policy_definition]"; "p = sub, obj, act, eft";
    "[role_definition]"; "g = _, _";
    "[policy_effect]"; "e = priority(p.eft) || deny";
    "[matchers]"; "m = g(r.sub, p.sub) && r.obj == p.obj && r.act == p.act" ]%string.
Definition deny_model_text : text := lines_text
  [ "[request_definition]"; "r = sub, obj, act"; "[policy_definition]"; "p = sub, obj, act, eft";
    "[policy_effect]"; "e = some(where (p.eft == allow)) && !some(where (p.eft == deny))";
    "[matchers]"; "m = r.sub == p.sub && keyMatch(r.obj, p.obj) && regexMatch(r.act, p.act)" ]%string.
Definition multi_model_text : text := lines_text
  [ "[request_definition]"; "r = sub, act, obj"; "r2 = sub, act"; "";
    "[policy_definition]"; "p = sub, act, obj"; "p2 = sub, act, eft"; "";
    "[role_definition]"; "g = _, _"; "g2 = _,_"; "";
    "[policy_effect]"; "e = some(where (p.eft == allow))"; "e2 = !some(where (p.eft == deny))"; "";
    "[matchers]"; "m = r.sub == p.sub && g(p.act, r.act) && r.obj == p.obj";
    "m2 = r2.sub == p2.sub && g2(p2.act, r2.act)" ]%string.
Definition abac_model_text : text := lines_text
  [ "[request_definition]"; "r = sub, obj, act"; "[policy_definition]"; "p = sub, obj, act";
    "[policy_effect]"; "e = some(where (p.eft == allow))";
    "[matchers]"; "m = r.sub == r.obj.owner || r.obj in [""data2"", ""data3""]" ]%string.

Example totext_basic : totext_roundtrip_ok basic_model_text = true.
Proof. vm_compute. reflexivity. Qed.
Example totext_rbac : totext_roundtrip_ok rbac_model_text = true.
Proof. vm_compute. reflexivity. Qed.
Example totext_rbac_domains : totext_roundtrip_ok rbac_domains_model_text = true.
Proof. vm_compute. reflexivity. Qed.
Example totext_priority : totext_roundtrip_ok priority_model_text = true.
Proof. vm_compute. reflexivity. Qed.
Example totext_deny : totext_roundtrip_ok deny_model_text = true.
Proof. vm_compute. reflexivity. Qed.
Example totext_multi : totext_roundtrip_ok multi_model_text = true.
Proof. vm_compute. reflexivity. Qed.
Example totext_abac : totext_roundtrip_ok abac_model_text = true.
Proof. vm_compute. reflexivity. Qed.

(* what to_text writes for the multi-section model *)
Example totext_multi_text :
  option_map to_text (model_of_text multi_model_text) = Some (lines_text
  [ "[request_definition]"; "r = sub, act, obj"; "r2 = sub, act";
    "[policy_definition]"; "p = sub, act, obj"; "p2 = sub, act, eft";
    "[role_definition]"; "g = _, _"; "g2 = _,_";
    "[policy_effect]"; "e = some(where (p.eft == allow))"; "e2 = !some(where (p.eft == deny))";
    "[matchers]"; "m = r.sub == p.sub && g(p.act, r.act) && r.obj == p.obj";
    "m2 = r2.sub == p2.sub && g2(p2.act, r2.act)" ]%string).
Proof. vm_compute. reflexivity. Qed.

(* ---- where the round trip fails (replace-based un-escaping) ---- *)
(* a token occurring inside a longer word (here inside a string literal) is
   un-escaped too, and escape_assertion does not bring it back *)
Definition substring_model_text : text := lines_text
  [ "[request_definition]"; "r = sub, obj, act"; "[policy_definition]"; "p = sub, obj, act";
    "[policy_effect]"; "e = some(where (p.eft == allow))";
    "[matchers]"; "m = r.sub == p.sub && r.obj == ""user_obj""" ]%string.
Example totext_substring_refuted : totext_roundtrip_ok substring_model_text = false.
Proof. vm_compute. reflexivity. Qed.
Example totext_substring_matcher :
  match model_of_text substring_model_text with
  | Some m => option_map (fun m' => map ad_value (sec_defs m' (T "m"))) (model_of_text (to_text m))
  | None => None
  end = Some [T "r_sub == p_sub && r_obj == ""user.obj"""].
Proof. vm_compute. reflexivity. Qed.
(* a request field named like a prefix (p, r, p2, ...) whose property is read:
   `r.p.x` is stored as `r_p.x`, written as `r.p.x` and read back as `r_p_x` *)
Definition field_p_model_text : text := lines_text
  [ "[request_definition]"; "r = p, obj"; "[policy_definition]"; "p = sub, obj";
    "[policy_effect]"; "e = some(where (p.eft == allow))";
    "[matchers]"; "m = (r.p).name == p.sub && r.obj == p.obj" ]%string.
Example totext_field_p_ok : totext_roundtrip_ok field_p_model_text = true.
Proof. vm_compute. reflexivity. Qed.
