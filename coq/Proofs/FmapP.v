(* Lemmas for rs2coq part 16 (PinChecks/PcFmapGen.v): the run-time `Regex::new` of src/model/function_map.rs.
     A. the parser of Gen/RegexSyntax.v on the texts of the model's class (Model/PathMatch.v parse_regex):
        `parse_regex t = Some atoms -> rx_compile t = RxOk (whole_rx atoms)`;
     B. the matcher of Gen/Regex.v on `whole_rx atoms` = PathMatch.amatch (leftmost-first captures included);
     C. find_iter / replace_all / replace_all-with-a-closure, step by step, and the rewriting regexes of key_get2,
        key_get3, key_match4, key_match5 (`:[^/]+`, the lazy brace form with or without a group, the lone brace) against
        the text functions of the model (colon_names, brace_lazy, escape_lbrace);
     D. Captures against the capture list of amatch; the loops of key_get2/3 and key_match4;
     E. texts the crate refuses: a `{` that does not start a counted repetition after a prefix of the class. *)
From CV Require Import Model.Base Model.PathMatch.
From CV Require Import Gen.RustStr Gen.RustVec Gen.RustIter Gen.Regex Gen.RegexRt Gen.RegexSyntax Gen.FmapRt.
From CV Require Import Proofs.BaseP Proofs.RegexP Proofs.C15P Proofs.RustVecP.
From Coq Require Import Lia.

(* [^/] *)
Definition NS : regex := RSet true [IChar "/"%char].

(* ================================================================== *)
(* A. the parser on the model's class                                   *)

(* what each atom of PathMatch.parse_atoms is, as tokens .. *)
Definition atom_toks (a : atom) : list rtok :=
  match a with
  | AByte b => [KAtom (is_ascii b) (RChar b)]
  | ASeg cap lz =>
    (if cap then [KOpen true] else []) ++ [KAtom true NS; KQuant QPlus] ++
    (if lz then [KQuant QOpt] else []) ++ (if cap then [KClose] else [])
  | AAny => [KAtom true RAny; KQuant QStar]
  end.
(* .. and as an expression; n = the number of capture groups opened before it *)
Definition ncap (a : atom) : nat := match a with ASeg true _ => 1 | _ => 0 end.
Definition atom_rx (n : nat) (a : atom) : regex :=
  match a with
  | AByte b => RChar b
  | ASeg cap lz => let body := RPlus (negb lz) NS in if cap then RGroup (S n) body else body
  | AAny => RStar true RAny
  end.
Definition atom_kind (a : atom) : akind :=
  match a with
  | AByte b => if is_ascii b then AkRep else AkNoRep
  | ASeg true _ => AkRep
  | ASeg false lz => if lz then AkNoRep else AkQ QPlus NS
  | AAny => AkQ QStar RAny
  end.
Fixpoint ncaps (p : list atom) : nat := match p with [] => 0 | a :: r => ncap a + ncaps r end.
Fixpoint atoms_rx (n : nat) (p : list atom) (tail : regex) : regex :=
  match p with
  | [] => tail
  | a :: r => RCat (atom_rx n a) (atoms_rx (n + ncap a) r tail)
  end.
(* ^ atoms $ *)
Definition whole_rx (p : list atom) : regex := RCat RStart (atoms_rx 0 p REnd).

Lemma plain_lex : forall c, is_plain c = true ->
  (Ascii.eqb c "\"%char = false /\ Ascii.eqb c "["%char = false /\ Ascii.eqb c "("%char = false /\
   Ascii.eqb c "{"%char = false) /\ lex1 c = KAtom (is_ascii c) (RChar c).
Proof.
  intros c. destruct c as [[] [] [] [] [] [] [] []]; vm_compute; intros H; try discriminate H; repeat split.
Qed.

Lemma lex_other : forall c tl,
  Ascii.eqb c "\"%char = false -> Ascii.eqb c "["%char = false -> Ascii.eqb c "("%char = false ->
  Ascii.eqb c "{"%char = false -> rx_lex LNorm (c :: tl) = lex1 c :: rx_lex LNorm tl.
Proof. intros c tl H1 H2 H3 H4. cbn [rx_lex]. rewrite H1, H2, H3, H4. reflexivity. Qed.

Lemma lex_plain : forall c tl, is_plain c = true ->
  rx_lex LNorm (c :: tl) = KAtom (is_ascii c) (RChar c) :: rx_lex LNorm tl.
Proof.
  intros c tl H. destruct (plain_lex c H) as [[H1 [H2 [H3 H4]]] H5].
  rewrite lex_other by assumption. rewrite H5. reflexivity.
Qed.

Lemma lex_seg_cap_lazy : forall r, rx_lex LNorm (ns_plus_cap_lazy ++ r) = atom_toks (ASeg true true) ++ rx_lex LNorm r.
Proof. reflexivity. Qed.
Lemma lex_seg_cap : forall r, rx_lex LNorm (ns_plus_cap ++ r) = atom_toks (ASeg true false) ++ rx_lex LNorm r.
Proof. reflexivity. Qed.
Lemma lex_seg : forall r, rx_lex LNorm (ns_plus ++ r) = atom_toks (ASeg false false) ++ rx_lex LNorm r.
Proof. reflexivity. Qed.
Lemma lex_dotstar : forall r, rx_lex LNorm ("."%char :: star :: r) = atom_toks AAny ++ rx_lex LNorm r.
Proof. reflexivity. Qed.
Lemma lex_esc_lbrace : forall r, rx_lex LNorm ("\"%char :: lbrace :: r) = atom_toks (AByte lbrace) ++ rx_lex LNorm r.
Proof. reflexivity. Qed.

Lemma lex_atoms : forall f s atoms, parse_atoms f s = Some atoms ->
  forall rest, rx_lex LNorm (s ++ rest) = flat_map atom_toks atoms ++ rx_lex LNorm rest.
Proof.
  induction f as [|f IH]; intros s atoms H rest; [discriminate|].
  destruct s as [|c s']; [injection H as <-; reflexivity|].
  cbn [parse_atoms] in H.
  destruct (strip_prefix ns_plus_cap_lazy (c :: s')) as [r|] eqn:E1.
  { apply strip_prefix_spec in E1. rewrite E1. destruct (parse_atoms f r) as [q|] eqn:Eq; [|discriminate].
    injection H as <-. rewrite <- app_assoc, lex_seg_cap_lazy, (IH _ _ Eq). cbn [flat_map]. rewrite <- app_assoc. reflexivity. }
  destruct (strip_prefix ns_plus_cap (c :: s')) as [r|] eqn:E2.
  { apply strip_prefix_spec in E2. rewrite E2. destruct (parse_atoms f r) as [q|] eqn:Eq; [|discriminate].
    injection H as <-. rewrite <- app_assoc, lex_seg_cap, (IH _ _ Eq). cbn [flat_map]. rewrite <- app_assoc. reflexivity. }
  destruct (strip_prefix ns_plus (c :: s')) as [r|] eqn:E3.
  { apply strip_prefix_spec in E3. rewrite E3. destruct (parse_atoms f r) as [q|] eqn:Eq; [|discriminate].
    injection H as <-. rewrite <- app_assoc, lex_seg, (IH _ _ Eq). cbn [flat_map]. rewrite <- app_assoc. reflexivity. }
  destruct s' as [|d r].
  - destruct (is_plain c) eqn:Hc; [|discriminate]. injection H as <-.
    cbn [app flat_map atom_toks]. rewrite lex_plain by exact Hc. reflexivity.
  - destruct (Ascii.eqb c "."%char && Ascii.eqb d star) eqn:Ed.
    { apply andb_true_iff in Ed. destruct Ed as [Ec Ed]. apply Ascii.eqb_eq in Ec. apply Ascii.eqb_eq in Ed. subst c d.
      destruct (parse_atoms f r) as [q|] eqn:Eq; [|discriminate]. injection H as <-.
      cbn [app]. rewrite lex_dotstar, (IH _ _ Eq). cbn [flat_map]. rewrite <- app_assoc. reflexivity. }
    destruct (Ascii.eqb c "\"%char && Ascii.eqb d lbrace) eqn:Eb.
    { apply andb_true_iff in Eb. destruct Eb as [Ec Eb]. apply Ascii.eqb_eq in Ec. apply Ascii.eqb_eq in Eb. subst c d.
      destruct (parse_atoms f r) as [q|] eqn:Eq; [|discriminate]. injection H as <-.
      cbn [app]. rewrite lex_esc_lbrace, (IH _ _ Eq). cbn [flat_map]. rewrite <- app_assoc. reflexivity. }
    destruct (is_plain c) eqn:Hc; [|discriminate].
    destruct (parse_atoms f (d :: r)) as [q|] eqn:Eq; [|discriminate]. injection H as <-.
    cbn [app]. rewrite lex_plain by exact Hc. change (d :: r ++ rest) with ((d :: r) ++ rest). rewrite (IH _ _ Eq). reflexivity.
Qed.

(* the parser's state after the tokens of the atoms: they are appended to the current concatenation *)
Fixpoint atom_items (n : nat) (p : list atom) : list (regex * akind) :=
  match p with
  | [] => []
  | a :: r => (atom_rx n a, atom_kind a) :: atom_items (n + ncap a) r
  end.

Lemma run_atom : forall a ts st, length (p_stack st) < rx_max_depth ->
  rx_run (atom_toks a ++ ts) st =
  rx_run ts {| p_stack := p_stack st; p_alts := p_alts st;
               p_cat := (atom_rx (p_n st) a, atom_kind a) :: p_cat st; p_n := p_n st + ncap a |}.
Proof.
  intros a ts [stk alts cat n] Hd. cbn [p_stack p_alts p_cat p_n] in *.
  assert (Hleb : Nat.leb rx_max_depth (length stk) = false) by (apply Nat.leb_gt; exact Hd).
  destruct a as [b|cap lz|].
  - cbn [atom_toks app rx_run set_cat p_stack p_alts p_cat p_n atom_rx atom_kind ncap]. rewrite Nat.add_0_r.
    destruct (is_ascii b); reflexivity.
  - destruct cap, lz; cbn [atom_toks app rx_run set_cat p_stack p_alts p_cat p_n atom_rx atom_kind ncap f_cap f_alts f_cat negb];
      rewrite ?Hleb, ?Nat.add_0_r, ?Nat.add_1_r; reflexivity.
  - cbn [atom_toks app rx_run set_cat p_stack p_alts p_cat p_n atom_rx atom_kind ncap]. rewrite Nat.add_0_r. reflexivity.
Qed.

Lemma run_atoms : forall p ts st, length (p_stack st) < rx_max_depth ->
  rx_run (flat_map atom_toks p ++ ts) st =
  rx_run ts {| p_stack := p_stack st; p_alts := p_alts st;
               p_cat := rev (atom_items (p_n st) p) ++ p_cat st; p_n := p_n st + ncaps p |}.
Proof.
  induction p as [|a p IH]; intros ts st Hd.
  - cbn [flat_map app atom_items rev ncaps]. rewrite Nat.add_0_r. destruct st; reflexivity.
  - cbn [flat_map]. rewrite <- app_assoc, run_atom by exact Hd. rewrite IH by exact Hd.
    cbn [p_stack p_alts p_cat p_n atom_items rev ncaps]. rewrite <- app_assoc, Nat.add_assoc. reflexivity.
Qed.

Lemma fold_cat_items : forall n p z,
  fold_left (fun acc x => RCat (fst x) acc) (rev (atom_items n p)) z = atoms_rx n p z.
Proof.
  intros n p. revert n. induction p as [|a p IH]; intros n z; [reflexivity|].
  cbn [atom_items rev atoms_rx]. rewrite fold_left_app. cbn [fold_left fst]. rewrite IH. reflexivity.
Qed.

Theorem rx_compile_atoms : forall t atoms, parse_regex t = Some atoms -> rx_compile t = RxOk (whole_rx atoms).
Proof.
  intros t atoms H. unfold parse_regex in H.
  destruct t as [|c r]; [discriminate|]. destruct (Ascii.eqb c "^"%char) eqn:Ec; [|discriminate].
  apply Ascii.eqb_eq in Ec. subst c. destruct (rev r) as [|d body_rev] eqn:Er; [discriminate|].
  destruct (Ascii.eqb d "$"%char) eqn:Ed; [|discriminate]. apply Ascii.eqb_eq in Ed. subst d.
  assert (Hr : r = rev body_rev ++ ["$"%char]).
  { rewrite <- (rev_involutive r), Er. reflexivity. }
  rewrite Hr. unfold rx_compile.
  change (rx_lex LNorm ("^"%char :: rev body_rev ++ ["$"%char]))
    with (KAtom false RStart :: rx_lex LNorm (rev body_rev ++ ["$"%char])).
  rewrite (lex_atoms _ _ _ H).
  change (rx_lex LNorm ["$"%char]) with [KAtom false REnd].
  cbn [rx_run]. unfold set_cat, p_init. cbn [p_stack p_alts p_cat p_n].
  rewrite run_atoms by (cbn [p_stack length]; unfold rx_max_depth; lia).
  cbn [rx_run]. unfold set_cat. cbn [rx_run p_stack p_alts p_cat p_n mk_alt fold_left mk_cat].
  rewrite fold_left_app, fold_cat_items. reflexivity.
Qed.

(* ================================================================== *)
(* B. the matcher on whole_rx = PathMatch.amatch                        *)

(* lazy star of a byte class = a scan that stops as soon as what follows accepts *)
Fixpoint lazy_set (p : ascii -> bool) (k : cont) (b s : text) (c : caps) : option mres :=
  match k b s c with
  | Some r => Some r
  | None => match s with
            | x :: s' => if p x then lazy_set p k (x :: b) s' c else None
            | [] => None
            end
  end.
Lemma star_loop_lazy_set : forall neg items k fuel b s c, length s < fuel ->
  star_loop (mt (RSet neg items)) false k fuel b s c = lazy_set (class_mem neg items) k b s c.
Proof.
  intros neg items k. induction fuel as [|f IH]; intros b s c Hf; [lia|].
  cbn [star_loop]. rewrite mt_set. destruct s as [|x s']; cbn [lazy_set].
  - destruct (k b [] c); reflexivity.
  - destruct (k b (x :: s') c); [reflexivity|]. destruct (class_mem neg items x); [|reflexivity].
    cbn [length] in *. replace (Nat.ltb (length s') (S (length s'))) with true by (symmetry; apply Nat.ltb_lt; lia).
    rewrite IH by lia. reflexivity.
Qed.
Lemma mt_lazy_set : forall neg items b s c k,
  mt (RStar false (RSet neg items)) b s c k = lazy_set (class_mem neg items) k b s c.
Proof. intros. rewrite mt_star. apply star_loop_lazy_set. lia. Qed.

Lemma ns_mem : forall x, class_mem true [IChar "/"%char] x = negb (Ascii.eqb x slash).
Proof. intros x. unfold class_mem. cbn [existsb item_mem]. rewrite orb_false_r. destruct (Ascii.eqb x "/"%char) eqn:E; unfold slash; rewrite E; reflexivity. Qed.
Lemma any_mem : forall x, class_mem true [IChar (ascii_of_nat 10)] x = negb (Ascii.eqb x lf).
Proof. intros x. unfold class_mem. cbn [existsb item_mem]. rewrite orb_false_r. unfold lf. destruct (Ascii.eqb x (ascii_of_nat 10)); reflexivity. Qed.

(* the captures of groups n+1, n+2, .. with the texts ts, latest first *)
Definition caps_of (n : nat) (ts : list text) : caps := rev (combine (seq (S n) (length ts)) ts).
Lemma caps_of_cons : forall n t ts c, caps_of n (t :: ts) ++ c = caps_of (S n) ts ++ (S n, t) :: c.
Proof. intros n t ts c. unfold caps_of. cbn [length seq combine rev]. rewrite <- app_assoc. reflexivity. Qed.

(* what the rest of the expression answers at a position, in terms of amatch *)
Definition mres_of (n : nat) (b s : text) (c : caps) (o : option (list text)) : option mres :=
  match o with Some ts => Some (rev s ++ b, [], caps_of n ts ++ c) | None => None end.

Lemma rev_cons_app : forall (x : ascii) s b, rev (x :: s) ++ b = rev s ++ x :: b.
Proof. intros x s b. cbn [rev]. rewrite <- app_assoc. reflexivity. Qed.

Definition ns_p (x : ascii) : bool := negb (Ascii.eqb x slash).
Definition any_p (x : ascii) : bool := negb (Ascii.eqb x lf).

Section SegMt.
  Variables (cap : bool) (rest_m : text -> option (list text)) (n : nat) (b0 : text) (c : caps) (K : cont).
  (* K = what follows the segment (closing its group first, if it has one), at a position reached after reading
     acc (reversed) from b0 *)
  Hypothesis HK : forall acc s,
    K (acc ++ b0) s c =
    match seg_fin cap rest_m acc s with
    | Some ts => Some (rev s ++ acc ++ b0, [], caps_of n ts ++ c)
    | None => None
    end.

  Lemma seg_greedy : forall s acc, acc <> [] ->
    star_set ns_p K (acc ++ b0) s c =
    match seg_go cap false rest_m acc s with
    | Some ts => Some (rev s ++ acc ++ b0, [], caps_of n ts ++ c)
    | None => None
    end.
  Proof.
    induction s as [|x s IH]; intros acc Hacc.
    - cbn [star_set seg_go]. rewrite HK. destruct acc; [contradiction|reflexivity].
    - cbn [star_set seg_go]. unfold ns_p at 1. destruct (Ascii.eqb x slash); cbn [negb].
      + rewrite HK. destruct acc; [contradiction|reflexivity].
      + change (x :: acc ++ b0) with ((x :: acc) ++ b0). rewrite IH by discriminate.
        destruct (seg_go cap false rest_m (x :: acc) s) as [ts|].
        * rewrite rev_cons_app. reflexivity.
        * rewrite HK. destruct acc; [contradiction|reflexivity].
  Qed.

  Lemma seg_lazy : forall s acc, acc <> [] ->
    lazy_set ns_p K (acc ++ b0) s c =
    match seg_go cap true rest_m acc s with
    | Some ts => Some (rev s ++ acc ++ b0, [], caps_of n ts ++ c)
    | None => None
    end.
  Proof.
    induction s as [|x s IH]; intros acc Hacc.
    - cbn [lazy_set seg_go]. rewrite HK. destruct acc; [contradiction|]. destruct (seg_fin cap rest_m (a :: acc) []); reflexivity.
    - cbn [lazy_set seg_go]. rewrite HK. unfold ns_p. destruct (Ascii.eqb x slash); cbn [negb].
      + destruct acc; [contradiction|]. destruct (seg_fin cap rest_m (a :: acc) (x :: s)); reflexivity.
      + destruct acc as [|a acc]; [contradiction|].
        destruct (seg_fin cap rest_m (a :: acc) (x :: s)) as [ts|]; [reflexivity|].
        change (x :: (a :: acc) ++ b0) with ((x :: a :: acc) ++ b0). rewrite IH by discriminate.
        destruct (seg_go cap true rest_m (x :: a :: acc) s) as [ts|]; [|reflexivity].
        rewrite rev_cons_app. reflexivity.
  Qed.
End SegMt.

Lemma any_greedy : forall rest_m n c K,
  (forall b s, K b s c = mres_of n b s c (rest_m s)) ->
  forall s b, star_set any_p K b s c = mres_of n b s c (any_go rest_m s).
Proof.
  intros rest_m n c K HK. induction s as [|x s IH]; intros b.
  - cbn [star_set any_go]. apply HK.
  - cbn [star_set any_go]. unfold any_p at 1. destruct (Ascii.eqb x lf); cbn [negb]; [apply HK|].
    rewrite IH. destruct (any_go rest_m s) as [ts|]; cbn [mres_of].
    + rewrite rev_cons_app. reflexivity.
    + apply HK.
Qed.

Lemma star_set_ns : forall k b s c, star_set (class_mem true [IChar "/"%char]) k b s c = star_set ns_p k b s c.
Proof. intros. apply star_set_ext. exact ns_mem. Qed.
Lemma lazy_set_ext : forall p q k s b c, (forall x, p x = q x) -> lazy_set p k b s c = lazy_set q k b s c.
Proof.
  intros p q k. induction s as [|x s IH]; intros b c H; cbn [lazy_set]; [reflexivity|].
  rewrite H, IH by exact H. reflexivity.
Qed.

Theorem mt_atoms : forall p n b s c,
  mt (atoms_rx n p REnd) b s c kfin = mres_of n b s c (amatch p s).
Proof.
  induction p as [|a p IH]; intros n b s c.
  - cbn [atoms_rx mt]. rewrite amatch_nil. destruct s; reflexivity.
  - cbn [atoms_rx]. rewrite mt_cat. destruct a as [x|cap lz|]; cbn [atom_rx ncap].
    + rewrite mt_char, amatch_byte, Nat.add_0_r. destruct s as [|y s]; [reflexivity|].
      rewrite (Ascii.eqb_sym x y). destruct (Ascii.eqb y x); [|reflexivity].
      rewrite IH. destruct (amatch p s); cbn [mres_of]; [|reflexivity]. rewrite rev_cons_app. reflexivity.
    + rewrite amatch_seg.
      set (K := fun b1 s1 c1 => mt (atoms_rx (n + (if cap then 1 else 0)) p REnd) b1 s1 c1 kfin).
      assert (HKc : forall acc s1,
                 (if cap then fun b1 s1 c1 => K b1 s1 ((S n, taken b b1) :: c1) else K) (acc ++ b) s1 c =
                 match seg_fin cap (amatch p) acc s1 with
                 | Some ts => Some (rev s1 ++ acc ++ b, [], caps_of n ts ++ c)
                 | None => None
                 end).
      { intros acc s1. unfold seg_fin. destruct cap; unfold K; rewrite IH.
        - replace (taken b (acc ++ b)) with (rev acc)
            by (rewrite <- (rev_involutive acc) at 2; rewrite taken_app; reflexivity).
          rewrite Nat.add_1_r. destruct (amatch p s1) as [cs|]; cbn [mres_of]; [|reflexivity].
          rewrite caps_of_cons. reflexivity.
        - rewrite Nat.add_0_r. destruct (amatch p s1) as [cs|]; reflexivity. }
      assert (Hgo : mt (RPlus (negb lz) NS) b s c
                      (if cap then fun b1 s1 c1 => K b1 s1 ((S n, taken b b1) :: c1) else K) =
                    mres_of n b s c (seg_go cap lz (amatch p) [] s)).
      { unfold RPlus. rewrite mt_cat. unfold NS at 1. rewrite mt_set. destruct s as [|x s]; [reflexivity|].
        rewrite ns_mem. cbn [seg_go]. destruct (Ascii.eqb x slash); cbn [negb]; [reflexivity|].
        change (x :: b) with ([x] ++ b).
        destruct lz; cbn [negb]; unfold NS.
        - rewrite mt_lazy_set, (lazy_set_ext _ ns_p) by exact ns_mem.
          rewrite (seg_lazy cap (amatch p) n b c _ HKc) by discriminate.
          destruct (seg_go cap true (amatch p) [x] s); cbn [mres_of]; [|reflexivity].
          rewrite (rev_cons_app x s b). reflexivity.
        - rewrite mt_star_set, star_set_ns.
          rewrite (seg_greedy cap (amatch p) n b c _ HKc) by discriminate.
          destruct (seg_go cap false (amatch p) [x] s); cbn [mres_of]; [|reflexivity].
          rewrite (rev_cons_app x s b). reflexivity. }
      destruct cap.
      * rewrite mt_group. exact Hgo.
      * exact Hgo.
    + rewrite amatch_any, Nat.add_0_r. unfold RAny. rewrite mt_star_set.
      rewrite (star_set_ext _ any_p) by exact any_mem.
      apply (any_greedy (amatch p) n c). intros b1 s1. apply IH.
Qed.

(* anchored at the start: a search that begins later fails *)
Lemma search_start_later : forall r s b g, b <> [] -> search (RCat RStart r) b s g = None.
Proof.
  intros r. induction s as [|x s IH]; intros b g Hb; cbn [search]; rewrite mt_cat; cbn [mt];
    destruct b as [|y b]; try contradiction.
  - reflexivity.
  - apply IH. discriminate.
Qed.

Theorem rx_find_whole : forall p k,
  rx_find (whole_rx p) k =
  match amatch p k with
  | Some ts => Some {| m_gap := []; m_start := 0; m_end := length k; m_str := k; m_caps := caps_of 0 ts;
                       m_before := rev k; m_after := [] |}
  | None => None
  end.
Proof.
  intros p k. unfold rx_find, whole_rx.
  assert (Hm : mt (RCat RStart (atoms_rx 0 p REnd)) [] k [] kfin = mres_of 0 [] k [] (amatch p k)).
  { rewrite mt_cat. cbn [mt]. apply mt_atoms. }
  destruct (amatch p k) as [ts|] eqn:Ea; cbn [mres_of] in Hm.
  - rewrite (search_hit _ _ _ _ _ _ Hm). unfold mk_match. rewrite !app_nil_r, rev_length. cbn [length].
    replace (taken [] (rev k)) with k.
    + reflexivity.
    + rewrite <- (app_nil_r (rev k)), taken_app. reflexivity.
  - destruct k as [|x k].
    + apply search_end. exact Hm.
    + rewrite (search_miss _ _ _ _ Hm). rewrite search_start_later by discriminate. reflexivity.
Qed.

Corollary rx_is_match_whole : forall p k, rx_is_match (whole_rx p) k = is_some (amatch p k).
Proof. intros p k. unfold rx_is_match. rewrite rx_find_whole. destruct (amatch p k); reflexivity. Qed.

(* ================================================================== *)
(* C. find_iter / replace_all / replace_all with a closure, for an expression whose match at a position is a
      function `hit` of the text that follows                             *)

(* find_iter, texts of the matches, for an expression that never matches the empty string *)
Lemma fi_end : forall f r b last, mt r b [] [] kfin = None -> fi f r b [] last = [].
Proof.
  intros f r b last H. unfold fi. destruct f as [|f]; [reflexivity|]. cbn [find_iter_go].
  rewrite search_end by exact H. reflexivity.
Qed.
Lemma fi_miss : forall f r b x s last last', never_empty r -> mt r b (x :: s) [] kfin = None ->
  fi f r b (x :: s) last = fi f r (x :: b) s last'.
Proof.
  intros f r b x s last last' Hr H. unfold fi. destruct f as [|f]; [reflexivity|].
  cbn [find_iter_go]. rewrite (search_miss _ _ _ _ H).
  destruct (search r (x :: b) s []) as [m|] eqn:E; cbn [option_map]; [|reflexivity].
  pose proof (search_never_empty r Hr _ _ _ _ E) as Hne.
  unfold add_gap at 1 2. cbn [m_start m_end]. rewrite Hne. cbn [andb map].
  unfold add_gap. cbn [m_str m_end m_before m_after]. reflexivity.
Qed.

(* replace_all with a closure, from the position (b, s) on *)
Definition replw {S} (f : nat) (r : regex) (clen : nat) (cl : rcaps -> S -> option (text * S))
    (b s : text) (last : option nat) (st : S) : option (text * S) :=
  replace_with_go (find_iter_go f r b s last) clen cl s st.

Lemma rx_replace_all_with_replw : forall S r h (cl : rcaps -> S -> option (text * S)) st,
  rx_replace_all_with r h cl st = replw (length h + 2) r (rx_captures_len r) cl [] h None st.
Proof. reflexivity. Qed.

Lemma replw_end : forall S f r clen (cl : rcaps -> S -> option (text * S)) b last st,
  mt r b [] [] kfin = None -> replw f r clen cl b [] last st = Some ([], st).
Proof.
  intros S f r clen cl b last st H. unfold replw. destruct f as [|f]; [reflexivity|]. cbn [find_iter_go].
  rewrite search_end by exact H. reflexivity.
Qed.
Lemma replw_hit : forall S f r clen (cl : rcaps -> S -> option (text * S)) b s last st b1 s1 c,
  mt r b s [] kfin = Some (b1, s1, c) -> length b < length b1 ->
  replw (Datatypes.S f) r clen cl b s last st =
  match cl {| c_len := clen; c_match := mk_match b b1 s1 c |} st with
  | None => None
  | Some (t, st1) =>
    match replw f r clen cl b1 s1 (Some (length b1)) st1 with
    | None => None
    | Some (t2, st2) => Some (t ++ t2, st2)
    end
  end.
Proof.
  intros S f r clen cl b s last st b1 s1 c H Hlen. unfold replw. cbn [find_iter_go].
  rewrite (search_hit _ _ _ _ _ _ H). unfold mk_match at 1 2 3 4 5. cbn [m_start m_end m_before m_after].
  replace (Nat.eqb (length b) (length b1)) with false by (symmetry; apply Nat.eqb_neq; lia).
  cbn [andb replace_with_go]. fold (mk_match b b1 s1 c).
  destruct (cl {| c_len := clen; c_match := mk_match b b1 s1 c |} st) as [[t st1]|]; [|reflexivity].
  unfold mk_match at 1 2. cbn [m_gap m_after app]. reflexivity.
Qed.
Lemma replw_miss : forall S f r clen (cl : rcaps -> S -> option (text * S)) b x s last last' st,
  (forall g m st0, cl {| c_len := clen; c_match := add_gap g m |} st0 = cl {| c_len := clen; c_match := m |} st0) ->
  never_empty r -> mt r b (x :: s) [] kfin = None ->
  replw f r clen cl b (x :: s) last st =
  match replw f r clen cl (x :: b) s last' st with
  | Some (t, st') => Some (x :: t, st')
  | None => None
  end.
Proof.
  intros S f r clen cl b x s last last' st Hgap Hr H. unfold replw. destruct f as [|f]; [reflexivity|].
  cbn [find_iter_go]. rewrite (search_miss _ _ _ _ H).
  destruct (search r (x :: b) s []) as [m|] eqn:E; cbn [option_map]; [|reflexivity].
  pose proof (search_never_empty r Hr _ _ _ _ E) as Hne.
  unfold add_gap at 1 2. cbn [m_start m_end]. rewrite Hne. cbn [andb replace_with_go]. rewrite Hgap.
  destruct (cl {| c_len := clen; c_match := m |} st) as [[t st1]|]; [|reflexivity].
  unfold add_gap. cbn [m_gap m_end m_before m_after].
  destruct (replace_with_go (find_iter_go f r (m_before m) (m_after m) (Some (m_end m))) clen cl (m_after m) st1)
    as [[t2 st2]|]; reflexivity.
Qed.

Section Scan.
  Variables (r : regex) (hit : text -> option nat) (capf : text -> text -> caps).
  Hypothesis Hmt : forall b s, mt r b s [] kfin =
    match hit s with Some n => Some (rev (firstn n s) ++ b, skipn n s, capf b s) | None => None end.
  Hypothesis Hpos : forall s n, hit s = Some n -> 1 <= n /\ n <= length s.

  Lemma scan_never_empty : never_empty r.
  Proof.
    intros b s b1 s1 c H. rewrite Hmt in H. destruct (hit s) as [n|] eqn:E; [|discriminate].
    injection H as <- _ _. destruct (Hpos _ _ E) as [H1 H2]. rewrite app_length, rev_length, firstn_length. lia.
  Qed.
  Lemma hit_nil : hit [] = None.
  Proof. destruct (hit []) as [n|] eqn:E; [|reflexivity]. destruct (Hpos _ _ E) as [H1 H2]. cbn [length] in H2. lia. Qed.
  Lemma hit_len : forall b s n, hit s = Some n -> length b < length (rev (firstn n s) ++ b).
  Proof. intros b s n E. destruct (Hpos _ _ E) as [H1 H2]. rewrite app_length, rev_length, firstn_length. lia. Qed.

  (* replace_all(.., <a replacement without group references>) = g *)
  Lemma scan_repl : forall tpl rep (g : text -> text), (forall m, expand tpl m = rep) ->
    g [] = [] ->
    (forall s n, hit s = Some n -> g s = rep ++ g (skipn n s)) ->
    (forall x s, hit (x :: s) = None -> g (x :: s) = x :: g s) ->
    forall m s, length s <= m -> forall F b last, length s < F -> repl F r tpl b s last = g s.
  Proof.
    intros tpl rep g Hexp Hnil Hhit Hmiss. induction m as [|m IH]; intros s Hm F b last HF.
    - destruct s; [|cbn [length] in Hm; lia]. rewrite repl_end; [symmetry; exact Hnil|]. rewrite Hmt, hit_nil. reflexivity.
    - pose proof (Hmt b s) as Hm'. destruct (hit s) as [n|] eqn:E.
      + destruct F as [|F]; [lia|]. destruct (Hpos _ _ E) as [H1 H2].
        rewrite (repl_hit _ _ _ _ _ _ _ _ _ Hm') by (apply hit_len; exact E).
        rewrite Hexp, (IH (skipn n s)) by (rewrite skipn_length; lia). symmetry. apply Hhit, E.
      + destruct s as [|x s'].
        * rewrite repl_end by exact Hm'. symmetry. exact Hnil.
        * rewrite (repl_miss _ _ _ _ _ _ _ None scan_never_empty Hm'). cbn [length] in *.
          rewrite IH by lia. symmetry. apply Hmiss, E.
  Qed.

  (* find_iter(..): the texts of the matches, through phi *)
  Lemma scan_fi : forall X (phi : text -> X) (gs : text -> list X),
    gs [] = [] ->
    (forall s n, hit s = Some n -> gs s = phi (firstn n s) :: gs (skipn n s)) ->
    (forall x s, hit (x :: s) = None -> gs (x :: s) = gs s) ->
    forall m s, length s <= m -> forall F b last, length s < F -> map phi (fi F r b s last) = gs s.
  Proof.
    intros X phi gs Hnil Hhit Hmiss. induction m as [|m IH]; intros s Hm F b last HF.
    - destruct s; [|cbn [length] in Hm; lia]. rewrite fi_end; [symmetry; exact Hnil|]. rewrite Hmt, hit_nil. reflexivity.
    - pose proof (Hmt b s) as Hm'. destruct (hit s) as [n|] eqn:E.
      + destruct F as [|F]; [lia|]. destruct (Hpos _ _ E) as [H1 H2].
        assert (Hne : firstn n s <> []).
        { intros Hx. apply (f_equal (@length ascii)) in Hx. rewrite firstn_length in Hx. cbn [length] in Hx. lia. }
        rewrite (fi_hit _ _ _ _ _ _ _ _ Hne Hm'). cbn [map].
        rewrite (IH (skipn n s)) by (rewrite skipn_length; lia). symmetry. apply Hhit, E.
      + destruct s as [|x s'].
        * rewrite fi_end by exact Hm'. symmetry. exact Hnil.
        * rewrite (fi_miss _ _ _ _ _ _ None scan_never_empty Hm'). cbn [length] in *.
          rewrite IH by lia. symmetry. apply Hmiss, E.
  Qed.

  (* replace_all(.., |caps| ..) with a closure that only looks at the text of the match *)
  Lemma scan_replw : forall S clen (cl : rcaps -> S -> option (text * S)) (cls : text -> S -> option (text * S))
      rep (upd : text -> S -> S) (g : text -> text) (gst : text -> S -> S),
    (forall c st, cl c st = cls (m_str (c_match c)) st) ->
    (forall s n st, hit s = Some n -> cls (firstn n s) st = Some (rep, upd (firstn n s) st)) ->
    g [] = [] -> (forall st, gst [] st = st) ->
    (forall s n, hit s = Some n -> g s = rep ++ g (skipn n s)) ->
    (forall s n st, hit s = Some n -> gst s st = gst (skipn n s) (upd (firstn n s) st)) ->
    (forall x s, hit (x :: s) = None -> g (x :: s) = x :: g s) ->
    (forall x s st, hit (x :: s) = None -> gst (x :: s) st = gst s st) ->
    forall m s, length s <= m -> forall F b last st, length s < F ->
    replw F r clen cl b s last st = Some (g s, gst s st).
  Proof.
    intros S clen cl cls rep upd g gst Hcl Hcls Hnil Hnils Hhit Hhits Hmiss Hmisss.
    assert (Hgap : forall g0 m st0, cl {| c_len := clen; c_match := add_gap g0 m |} st0 = cl {| c_len := clen; c_match := m |} st0).
    { intros g0 m st0. rewrite !Hcl. reflexivity. }
    induction m as [|m IH]; intros s Hm F b last st HF.
    - destruct s; [|cbn [length] in Hm; lia]. rewrite replw_end; [rewrite Hnil, Hnils; reflexivity|].
      rewrite Hmt, hit_nil. reflexivity.
    - pose proof (Hmt b s) as Hm'. destruct (hit s) as [n|] eqn:E.
      + destruct F as [|F]; [lia|]. destruct (Hpos _ _ E) as [H1 H2].
        rewrite (replw_hit _ _ _ _ _ _ _ _ _ _ _ _ Hm') by (apply hit_len; exact E).
        rewrite Hcl. unfold mk_match at 1. cbn [c_match m_str]. rewrite taken_app, (Hcls _ _ _ E).
        rewrite (IH (skipn n s)) by (rewrite skipn_length; lia).
        rewrite (Hhit _ _ E), (Hhits _ _ _ E). reflexivity.
      + destruct s as [|x s'].
        * rewrite replw_end by exact Hm'. rewrite Hnil, Hnils. reflexivity.
        * rewrite (replw_miss _ _ _ _ _ _ _ _ _ None _ Hgap scan_never_empty Hm'). cbn [length] in *.
          rewrite IH by lia. rewrite (Hmiss _ _ E), (Hmisss _ _ _ E). reflexivity.
  Qed.
End Scan.

Lemma expand_lit : forall rep m, expand [TLit rep] m = rep.
Proof. intros rep m. unfold expand. cbn [map concat]. apply app_nil_r. Qed.

(* ------------------------------------------------------------------ *)
(* the rewriting expressions of function_map.rs                         *)
Definition rx_colon : regex := RCat (RChar ":"%char) (RPlus true NS).                          (* :[^/]+ *)
Definition rx_brace : regex := RCat (RChar "{"%char) (RCat (RPlus false NS) (RChar "}"%char)). (* \{[^/]+?\} *)
Definition rx_brace_g : regex := RGroup 1 rx_brace.                                            (* (\{[^/]+?\}) *)
Definition rx_lbrace : regex := RChar "{"%char.                                                (* \{ *)

Lemma span_firstn : forall p s, firstn (length (fst (span p s))) s = fst (span p s).
Proof.
  intros p s. rewrite <- (span_eq p s) at 2. rewrite firstn_app, Nat.sub_diag, firstn_all. cbn [firstn]. apply app_nil_r.
Qed.
Lemma span_skipn : forall p s, skipn (length (fst (span p s))) s = snd (span p s).
Proof.
  intros p s. rewrite <- (span_eq p s) at 2. rewrite skipn_app, Nat.sub_diag, skipn_all. reflexivity.
Qed.
Lemma span_length : forall p s, length (fst (span p s)) <= length s.
Proof. intros p s. rewrite <- (span_eq p s) at 2. rewrite app_length. lia. Qed.

(* ---- :[^/]+ : a colon and at least one more byte of its segment *)
Definition hit_colon (s : text) : option nat :=
  match s with
  | x :: y :: s' => if Ascii.eqb x colon && ns_p y then Some (2 + length (fst (span ns_p s'))) else None
  | _ => None
  end.
Lemma colon_mt : forall b s, mt rx_colon b s [] kfin =
  match hit_colon s with Some n => Some (rev (firstn n s) ++ b, skipn n s, []) | None => None end.
Proof.
  intros b s. unfold rx_colon, RPlus. rewrite mt_cat, mt_char. destruct s as [|x s]; [reflexivity|].
  change ":"%char with colon. cbn [hit_colon]. destruct (Ascii.eqb x colon); cbn [andb].
  - rewrite mt_cat. unfold NS at 1. rewrite mt_set. destruct s as [|y s]; [reflexivity|].
    rewrite ns_mem. unfold ns_p at 1. destruct (Ascii.eqb y slash); cbn [negb]; [reflexivity|].
    unfold NS. rewrite (mt_star_class_ok _ _ ns_p ns_mem kfin _ _ _ _ eq_refl).
    cbn [Nat.add firstn skipn rev]. rewrite span_firstn, span_skipn, <- !app_assoc. reflexivity.
  - destruct s; reflexivity.
Qed.
Lemma colon_pos : forall s n, hit_colon s = Some n -> 1 <= n /\ n <= length s.
Proof.
  intros s n H. destruct s as [|x [|y s]]; try discriminate. cbn [hit_colon] in H.
  destruct (Ascii.eqb x colon && ns_p y); [|discriminate]. injection H as <-.
  pose proof (span_length ns_p s). cbn [length]. lia.
Qed.

Lemma take_nonslash_span : forall s, take_nonslash s = span ns_p s.
Proof.
  induction s as [|c s IH]; [reflexivity|]. cbn [take_nonslash span]. unfold ns_p at 1.
  destruct (Ascii.eqb c slash); cbn [negb]; [reflexivity|]. rewrite IH. reflexivity.
Qed.
Lemma colon_names_true_span : forall s, colon_names true s = colon_names false (snd (span ns_p s)).
Proof.
  induction s as [|c s IH]; [reflexivity|]. cbn [colon_names span]. unfold ns_p at 1.
  destruct (Ascii.eqb c slash) eqn:E; cbn [negb].
  - cbn [snd]. apply Ascii.eqb_eq in E. subst c. cbn [colon_names].
    change (Ascii.eqb slash colon) with false. cbv iota. reflexivity.
  - rewrite IH. destruct (span ns_p s). reflexivity.
Qed.

Definition colon_text (s : text) : text := fst (colon_names false s).
Definition colon_keys (s : text) : list text := snd (colon_names false s).

Lemma colon_names_colon : forall r, colon_names false (colon :: r) =
  match fst (take_nonslash r) with
  | [] => let (t, ns) := colon_names false r in (colon :: t, ns)
  | name => let (t, ns) := colon_names true r in (ns_plus_cap ++ t, name :: ns)
  end.
Proof. reflexivity. Qed.
Lemma colon_step_hit : forall s n, hit_colon s = Some n ->
  colon_names false s = (ns_plus_cap ++ colon_text (skipn n s), skipn 1 (firstn n s) :: colon_keys (skipn n s)).
Proof.
  intros s n H. destruct s as [|x [|y s]]; try discriminate. cbn [hit_colon] in H.
  destruct (Ascii.eqb x colon) eqn:Ex; [|discriminate]. cbn [andb] in H.
  destruct (ns_p y) eqn:Ey; [|discriminate]. injection H as <-.
  apply Ascii.eqb_eq in Ex. subst x.
  rewrite colon_names_colon, take_nonslash_span, colon_names_true_span. cbn [span]. rewrite Ey.
  cbn [Nat.add firstn skipn]. rewrite span_firstn, span_skipn.
  destruct (span ns_p s) as [a t]. cbn [fst snd]. unfold colon_text, colon_keys.
  destruct (colon_names false t). reflexivity.
Qed.
Lemma colon_step_miss : forall x s, hit_colon (x :: s) = None ->
  colon_names false (x :: s) = (x :: colon_text s, colon_keys s).
Proof.
  intros x s H. unfold colon_text, colon_keys. destruct (Ascii.eqb x colon) eqn:Ex.
  - apply Ascii.eqb_eq in Ex. subst x. rewrite colon_names_colon, take_nonslash_span.
    destruct s as [|y s]; [reflexivity|]. cbn [hit_colon] in H. change (Ascii.eqb colon colon) with true in H. cbn [andb] in H.
    cbn [span]. destruct (ns_p y); [discriminate|]. cbn [fst]. destruct (colon_names false (y :: s)). reflexivity.
  - cbn [colon_names]. rewrite Ex. destruct (colon_names false s). reflexivity.
Qed.

Theorem colon_replace : forall s, rx_replace_all rx_colon s [TLit ns_plus_cap] = colon_text s.
Proof.
  intros s. rewrite rx_replace_all_repl.
  apply (scan_repl rx_colon hit_colon (fun _ _ => []) colon_mt colon_pos [TLit ns_plus_cap] ns_plus_cap colon_text
           (expand_lit ns_plus_cap) eq_refl) with (m := length s); try lia.
  - intros s0 n H. unfold colon_text at 1. rewrite (colon_step_hit _ _ H). reflexivity.
  - intros x s0 H. unfold colon_text at 1. rewrite (colon_step_miss _ _ H). reflexivity.
Qed.
Theorem colon_find_iter : forall s, map (fun m => skipn 1 (rx_as_str m)) (rx_find_iter rx_colon s) = colon_keys s.
Proof.
  intros s.
  change (map (fun m => skipn 1 (rx_as_str m)) (rx_find_iter rx_colon s))
    with (map (fun m => skipn 1 (m_str m)) (find_iter_go (length s + 2) rx_colon [] s None)).
  rewrite <- (map_map m_str (skipn 1)). fold (fi (length s + 2) rx_colon [] s None).
  apply (scan_fi rx_colon hit_colon (fun _ _ => []) colon_mt colon_pos _ (skipn 1) colon_keys eq_refl) with (m := length s); try lia.
  - intros s0 n H. unfold colon_keys at 1. rewrite (colon_step_hit _ _ H). reflexivity.
  - intros x s0 H. unfold colon_keys at 1. rewrite (colon_step_miss _ _ H). reflexivity.
Qed.

(* ---- \{[^/]+?\} : an opening brace, at least one byte of the segment, up to the FIRST closing brace *)
Fixpoint first_rb (s : text) : option nat :=
  match s with
  | [] => None
  | z :: r => if Ascii.eqb z rbrace then Some 0
              else if Ascii.eqb z slash then None
              else option_map S (first_rb r)
  end.
Lemma first_close_rb : forall s i, 1 <= i -> first_close s i = option_map (Nat.add i) (first_rb s).
Proof.
  induction s as [|z r IH]; intros i Hi; cbn [first_close first_rb]; [reflexivity|].
  destruct (Ascii.eqb z slash) eqn:Es.
  - apply Ascii.eqb_eq in Es. subst z. reflexivity.
  - replace (Nat.leb 1 i) with true by (symmetry; apply Nat.leb_le; exact Hi). rewrite andb_true_r.
    destruct (Ascii.eqb z rbrace); cbn [option_map]; [f_equal; lia|].
    rewrite IH by lia. destruct (first_rb r); cbn [option_map]; [f_equal; lia|reflexivity].
Qed.
Lemma first_close_0 : forall y s, first_close (y :: s) 0 =
  if Ascii.eqb y slash then None else option_map S (first_rb s).
Proof.
  intros y s. cbn [first_close]. destruct (Ascii.eqb y slash); [reflexivity|].
  cbn [Nat.leb]. rewrite andb_false_r. rewrite first_close_rb by lia. destruct (first_rb s); reflexivity.
Qed.
Lemma first_rb_lt : forall s j, first_rb s = Some j -> j < length s.
Proof.
  induction s as [|z r IH]; intros j H; cbn [first_rb] in H; [discriminate|]. cbn [length].
  destruct (Ascii.eqb z rbrace); [injection H as <-; lia|]. destruct (Ascii.eqb z slash); [discriminate|].
  destruct (first_rb r) as [j'|]; [|discriminate]. injection H as <-. specialize (IH _ eq_refl). lia.
Qed.

Lemma lazy_then_rb : forall (fc : text -> caps -> caps) K,
  (forall b s c, K b s c =
     match s with z :: s2 => if Ascii.eqb z rbrace then Some (z :: b, s2, fc (z :: b) c) else None | [] => None end) ->
  forall s b c, lazy_set ns_p K b s c =
  match first_rb s with
  | Some j => Some (rev (firstn (S j) s) ++ b, skipn (S j) s, fc (rev (firstn (S j) s) ++ b) c)
  | None => None
  end.
Proof.
  intros fc K HK. induction s as [|z r IH]; intros b c; cbn [lazy_set first_rb]; rewrite HK; [reflexivity|].
  destruct (Ascii.eqb z rbrace); [reflexivity|].
  unfold ns_p. destruct (Ascii.eqb z slash); cbn [negb]; [reflexivity|].
  rewrite IH. destruct (first_rb r) as [j|]; cbn [option_map]; [|reflexivity].
  rewrite (firstn_cons (S j) z r), rev_cons_app. cbn [skipn]. reflexivity.
Qed.

Definition hit_brace (s : text) : option nat :=
  match s with
  | x :: s' => if Ascii.eqb x lbrace
               then match first_close s' 0 with Some k => Some (S (S k)) | None => None end
               else None
  | [] => None
  end.
(* with any final continuation that accepts (kfin, or kfin after closing a group) *)
Lemma brace_mt_k : forall (fc : text -> caps -> caps) b s c,
  mt rx_brace b s c (fun b1 s1 c1 => Some (b1, s1, fc b1 c1)) =
  match hit_brace s with
  | Some n => Some (rev (firstn n s) ++ b, skipn n s, fc (rev (firstn n s) ++ b) c)
  | None => None
  end.
Proof.
  intros fc b s c. unfold rx_brace. rewrite mt_cat, mt_char. destruct s as [|x s]; [reflexivity|].
  change "{"%char with lbrace. cbn [hit_brace]. destruct (Ascii.eqb x lbrace); [|reflexivity].
  rewrite mt_cat. unfold RPlus. rewrite mt_cat. unfold NS at 1. rewrite mt_set.
  destruct s as [|y s]; [reflexivity|]. rewrite ns_mem, first_close_0.
  destruct (Ascii.eqb y slash); cbn [negb]; [reflexivity|].
  unfold NS. rewrite mt_lazy_set, (lazy_set_ext _ ns_p) by exact ns_mem.
  rewrite (lazy_then_rb fc).
  - destruct (first_rb s) as [j|]; cbn [option_map]; [|reflexivity].
    rewrite (firstn_cons (S (S j)) x (y :: s)), (firstn_cons (S j) y s), !rev_cons_app. cbn [skipn]. reflexivity.
  - intros b0 s0 c0. rewrite mt_char. reflexivity.
Qed.
Lemma brace_mt : forall b s, mt rx_brace b s [] kfin =
  match hit_brace s with Some n => Some (rev (firstn n s) ++ b, skipn n s, []) | None => None end.
Proof. intros b s. exact (brace_mt_k (fun _ c => c) b s []). Qed.
Definition brace_g_caps (b s : text) : caps :=
  match hit_brace s with Some n => [(1, taken b (rev (firstn n s) ++ b))] | None => [] end.
Lemma brace_g_mt : forall b s, mt rx_brace_g b s [] kfin =
  match hit_brace s with Some n => Some (rev (firstn n s) ++ b, skipn n s, brace_g_caps b s) | None => None end.
Proof.
  intros b s. unfold rx_brace_g. rewrite mt_group. unfold kfin.
  rewrite (brace_mt_k (fun b1 c1 => (1, taken b b1) :: c1) b s []). unfold brace_g_caps.
  destruct (hit_brace s); reflexivity.
Qed.
Lemma brace_pos : forall s n, hit_brace s = Some n -> 1 <= n /\ n <= length s.
Proof.
  intros s n H. destruct s as [|x s]; [discriminate|]. cbn [hit_brace] in H.
  destruct (Ascii.eqb x lbrace); [|discriminate]. destruct s as [|y s]; [discriminate|].
  rewrite first_close_0 in H. destruct (Ascii.eqb y slash); [discriminate|].
  destruct (first_rb s) as [j|] eqn:Ej; [|discriminate]. cbn [option_map] in H. injection H as <-.
  apply first_rb_lt in Ej. cbn [length]. lia.
Qed.

Lemma brace_lazy_skipn : forall rep n s, brace_lazy rep n s = brace_lazy rep 0 (skipn n s).
Proof.
  intros rep. induction n as [|n IH]; intros s; [reflexivity|]. destruct s as [|c r]; [reflexivity|].
  cbn [brace_lazy skipn]. apply IH.
Qed.
Lemma brace_lazy_lbrace : forall rep r, brace_lazy rep 0 (lbrace :: r) =
  match first_close r 0 with
  | Some k => let (t, ns) := brace_lazy rep (S k) r in (rep ++ t, firstn k r :: ns)
  | None => let (t, ns) := brace_lazy rep 0 r in (lbrace :: t, ns)
  end.
Proof. reflexivity. Qed.

Definition brace_text (rep s : text) : text := fst (brace_lazy rep 0 s).
Definition brace_names (rep s : text) : list text := snd (brace_lazy rep 0 s).
(* the name inside `{name}` *)
Definition name_of (t : text) : text := firstn (length t - 2) (skipn 1 t).

Lemma name_of_firstn : forall k x r, S k <= length r -> name_of (firstn (S (S k)) (x :: r)) = firstn k r.
Proof.
  intros k x r H. unfold name_of. rewrite firstn_length. cbn [length].
  replace (Nat.min (S (S k)) (S (length r)) - 2) with k by lia.
  rewrite (firstn_cons (S k) x r). cbn [skipn]. rewrite firstn_firstn. f_equal. lia.
Qed.

Lemma brace_step_hit : forall rep s n, hit_brace s = Some n ->
  brace_lazy rep 0 s = (rep ++ brace_text rep (skipn n s), name_of (firstn n s) :: brace_names rep (skipn n s)).
Proof.
  intros rep s n H. pose proof (brace_pos _ _ H) as [_ Hlen].
  destruct s as [|x r]; [discriminate|]. cbn [hit_brace] in H.
  destruct (Ascii.eqb x lbrace) eqn:Ex; [|discriminate]. apply Ascii.eqb_eq in Ex. subst x.
  destruct (first_close r 0) as [k|] eqn:Ek; [|discriminate]. injection H as <-.
  rewrite brace_lazy_lbrace, Ek, brace_lazy_skipn. cbn [length] in Hlen.
  rewrite name_of_firstn by lia. change (skipn (S (S k)) (lbrace :: r)) with (skipn (S k) r).
  unfold brace_text, brace_names. destruct (brace_lazy rep 0 (skipn (S k) r)). reflexivity.
Qed.
Lemma brace_step_miss : forall rep x s, hit_brace (x :: s) = None ->
  brace_lazy rep 0 (x :: s) = (x :: brace_text rep s, brace_names rep s).
Proof.
  intros rep x s H. unfold brace_text, brace_names. cbn [hit_brace] in H. destruct (Ascii.eqb x lbrace) eqn:Ex.
  - apply Ascii.eqb_eq in Ex. subst x. rewrite brace_lazy_lbrace.
    destruct (first_close s 0); [discriminate|]. destruct (brace_lazy rep 0 s). reflexivity.
  - cbn [brace_lazy]. rewrite Ex. destruct (brace_lazy rep 0 s). reflexivity.
Qed.

Theorem brace_replace : forall rep s, rx_replace_all rx_brace s [TLit rep] = brace_text rep s.
Proof.
  intros rep s. rewrite rx_replace_all_repl.
  apply (scan_repl rx_brace hit_brace (fun _ _ => []) brace_mt brace_pos [TLit rep] rep (brace_text rep)
           (expand_lit rep) eq_refl) with (m := length s); try lia.
  - intros s0 n H. unfold brace_text at 1. rewrite (brace_step_hit _ _ _ H). reflexivity.
  - intros x s0 H. unfold brace_text at 1. rewrite (brace_step_miss _ _ _ H). reflexivity.
Qed.
Theorem brace_g_replace : forall rep s, rx_replace_all rx_brace_g s [TLit rep] = brace_text rep s.
Proof.
  intros rep s. rewrite rx_replace_all_repl.
  apply (scan_repl rx_brace_g hit_brace brace_g_caps brace_g_mt brace_pos [TLit rep] rep (brace_text rep)
           (expand_lit rep) eq_refl) with (m := length s); try lia.
  - intros s0 n H. unfold brace_text at 1. rewrite (brace_step_hit _ _ _ H). reflexivity.
  - intros x s0 H. unfold brace_text at 1. rewrite (brace_step_miss _ _ _ H). reflexivity.
Qed.
Theorem brace_find_iter : forall rep s,
  map (fun m => name_of (rx_as_str m)) (rx_find_iter rx_brace s) = brace_names rep s.
Proof.
  intros rep s.
  change (map (fun m => name_of (rx_as_str m)) (rx_find_iter rx_brace s))
    with (map (fun m => name_of (m_str m)) (find_iter_go (length s + 2) rx_brace [] s None)).
  rewrite <- (map_map m_str name_of). fold (fi (length s + 2) rx_brace [] s None).
  apply (scan_fi rx_brace hit_brace (fun _ _ => []) brace_mt brace_pos _ name_of (brace_names rep) eq_refl) with (m := length s); try lia.
  - intros s0 n H. unfold brace_names at 1. rewrite (brace_step_hit _ _ _ H). reflexivity.
  - intros x s0 H. unfold brace_names at 1. rewrite (brace_step_miss _ _ _ H). reflexivity.
Qed.
(* the name as the source slices it: &t[1..t.len() - 1]; None = the slice panics *)
Definition slice_name (t : text) : option text :=
  match rs_usize_sub (rs_len t) 1 with Some n => rs_slice t 1 n | None => None end.
Lemma slice_name_len : forall t, 2 <= length t -> slice_name t = Some (name_of t).
Proof.
  intros t H. unfold slice_name, rs_usize_sub, rs_len, rs_slice, name_of.
  replace (Nat.leb 1 (length t)) with true by (symmetry; apply Nat.leb_le; lia).
  replace (Nat.leb 1 (length t - 1)) with true by (symmetry; apply Nat.leb_le; lia).
  replace (Nat.leb (length t - 1) (length t)) with true by (symmetry; apply Nat.leb_le; lia).
  cbn [andb]. do 2 f_equal. lia.
Qed.
Lemma hit_brace_ge : forall s n, hit_brace s = Some n -> 2 <= length (firstn n s).
Proof.
  intros s n H. pose proof (brace_pos _ _ H) as [_ Hlen]. rewrite firstn_length.
  destruct s as [|x s]; [discriminate|]. cbn [hit_brace] in H. destruct (Ascii.eqb x lbrace); [|discriminate].
  destruct (first_close s 0); [|discriminate]. injection H as <-. lia.
Qed.
Theorem brace_find_iter_slices : forall rep s,
  map (fun m => slice_name (rx_as_str m)) (rx_find_iter rx_brace s) = map Some (brace_names rep s).
Proof.
  intros rep s.
  change (map (fun m => slice_name (rx_as_str m)) (rx_find_iter rx_brace s))
    with (map (fun m => slice_name (m_str m)) (find_iter_go (length s + 2) rx_brace [] s None)).
  rewrite <- (map_map m_str slice_name). fold (fi (length s + 2) rx_brace [] s None).
  apply (scan_fi rx_brace hit_brace (fun _ _ => []) brace_mt brace_pos _ slice_name
           (fun s0 => map Some (brace_names rep s0)) eq_refl) with (m := length s); try lia.
  - intros s0 n H. unfold brace_names at 1. rewrite (brace_step_hit _ _ _ H). cbn [snd map].
    rewrite slice_name_len by (apply hit_brace_ge; exact H). reflexivity.
  - intros x s0 H. unfold brace_names at 1. rewrite (brace_step_miss _ _ _ H). reflexivity.
Qed.

Lemma hit_colon_ge : forall s n, hit_colon s = Some n -> 1 <= length (firstn n s).
Proof. intros s n H. destruct (colon_pos _ _ H) as [H1 H2]. rewrite firstn_length. lia. Qed.
Theorem colon_find_iter_slices : forall s,
  map (fun m => rs_slice_from (rx_as_str m) 1) (rx_find_iter rx_colon s) = map Some (colon_keys s).
Proof.
  intros s.
  change (map (fun m => rs_slice_from (rx_as_str m) 1) (rx_find_iter rx_colon s))
    with (map (fun m => rs_slice_from (m_str m) 1) (find_iter_go (length s + 2) rx_colon [] s None)).
  rewrite <- (map_map m_str (fun t => rs_slice_from t 1)). fold (fi (length s + 2) rx_colon [] s None).
  apply (scan_fi rx_colon hit_colon (fun _ _ => []) colon_mt colon_pos _ (fun t => rs_slice_from t 1)
           (fun s0 => map Some (colon_keys s0)) eq_refl) with (m := length s); try lia.
  - intros s0 n H. unfold colon_keys at 1. rewrite (colon_step_hit _ _ H). cbn [snd map]. unfold rs_slice_from.
    replace (Nat.leb 1 (length (firstn n s0))) with true by (symmetry; apply Nat.leb_le, (hit_colon_ge _ _ H)).
    reflexivity.
  - intros x s0 H. unfold colon_keys at 1. rewrite (colon_step_miss _ _ H). reflexivity.
Qed.

(* replace_all with the closure of key_match4: it pushes the name and returns the literal `rep` *)
Definition km4_closure (rep : text) (c : rcaps) (tokens : list text) : option (text * list text) :=
  match rx_caps_index c 0 with
  | Some t1 =>
    match rx_caps_index c 0 with
    | Some t2 =>
      match rs_usize_sub (rs_len t2) 1 with
      | Some n => match rs_slice t1 1 n with
                  | Some t => Some (rep, rs_push tokens t)
                  | None => None
                  end
      | None => None
      end
    | None => None
    end
  | None => None
  end.
Theorem brace_replace_with : forall rep s st,
  rx_replace_all_with rx_brace s (km4_closure rep) st = Some (brace_text rep s, st ++ brace_names rep s).
Proof.
  intros rep s st. rewrite rx_replace_all_with_replw.
  apply (scan_replw rx_brace hit_brace (fun _ _ => []) brace_mt brace_pos (list text) (rx_captures_len rx_brace)
           (km4_closure rep)
           (fun t tokens => match slice_name t with Some n => Some (rep, rs_push tokens n) | None => None end)
           rep (fun t tokens => tokens ++ [name_of t]) (brace_text rep) (fun s0 tokens => tokens ++ brace_names rep s0))
    with (m := length s); try lia.
  - intros c tokens. unfold km4_closure, rx_caps_index, rx_caps_get, slice_name. cbn [Nat.eqb].
    destruct (rs_usize_sub (rs_len (m_str (c_match c))) 1); reflexivity.
  - intros s0 n tokens H. rewrite slice_name_len by (apply hit_brace_ge; exact H). reflexivity.
  - reflexivity.
  - intros tokens. unfold brace_names. cbn [brace_lazy snd]. apply app_nil_r.
  - intros s0 n H. unfold brace_text at 1. rewrite (brace_step_hit _ _ _ H). reflexivity.
  - intros s0 n tokens H. unfold brace_names at 1. rewrite (brace_step_hit _ _ _ H). cbn [snd].
    rewrite <- app_assoc. reflexivity.
  - intros x s0 H. unfold brace_text at 1. rewrite (brace_step_miss _ _ _ H). reflexivity.
  - intros x s0 tokens H. unfold brace_names at 1. rewrite (brace_step_miss _ _ _ H). reflexivity.
Qed.

(* ---- \{ replaced by \{ (with its backslash) *)
Definition hit_lb (s : text) : option nat :=
  match s with x :: _ => if Ascii.eqb x lbrace then Some 1 else None | [] => None end.
Lemma lb_mt : forall b s, mt rx_lbrace b s [] kfin =
  match hit_lb s with Some n => Some (rev (firstn n s) ++ b, skipn n s, []) | None => None end.
Proof.
  intros b s. unfold rx_lbrace. rewrite mt_char. destruct s as [|x s]; [reflexivity|]. cbn [hit_lb].
  change "{"%char with lbrace. destruct (Ascii.eqb x lbrace); reflexivity.
Qed.
Lemma lb_pos : forall s n, hit_lb s = Some n -> 1 <= n /\ n <= length s.
Proof.
  intros s n H. destruct s as [|x s]; [discriminate|]. cbn [hit_lb] in H.
  destruct (Ascii.eqb x lbrace); [|discriminate]. injection H as <-. cbn [length]. lia.
Qed.
Theorem lbrace_replace : forall s, rx_replace_all rx_lbrace s [TLit (T "\{")] = escape_lbrace s.
Proof.
  intros s. rewrite rx_replace_all_repl.
  apply (scan_repl rx_lbrace hit_lb (fun _ _ => []) lb_mt lb_pos [TLit (T "\{")] (T "\{") escape_lbrace
           (expand_lit (T "\{")) eq_refl) with (m := length s); try lia.
  - intros s0 n H. destruct s0 as [|x s0]; [discriminate|]. cbn [hit_lb] in H.
    destruct (Ascii.eqb x lbrace) eqn:Ex; [|discriminate]. injection H as <-.
    cbn [escape_lbrace skipn]. rewrite Ex. apply Ascii.eqb_eq in Ex. subst x. reflexivity.
  - intros x s0 H. cbn [hit_lb] in H. cbn [escape_lbrace]. destruct (Ascii.eqb x lbrace); [discriminate|reflexivity].
Qed.

(* ================================================================== *)
(* D. Captures of whole_rx against the capture list of amatch; the loops *)

Lemma cap_get_app : forall i l1 l2,
  cap_get i (l1 ++ l2) = match cap_get i l1 with Some x => Some x | None => cap_get i l2 end.
Proof.
  intros i. induction l1 as [|[m t] l1 IH]; intros l2; [reflexivity|]. cbn [app cap_get].
  destruct (Nat.eqb i m); [reflexivity|apply IH].
Qed.
Lemma caps_of_snoc : forall n t ts, caps_of n (t :: ts) = caps_of (S n) ts ++ [(S n, t)].
Proof. intros n t ts. rewrite <- (app_nil_r (caps_of n (t :: ts))). apply caps_of_cons. Qed.
Lemma cap_get_caps_of_low : forall ts n i, i <= n -> cap_get i (caps_of n ts) = None.
Proof.
  induction ts as [|t ts IH]; intros n i Hi; [reflexivity|].
  rewrite caps_of_snoc, cap_get_app, IH by lia. cbn [cap_get].
  replace (Nat.eqb i (S n)) with false by (symmetry; apply Nat.eqb_neq; lia). reflexivity.
Qed.
Lemma cap_get_caps_of : forall ts n j, cap_get (S n + j) (caps_of n ts) = nth_error ts j.
Proof.
  induction ts as [|t ts IH]; intros n j; [destruct j; reflexivity|].
  rewrite caps_of_snoc, cap_get_app. destruct j as [|j].
  - rewrite cap_get_caps_of_low by lia. cbn [cap_get nth_error]. rewrite Nat.add_0_r, Nat.eqb_refl. reflexivity.
  - replace (S n + S j) with (S (S n) + j) by lia. rewrite IH. cbn [nth_error].
    destruct (nth_error ts j); [reflexivity|]. cbn [cap_get].
    replace (Nat.eqb (S (S n) + j) (S n)) with false by (symmetry; apply Nat.eqb_neq; lia). reflexivity.
Qed.

Lemma ngroups_atoms : forall p n, rx_ngroups (atoms_rx n p REnd) = if Nat.eqb (ncaps p) 0 then 0 else n + ncaps p.
Proof.
  induction p as [|a p IH]; intros n; [reflexivity|]. cbn [atoms_rx rx_ngroups ncaps]. rewrite IH.
  destruct a as [x|cap lz|]; cbn [atom_rx ncap rx_ngroups Nat.add].
  - rewrite Nat.add_0_r. reflexivity.
  - destruct cap; cbn [rx_ngroups RPlus NS Nat.max Nat.add Nat.eqb].
    + destruct (Nat.eqb (ncaps p) 0) eqn:E.
      * apply Nat.eqb_eq in E. lia.
      * replace (n + 1 + ncaps p) with (S (n + ncaps p)) by lia. cbv iota. lia.
    + rewrite Nat.add_0_r. reflexivity.
  - rewrite Nat.add_0_r. reflexivity.
Qed.
Lemma captures_len_whole : forall p, rx_captures_len (whole_rx p) = S (ncaps p).
Proof.
  intros p. unfold rx_captures_len, whole_rx. cbn [rx_ngroups Nat.max]. rewrite ngroups_atoms.
  destruct (Nat.eqb (ncaps p) 0) eqn:E; [apply Nat.eqb_eq in E; rewrite E|]; reflexivity.
Qed.

Lemma seg_go_len : forall cap lz rest_m m, (forall k ts, rest_m k = Some ts -> length ts = m) ->
  forall k acc ts, seg_go cap lz rest_m acc k = Some ts -> length ts = (if cap then 1 else 0) + m.
Proof.
  intros cap lz rest_m m Hr.
  assert (Hfin : forall acc k ts, seg_fin cap rest_m acc k = Some ts -> length ts = (if cap then 1 else 0) + m).
  { intros acc k ts H. unfold seg_fin in H. destruct (rest_m k) as [cs|] eqn:E; [|discriminate].
    injection H as <-. apply Hr in E. destruct cap; cbn [length]; lia. }
  induction k as [|x k IH]; intros acc ts H; cbn [seg_go] in H.
  - destruct acc; [discriminate|]. eapply Hfin, H.
  - destruct (Ascii.eqb x slash).
    + destruct acc; [discriminate|]. eapply Hfin, H.
    + destruct lz.
      * destruct acc as [|a acc]; [eapply IH, H|].
        destruct (seg_fin cap rest_m (a :: acc) (x :: k)) eqn:E; [injection H as <-; eapply Hfin, E|eapply IH, H].
      * destruct (seg_go cap false rest_m (x :: acc) k) eqn:E; [injection H as <-; eapply IH, E|].
        destruct acc; [discriminate|]. eapply Hfin, H.
Qed.
Lemma any_go_len : forall rest_m m, (forall k ts, rest_m k = Some ts -> length ts = m) ->
  forall k ts, any_go rest_m k = Some ts -> length ts = m.
Proof.
  intros rest_m m Hr. induction k as [|x k IH]; intros ts H; cbn [any_go] in H; [eapply Hr, H|].
  destruct (Ascii.eqb x lf); [eapply Hr, H|].
  destruct (any_go rest_m k) eqn:E; [injection H as <-; eapply IH; reflexivity|eapply Hr, H].
Qed.
Lemma amatch_length : forall p k ts, amatch p k = Some ts -> length ts = ncaps p.
Proof.
  induction p as [|a p IH]; intros k ts H.
  - rewrite amatch_nil in H. destruct k; [injection H as <-; reflexivity|discriminate].
  - destruct a as [x|cap lz|]; cbn [ncaps ncap].
    + rewrite amatch_byte in H. destruct k as [|c k]; [discriminate|]. destruct (Ascii.eqb x c); [|discriminate].
      eapply IH, H.
    + rewrite amatch_seg in H. apply (seg_go_len cap lz (amatch p) (ncaps p) IH) in H. destruct cap; exact H.
    + rewrite amatch_any in H. eapply (any_go_len (amatch p) (ncaps p) IH), H.
Qed.

(* the match record of a successful anchored match *)
Definition whole_match (k : text) (ts : list text) : rmatch :=
  {| m_gap := []; m_start := 0; m_end := length k; m_str := k; m_caps := caps_of 0 ts; m_before := rev k; m_after := [] |}.
Theorem rx_captures_whole : forall p k,
  rx_captures (whole_rx p) k =
  match amatch p k with
  | Some ts => Some {| c_len := S (length ts); c_match := whole_match k ts |}
  | None => None
  end.
Proof.
  intros p k. unfold rx_captures. rewrite rx_find_whole, captures_len_whole.
  destruct (amatch p k) as [ts|] eqn:E; [|reflexivity]. rewrite (amatch_length _ _ _ E). reflexivity.
Qed.
Lemma caps_get_whole : forall k ts j,
  rx_caps_get {| c_len := S (length ts); c_match := whole_match k ts |} (S j) = nth_error ts j.
Proof.
  intros k ts j. unfold rx_caps_get. cbn [Nat.eqb c_len c_match whole_match m_caps].
  destruct (Nat.ltb (S j) (S (length ts))) eqn:E.
  - exact (cap_get_caps_of ts 0 j).
  - symmetry. apply nth_error_None. apply Nat.ltb_ge in E. lia.
Qed.
Lemma map_nth_error_seq : forall (ts : list text), map (nth_error ts) (seq 0 (length ts)) = map Some ts.
Proof.
  induction ts as [|t ts IH]; [reflexivity|]. cbn [length seq map nth_error]. f_equal.
  rewrite <- seq_shift, map_map. exact IH.
Qed.
Lemma caps_iter_whole : forall k ts,
  rx_caps_iter {| c_len := S (length ts); c_match := whole_match k ts |} = Some k :: map Some ts.
Proof.
  intros k ts. unfold rx_caps_iter. cbn [c_len seq map]. f_equal.
  rewrite <- seq_shift, map_map. rewrite <- map_nth_error_seq. apply map_ext. intros j. apply caps_get_whole.
Qed.
Lemma map_opt_some : forall (ts : list text),
  rs_iter_map_opt (fun v : option text => match v with Some u => Some u | None => None end) (map Some ts) = Some ts.
Proof. induction ts as [|t ts IH]; [reflexivity|]. cbn [map rs_iter_map_opt]. rewrite IH. reflexivity. Qed.

(* ---- the loop of key_get2 / key_get3: the value bound to the first name equal to the path variable *)
Fixpoint find_idx (v : text) (names : list text) : option nat :=
  match names with
  | [] => None
  | n :: ns => if rs_eq v n then Some 0 else option_map S (find_idx v ns)
  end.
Lemma cap_for_idx : forall v names cs,
  cap_for v names cs =
  match find_idx v names with
  | Some j => match nth_error cs j with Some t => t | None => [] end
  | None => []
  end.
Proof.
  intros v. induction names as [|n ns IH]; intros cs; [reflexivity|]. cbn [cap_for find_idx]. unfold rs_eq.
  destruct cs as [|c cs].
  - destruct (teqb v n); [reflexivity|]. destruct (find_idx v ns); reflexivity.
  - destruct (teqb v n); [reflexivity|]. rewrite IH. destruct (find_idx v ns); reflexivity.
Qed.
Lemma kg_loop : forall (R : Type) (slice : rmatch -> option text) (v : text) (val : nat -> R)
    (body : nat * rmatch -> unit -> flow unit R),
  (forall i key u, body (i, key) u =
     match slice key with
     | Some t => if rs_eq v t then LReturn (val i) else LNext tt
     | None => LPanic
     end) ->
  forall keys names i0, map slice keys = map Some names ->
  rs_for body (combine (seq i0 (length keys)) keys) tt =
  match find_idx v names with Some j => Returned (val (i0 + j)) | None => Done tt end.
Proof.
  intros R slice v val body Hb. induction keys as [|key keys IH]; intros names i0 Hn.
  - destruct names; [reflexivity|discriminate].
  - destruct names as [|n ns]; [discriminate|]. cbn [map] in Hn. injection Hn as Hk Hn.
    cbn [length seq combine]. rewrite rs_for_cons, Hb, Hk. cbn [find_idx].
    destruct (rs_eq v n).
    + rewrite Nat.add_0_r. reflexivity.
    + rewrite (IH ns (S i0) Hn). destruct (find_idx v ns); cbn [option_map]; [|reflexivity].
      f_equal. f_equal. lia.
Qed.

(* ---- the loop of key_match4: repeated names must bind equal text *)
Lemma hm_get_assoc : forall (m : list (text * text)) k, hm_get m k = assoc k m.
Proof. induction m as [|[k' v] m IH]; intros k; [reflexivity|]. cbn [hm_get assoc]. unfold rs_eq. rewrite IH. reflexivity. Qed.
Lemma hm_insert_absent : forall (m : list (text * text)) k v, hm_get m k = None -> hm_insert m k v = (k, v) :: m.
Proof.
  intros m k v H. unfold hm_insert. f_equal. induction m as [|[k' v'] m IH]; [reflexivity|].
  cbn [hm_get] in H. cbn [filter fst]. unfold rs_eq in *. rewrite (teqb_sym k' k).
  destruct (teqb k k'); [discriminate|]. cbn [negb]. rewrite IH by exact H. reflexivity.
Qed.
Lemma km4_loop : forall (body : text * text -> list (text * text) -> flow (list (text * text)) bool),
  (forall tok v vals, body (tok, v) vals =
     match hm_get vals tok with
     | Some ev => if negb (rs_eq ev v) then LReturn false else LNext vals
     | None => LNext (hm_insert vals tok v)
     end) ->
  forall toks ms seen,
  match rs_for body (combine toks ms) seen with
  | Done _ => FRet true
  | Returned r => FRet r
  | Panicked => FPanic
  end = FRet (consistent toks ms seen).
Proof.
  intros body Hb. induction toks as [|tok toks IH]; intros ms seen; [reflexivity|].
  destruct ms as [|v ms]; [reflexivity|]. cbn [combine consistent].
  rewrite rs_for_cons, Hb, hm_get_assoc. destruct (assoc tok seen) as [c0|] eqn:E.
  - unfold rs_eq. destruct (teqb c0 v); cbn [negb andb]; [apply IH|reflexivity].
  - rewrite hm_insert_absent by (rewrite hm_get_assoc; exact E). apply IH.
Qed.

(* ================================================================== *)
(* E. texts the crate refuses                                           *)
(* after a prefix of the class, a `{` that does not start a counted repetition (`{id}`, `{` at the end ..) *)
Theorem rx_compile_lbrace : forall f pre atoms tl,
  parse_atoms f pre = Some atoms -> lex_lbrace (hd_error tl) = RxReject ->
  rx_compile ("^"%char :: pre ++ lbrace :: tl) = RxBad RxReject.
Proof.
  intros f pre atoms tl H Hl. unfold rx_compile.
  change (rx_lex LNorm ("^"%char :: pre ++ lbrace :: tl)) with (KAtom false RStart :: rx_lex LNorm (pre ++ lbrace :: tl)).
  rewrite (lex_atoms _ _ _ H).
  change (rx_lex LNorm (lbrace :: tl)) with [KBad (lex_lbrace (hd_error tl))]. rewrite Hl.
  cbn [rx_run]. unfold set_cat, p_init. cbn [p_stack p_alts p_cat p_n].
  rewrite run_atoms by (cbn [p_stack length]; unfold rx_max_depth; lia). reflexivity.
Qed.

(* ================================================================== *)
(* F. alternatives of literal words (the class of PathMatch.regex_match_words): parser and matcher *)

(* what an expression matches, as a list of words: with ANY continuation whose success depends on the remaining text only *)
Definition pmatch (P : text -> bool) (s w : text) : bool :=
  match strip_prefix w s with Some s' => P s' | None => false end.
Definition words_rx (r : regex) (ws : list text) : Prop :=
  forall (P : text -> bool) (K : cont), (forall b s c, is_some (K b s c) = P s) ->
  forall b s c, is_some (mt r b s c K) = existsb (pmatch P s) ws.
(* .. and closed by kfin *)
Definition tail_sem (P : text -> bool) (r : regex) (ws : list text) : Prop :=
  forall b s c, is_some (mt r b s c kfin) = existsb (pmatch P s) ws.
Definition is_nil (s : text) : bool := match s with [] => true | _ :: _ => false end.
Definition all_t (s : text) : bool := true.

Lemma mt_lit_sem : forall w r (P : text -> bool) K, (forall b s c, is_some (mt r b s c K) = P s) ->
  forall b s c, is_some (mt (RLitThen w r) b s c K) = pmatch P s w.
Proof.
  intros w r P K H. induction w as [|c0 w IH]; intros b s c; cbn [RLitThen]; [apply H|].
  rewrite mt_cat, mt_char. unfold pmatch. destruct s as [|x s]; [reflexivity|]. cbn [strip_prefix].
  rewrite (Ascii.eqb_sym c0 x). destruct (Ascii.eqb x c0); [apply IH|reflexivity].
Qed.
Lemma pmatch_snoc : forall w0 cl (P : text -> bool) s,
  pmatch (fun s1 => match s1 with x :: s' => Ascii.eqb x cl && P s' | [] => false end) s w0 = pmatch P s (w0 ++ [cl]).
Proof.
  unfold pmatch. induction w0 as [|c0 w0 IH]; intros cl P s; cbn [app strip_prefix].
  - destruct s as [|x s]; [reflexivity|]. rewrite (Ascii.eqb_sym cl x). destruct (Ascii.eqb x cl); reflexivity.
  - destruct s as [|x s]; [reflexivity|]. destruct (Ascii.eqb c0 x); [apply IH|reflexivity].
Qed.
Lemma words_lit : forall w0 cl, words_rx (RLitThen w0 (RChar cl)) [w0 ++ [cl]].
Proof.
  intros w0 cl P K HK b s c. cbn [existsb]. rewrite orb_false_r, <- pmatch_snoc.
  apply mt_lit_sem. intros b0 s0 c0. rewrite mt_char. destruct s0 as [|x s0]; [reflexivity|].
  destruct (Ascii.eqb x cl); [apply HK|reflexivity].
Qed.
Lemma words_group : forall n r ws, words_rx r ws -> words_rx (RGroup n r) ws.
Proof. intros n r ws H P K HK b s c. rewrite mt_group. apply H. intros b0 s0 c0. apply HK. Qed.
Lemma words_alt : forall r1 r2 w1 w2, words_rx r1 w1 -> words_rx r2 w2 -> words_rx (RAlt r1 r2) (w1 ++ w2).
Proof.
  intros r1 r2 w1 w2 H1 H2 P K HK b s c. rewrite mt_alt, existsb_app, <- (H1 P K HK b s c), <- (H2 P K HK b s c).
  destruct (mt r1 b s c K); reflexivity.
Qed.
Lemma words_tail_all : forall r ws, words_rx r ws -> tail_sem all_t r ws.
Proof. intros r ws H b s c. apply H. reflexivity. Qed.
Lemma words_tail_end : forall r ws, words_rx r ws -> tail_sem is_nil (RCat r REnd) ws.
Proof. intros r ws H b s c. rewrite mt_cat. apply H. intros b0 s0 c0. destruct s0; reflexivity. Qed.

(* ---- the parser on words *)
Definition wf (c : ascii) : regex * akind := (RChar c, AkRep).
Definition word_toks (w : text) : list rtok := map (fun c => KAtom true (RChar c)) w.
Definition paren (w : text) : text := "("%char :: w ++ [")"%char].

Lemma safe_char_facts : forall c, is_safe_char c = true ->
  is_ascii c = true /\ Ascii.eqb c "?"%char = false /\ Ascii.eqb c "("%char = false.
Proof. intros c. destruct c as [[] [] [] [] [] [] [] []]; vm_compute; intros H; try discriminate H; repeat split. Qed.
Lemma lex_word : forall w rest, safe w -> rx_lex LNorm (w ++ rest) = word_toks w ++ rx_lex LNorm rest.
Proof.
  induction w as [|c w IH]; intros rest Hs; [reflexivity|]. inversion Hs as [|c0 w0 Hc Hw]; subst.
  cbn [app word_toks map]. rewrite lex_plain by (apply safe_plain, Hc).
  destruct (safe_char_facts c Hc) as [Ha _]. rewrite Ha, IH by exact Hw. reflexivity.
Qed.
Lemma lex_open : forall c tl, Ascii.eqb c "?"%char = false ->
  rx_lex LNorm ("("%char :: c :: tl) = KOpen true :: rx_lex LNorm (c :: tl).
Proof. intros c tl H. cbn [rx_lex]. change (Ascii.eqb "("%char "\"%char) with false. change (Ascii.eqb "("%char "["%char) with false.
  change (Ascii.eqb "("%char "("%char) with true. cbv iota. rewrite H. reflexivity. Qed.
Lemma lex_close : forall tl, rx_lex LNorm (")"%char :: tl) = KClose :: rx_lex LNorm tl.
Proof. reflexivity. Qed.
Lemma lex_bar : forall tl, rx_lex LNorm ("|"%char :: tl) = KBar :: rx_lex LNorm tl.
Proof. reflexivity. Qed.

Lemma run_word : forall w ts stk al ct n,
  rx_run (word_toks w ++ ts) {| p_stack := stk; p_alts := al; p_cat := ct; p_n := n |} =
  rx_run ts {| p_stack := stk; p_alts := al; p_cat := rev (map wf w) ++ ct; p_n := n |}.
Proof.
  induction w as [|c w IH]; intros ts stk al ct n; [reflexivity|].
  cbn [word_toks map app rx_run]. unfold set_cat. cbn [p_stack p_alts p_cat p_n]. fold (word_toks w).
  rewrite IH. cbn [map rev]. rewrite <- app_assoc. reflexivity.
Qed.
Lemma fold_lit : forall w z, fold_left (fun acc (x : regex * akind) => RCat (fst x) acc) (rev (map wf w)) z = RLitThen w z.
Proof.
  induction w as [|c w IH]; intros z; [reflexivity|]. cbn [map rev]. rewrite fold_left_app. cbn [fold_left wf fst RLitThen].
  rewrite IH. reflexivity.
Qed.
Lemma mk_cat_word : forall w, w <> [] -> words_rx (mk_cat (rev (map wf w))) [w].
Proof.
  intros w Hne. destruct (exists_last Hne) as [w0 [cl ->]]. rewrite map_app, rev_app_distr. cbn [map rev app mk_cat wf].
  rewrite fold_lit. apply words_lit.
Qed.

(* an item of an alternation: a word, bare or in parentheses *)
Definition item_ok (it : bool * text) : Prop := safe (snd it) /\ snd it <> [].
Definition item_text (it : bool * text) : text := if fst it then paren (snd it) else snd it.
Definition item_toks (it : bool * text) : list rtok :=
  if fst it then KOpen true :: word_toks (snd it) ++ [KClose] else word_toks (snd it).
Fixpoint alt_text (items : list (bool * text)) : text :=
  match items with
  | [] => []
  | [it] => item_text it
  | it :: rest => item_text it ++ "|"%char :: alt_text rest
  end.
Fixpoint alt_toks (items : list (bool * text)) : list rtok :=
  match items with
  | [] => []
  | [it] => item_toks it
  | it :: rest => item_toks it ++ KBar :: alt_toks rest
  end.

Lemma lex_item : forall it rest, item_ok it -> rx_lex LNorm (item_text it ++ rest) = item_toks it ++ rx_lex LNorm rest.
Proof.
  intros [par w] rest [Hs Hne]. cbn [fst snd] in *. unfold item_text, item_toks. cbn [fst snd]. destruct par.
  - destruct w as [|c w]; [contradiction|]. inversion Hs as [|c0 w0 Hc Hw]; subst.
    destruct (safe_char_facts c Hc) as [_ [Hq _]]. unfold paren. cbn [app]. rewrite lex_open by exact Hq.
    rewrite <- app_assoc. change (c :: w ++ [")"%char] ++ rest) with ((c :: w) ++ ")"%char :: rest).
    rewrite lex_word by exact Hs. rewrite lex_close, <- app_assoc. reflexivity.
  - apply lex_word, Hs.
Qed.
Lemma lex_alt : forall items rest, Forall item_ok items ->
  rx_lex LNorm (alt_text items ++ rest) = alt_toks items ++ rx_lex LNorm rest.
Proof.
  induction items as [|it items IH]; intros rest Hok; [reflexivity|]. inversion Hok as [|i0 l0 Hit Hrest]; subst.
  destruct items as [|it2 items].
  - cbn [alt_text alt_toks]. apply lex_item, Hit.
  - change (alt_text (it :: it2 :: items)) with (item_text it ++ "|"%char :: alt_text (it2 :: items)).
    change (alt_toks (it :: it2 :: items)) with (item_toks it ++ KBar :: alt_toks (it2 :: items)).
    rewrite <- !app_assoc, lex_item by exact Hit. cbn [app]. rewrite lex_bar, IH by exact Hrest. reflexivity.
Qed.

Lemma run_item : forall it ts stk al n, item_ok it -> length stk < rx_max_depth ->
  exists catl n',
    rx_run (item_toks it ++ ts) {| p_stack := stk; p_alts := al; p_cat := []; p_n := n |} =
    rx_run ts {| p_stack := stk; p_alts := al; p_cat := catl; p_n := n' |} /\ words_rx (mk_cat catl) [snd it].
Proof.
  intros [par w] ts stk al n [Hs Hne] Hd. cbn [fst snd] in *. unfold item_toks. cbn [fst snd]. destruct par.
  - exists [(RGroup (S n) (mk_cat (rev (map wf w))), AkRep)], (S n). split.
    + cbn [app rx_run p_stack p_alts p_cat p_n].
      replace (Nat.leb rx_max_depth (length stk)) with false by (symmetry; apply Nat.leb_gt; exact Hd).
      rewrite <- app_assoc, run_word. cbn [app rx_run p_stack p_alts p_cat p_n f_cap f_alts f_cat mk_alt fold_left].
      rewrite app_nil_r. reflexivity.
    + cbn [mk_cat fold_left]. apply words_group, mk_cat_word, Hne.
  - exists (rev (map wf w)), n. split.
    + rewrite run_word, app_nil_r. reflexivity.
    + apply mk_cat_word, Hne.
Qed.

(* the branches read so far (reversed), as words: whatever the last branch will be *)
Definition acc_sem (acc : list regex) (wsacc : list text) : Prop :=
  forall last wl, words_rx last wl -> words_rx (mk_alt last acc) (wsacc ++ wl).
Lemma acc_sem_nil : acc_sem [] [].
Proof. intros last wl H. exact H. Qed.
Lemma acc_sem_cons : forall acc wsacc x wx, acc_sem acc wsacc -> words_rx x wx -> acc_sem (x :: acc) (wsacc ++ wx).
Proof.
  intros acc wsacc x wx Ha Hx last wl Hl. unfold mk_alt. cbn [fold_left]. fold (mk_alt (RAlt x last) acc).
  rewrite <- app_assoc. apply Ha, words_alt; assumption.
Qed.

Lemma run_alt : forall items ts stk acc n wsacc, items <> [] -> Forall item_ok items ->
  length stk < rx_max_depth -> acc_sem acc wsacc ->
  exists catl acc' n',
    rx_run (alt_toks items ++ ts) {| p_stack := stk; p_alts := acc; p_cat := []; p_n := n |} =
    rx_run ts {| p_stack := stk; p_alts := acc'; p_cat := catl; p_n := n' |} /\
    words_rx (mk_alt (mk_cat catl) acc') (wsacc ++ map snd items).
Proof.
  induction items as [|it items IH]; intros ts stk acc n wsacc Hne Hok Hd Ha; [contradiction|].
  inversion Hok as [|i0 l0 Hit Hrest]; subst. destruct items as [|it2 items].
  - destruct (run_item it ts stk acc n Hit Hd) as [catl [n' [Hr Hw]]].
    exists catl, acc, n'. split; [exact Hr|]. cbn [map]. apply Ha, Hw.
  - change (alt_toks (it :: it2 :: items)) with (item_toks it ++ KBar :: alt_toks (it2 :: items)).
    rewrite <- app_assoc. destruct (run_item it ((KBar :: alt_toks (it2 :: items)) ++ ts) stk acc n Hit Hd) as [catl [n1 [Hr Hw]]].
    rewrite Hr. cbn [app rx_run p_stack p_alts p_cat p_n].
    destruct (IH ts stk (mk_cat catl :: acc) n1 (wsacc ++ [snd it]) ltac:(discriminate) Hrest Hd (acc_sem_cons _ _ _ _ Ha Hw))
      as [catl2 [acc2 [n2 [Hr2 Hw2]]]].
    exists catl2, acc2, n2. split; [exact Hr2|]. cbn [map]. rewrite <- app_assoc in Hw2. exact Hw2.
Qed.

(* an unanchored alternation *)
Theorem rx_compile_alt : forall items, items <> [] -> Forall item_ok items ->
  exists Y, rx_compile (alt_text items) = RxOk Y /\ words_rx Y (map snd items).
Proof.
  intros items Hne Hok. unfold rx_compile. rewrite <- (app_nil_r (alt_text items)), lex_alt by exact Hok.
  cbn [rx_lex]. unfold p_init.
  destruct (run_alt items [] [] [] 0 [] Hne Hok ltac:(cbn [length]; unfold rx_max_depth; lia) acc_sem_nil)
    as [catl [acc' [n' [Hr Hw]]]].
  rewrite Hr. cbn [rx_run p_stack p_cat p_alts]. eexists. split; [reflexivity|exact Hw].
Qed.

(* the core of an anchored pattern - one bare word, or an alternation in one pair of parentheses - read after
   cat0 (nothing, or the `^`): it adds the items catc to the concatenation *)
Definition core_sem (catc : list (regex * akind)) (ws : list text) : Prop :=
  catc <> [] /\ tail_sem all_t (mk_cat catc) ws /\
  tail_sem is_nil (fold_left (fun acc (x : regex * akind) => RCat (fst x) acc) catc REnd) ws.
Definition core_runs (ctoks : list rtok) (ws : list text) : Prop :=
  forall ts cat0, exists catc n',
    rx_run (ctoks ++ ts) {| p_stack := []; p_alts := []; p_cat := cat0; p_n := 0 |} =
    rx_run ts {| p_stack := []; p_alts := []; p_cat := catc ++ cat0; p_n := n' |} /\ core_sem catc ws.

Lemma core_word : forall w, w <> [] -> core_runs (word_toks w) [w].
Proof.
  intros w Hne ts cat0. exists (rev (map wf w)), 0. split; [apply run_word|]. split; [|split].
  - intros H. apply (f_equal (@length _)) in H. rewrite rev_length, map_length in H. destruct w; [contradiction|discriminate].
  - apply words_tail_all, mk_cat_word, Hne.
  - rewrite fold_lit. intros b s c. cbn [existsb]. rewrite orb_false_r. apply mt_lit_sem.
    intros b0 s0 c0. destruct s0; reflexivity.
Qed.
Lemma core_paren : forall items, items <> [] -> Forall item_ok items ->
  core_runs (KOpen true :: alt_toks items ++ [KClose]) (map snd items).
Proof.
  intros items Hne Hok ts cat0. cbn [app rx_run p_stack p_alts p_cat p_n length]. change (Nat.leb rx_max_depth 0) with false. cbv iota.
  rewrite <- app_assoc.
  destruct (run_alt items ([KClose] ++ ts) [{| f_cap := Some 1; f_alts := []; f_cat := cat0 |}] [] 1 [] Hne Hok
              ltac:(cbn [length]; unfold rx_max_depth; lia) acc_sem_nil) as [catl [acc' [n' [Hr Hw]]]].
  rewrite Hr. cbn [app rx_run p_stack p_alts p_cat p_n f_cap f_alts f_cat].
  exists [(RGroup 1 (mk_alt (mk_cat catl) acc'), AkRep)], n'. split; [reflexivity|]. cbn [app] in Hw.
  pose proof (words_group 1 _ _ Hw) as Hg. split; [discriminate|]. split.
  - cbn [mk_cat fold_left]. apply words_tail_all, Hg.
  - cbn [fold_left fst]. apply words_tail_end, Hg.
Qed.

Lemma lex_hat : forall tl, rx_lex LNorm ("^"%char :: tl) = KAtom false RStart :: rx_lex LNorm tl.
Proof. reflexivity. Qed.
Lemma lex_dollar : rx_lex LNorm ["$"%char] = [KAtom false REnd].
Proof. reflexivity. Qed.

(* the pattern [^] core [$] *)
Theorem rx_compile_anchored : forall (a_start a_end : bool) ctext ctoks ws,
  (forall rest, rx_lex LNorm (ctext ++ rest) = ctoks ++ rx_lex LNorm rest) -> core_runs ctoks ws ->
  exists Y, rx_compile ((if a_start then ["^"%char] else []) ++ ctext ++ (if a_end then ["$"%char] else [])) =
            RxOk (if a_start then RCat RStart Y else Y) /\
            tail_sem (if a_end then is_nil else all_t) Y ws.
Proof.
  intros a_start a_end ctext ctoks ws Hlex Hrun. unfold rx_compile, p_init.
  destruct a_start, a_end; cbn [app]; rewrite ?lex_hat, Hlex, ?lex_dollar; cbn [rx_lex rx_run]; unfold set_cat; cbn [p_stack p_alts p_cat p_n].
  - destruct (Hrun [KAtom false REnd] [(RStart, AkNoRep)]) as [catc [n' [Hr [Hne [_ He]]]]]. rewrite Hr.
    cbn [rx_run]. unfold set_cat. cbn [rx_run p_stack p_alts p_cat p_n mk_alt fold_left mk_cat].
    rewrite fold_left_app. cbn [fold_left fst]. eexists. split; [reflexivity|exact He].
  - destruct (Hrun [] [(RStart, AkNoRep)]) as [catc [n' [Hr [Hne [Ha _]]]]]. rewrite Hr.
    cbn [rx_run p_stack p_alts p_cat p_n mk_alt fold_left]. destruct catc as [|[z kz] before]; [contradiction|].
    cbn [app mk_cat]. rewrite fold_left_app. cbn [fold_left fst]. eexists. split; [reflexivity|exact Ha].
  - destruct (Hrun [KAtom false REnd] []) as [catc [n' [Hr [Hne [_ He]]]]]. rewrite Hr.
    cbn [rx_run]. unfold set_cat. cbn [rx_run p_stack p_alts p_cat p_n mk_alt fold_left mk_cat]. rewrite app_nil_r.
    eexists. split; [reflexivity|exact He].
  - destruct (Hrun [] []) as [catc [n' [Hr [Hne [Ha _]]]]]. rewrite Hr.
    cbn [rx_run p_stack p_alts p_cat p_n mk_alt fold_left]. rewrite app_nil_r. eexists. split; [reflexivity|exact Ha].
Qed.

(* ---- the search *)
Fixpoint ex_suffix (Q : text -> bool) (s : text) : bool :=
  match s with [] => Q [] | _ :: s' => Q s || ex_suffix Q s' end.
Lemma match_any : forall P Y ws, tail_sem P Y ws ->
  forall k, rx_is_match Y k = ex_suffix (fun s => existsb (pmatch P s) ws) k.
Proof.
  intros P Y ws H k. unfold rx_is_match, rx_find.
  assert (Hs : forall s b g, is_some (search Y b s g) = ex_suffix (fun s0 => existsb (pmatch P s0) ws) s).
  { induction s as [|x s IH]; intros b g; cbn [search ex_suffix]; rewrite <- (H b _ []).
    - destruct (mt Y b [] [] kfin) as [[[b1 s1] c]|]; reflexivity.
    - destruct (mt Y b (x :: s) [] kfin) as [[[b1 s1] c]|]; [reflexivity|]. cbn [is_some orb]. apply IH. }
  specialize (Hs k [] []). destruct (search Y [] k []); exact Hs.
Qed.
Lemma match_start : forall P Y ws, tail_sem P Y ws ->
  forall k, rx_is_match (RCat RStart Y) k = existsb (pmatch P k) ws.
Proof.
  intros P Y ws H k. unfold rx_is_match, rx_find. rewrite <- (H [] k []).
  assert (Hm : mt (RCat RStart Y) [] k [] kfin = mt Y [] k [] kfin) by (rewrite mt_cat; reflexivity).
  destruct (mt Y [] k [] kfin) as [[[b1 s1] c]|] eqn:E.
  - rewrite (search_hit _ _ _ _ _ _ Hm). reflexivity.
  - destruct k as [|x k].
    + rewrite search_end by exact Hm. reflexivity.
    + rewrite (search_miss _ _ _ _ Hm), search_start_later by discriminate. reflexivity.
Qed.

(* the four readings of the model *)
Lemma pmatch_all : forall k w, pmatch all_t k w = is_prefix w k.
Proof. intros k w. unfold pmatch, all_t. rewrite is_prefix_strip. destruct (strip_prefix w k); reflexivity. Qed.
Lemma pmatch_nil : forall k w, pmatch is_nil k w = teqb w k.
Proof.
  intros k w. unfold pmatch. revert k. induction w as [|c w IH]; intros k; cbn [strip_prefix teqb].
  - destruct k; reflexivity.
  - destruct k as [|d k]; [reflexivity|]. destruct (Ascii.eqb c d); [apply IH|reflexivity].
Qed.
Lemma existsb_orb : forall {A} (f g : A -> bool) l, existsb (fun x => f x || g x) l = existsb f l || existsb g l.
Proof.
  intros A f g. induction l as [|x l IH]; [reflexivity|]. cbn [existsb]. rewrite IH.
  destruct (f x), (g x), (existsb f l); reflexivity.
Qed.
Lemma ex_suffix_existsb : forall (Q : text -> text -> bool) ws k,
  ex_suffix (fun s => existsb (Q s) ws) k = existsb (fun w => ex_suffix (fun s => Q s w) k) ws.
Proof.
  intros Q ws. induction k as [|x k IH]; cbn [ex_suffix]; [reflexivity|]. rewrite IH, <- existsb_orb. reflexivity.
Qed.
Lemma ex_suffix_infix : forall w k, ex_suffix (fun s => is_prefix w s) k = is_infix w k.
Proof.
  intros w. induction k as [|x k IH]; cbn [ex_suffix is_infix]; [destruct w; reflexivity|]. rewrite IH. reflexivity.
Qed.
Lemma ex_suffix_spec : forall Q k, ex_suffix Q k = true <-> exists p s, k = p ++ s /\ Q s = true.
Proof.
  intros Q. induction k as [|x k IH]; cbn [ex_suffix].
  - split; [intros H; exists [], []; split; [reflexivity|exact H]|].
    intros [p [s [E H]]]. destruct p; [|discriminate]. cbn [app] in E. subst s. exact H.
  - rewrite orb_true_iff, IH. split.
    + intros [H|[p [s [E H]]]]; [exists [], (x :: k); split; [reflexivity|exact H]|]. exists (x :: p), s. subst k. split; [reflexivity|exact H].
    + intros [p [s [E H]]]. destruct p as [|y p]; [cbn [app] in E; subst s; left; exact H|].
      cbn [app] in E. injection E as -> ->. right. exists p, s. split; [reflexivity|exact H].
Qed.
Lemma ex_suffix_suffix : forall w k, ex_suffix (fun s => teqb w s) k = is_prefix (rev w) (rev k).
Proof.
  intros w k. apply Bool.eq_iff_eq_true. rewrite ex_suffix_spec, is_prefix_spec. split.
  - intros [p [s [E H]]]. apply teqb_eq in H. subst s k. exists (rev p). apply rev_app_distr.
  - intros [t E]. exists (rev t), w. split; [|apply teqb_refl].
    rewrite <- (rev_involutive k), E, rev_app_distr, rev_involutive. reflexivity.
Qed.

(* ---- reading the text back: split_bar / strip_parens *)
Fixpoint join_bar (l : list text) : text :=
  match l with
  | [] => []
  | [x] => x
  | x :: l' => x ++ "|"%char :: join_bar l'
  end.
Lemma split_bar_nonempty : forall s cur, split_bar s cur <> [].
Proof. induction s as [|c s IH]; intros cur; cbn [split_bar]; [discriminate|]. destruct (Ascii.eqb c "|"%char); [discriminate|apply IH]. Qed.
Lemma split_bar_join : forall s cur, join_bar (split_bar s cur) = rev cur ++ s.
Proof.
  induction s as [|c s IH]; intros cur; cbn [split_bar]; [cbn [join_bar]; rewrite app_nil_r; reflexivity|].
  destruct (Ascii.eqb c "|"%char) eqn:E.
  - apply Ascii.eqb_eq in E. subst c. pose proof (split_bar_nonempty s []) as Hne. specialize (IH []).
    destruct (split_bar s []) as [|y l]; [contradiction|]. cbn [join_bar]. cbn [join_bar rev app] in IH. rewrite IH. reflexivity.
  - rewrite IH. cbn [rev]. rewrite <- app_assoc. reflexivity.
Qed.
Lemma strip_parens_cases : forall x, strip_parens x = x \/ x = paren (strip_parens x).
Proof.
  intros [|c r]; [left; reflexivity|]. cbn [strip_parens]. destruct (Ascii.eqb c "("%char) eqn:Ec; [|left; reflexivity].
  apply Ascii.eqb_eq in Ec. subst c. destruct (rev r) as [|d m] eqn:Er; [left; reflexivity|].
  destruct (Ascii.eqb d ")"%char) eqn:Ed; [|left; reflexivity]. apply Ascii.eqb_eq in Ed. subst d. right.
  unfold paren. f_equal. rewrite <- (rev_involutive r), Er. reflexivity.
Qed.
Definition mkitem (x : text) : bool * text := (negb (teqb (strip_parens x) x), strip_parens x).
Lemma mkitem_text : forall x, item_text (mkitem x) = x.
Proof.
  intros x. unfold mkitem, item_text. cbn [fst snd]. destruct (teqb (strip_parens x) x) eqn:E; cbn [negb].
  - apply teqb_eq, E.
  - destruct (strip_parens_cases x) as [H|H]; [rewrite H, teqb_refl in E; discriminate|symmetry; exact H].
Qed.
Lemma alt_text_mkitems : forall xs, alt_text (map mkitem xs) = join_bar xs.
Proof.
  induction xs as [|x xs IH]; [reflexivity|]. destruct xs as [|y xs].
  - cbn [map alt_text join_bar]. apply mkitem_text.
  - change (alt_text (map mkitem (x :: y :: xs))) with (item_text (mkitem x) ++ "|"%char :: alt_text (map mkitem (y :: xs))).
    rewrite IH, mkitem_text. reflexivity.
Qed.
Lemma mkitems_ok : forall xs, forallb safe_word (map strip_parens xs) = true -> Forall item_ok (map mkitem xs).
Proof.
  induction xs as [|x xs IH]; intros H; [constructor|]. cbn [map forallb] in H. apply andb_true_iff in H. destruct H as [Hx Hxs].
  constructor; [|apply IH, Hxs]. apply safe_word_safe in Hx. destruct Hx as [Hne Hs]. split; [exact Hs|exact Hne].
Qed.
Lemma mkitems_words : forall xs, map snd (map mkitem xs) = map strip_parens xs.
Proof. intros xs. rewrite map_map. reflexivity. Qed.
Lemma ex_suffix_ext : forall (Q Q' : text -> bool) k, (forall s, Q s = Q' s) -> ex_suffix Q k = ex_suffix Q' k.
Proof. intros Q Q' k H. induction k as [|x k IH]; cbn [ex_suffix]; [apply H|]. rewrite H, IH. reflexivity. Qed.
(* [^] Y [$] read as the model reads it *)
Theorem model_reading : forall (a_start a_end : bool) Y ws k, tail_sem (if a_end then is_nil else all_t) Y ws ->
  rx_is_match (if a_start then RCat RStart Y else Y) k =
  existsb (fun w => match a_start, a_end with
                    | true, true => teqb w k
                    | true, false => is_prefix w k
                    | false, true => is_prefix (rev w) (rev k)
                    | false, false => is_infix w k
                    end) ws.
Proof.
  intros a_start a_end Y ws k Ht. destruct a_start, a_end.
  - rewrite (match_start _ _ _ Ht). apply existsb_ext_pt. intros w. apply pmatch_nil.
  - rewrite (match_start _ _ _ Ht). apply existsb_ext_pt. intros w. apply pmatch_all.
  - rewrite (match_any _ _ _ Ht), ex_suffix_existsb. apply existsb_ext_pt. intros w.
    rewrite <- ex_suffix_suffix. apply ex_suffix_ext. intros s. apply pmatch_nil.
  - rewrite (match_any _ _ _ Ht), ex_suffix_existsb. apply existsb_ext_pt. intros w.
    rewrite <- ex_suffix_infix. apply ex_suffix_ext. intros s. apply pmatch_all.
Qed.
Lemma alt_text_head : forall items, items <> [] -> Forall item_ok items ->
  exists c tl, alt_text items = c :: tl /\ Ascii.eqb c "?"%char = false.
Proof.
  intros [|[par w] rest] Hne Hok; [contradiction|]. inversion Hok as [|i0 l0 [Hs Hw] Hrest]; subst. cbn [fst snd] in *.
  assert (Hit : exists c tl, item_text (par, w) = c :: tl /\ Ascii.eqb c "?"%char = false).
  { unfold item_text. cbn [fst snd]. destruct par.
    - exists "("%char, (w ++ [")"%char]). split; reflexivity.
    - destruct w as [|c w]; [contradiction|]. inversion Hs as [|c0 w0 Hc Hw0]; subst. exists c, w. split; [reflexivity|].
      apply (safe_char_facts c Hc). }
  destruct Hit as [c [tl [E Hc]]]. destruct rest as [|it2 rest].
  - exists c, tl. split; [exact E|exact Hc].
  - exists c, (tl ++ "|"%char :: alt_text (it2 :: rest)). split; [|exact Hc].
    change (alt_text ((par, w) :: it2 :: rest)) with (item_text (par, w) ++ "|"%char :: alt_text (it2 :: rest)). rewrite E. reflexivity.
Qed.
Lemma lex_paren_alt : forall items rest, items <> [] -> Forall item_ok items ->
  rx_lex LNorm (paren (alt_text items) ++ rest) = (KOpen true :: alt_toks items ++ [KClose]) ++ rx_lex LNorm rest.
Proof.
  intros items rest Hne Hok. destruct (alt_text_head items Hne Hok) as [c [tl [E Hc]]].
  unfold paren. cbn [app]. rewrite <- !app_assoc.
  assert (Ho : forall tl2, rx_lex LNorm ("("%char :: alt_text items ++ tl2) = KOpen true :: rx_lex LNorm (alt_text items ++ tl2)).
  { intros tl2. rewrite E. cbn [app]. apply lex_open, Hc. }
  rewrite Ho, lex_alt by exact Hok. cbn [app]. rewrite lex_close. reflexivity.
Qed.
