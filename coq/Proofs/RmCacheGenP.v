(* rs2coq part 23: general lemmas for the CACHED role manager (Gen/RmCacheGen.v,
   tools/rs2coq_rmcache.py); nothing here mentions a generated term.
     A. loops at two return types: the cached functions return one component
        more than the uncached ones, so the `rs_for` / `rs_while_some` of the two
        translations differ in their type argument R; bodies that agree on
        LNext / LBreak / LPanic and return related values give related loops
     B. the mini-moka cache of Gen/MokaRt.v at K = nat (u64), V = bool
     C. the cache key: `hkey hfin (a, b, dk) = hfin [a; b; dk]`; collision
        freedom on a set of keys (`hfin_inj_on`) - THE hypothesis about the hasher
     D. the translated cache as a SUB-cache of the model's (Model/RmCache.v):
        every hit, under a key in play, is an entry the model's list holds;
        kept by forgetting, by clearing when the model clears, by a query *)
From CV Require Import Model.Base Model.RoleGraph Model.RmCache.
From CV Require Import Gen.RustStr Gen.RustVec Gen.RustIter Gen.MokaRt Gen.Model2Gen Gen.RmCacheRt.
From CV Require Import Proofs.ListAux Proofs.BaseP Proofs.RoleGraphP Proofs.RustVecP Proofs.PetgraphP Proofs.RmCacheP.
From Coq Require Import Lia PeanoNat.

(* ================================================================== *)
(* A. loops at two return types                                        *)
Section FlowSim.
  Context {S R1 R2 : Type}.
  Variable Q : R1 -> R2 -> Prop.

  Definition flow_sim (f1 : flow S R1) (f2 : flow S R2) : Prop :=
    match f1, f2 with
    | LNext s1, LNext s2 => s1 = s2
    | LBreak s1, LBreak s2 => s1 = s2
    | LReturn r1, LReturn r2 => Q r1 r2
    | LPanic, LPanic => True
    | _, _ => False
    end.

  Definition loop_sim (l1 : loop_result S R1) (l2 : loop_result S R2) : Prop :=
    match l1, l2 with
    | Done s1, Done s2 => s1 = s2
    | Returned r1, Returned r2 => Q r1 r2
    | Panicked, Panicked => True
    | _, _ => False
    end.

  Lemma rs_for_sim : forall {A} (b1 : A -> S -> flow S R1) (b2 : A -> S -> flow S R2) l s,
    (forall x s, In x l -> flow_sim (b1 x s) (b2 x s)) ->
    loop_sim (rs_for b1 l s) (rs_for b2 l s).
  Proof.
    intros A b1 b2. induction l as [|x l IH]; intros s H.
    - rewrite !rs_for_nil. reflexivity.
    - rewrite !rs_for_cons. pose proof (H x s (or_introl eq_refl)) as Hx.
      destruct (b1 x s) as [s1|s1|r1|], (b2 x s) as [s2|s2|r2|]; cbn [flow_sim] in Hx; try contradiction.
      + subst s2. apply IH. intros y s' Hy. apply H. right. exact Hy.
      + exact Hx.
      + exact Hx.
      + exact I.
  Qed.

  Lemma rs_while_some_sim : forall {X} fuel (next : S -> option (S * option X))
      (b1 : X -> S -> flow S R1) (b2 : X -> S -> flow S R2) s,
    (forall x s, flow_sim (b1 x s) (b2 x s)) ->
    loop_sim (rs_while_some fuel next b1 s) (rs_while_some fuel next b2 s).
  Proof.
    intros X. induction fuel as [|fuel IH]; intros next b1 b2 s H; [exact I|].
    rewrite !rs_while_some_S. destruct (next s) as [[s1 [x|]]|]; [|reflexivity|exact I].
    pose proof (H x s1) as Hx.
    destruct (b1 x s1) as [t1|t1|r1|], (b2 x s1) as [t2|t2|r2|]; cbn [flow_sim] in Hx; try contradiction.
    - subst t2. apply IH, H.
    - exact Hx.
    - exact Hx.
    - exact I.
  Qed.
End FlowSim.

(* ================================================================== *)
(* B. the cache at K = nat, V = bool                                   *)
Notation ncache := (moka nat bool).

Definition nlook (c : ncache) (k : nat) : option bool := moka_lookup Nat.eqb (mk_entries c) k.

(* c' holds nothing that c does not hold *)
Definition nsub (c' c : ncache) : Prop := forall k v, nlook c' k = Some v -> nlook c k = Some v.

Lemma nsub_refl : forall c, nsub c c.
Proof. intros c k v H. exact H. Qed.

Lemma nsub_trans : forall a b c, nsub a b -> nsub b c -> nsub a c.
Proof. intros a b c H1 H2 k v H. apply H2, H1, H. Qed.

Lemma nsub_empty : forall c' c, mk_entries c' = [] -> nsub c' c.
Proof. intros c' c H k v. unfold nlook. rewrite H. discriminate. Qed.

Lemma lookup_filter_keep : forall (keep : nat -> bool) (l : list (nat * bool)) k v,
  moka_lookup Nat.eqb (filter (fun e => keep (fst e)) l) k = Some v -> moka_lookup Nat.eqb l k = Some v.
Proof.
  intros keep. induction l as [|[k' v'] l IH]; intros k v; cbn [filter moka_lookup fst]; [discriminate|].
  destruct (keep k') eqn:Ek; cbn [moka_lookup].
  - destruct (Nat.eqb k k'); [intros H; exact H|apply IH].
  - destruct (Nat.eqb k k') eqn:E.
    + apply Nat.eqb_eq in E. subst k'. intros H. exfalso.
      clear IH. induction l as [|[k2 v2] l IH2]; cbn [filter moka_lookup fst] in H; [discriminate|].
      destruct (keep k2) eqn:E2; cbn [moka_lookup] in H.
      * destruct (Nat.eqb k k2) eqn:E3; [apply Nat.eqb_eq in E3; subst k2; congruence|apply IH2, H].
      * apply IH2, H.
    + apply IH.
Qed.

Lemma tick_nsub : forall c : ncache, nsub (moka_tick c) c.
Proof.
  intros c k v. unfold nlook, moka_tick. destruct (mk_sched c) as [|keep s]; [intros H; exact H|].
  cbn [mk_entries]. apply lookup_filter_keep.
Qed.

Lemma gen_cache_clear_entries : forall c : ncache, mk_entries (gen_cache_clear nat bool Nat.eqb c) = [].
Proof. reflexivity. Qed.

Lemma gen_cache_new_entries : forall sched cap, mk_entries (gen_cache_new nat bool sched cap) = [].
Proof. reflexivity. Qed.

Lemma gen_cache_get_spec : forall (c : ncache) k,
  nsub (fst (gen_cache_get nat bool Nat.eqb c k)) c /\
  snd (gen_cache_get nat bool Nat.eqb c k) = nlook (fst (gen_cache_get nat bool Nat.eqb c k)) k.
Proof. intros c k. unfold gen_cache_get, rs_moka_get. cbn [fst snd]. split; [apply tick_nsub|reflexivity]. Qed.

Lemma gen_cache_has_spec : forall (c : ncache) k,
  nsub (fst (gen_cache_has nat bool Nat.eqb c k)) c.
Proof. intros c k. unfold gen_cache_has, rs_moka_contains_key. cbn [fst]. apply tick_nsub. Qed.

Lemma lookup_filter_other : forall (l : list (nat * bool)) k k',
  Nat.eqb k' k = false ->
  moka_lookup Nat.eqb (filter (fun e => negb (Nat.eqb (fst e) k)) l) k' = moka_lookup Nat.eqb l k'.
Proof.
  intros l k k' E. induction l as [|[k2 v2] l IH]; cbn [filter moka_lookup fst]; [reflexivity|].
  destruct (Nat.eqb k2 k) eqn:E2; cbn [negb moka_lookup].
  - apply Nat.eqb_eq in E2. subst k2. rewrite E. exact IH.
  - rewrite IH. reflexivity.
Qed.

(* what is held after a `set`: the new entry, or something held before *)
Lemma gen_cache_set_spec : forall (c : ncache) k v k' v',
  nlook (gen_cache_set nat bool Nat.eqb c k v) k' = Some v' ->
  (k' = k /\ v' = v) \/ nlook c k' = Some v'.
Proof.
  intros c k v k' v'. unfold gen_cache_set, rs_moka_insert, nlook. cbn [mk_entries moka_lookup].
  destruct (Nat.eqb k' k) eqn:E.
  - apply Nat.eqb_eq in E. intros H. injection H as <-. left. split; [exact E|reflexivity].
  - rewrite (lookup_filter_other _ _ _ E). intros H. right. apply (tick_nsub c), H.
Qed.

(* ================================================================== *)
(* C. the key                                                          *)
(* the digest of the three strings fed one after the other *)
Definition hkey (hfin : hasher -> nat) (k : rkey) : nat := hfin [fst (fst k); snd (fst k); snd k].

Lemma hkey_of : forall hfin a b d, hkey hfin (rkey_of a b d) = hfin [a; b; dom_key d].
Proof. reflexivity. Qed.

(* THE hypothesis about DefaultHasher: no two of the keys in play (the set S) collide *)
Definition hfin_inj_on (hfin : hasher -> nat) (S : rkey -> Prop) : Prop :=
  forall k1 k2, S k1 -> S k2 -> hkey hfin k1 = hkey hfin k2 -> k1 = k2.

(* a digest that is injective on ALL sequences is collision-free on every set *)
Lemma hfin_inj_all : forall hfin S, (forall l1 l2, hfin l1 = hfin l2 -> l1 = l2) -> hfin_inj_on hfin S.
Proof.
  intros hfin S H [[a b] d] [[a' b'] d'] _ _ E. unfold hkey in E. cbn [fst snd] in E.
  apply H in E. injection E as -> -> ->. reflexivity.
Qed.

Lemma hfin_inj_on_weaken : forall hfin (S S' : rkey -> Prop),
  (forall k, S' k -> S k) -> hfin_inj_on hfin S -> hfin_inj_on hfin S'.
Proof. intros hfin S S' Hs H k1 k2 H1 H2. apply H; apply Hs; assumption. Qed.

(* ================================================================== *)
(* D. the translated cache as a sub-cache of the model's               *)
Definition cache_sub (hfin : hasher -> nat) (S : rkey -> Prop) (c : ncache) (mc : list (rkey * bool)) : Prop :=
  forall k r, S k -> nlook c (hkey hfin k) = Some r -> rc_get k mc = Some r.

Lemma cache_sub_nsub : forall hfin S c' c mc, nsub c' c -> cache_sub hfin S c mc -> cache_sub hfin S c' mc.
Proof. intros hfin S c' c mc Hs H k r Hk Hl. apply (H k r Hk), Hs, Hl. Qed.

Lemma cache_sub_empty : forall hfin S c mc, mk_entries c = [] -> cache_sub hfin S c mc.
Proof. intros hfin S c mc H k r _. unfold nlook. rewrite H. discriminate. Qed.

(* what a mutator does to the cache: nothing, or it empties it *)
Definition kept_or_cleared (c c' : ncache) : Prop := c' = c \/ mk_entries c' = [].

Lemma kept_or_cleared_refl : forall c, kept_or_cleared c c.
Proof. intros c. left. reflexivity. Qed.

Lemma kept_or_cleared_clear : forall c, kept_or_cleared c (gen_cache_clear nat bool Nat.eqb c).
Proof. intros c. right. reflexivity. Qed.

Lemma kept_or_cleared_trans : forall a b c, kept_or_cleared a b -> kept_or_cleared b c -> kept_or_cleared a c.
Proof.
  intros a b c [->|H1] [->|H2]; unfold kept_or_cleared; auto.
Qed.

(* once emptied, a cache that is only kept or cleared stays empty *)
Lemma kept_or_cleared_empty : forall a b, mk_entries a = [] -> kept_or_cleared a b -> mk_entries b = [].
Proof. intros a b H [->|H2]; assumption. Qed.

Lemma kept_or_cleared_nsub : forall c c', kept_or_cleared c c' -> nsub c' c.
Proof. intros c c' [->|H]; [apply nsub_refl|apply nsub_empty, H]. Qed.

(* a mutator of the model that clears when `flag`: the translated one may clear
   more often, never less *)
Lemma cache_sub_mutator : forall hfin S c c' mc (flag : bool),
  cache_sub hfin S c mc -> kept_or_cleared c c' -> (flag = true -> mk_entries c' = []) ->
  cache_sub hfin S c' (if flag then [] else mc).
Proof.
  intros hfin S c c' mc flag H Hk Hf. destruct flag.
  - apply cache_sub_empty, Hf, eq_refl.
  - apply (cache_sub_nsub hfin S c' c); [apply kept_or_cleared_nsub, Hk|exact H].
Qed.

(* what a translated query does: its answer r is the uncached answer ur, or a value held
   under the key K; afterwards the cache holds what it held before and possibly - when
   the two names differ - (K, ur) *)
Definition query_outcome (c c' : ncache) (K : nat) (distinct : bool) (ur r : bool) : Prop :=
  (r = ur \/ nlook c K = Some r) /\
  (forall k v, nlook c' k = Some v -> nlook c k = Some v \/ (k = K /\ v = ur /\ distinct = true)).

(* such a query is a query of the model: same answer, and still a sub-cache *)
Lemma cache_sub_query : forall hfin S maxd (M : rmc) c c' a b d r,
  hfin_inj_on hfin S -> S (rkey_of a b d) -> RcInv maxd M -> cache_sub hfin S c (rc_cache M) ->
  query_outcome c c' (hkey hfin (rkey_of a b d)) (negb (teqb a b)) (has_link maxd (rc_rm M) a b d) r ->
  r = snd (rc_has_link maxd M a b d) /\
  cache_sub hfin S c' (rc_cache (fst (rc_has_link maxd M a b d))).
Proof.
  intros hfin S maxd M c c' a b d r Hinj Hk Hinv Hsub [Hr Hc'].
  pose proof (rc_has_link_spec maxd M a b d Hinv) as (Hans & _ & _).
  destruct Hinv as [Hwf Hcoh].
  assert (Er : r = has_link maxd (rc_rm M) a b d).
  { destruct Hr as [->|Hl]; [reflexivity|]. symmetry. apply Hcoh. apply (Hsub _ _ Hk Hl). }
  split; [rewrite Hans; exact Er|].
  unfold rc_has_link. destruct (teqb a b) eqn:Eab; cbn [fst negb] in *.
  - intros k v Sk Hl. destruct (Hc' _ _ Hl) as [Ho|(_ & _ & X)]; [apply (Hsub k v Sk Ho)|discriminate X].
  - destruct (rc_get (rkey_of a b d) (rc_cache M)) as [rm|] eqn:Eg; cbn [fst rc_cache].
    + intros k v Sk Hl. destruct (Hc' _ _ Hl) as [Ho|(Ek & -> & _)]; [apply (Hsub k v Sk Ho)|].
      apply (Hinj _ _ Sk Hk) in Ek. subst k. rewrite Eg. f_equal. symmetry. apply Hcoh, Eg.
    + intros k v Sk Hl. cbn [rc_get].
      destruct (rkey_eqb k (rkey_of a b d)) eqn:Ek.
      * apply rkey_eqb_eq in Ek. subst k.
        destruct (Hc' _ _ Hl) as [Ho|(_ & -> & _)]; [|reflexivity].
        pose proof (Hsub _ _ Sk Ho) as X. rewrite Eg in X. discriminate X.
      * destruct (Hc' _ _ Hl) as [Ho|(Ek2 & _ & _)]; [apply (Hsub k v Sk Ho)|].
        apply (Hinj _ _ Sk Hk) in Ek2. subst k.
        rewrite (proj2 (rkey_eqb_eq _ _) eq_refl) in Ek. discriminate Ek.
Qed.
