(* C07 at the level of the TRANSLATED SOURCE: the headline theorems of Properties/C07.v restated about `src_step` /
   `src_run_ops` / `src_enforce` / `src_ask` (Proofs/SrcStepP.v, Proofs/SrcQueryP.v: the Gallina generated each run
   from src/internal_api.rs, src/rbac_api.rs, src/management_api.rs, src/enforcer.rs).
   Proofs: the C07 theorems (Proofs/C07P.v) composed with src_step_eq & co. *)
From CV Require Import Model.Base Model.Effector Model.RoleGraph Model.PathMatch Model.Expr
     Model.Enforce Model.Engine Model.SpecC13 Model.SpecC07.
From CV Require Import Proofs.BaseP Proofs.RoleGraphP Proofs.C13P Proofs.C07P.
From CV Require Import Proofs.SrcStepP Proofs.SrcQueryP.

(* ---- one translated call of another tenant ---- *)
(* whatever its outcome (accepted, refused by the adapter, failing, panicking), an operation confined to d' <> d
   leaves the view of d untouched *)
Lemma src_c07_view_preserved : forall s o d d',
  rbac_dom_any s = true -> confined d' o = true -> d' <> d ->
  view d (fst (src_step s o)) = view d s.
Proof. intros s o d d' Hs Hc Hd. rewrite src_step_eq. apply (view_preserved s o d d'); assumption. Qed.

(* ---- decisions are functions of the view ---- *)
(* two configurations with the same definitions that store the same things for d decide every request of d alike *)
Lemma src_c07_decided_by_view : forall ptab s1 s2 d,
  rbac_dom_any s1 = true -> rbac_dom_any s2 = true -> same_conf s1 s2 ->
  p_arity_ok s1 -> p_arity_ok s2 ->
  view d s1 = view d s2 -> d <> [] ->
  forall sub obj act,
    src_enforce ptab s1 [VStr sub; VStr d; VStr obj; VStr act] =
    src_enforce ptab s2 [VStr sub; VStr d; VStr obj; VStr act].
Proof.
  intros ptab s1 s2 d H1 H2 Hc Ha1 Ha2 Hv Hd sub obj act. rewrite !src_enforce_eq.
  apply (decided_by_view ptab s1 s2 d); assumption.
Qed.

(* ---- isolation over histories ---- *)
(* any history in which every operation is confined to some domain other than d keeps the view of d and the scope *)
Lemma src_c07_isolation_view : forall d ops s,
  rbac_dom_any s = true -> Forall (foreign d) ops ->
  view d (src_run_ops s ops) = view d s /\ rbac_dom_any (src_run_ops s ops) = true /\
  same_conf s (src_run_ops s ops).
Proof. intros d ops s Hs Hf. rewrite src_run_ops_eq. apply isolation_view; assumption. Qed.

(* hence every decision and every role query of d is unchanged *)
Lemma src_c07_isolation : forall ptab d ops s,
  rbac_dom_any s = true -> Forall (foreign d) ops -> d <> [] ->
  let s' := src_run_ops s ops in
  (p_arity_ok s -> p_arity_ok s' ->
   forall sub obj act,
     src_enforce ptab s' [VStr sub; VStr d; VStr obj; VStr act] =
     src_enforce ptab s [VStr sub; VStr d; VStr obj; VStr act]) /\
  (forall n, roles_for_user s' n (Some d) = roles_for_user s n (Some d) /\
             users_for_role s' n (Some d) = users_for_role s n (Some d) /\
             implicit_roles s' n (Some d) = implicit_roles s n (Some d)) /\
  (forall a b, has_link (f_rm_max (e_fs s')) (f_rm (e_fs s')) a b (Some d) =
               has_link (f_rm_max (e_fs s)) (f_rm (e_fs s)) a b (Some d)) /\
  (two_fields s -> two_fields s' ->
   forall n, perms_for_user s' n (Some d) = perms_for_user s n (Some d) /\
             implicit_perms s' n (Some d) = implicit_perms s n (Some d)).
Proof.
  intros ptab d ops s Hs Hf Hd. cbv zeta. rewrite src_run_ops_eq.
  pose proof (isolation ptab d ops s Hs Hf Hd) as H. cbv zeta in H.
  destruct H as (H1 & H2 & H3 & H4).
  split; [|split; [exact H2|split; [exact H3|exact H4]]].
  intros Ha Ha' sub obj act. rewrite !src_enforce_eq. apply H1; assumption.
Qed.

(* ---- the executable predicate ---- *)
Lemma src_c07_query_stable : forall ptab d ops s q,
  rbac_dom_any s = true -> Forall (foreign d) ops -> d <> [] ->
  p_arity_ok s -> p_arity_ok (src_run_ops s ops) ->
  dom_query d q = true ->
  src_ask ptab (src_run_ops s ops) q = src_ask ptab s q.
Proof.
  intros ptab d ops s q Hs Hf Hd Ha Ha' Hq. rewrite !src_ask_eq. rewrite src_run_ops_eq in *.
  apply (dom_query_stable ptab d ops s q); assumption.
Qed.

Lemma src_c07_pred_holds : forall ptab d ops s qs,
  rbac_dom_any s = true -> Forall (foreign d) ops -> d <> [] ->
  p_arity_ok s -> p_arity_ok (src_run_ops s ops) ->
  forallb (dom_query d) qs = true ->
  c07_pred (map (src_ask ptab s) qs) (map (src_ask ptab (src_run_ops s ops)) qs) = true.
Proof.
  intros ptab d ops s qs Hs Hf Hd Ha Ha' Hq. rewrite !src_ask_map_eq. rewrite src_run_ops_eq in *.
  apply (c07_pred_model ptab d ops s qs); assumption.
Qed.
