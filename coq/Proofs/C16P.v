(* C16 — umbrella: the proofs live in CsvP (policy lines and files), IniP
   (model text, layouts), EscP (escape_assertion), ModelTextP (layouts at the
   model level, continuation breaks in matchers), ToTextP (to_text written /
   read back), ReplaceP (replace-based un-escaping), ToText2P (the structural
   to_text round trip). *)
From CV Require Export Proofs.CsvP Proofs.IniP Proofs.EscP Proofs.ModelTextP.
From CV Require Export Proofs.ToTextP Proofs.ReplaceP Proofs.ToText2P.
