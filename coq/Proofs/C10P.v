(* C10 — failed storage operations change nothing.  Proofs. *)
From CV Require Import Model.Base Model.Effector Model.RoleGraph Model.PathMatch
     Model.Expr Model.Enforce Model.Engine Model.FileSave Model.SpecC14.
From CV Require Import Proofs.ListAux Proofs.BaseP.
From Coq Require Import Lia.

(* ====================================================================== *)
(* Part 4: file-save atomicity                                            *)
(* ====================================================================== *)

Lemma content_set_same fs p v : content (assoc_set p v fs) p = Some v.
Proof. apply assoc_set_same. Qed.
Lemma content_set_other fs p q v : p <> q -> content (assoc_set p v fs) q = content fs q.
Proof. apply assoc_set_other. Qed.
Lemma content_remove_same fs p : content (assoc_remove p fs) p = None.
Proof. apply assoc_remove_same. Qed.
Lemma content_remove_other fs p q : p <> q -> content (assoc_remove p fs) q = content fs q.
Proof. apply assoc_remove_other. Qed.

(* the state after the first two calls of the new protocol, the second one
   possibly short *)
Lemma save_new_two tmp bytes fs :
  apply_fop (apply_fop fs (Create tmp)) (Append tmp bytes)
  = assoc_set tmp bytes (assoc_set tmp [] fs).
Proof.
  cbn [apply_fop]. rewrite assoc_set_same. reflexivity.
Qed.

(* every interrupted run of the new protocol, described exactly *)
Lemma save_new_cut_cases tmp path bytes n k fs :
  let fs' := run_cut (save_new tmp path bytes) n k fs in
  (n = 0 /\ fs' = fs) \/
  (n = 1 /\ fs' = assoc_set tmp (firstn k bytes) (assoc_set tmp [] fs)) \/
  (n = 2 /\ fs' = assoc_set tmp bytes (assoc_set tmp [] fs)) \/
  (3 <= n /\ fs' = assoc_set path bytes (assoc_remove tmp (assoc_set tmp bytes (assoc_set tmp [] fs)))).
Proof.
  cbv zeta. unfold save_new.
  destruct n as [|[|[|n]]].
  - left. split; reflexivity.
  - right; left. split; [reflexivity|]. cbn [run_cut]. apply save_new_two.
  - right; right; left. split; [reflexivity|]. cbn [run_cut]. apply save_new_two.
  - right; right; right. split; [lia|]. cbn [run_cut].
    rewrite save_new_two. cbn [apply_fop]. rewrite assoc_set_same. reflexivity.
Qed.

Theorem save_atomic : forall tmp path bytes n k fs,
  tmp <> path ->
  let fs' := run_cut (save_new tmp path bytes) n k fs in
  content fs' path = content fs path \/ content fs' path = Some bytes.
Proof.
  intros tmp path bytes n k fs Hne. cbv zeta.
  destruct (save_new_cut_cases tmp path bytes n k fs) as [[_ E]|[[_ E]|[[_ E]|[_ E]]]];
    cbv zeta in E; rewrite E.
  - left. reflexivity.
  - left. rewrite !content_set_other by exact Hne. reflexivity.
  - left. rewrite !content_set_other by exact Hne. reflexivity.
  - right. apply content_set_same.
Qed.

(* the same after the error path's clean-up (remove the temporary file) *)
Theorem save_atomic_cleanup : forall tmp path bytes n k fs,
  tmp <> path ->
  let fs' := save_new_failed tmp path bytes n k fs in
  (content fs' path = content fs path \/ content fs' path = Some bytes) /\
  content fs' tmp = None.
Proof.
  intros tmp path bytes n k fs Hne. cbv zeta. unfold save_new_failed. cbn [apply_fop].
  split.
  - rewrite content_remove_other by exact Hne. apply save_atomic. exact Hne.
  - apply content_remove_same.
Qed.

(* an uninterrupted save installs the new contents and leaves no temporary file *)
Theorem save_new_complete : forall tmp path bytes fs,
  tmp <> path ->
  let fs' := run_fops fs (save_new tmp path bytes) in
  content fs' path = Some bytes /\ content fs' tmp = None.
Proof.
  intros tmp path bytes fs Hne. cbv zeta. unfold run_fops, save_new. cbn [fold_left].
  rewrite save_new_two. cbn [apply_fop]. rewrite assoc_set_same. split.
  - apply content_set_same.
  - rewrite content_set_other by (intros E; apply Hne; symmetry; exact E).
    apply content_remove_same.
Qed.

(* no other file is touched, interrupted or not *)
Theorem save_new_frame : forall tmp path bytes n k fs q,
  q <> tmp -> q <> path ->
  content (run_cut (save_new tmp path bytes) n k fs) q = content fs q.
Proof.
  intros tmp path bytes n k fs q H1 H2.
  assert (H1' : tmp <> q) by (intros E; apply H1; symmetry; exact E).
  assert (H2' : path <> q) by (intros E; apply H2; symmetry; exact E).
  destruct (save_new_cut_cases tmp path bytes n k fs) as [[_ E]|[[_ E]|[[_ E]|[_ E]]]];
    cbv zeta in E; rewrite E.
  - reflexivity.
  - rewrite !content_set_other by exact H1'. reflexivity.
  - rewrite !content_set_other by exact H1'. reflexivity.
  - rewrite content_set_other by exact H2'. rewrite content_remove_other by exact H1'.
    rewrite !content_set_other by exact H1'. reflexivity.
Qed.

(* the old protocol interrupted after the truncation and k bytes *)
Lemma save_old_cut path bytes k fs :
  content (run_cut (save_old path bytes) 1 k fs) path = Some (firstn k bytes).
Proof.
  unfold save_old. cbn [run_cut apply_fop]. rewrite assoc_set_same.
  cbn [app]. apply content_set_same.
Qed.

(* the old protocol has a cut point that leaves neither the old nor the new
   policy: whenever both are non-empty, cutting right after the truncation
   leaves an empty file; cutting inside the write leaves a proper prefix *)
Theorem old_save_refuted : forall path old bytes fs,
  content fs path = Some old -> old <> [] -> bytes <> [] ->
  exists n k,
    let now := content (run_cut (save_old path bytes) n k fs) path in
    now <> Some old /\ now <> Some bytes.
Proof.
  intros path old bytes fs Hold Ho Hb. exists 1, 0. cbv zeta.
  rewrite save_old_cut. cbn [firstn]. split; intros E; inversion E as [E'].
  - apply Ho. symmetry. exact E'.
  - apply Hb. symmetry. exact E'.
Qed.

(* every proper prefix of the new contents is a possible final state of the
   old protocol *)
Theorem old_save_truncates : forall path bytes k fs,
  content (run_cut (save_old path bytes) 1 k fs) path = Some (firstn k bytes).
Proof. intros. apply save_old_cut. Qed.

(* concrete witnesses *)
Definition ex_path := T "policy.csv".
Definition ex_tmp := T "policy.csv.tmp".
Definition ex_old_bytes := T "p, alice, data1, read".
Definition ex_new_bytes := T "p, alice, data1, read;p, bob, data2, write".
Definition ex_fs : fsys := [(T "other", T "x"); (ex_path, ex_old_bytes)].

Example ex_old_save_truncated :
  content (run_cut (save_old ex_path ex_new_bytes) 1 9 ex_fs) ex_path = Some (T "p, alice,")
  /\ complete_policy (Some ex_old_bytes) ex_new_bytes
       (content (run_cut (save_old ex_path ex_new_bytes) 1 9 ex_fs) ex_path) = false.
Proof. vm_compute. split; reflexivity. Qed.

Example ex_new_save_all_cuts :
  forallb (fun n => forallb (fun k =>
     complete_policy (Some ex_old_bytes) ex_new_bytes
       (content (run_cut (save_new ex_tmp ex_path ex_new_bytes) n k ex_fs) ex_path)
     && complete_policy (Some ex_old_bytes) ex_new_bytes
       (content (save_new_failed ex_tmp ex_path ex_new_bytes n k ex_fs) ex_path))
     (seq 0 (S (length ex_new_bytes)))) (seq 0 5) = true.
Proof. vm_compute. reflexivity. Qed.

(* ====================================================================== *)
(* A uniform presentation of the five internal management entry points    *)
(* ====================================================================== *)

Definition prim_sec (p : prim) : text :=
  match p with
  | PAdd s _ _ | PAddMany s _ _ | PRemove s _ _ | PRemoveMany s _ _ | PRemoveFiltered s _ _ _ => s
  end.
Definition prim_pt (p : prim) : text :=
  match p with
  | PAdd _ t _ | PAddMany _ t _ | PRemove _ t _ | PRemoveMany _ t _ | PRemoveFiltered _ t _ _ => t
  end.
Definition prim_insert (p : prim) : bool :=
  match p with PAdd _ _ _ | PAddMany _ _ _ => true | _ => false end.
(* is the incremental role-link update guarded by "the model changed" *)
Definition prim_guarded (p : prim) : bool :=
  match p with PRemoveFiltered _ _ _ _ => false | _ => true end.

(* the call on the unscripted adapter *)
Definition prim_ad0 (p : prim) : adapter -> adapter * outcome bool :=
  match p with
  | PAdd sec pt r => fun a => ad0_add a sec pt r
  | PAddMany sec pt rs => fun a => ad0_add_many a sec pt rs
  | PRemove sec pt r => fun a => ad0_remove a sec pt r
  | PRemoveMany sec pt rs => fun a => ad0_remove_many a sec pt rs
  | PRemoveFiltered sec pt idx vals => fun a => ad0_remove_filtered a sec pt idx vals
  end.

(* the model operation: new model, changed?, the event, the rules handed to
   the role-link update; None = panic *)
Definition prim_mop (p : prim) (md : model) : option (model * bool * event * list rule) :=
  match p with
  | PAdd sec pt r => let (md', b) := m_add_policy md sec pt r in Some (md', b, EvAdd sec pt r, [r])
  | PAddMany sec pt rs =>
    let (md', b) := m_add_policies md sec pt rs in Some (md', b, EvAddMany sec pt rs, rs)
  | PRemove sec pt r =>
    let (md', b) := m_remove_policy md sec pt r in Some (md', b, EvRemove sec pt r, [r])
  | PRemoveMany sec pt rs =>
    let (md', b) := m_remove_policies md sec pt rs in Some (md', b, EvRemoveMany sec pt rs, rs)
  | PRemoveFiltered sec pt idx vals =>
    match m_remove_filtered md sec pt idx vals with
    | None => None
    | Some (md', b, rem) => Some (md', b, EvRemoveFiltered sec pt rem, rem)
    end
  end.

Definition tail_gen (guarded : bool) (s : estate) (sec pt : text) (changed insert : bool)
           (rs : list rule) : estate * outcome bool :=
  if negb (teqb sec s_g) || negb (e_auto_build s) || (guarded && negb changed) then (s, Ok changed)
  else let (s', e) := incremental_links s pt insert rs in (s', lerr_out e changed).

Definition ad_call (s : estate) (p : prim) : adapter * outcome bool :=
  if e_auto_save s then scripted (e_adapter s) (prim_ad0 p) else (e_adapter s, Ok true).

Definition step_prim (s : estate) (p : prim) : estate * outcome bool :=
  let (ad, ares) := ad_call s p in
  let s1 := upd_adapter s ad in
  match ares with
  | Ok true =>
    match prim_mop p (e_model s) with
    | None => (s1, Panic)
    | Some (md, ch, ev, lrs) =>
      tail_gen (prim_guarded p) (emit_mgmt (upd_model s1 md) ch ev) (prim_sec p) (prim_pt p)
               ch (prim_insert p) lrs
    end
  | other => (s1, other)
  end.

Lemma tail_gen_guarded s sec pt ch ins rs :
  tail_gen true s sec pt ch ins rs = after_change s sec pt ch ins rs.
Proof. reflexivity. Qed.

Lemma e_auto_build_emit_mgmt s ch ev : e_auto_build (emit_mgmt s ch ev) = e_auto_build s.
Proof.
  unfold emit_mgmt, emit. destruct (ch && e_auto_notify s); [|reflexivity].
  destruct (e_watcher s); reflexivity.
Qed.

Lemma step_add_prim s sec pt r : step_add s sec pt r = step_prim s (PAdd sec pt r).
Proof.
  unfold step_add, step_prim, ad_call, ad_add. cbn [prim_ad0 prim_mop prim_guarded prim_sec prim_pt prim_insert].
  destruct (e_auto_save s).
  - destruct (scripted (e_adapter s) (fun x => ad0_add x sec pt r)) as [ad [[|]|e|]] eqn:E; try reflexivity.
    cbn [upd_adapter e_model]. destruct (m_add_policy (e_model s) sec pt r) as [md b]. reflexivity.
  - cbn [upd_adapter e_model]. destruct (m_add_policy (e_model s) sec pt r) as [md b]. reflexivity.
Qed.

Lemma step_add_many_prim s sec pt rs : step_add_many s sec pt rs = step_prim s (PAddMany sec pt rs).
Proof.
  unfold step_add_many, step_prim, ad_call, ad_add_many.
  cbn [prim_ad0 prim_mop prim_guarded prim_sec prim_pt prim_insert].
  destruct (e_auto_save s).
  - destruct (scripted (e_adapter s) (fun x => ad0_add_many x sec pt rs)) as [ad [[|]|e|]] eqn:E; try reflexivity.
    cbn [upd_adapter e_model]. destruct (m_add_policies (e_model s) sec pt rs) as [md b]. reflexivity.
  - cbn [upd_adapter e_model]. destruct (m_add_policies (e_model s) sec pt rs) as [md b]. reflexivity.
Qed.

Lemma step_remove_prim s sec pt r : step_remove s sec pt r = step_prim s (PRemove sec pt r).
Proof.
  unfold step_remove, step_prim, ad_call, ad_remove.
  cbn [prim_ad0 prim_mop prim_guarded prim_sec prim_pt prim_insert].
  destruct (e_auto_save s).
  - destruct (scripted (e_adapter s) (fun x => ad0_remove x sec pt r)) as [ad [[|]|e|]] eqn:E; try reflexivity.
    cbn [upd_adapter e_model]. destruct (m_remove_policy (e_model s) sec pt r) as [md b]. reflexivity.
  - cbn [upd_adapter e_model]. destruct (m_remove_policy (e_model s) sec pt r) as [md b]. reflexivity.
Qed.

Lemma step_remove_many_prim s sec pt rs :
  step_remove_many s sec pt rs = step_prim s (PRemoveMany sec pt rs).
Proof.
  unfold step_remove_many, step_prim, ad_call, ad_remove_many.
  cbn [prim_ad0 prim_mop prim_guarded prim_sec prim_pt prim_insert].
  destruct (e_auto_save s).
  - destruct (scripted (e_adapter s) (fun x => ad0_remove_many x sec pt rs)) as [ad [[|]|e|]] eqn:E; try reflexivity.
    cbn [upd_adapter e_model]. destruct (m_remove_policies (e_model s) sec pt rs) as [md b]. reflexivity.
  - cbn [upd_adapter e_model]. destruct (m_remove_policies (e_model s) sec pt rs) as [md b]. reflexivity.
Qed.

Lemma step_remove_filtered_prim s sec pt idx vals :
  step_remove_filtered s sec pt idx vals = step_prim s (PRemoveFiltered sec pt idx vals).
Proof.
  unfold step_remove_filtered, step_prim, ad_call, ad_remove_filtered, tail_gen.
  cbn [prim_ad0 prim_mop prim_guarded prim_sec prim_pt prim_insert].
  assert (T : forall (s2 : estate) (removed : bool) (rs : list rule),
     (if negb (teqb sec s_g) || negb (e_auto_build s2) then (s2, Ok removed)
      else let (s3, e) := incremental_links s2 pt false rs in (s3, lerr_out e removed))
     = (if negb (teqb sec s_g) || negb (e_auto_build s2) || (false && negb removed) then (s2, Ok removed)
        else let (s3, e) := incremental_links s2 pt false rs in (s3, lerr_out e removed))).
  { intros s2 removed rs. cbn [andb]. rewrite orb_false_r. reflexivity. }
  destruct (e_auto_save s).
  - destruct (scripted (e_adapter s) (fun x => ad0_remove_filtered x sec pt idx vals))
      as [ad [[|]|e|]] eqn:E; try reflexivity.
    cbn [upd_adapter e_model].
    destruct (m_remove_filtered (e_model s) sec pt idx vals) as [[[md b] rem]|]; [|reflexivity].
    apply T.
  - cbn [upd_adapter e_model].
    destruct (m_remove_filtered (e_model s) sec pt idx vals) as [[[md b] rem]|]; [|reflexivity].
    apply T.
Qed.

Lemma step_op_prim s o p : op_prim o = Some p -> step s o = step_prim s p.
Proof.
  destruct o as [sec pt r|sec pt rs|sec pt r|sec pt rs|sec pt idx vals|r| | | | | | | | | | | | | | ];
    cbn [op_prim]; intros H; try discriminate H.
  - inversion H; subst. apply step_add_prim.
  - inversion H; subst. apply step_add_many_prim.
  - inversion H; subst. apply step_remove_prim.
  - inversion H; subst. apply step_remove_many_prim.
  - inversion H; subst. apply step_remove_filtered_prim.
  - cbn [step]. destruct r; cbn [rbac_prim] in H; try discriminate H; inversion H; subst;
      cbn [step_rbac]; first [apply step_add_prim | apply step_add_many_prim | apply step_remove_prim
                              | apply step_remove_filtered_prim].
Qed.

Lemma step_op_two s o p1 p2 : op_two o = Some (p1, p2) ->
  step s o = seq_or (step_prim s p1) (fun s' => step_prim s' p2).
Proof.
  destruct o; cbn [op_two]; intros H; try discriminate H.
  destruct r; cbn [rbac_two] in H; try discriminate H; inversion H; subst; cbn [step step_rbac];
    rewrite step_remove_filtered_prim; unfold seq_or;
    destruct (step_prim s _) as [s1 [a|e|]]; try reflexivity;
    rewrite step_remove_filtered_prim; reflexivity.
Qed.

(* ====================================================================== *)
(* Part 1: a refused or failed adapter call changes nothing               *)
(* ====================================================================== *)

(* queries read the adapter only through its filtered mark *)
Lemma ask_ext ptab s s' q :
  e_model s' = e_model s -> e_mexprs s' = e_mexprs s -> e_fs s' = e_fs s ->
  e_enabled s' = e_enabled s ->
  ad_is_filtered (e_adapter s') = ad_is_filtered (e_adapter s) ->
  ask ptab s' q = ask ptab s q.
Proof.
  intros Hm Hx Hf He Ha.
  destruct q; unfold ask, enforce, enforce_with_ctx, roles_for_user, users_for_role,
    implicit_roles, perms_for_user, implicit_perms, implicit_users, enforce, perms_for_user,
    implicit_roles;
    rewrite ?Hm, ?Hx, ?Hf, ?He, ?Ha; reflexivity.
Qed.

Lemma ask_upd_adapter ptab s a q :
  ad_is_filtered a = ad_is_filtered (e_adapter s) ->
  ask ptab (upd_adapter s a) q = ask ptab s q.
Proof. intros H. apply ask_ext; try reflexivity. exact H. Qed.

Definition fail_resp (r : resp) : bool :=
  match r with RFail | RFailLate | RFailPartial => true | _ => false end.

Lemma scripted_refuse i sc f : scripted (AScripted i (RRefuse :: sc)) f = (AScripted i sc, Ok false).
Proof. reflexivity. Qed.
Lemma scripted_fail i r sc f : fail_resp r = true ->
  scripted (AScripted i (r :: sc)) f = (AScripted i sc, Err EAdapter).
Proof. destruct r; cbn [fail_resp]; intros H; try discriminate H; reflexivity. Qed.

(* the state with one scripted response consumed and nothing else touched *)
Definition pop_script (s : estate) : estate :=
  match e_adapter s with
  | AScripted i (_ :: sc) => upd_adapter s (AScripted i sc)
  | _ => s
  end.

Lemma prim_refused s p i sc :
  e_auto_save s = true -> e_adapter s = AScripted i (RRefuse :: sc) ->
  step_prim s p = (upd_adapter s (AScripted i sc), Ok false).
Proof.
  intros Hs Ha. unfold step_prim, ad_call. rewrite Hs, Ha, scripted_refuse. reflexivity.
Qed.

Lemma prim_failed s p i r sc :
  e_auto_save s = true -> e_adapter s = AScripted i (r :: sc) -> fail_resp r = true ->
  step_prim s p = (upd_adapter s (AScripted i sc), Err EAdapter).
Proof.
  intros Hs Ha Hr. unfold step_prim, ad_call. rewrite Hs, Ha, (scripted_fail _ _ _ _ Hr). reflexivity.
Qed.

(* single-call management operations *)
Theorem rejected_refuse : forall s o p i sc,
  op_prim o = Some p -> e_auto_save s = true -> e_adapter s = AScripted i (RRefuse :: sc) ->
  step s o = (upd_adapter s (AScripted i sc), Ok false).
Proof. intros s o p i sc Ho Hs Ha. rewrite (step_op_prim s o p Ho). apply prim_refused; assumption. Qed.

Theorem rejected_fail : forall s o p i r sc,
  op_prim o = Some p -> e_auto_save s = true -> e_adapter s = AScripted i (r :: sc) ->
  fail_resp r = true ->
  step s o = (upd_adapter s (AScripted i sc), Err EAdapter).
Proof.
  intros s o p i r sc Ho Hs Ha Hr. rewrite (step_op_prim s o p Ho). apply (prim_failed s p i r sc); assumption.
Qed.

(* what "only the script popped" means, spelled out *)
Theorem upd_adapter_only : forall s a,
  let s' := upd_adapter s a in
  e_adapter s' = a /\
  e_model s' = e_model s /\ e_mexprs s' = e_mexprs s /\ e_fs s' = e_fs s /\
  e_enabled s' = e_enabled s /\ e_auto_save s' = e_auto_save s /\ e_auto_build s' = e_auto_build s /\
  e_auto_notify s' = e_auto_notify s /\ e_callbacks s' = e_callbacks s /\
  e_watcher s' = e_watcher s /\ e_wlog s' = e_wlog s.
Proof. intros s a. cbv zeta. repeat split. Qed.

(* both clauses in one statement, with every observable consequence *)
Theorem rejected_is_identity : forall ptab s o p i r sc,
  op_prim o = Some p -> e_auto_save s = true -> e_adapter s = AScripted i (r :: sc) ->
  r <> RPass ->
  let s' := fst (step s o) in
  snd (step s o) = (if fail_resp r then Err EAdapter else Ok false) /\
  s' = upd_adapter s (AScripted i sc) /\
  e_model s' = e_model s /\ e_mexprs s' = e_mexprs s /\ e_fs s' = e_fs s /\
  e_wlog s' = e_wlog s /\ e_callbacks s' = e_callbacks s /\
  (forall q, ask ptab s' q = ask ptab s q).
Proof.
  intros ptab s o p i r sc Ho Hs Ha Hr. cbv zeta.
  assert (E : step s o = (upd_adapter s (AScripted i sc), if fail_resp r then Err EAdapter else Ok false)).
  { destruct r; cbn [fail_resp].
    - exfalso. apply Hr. reflexivity.
    - apply (rejected_refuse s o p i sc); assumption.
    - apply (rejected_fail s o p i RFail sc); auto.
    - apply (rejected_fail s o p i RFailLate sc); auto.
    - apply (rejected_fail s o p i RFailPartial sc); auto. }
  rewrite E. cbn [fst snd]. repeat split.
  intros q. apply ask_upd_adapter. rewrite Ha. reflexivity.
Qed.

(* ---- the two-call helpers ---- *)
(* first call fails: nothing changes *)
Theorem two_call_first_fails : forall ptab s o p1 p2 i r sc,
  op_two o = Some (p1, p2) -> e_auto_save s = true -> e_adapter s = AScripted i (r :: sc) ->
  fail_resp r = true ->
  step s o = (upd_adapter s (AScripted i sc), Err EAdapter) /\
  (forall q, ask ptab (fst (step s o)) q = ask ptab s q).
Proof.
  intros ptab s o p1 p2 i r sc Ho Hs Ha Hr.
  assert (E : step s o = (upd_adapter s (AScripted i sc), Err EAdapter)).
  { rewrite (step_op_two s o p1 p2 Ho). rewrite (prim_failed s p1 i r sc Hs Ha Hr). reflexivity. }
  split; [exact E|]. intros q. rewrite E. cbn [fst]. apply ask_upd_adapter. rewrite Ha. reflexivity.
Qed.

(* first call refused: the helper goes on with the second call *)
Theorem two_call_first_refused : forall s o p1 p2 i sc,
  op_two o = Some (p1, p2) -> e_auto_save s = true -> e_adapter s = AScripted i (RRefuse :: sc) ->
  step s o = match step_prim (upd_adapter s (AScripted i sc)) p2 with
             | (s', Ok b) => (s', Ok b)
             | other => other
             end.
Proof.
  intros s o p1 p2 i sc Ho Hs Ha.
  rewrite (step_op_two s o p1 p2 Ho). rewrite (prim_refused s p1 i sc Hs Ha). unfold seq_or.
  destruct (step_prim _ p2) as [s' [b| |]]; reflexivity.
Qed.

(* second call fails: the effect of the first call stays (a partial effect) *)
Theorem two_call_second_fails : forall s o p1 p2 s1 a i r sc,
  op_two o = Some (p1, p2) ->
  step_prim s p1 = (s1, Ok a) ->
  e_auto_save s1 = true -> e_adapter s1 = AScripted i (r :: sc) -> fail_resp r = true ->
  step s o = (upd_adapter s1 (AScripted i sc), Err EAdapter).
Proof.
  intros s o p1 p2 s1 a i r sc Ho H1 Hs Ha Hr.
  rewrite (step_op_two s o p1 p2 Ho). rewrite H1. unfold seq_or.
  rewrite (prim_failed s1 p2 i r sc Hs Ha Hr). reflexivity.
Qed.

(* ---- clear and save ---- *)
Lemma scripted_unit_fail i r sc f : r <> RPass ->
  scripted_unit (AScripted i (r :: sc)) f = (AScripted i sc, LRErr EAdapter).
Proof. destruct r; intros H; try reflexivity. exfalso. apply H. reflexivity. Qed.

Theorem clear_failed : forall ptab s i r sc,
  e_auto_save s = true -> e_adapter s = AScripted i (r :: sc) -> r <> RPass ->
  step s OClear = (upd_adapter s (AScripted i sc), Err EAdapter) /\
  (forall q, ask ptab (fst (step s OClear)) q = ask ptab s q).
Proof.
  intros ptab s i r sc Hs Ha Hr.
  assert (E : step s OClear = (upd_adapter s (AScripted i sc), Err EAdapter)).
  { cbn [step]. unfold step_clear, ad_clear. rewrite Hs, Ha, (scripted_unit_fail _ _ _ _ Hr). reflexivity. }
  split; [exact E|]. intros q. rewrite E. cbn [fst]. apply ask_upd_adapter. rewrite Ha. reflexivity.
Qed.

Theorem save_failed : forall ptab s i r sc,
  e_adapter s = AScripted i (r :: sc) -> r <> RPass -> ad_is_filtered i = false ->
  step s OSave = (upd_adapter s (AScripted i sc), Err EAdapter) /\
  (forall q, ask ptab (fst (step s OSave)) q = ask ptab s q).
Proof.
  intros ptab s i r sc Ha Hr Hf.
  assert (E : step s OSave = (upd_adapter s (AScripted i sc), Err EAdapter)).
  { cbn [step]. unfold step_save, ad_save. rewrite Ha. cbn [ad_is_filtered]. rewrite Hf.
    rewrite (scripted_unit_fail _ _ _ _ Hr). reflexivity. }
  split; [exact E|]. intros q. rewrite E. cbn [fst]. apply ask_upd_adapter. rewrite Ha. reflexivity.
Qed.

(* save on a filtered adapter: refused before the adapter is asked; nothing
   at all changes (not even the script) *)
Theorem save_filtered_panics : forall s, ad_is_filtered (e_adapter s) = true -> step s OSave = (s, Panic).
Proof. intros s H. cbn [step]. unfold step_save. rewrite H. reflexivity. Qed.

(* a failing save of an unscripted file / string adapter (no "p" section) *)
Theorem save_failed_unscripted : forall s,
  ad_is_filtered (e_adapter s) = false ->
  forall e, snd (step s OSave) = Err e ->
  match e_adapter s with AScripted _ _ => True | _ => fst (step s OSave) = upd_adapter s (e_adapter s) end.
Proof.
  intros s Hf e He. cbn [step] in *. unfold step_save in *. rewrite Hf in *.
  destruct (e_adapter s) as [|l f|l f|l f|i sc] eqn:Ha; try exact I;
    unfold ad_save, scripted_unit, ad0_save in *.
  - cbn [snd] in He. discriminate He.
  - cbn [snd] in He. discriminate He.
  - destruct (assoc s_p (e_model s)); cbn [snd lres_out] in He; [discriminate He|]. reflexivity.
  - destruct (assoc s_p (e_model s)); cbn [snd lres_out] in He; [discriminate He|]. reflexivity.
Qed.

(* ---- an unscripted string adapter rejects every incremental call ---- *)
Lemma prim_ad0_string p l f : prim_ad0 p (AString l f) = (AString l f, Err EAdapter).
Proof. destruct p; reflexivity. Qed.

Lemma upd_adapter_same s : e_adapter (upd_adapter s (e_adapter s)) = e_adapter s.
Proof. reflexivity. Qed.

Lemma prim_string s p l f :
  e_auto_save s = true -> e_adapter s = AString l f ->
  step_prim s p = (upd_adapter s (AString l f), Err EAdapter).
Proof.
  intros Hs Ha. unfold step_prim, ad_call. rewrite Hs, Ha. cbn [scripted].
  rewrite prim_ad0_string. reflexivity.
Qed.

Theorem string_adapter_rejects : forall ptab s o l f,
  is_mgmt o = true -> e_auto_save s = true -> e_adapter s = AString l f ->
  step s o = (upd_adapter s (AString l f), Err EAdapter) /\
  (forall q, ask ptab (fst (step s o)) q = ask ptab s q).
Proof.
  intros ptab s o l f Hm Hs Ha.
  assert (E : step s o = (upd_adapter s (AString l f), Err EAdapter)).
  { unfold is_mgmt in Hm. destruct (op_prim o) as [p|] eqn:Hp.
    - rewrite (step_op_prim s o p Hp). apply prim_string; assumption.
    - destruct (op_two o) as [[p1 p2]|] eqn:Ht; [|discriminate Hm].
      rewrite (step_op_two s o p1 p2 Ht). rewrite (prim_string s p1 l f Hs Ha). reflexivity. }
  split; [exact E|]. intros q. rewrite E. cbn [fst]. apply ask_upd_adapter. rewrite Ha. reflexivity.
Qed.

(* ====================================================================== *)
(* Part 2: a failed load keeps the loaded policy                           *)
(* ====================================================================== *)

(* the adapter with its "filtered" mark erased: its stored lines and script *)
Fixpoint ad_unmark (a : adapter) : adapter :=
  match a with
  | ANull => ANull
  | AMemory l _ => AMemory l false
  | AFile l _ => AFile l false
  | AString l _ => AString l false
  | AScripted i sc => AScripted (ad_unmark i) sc
  end.

Lemma ad0_load_unmark a md : ad_unmark (fst (fst (ad0_load a md))) = ad_unmark a.
Proof. destruct a; reflexivity. Qed.

Lemma ad0_load_filtered_unmark a fp fg md :
  ad_unmark (fst (fst (ad0_load_filtered a fp fg md))) = ad_unmark a.
Proof.
  destruct a as [|l f|l f|l f|i sc]; cbn [ad0_load_filtered]; try reflexivity.
  - destruct (mem_load_filtered fp fg md l). reflexivity.
  - destruct (str_load_filtered fp fg md l). reflexivity.
  - destruct (str_load_filtered fp fg md l). reflexivity.
Qed.

Lemma ask_upd_adapter_nf ptab s a q : q <> QIsFiltered -> ask ptab (upd_adapter s a) q = ask ptab s q.
Proof. intros H. destruct q; try reflexivity. exfalso. apply H. reflexivity. Qed.

(* whatever the adapter answered, anything but success leaves everything
   except the adapter as it was *)
Lemma finish_load_not_ok s ad md r : r <> LROk -> finish_load s ad md r = (upd_adapter s ad, lres_out r).
Proof. destruct r; intros H; try reflexivity. exfalso. apply H. reflexivity. Qed.

Lemma ad_load_scripted_fail i r sc md : r <> RPass ->
  exists i' md', ad_load (AScripted i (r :: sc)) md = (AScripted i' sc, md', LRErr EAdapter) /\
                 ad_unmark i' = ad_unmark i /\
                 (r = RFail \/ r = RRefuse -> i' = i /\ md' = md).
Proof.
  intros Hr. destruct r; cbn [ad_load].
  - exfalso. apply Hr. reflexivity.
  - exists i, md. split; [reflexivity|]. split; [reflexivity|]. intros _. split; reflexivity.
  - exists i, md. split; [reflexivity|]. split; [reflexivity|]. intros _. split; reflexivity.
  - pose proof (ad0_load_unmark i md) as U. destruct (ad0_load i md) as [[i' md'] r'].
    exists i', md'. cbn [fst] in U. split; [reflexivity|]. split; [exact U|]. intros [H|H]; discriminate H.
  - pose proof (ad0_load_unmark i md) as U. destruct (ad0_load i md) as [[i' md'] r'].
    exists i', (clear_sec md' s_g). cbn [fst] in U. split; [reflexivity|]. split; [exact U|]. intros [H|H]; discriminate H.
Qed.

Lemma ad_load_filtered_scripted_fail i r sc fp fg md : r <> RPass ->
  exists i' md', ad_load_filtered (AScripted i (r :: sc)) fp fg md = (AScripted i' sc, md', LRErr EAdapter) /\
                 ad_unmark i' = ad_unmark i /\
                 (r = RFail \/ r = RRefuse -> i' = i /\ md' = md).
Proof.
  intros Hr. destruct r; cbn [ad_load_filtered].
  - exfalso. apply Hr. reflexivity.
  - exists i, md. split; [reflexivity|]. split; [reflexivity|]. intros _. split; reflexivity.
  - exists i, md. split; [reflexivity|]. split; [reflexivity|]. intros _. split; reflexivity.
  - pose proof (ad0_load_filtered_unmark i fp fg md) as U.
    destruct (ad0_load_filtered i fp fg md) as [[i' md'] r'].
    exists i', md'. cbn [fst] in U. split; [reflexivity|]. split; [exact U|]. intros [H|H]; discriminate H.
  - pose proof (ad0_load_filtered_unmark i fp fg md) as U.
    destruct (ad0_load_filtered i fp fg md) as [[i' md'] r'].
    exists i', (clear_sec md' s_g). cbn [fst] in U. split; [reflexivity|]. split; [exact U|]. intros [H|H]; discriminate H.
Qed.

Definition is_load (o : op) : bool :=
  match o with OLoad | OLoadFiltered _ _ => true | _ => false end.

Theorem failed_load_keeps_policy : forall ptab s o i r sc,
  is_load o = true -> e_adapter s = AScripted i (r :: sc) -> r <> RPass ->
  exists i',
    step s o = (upd_adapter s (AScripted i' sc), Err EAdapter) /\
    ad_unmark i' = ad_unmark i /\
    (r = RFail \/ r = RRefuse -> i' = i) /\
    (forall q, q <> QIsFiltered -> ask ptab (fst (step s o)) q = ask ptab s q) /\
    (r = RFail \/ r = RRefuse -> forall q, ask ptab (fst (step s o)) q = ask ptab s q).
Proof.
  intros ptab s o i r sc Hl Ha Hr.
  assert (E : exists i', step s o = (upd_adapter s (AScripted i' sc), Err EAdapter) /\
                         ad_unmark i' = ad_unmark i /\ (r = RFail \/ r = RRefuse -> i' = i)).
  { destruct o; try discriminate Hl; cbn [step].
    - unfold step_load. rewrite Ha.
      destruct (ad_load_scripted_fail i r sc (m_clear_policy (e_model s)) Hr) as [i' [md' [E [U I]]]].
      rewrite E. exists i'. rewrite finish_load_not_ok by discriminate. cbn [lres_out].
      split; [reflexivity|]. split; [exact U|]. intros H. apply I, H.
    - unfold step_load_filtered. rewrite Ha.
      destruct (ad_load_filtered_scripted_fail i r sc fp fg (m_clear_policy (e_model s)) Hr)
        as [i' [md' [E [U I]]]].
      rewrite E. exists i'. rewrite finish_load_not_ok by discriminate. cbn [lres_out].
      split; [reflexivity|]. split; [exact U|]. intros H. apply I, H. }
  destruct E as [i' [E [U I]]]. exists i'. rewrite E. cbn [fst].
  split; [reflexivity|]. split; [exact U|]. split; [exact I|]. split.
  - intros q Hq. apply ask_upd_adapter_nf, Hq.
  - intros H q. apply ask_upd_adapter. rewrite Ha, (I H). reflexivity.
Qed.

(* role-link maintenance never reports an adapter error *)
Lemma link_rule_err cnt ins m r m' e : link_rule cnt ins m r = (m', LErr e) -> e <> EAdapter.
Proof.
  unfold link_rule. destruct (Nat.ltb (length r) cnt); [intros H; inversion H; discriminate|].
  destruct (Nat.leb 4 cnt); [intros H; inversion H; discriminate|].
  destruct ins; [intros H; discriminate H|].
  destruct (delete_link m (nth 0 r []) (nth 1 r []) _) as [m2 [|]]; intros H; inversion H; discriminate.
Qed.

Lemma link_rules_err cnt ins : forall rs m m' e, link_rules cnt ins m rs = (m', LErr e) -> e <> EAdapter.
Proof.
  induction rs as [|r rs IH]; intros m m' e; cbn [link_rules]; [intros H; discriminate H|].
  destruct (link_rule cnt ins m r) as [m1 [|e1]] eqn:E1.
  - apply IH.
  - intros H. inversion H; subst. eapply link_rule_err, E1.
Qed.

Lemma build_links_am_err : forall am m am' m' e, build_links_am am m = (am', m', LErr e) -> e <> EAdapter.
Proof.
  induction am as [|[k a] am IH]; intros m am' m' e; cbn [build_links_am]; [intros H; discriminate H|].
  destruct (Nat.ltb (count_us (a_value a)) 2); [intros H; inversion H; discriminate|].
  destruct (link_rules (count_us (a_value a)) true m (a_policy a)) as [m1 [|e1]] eqn:E1.
  - destruct (build_links_am am m1) as [[am2 m2] e2] eqn:E2. intros H. inversion H; subst.
    eapply IH, E2.
  - intros H. inversion H; subst. eapply link_rules_err, E1.
Qed.

Lemma build_role_links_err s s' e : build_role_links s = (s', LErr e) -> e <> EAdapter.
Proof.
  unfold build_role_links. destruct (assoc s_g (e_model s)) as [am|]; [|intros H; discriminate H].
  destruct (build_links_am am []) as [[am' m'] e'] eqn:E. intros H. inversion H; subst.
  eapply build_links_am_err, E.
Qed.

(* the same for any adapter: whenever a load reports an adapter error or
   panics, only the adapter component can differ.  (Any other error class
   comes from the role-link rebuild AFTER a successful load: then the new
   policy is in force, see load_late_error.) *)
Lemma finish_load_adapter_error s ad md r :
  snd (finish_load s ad md r) = Err EAdapter \/ snd (finish_load s ad md r) = Panic ->
  fst (finish_load s ad md r) = upd_adapter s ad.
Proof.
  destruct r as [|e|]; try reflexivity. cbn [finish_load].
  destruct (e_auto_build (upd_model (upd_adapter s ad) md)).
  - destruct (build_role_links (upd_model (upd_adapter s ad) md)) as [s2 [|e]] eqn:E; cbn [snd lerr_out].
    + intros [H|H]; discriminate H.
    + intros [H|H]; [|discriminate H]. inversion H; subst. exfalso.
      apply (build_role_links_err _ _ _ E). reflexivity.
  - cbn [snd]. intros [H|H]; discriminate H.
Qed.

Theorem load_not_ok_keeps_policy : forall ptab s o,
  is_load o = true ->
  snd (step s o) = Err EAdapter \/ snd (step s o) = Panic ->
  (exists ad, fst (step s o) = upd_adapter s ad) /\
  (forall q, q <> QIsFiltered -> ask ptab (fst (step s o)) q = ask ptab s q).
Proof.
  intros ptab s o Hl Hr.
  assert (E : exists ad, fst (step s o) = upd_adapter s ad).
  { destruct o; try discriminate Hl; cbn [step] in *.
    - unfold step_load in *. destruct (ad_load (e_adapter s) (m_clear_policy (e_model s))) as [[ad md] r].
      exists ad. apply finish_load_adapter_error, Hr.
    - unfold step_load_filtered in *.
      destruct (ad_load_filtered (e_adapter s) fp fg (m_clear_policy (e_model s))) as [[ad md] r].
      exists ad. apply finish_load_adapter_error, Hr. }
  split; [exact E|]. destruct E as [ad E]. rewrite E. intros q Hq. apply ask_upd_adapter_nf, Hq.
Qed.

(* ====================================================================== *)
(* Part 3: what a LATE error (role-link update) leaves behind             *)
(* ====================================================================== *)

Definition flags (s : estate) :=
  (e_enabled s, e_auto_save s, e_auto_build s, e_auto_notify s, e_callbacks s, e_watcher s).
Definition fs_static (fs : fstate) := (f_rm_max fs, f_gfuns fs, f_ufuns fs).

Lemma flags_emit s ev : flags (emit s ev) = flags s.
Proof. unfold emit. destruct (e_watcher s); reflexivity. Qed.
Lemma flags_emit_mgmt s ch ev : flags (emit_mgmt s ch ev) = flags s.
Proof. unfold emit_mgmt. destruct (ch && e_auto_notify s); [apply flags_emit|reflexivity]. Qed.

(* everything emit_mgmt can touch is the watcher log *)
Lemma emit_frame s ev :
  e_model (emit s ev) = e_model s /\ e_mexprs (emit s ev) = e_mexprs s /\
  e_adapter (emit s ev) = e_adapter s /\ e_fs (emit s ev) = e_fs s.
Proof. unfold emit. destruct (e_watcher s); repeat split. Qed.
Lemma emit_mgmt_frame s ch ev :
  e_model (emit_mgmt s ch ev) = e_model s /\ e_mexprs (emit_mgmt s ch ev) = e_mexprs s /\
  e_adapter (emit_mgmt s ch ev) = e_adapter s /\ e_fs (emit_mgmt s ch ev) = e_fs s.
Proof. unfold emit_mgmt. destruct (ch && e_auto_notify s); [apply emit_frame|repeat split]. Qed.

(* the incremental role-link update: on success the definition's handle is
   redirected and the manager updated; on failure the manager may be
   partially updated and the model is untouched *)
Lemma incremental_links_cases s pt ins rs s' e :
  incremental_links s pt ins rs = (s', e) ->
  e_adapter s' = e_adapter s /\ e_mexprs s' = e_mexprs s /\ flags s' = flags s /\
  e_wlog s' = e_wlog s /\ fs_static (e_fs s') = fs_static (e_fs s) /\
  ((e_model s' = e_model s /\ (e = LOk -> e_fs s' = e_fs s)) \/
   (e = LOk /\ exists a, get_ast (e_model s) s_g pt = Some a /\
                         e_model s' = set_ast (e_model s) s_g pt (with_handle a HCur))).
Proof.
  unfold incremental_links. destruct (get_ast (e_model s) s_g pt) as [a|] eqn:Ea.
  - destruct (Nat.ltb (count_us (a_value a)) 2).
    + intros H. inversion H; subst. repeat split. left. split; [reflexivity|]. intros H0; discriminate H0.
    + destruct (link_rules (count_us (a_value a)) ins (f_rm (e_fs s)) rs) as [m' [|e']];
        intros H; inversion H; subst; repeat split.
      * right. split; [reflexivity|]. exists a. split; reflexivity.
      * left. split; [reflexivity|]. intros H0; discriminate H0.
  - intros H. inversion H; subst. repeat split. left. split; reflexivity.
Qed.

Lemma incremental_links_err s pt ins rs s' e :
  incremental_links s pt ins rs = (s', LErr e) -> e <> EAdapter.
Proof.
  unfold incremental_links. destruct (get_ast (e_model s) s_g pt) as [a|]; [|intros H; discriminate H].
  destruct (Nat.ltb (count_us (a_value a)) 2); [intros H; inversion H; discriminate|].
  destruct (link_rules (count_us (a_value a)) ins (f_rm (e_fs s)) rs) as [m' [|e']] eqn:E;
    intros H; inversion H; subst. eapply link_rules_err, E.
Qed.

(* the adapter entry points report no other error class than EAdapter *)
Lemma prim_ad0_err p a a' e : prim_ad0 p a = (a', Err e) -> e = EAdapter.
Proof.
  destruct p; destruct a as [|l f|l f|l f|i sc]; cbn [prim_ad0 ad0_add ad0_add_many ad0_remove
    ad0_remove_many ad0_remove_filtered]; intros H; try discriminate H;
    try (inversion H; reflexivity).
  - destruct (rmem (mem_line sec pt r) l); discriminate H.
  - destruct (existsb _ _); discriminate H.
  - destruct (rmem (mem_line sec pt r) l); discriminate H.
  - destruct (forallb _ _); discriminate H.
  - destruct vals; [discriminate H|]. destruct (mem_filter_lines sec pt idx (t :: vals) l) as [[k r]|]; discriminate H.
Qed.

Lemma scripted_err a f a' e :
  (forall x x' e', f x = (x', Err e') -> e' = EAdapter) ->
  scripted a f = (a', Err e) -> e = EAdapter.
Proof.
  intros Hf. destruct a as [|l fl|l fl|l fl|i sc]; cbn [scripted]; try apply Hf.
  destruct sc as [|[| | | |] sc].
  - destruct (f i) as [i' o] eqn:E. intros H. inversion H; subst. eapply Hf, E.
  - destruct (f i) as [i' o] eqn:E. intros H. inversion H; subst. eapply Hf, E.
  - intros H; discriminate H.
  - intros H; inversion H; reflexivity.
  - intros H; inversion H; reflexivity.
  - intros H; inversion H; reflexivity.
Qed.

Lemma ad_call_err s p ad e : ad_call s p = (ad, Err e) -> e = EAdapter.
Proof.
  unfold ad_call. destruct (e_auto_save s); [|intros H; discriminate H].
  apply scripted_err. intros x x' e'. apply prim_ad0_err.
Qed.

(* full description of one management call *)
Inductive prim_run (s : estate) (p : prim) : estate -> outcome bool -> Prop :=
| PR_rejected ad res :             (* adapter refused / failed / panicked *)
    ad_call s p = (ad, res) -> res <> Ok true ->
    prim_run s p (upd_adapter s ad) res
| PR_panic ad :                    (* filter index out of range in the model *)
    ad_call s p = (ad, Ok true) -> prim_mop p (e_model s) = None ->
    prim_run s p (upd_adapter s ad) Panic
| PR_applied ad md ch ev lrs s' res :
    ad_call s p = (ad, Ok true) -> prim_mop p (e_model s) = Some (md, ch, ev, lrs) ->
    tail_gen (prim_guarded p) (emit_mgmt (upd_model (upd_adapter s ad) md) ch ev)
             (prim_sec p) (prim_pt p) ch (prim_insert p) lrs = (s', res) ->
    prim_run s p s' res.

Lemma step_prim_run s p : prim_run s p (fst (step_prim s p)) (snd (step_prim s p)).
Proof.
  unfold step_prim. destruct (ad_call s p) as [ad res] eqn:Ea.
  destruct res as [[|]|e|].
  - destruct (prim_mop p (e_model s)) as [[[[md ch] ev] lrs]|] eqn:Em.
    + eapply PR_applied; [exact Ea|exact Em|]. apply surjective_pairing.
    + cbn [fst snd]. apply PR_panic; assumption.
  - cbn [fst snd]. apply PR_rejected; [exact Ea|discriminate].
  - cbn [fst snd]. apply PR_rejected; [exact Ea|discriminate].
  - cbn [fst snd]. apply PR_rejected; [exact Ea|discriminate].
Qed.

(* the tail: either nothing happens and the result is Ok changed, or the
   incremental update ran *)
Lemma tail_gen_cases g s sec pt ch ins rs s' res :
  tail_gen g s sec pt ch ins rs = (s', res) ->
  (s' = s /\ res = Ok ch) \/
  (sec = s_g /\ e_auto_build s = true /\ (g = true -> ch = true) /\
   exists e, incremental_links s pt ins rs = (s', e) /\ res = lerr_out e ch).
Proof.
  unfold tail_gen. destruct (teqb sec s_g) eqn:Es; cbn [negb orb].
  - destruct (e_auto_build s) eqn:Eb; cbn [negb orb].
    + destruct (g && negb ch) eqn:Eg.
      * intros H. inversion H. left. split; reflexivity.
      * destruct (incremental_links s pt ins rs) as [s2 e] eqn:Ei. intros H. inversion H; subst.
        right. split; [apply teqb_eq, Es|]. split; [reflexivity|]. split.
        -- intros ->. destruct ch; [reflexivity|discriminate Eg].
        -- exists e. split; reflexivity.
    + intros H. inversion H. left. split; reflexivity.
  - intros H. inversion H. left. split; reflexivity.
Qed.

(* a late error: the adapter has accepted, the model holds the change, the
   notification has gone out; only the role manager may be inconsistent *)
Theorem late_error_prim : forall s p s' e,
  step_prim s p = (s', Err e) -> e <> EAdapter ->
  exists ad md ch ev lrs,
    ad_call s p = (ad, Ok true) /\
    prim_mop p (e_model s) = Some (md, ch, ev, lrs) /\
    prim_sec p = s_g /\ e_auto_build s = true /\ (prim_guarded p = true -> ch = true) /\
    e_adapter s' = ad /\ e_model s' = md /\
    e_wlog s' = e_wlog (emit_mgmt (upd_model (upd_adapter s ad) md) ch ev) /\
    e_mexprs s' = e_mexprs s /\ flags s' = flags s /\ fs_static (e_fs s') = fs_static (e_fs s).
Proof.
  intros s p s' e Hs He.
  pose proof (step_prim_run s p) as R. rewrite Hs in R. cbn [fst snd] in R.
  inversion R as [ad res Ha Hr E1 E2|ad Ha Hm E1 E2|ad md ch ev lrs s2 res Ha Hm Ht E1 E2]; subst.
  - exfalso. apply He. eapply ad_call_err. exact Ha.
  - exists ad, md, ch, ev, lrs.
    destruct (tail_gen_cases _ _ _ _ _ _ _ _ _ Ht) as [[_ H]|[Hsec [Hb [Hg [le [Hi Hres]]]]]]; [discriminate H|].
    destruct le as [|e']; [discriminate Hres|]. cbn [lerr_out] in Hres. inversion Hres; subst e'.
    destruct (incremental_links_cases _ _ _ _ _ _ Hi) as [A [X [F [W [S M]]]]].
    destruct (emit_mgmt_frame (upd_model (upd_adapter s ad) md) ch ev) as [M1 [X1 [A1 F1]]].
    rewrite e_auto_build_emit_mgmt in Hb. cbn [upd_model upd_adapter e_auto_build] in Hb.
    split; [exact Ha|]. split; [exact Hm|]. split; [exact Hsec|]. split; [exact Hb|].
    split; [exact Hg|].
    split; [rewrite A, A1; reflexivity|].
    split.
    { destruct M as [[M _]|[M _]]; [|discriminate M]. rewrite M, M1. reflexivity. }
    split; [exact W|].
    split; [rewrite X, X1; reflexivity|].
    split; [rewrite F, flags_emit_mgmt; reflexivity|].
    rewrite S, F1. reflexivity.
Qed.

Theorem late_error_step : forall s o c s' e,
  op_prim o = Some c -> step s o = (s', Err e) -> e <> EAdapter ->
  exists ad md ch ev lrs,
    ad_call s c = (ad, Ok true) /\
    prim_mop c (e_model s) = Some (md, ch, ev, lrs) /\
    prim_sec c = s_g /\ e_auto_build s = true /\ (prim_guarded c = true -> ch = true) /\
    e_adapter s' = ad /\ e_model s' = md /\
    e_wlog s' = e_wlog (emit_mgmt (upd_model (upd_adapter s ad) md) ch ev) /\
    e_mexprs s' = e_mexprs s /\ flags s' = flags s /\ fs_static (e_fs s') = fs_static (e_fs s).
Proof.
  intros s o c s' e Ho Hs He. rewrite (step_op_prim s o c Ho) in Hs. apply (late_error_prim s c s' e); assumption.
Qed.

(* clear_policy failing late: adapter and model are already empty *)
Theorem clear_late_error : forall s s' e,
  step s OClear = (s', Err e) -> e <> EAdapter ->
  e_auto_build s = true /\
  exists ad s3,
    (if e_auto_save s then ad_clear (e_adapter s) else (e_adapter s, LROk)) = (ad, LROk) /\
    build_role_links (upd_model (upd_adapter s ad) (m_clear_policy (e_model s))) = (s3, LErr e) /\
    s' = s3.
Proof.
  intros s s' e Hs He. cbn [step] in Hs. unfold step_clear in Hs.
  destruct (if e_auto_save s then ad_clear (e_adapter s) else (e_adapter s, LROk)) as [ad r] eqn:Ea.
  destruct r as [|e0|].
  - cbn [upd_model upd_adapter e_auto_build e_model] in Hs.
    destruct (e_auto_build s) eqn:Eb; [|discriminate Hs].
    split; [reflexivity|].
    destruct (build_role_links _) as [s3 [|e1]] eqn:E; [discriminate Hs|].
    inversion Hs; subst. exists ad, s'. repeat split. exact E.
  - exfalso. cbn [lres_out] in Hs. inversion Hs; subst e0. apply He.
    destruct (e_auto_save s); [|discriminate Ea].
    unfold ad_clear, scripted_unit in Ea.
    destruct (e_adapter s) as [|l f|l f|l f|i [|[| | | |] sc]]; cbn [ad0_clear] in Ea;
      try discriminate Ea; try (inversion Ea; reflexivity);
      destruct i; discriminate Ea.
  - discriminate Hs.
Qed.

(* ====================================================================== *)
(* Examples: a concrete RBAC enforcer                                     *)
(* ====================================================================== *)
Definition mk_ast v toks := {| a_value := v; a_tokens := toks; a_policy := []; a_handle := HOwn |}.
Definition ex_model_g (gval : text) : model :=
  [ (s_r, [(s_r, mk_ast (T "sub, obj, act") [T "r_sub"; T "r_obj"; T "r_act"])]);
    (s_p, [(s_p, mk_ast (T "sub, obj, act") [T "p_sub"; T "p_obj"; T "p_act"]);
           (T "p2", mk_ast (T "sub, act") [T "p2_sub"; T "p2_act"])]);
    (s_g, [(s_g, mk_ast gval [])]);
    (s_e, [(s_e, mk_ast s_allow_override [])]);
    (s_m, [(s_m, mk_ast (T "g(r_sub, p_sub) && r_obj == p_obj && r_act == p_act") [])]) ].
Definition ex_matcher : expr :=
  EAnd (ECall (T "g") [EVar s_r (T "sub"); EVar s_p (T "sub")])
       (EAnd (EEq (EVar s_r (T "obj")) (EVar s_p (T "obj")))
             (EEq (EVar s_r (T "act")) (EVar s_p (T "act")))).
Definition ex_def := {| d_model := ex_model_g (T "_, _"); d_mexprs := [(s_m, ex_matcher)] |}.
(* a role definition with a single placeholder: rejected by Enforcer::new,
   but reachable through set_model, which keeps the model it was given *)
Definition ex_bad_def := {| d_model := ex_model_g (T "_"); d_mexprs := [(s_m, ex_matcher)] |}.
Definition ex_ptab : text -> option expr := fun _ => None.
Definition ex_new (a : adapter) : estate := fst (new_enforcer ex_def a true).
Definition alice := T "alice". Definition bob := T "bob". Definition carol := T "carol".
Definition data1 := T "data1". Definition data2 := T "data2".
Definition read := T "read". Definition write := T "write". Definition admin := T "admin".
Definition ex_setup : list op :=
  [OAdd s_p s_p [admin; data1; read]; OAdd s_p s_p [alice; data2; write]; OAdd s_g s_g [alice; admin]].
(* an enforcer over a scripted memory adapter; the script answers the initial
   load and the three set-up calls with RPass, then follows `script` *)
Definition ex_st (script : list resp) : estate :=
  run_ops (ex_new (AScripted (AMemory [] false) ([RPass; RPass; RPass; RPass] ++ script))) ex_setup.
Definition ex_q1 := QEnforce [VStr alice; VStr data1; VStr read].   (* granted through the role *)

Definition outcome_eqb (a b : outcome bool) : bool :=
  match a, b with
  | Ok x, Ok y => Bool.eqb x y
  | Err x, Err y => errc_eqb x y
  | Panic, Panic => true
  | _, _ => false
  end.

(* the hypotheses of rejected_is_identity hold in a state with stored rules,
   a populated role graph and a granting decision *)
Example ex_rejected_hyps :
  e_auto_save (ex_st [RFail]) = true /\
  e_adapter (ex_st [RFail]) =
    AScripted (AMemory [[s_p; s_p; admin; data1; read]; [s_p; s_p; alice; data2; write];
                        [s_g; s_g; alice; admin]] false) [RFail] /\
  ask ex_ptab (ex_st [RFail]) ex_q1 = AnsDec (Ok true) /\
  ask ex_ptab (ex_st [RFail]) (QHasLink alice admin None) = AnsBool true.
Proof. vm_compute. repeat split. Qed.

Example ex_rejected_run :
  map (fun r => outcome_eqb (snd (step (ex_st [r]) (OAdd s_p s_p [bob; data1; read])))
                            (if fail_resp r then Err EAdapter else Ok false))
      [RRefuse; RFail; RFailLate; RFailPartial] = [true; true; true; true].
Proof. vm_compute. reflexivity. Qed.

(* delete_user: the second adapter call fails after the first was applied.
   The call reports an error, yet alice has lost her role (and the decision
   that depended on it), the adapter has lost the grouping line, and the
   watcher was told about the grouping removal only *)
Example two_call_partial_effect :
  let s := ex_st [RPass; RFail] in
  let r := step s (ORbac (RDeleteUser alice)) in
  snd r = Err EAdapter /\
  ask ex_ptab s ex_q1 = AnsDec (Ok true) /\ ask ex_ptab (fst r) ex_q1 = AnsDec (Ok false) /\
  m_get_all (e_model (fst r)) s_g = [] /\
  m_get_all (e_model (fst r)) s_p = m_get_all (e_model s) s_p /\
  e_wlog (fst r) = e_wlog s ++ [EvRemoveFiltered s_g s_g [[alice; admin]]].
Proof. vm_compute. repeat split. Qed.

(* a load that fails after delivering everything still resets the adapter's
   filtered mark: is_filtered() is the one query a failed load can change *)
Example failed_load_resets_filtered_mark :
  let s := fst (new_enforcer ex_def (AScripted (AMemory [[s_p; s_p; alice; data1; read]] true) [RFailLate]) true) in
  let r := step s OLoad in
  snd r = Err EAdapter /\
  ask ex_ptab s QIsFiltered = AnsBool true /\ ask ex_ptab (fst r) QIsFiltered = AnsBool false /\
  e_model (fst r) = e_model s.
Proof. vm_compute. repeat split. Qed.

Example ex_failed_load :
  let s := ex_st [RFailPartial] in
  snd (step s OLoad) = Err EAdapter /\
  e_model (fst (step s OLoad)) = e_model s /\ e_fs (fst (step s OLoad)) = e_fs s /\
  ask ex_ptab (fst (step s OLoad)) ex_q1 = AnsDec (Ok true).
Proof. vm_compute. repeat split. Qed.

(* a late error: a grouping rule shorter than the role definition. Adapter,
   model and watcher all have the rule; the call returns an error *)
Example late_error_witness :
  let s := ex_st [RPass] in
  let r := step s (OAdd s_g s_g [bob]) in
  snd r = Err EPolicy /\
  m_get_all (e_model (fst r)) s_g = [[s_g; s_g; alice; admin]; [s_g; s_g; bob]] /\
  e_adapter (fst r) =
    AScripted (AMemory [[s_p; s_p; admin; data1; read]; [s_p; s_p; alice; data2; write];
                        [s_g; s_g; alice; admin]; [s_g; s_g; bob]] false) [] /\
  e_wlog (fst r) = e_wlog s ++ [EvAdd s_g s_g [bob]].
Proof. vm_compute. repeat split. Qed.

Example ex_string_adapter :
  let s := fst (new_enforcer ex_def (AString [[s_p; alice; data1; read]] false) true) in
  e_auto_save s = true /\ m_get_all (e_model s) s_p = [[s_p; s_p; alice; data1; read]] /\
  snd (step s (ORbac (RDeleteUser alice))) = Err EAdapter /\
  snd (step s (OAdd s_p s_p [bob; data1; read])) = Err EAdapter.
Proof. vm_compute. repeat split. Qed.

(* a load whose ADAPTER succeeded but whose role-link rebuild failed: the
   call returns an error and the NEW policy is in force (no restore) *)
Theorem load_late_error : forall s o s' e,
  is_load o = true -> step s o = (s', Err e) -> e <> EAdapter ->
  e_auto_build s = true /\
  exists ad md,
    match o with
    | OLoadFiltered fp fg => ad_load_filtered (e_adapter s) fp fg (m_clear_policy (e_model s))
    | _ => ad_load (e_adapter s) (m_clear_policy (e_model s))
    end = (ad, md, LROk) /\
    build_role_links (upd_model (upd_adapter s ad) md) = (s', LErr e).
Proof.
  intros s o s' e Hl Hs He.
  assert (F : forall ad md r, finish_load s ad md r = (s', Err e) ->
     (r = LROk /\ e_auto_build s = true /\ build_role_links (upd_model (upd_adapter s ad) md) = (s', LErr e))
     \/ (r = LRErr e /\ s' = upd_adapter s ad)).
  { intros ad md r H. destruct r as [|e0|]; cbn [finish_load] in H.
    - left. cbn [upd_model upd_adapter e_auto_build] in H. destruct (e_auto_build s); [|discriminate H].
      destruct (build_role_links _) as [s2 [|e1]] eqn:E; cbn [lerr_out] in H; [discriminate H|].
      inversion H; subst. repeat split.
    - right. inversion H; subst. split; reflexivity.
    - discriminate H. }
  destruct o; try discriminate Hl; cbn [step] in Hs.
  - unfold step_load in Hs. destruct (ad_load (e_adapter s) (m_clear_policy (e_model s))) as [[ad md] r] eqn:Ea.
    destruct (F ad md r Hs) as [[-> [Hb Hbl]]|[-> ->]].
    + split; [exact Hb|]. exists ad, md. split; [reflexivity|exact Hbl].
    + exfalso. (* the model's adapters only ever fail with EAdapter *)
      apply He. clear -Ea. unfold ad_load in Ea.
      destruct (e_adapter s) as [|l f|l f|l f|i [|[| | | |] sc]]; cbn [ad0_load] in Ea;
        try discriminate Ea; try (inversion Ea; reflexivity);
        destruct i; cbn [ad0_load] in Ea; try discriminate Ea; inversion Ea; reflexivity.
  - unfold step_load_filtered in Hs.
    destruct (ad_load_filtered (e_adapter s) fp fg (m_clear_policy (e_model s))) as [[ad md] r] eqn:Ea.
    destruct (F ad md r Hs) as [[-> [Hb Hbl]]|[-> ->]].
    + split; [exact Hb|]. exists ad, md. split; [reflexivity|exact Hbl].
    + exfalso. apply He. clear -Ea. unfold ad_load_filtered in Ea.
      assert (A0 : forall i a' m', ad0_load_filtered i fp fg (m_clear_policy (e_model s)) = (a', m', LRErr e) -> False).
      { intros i a' m'. destruct i as [|l f|l f|l f|i sc]; cbn [ad0_load_filtered]; try discriminate.
        - destruct (mem_load_filtered _ _ _ _); discriminate.
        - destruct (str_load_filtered _ _ _ _); discriminate.
        - destruct (str_load_filtered _ _ _ _); discriminate. }
      destruct (e_adapter s) as [|l f|l f|l f|i [|[| | | |] sc]];
        try (exfalso; eapply A0; exact Ea); try (inversion Ea; reflexivity).
      * destruct (ad0_load_filtered i fp fg _) as [[i' m'] r'] eqn:E0. inversion Ea; subst.
        exfalso. eapply A0. exact E0.
      * destruct (ad0_load_filtered i fp fg _) as [[i' m'] r'] eqn:E0. inversion Ea; subst.
        exfalso. eapply A0. exact E0.
      * destruct (ad0_load_filtered i fp fg _) as [[i' m'] r'] eqn:E0. inversion Ea; reflexivity.
      * destruct (ad0_load_filtered i fp fg _) as [[i' m'] r'] eqn:E0. inversion Ea; reflexivity.
Qed.

(* witness: the store holds a grouping line shorter than the role definition *)
Example load_late_error_witness :
  let s := ex_new (AMemory [[s_p; s_p; alice; data1; read]] false) in
  let s1 := upd_adapter s (AMemory [[s_p; s_p; bob; data2; write]; [s_g; s_g; bob]] false) in
  let r := step s1 OLoad in
  snd r = Err EPolicy /\
  m_get_all (e_model s1) s_p = [[s_p; s_p; alice; data1; read]] /\
  m_get_all (e_model (fst r)) s_p = [[s_p; s_p; bob; data2; write]].
Proof. vm_compute. repeat split. Qed.
