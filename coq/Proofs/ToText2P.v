(* C16 (9), assembled: structural conditions under which Model::to_text
   followed by DefaultModel::from_str gives the model back. *)
From CV Require Import Model.Base Model.PathMatch Model.Expr Model.Csv Model.Ini Model.SpecC16.
From CV Require Import Proofs.ListAux Proofs.BaseP Proofs.CsvP Proofs.IniP Proofs.EscP.
From CV Require Import Proofs.ToTextP Proofs.ModelTextP Proofs.ReplaceP.
From Coq Require Import Lia.

(* ---- decidable equalities ---- *)
Lemma adef_eqb_eq : forall a b, adef_eqb a b = true <-> a = b.
Proof.
  intros [k v t] [k' v' t']. unfold adef_eqb. cbn [ad_key ad_value ad_tokens].
  rewrite !andb_true_iff, !teqb_eq. rewrite (list_eqb_eq teqb teqb_eq). split.
  - intros [[-> ->] ->]. reflexivity.
  - intros E. inversion E. auto.
Qed.
Lemma mdefs_eqb_eq : forall a b, mdefs_eqb a b = true <-> a = b.
Proof.
  unfold mdefs_eqb. apply list_eqb_eq. intros [s ds] [s' ds']. cbn [fst snd].
  rewrite andb_true_iff, teqb_eq, (list_eqb_eq adef_eqb adef_eqb_eq). split.
  - intros [-> ->]. reflexivity.
  - intros E. inversion E. auto.
Qed.

(* ---- a replacement that finds nothing ---- *)
Lemma rep_no_occ : forall t u x, t <> [] -> is_infix t x = false -> rep t u x = x.
Proof.
  intros t u x Ht. induction x as [|c r IH]; intros H; [reflexivity|].
  cbn [is_infix] in H. apply orb_false_iff in H. destruct H as [H1 H2].
  rewrite rep_step by exact H1. rewrite IH by exact H2. reflexivity.
Qed.
Lemma apply_table_no_infix : forall tb v, table_ok tb = true -> no_token_infix tb v = true ->
  apply_table tb v = v.
Proof.
  intros tb v Htb. apply table_ok_tokP in Htb. rewrite apply_table_rep.
  induction Htb as [|[t u] tb Htu _ IH]; intros H; [reflexivity|].
  cbn [no_token_infix forallb fst] in H. apply andb_true_iff in H. destruct H as [H1 H2].
  cbn [fold_left fst snd]. rewrite rep_no_occ; [apply IH, H2|apply (tokP_ne _ _ Htu)|].
  apply negb_true_iff, H1.
Qed.

(* ---- one definition ---- *)
Lemma adef_eta : forall d, {| ad_key := ad_key d; ad_value := ad_value d; ad_tokens := ad_tokens d |} = d.
Proof. intros [k v t]. reflexivity. Qed.

Lemma add_def_em : forall sec key w, sec = T "e" \/ sec = T "m" -> chunk_ok w = true -> no_hash w = true ->
  add_def sec key w = Some {| ad_key := key; ad_value := escape_assertion w; ad_tokens := [] |}.
Proof.
  intros sec key w Hsec Hw Hh. apply chunk_ok_P in Hw.
  unfold add_def. rewrite (remove_comment_id w Hh (ch_lok _ Hw)).
  destruct w as [|c w']; [exfalso; apply (chunkP_ne _ Hw); reflexivity|].
  destruct Hsec as [-> | ->]; reflexivity.
Qed.

Lemma def_written_back : forall tb sec d, In sec model_secs -> table_ok tb = true ->
  def_totext_ok tb sec d = true ->
  chunk_ok (written_value tb (rw_of sec) d) = true ->
  add_def sec (ad_key d) (written_value tb (rw_of sec) d) = Some d.
Proof.
  intros tb sec d Hsec Htb Hd Hw. unfold def_totext_ok in Hd.
  cbn in Hsec. destruct Hsec as [E|[E|[E|[E|[E|[]]]]]]; subst sec;
    vm_compute teqb in Hd; cbv iota in Hd; cbn [orb] in Hd; unfold written_value in *;
    vm_compute rw_of in *; cbv iota in *.
  - (* r *)
    apply andb_true_iff in Hd. destruct Hd as [H1 H2].
    rewrite apply_table_no_infix by assumption. unfold def_canon in H2.
    destruct (add_def ["r"%char] (ad_key d) (ad_value d)) as [d'|]; [|discriminate].
    apply adef_eqb_eq in H2. subst d'. reflexivity.
  - (* p *)
    apply andb_true_iff in Hd. destruct Hd as [H1 H2].
    rewrite apply_table_no_infix by assumption. unfold def_canon in H2.
    destruct (add_def ["p"%char] (ad_key d) (ad_value d)) as [d'|]; [|discriminate].
    apply adef_eqb_eq in H2. subst d'. reflexivity.
  - (* e *)
    rewrite !andb_true_iff in Hd. destruct Hd as [[H1 H2] H3].
    rewrite (add_def_em (T "e")) by (try assumption; left; reflexivity).
    rewrite escape_apply_table by assumption. destruct (ad_tokens d) eqn:Et; [|discriminate].
    rewrite <- Et. rewrite adef_eta. reflexivity.
  - (* m *)
    rewrite !andb_true_iff in Hd. destruct Hd as [[H1 H2] H3].
    rewrite (add_def_em (T "m")) by (try assumption; right; reflexivity).
    rewrite escape_apply_table by assumption. destruct (ad_tokens d) eqn:Et; [|discriminate].
    rewrite <- Et. rewrite adef_eta. reflexivity.
  - (* g *)
    unfold def_canon in Hd.
    destruct (add_def ["g"%char] (ad_key d) (ad_value d)) as [d'|]; [|discriminate].
    apply adef_eqb_eq in Hd. subst d'. reflexivity.
Qed.

Lemma reload_defs_fix : forall tb sec ds, In sec model_secs -> table_ok tb = true ->
  forallb (def_totext_ok tb sec) ds = true ->
  forallb (fun kv => chunk_ok (snd kv)) (totext_kvs tb (rw_of sec) ds) = true ->
  reload_defs sec (totext_kvs tb (rw_of sec) ds) = ds.
Proof.
  intros tb sec ds Hsec Htb. induction ds as [|d ds IH]; intros Hd Hw; [reflexivity|].
  cbn [forallb totext_kvs map snd] in Hd, Hw. apply andb_true_iff in Hd. destruct Hd as [Hd Hds].
  apply andb_true_iff in Hw. destruct Hw as [Hw Hws].
  cbn [totext_kvs map reload_defs]. rewrite (def_written_back tb sec d Hsec Htb Hd Hw).
  f_equal. apply IH; assumption.
Qed.

(* every value written by to_text is a legal single-line value *)
Lemma plain_ok_chunks : forall m sec, In sec model_secs -> plain_ok (totext_secs m) = true ->
  forallb (fun kv => chunk_ok (snd kv)) (totext_kvs (token_table m) (rw_of sec) (sec_defs m sec)) = true.
Proof.
  intros m sec Hsec Hp.
  destruct (teqb sec (T "g")) eqn:Eg; [destruct (assoc (T "g") m) as [gs|] eqn:Ea|].
  - assert (Hin : In (sec_name sec, totext_kvs (token_table m) (rw_of sec) (sec_defs m sec)) (totext_secs m)).
    { apply totext_secs_In; [exact Hsec|]. right. rewrite Ea. discriminate. }
    unfold plain_ok in Hp. rewrite forallb_forall in Hp. specialize (Hp _ Hin). cbn [fst snd] in Hp.
    apply andb_true_iff in Hp. destruct Hp as [_ Hp]. rewrite forallb_forall in *.
    intros kv Hkv. specialize (Hp _ Hkv). apply andb_true_iff in Hp. tauto.
  - apply teqb_eq in Eg. subst sec. unfold sec_defs. rewrite Ea. reflexivity.
  - assert (Hin : In (sec_name sec, totext_kvs (token_table m) (rw_of sec) (sec_defs m sec)) (totext_secs m)).
    { apply totext_secs_In; [exact Hsec|]. left. apply teqb_neq, Eg. }
    unfold plain_ok in Hp. rewrite forallb_forall in Hp. specialize (Hp _ Hin). cbn [fst snd] in Hp.
    apply andb_true_iff in Hp. destruct Hp as [_ Hp]. rewrite forallb_forall in *.
    intros kv Hkv. specialize (Hp _ Hkv). apply andb_true_iff in Hp. tauto.
Qed.

(* ---- the whole model ---- *)
Theorem reload_model_fix : forall m,
  totext_wf m = true -> mdefs_canon m = true -> table_ok (token_table m) = true ->
  totext_defs_ok m = true -> reload_model m = m.
Proof.
  intros m Hwf Hcanon Htb Hdefs. apply mdefs_eqb_eq in Hcanon. rewrite Hcanon at 2.
  unfold reload_model. cbv zeta.
  unfold totext_wf in Hwf. rewrite !andb_true_iff in Hwf. destruct Hwf as [[Hplain _] _].
  unfold totext_defs_ok in Hdefs. rewrite forallb_forall in Hdefs.
  assert (H : forall sec, In sec model_secs ->
            reload_defs sec (totext_kvs (token_table m) (rw_of sec) (sec_defs m sec)) = sec_defs m sec).
  { intros sec Hsec. apply reload_defs_fix; [exact Hsec|exact Htb|apply Hdefs, Hsec|].
    apply plain_ok_chunks; assumption. }
  revert H. generalize model_secs as secs. induction secs as [|sec secs IH]; intros H; [reflexivity|].
  cbn [flat_map]. rewrite (H sec) by (left; reflexivity). f_equal.
  apply IH. intros s Hs. apply H. right. exact Hs.
Qed.

(* (9): to_text then from_str is the identity on models whose tokens are
   well-formed and occur in the effect / matcher values at word boundaries only *)
Theorem to_text_roundtrip_structural : forall m,
  totext_wf m = true -> mdefs_canon m = true -> table_ok (token_table m) = true ->
  totext_defs_ok m = true -> model_of_text (to_text m) = Some m.
Proof.
  intros m H1 H2 H3 H4. apply to_text_roundtrip; [exact H1|]. apply reload_model_fix; assumption.
Qed.

(* what load_model builds is in canonical section order *)
Lemma assoc_flat_secs : forall (g : text -> list adef) secs k, NoDup secs ->
  assoc k (flat_map (fun sec => match g sec with [] => [] | ds => [(sec, ds)] end) secs)
  = if memb teqb k secs then (match g k with [] => None | ds => Some ds end) else None.
Proof.
  intros g secs k Hnd. induction Hnd as [|s secs Hnotin _ IH]; [reflexivity|].
  cbn [flat_map memb existsb]. fold (memb teqb k secs).
  destruct (teqb k s) eqn:E.
  - apply teqb_eq in E. subst s. cbn [orb].
    destruct (g k) as [|d ds] eqn:Eg.
    + cbn [app]. rewrite IH. apply memb_not_In in Hnotin. rewrite Hnotin. reflexivity.
    + cbn [app assoc]. rewrite teqb_refl. reflexivity.
  - cbn [orb]. destruct (g s) as [|d ds]; [exact IH|]. cbn [app assoc]. rewrite E. exact IH.
Qed.
Lemma flat_secs_ext : forall (g h : text -> list adef) secs, (forall sec, In sec secs -> h sec = g sec) ->
  flat_map (fun sec => match g sec with [] => [] | ds => [(sec, ds)] end) secs
  = flat_map (fun sec => match h sec with [] => [] | ds => [(sec, ds)] end) secs.
Proof.
  intros g h secs H. induction secs as [|s secs IH]; [reflexivity|].
  cbn [flat_map]. rewrite (H s) by (left; reflexivity). f_equal. apply IH.
  intros x Hx. apply H. right. exact Hx.
Qed.
Lemma load_model_canon : forall c, mdefs_canon (load_model c) = true.
Proof.
  intros c. apply mdefs_eqb_eq. unfold load_model. fold model_secs.
  set (g := fun sec => load_section (S (length c)) c sec 1).
  set (M := flat_map (fun sec => match g sec with [] => [] | ds => [(sec, ds)] end) model_secs).
  change (M = flat_map (fun sec => match sec_defs M sec with [] => [] | ds => [(sec, ds)] end) model_secs).
  unfold M at 1. apply flat_secs_ext.
  assert (Hnd : NoDup model_secs) by (apply nodupb_NoDup; vm_compute; reflexivity).
  intros sec Hsec. unfold sec_defs, M. rewrite (assoc_flat_secs g model_secs sec Hnd).
  apply memb_In in Hsec. rewrite Hsec. destruct (g sec); reflexivity.
Qed.

(* ---- the structural conditions hold for the documented models ---- *)
Definition structural_ok (t : text) : bool :=
  match model_of_text t with
  | Some m => totext_wf m && mdefs_canon m && table_ok (token_table m) && totext_defs_ok m
  | None => false
  end.
Example structural_basic : structural_ok basic_model_text = true.
Proof. vm_compute. reflexivity. Qed.
Example structural_rbac : structural_ok rbac_model_text = true.
Proof. vm_compute. reflexivity. Qed.
Example structural_rbac_domains : structural_ok rbac_domains_model_text = true.
Proof. vm_compute. reflexivity. Qed.
Example structural_priority : structural_ok priority_model_text = true.
Proof. vm_compute. reflexivity. Qed.
Example structural_deny : structural_ok deny_model_text = true.
Proof. vm_compute. reflexivity. Qed.
Example structural_multi : structural_ok multi_model_text = true.
Proof. vm_compute. reflexivity. Qed.
Example structural_abac : structural_ok abac_model_text = true.
Proof. vm_compute. reflexivity. Qed.
(* ... and fail where the round trip fails: a token inside a longer word *)
Example structural_substring : structural_ok substring_model_text = false.
Proof. vm_compute. reflexivity. Qed.
Example substring_inner_occ :
  no_inner_occ [T "r_obj"] false (T "r_obj == ""user_obj""") = false.
Proof. vm_compute. reflexivity. Qed.

(* the conditions on the token shape are needed too: a request field named `p`
   whose value is dereferenced. The stored matcher `r_p.x == p_sub` is written
   `r.p.x == p.sub` and read back as `r_p_x == p_sub` *)
Example field_named_p_refuted :
  let tb := [(T "r_p", T "r.p"); (T "p_sub", T "p.sub")] in
  (table_ok tb, value_totext_ok tb (T "r_p.x == p_sub"),
   escape_assertion (apply_table tb (T "r_p.x == p_sub")))
  = (false, true, T "r_p_x == p_sub").
Proof. vm_compute. reflexivity. Qed.
