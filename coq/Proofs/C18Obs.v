(* C18obs — the reconfigured enforcer answers like the freshly built one, for
   states reached through INCREMENTAL management calls.

   After an incremental removal the role graph keeps isolated nodes and another
   edge order than a rebuild gives, so `Synced` (exact equality of the graph)
   fails.  Here the graph is only required to be in sync at the level of C05's
   `RoleSync` (edge sets), and the conclusion is stated on answers (`ans_eq`:
   set-valued answers compared as sets). *)
From CV Require Import Model.Base Model.Effector Model.RoleGraph Model.PathMatch Model.Expr
     Model.Enforce Model.Engine Model.SpecC05 Model.SpecC18.
From CV Require Import Proofs.BaseP Proofs.RoleGraphP Proofs.ExprP Proofs.ExModels
     Proofs.C05Links Proofs.C05Sync Proofs.C05Steps Proofs.C05Load Proofs.C05Main
     Proofs.C05Rebuild Proofs.C05P Proofs.C18P Proofs.C18Q.
From Coq Require Import Lia Relations.

(* ================= 1. the hypothesis ================= *)

(* the store half of Synced: the manager built on the way is not compared *)
Definition StoreSynced (s : estate) : Prop :=
  exists ad md m',
    ad_load (e_adapter s) (m_clear_policy (e_model s)) = (ad, md, LROk) /\
    build_of md = (e_model s, m', LOk) /\
    ad_is_filtered ad = ad_is_filtered (e_adapter s).

Definition ObsSynced (s : estate) : Prop :=
  StoreSynced s /\ RoleSync s /\ g_exact (e_model s) = true /\
  shallow (f_rm_max (e_fs s)) (f_rm (e_fs s)).

Lemma store_syncedb_sound : forall s, store_syncedb s = true -> StoreSynced s.
Proof.
  intros s. unfold store_syncedb, StoreSynced.
  destruct (ad_load (e_adapter s) (m_clear_policy (e_model s))) as [[ad md] r].
  destruct r; try discriminate.
  change (build_model md) with (build_of md).
  destruct (build_of md) as [[md' m'] e] eqn:Hb. destruct e; try discriminate.
  intros H. apply andb_true_iff in H. destruct H as [Hm Hf].
  apply model_eqb_eq in Hm. apply Bool.eqb_prop in Hf. subst md'.
  exists ad, md, m'. auto.
Qed.

Theorem obs_syncedb_sound : forall s, obs_syncedb s = true -> ObsSynced s.
Proof.
  intros s H. unfold obs_syncedb in H.
  apply andb_true_iff in H. destruct H as [H Hsh].
  apply andb_true_iff in H. destruct H as [H Hex].
  apply andb_true_iff in H. destruct H as [Hst Hrs].
  split; [apply store_syncedb_sound, Hst|]. split; [apply role_sync_b_sound, Hrs|].
  split; [exact Hex|apply shallow_b_sound, Hsh].
Qed.

(* Synced is the special case *)
Lemma Synced_StoreSynced : forall s, Synced s -> StoreSynced s.
Proof. intros s (ad & md & Hl & Hb & Hf). exists ad, md, (f_rm (e_fs s)). auto. Qed.

(* ================= 2. the rebuilt twin of a state ================= *)
(* the state with the manager a rebuild gives: it is Synced, and (C05) it
   answers every query like the state itself *)
Definition with_rm (s : estate) (m : rmgr) : estate := upd_fs s (set_rm (e_fs s) m).

Lemma with_rm_Synced : forall s ad md m',
  ad_load (e_adapter s) (m_clear_policy (e_model s)) = (ad, md, LROk) ->
  build_of md = (e_model s, m', LOk) ->
  ad_is_filtered ad = ad_is_filtered (e_adapter s) ->
  Synced (with_rm s m').
Proof. intros s ad md m' Hl Hb Hf. exists ad, md. cbn. auto. Qed.

(* the manager the store builds is the one an explicit rebuild installs *)
Lemma built_rebuild : forall s m', Built (e_model s) m' -> RoleSync s -> g_exact (e_model s) = true ->
  wf m' /\ edges_equiv m' (f_rm (e_fs s)).
Proof.
  intros s m' Hbuilt Hrs Hex.
  destruct (rebuild_state s Hrs Hex) as (m2 & Hstep & Hwf & He & _).
  cbn [step] in Hstep. destruct (build_role_links s) as [s2 e] eqn:Hb.
  apply build_role_links_core in Hb. unfold Built in Hbuilt. rewrite Hbuilt in Hb.
  destruct Hb as [_ Hc]. cbv beta iota in Hstep.
  assert (Hs2 : s2 = upd_fs s (set_rm (e_fs s) m2)) by congruence. subst s2.
  apply (f_equal k_rm) in Hc. cbn in Hc. subst m2. split; assumption.
Qed.

Lemma ans_eq_sym : forall x y, ans_eq x y -> ans_eq y x.
Proof.
  intros x y H.
  destruct x as [o|l|l|l|l|b|]; destruct y as [o'|l'|l'|l'|l'|b'|]; cbn [ans_eq] in *;
    try discriminate; try (symmetry; exact H); intros e; symmetry; apply H.
Qed.

Lemma ans_eq_trans : forall x y z, ans_eq x y -> ans_eq y z -> ans_eq x z.
Proof.
  intros x y z H1 H2.
  destruct x as [o|l|l|l|l|b|]; destruct y as [o'|l'|l'|l'|l'|b'|]; cbn [ans_eq] in H1;
    try discriminate; try (rewrite H1; exact H2);
    destruct z as [o2|l2|l2|l2|l2|b2|]; cbn [ans_eq] in *; try discriminate;
    try reflexivity; intros e; rewrite (H1 e); apply H2.
Qed.

Lemma ans_eq_of_eq : forall x y, x = y -> ans_eq x y.
Proof. intros x y ->. apply ans_eq_refl. Qed.

(* an ObsSynced state answers like its rebuilt twin *)
Lemma obs_twin : forall s, ObsSynced s ->
  exists m', Synced (with_rm s m') /\
             forall ptab q, ans_eq (ask ptab s q) (ask ptab (with_rm s m') q).
Proof.
  intros s ((ad & md & m' & Hl & Hb & Hf) & Hrs & Hex & Hsh).
  exists m'. split; [eapply with_rm_Synced; eassumption|].
  intros ptab q. apply ans_eq_sym.
  assert (Hbuilt : Built (e_model s) m') by (eapply build_of_idem, Hb).
  destruct (built_rebuild s m' Hbuilt Hrs Hex) as [Hwf' He].
  pose proof Hrs as ((Hwf & _ & _) & _).
  apply set_rm_ask; assumption.
Qed.

(* ================= 3. set_effector, add_function (no reload) ================= *)

(* the fresh enforcer is built from the components of the state only *)
Lemma fresh_from_with_rm : forall d a s m, fresh_from d a (with_rm s m) = fresh_from d a s.
Proof. reflexivity. Qed.

Theorem obs_fresh : forall s,
  ObsSynced s -> ad_is_filtered (e_adapter s) = false ->
  gfuns_exactb (f_gfuns (e_fs s)) (e_model s) = true ->
  exists sf, fresh_from (cur_def s) (e_adapter s) s = (sf, Ok true) /\
             forall ptab q, ans_eq (ask ptab s q) (ask ptab sf q).
Proof.
  intros s Hobs Hnf Hgx. destruct (obs_twin s Hobs) as (m' & Hsy & Hans).
  destruct (synced_fresh (with_rm s m') Hsy Hnf Hgx) as (sf & Hf & He & _).
  exists sf. split; [exact Hf|].
  intros ptab q. eapply ans_eq_trans; [apply Hans|].
  apply ans_eq_of_eq, ask_equiv, He.
Qed.

Theorem obs_set_effector_fresh : forall s s' b,
  step s OSetEffector = (s', Ok b) ->
  ObsSynced s -> ad_is_filtered (e_adapter s) = false ->
  gfuns_exactb (f_gfuns (e_fs s)) (e_model s) = true ->
  exists sf, fresh_from (cur_def s') (e_adapter s') s' = (sf, Ok true) /\
             forall ptab q, ans_eq (ask ptab s' q) (ask ptab sf q).
Proof.
  intros s s' b Hstep Hobs Hnf Hgx. cbn [step] in Hstep. inversion Hstep; subst s'.
  apply obs_fresh; assumption.
Qed.

(* add_function touches neither the store nor the role graph *)
Lemma ObsSynced_add_function : forall s n u,
  ObsSynced s -> ObsSynced (fst (step s (OAddFunction n u))).
Proof.
  intros s n u ((ad & md & m' & Hl & Hb & Hf) & Hrs & Hex & Hsh). cbn [step fst].
  split; [exists ad, md, m'; auto|]. split; [|split; [exact Hex|exact Hsh]].
  exact Hrs.
Qed.

Theorem obs_add_function_fresh : forall s n u s' b,
  step s (OAddFunction n u) = (s', Ok b) ->
  ObsSynced s -> ad_is_filtered (e_adapter s) = false ->
  gfuns_exactb (f_gfuns (e_fs s)) (e_model s) = true ->
  exists sf, fresh_from (cur_def s') (e_adapter s') s' = (sf, Ok true) /\
             (forall ptab q, ans_eq (ask ptab s' q) (ask ptab sf q)) /\
             f_ufuns (e_fs s') = (n, u) :: f_ufuns (e_fs s).
Proof.
  intros s n u s' b Hstep Hobs Hnf Hgx.
  pose proof (ObsSynced_add_function s n u Hobs) as Hobs'. rewrite Hstep in Hobs'. cbn [fst] in Hobs'.
  cbn [step] in Hstep. inversion Hstep; subst s'. clear Hstep.
  destruct (obs_fresh _ Hobs' Hnf Hgx) as (sf & Hf & Hans).
  exists sf. split; [exact Hf|]. split; [exact Hans|reflexivity].
Qed.

(* ================= 4. set_role_manager ================= *)
(* the call rebuilds the links from scratch: only the STORE has to be in sync,
   and the two enforcers are equivalent outright (no depth condition) *)
Lemma set_role_manager_core_gen : forall s mx s' r m,
  e_auto_build s = true -> Built (e_model s) m ->
  step_set_role_manager s mx = (s', r) ->
  r = lerr_out (snd (reg_of (e_model s) (frozen_gfuns s))) true /\
  core_of s' = {| k_model := e_model s; k_mexprs := e_mexprs s; k_adapter := e_adapter s;
                  k_rm := m; k_rm_max := mx;
                  k_gfuns := fst (reg_of (e_model s) (frozen_gfuns s));
                  k_ufuns := f_ufuns (e_fs s);
                  k_enabled := e_enabled s; k_auto_save := e_auto_save s;
                  k_auto_build := true; k_auto_notify := e_auto_notify s;
                  k_watcher := e_watcher s |}.
Proof.
  intros s mx s' r m Hab Hbuilt. unfold step_set_role_manager. cbv zeta.
  cbn [e_auto_build upd_fs upd_model]. rewrite Hab.
  match goal with |- context [build_role_links ?st] =>
    destruct (build_role_links st) as [s2 e] eqn:Hb end.
  apply build_role_links_core in Hb. cbn [e_model upd_fs upd_model] in Hb.
  match type of Hb with context [build_of ?X] =>
    change X with (freeze_model (freeze_handle (f_rm (e_fs s)) (f_rm_max (e_fs s))) (e_model s)) in Hb
  end.
  rewrite (build_of_frozen _ _ _ Hbuilt) in Hb. destruct Hb as [-> Hc].
  destruct (register_g_functions s2) as [s3 e3] eqn:Hr. intros H; inversion H; subst s3 r. clear H.
  apply register_g_functions_core in Hr. destruct Hr as [-> Hc3].
  assert (Hm2 : e_model s2 = e_model s) by (apply (f_equal k_model) in Hc; exact Hc).
  assert (Hg2 : f_gfuns (e_fs s2) = frozen_gfuns s) by (apply (f_equal k_gfuns) in Hc; exact Hc).
  rewrite Hm2, Hg2 in *. split; [reflexivity|].
  rewrite Hc3, Hc. cbn. rewrite Hab. reflexivity.
Qed.

Theorem store_set_role_manager_fresh : forall s mx s' b,
  step s (OSetRoleManager mx) = (s', Ok b) ->
  StoreSynced s -> e_auto_build s = true -> ad_is_filtered (e_adapter s) = false ->
  no_leftover (f_gfuns (e_fs s)) (e_model s) = true ->
  exists sf, fresh_from (cur_def s') (e_adapter s') s' = (sf, Ok true) /\ st_equiv s' sf /\
             f_rm_max (e_fs sf) = mx /\ Synced s' /\ e_model s' = e_model s /\
             e_adapter s' = e_adapter s /\
             gfuns_exactb (f_gfuns (e_fs s')) (e_model s') = true.
Proof.
  intros s mx s' b Hstep (ad & md & m' & Hl & Hb & Hfl) Hab Hnf Hnl. cbn [step] in Hstep.
  assert (Hbuilt : Built (e_model s) m') by (eapply build_of_idem, Hb).
  destruct (set_role_manager_core_gen s mx s' (Ok b) m' Hab Hbuilt Hstep) as [Hr Hc].
  unfold reg_of in Hr, Hc.
  destruct (reg_keys (model_gkeys (e_model s)) (frozen_gfuns s)) as [G e] eqn:HG.
  cbn [fst snd] in *. assert (He : e = LOk) by (destruct e; [reflexivity|discriminate]). subst e.
  assert (Hm : e_model s' = e_model s) by (apply (f_equal k_model) in Hc; exact Hc).
  assert (Ha : e_adapter s' = e_adapter s) by (apply (f_equal k_adapter) in Hc; exact Hc).
  assert (Hrm : f_rm (e_fs s') = m') by (apply (f_equal k_rm) in Hc; exact Hc).
  assert (Hg : f_gfuns (e_fs s') = G) by (apply (f_equal k_gfuns) in Hc; exact Hc).
  assert (Hsy' : Synced s').
  { exists ad, md. rewrite Hm, Ha, Hrm. auto. }
  assert (Hreg : snd (reg_keys (model_gkeys (e_model s)) []) = LOk).
  { pose proof (reg_keys_err (model_gkeys (e_model s)) [] (frozen_gfuns s)) as H0.
    rewrite HG in H0. exact H0. }
  assert (Hgx : gf_exact G (model_gkeys (e_model s))).
  { intros k. rewrite (find_reg_keys _ _ G HG k).
    destruct (memb gkey_eqb k (model_gkeys (e_model s))) eqn:Ek; [reflexivity|].
    unfold frozen_gfuns. rewrite find_gfun_map, (no_leftover_spec _ _ k Hnl Ek). reflexivity. }
  assert (Hnf' : ad_is_filtered (e_adapter s') = false) by (rewrite Ha; exact Hnf).
  assert (Hreg' : snd (reg_keys (model_gkeys (d_model (cur_def s'))) []) = LOk).
  { cbn [cur_def d_model]. rewrite Hm. exact Hreg. }
  assert (Hl' : ad_load (e_adapter s') (m_clear_policy (d_model (cur_def s'))) = (ad, md, LROk)).
  { cbn [cur_def d_model]. rewrite Hm, Ha. exact Hl. }
  assert (Hb' : build_of md = (e_model s', f_rm (e_fs s'), LOk)) by (rewrite Hm, Hrm; exact Hb).
  destruct (fresh_from_core (cur_def s') (e_adapter s') s' ad md _ _ Hnf' Hreg' Hl' Hb')
    as (sf & Gf & Hf & HGf & Hcf).
  cbn [cur_def d_model d_mexprs] in *.
  exists sf. split; [exact Hf|]. split; [|split; [|split; [exact Hsy'|split; [exact Hm|split; [exact Ha|]]]]].
  - apply (st_equiv_of_cores s' sf (model_gkeys (e_model s'))); rewrite ?Hcf; cbn;
      try reflexivity; try assumption.
    + rewrite Ha. symmetry. exact Hfl.
    + rewrite Hg, Hm. exact Hgx.
  - apply (f_equal k_rm_max) in Hcf. cbn in Hcf. rewrite Hcf.
    apply (f_equal k_rm_max) in Hc. exact Hc.
  - rewrite Hg, Hm. unfold gfuns_exactb.
    assert (Hgd : gdefs_ok (e_model s) = true) by (eapply reg_keys_gdefs, HG).
    assert (Hgc : gfuns_current G (e_model s) = true) by (eapply reg_keys_current, HG).
    rewrite Hgd, Hgc. cbn [andb]. unfold no_leftover. apply forallb_forall.
    intros [k h] Hin. cbn [fst].
    destruct (memb gkey_eqb k (model_gkeys (e_model s))) eqn:Ek; [reflexivity|exfalso].
    (* a key registered in G outside the model's would contradict gf_exact *)
    assert (Hex : exists h', find_gfun k G = Some h').
    { clear -Hin. induction G as [|[k0 h0] G IH]; [destruct Hin|]. cbn [find_gfun].
      destruct (gkey_eqb k k0) eqn:E; [eexists; reflexivity|].
      destruct Hin as [Hin|Hin]; [inversion Hin; subst; rewrite (proj2 (gkey_eqb_eq k k) eq_refl) in E;
                                   discriminate|apply IH, Hin]. }
    destruct Hex as [h' Hh']. rewrite (Hgx k), Ek in Hh'. discriminate.
Qed.

Theorem obs_set_role_manager_fresh : forall s mx s' b,
  step s (OSetRoleManager mx) = (s', Ok b) ->
  ObsSynced s -> e_auto_build s = true -> ad_is_filtered (e_adapter s) = false ->
  no_leftover (f_gfuns (e_fs s)) (e_model s) = true ->
  exists sf, fresh_from (cur_def s') (e_adapter s') s' = (sf, Ok true) /\
             (forall ptab q, ans_eq (ask ptab s' q) (ask ptab sf q)) /\
             f_rm_max (e_fs sf) = mx.
Proof.
  intros s mx s' b Hstep (Hst & _) Hab Hnf Hnl.
  destruct (store_set_role_manager_fresh s mx s' b Hstep Hst Hab Hnf Hnl)
    as (sf & Hf & He & Hmx & _).
  exists sf. split; [exact Hf|]. split; [|exact Hmx].
  intros ptab q. apply ans_eq_of_eq, ask_equiv, He.
Qed.

(* ================= 5. the boolean check of the store half is exact ================= *)
Lemma model_eqb_refl : forall x, model_eqb x x = true.
Proof. intros x. apply model_eqb_eq. reflexivity. Qed.

Theorem store_syncedb_complete : forall s, StoreSynced s -> store_syncedb s = true.
Proof.
  intros s (ad & md & m' & Hl & Hb & Hf). unfold store_syncedb. rewrite Hl.
  change (build_model md) with (build_of md). rewrite Hb, model_eqb_refl, Hf.
  destruct (ad_is_filtered (e_adapter s)); reflexivity.
Qed.

(* ================= 6. harmless leftover role functions ================= *)
(* as in C18.v: role functions of an earlier model may stay registered as long
   as nothing the state can evaluate calls a function by a leftover name *)
Lemma answer_equiv_ans_eq : forall x y, answer_equiv x y -> ans_eq x y.
Proof.
  intros x y H.
  destruct x as [o|l|l|l|l|b|]; destruct y as [o'|l'|l'|l'|l'|b'|]; cbn [answer_equiv ans_eq] in *;
    try exact H; try discriminate.
  intros e. split; intros He.
  - eapply Permutation.Permutation_in; [exact H|exact He].
  - eapply Permutation.Permutation_in; [apply Permutation.Permutation_sym, H|exact He].
Qed.

Theorem obs_fresh_calls : forall ptab s,
  ObsSynced s -> ad_is_filtered (e_adapter s) = false ->
  gdefs_ok (e_model s) = true ->
  forall safe : text -> Prop,
  gf_exact_on safe (f_gfuns (e_fs s)) (model_gkeys (e_model s)) ->
  (forall k m, assoc k (e_mexprs s) = Some m -> calls_in safe m) ->
  (forall t e', ptab t = Some e' -> calls_in safe e') ->
  exists sf, fresh_from (cur_def s) (e_adapter s) s = (sf, Ok true) /\
             forall q, ans_eq (ask ptab s q) (ask ptab sf q).
Proof.
  intros ptab s Hobs Hnf Hgd safe Hgx Hmx Hpt. destruct (obs_twin s Hobs) as (m' & Hsy & Hans).
  destruct (synced_fresh_calls ptab (with_rm s m') Hsy Hnf Hgd safe Hgx Hmx Hpt) as (sf & Hf & Ho).
  exists sf. split; [exact Hf|]. intros q. eapply ans_eq_trans; [apply Hans|].
  apply answer_equiv_ans_eq, Ho.
Qed.

Theorem obs_set_effector_fresh_calls : forall ptab s s' b,
  step s OSetEffector = (s', Ok b) ->
  ObsSynced s -> ad_is_filtered (e_adapter s) = false ->
  gdefs_ok (e_model s) = true -> gfuns_current (f_gfuns (e_fs s)) (e_model s) = true ->
  let safe := fun f => safe_name (f_gfuns (e_fs s)) (e_model s) f = true in
  (forall k m, assoc k (e_mexprs s) = Some m -> calls_in safe m) ->
  (forall t e', ptab t = Some e' -> calls_in safe e') ->
  exists sf, fresh_from (cur_def s') (e_adapter s') s' = (sf, Ok true) /\
             forall q, ans_eq (ask ptab s' q) (ask ptab sf q).
Proof.
  intros ptab s s' b Hstep Hobs Hnf Hgd Hgc safe Hmx Hpt. cbn [step] in Hstep.
  inversion Hstep; subst s'.
  apply (obs_fresh_calls ptab s Hobs Hnf Hgd safe); try assumption.
  apply gf_exact_on_current, Hgc.
Qed.

Theorem obs_add_function_fresh_calls : forall ptab s n u s' b,
  step s (OAddFunction n u) = (s', Ok b) ->
  ObsSynced s -> ad_is_filtered (e_adapter s) = false ->
  gdefs_ok (e_model s) = true -> gfuns_current (f_gfuns (e_fs s)) (e_model s) = true ->
  let safe := fun f => safe_name (f_gfuns (e_fs s)) (e_model s) f = true in
  (forall k m, assoc k (e_mexprs s) = Some m -> calls_in safe m) ->
  (forall t e', ptab t = Some e' -> calls_in safe e') ->
  exists sf, fresh_from (cur_def s') (e_adapter s') s' = (sf, Ok true) /\
             forall q, ans_eq (ask ptab s' q) (ask ptab sf q).
Proof.
  intros ptab s n u s' b Hstep Hobs Hnf Hgd Hgc safe Hmx Hpt.
  pose proof (ObsSynced_add_function s n u Hobs) as Hobs'. rewrite Hstep in Hobs'. cbn [fst] in Hobs'.
  cbn [step] in Hstep. inversion Hstep; subst s'. clear Hstep.
  apply (obs_fresh_calls ptab _ Hobs' Hnf Hgd safe); try assumption.
  apply (gf_exact_on_current (f_gfuns (e_fs s)) (e_model s)), Hgc.
Qed.

Theorem obs_set_role_manager_fresh_calls : forall ptab s mx s' b,
  step s (OSetRoleManager mx) = (s', Ok b) ->
  StoreSynced s -> e_auto_build s = true -> ad_is_filtered (e_adapter s) = false ->
  let safe := fun f => safe_name (f_gfuns (e_fs s)) (e_model s) f = true in
  (forall k m, assoc k (e_mexprs s) = Some m -> calls_in safe m) ->
  (forall t e', ptab t = Some e' -> calls_in safe e') ->
  exists sf, fresh_from (cur_def s') (e_adapter s') s' = (sf, Ok true) /\
             forall q, ans_eq (ask ptab s' q) (ask ptab sf q).
Proof.
  intros ptab s mx s' b Hstep (ad & md & m' & Hl & Hb & Hfl) Hab Hnf safe Hmx Hpt. cbn [step] in Hstep.
  assert (Hbuilt : Built (e_model s) m') by (eapply build_of_idem, Hb).
  destruct (set_role_manager_core_gen s mx s' (Ok b) m' Hab Hbuilt Hstep) as [Hr Hc].
  unfold reg_of in Hr, Hc.
  destruct (reg_keys (model_gkeys (e_model s)) (frozen_gfuns s)) as [G e] eqn:HG.
  cbn [fst snd] in *. assert (He : e = LOk) by (destruct e; [reflexivity|discriminate]). subst e.
  assert (Hm : e_model s' = e_model s) by (apply (f_equal k_model) in Hc; exact Hc).
  assert (Hx : e_mexprs s' = e_mexprs s) by (apply (f_equal k_mexprs) in Hc; exact Hc).
  assert (Ha : e_adapter s' = e_adapter s) by (apply (f_equal k_adapter) in Hc; exact Hc).
  assert (Hrm : f_rm (e_fs s') = m') by (apply (f_equal k_rm) in Hc; exact Hc).
  assert (Hg : f_gfuns (e_fs s') = G) by (apply (f_equal k_gfuns) in Hc; exact Hc).
  assert (Hsy' : Synced s') by (exists ad, md; rewrite Hm, Ha, Hrm; auto).
  assert (Hgd : gdefs_ok (e_model s') = true) by (rewrite Hm; eapply reg_keys_gdefs, HG).
  destruct (synced_fresh_calls ptab s' Hsy' (eq_trans (f_equal ad_is_filtered Ha) Hnf) Hgd safe)
    as (sf & Hf & Ho).
  - rewrite Hg, Hm. intros f n Hs. rewrite (find_reg_keys _ _ G HG (f, n)).
    destruct (memb gkey_eqb (f, n) (model_gkeys (e_model s))) eqn:Ek; [reflexivity|].
    unfold frozen_gfuns. rewrite find_gfun_map, (safe_name_spec _ _ f n Hs Ek). reflexivity.
  - rewrite Hx. exact Hmx.
  - exact Hpt.
  - exists sf. split; [exact Hf|]. intros q. apply answer_equiv_ans_eq, Ho.
Qed.
