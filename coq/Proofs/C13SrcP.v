(* C13 at the level of the TRANSLATED SOURCE: the headline theorems of Properties/C13.v (RBAC queries agree with
   enforcement) restated about the Gallina generated each run from the Rust text:
     listings    genq_get_implicit_roles_for_user, genq_get_implicit_permissions_for_user, genq_get_roles_for_user,
                 genq_get_users_for_role, genq_get_implicit_users_for_permission, genq_get_policy,
                 genq_get_grouping_policy (Gen/QueryGen.v: src/rbac_api.rs, src/management_api.rs; part 13)
     decisions   src_enforce (Gen/EnforceGen.v: src/enforcer.rs)
     transitions src_step / src_run_ops (Proofs/SrcStepP.v: src/internal_api.rs, src/rbac_api.rs, ...)
   Proofs: the C13 theorems (Proofs/C13P.v) composed with the translation theorems of PinChecks/PcQueryGen.v and
   src_step_eq / src_enforce_eq.  What the translation adds to the hypotheses: `q_ord_ok ord` (any iteration order
   of the hash containers) and fuel above the size of the role graph for the work-list loop.  The listings come out
   of a HashSet / in visiting order: they are characterised by their members (the model's order is not the
   source's). *)
From CV Require Import Model.Base Model.Effector Model.RoleGraph Model.PathMatch Model.Expr
     Model.Enforce Model.Engine Model.SpecC13.
From CV Require Import Gen.RustStr Gen.RustVec Gen.RustIter Gen.QueryRt Gen.QueryGen.
From CV Require Import Proofs.BaseP Proofs.RoleGraphP Proofs.C13P Proofs.C18P Proofs.QueryP PinChecks.PcQueryGen.
From CV Require Import Proofs.SrcStepP Proofs.SrcQueryP Proofs.SrcAskP.
From Coq Require Import Relations Permutation Lia.

(* ---- small facts ---- *)
Lemma existsb_Permutation : forall {A} (f : A -> bool) l l', Permutation l l' -> existsb f l = existsb f l'.
Proof.
  intros A f l l' H. induction H as [|x l l' _ IH|x y l|l l' l'' _ IH1 _ IH2]; cbn [existsb].
  - reflexivity.
  - rewrite IH. reflexivity.
  - destruct (f x), (f y); reflexivity.
  - rewrite IH1. exact IH2.
Qed.

Lemma no_members_nil : forall {A} (l : list A), (forall y, In y l <-> In y []) -> l = [].
Proof. intros A [|x l] H; [reflexivity|]. exfalso. apply (H x). left. reflexivity. Qed.

Lemma ans_rules_inj : forall o l, ans_rules o = AnsRules l -> o = Some l.
Proof. intros [l0|] l H; cbn [ans_rules] in H; [injection H as ->; reflexivity|discriminate]. Qed.

(* the two tables the theorems speak about, read through the translated getters *)
Lemma src_p_rules : forall s, genq_get_policy s = Some (p_rules s).
Proof.
  intros s. apply ans_rules_inj. rewrite (genq_get_policy_ok (fun _ => None)). reflexivity.
Qed.
Lemma src_g_rules : forall s, genq_get_grouping_policy s = Some (g_rules s).
Proof.
  intros s. apply ans_rules_inj. rewrite (genq_get_grouping_policy_ok (fun _ => None)). reflexivity.
Qed.

(* ---------- (1) implicit roles = transitive closure of the links ---------- *)
Lemma src_c13_implicit_roles : forall ord fuel s u d,
  q_ord_ok ord -> wf (f_rm (e_fs s)) -> S (S (graph_size (f_rm (e_fs s)) d)) <= fuel ->
  exists l, genq_get_implicit_roles_for_user ord fuel s u d = Some l /\ NoDup l /\
            forall r, In r l <-> clos_trans text (Edge (f_rm (e_fs s)) d) u r.
Proof.
  intros ord fuel s u d Hord Hwf Hf.
  destruct (genq_get_implicit_roles_for_user_spec ord fuel s u d Hord Hwf Hf) as (l & Hl & Hnd & Hin).
  exists l. split; [exact Hl|]. split; [exact Hnd|].
  intros r. rewrite Hin. apply implicit_roles_spec. exact Hwf.
Qed.

(* the translated listing of implicit permissions is a permutation of the model's *)
Lemma src_implicit_perms_perm : forall ord fuel s u d l,
  q_ord_ok ord -> wf (f_rm (e_fs s)) -> S (S (graph_size (f_rm (e_fs s)) d)) <= fuel ->
  genq_get_implicit_permissions_for_user ord fuel s u d = Some l ->
  exists l0, implicit_perms s u d = Some l0 /\ Permutation l l0.
Proof.
  intros ord fuel s u d l Hord Hwf Hf Hl.
  pose proof (genq_get_implicit_permissions_for_user_spec ord fuel s u d Hord Hwf Hf) as Hp.
  rewrite Hl in Hp. destruct (implicit_perms s u d) as [l0|]; cbn [opt_perm] in Hp; [|contradiction].
  exists l0. split; [reflexivity|exact Hp].
Qed.
Lemma src_implicit_perms_some : forall ord fuel s u d l0,
  q_ord_ok ord -> wf (f_rm (e_fs s)) -> S (S (graph_size (f_rm (e_fs s)) d)) <= fuel ->
  implicit_perms s u d = Some l0 ->
  exists l, genq_get_implicit_permissions_for_user ord fuel s u d = Some l /\ Permutation l l0.
Proof.
  intros ord fuel s u d l0 Hord Hwf Hf Hl.
  pose proof (genq_get_implicit_permissions_for_user_spec ord fuel s u d Hord Hwf Hf) as Hp.
  rewrite Hl in Hp.
  destruct (genq_get_implicit_permissions_for_user ord fuel s u d) as [l|]; cbn [opt_perm] in Hp; [|contradiction].
  exists l. split; [reflexivity|exact Hp].
Qed.

(* ---------- (2) implicit permissions: the rules held by the user or by a role reachable from it ---------- *)
Lemma src_c13_implicit_perms : forall ord fuel s u l rule,
  q_ord_ok ord -> S (S (graph_size (f_rm (e_fs s)) None)) <= fuel ->
  wf (f_rm (e_fs s)) -> (forall r, In r (p_rules s) -> r <> []) ->
  nonempty_names s u None = true ->
  genq_get_implicit_permissions_for_user ord fuel s u None = Some l ->
  (In rule l <-> In rule (p_rules s) /\
                 (hd [] rule = u \/ clos_trans text (Edge (f_rm (e_fs s)) None) u (hd [] rule))).
Proof.
  intros ord fuel s u l rule Hord Hf Hwf Hne Hnn Hl.
  destruct (src_implicit_perms_perm ord fuel s u None l Hord Hwf Hf Hl) as (l0 & Hl0 & Hp).
  rewrite <- (implicit_perms_spec s u l0 rule Hwf Hne Hnn Hl0).
  split; intros H; [apply (Permutation_in _ Hp H)|apply (Permutation_in _ (Permutation_sym Hp) H)].
Qed.

(* ---------- (3) a request is granted iff it is an implicit permission ---------- *)
Lemma src_c13_enforce_eq_perm : forall ptab ord fuel s u o a,
  q_ord_ok ord -> S (S (graph_size (f_rm (e_fs s)) None)) <= fuel ->
  rbac_eq s = true -> p_arityb 3 s = true ->
  wf (f_rm (e_fs s)) -> shallow (f_rm_max (e_fs s)) (f_rm (e_fs s)) None ->
  nonempty_names s u None = true ->
  exists l, genq_get_implicit_permissions_for_user ord fuel s u None = Some l /\
    src_enforce ptab s [VStr u; VStr o; VStr a] = Ok (existsb (fun rule => reqb (tl rule) [o; a]) l).
Proof.
  intros ptab ord fuel s u o a Hord Hf Hs Har Hwf Hsh Hnn.
  destruct (enforce_eq_perm ptab s u o a Hs Har Hwf Hsh Hnn) as (l0 & Hl0 & He).
  destruct (src_implicit_perms_some ord fuel s u None l0 Hord Hwf Hf Hl0) as (l & Hl & Hp).
  exists l. split; [exact Hl|]. rewrite src_enforce_eq, He, (existsb_Permutation _ l l0 Hp). reflexivity.
Qed.

Lemma src_c13_enforce_iff_perm : forall ptab ord fuel s u o a l,
  q_ord_ok ord -> S (S (graph_size (f_rm (e_fs s)) None)) <= fuel ->
  rbac_eq s = true -> p_arityb 3 s = true ->
  wf (f_rm (e_fs s)) -> shallow (f_rm_max (e_fs s)) (f_rm (e_fs s)) None ->
  nonempty_names s u None = true ->
  genq_get_implicit_permissions_for_user ord fuel s u None = Some l ->
  (src_enforce ptab s [VStr u; VStr o; VStr a] = Ok true <->
   exists rule, In rule l /\ tl rule = [o; a]) /\
  (src_enforce ptab s [VStr u; VStr o; VStr a] = Ok false <->
   ~ exists rule, In rule l /\ tl rule = [o; a]).
Proof.
  intros ptab ord fuel s u o a l Hord Hf Hs Har Hwf Hsh Hnn Hl.
  destruct (src_implicit_perms_perm ord fuel s u None l Hord Hwf Hf Hl) as (l0 & Hl0 & Hp).
  assert (Hex : (exists rule, In rule l /\ tl rule = [o; a]) <-> (exists rule, In rule l0 /\ tl rule = [o; a])).
  { split; intros (rule & Hin & Ht); exists rule; (split; [|exact Ht]).
    - apply (Permutation_in _ Hp Hin).
    - apply (Permutation_in _ (Permutation_sym Hp) Hin). }
  rewrite src_enforce_eq, Hex. apply enforce_iff_perm; assumption.
Qed.

(* the domain variant *)
Lemma src_c13_enforce_eq_perm_dom : forall ptab ord fuel s u d o a,
  q_ord_ok ord -> S (S (graph_size (f_rm (e_fs s)) (Some d))) <= fuel ->
  rbac_dom_eq s = true -> p_arityb 4 s = true ->
  wf (f_rm (e_fs s)) -> shallow (f_rm_max (e_fs s)) (f_rm (e_fs s)) (Some d) ->
  nonempty_names s u (Some d) = true -> d <> [] ->
  exists l, genq_get_implicit_permissions_for_user ord fuel s u (Some d) = Some l /\
    src_enforce ptab s [VStr u; VStr d; VStr o; VStr a] =
    Ok (existsb (fun rule => reqb (tl rule) [d; o; a]) l).
Proof.
  intros ptab ord fuel s u d o a Hord Hf Hs Har Hwf Hsh Hnn Hd.
  destruct (enforce_eq_perm_dom ptab s u d o a Hs Har Hwf Hsh Hnn Hd) as (l0 & Hl0 & He).
  destruct (src_implicit_perms_some ord fuel s u (Some d) l0 Hord Hwf Hf Hl0) as (l & Hl & Hp).
  exists l. split; [exact Hl|]. rewrite src_enforce_eq, He, (existsb_Permutation _ l l0 Hp). reflexivity.
Qed.

(* ---------- (4) users-for-role and roles-for-user are inverse views ---------- *)
Lemma src_c13_roles_users_inverse : forall ord s u r d, q_ord_ok ord -> g_handle_wf s ->
  exists lr lu, genq_get_roles_for_user ord s u d = Some lr /\ genq_get_users_for_role ord s r d = Some lu /\
                (In r lr <-> In u lu).
Proof.
  intros ord s u r d Hord Hh.
  destruct (genq_get_roles_for_user_spec ord s u d Hord) as (lr & Hlr & Hr).
  destruct (genq_get_users_for_role_spec ord s r d Hord) as (lu & Hlu & Hu).
  exists lr, lu. split; [exact Hlr|]. split; [exact Hlu|].
  rewrite Hr, Hu. apply roles_users_inverse. exact Hh.
Qed.

(* has_role_for_user is membership in get_roles_for_user *)
Lemma src_c13_has_role : forall ord s u r d, q_ord_ok ord ->
  exists lr, genq_get_roles_for_user ord s u d = Some lr /\
             (genq_has_role_for_user ord s u r d = Some true <-> In r lr).
Proof.
  intros ord s u r d Hord.
  destruct (genq_get_roles_for_user_spec ord s u d Hord) as (lr & Hlr & Hr).
  exists lr. split; [exact Hlr|].
  rewrite (genq_has_role_for_user_spec ord s u r d Hord), Hr.
  split.
  - intros H. injection H as H. apply (proj1 (memb_In r (roles_for_user s u d))). exact H.
  - intros H. f_equal. apply (proj2 (memb_In r (roles_for_user s u d))). exact H.
Qed.

(* ---------- everything together, after any management history run by the translated source ---------- *)
Lemma src_c13_after_any_history : forall ptab ord fuel s0 ops u o a,
  q_ord_ok ord ->
  rbac_eq s0 = true -> rm_wf s0 -> forallb is_mgmt ops = true ->
  let s := src_run_ops s0 ops in
  S (S (graph_size (f_rm (e_fs s)) None)) <= fuel ->
  p_arityb 3 s = true -> shallow (f_rm_max (e_fs s)) (f_rm (e_fs s)) None ->
  nonempty_names s u None = true ->
  (exists lr, genq_get_implicit_roles_for_user ord fuel s u None = Some lr /\ NoDup lr /\
              forall r, In r lr <-> clos_trans text (Edge (f_rm (e_fs s)) None) u r) /\
  (forall r x, exists lr lu, genq_get_roles_for_user ord s x None = Some lr /\
                             genq_get_users_for_role ord s r None = Some lu /\ (In r lr <-> In x lu)) /\
  exists l, genq_get_implicit_permissions_for_user ord fuel s u None = Some l /\
    (forall rule, In rule l <-> In rule (p_rules s) /\
       (hd [] rule = u \/ clos_trans text (Edge (f_rm (e_fs s)) None) u (hd [] rule))) /\
    src_enforce ptab s [VStr u; VStr o; VStr a] = Ok (existsb (fun rule => reqb (tl rule) [o; a]) l).
Proof.
  intros ptab ord fuel s0 ops u o a Hord Hs0 Hwf0 Hm s. unfold s. rewrite src_run_ops_eq.
  intros Hf Har Hsh Hnn.
  pose proof (c13_history ptab s0 ops u o a Hs0 Hwf0 Hm) as H. cbv zeta in H.
  destruct (H Har Hsh Hnn) as (_ & Hinv & (l0 & Hl0 & Hmem & He)).
  assert (Hwf : wf (f_rm (e_fs (run_ops s0 ops)))) by (apply wf_run_ops; exact Hwf0).
  split; [apply src_c13_implicit_roles; assumption|]. split.
  - intros r x.
    destruct (genq_get_roles_for_user_spec ord (run_ops s0 ops) x None Hord) as (lr & Hlr & Hr).
    destruct (genq_get_users_for_role_spec ord (run_ops s0 ops) r None Hord) as (lu & Hlu & Hu).
    exists lr, lu. split; [exact Hlr|]. split; [exact Hlu|]. rewrite Hr, Hu. apply Hinv.
  - destruct (src_implicit_perms_some ord fuel _ u None l0 Hord Hwf Hf Hl0) as (l & Hl & Hp).
    exists l. split; [exact Hl|]. split.
    + intros rule. rewrite <- Hmem.
      split; intros Hi; [apply (Permutation_in _ Hp Hi)|apply (Permutation_in _ (Permutation_sym Hp) Hi)].
    + rewrite src_enforce_eq, He, (existsb_Permutation _ l l0 Hp). reflexivity.
Qed.

(* ---------- (5) delete_user / delete_permission through the translated source ---------- *)
(* after a successful translated delete_user(n) through an adapter that does not refuse: exactly the g rules and
   p rules selected by [n] at field 0 are gone - read through the translated getters *)
Lemma src_c13_delete_user : forall s n s' b,
  src_step s (ORbac (RDeleteUser n)) = (s', Ok b) -> quiet s ->
  st_frame s s' /\
  genq_get_grouping_policy s' = Some (filter (fun r => negb (fsel 0 [n] r)) (g_rules s)) /\
  genq_get_policy s' = Some (filter (fun r => negb (fsel 0 [n] r)) (p_rules s)) /\
  (forall sec pt, ~ (sec = s_g /\ pt = s_g) -> ~ (sec = s_p /\ pt = s_p) ->
     m_get_policy (e_model s') sec pt = m_get_policy (e_model s) sec pt).
Proof.
  intros s n s' b. rewrite src_step_eq. intros Hst Hq.
  destruct (delete_user_spec s n s' b Hst Hq) as (H1 & H2 & H3 & H4).
  split; [exact H1|]. rewrite src_g_rules, src_p_rules, H2, H3. repeat split. exact H4.
Qed.

(* the deleted user has no role, direct or implicit, and every request of it is refused *)
Lemma src_c13_deleted_user_powerless : forall ptab ord fuel s n s' b,
  q_ord_ok ord ->
  src_step s (ORbac (RDeleteUser n)) = (s', Ok b) -> quiet s -> n <> [] ->
  rbac_eq s = true -> p_arityb 3 s = true ->
  wf (f_rm (e_fs s')) -> links_mirror s' ->
  S (S (graph_size (f_rm (e_fs s')) None)) <= fuel ->
  rbac_eq s' = true /\ p_arityb 3 s' = true /\
  genq_get_roles_for_user ord s' n None = Some [] /\
  genq_get_implicit_roles_for_user ord fuel s' n None = Some [] /\
  forall o a, src_enforce ptab s' [VStr n; VStr o; VStr a] = Ok false.
Proof.
  intros ptab ord fuel s n s' b Hord. rewrite src_step_eq. intros Hst Hq Hn Hs Har Hwf Hlm Hf.
  destruct (deleted_user_powerless ptab s n s' b Hst Hq Hn Hs Har Hwf Hlm) as (H1 & H2 & H3 & H4 & H5).
  split; [exact H1|]. split; [exact H2|]. split; [|split].
  - destruct (genq_get_roles_for_user_spec ord s' n None Hord) as (lr & Hlr & Hr).
    rewrite H3 in Hr. rewrite Hlr, (no_members_nil lr Hr). reflexivity.
  - destruct (genq_get_implicit_roles_for_user_spec ord fuel s' n None Hord Hwf Hf) as (l & Hl & _ & Hin).
    rewrite H4 in Hin. rewrite Hl, (no_members_nil l Hin). reflexivity.
  - intros o a. rewrite src_enforce_eq. apply H5.
Qed.

(* nobody is granted a deleted permission *)
Lemma src_c13_deleted_permission_denied : forall ptab s o a s' b,
  src_step s (ORbac (RDeletePermission [o; a])) = (s', Ok b) -> quiet s ->
  (o <> [] \/ a <> []) ->
  rbac_eq s = true -> p_arityb 3 s = true ->
  rbac_eq s' = true /\ p_arityb 3 s' = true /\
  forall u, src_enforce ptab s' [VStr u; VStr o; VStr a] = Ok false.
Proof.
  intros ptab s o a s' b. rewrite src_step_eq. intros Hst Hq Hoa Hs Har.
  destruct (deleted_permission_denied ptab s o a s' b Hst Hq Hoa Hs Har) as (H1 & H2 & H3).
  split; [exact H1|]. split; [exact H2|]. intros u. rewrite src_enforce_eq. apply H3.
Qed.

(* ---------- (6) implicit users ---------- *)
Lemma src_c13_implicit_users : forall ptab ord s perm res,
  q_ord_ok ord ->
  genq_get_implicit_users_for_permission ptab ord s perm = Some res ->
  exists subjects roles,
    genq_get_all_subjects s = Some subjects /\
    genq_get_all_roles s = Some roles /\
    NoDup res /\
    forall u, In u res <->
      ((In u subjects \/ exists r, In r roles /\ In u (get_users (f_rm (e_fs s)) r None)) /\
       ~ In u roles /\
       src_enforce ptab s (map VStr (u :: perm)) = Ok true).
Proof.
  intros ptab ord s perm res Hord Hres.
  pose proof (genq_get_implicit_users_for_permission_spec ptab ord s perm Hord) as Hsp.
  destruct (implicit_users ptab s perm) as [l0|] eqn:Eiu.
  - destruct Hsp as (l' & Hl' & Hnd & Hin). rewrite Hres in Hl'. injection Hl' as <-.
    destruct (implicit_users_spec ptab s perm l0 Eiu) as (subjects & roles & Hsub & Hrol & _ & Hmem).
    exists subjects, roles. rewrite genq_get_all_subjects_eq, genq_get_all_roles_eq.
    split; [exact Hsub|]. split; [exact Hrol|]. split; [exact Hnd|].
    intros u. rewrite Hin, src_enforce_eq. apply Hmem.
  - rewrite Hres in Hsp. discriminate.
Qed.

(* ---------- the query interface: C13 (4) over src_ask2 ---------- *)
Lemma src_c13_ask2_has_role : forall ptab ord fuel s u r d, q_ord_ok ord ->
  (src_ask2 ptab ord fuel s (QHasRole u r d) = AnsBool true <->
   exists lr, genq_get_roles_for_user ord s u d = Some lr /\ In r lr).
Proof.
  intros ptab ord fuel s u r d Hord. cbn [src_ask2].
  destruct (src_c13_has_role ord s u r d Hord) as (lr & Hlr & Hiff). split.
  - intros H. exists lr. split; [exact Hlr|]. apply Hiff.
    destruct (genq_has_role_for_user ord s u r d) as [[|]|]; cbn [ans_bool] in H; try discriminate. reflexivity.
  - intros (lr' & Hlr' & Hin). rewrite Hlr in Hlr'. injection Hlr' as <-.
    apply Hiff in Hin. rewrite Hin. reflexivity.
Qed.

(* ---------- non-vacuity: ex1 of Proofs/C13P.v (a reachable state with a diamond and a cycle), reversed
   iteration order, through the generated code ---------- *)
Example src_c13_ex_hyps :
  q_ord_ok (@rev text) /\ rm_wf ex1 /\ S (S (graph_size (f_rm (e_fs ex1)) None)) <= 6 /\
  rbac_eq ex1 = true /\ p_arityb 3 ex1 = true /\
  shallowb (f_rm_max (e_fs ex1)) (f_rm (e_fs ex1)) None = true /\
  nonempty_names ex1 (T "alice") None = true.
Proof.
  split; [exact ex_ord_ok|]. split; [exact ex1_wf|]. split; [exact ex_fuel|].
  destruct ex1_in_scope as (_ & _ & H1 & H2 & H3 & H4 & _). repeat split; assumption.
Qed.

Example src_c13_ex_reachable :
  ex1 = src_run_ops ex0 ex_ops /\ forallb is_mgmt ex_ops = true /\ rbac_eq ex0 = true.
Proof. split; [unfold ex1; rewrite src_run_ops_eq; reflexivity|]. split; vm_compute; reflexivity. Qed.
