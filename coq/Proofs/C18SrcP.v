(* C18 at the level of the TRANSLATED SOURCE: the headline theorems of Properties/C18.v restated about `src_step` /
   `src_run_ops` / `src_ask` / `src_new_enforcer` (Proofs/SrcStepP.v, Proofs/SrcQueryP.v: Gen/EnforcerGen.v generated
   each run from src/enforcer.rs - set_model, set_adapter, set_role_manager, set_effector, add_function, load_policy,
   the toggles -, Gen/InternalGen.v, Gen/ApiGen.v, Gen/EnforceGen.v).
   The definitions of Model/SpecC18.v / Proofs/C18P.v that go through `step` / `ask` (replay_ufuns, fresh_from,
   fresh_of, run_all_ok, obs_eq) get a src_ twin by the same text, proved equal first: in particular the FRESH
   enforcer of the statements is built by the translated source as well.
   Proofs: the C18 theorems (Proofs/C18P.v, Proofs/C18Q.v) composed with src_step_eq & co. *)
From CV Require Import Model.Base Model.Expr Model.Enforce Model.Engine Model.SpecC18.
From CV Require Import Proofs.ExprP Proofs.ExModels Proofs.C18P Proofs.C18Q.
From CV Require Import Proofs.SrcStepP Proofs.SrcQueryP.

(* ---- twins ---- *)
Definition src_replay_ufuns (st : estate) (ufs : list (text * ufun)) : estate :=
  fold_right (fun nu st' => fst (src_step st' (OAddFunction (fst nu) (snd nu)))) st ufs.

Definition src_fresh_from (d : modeldef) (a : adapter) (s : estate) : estate * outcome bool :=
  match src_new_enforcer d a (e_watcher s) with
  | (s0, Ok b) =>
    let (s1, r1) := if Nat.eqb (f_rm_max (e_fs s)) default_rm_max then (s0, Ok true)
                    else src_step s0 (OSetRoleManager (f_rm_max (e_fs s))) in
    match r1 with
    | Ok _ =>
      let s2 := src_replay_ufuns s1 (f_ufuns (e_fs s)) in
      let s3 := fst (src_step s2 (OEnableAutoSave (e_auto_save s))) in
      let s4 := fst (src_step s3 (OEnableAutoBuild (e_auto_build s))) in
      let s5 := fst (src_step s4 (OEnableAutoNotify (e_auto_notify s))) in
      let s6 := fst (src_step s5 (OEnableEnforce (e_enabled s))) in
      (s6, Ok b)
    | other => (s1, other)
    end
  | other => other
  end.

Definition src_fresh_of (s : estate) : estate * outcome bool :=
  src_fresh_from (def_of s) (e_adapter s) s.

Fixpoint src_run_all_ok (s : estate) (ops : list op) : bool :=
  match ops with
  | [] => true
  | o :: r => match src_step s o with
              | (s', Ok _) => src_run_all_ok s' r
              | _ => false
              end
  end.

Definition src_obs_eq (ptab : text -> option expr) (s1 s2 : estate) : Prop :=
  forall q, answer_equiv (src_ask ptab s1 q) (src_ask ptab s2 q).

Lemma src_replay_ufuns_eq : forall ufs st, src_replay_ufuns st ufs = replay_ufuns st ufs.
Proof.
  induction ufs as [|nu ufs IH]; intros st; [reflexivity|].
  unfold src_replay_ufuns, replay_ufuns in *. cbn [fold_right]. rewrite IH, src_step_eq. reflexivity.
Qed.

Lemma src_fresh_from_eq : forall d a s, src_fresh_from d a s = fresh_from d a s.
Proof.
  intros d a s. unfold src_fresh_from, fresh_from. rewrite src_new_enforcer_eq.
  destruct (new_enforcer d a (e_watcher s)) as [s0 [b|e|]]; try reflexivity.
  rewrite src_step_eq.
  destruct (if Nat.eqb (f_rm_max (e_fs s)) default_rm_max then (s0, Ok true)
            else step s0 (OSetRoleManager (f_rm_max (e_fs s)))) as [s1 [b1|e1|]]; try reflexivity.
  cbv zeta. rewrite src_replay_ufuns_eq, !src_step_eq. reflexivity.
Qed.

Lemma src_fresh_of_eq : forall s, src_fresh_of s = fresh_of s.
Proof. intros s. apply src_fresh_from_eq. Qed.

Lemma src_run_all_ok_eq : forall ops s, src_run_all_ok s ops = run_all_ok s ops.
Proof.
  induction ops as [|o r IH]; intros s; [reflexivity|].
  cbn [src_run_all_ok run_all_ok]. rewrite src_step_eq. destruct (step s o) as [s' [b|e|]]; try reflexivity. apply IH.
Qed.

Lemma src_obs_eq_of : forall ptab s1 s2, obs_eq ptab s1 s2 -> src_obs_eq ptab s1 s2.
Proof. intros ptab s1 s2 H q. rewrite !src_ask_eq. apply H. Qed.

(* ---- equivalent states answer every query identically, decisions included ---- *)
Lemma src_c18_equiv_same_answers : forall ptab s1 s2 q, st_equiv s1 s2 -> src_ask ptab s1 q = src_ask ptab s2 q.
Proof. intros ptab s1 s2 q H. rewrite !src_ask_eq. apply ask_equiv. exact H. Qed.

(* the executable predicate on a pair of observed answers holds *)
Lemma src_c18_pred_holds : forall ptab s1 s2 q, st_equiv s1 s2 ->
  c18_pred (src_ask ptab s1 q) (src_ask ptab s2 q) = true.
Proof. intros ptab s1 s2 q H. rewrite !src_ask_eq. apply st_equiv_pred. exact H. Qed.

(* ---- set_model ---- *)
Lemma src_c18_set_model : forall s d s' b,
  src_step s (OSetModel d) = (s', Ok b) ->
  e_auto_build s = true ->
  ad_is_filtered (e_adapter s) = false ->
  no_leftover (f_gfuns (e_fs s)) (d_model d) = true ->
  exists sf, src_fresh_from d (e_adapter s) s' = (sf, Ok true) /\ st_equiv s' sf /\
             e_adapter sf = e_adapter s' /\ e_model sf = e_model s' /\
             f_rm (e_fs sf) = f_rm (e_fs s').
Proof.
  intros s d s' b Hst. rewrite src_step_eq in Hst. rewrite src_fresh_from_eq.
  exact (set_model_fresh s d s' b Hst).
Qed.

(* against the enforcer built NOW from the re-parsed definition and the adapter the state holds after the call *)
Lemma src_c18_set_model_now : forall s d s' b,
  src_step s (OSetModel d) = (s', Ok b) ->
  clean_def d = true ->
  e_auto_build s = true ->
  ad_unscripted (e_adapter s) = true ->
  no_leftover (f_gfuns (e_fs s)) (d_model d) = true ->
  exists sf, src_fresh_of s' = (sf, Ok true) /\ st_equiv s' sf /\
             e_adapter sf = e_adapter s' /\ e_model sf = e_model s' /\
             f_rm (e_fs sf) = f_rm (e_fs s').
Proof.
  intros s d s' b Hst. rewrite src_step_eq in Hst. rewrite src_fresh_of_eq.
  exact (set_model_fresh_of s d s' b Hst).
Qed.

(* ---- set_adapter ---- *)
Lemma src_c18_set_adapter : forall s a s' b,
  src_step s (OSetAdapter a) = (s', Ok b) ->
  e_auto_build s = true ->
  ad_is_filtered a = false ->
  gfuns_exactb (f_gfuns (e_fs s)) (e_model s) = true ->
  exists sf, src_fresh_from (cur_def s) a s' = (sf, Ok true) /\ st_equiv s' sf /\
             e_adapter sf = e_adapter s' /\ e_model sf = e_model s' /\
             f_rm (e_fs sf) = f_rm (e_fs s').
Proof.
  intros s a s' b Hst. rewrite src_step_eq in Hst. rewrite src_fresh_from_eq.
  exact (set_adapter_fresh s a s' b Hst).
Qed.

(* ---- set_role_manager, set_effector, add_function: no reload happens, so the memory must already be what the
   adapter would load (Synced) ---- *)
Lemma src_c18_set_role_manager : forall s mx s' b,
  src_step s (OSetRoleManager mx) = (s', Ok b) ->
  Synced s -> e_auto_build s = true -> ad_is_filtered (e_adapter s) = false ->
  no_leftover (f_gfuns (e_fs s)) (e_model s) = true ->
  exists sf, src_fresh_from (cur_def s') (e_adapter s') s' = (sf, Ok true) /\ st_equiv s' sf /\
             f_rm_max (e_fs sf) = mx.
Proof.
  intros s mx s' b Hst. rewrite src_step_eq in Hst. rewrite src_fresh_from_eq.
  exact (set_role_manager_fresh s mx s' b Hst).
Qed.

Lemma src_c18_set_effector : forall s s' b,
  src_step s OSetEffector = (s', Ok b) ->
  Synced s -> ad_is_filtered (e_adapter s) = false ->
  gfuns_exactb (f_gfuns (e_fs s)) (e_model s) = true ->
  exists sf, src_fresh_from (cur_def s') (e_adapter s') s' = (sf, Ok true) /\ st_equiv s' sf.
Proof.
  intros s s' b Hst. rewrite src_step_eq in Hst. rewrite src_fresh_from_eq.
  exact (set_effector_fresh s s' b Hst).
Qed.

Lemma src_c18_add_function : forall s n u s' b,
  src_step s (OAddFunction n u) = (s', Ok b) ->
  Synced s -> ad_is_filtered (e_adapter s) = false ->
  gfuns_exactb (f_gfuns (e_fs s)) (e_model s) = true ->
  exists sf, src_fresh_from (cur_def s') (e_adapter s') s' = (sf, Ok true) /\ st_equiv s' sf /\
             f_ufuns (e_fs sf) = (n, u) :: f_ufuns (e_fs s).
Proof.
  intros s n u s' b Hst. rewrite src_step_eq in Hst. rewrite src_fresh_from_eq.
  exact (add_function_fresh s n u s' b Hst).
Qed.

(* ---- sequences of reconfiguration calls ---- *)
(* the invariant `Settled` is kept by every successful reconfiguration call of the translated source *)
Lemma src_c18_settled_run : forall ops s,
  Settled s -> forallb reconf_ok ops = true -> src_run_all_ok s ops = true ->
  Settled (src_run_ops s ops).
Proof.
  intros ops s Hs Hr Ha. rewrite src_run_all_ok_eq in Ha. rewrite src_run_ops_eq. apply settled_run; assumption.
Qed.

(* MAIN for sequences: after ANY sequence of successful set_model / set_adapter / set_role_manager / set_effector /
   add_function / load_policy / toggle calls on a freshly constructed enforcer, every query is answered as by the
   enforcer built now from the model store, the adapter and the components *)
Lemma src_c18_sequences : forall ptab d a w s0 b0 ops,
  src_new_enforcer d a w = (s0, Ok b0) ->
  ad_unscripted a = true -> pg_lines a = true -> ad_is_filtered a = false ->
  forallb reconf_ok ops = true -> src_run_all_ok s0 ops = true ->
  let s := src_run_ops s0 ops in
  let safe := fun f => safe_name (f_gfuns (e_fs s)) (e_model s) f = true in
  (forall k m, assoc k (e_mexprs s) = Some m -> calls_in safe m) ->
  (forall t e', ptab t = Some e' -> calls_in safe e') ->
  exists sf, src_fresh_from (cur_def s) (e_adapter s) s = (sf, Ok true) /\ src_obs_eq ptab s sf.
Proof.
  intros ptab d a w s0 b0 ops. rewrite src_new_enforcer_eq, src_run_all_ok_eq. cbv zeta. rewrite src_run_ops_eq.
  intros Hn Hu Hp Hf Hr Ha Hc1 Hc2.
  destruct (reconfigured_run_fresh ptab d a w s0 b0 ops Hn Hu Hp Hf Hr Ha Hc1 Hc2) as (sf & H1 & H2).
  exists sf. rewrite src_fresh_from_eq. split; [exact H1|apply src_obs_eq_of; exact H2].
Qed.
