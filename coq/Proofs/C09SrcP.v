(* C09 at the level of the TRANSLATED SOURCE: the headline theorems of Properties/C09.v (stored policy and
   in-memory policy stay identical) and of Properties/C09text.v (save ; load is the identity for the values the
   CSV text format can carry) restated about
     src_step / src_run_ops / src_new_enforcer        (Proofs/SrcStepP.v, SrcQueryP.v: src/internal_api.rs,
                                                        src/rbac_api.rs, src/management_api.rs, src/enforcer.rs)
     gen_mem_save_policy / gen_mem_load_policy         (Gen/AdaptersGen.v, part 9: src/adapter/memory_adapter.rs)
     gen_str_load_policy, gen_file_load_policy_line    (Gen/AdaptersGen.v: string_adapter.rs, file_adapter.rs)
     gen_parse_csv_line, gen_csv_field                 (Gen/RegexGen.v part 14, Gen/StrFnGen.v part 2: src/util.rs)
   Proofs: the C09 theorems (Proofs/C09P.v, Proofs/CsvP.v) composed with src_step_eq and the translation theorems
   of PinChecks/PcAdaptersGen.v, PcRegexGen.v, PcStrFnGen.v.  The adapter-level round trip carries no extra
   hypothesis: what gen_mem_save_policy_ok needs (the store yields no line twice) follows from C09's own
   KeysOkP / PolND (keys_polnd_store below). *)
From CV Require Import Model.Base Model.Effector Model.RoleGraph Model.PathMatch
     Model.Expr Model.Enforce Model.Engine Model.Csv Model.SpecC09 Model.SpecC16.
From CV Require Import Proofs.ListAux Proofs.BaseP Proofs.C09P Proofs.CsvP.
From CV Require Import Gen.RustStr Gen.StrFnGen PinChecks.PcStrFnGen.
From CV Require Import Gen.RustVec Gen.RustIter Gen.Regex Gen.RegexRt Gen.RegexGen PinChecks.PcRegexGen.
From CV Require Import Gen.AdaptersPrims Gen.AdaptersGen Proofs.AdaptersP PinChecks.PcAdaptersGen.
From CV Require Import Proofs.SrcStepP Proofs.SrcQueryP Proofs.SrcTextP.

(* ================================================================== *)
(* A. the engine: every management call of the translated source keeps adapter and model in sync *)

Lemma src_c09_step : forall s o, c09_op o = true -> Inv s -> Inv (fst (src_step s o)).
Proof. intros s o Ho Hi. rewrite src_step_eq. apply step_preserves_Inv; assumption. Qed.

Lemma src_c09_history : forall ops s, forallb c09_op ops = true -> Inv s -> Inv (src_run_ops s ops).
Proof. intros ops s Ho Hi. rewrite src_run_ops_eq. apply run_ops_preserves_Inv; assumption. Qed.

Lemma src_c09_every_prefix : forall ops s n,
  forallb c09_op ops = true -> Inv s -> Inv (src_run_ops s (firstn n ops)).
Proof. intros ops s n Ho Hi. rewrite src_run_ops_eq. apply Inv_every_prefix; assumption. Qed.

(* the translated constructor (new_raw ; load_policy) establishes the invariant *)
Lemma src_c09_constructor : forall d lines w s0,
  NoDup lines -> KeysOkP (d_model d) ->
  new_raw d (AMemory lines false) w = (s0, LOk) ->
  Inv (fst (src_new_enforcer d (AMemory lines false) w)).
Proof. intros d lines w s0 Hn Hk Hr. rewrite src_new_enforcer_eq. eapply new_enforcer_Inv; eassumption. Qed.

Lemma src_c09_constructor_ok : forall d a w lines s b,
  mem_of a = Some lines -> ad_is_filtered a = false -> NoDup lines -> KeysOkP (d_model d) ->
  src_new_enforcer d a w = (s, Ok b) -> Inv s.
Proof.
  intros d a w lines s b Hm Hf Hn Hk. rewrite src_new_enforcer_eq. intros Hne.
  eapply new_enforcer_Inv_ok; eassumption.
Qed.

(* from the translated constructor through any history of allowed calls *)
Lemma src_c09_reachable : forall d lines w s0 ops,
  NoDup lines -> KeysOkP (d_model d) ->
  new_raw d (AMemory lines false) w = (s0, LOk) -> forallb c09_op ops = true ->
  Inv (src_run_ops (fst (src_new_enforcer d (AMemory lines false) w)) ops).
Proof.
  intros d lines w s0 ops Hn Hk Hr Ho. apply src_c09_history; [exact Ho|].
  eapply src_c09_constructor; eassumption.
Qed.

(* load_policy on a synchronised enforcer changes no policy list *)
Lemma src_c09_reload_identity : forall s, AdapterSync s ->
  forall sec pt, is_pg sec = true ->
    m_get_policy (e_model (fst (src_step s OLoad))) sec pt = m_get_policy (e_model s) sec pt.
Proof. intros s Hs sec pt Hpg. rewrite src_step_eq. apply reload_identity; assumption. Qed.

Lemma src_c09_reload_keeps_sync : forall s, AdapterSync s -> AdapterSync (fst (src_step s OLoad)).
Proof. intros s Hs. rewrite src_step_eq. apply reload_keeps_sync. exact Hs. Qed.

(* save_policy ; load_policy is the identity, all bundled adapters *)
Lemma src_c09_roundtrip : forall s s1,
  is_bundled (e_adapter s) = true -> KeysOkP (e_model s) -> PolND (e_model s) ->
  src_step s OSave = (s1, Ok true) ->
  forall sec pt, is_pg sec = true ->
    m_get_policy (e_model (fst (src_step s1 OLoad))) sec pt = m_get_policy (e_model s) sec pt.
Proof.
  intros s s1 Hb Hk Hnd. rewrite src_step_eq. intros Hsave sec pt Hpg. rewrite src_step_eq.
  apply (save_load_roundtrip s s1 Hb Hk Hnd Hsave sec pt Hpg).
Qed.

Lemma src_c09_save_succeeds : forall s,
  is_bundled (e_adapter s) = true -> ad_is_filtered (e_adapter s) = false ->
  assoc s_p (e_model s) <> None -> snd (src_step s OSave) = Ok true.
Proof. intros s Hb Hf Hp. rewrite src_step_eq. apply save_succeeds; assumption. Qed.

(* ================================================================== *)
(* B. the translated MemoryAdapter: save_policy ; load_policy (into the emptied model) gives back every p and g
      policy list, rule for rule and in the same order *)

(* C09's side conditions give what the translation theorem of save_policy needs *)
Lemma keys_polnd_store : forall md, KeysOkP md -> PolND md -> store_sets md /\ pg_keys_disjoint md.
Proof.
  intros md Hk Hnd. split.
  - intros sec am Hsec Ham.
    assert (Hpg : is_pg sec = true) by (apply is_pg_cases; exact Hsec).
    assert (Hks : keys md sec = Some (map fst am)) by (unfold keys; rewrite Ham; reflexivity).
    destruct (Hk sec (map fst am) Hpg Hks) as [Hndk _]. split; [exact Hndk|].
    intros k a Hin. apply (Hnd sec k (a_policy a) Hpg).
    unfold mpol, get_ast. rewrite Ham, (In_assoc k a am Hndk Hin). reflexivity.
  - intros amp amg k Hp Hg Hkp Hkg.
    assert (Hksp : keys md s_p = Some (map fst amp)) by (unfold keys; rewrite Hp; reflexivity).
    assert (Hksg : keys md s_g = Some (map fst amg)) by (unfold keys; rewrite Hg; reflexivity).
    destruct (Hk s_p _ eq_refl Hksp) as [_ Hfp]. destruct (Hk s_g _ eq_refl Hksg) as [_ Hfg].
    specialize (Hfp k Hkp). specialize (Hfg k Hkg). unfold first_is in Hfp, Hfg.
    destruct (first_char k) as [c|]; [|discriminate].
    apply teqb_eq in Hfp. apply teqb_eq in Hfg. subst c. discriminate.
Qed.

Lemma src_c09_mem_save : forall l f md, KeysOkP md -> PolND md ->
  gen_mem_save_policy l f md = Some ((mem_lines md, f, md), tt).
Proof.
  intros l f md Hk Hnd. destruct (keys_polnd_store md Hk Hnd) as [Hs Hd].
  pose proof (mem_raw_lines_NoDup md Hs Hd) as Hraw.
  rewrite gen_mem_save_policy_spec, mem_lines_raw.
  rewrite (fold_oset_insert_NoDup _ [] Hraw), (fold_ins_new_NoDup _ [] Hraw). reflexivity.
Qed.

Lemma src_c09_mem_roundtrip : forall l f md, KeysOkP md -> PolND md ->
  exists L md',
    gen_mem_save_policy l f md = Some ((L, f, md), tt) /\
    gen_mem_load_policy L f (m_clear_policy md) = Some ((L, false, md'), tt) /\
    forall sec pt, is_pg sec = true -> m_get_policy md' sec pt = m_get_policy md sec pt.
Proof.
  intros l f md Hk Hnd.
  exists (mem_lines md), (fold_left load_mem_line (mem_lines md) (m_clear_policy md)).
  split; [apply src_c09_mem_save; assumption|]. split.
  - rewrite gen_mem_load_policy_spec.
    destruct (mem_wf_mem_lines md) as [_ Hwf]. apply lines_wfb_wf in Hwf. rewrite Hwf. reflexivity.
  - intros sec pt Hpg. apply mpol_get_policy.
    rewrite mpol_fold_load_mem, mpol_clear_policy, Hpg.
    destruct (mpol md sec pt) as [pol|] eqn:Ep; [|reflexivity]. cbn [option_map].
    rewrite (lines_for_mem_lines md sec pt pol Hk Hnd Hpg Ep), fold_oset_insert_nil; [reflexivity|].
    apply (Hnd sec pt pol Hpg Ep).
Qed.

(* a synchronised translated MemoryAdapter: load_policy into the emptied model shows the in-memory policy *)
Lemma src_c09_mem_reload : forall l f md, SyncLM l md -> lines_wf l ->
  exists md', gen_mem_load_policy l f (m_clear_policy md) = Some ((l, false, md'), tt) /\
    forall sec pt, is_pg sec = true -> mpol md' sec pt = mpol md sec pt.
Proof.
  intros l f md Hsync Hwf. exists (fold_left load_mem_line l (m_clear_policy md)). split.
  - rewrite gen_mem_load_policy_spec. apply lines_wfb_wf in Hwf. rewrite Hwf. reflexivity.
  - assert (Hnd : NoDup l) by (destruct Hsync as [H _]; exact H).
    apply (proj1 (sync_iff_reload l md Hnd) Hsync).
Qed.

(* ================================================================== *)
(* C. the text clause: what the file / string adapter writes for a rule is read back as that rule by the
      translated parser; a whole saved store loads, through the translated loaders, as the store's lines *)

Lemma src_c09_line_file : forall pt vs,
  ptype_safe pt = true -> forallb csv_safe vs = true -> vs <> [] ->
  gen_parse_csv_line (src_render_line_file pt vs) = Some (Some (pt :: vs)).
Proof.
  intros pt vs Hp Hv Hne. rewrite src_render_line_file_eq. apply gen_parse_csv_line_some.
  apply parse_render_line_file; assumption.
Qed.

Lemma src_c09_line_string : forall pt vs,
  ptype_safe pt = true -> forallb csv_safe vs = true -> vs <> [] ->
  gen_parse_csv_line (src_render_line_string pt vs) = Some (Some (pt :: vs)).
Proof.
  intros pt vs Hp Hv Hne. rewrite src_render_line_string_eq. apply gen_parse_csv_line_some.
  apply parse_render_line_string; assumption.
Qed.

(* StringAdapter::load_policy (translated as a whole) on the text StringAdapter::save_policy writes *)
Lemma src_c09_save_load_string : forall md md0 fl, model_text_safe md = true ->
  gen_str_load_policy (src_save_text_string md) fl md0 =
  Some ((src_save_text_string md, false, fold_left load_line (text_lines md) md0), tt).
Proof.
  intros md md0 fl Hs. rewrite gen_str_load_policy_spec, src_save_text_string_eq, (save_string_parsed md Hs).
  reflexivity.
Qed.

(* FileAdapter::load_policy (the loop around the translated line handler) on the text FileAdapter::save_policy
   writes *)
Lemma src_c09_save_load_file : forall md md0, model_text_safe md = true ->
  src_file_load (src_save_text_file md) md0 = fold_left load_line (text_lines md) md0.
Proof.
  intros md md0 Hs. rewrite src_file_load_eq, src_save_text_file_eq, (save_file_parsed md Hs). reflexivity.
Qed.

(* the line loader's own skip test adds nothing to the translated parser *)
Lemma src_c09_loader_is_parser : forall l, Some (load_line_tokens l) = gen_parse_csv_line l.
Proof. intros l. rewrite gen_parse_csv_line_ok, load_line_tokens_eq. reflexivity. Qed.

(* ================================================================== *)
(* instances for the non-vacuity examples of Properties/C09src.v *)
Definition src_ex_ast (rules : list rule) : assertion :=
  {| a_value := []; a_tokens := []; a_policy := rules; a_handle := HOwn |}.
(* a store with quoting-relevant values *)
Definition src_ex_text_store : model :=
  [ (s_p, [ (T "p", src_ex_ast [[T "alice"; T "x,y"; T "a b"]; [T "bob"; T "/d/*"; T "k=v"]]);
            (T "p2", src_ex_ast [[T "r.sub"]]) ]);
    (s_g, [ (T "g", src_ex_ast [[T "alice"; T "admin, root"]]) ]) ].
(* the same store with empty rule lists: what the loaders fill *)
Definition src_ex_text_store0 : model :=
  [ (s_p, [ (T "p", src_ex_ast []); (T "p2", src_ex_ast []) ]); (s_g, [ (T "g", src_ex_ast []) ]) ].
(* save ; load through the translated MemoryAdapter, compared on the given keys *)
Definition src_mem_roundtrip_b (md : model) (ks : list (text * text)) : bool :=
  match gen_mem_save_policy [] false md with
  | Some ((L, _, _), _) =>
    match gen_mem_load_policy L false (m_clear_policy md) with
    | Some ((_, _, md'), _) =>
      forallb (fun k => rules_eqb (m_get_policy md' (fst k) (snd k)) (m_get_policy md (fst k) (snd k))) ks
    | None => false
    end
  | None => false
  end.
