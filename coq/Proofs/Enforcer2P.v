(* General facts for rs2coq part 15 (Gen/Enforcer2Rt.v, Gen/Enforcer2Gen.v), used by
   PinChecks/PcEnforcer2Gen.v.  Nothing here mentions a generated term.

   A. HashMap<Event, _> as an association list (hm_get / hm_insert / hm_remove).
   B. `abs` and the assignments to one field.
   C. Event delivery: n runs of notify_logger_and_watcher (notify_n) = Engine.emit.
   D. register_g_functions: the closed form rg_spec of the translated function
      (loop over the role definitions, then the function map re-applied) and the
      model's register_g_functions.
   E. The engine and Enforce.call_fn: when re-applying the function map keeps
      the engine coherent (and the two situations in which it does not).
   F. load_policy through x_core_call; the initial state of new_raw. *)
From CV Require Import Model.Base Model.Expr Model.RoleGraph Model.Enforce Model.Engine Model.Cached.
From CV Require Import Gen.RustStr Gen.RustVec Gen.InternalPrims Gen.EnforcerPrims Gen.LinksPrims Gen.CachedRt Gen.Enforcer2Rt.
From CV Require Import Proofs.BaseP Proofs.RustVecP Proofs.RustLinksP.
From Coq Require Import Lia.

(* ================================================================== *)
(* A. the event map                                                    *)

Lemma evkind_eqb_refl : forall k, evkind_eqb k k = true.
Proof. intros [|]; reflexivity. Qed.

Lemma evkind_eqb_eq : forall a b, evkind_eqb a b = true <-> a = b.
Proof. intros [|] [|]; cbn [evkind_eqb]; split; intros H; try reflexivity; discriminate H. Qed.

Lemma evkind_eqb_neq : forall a b, evkind_eqb a b = false <-> a <> b.
Proof.
  intros a b. split.
  - intros H E. apply evkind_eqb_eq in E. rewrite E in H. discriminate H.
  - intros H. destruct (evkind_eqb a b) eqn:E; [|reflexivity]. apply evkind_eqb_eq in E. contradiction.
Qed.

Section EventMap.
  Context {V : Type}.
  Implicit Types m : list (evkind * V).

  Lemma hm_get_app : forall m m' k,
    hm_get evkind_eqb (m ++ m') k = match hm_get evkind_eqb m k with Some v => Some v | None => hm_get evkind_eqb m' k end.
  Proof.
    induction m as [|[k0 v0] m IH]; intros m' k; [reflexivity|].
    cbn [app hm_get]. destruct (evkind_eqb k k0); [reflexivity|apply IH].
  Qed.

  Lemma hm_get_remove_same : forall m k, hm_get evkind_eqb (hm_remove evkind_eqb m k) k = None.
  Proof.
    induction m as [|[k0 v0] m IH]; intros k; [reflexivity|].
    unfold hm_remove in *. cbn [filter fst]. destruct (evkind_eqb k k0) eqn:E; cbn [negb].
    - apply IH.
    - cbn [hm_get]. rewrite E. apply IH.
  Qed.

  Lemma hm_get_remove_other : forall m k k', k <> k' ->
    hm_get evkind_eqb (hm_remove evkind_eqb m k) k' = hm_get evkind_eqb m k'.
  Proof.
    induction m as [|[k0 v0] m IH]; intros k k' Hn; [reflexivity|].
    unfold hm_remove in *. cbn [filter fst hm_get]. destruct (evkind_eqb k k0) eqn:E; cbn [negb].
    - apply evkind_eqb_eq in E. subst k0.
      destruct (evkind_eqb k' k) eqn:E'; [apply evkind_eqb_eq in E'; subst k'; contradiction|]. apply IH, Hn.
    - cbn [hm_get]. destruct (evkind_eqb k' k0); [reflexivity|apply IH, Hn].
  Qed.

  Lemma hm_get_insert_same : forall m k v, hm_get evkind_eqb (hm_insert evkind_eqb m k v) k = Some v.
  Proof.
    intros m k v. unfold hm_insert. rewrite hm_get_app, hm_get_remove_same. cbn [hm_get]. rewrite evkind_eqb_refl. reflexivity.
  Qed.

  Lemma hm_get_insert_other : forall m k k' v, k <> k' ->
    hm_get evkind_eqb (hm_insert evkind_eqb m k v) k' = hm_get evkind_eqb m k'.
  Proof.
    intros m k k' v Hn. unfold hm_insert. rewrite hm_get_app, (hm_get_remove_other m k k' Hn).
    destruct (hm_get evkind_eqb m k'); [reflexivity|]. cbn [hm_get].
    destruct (evkind_eqb k' k) eqn:E; [apply evkind_eqb_eq in E; subst k'; contradiction|reflexivity].
  Qed.

  Lemma hm_remove_app : forall m m' k,
    hm_remove evkind_eqb (m ++ m') k = hm_remove evkind_eqb m k ++ hm_remove evkind_eqb m' k.
  Proof. intros m m' k. unfold hm_remove. apply filter_app. Qed.

  Lemma hm_remove_remove : forall m k, hm_remove evkind_eqb (hm_remove evkind_eqb m k) k = hm_remove evkind_eqb m k.
  Proof.
    induction m as [|[k0 v0] m IH]; intros k; [reflexivity|].
    unfold hm_remove in *. cbn [filter fst]. destruct (evkind_eqb k k0) eqn:E; cbn [negb].
    - apply IH.
    - cbn [filter fst]. rewrite E. cbn [negb]. rewrite IH. reflexivity.
  Qed.

  (* a second insert under the same key replaces the first *)
  Lemma hm_insert_insert : forall m k v v',
    hm_insert evkind_eqb (hm_insert evkind_eqb m k v) k v' = hm_insert evkind_eqb m k v'.
  Proof.
    intros m k v v'. unfold hm_insert. rewrite hm_remove_app, hm_remove_remove.
    unfold hm_remove at 2. cbn [filter fst]. rewrite evkind_eqb_refl. cbn [negb]. rewrite app_nil_r. reflexivity.
  Qed.

  Lemma hm_get_or_insert_same : forall m k v d, hm_get_or evkind_eqb (hm_insert evkind_eqb m k v) k d = v.
  Proof. intros m k v d. unfold hm_get_or. rewrite hm_get_insert_same. reflexivity. Qed.

  Lemma hm_get_or_insert_other : forall m k k' v d, k <> k' ->
    hm_get_or evkind_eqb (hm_insert evkind_eqb m k v) k' d = hm_get_or evkind_eqb m k' d.
  Proof. intros m k k' v d Hn. unfold hm_get_or. rewrite (hm_get_insert_other m k k' v Hn). reflexivity. Qed.

  Lemma hm_get_or_remove_same : forall m k d, hm_get_or evkind_eqb (hm_remove evkind_eqb m k) k d = d.
  Proof. intros m k d. unfold hm_get_or. rewrite hm_get_remove_same. reflexivity. Qed.

  Lemma hm_get_or_remove_other : forall m k k' d, k <> k' ->
    hm_get_or evkind_eqb (hm_remove evkind_eqb m k) k' d = hm_get_or evkind_eqb m k' d.
  Proof. intros m k k' d Hn. unfold hm_get_or. rewrite (hm_get_remove_other m k k' Hn). reflexivity. Qed.

  Lemma hm_get_or_some : forall m k v d, hm_get evkind_eqb m k = Some v -> hm_get_or evkind_eqb m k d = v.
  Proof. intros m k v d H. unfold hm_get_or. rewrite H. reflexivity. Qed.
  Lemma hm_get_or_none : forall m k d, hm_get evkind_eqb m k = None -> hm_get_or evkind_eqb m k d = d.
  Proof. intros m k d H. unfold hm_get_or. rewrite H. reflexivity. Qed.
End EventMap.

(* ================================================================== *)
(* B. abs and the field assignments                                    *)

Lemma renf_eta : forall x,
  {| r_model := r_model x; r_adapter := r_adapter x; r_fm := r_fm x; r_eft := r_eft x; r_rm := r_rm x;
     r_enabled := r_enabled x; r_auto_save := r_auto_save x; r_auto_build := r_auto_build x;
     r_auto_notify := r_auto_notify x; r_watcher := r_watcher x; r_events := r_events x; r_engine := r_engine x |} = x.
Proof. intros x. destruct x. reflexivity. Qed.

Lemma rset_engine_id : forall x, rset_engine x (r_engine x) = x.
Proof. intros x. destruct x. reflexivity. Qed.
Lemma rset_events_id : forall x, rset_events x (r_events x) = x.
Proof. intros x. destruct x. reflexivity. Qed.
Lemma rset_watcher_id : forall x, rset_watcher x (r_watcher x) = x.
Proof. intros x. destruct x. reflexivity. Qed.
Lemma rset_engine_twice : forall x e1 e2, rset_engine (rset_engine x e1) e2 = rset_engine x e2.
Proof. reflexivity. Qed.
Lemma rset_events_twice : forall x e1 e2, rset_events (rset_events x e1) e2 = rset_events x e2.
Proof. reflexivity. Qed.

(* the number of PolicyChange callbacks *)
Definition n_callbacks (ev : events) : nat := length (hm_get_or evkind_eqb ev KPolicyChange []).

Lemma abs_rset_events : forall x ev,
  abs (rset_events x ev) =
  upd_flags (abs x) (r_enabled x) (r_auto_save x) (r_auto_build x) (r_auto_notify x) (n_callbacks ev).
Proof. reflexivity. Qed.

Lemma abs_rset_engine : forall x eng,
  abs (rset_engine x eng) =
  upd_fs (abs x) {| f_rm := fst (r_rm x); f_rm_max := snd (r_rm x); f_gfuns := eng_links eng; f_ufuns := fm_users (r_fm x) |}.
Proof. reflexivity. Qed.

Lemma abs_upd_flags_id : forall x, 
  upd_flags (abs x) (r_enabled x) (r_auto_save x) (r_auto_build x) (r_auto_notify x) (n_callbacks (r_events x)) = abs x.
Proof. reflexivity. Qed.

(* ================================================================== *)
(* C. event delivery                                                   *)

(* n runs of notify_logger_and_watcher with the data d: the watcher, if there is one, receives d n times *)
Definition notify_n (x : renf) (d : evdata) (n : nat) : renf :=
  match r_watcher x with
  | Some w => rset_watcher x (Some (w ++ repeat d n))
  | None => x
  end.

Lemma notify_n_0 : forall x d, notify_n x d 0 = x.
Proof.
  intros x d. unfold notify_n. destruct x as [md ad fm ef rm en sv bl nt [w|] ev eng]; cbn [r_watcher rset_watcher repeat]; [|reflexivity].
  rewrite app_nil_r. reflexivity.
Qed.

Lemma notify_n_S : forall x d n, notify_n (notify_n x d 1) d n = notify_n x d (S n).
Proof.
  intros x d n. unfold notify_n. destruct x as [md ad fm ef rm en sv bl nt [w|] ev eng]; cbn [r_watcher rset_watcher repeat]; [|reflexivity].
  rewrite <- app_assoc. reflexivity.
Qed.

(* a loop that runs a one-notification step for every element of a list *)
Lemma fold_notify : forall {A} (f : renf -> A -> renf) (d : evdata),
  (forall x a, f x a = notify_n x d 1) ->
  forall l x, fold_left f l x = notify_n x d (length l).
Proof.
  intros A f d Hf l. induction l as [|a l IH]; intros x; cbn [fold_left length].
  - symmetry. apply notify_n_0.
  - rewrite Hf, IH. apply notify_n_S.
Qed.

Lemma abs_notify_n : forall x d n,
  abs (notify_n x d n) =
  (if e_watcher (abs x) then upd_wlog (abs x) (e_wlog (abs x) ++ repeat d n) else abs x).
Proof.
  intros x d n. unfold notify_n. destruct x as [md ad fm ef rm en sv bl nt [w|] ev eng]; reflexivity.
Qed.

(* with as many runs as there are PolicyChange callbacks it is the model's emit *)
Lemma abs_notify_emit : forall x d,
  abs (notify_n x d (n_callbacks (r_events x))) = emit (abs x) d.
Proof. intros x d. rewrite abs_notify_n. reflexivity. Qed.

Lemma fold_left_ext : forall {A B} (f g : A -> B -> A), (forall s a, f s a = g s a) ->
  forall l s, fold_left f l s = fold_left g l s.
Proof.
  intros A B f g H l. induction l as [|a l IH]; intros s; [reflexivity|].
  cbn [fold_left]. rewrite H. apply IH.
Qed.

(* ================================================================== *)
(* D. register_g_functions                                             *)

(* one role definition (register_g_function!): a closure over the enforcer's current manager
   under (name, 2) or (name, 3), by the number of underscores of the definition *)
Definition step_g_eng (eng : engine) (ka : text * assertion) : engine * lerr :=
  let c := count_us (a_value (snd ka)) in
  if Nat.eqb c 2 then (eng_register_fn eng (fst ka) 2 (FnLink HCur), LOk)
  else if Nat.eqb c 3 then (eng_register_fn eng (fst ka) 3 (FnLink HCur), LOk)
  else (eng, LErr EModel).
Definition step_g (x : renf) (ka : text * assertion) : renf * lerr :=
  let (eng, e) := step_g_eng (r_engine x) ka in (rset_engine x eng, e).

(* `for (key, &func) in self.fm.get_functions() { Self::register_function(&mut self.engine, key, func) }` *)
Definition reapply_eng (fm : fmap) (eng : engine) : engine :=
  fold_left (fun eng kf => eng_register_function eng (fst kf) (snd kf)) fm eng.
Definition reapply (x : renf) : renf := rset_engine x (reapply_eng (r_fm x) (r_engine x)).

(* the closed form of the translated register_g_functions *)
Definition rg_spec (x : renf) : renf * outcome bool :=
  match assoc s_g (d_model (r_model x)) with
  | None => (reapply x, Ok true)
  | Some am =>
    match fold_err step_g am x with
    | (x1, LOk) => (reapply x1, Ok true)
    | (x1, LErr e) => (x1, Err e)
    end
  end.

(* a loop that only assigns the engine *)
Lemma fold_rset_engine : forall {A} (g : engine -> A -> engine) l x,
  fold_left (fun x a => rset_engine x (g (r_engine x) a)) l x = rset_engine x (fold_left g l (r_engine x)).
Proof.
  intros A g l. induction l as [|a l IH]; intros x; cbn [fold_left].
  - symmetry. apply rset_engine_id.
  - rewrite IH. reflexivity.
Qed.

Lemma fold_err_step_g : forall am x,
  fold_err step_g am x =
  (rset_engine x (fst (fold_err step_g_eng am (r_engine x))), snd (fold_err step_g_eng am (r_engine x))).
Proof.
  induction am as [|ka am IH]; intros x; cbn [fold_err].
  - cbn [fst snd]. rewrite rset_engine_id. reflexivity.
  - unfold step_g at 1. destruct (step_g_eng (r_engine x) ka) as [eng [|e]].
    + rewrite IH. reflexivity.
    + reflexivity.
Qed.

Lemma eng_links_reapply : forall fm eng, eng_links (reapply_eng fm eng) = eng_links eng.
Proof.
  unfold reapply_eng. induction fm as [|[k f] fm IH]; intros eng; [reflexivity|].
  cbn [fold_left]. rewrite IH. reflexivity.
Qed.

(* the role closures of the engine after the loop are what the model's register_g computes *)
Lemma register_g_fold : forall am eng,
  register_g am (eng_links eng) =
  (eng_links (fst (fold_err step_g_eng am eng)), snd (fold_err step_g_eng am eng)).
Proof.
  induction am as [|[k a] am IH]; intros eng; [reflexivity|].
  cbn [register_g fold_err]. unfold step_g_eng at 1 3. cbn [fst snd].
  destruct (Nat.eqb (count_us (a_value a)) 2).
  - rewrite <- IH. reflexivity.
  - destruct (Nat.eqb (count_us (a_value a)) 3).
    + rewrite <- IH. reflexivity.
    + reflexivity.
Qed.

Lemma abs_reapply : forall x, abs (reapply x) = abs x.
Proof.
  intros x. unfold reapply. rewrite abs_rset_engine, eng_links_reapply. destruct x. reflexivity.
Qed.

(* rg_spec against the model's register_g_functions: the state and the answer *)
Theorem rg_spec_model : forall x,
  abs (fst (rg_spec x)) = fst (register_g_functions (abs x)) /\
  snd (rg_spec x) = lerr_out (snd (register_g_functions (abs x))) true.
Proof.
  intros x. unfold rg_spec, register_g_functions.
  change (e_model (abs x)) with (d_model (r_model x)).
  destruct (assoc s_g (d_model (r_model x))) as [am|].
  - rewrite fold_err_step_g.
    change (f_gfuns (e_fs (abs x))) with (eng_links (r_engine x)).
    rewrite register_g_fold.
    destruct (fold_err step_g_eng am (r_engine x)) as [eng1 [|e]]; cbn [fst snd lerr_out].
    + rewrite abs_reapply. split; reflexivity.
    + split; reflexivity.
  - cbn [fst snd lerr_out]. rewrite abs_reapply. split; reflexivity.
Qed.

(* what else the function leaves alone *)
Lemma rg_spec_frame : forall x,
  r_fm (fst (rg_spec x)) = r_fm x /\ r_events (fst (rg_spec x)) = r_events x /\
  r_watcher (fst (rg_spec x)) = r_watcher x /\ r_model (fst (rg_spec x)) = r_model x /\ r_rm (fst (rg_spec x)) = r_rm x.
Proof.
  intros x. unfold rg_spec. destruct (assoc s_g (d_model (r_model x))) as [am|].
  - rewrite fold_err_step_g. destruct (fold_err step_g_eng am (r_engine x)) as [eng1 [|e]]; repeat split.
  - repeat split.
Qed.

(* ================================================================== *)
(* E. the engine and Enforce.call_fn                                   *)

Lemma gkey_eqb_eq : forall a b, gkey_eqb a b = true <-> a = b.
Proof.
  intros [a n] [b m]. unfold gkey_eqb. cbn [fst snd]. rewrite andb_true_iff, teqb_eq, Nat.eqb_eq.
  split; [intros [-> ->]; reflexivity|intros H; inversion H; split; reflexivity].
Qed.
Lemma gkey_eqb_refl : forall a, gkey_eqb a a = true.
Proof. intros a. apply gkey_eqb_eq. reflexivity. Qed.

Lemma eng_find_app : forall k a b,
  eng_find k (a ++ b) = match eng_find k a with Some f => Some f | None => eng_find k b end.
Proof.
  intros k a b. induction a as [|[k' f] a IH]; [reflexivity|].
  cbn [app eng_find]. destruct (gkey_eqb k k'); [reflexivity|exact IH].
Qed.

Lemma find_gfun_app : forall k a b,
  find_gfun k (a ++ b) = match find_gfun k a with Some h => Some h | None => find_gfun k b end.
Proof.
  intros k a b. induction a as [|[k' h] a IH]; [reflexivity|].
  cbn [app find_gfun]. destruct (gkey_eqb k k'); [reflexivity|exact IH].
Qed.

(* an engine segment that holds role closures only *)
Definition all_links (L : engine) : Prop := Forall (fun r => exists h, snd r = FnLink h) L.

Lemma eng_find_links : forall k L, all_links L ->
  eng_find k L = match find_gfun k (eng_links L) with Some h => Some (FnLink h) | None => None end.
Proof.
  intros k L H. induction H as [|[k' f] L [h Hh] _ IH]; [reflexivity|].
  cbn [snd] in Hh. subst f. cbn [eng_find eng_links find_gfun]. destruct (gkey_eqb k k'); [reflexivity|exact IH].
Qed.

Lemma fold_err_step_g_eng_app : forall am eng,
  exists L, all_links L /\ fst (fold_err step_g_eng am eng) = L ++ eng.
Proof.
  induction am as [|[k a] am IH]; intros eng.
  - exists []. split; [constructor|reflexivity].
  - cbn [fold_err]. unfold step_g_eng at 1. cbn [fst snd].
    destruct (Nat.eqb (count_us (a_value a)) 2).
    + destruct (IH (eng_register_fn eng k 2 (FnLink HCur))) as [L [HL E]].
      exists (L ++ [((k, 2), FnLink HCur)]). split.
      * apply Forall_app. split; [exact HL|]. constructor; [exists HCur; reflexivity|constructor].
      * rewrite E. unfold eng_register_fn. rewrite <- app_assoc. reflexivity.
    + destruct (Nat.eqb (count_us (a_value a)) 3).
      * destruct (IH (eng_register_fn eng k 3 (FnLink HCur))) as [L [HL E]].
        exists (L ++ [((k, 3), FnLink HCur)]). split.
        -- apply Forall_app. split; [exact HL|]. constructor; [exists HCur; reflexivity|constructor].
        -- rewrite E. unfold eng_register_fn. rewrite <- app_assoc. reflexivity.
      * exists []. split; [constructor|reflexivity].
Qed.

(* the registrations of a function map, newest first *)
Definition fm_reg (kf : text * opfun) : (text * nat) * efn := ((fst kf, opfun_arity (snd kf)), FnOp (snd kf)).

Lemma reapply_eng_rev : forall fm eng, reapply_eng fm eng = rev (map fm_reg fm) ++ eng.
Proof.
  unfold reapply_eng. induction fm as [|kf fm IH]; intros eng; [reflexivity|].
  cbn [fold_left map rev]. rewrite IH, <- app_assoc. reflexivity.
Qed.

(* the function map: one entry per name; a default function is filed under its own name *)
Definition fm_wf (fm : fmap) : Prop :=
  NoDup (map fst fm) /\ (forall k n, In (k, OfBuiltin n) fm -> k = n).

Lemma eng_find_In : forall k E f, eng_find k E = Some f -> In (k, f) E.
Proof.
  intros k E f. induction E as [|[k' f'] E IH]; [discriminate|].
  cbn [eng_find]. destruct (gkey_eqb k k') eqn:Ek.
  - intros H. inversion H; subst f'. apply gkey_eqb_eq in Ek. subst k'. left. reflexivity.
  - intros H. right. apply IH, H.
Qed.

Lemma eng_find_not_In : forall k E, (forall f, ~ In (k, f) E) -> eng_find k E = None.
Proof.
  intros k E H. destruct (eng_find k E) as [f|] eqn:Ef; [|reflexivity].
  exfalso. apply (H f). apply eng_find_In, Ef.
Qed.

Lemma In_fm_reg : forall k n f fm, In ((k, n), f) (rev (map fm_reg fm)) ->
  exists op, In (k, op) fm /\ n = opfun_arity op /\ f = FnOp op.
Proof.
  intros k n f fm H. apply in_rev in H. apply in_map_iff in H. destruct H as [[k' op] [E Hin]].
  unfold fm_reg in E. cbn [fst snd] in E. inversion E; subst. exists op. repeat split. exact Hin.
Qed.

(* which registration of the function map answers to (f, n) *)
Lemma eng_find_fm : forall fm f n, NoDup (map fst fm) ->
  eng_find (f, n) (rev (map fm_reg fm)) =
  match assoc f fm with
  | Some op => if Nat.eqb n (opfun_arity op) then Some (FnOp op) else None
  | None => None
  end.
Proof.
  intros fm f n Hnd. destruct (assoc f fm) as [op|] eqn:Ea.
  - destruct (Nat.eqb n (opfun_arity op)) eqn:En.
    + apply Nat.eqb_eq in En. subst n.
      destruct (eng_find (f, opfun_arity op) (rev (map fm_reg fm))) as [fn|] eqn:Ef.
      * apply eng_find_In in Ef. apply In_fm_reg in Ef. destruct Ef as [op' [Hin [_ ->]]].
        rewrite (In_assoc f op' fm Hnd Hin) in Ea. inversion Ea. reflexivity.
      * exfalso. assert (Hin : In ((f, opfun_arity op), FnOp op) (rev (map fm_reg fm))).
        { apply in_rev. rewrite rev_involutive. apply in_map_iff. exists (f, op). split; [reflexivity|apply assoc_In, Ea]. }
        clear Ea Hnd. induction (rev (map fm_reg fm)) as [|[k' f'] E IH]; [destruct Hin|].
        cbn [eng_find] in Ef. destruct (gkey_eqb (f, opfun_arity op) k') eqn:Ek; [discriminate Ef|].
        destruct Hin as [H|H]; [inversion H; subst k'; rewrite gkey_eqb_refl in Ek; discriminate Ek|apply IH; assumption].
    + apply eng_find_not_In. intros fn Hin. apply In_fm_reg in Hin. destruct Hin as [op' [Hin [Hn _]]].
      rewrite (In_assoc f op' fm Hnd Hin) in Ea. inversion Ea; subst op'. subst n. rewrite Nat.eqb_refl in En. discriminate En.
  - apply eng_find_not_In. intros fn Hin. apply In_fm_reg in Hin. destruct Hin as [op' [Hin _]].
    apply assoc_None in Ea. apply Ea. apply in_map_iff. exists (f, op'). split; [reflexivity|exact Hin].
Qed.

Lemma fm_users_keys : forall fm k u, In (k, u) (fm_users fm) -> In (k, OfUser u) fm.
Proof.
  induction fm as [|[k' [u'|n']] fm IH]; intros k u H; cbn [fm_users] in H.
  - destruct H.
  - destruct H as [H|H]; [inversion H; left; reflexivity|right; apply IH, H].
  - right. apply IH, H.
Qed.

Lemma assoc_fm_users : forall fm f, NoDup (map fst fm) ->
  assoc f (fm_users fm) = match assoc f fm with Some (OfUser u) => Some u | _ => None end.
Proof.
  induction fm as [|[k op] fm IH]; intros f Hnd; [reflexivity|].
  cbn [map fst] in Hnd. inversion Hnd as [|? ? Hk Hnd']; subst.
  cbn [assoc]. destruct (teqb f k) eqn:Ef.
  - apply teqb_eq in Ef. subst k. destruct op as [u|n]; cbn [fm_users assoc].
    + rewrite teqb_refl. reflexivity.
    + apply assoc_None. intros Hin. apply in_map_iff in Hin. destruct Hin as [[k' u'] [E Hin]]. cbn [fst] in E. subst k'.
      apply fm_users_keys in Hin. apply Hk. apply in_map_iff. exists (f, OfUser u'). split; [reflexivity|exact Hin].
  - destruct op as [u|n]; cbn [fm_users assoc]; [rewrite Ef|]; apply IH, Hnd'.
Qed.

(* a function pointer of N parameters runs exactly on N arguments *)
Lemma run_ufun_arity : forall u ss,
  (length ss = ufun_arity u -> exists r, run_ufun u ss = Some r) /\
  (length ss <> ufun_arity u -> run_ufun u ss = None).
Proof.
  intros u ss. destruct u; destruct ss as [|a [|b [|c ss]]]; cbn [run_ufun ufun_arity length]; split; intros H;
    try reflexivity; try (eexists; reflexivity); try (exfalso; lia); try discriminate H.
Qed.

Lemma all_strs_map : forall ss, all_strs (map VStr ss) = Some ss.
Proof. induction ss as [|s ss IH]; [reflexivity|]. cbn [map all_strs]. rewrite IH. reflexivity. Qed.

Lemma handle_has_link_rm : forall fs fs' h a b d, f_rm fs' = f_rm fs -> f_rm_max fs' = f_rm_max fs ->
  handle_has_link fs' h a b d = handle_has_link fs h a b d.
Proof. intros fs fs' h a b d H1 H2. unfold handle_has_link. rewrite H1, H2. reflexivity. Qed.

Lemma run_efn_rm : forall fs fs' fn ss, f_rm fs' = f_rm fs -> f_rm_max fs' = f_rm_max fs ->
  run_efn fs' fn ss = run_efn fs fn ss.
Proof.
  intros fs fs' fn ss H1 H2. destruct fn as [h|op]; [|reflexivity].
  cbn [run_efn]. destruct ss as [|a [|b [|c [|? ?]]]]; try reflexivity; rewrite (handle_has_link_rm fs fs'); auto.
Qed.

(* calls on strings *)
Definition eng_call_s (fs : fstate) (eng : engine) (f : text) (ss : list text) : option eres :=
  match eng_find (f, length ss) eng with Some fn => run_efn fs fn ss | None => None end.
Definition call_fn_s (fs : fstate) (f : text) (ss : list text) : option eres :=
  match (match assoc f (f_ufuns fs) with Some u => run_ufun u ss | None => None end) with
  | Some r => Some r
  | None =>
    match find_gfun (f, length ss) (f_gfuns fs) with
    | Some h =>
      match ss with
      | [a; b] => Some (EV (VBool (handle_has_link fs h a b None)))
      | [a; b; d] => Some (EV (VBool (handle_has_link fs h a b (Some d))))
      | _ => None
      end
    | None => builtin f ss
    end
  end.

Lemma eng_call_strs : forall fs eng f args,
  eng_call fs eng f args = match all_strs args with Some ss => eng_call_s fs eng f ss | None => None end.
Proof. reflexivity. Qed.
Lemma call_fn_strs : forall fs f args,
  call_fn fs f args = match all_strs args with Some ss => call_fn_s fs f ss | None => None end.
Proof. reflexivity. Qed.

Lemma coherent_strs : forall fs eng,
  (forall f args, eng_call fs eng f args = call_fn fs f args) <->
  (forall f ss, eng_call_s fs eng f ss = call_fn_s fs f ss).
Proof.
  intros fs eng. split; intros H f x.
  - specialize (H f (map VStr x)). rewrite eng_call_strs, call_fn_strs, all_strs_map in H. exact H.
  - rewrite eng_call_strs, call_fn_strs. destruct (all_strs x) as [ss|]; [apply H|reflexivity].
Qed.

(* no role closure has the name and arity of a default function that the function map still holds *)
Definition builtins_unshadowed (fm : fmap) (gf : list ((text * nat) * handle)) : Prop :=
  forall n, In (n, OfBuiltin n) fm -> find_gfun (n, builtin_arity n) gf = None.

(* THE STEP: new role closures L are registered on top of a coherent engine, then the function map is
   re-applied on top of them.  The result is coherent with the model state whose role closures are the new
   ones followed by the old ones - provided no default function is shadowed in the model's view. *)
Theorem coherent_register : forall fs fs' eng L fm,
  (forall f ss, eng_call_s fs eng f ss = call_fn_s fs f ss) ->
  fm_wf fm -> all_links L ->
  f_rm fs' = f_rm fs -> f_rm_max fs' = f_rm_max fs ->
  f_ufuns fs = fm_users fm -> f_ufuns fs' = fm_users fm ->
  f_gfuns fs' = eng_links L ++ f_gfuns fs ->
  builtins_unshadowed fm (f_gfuns fs') ->
  forall f ss, eng_call_s fs' (reapply_eng fm (L ++ eng)) f ss = call_fn_s fs' f ss.
Proof.
  intros fs fs' eng L fm Hold [Hnd Hbn] HL Hrm Hmx Hu Hu' Hg Hsh f ss.
  (* what is below the function map's registrations *)
  assert (Hbelow : assoc f (fm_users fm) = None \/ (exists u, assoc f (fm_users fm) = Some u /\ run_ufun u ss = None) ->
          match eng_find (f, length ss) (L ++ eng) with Some fn => run_efn fs' fn ss | None => None end =
          match find_gfun (f, length ss) (f_gfuns fs') with
          | Some h => match ss with
                      | [a; b] => Some (EV (VBool (handle_has_link fs' h a b None)))
                      | [a; b; d] => Some (EV (VBool (handle_has_link fs' h a b (Some d))))
                      | _ => None
                      end
          | None => builtin f ss
          end).
  { intros Hno. rewrite eng_find_app, (eng_find_links _ L HL), Hg, find_gfun_app.
    destruct (find_gfun (f, length ss) (eng_links L)) as [h|]; [reflexivity|].
    specialize (Hold f ss). unfold eng_call_s, call_fn_s in Hold. rewrite Hu in Hold.
    assert (E : match assoc f (fm_users fm) with Some u => run_ufun u ss | None => None end = None).
    { destruct Hno as [->|[u [-> Hr]]]; [reflexivity|exact Hr]. }
    rewrite E in Hold.
    assert (Hlk : forall h, match ss with
                            | [a; b] => Some (EV (VBool (handle_has_link fs' h a b None)))
                            | [a; b; d] => Some (EV (VBool (handle_has_link fs' h a b (Some d))))
                            | _ => None
                            end =
                            match ss with
                            | [a; b] => Some (EV (VBool (handle_has_link fs h a b None)))
                            | [a; b; d] => Some (EV (VBool (handle_has_link fs h a b (Some d))))
                            | _ => None
                            end).
    { intros h. destruct ss as [|a [|b [|c [|? ?]]]]; try reflexivity; rewrite (handle_has_link_rm fs fs'); auto. }
    destruct (eng_find (f, length ss) eng) as [fn|].
    - rewrite (run_efn_rm fs fs' fn ss Hrm Hmx), Hold.
      destruct (find_gfun (f, length ss) (f_gfuns fs)) as [h|]; [apply eq_sym, Hlk|reflexivity].
    - destruct (find_gfun (f, length ss) (f_gfuns fs)) as [h|]; [rewrite Hlk|]; exact Hold. }
  unfold eng_call_s, call_fn_s. rewrite reapply_eng_rev, eng_find_app, (eng_find_fm fm f (length ss) Hnd), Hu'.
  rewrite (assoc_fm_users fm f Hnd). rewrite (assoc_fm_users fm f Hnd) in Hbelow.
  destruct (assoc f fm) as [[u|n]|] eqn:Ea.
  - destruct (Nat.eqb (length ss) (opfun_arity (OfUser u))) eqn:En; cbn [opfun_arity] in En.
    + apply Nat.eqb_eq in En. destruct (proj1 (run_ufun_arity u ss) En) as [r Hr]. cbn [run_efn]. rewrite Hr. reflexivity.
    + apply Nat.eqb_neq in En. pose proof (proj2 (run_ufun_arity u ss) En) as Hr. rewrite Hr.
      apply Hbelow. right. exists u. split; [reflexivity|exact Hr].
  - pose proof (Hbn f n (assoc_In _ _ _ Ea)) as E. subst n.
    destruct (Nat.eqb (length ss) (opfun_arity (OfBuiltin f))) eqn:En; cbn [opfun_arity] in En.
    + apply Nat.eqb_eq in En. cbn [run_efn]. rewrite En, (Hsh f (assoc_In _ _ _ Ea)). reflexivity.
    + apply Hbelow. left. reflexivity.
  - apply Hbelow. left. reflexivity.
Qed.

Lemma eng_links_app : forall a b, eng_links (a ++ b) = eng_links a ++ eng_links b.
Proof.
  induction a as [|[k [h|op]] a IH]; intros b; [reflexivity| |]; cbn [app eng_links]; rewrite IH; reflexivity.
Qed.

(* register_g_functions keeps the engine coherent when it succeeds and no default function is shadowed
   in the model's view of the result *)
Theorem rg_spec_coherent : forall x,
  eng_coherent x -> fm_wf (r_fm x) -> snd (rg_spec x) = Ok true ->
  builtins_unshadowed (r_fm x) (eng_links (r_engine (fst (rg_spec x)))) ->
  eng_coherent (fst (rg_spec x)).
Proof.
  intros x Hc Hwf Hok Hsh.
  assert (Hgen : forall L, all_links L ->
            builtins_unshadowed (r_fm x) (eng_links (r_engine (reapply (rset_engine x (L ++ r_engine x))))) ->
            eng_coherent (reapply (rset_engine x (L ++ r_engine x)))).
  { intros L HL Hs m mx. apply coherent_strs.
    apply (coherent_register (with_rm (abs_fs x) m mx) _ (r_engine x) L (r_fm x)); try reflexivity; try assumption.
    - apply coherent_strs. apply Hc.
    - cbn [with_rm abs_fs f_gfuns reapply rset_engine r_engine r_fm]. rewrite eng_links_reapply, eng_links_app. reflexivity. }
  unfold rg_spec in *. destruct (assoc s_g (d_model (r_model x))) as [am|].
  - rewrite fold_err_step_g in *. destruct (fold_err_step_g_eng_app am (r_engine x)) as [L [HL E]].
    destruct (fold_err step_g_eng am (r_engine x)) as [eng1 [|e]]; cbn [fst snd] in *; [|discriminate Hok].
    subst eng1. apply Hgen; assumption.
  - cbn [fst] in *. rewrite <- (rset_engine_id x) at 1. rewrite <- (rset_engine_id x) in Hsh at 2.
    apply (Hgen [] (Forall_nil _)). exact Hsh.
Qed.

Lemma rg_spec_outcome : forall x, snd (rg_spec x) = Ok true \/ exists e, snd (rg_spec x) = Err e.
Proof.
  intros x. unfold rg_spec. destruct (assoc s_g (d_model (r_model x))) as [am|]; [|left; reflexivity].
  destruct (fold_err step_g am x) as [x1 [|e]]; [left; reflexivity|right; exists e; reflexivity].
Qed.

(* ================================================================== *)
(* F. load_policy through x_core_call; the state built by new_raw      *)

Lemma build_role_links_frame : forall s s' e, build_role_links s = (s', e) ->
  e_callbacks s' = e_callbacks s /\ f_gfuns (e_fs s') = f_gfuns (e_fs s) /\ f_ufuns (e_fs s') = f_ufuns (e_fs s) /\
  e_watcher s' = e_watcher s /\ e_wlog s' = e_wlog s.
Proof.
  intros s s' e H. unfold build_role_links in H. destruct (assoc s_g (e_model s)) as [am|].
  - destruct (build_links_am am []) as [[am' m'] e']. inversion H; subst. repeat split.
  - inversion H; subst. repeat split.
Qed.

Lemma step_load_frame : forall s,
  e_callbacks (fst (step_load s)) = e_callbacks s /\ f_gfuns (e_fs (fst (step_load s))) = f_gfuns (e_fs s) /\
  f_ufuns (e_fs (fst (step_load s))) = f_ufuns (e_fs s) /\
  e_watcher (fst (step_load s)) = e_watcher s /\ e_wlog (fst (step_load s)) = e_wlog s.
Proof.
  intros s. unfold step_load, finish_load.
  destruct (ad_load (e_adapter s) (m_clear_policy (e_model s))) as [[ad md] r].
  destruct r as [|e|]; [|repeat split|repeat split].
  destruct (e_auto_build (upd_model (upd_adapter s ad) md)); [|repeat split].
  destruct (build_role_links (upd_model (upd_adapter s ad) md)) as [s2 e2] eqn:Eb.
  apply build_role_links_frame in Eb. cbn [fst]. exact Eb.
Qed.

(* taking over a model state that differs from abs x only in what absorb takes over *)
Lemma abs_absorb : forall x s,
  e_callbacks s = e_callbacks (abs x) -> f_gfuns (e_fs s) = f_gfuns (e_fs (abs x)) ->
  f_ufuns (e_fs s) = f_ufuns (e_fs (abs x)) ->
  e_watcher s = e_watcher (abs x) -> e_wlog s = e_wlog (abs x) ->
  abs (absorb x s) = s.
Proof.
  intros x s Hc Hg Hu Hw Hl. destruct s as [md mx ad [rm rmx gf uf] en sv bl nt cb wt wl].
  cbn [e_callbacks e_fs f_gfuns f_ufuns e_watcher e_wlog] in *. subst cb gf uf wt wl.
  unfold abs, absorb, abs_fs. cbn [r_model r_adapter r_fm r_eft r_rm r_enabled r_auto_save r_auto_build r_auto_notify
                                   r_watcher r_events r_engine d_model d_mexprs e_model e_mexprs e_adapter e_fs e_enabled
                                   e_auto_save e_auto_build e_auto_notify e_watcher e_wlog f_rm f_rm_max fst snd].
  destruct (r_watcher x) as [w|]; reflexivity.
Qed.

(* a part-7 method that is the model's load step, called through x_core_call *)
Theorem core_call_load : forall x (f : estate -> estate * outcome bool), (forall s, f s = step_load s) ->
  abs (fst (x_core_call x f)) = fst (step_load (abs x)) /\ snd (x_core_call x f) = snd (step_load (abs x)).
Proof.
  intros x f Hf. unfold x_core_call. rewrite Hf. destruct (step_load_frame (abs x)) as [H1 [H2 [H3 [H4 H5]]]].
  destruct (step_load (abs x)) as [s' o]. cbn [fst snd] in *. split; [|reflexivity]. apply abs_absorb; assumption.
Qed.

Lemma core_call_frame : forall x f,
  r_fm (fst (x_core_call x f)) = r_fm x /\ r_events (fst (x_core_call x f)) = r_events x /\
  r_engine (fst (x_core_call x f)) = r_engine x.
Proof. intros x f. unfold x_core_call. destruct (f (abs x)) as [s' o]. repeat split. Qed.

Lemma core_call_coherent : forall x f, eng_coherent x -> eng_coherent (fst (x_core_call x f)).
Proof. intros x f H. unfold x_core_call. destruct (f (abs x)) as [s' o]. exact H. Qed.

(* the enforcer that new_raw builds before it registers the role functions: `Self { .. }` after
   e.on(Event::PolicyChange, notify_logger_and_watcher) *)
Definition init_renf (d : modeldef) (a : adapter) : renf :=
  {| r_model := d; r_adapter := a; r_fm := fm_default; r_eft := tt; r_rm := ([], 10);
     r_enabled := true; r_auto_save := true; r_auto_build := true; r_auto_notify := true;
     r_watcher := None; r_events := [(KPolicyChange, [CbNotify])];
     r_engine := reapply_eng fm_default [] |}.

Lemma abs_init_renf : forall d a,
  abs (init_renf d a) =
  {| e_model := d_model d; e_mexprs := d_mexprs d; e_adapter := a;
     e_fs := {| f_rm := []; f_rm_max := 10; f_gfuns := []; f_ufuns := [] |};
     e_enabled := true; e_auto_save := true; e_auto_build := true; e_auto_notify := true;
     e_callbacks := 1; e_watcher := false; e_wlog := [] |}.
Proof. reflexivity. Qed.

Lemma fm_default_wf : fm_wf fm_default.
Proof.
  split.
  - unfold fm_default. cbn [map fst].
    repeat (constructor; [cbn [In]; intros H; repeat (destruct H as [H|H]; [cbv in H; discriminate H|]); exact H|]).
    constructor.
  - intros k n H. unfold fm_default in H. apply in_map_iff in H. destruct H as [m [E _]]. inversion E. reflexivity.
Qed.

(* Enforce.builtin knows exactly the names of FunctionMap::default(), each with its arity *)
Lemma builtin_default : forall f ss,
  builtin f ss = match assoc f fm_default with
                 | Some _ => if Nat.eqb (length ss) (builtin_arity f) then builtin f ss else None
                 | None => None
                 end.
Proof.
  intros f ss. unfold fm_default, builtin_arity. cbn [map assoc].
  repeat match goal with
         | |- context [teqb f ?t] =>
           let E := fresh "E" in
           destruct (teqb f t) eqn:E;
           [apply teqb_eq in E; subst f; destruct ss as [|a [|b [|c [|d ss]]]]; reflexivity|]
         end.
  unfold builtin. destruct ss as [|a [|b [|c [|d ss]]]]; try reflexivity;
    repeat match goal with H : teqb f _ = false |- _ => rewrite H; clear H end; reflexivity.
Qed.

(* the engine of a fresh enforcer, before any role function: the default functions only *)
Lemma init_renf_coherent : forall d a, eng_coherent (init_renf d a).
Proof.
  intros d a m mx. apply coherent_strs. intros f ss. unfold eng_call_s, call_fn_s.
  change (r_engine (init_renf d a)) with (reapply_eng fm_default []).
  change (f_ufuns (with_rm (abs_fs (init_renf d a)) m mx)) with (@nil (text * ufun)).
  change (f_gfuns (with_rm (abs_fs (init_renf d a)) m mx)) with (@nil ((text * nat) * handle)).
  cbn [assoc find_gfun].
  rewrite reapply_eng_rev, app_nil_r, (eng_find_fm fm_default f (length ss) (proj1 fm_default_wf)).
  rewrite (builtin_default f ss).
  destruct (assoc f fm_default) as [op|] eqn:Ea; [|reflexivity].
  assert (op = OfBuiltin f).
  { apply assoc_In in Ea. unfold fm_default in Ea. apply in_map_iff in Ea. destruct Ea as [n [E _]]. inversion E. reflexivity. }
  subst op. cbn [opfun_arity]. destruct (Nat.eqb (length ss) (builtin_arity f)); reflexivity.
Qed.

(* add_function(n, u) on a coherent engine, for a name the function map does not hold yet:
   `self.fm.add_function(n, u); Self::register_function(&mut self.engine, n, u)` *)
Lemma coherent_add_user : forall fs eng n u,
  (forall f ss, eng_call_s fs eng f ss = call_fn_s fs f ss) ->
  assoc n (f_ufuns fs) = None ->
  let fs' := {| f_rm := f_rm fs; f_rm_max := f_rm_max fs; f_gfuns := f_gfuns fs; f_ufuns := (n, u) :: f_ufuns fs |} in
  forall f ss, eng_call_s fs' (eng_register_function eng n (OfUser u)) f ss = call_fn_s fs' f ss.
Proof.
  intros fs eng n u Hold Hn fs' f ss. specialize (Hold f ss).
  unfold eng_call_s, call_fn_s, eng_register_function, eng_register_fn in *.
  cbn [eng_find fs' f_ufuns f_gfuns assoc opfun_arity]. unfold gkey_eqb. cbn [fst snd].
  assert (Hr : forall fn, run_efn fs' fn ss = run_efn fs fn ss) by (intros fn; apply run_efn_rm; reflexivity).
  destruct (teqb f n) eqn:Ef; cbn [andb].
  - apply teqb_eq in Ef. subst f. rewrite Hn in Hold.
    destruct (Nat.eqb (length ss) (ufun_arity u)) eqn:En.
    + apply Nat.eqb_eq in En. destruct (proj1 (run_ufun_arity u ss) En) as [r Hru]. cbn [run_efn]. rewrite Hru. reflexivity.
    + apply Nat.eqb_neq in En. rewrite (proj2 (run_ufun_arity u ss) En).
      destruct (eng_find (n, length ss) eng) as [fn|]; [rewrite Hr|]; exact Hold.
  - destruct (eng_find (f, length ss) eng) as [fn|]; [rewrite Hr|]; exact Hold.
Qed.
