(* Extraction of the executable model to OCaml (extracted/model.ml).
   Directives in force: those of ExtrOcamlBasic, ExtrOcamlChar, ExtrOcamlString
   (listed in DESIGN.md section 6); nat/N/Z/positive stay inductive. *)
From Coq Require Extraction ExtrOcamlBasic ExtrOcamlChar ExtrOcamlString.
From CV Require Import Model.Base Model.Effector Model.RoleGraph Model.PathMatch Model.Expr Model.Enforce Model.Engine Model.SpecC01 Model.Cached Model.Csv Model.Ini Model.SpecC14 Model.SpecC15 Model.SpecC09 Model.SpecC12 Model.SpecC08 Model.SpecC19 Model.SpecC04 Model.SpecC05 Model.SpecC13 Model.SpecC07 Model.SpecC11 Model.SpecC18 Model.SpecC16 Model.RoleGraphM Model.SpecC03M Model.FileSave.
Extraction Blacklist String List Char Bool Nat.
Set Extraction KeepSingleton.
Extraction "../extracted/model.ml"
  T teqb
  observe_effector c02_pred new_stream parse_erule
  lstep lrun RoleGraph.answer c03_pred
  mrun_i manswer c03m_pred mf_supported
  enforce_with_ctx4 perm_ref_ctx4 CKCtx
  save_new
  print_expr escape_assertion key_match key_get key_match2 key_get2 key_match3 key_get3 key_match4 key_match5
  regex_match_words render2 render3 grammar spec_km spec_km4 spec_km5 spec_get before_star is_prefix
  step ask new_enforcer reload_view count_us m_get_all
  perm_ref_plain perm_ref_ctx outcome_eqb
  cstep cenforce crun prun
  parse_csv_line csv_field parsed_lines render_line_file render_line_string render_row csv_safe ptype_safe
  parse_config remove_comment model_of_text to_text
  c14_pred store_of c15_pred c06_pred
  c12_pred c09_pred
  c08_pred shallow_state c19_pred known_shared_rm_case enforce_indep
  c04_check ideal_of ideal_step
  fresh_of syncedb gfuns_exactb c18_pred c11_pred
  c16_csv_pred c16_file_pred c16_model_equiv.
