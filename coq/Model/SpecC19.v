(* Specification-side definitions for C19 (role definitions are independent
   relations). Executable definitions only.

   In the code every role definition (g, g2, ...) writes its links into, and
   tests them against, ONE role manager (finding D7).  The specification keeps
   one link set per definition, read off the stored grouping rules. *)
From CV Require Import Model.Base Model.Effector Model.RoleGraph Model.PathMatch
     Model.Expr Model.Enforce Model.Engine.

(* ---------- the links a definition asserts ---------- *)
(* the link a stored rule of a definition with `cnt` underscores stands for,
   tagged with its domain key (as Assertion::build_role_links reads it) *)
Definition def_link (cnt : nat) (r : rule) : option (text * (text * text)) :=
  if Nat.ltb (length r) cnt then None
  else if Nat.ltb cnt 2 || Nat.leb 4 cnt then None
  else
    let a := nth 0 r [] in let b := nth 1 r [] in
    if teqb a b then None
    else Some (dom_key (if Nat.eqb cnt 2 then None else Some (nth 2 r [])), (a, b)).

Definition tlinks := list (text * (text * text)).     (* domain key, link *)

Definition def_links (a : assertion) : tlinks :=
  flat_map (fun r => match def_link (count_us (a_value a)) r with
                     | Some x => [x] | None => [] end) (a_policy a).

Definition links_in (dk : text) (l : tlinks) : links :=
  map snd (filter (fun x => teqb (fst x) dk) l).

(* link set of definition `key` alone, in the domain with key dk *)
Definition per_def_links (s : estate) (key dk : text) : links :=
  match get_ast (e_model s) s_g key with
  | Some a => links_in dk (def_links a)
  | None => []
  end.

(* every definition with its links, in definition order *)
Definition all_def_links (s : estate) : list (text * tlinks) :=
  match assoc s_g (e_model s) with
  | Some am => map (fun ka => (fst ka, def_links (snd ka))) am
  | None => []
  end.

(* what a shared manager that is in sync with the store holds *)
Definition union_links (s : estate) (dk : text) : links :=
  flat_map (fun kl => links_in dk (snd kl)) (all_def_links s).

(* ---------- the registered functions, with the role test abstracted ---------- *)
Definition call_fn_with (fs : fstate)
           (glink : handle -> text -> text -> text -> option text -> eres)
           (f : text) (args : list value) : option eres :=
  match all_strs args with
  | None => None
  | Some ss =>
    match (match assoc f (f_ufuns fs) with Some u => run_ufun u ss | None => None end) with
    | Some r => Some r
    | None =>
      match find_gfun (f, length ss) (f_gfuns fs) with
      | Some h =>
        match ss with
        | [a; b] => Some (glink h f a b None)
        | [a; b; d] => Some (glink h f a b (Some d))
        | _ => None
        end
      | None => builtin f ss
      end
    end
  end.

(* the model's table in this form (equal to call_fn, see C19P) *)
Definition glink_shared (fs : fstate) : handle -> text -> text -> text -> option text -> eres :=
  fun h _ a b d => EV (VBool (handle_has_link fs h a b d)).

(* the specification: gK(a, b[, d]) is reflexive-transitive reachability in
   the links of definition K alone *)
Definition glink_indep (s : estate) : handle -> text -> text -> text -> option text -> eres :=
  fun _ f a b d => EV (VBool (reachable (per_def_links s f (dom_key d)) a b)).
Definition call_fn_indep (s : estate) := call_fn_with (e_fs s) (glink_indep s).

(* a call gK(a, b[, d]) whose answer over the union of all definitions' links
   differs from the answer over K's own links: cross-talk *)
Definition cross_call (s : estate) (f a b dk : text) : bool :=
  negb (Bool.eqb (reachable (union_links s dk) a b) (reachable (per_def_links s f dk) a b)).

(* the probe: like the specification, but a cross-talk call aborts the
   evaluation (EPanic propagates through every operator) *)
Definition glink_probe (s : estate) : handle -> text -> text -> text -> option text -> eres :=
  fun h f a b d => if cross_call s f a b (dom_key d) then EPanic else glink_indep s h f a b d.
Definition call_fn_probe (s : estate) := call_fn_with (e_fs s) (glink_probe s).

(* ---------- the enforcement loop over an arbitrary call table ---------- *)
(* identical to Model/Enforce.v with `call_fn fs` replaced by `call` *)
Section EnforceC.
  Variable ptab : text -> option expr.
  Variable call : text -> list value -> option eres.

  Definition eval_matcher_c (m : expr) (sc : list (text * value)) : outcome bool :=
    match eval call ptab sc eval_fuel m with
    | EV (VBool b) => Ok b
    | EV _ => Err EEvalc
    | EErr => Err EEvalc
    | EPanic => Panic
    end.

  Fixpoint rules_loop_c (m : expr) (eft_tok : text) (ptoks : list text)
           (sc0 : list (text * value)) (st : stream) (rules : list rule) : outcome bool :=
    match rules with
    | [] => match next st with Some b => Ok b | None => Panic end
    | pvals :: rest =>
      if negb (Nat.eqb (length ptoks) (length pvals)) then Err EPolicy
      else
        match eval_matcher_c m (bind ptoks (map VStr pvals) sc0) with
        | Ok b =>
          let st' := push st (rule_effect eft_tok ptoks pvals b) in
          if done st' then (match next st' with Some v => Ok v | None => Panic end)
          else rules_loop_c m eft_tok ptoks sc0 st' rest
        | Err e => Err e
        | Panic => Panic
        end
    end.

  Definition enforce_core_c (enabled : bool) (md : model) (mexprs : list (text * expr))
             (rk pk ek mk eft_tok : text) (rvals : list value) : outcome bool :=
    if negb enabled then Ok true
    else
      match get_ast md s_r rk, get_ast md s_p pk, get_ast md s_m mk, get_ast md s_e ek with
      | Some r_ast, Some p_ast, Some m_ast, Some e_ast =>
        if negb (Nat.eqb (length (a_tokens r_ast)) (length rvals)) then Err ERequest
        else
          let sc0 := bind (a_tokens r_ast) rvals [] in
          let rules := a_policy p_ast in
          match new_stream (a_value e_ast) (Nat.max (length rules) 1) with
          | None => Panic
          | Some st =>
            match assoc mk mexprs with
            | None => Err EEvalc
            | Some m =>
              match rules with
              | [] =>
                let sc := bind (a_tokens p_ast) (map (fun _ => VStr []) (a_tokens p_ast)) sc0 in
                match eval_matcher_c m sc with
                | Ok b =>
                  match next (push st (if b then Allow else Indet)) with
                  | Some v => Ok v
                  | None => Panic
                  end
                | Err e => Err e
                | Panic => Panic
                end
              | _ => rules_loop_c m eft_tok (a_tokens p_ast) sc0 st rules
              end
            end
          end
      | _, _, _, _ => Err EModel
      end.
End EnforceC.

Definition enforce_with (ptab : text -> option expr)
           (call : text -> list value -> option eres) (s : estate) (rv : list value)
  : outcome bool :=
  enforce_core_c ptab call (e_enabled s) (e_model s) (e_mexprs s)
                 s_r s_p s_e s_m (tok s_p s_eft) rv.

(* THE SPECIFICATION DECISION *)
Definition enforce_indep (ptab : text -> option expr) (s : estate) (rv : list value) :=
  enforce_with ptab (call_fn_indep s) s rv.
Definition enforce_probe (ptab : text -> option expr) (s : estate) (rv : list value) :=
  enforce_with ptab (call_fn_probe s) s rv.

(* ---------- executable predicates for checking the implementation ---------- *)
Definition outcome_eqb (a b : outcome bool) : bool :=
  match a, b with
  | Ok x, Ok y => Bool.eqb x y
  | Err x, Err y => errc_eqb x y
  | Panic, Panic => true
  | _, _ => false
  end.

(* C19 on one observed decision: it is the per-definition decision *)
Definition c19_pred (ptab : text -> option expr) (s : estate) (rv : list value)
           (observed : outcome bool) : bool :=
  outcome_eqb observed (enforce_indep ptab s rv).

Definition is_panic (o : outcome bool) : bool := match o with Panic => true | _ => false end.

(* the shared manager holds exactly the union of the definitions' links, in
   every domain (true right after a successful build_role_links; NOT an
   invariant of the code: see shared_rm_remove_refuted) *)
Definition dom_edges (m : rmgr) (dk : text) : links :=
  match assoc dk m with Some g => edges g | None => [] end.
Definition dkeys (s : estate) : list text :=
  map fst (f_rm (e_fs s)) ++ flat_map (fun kl => map fst (snd kl)) (all_def_links s).
Definition graph_in_sync (s : estate) : bool :=
  forallb (fun dk => seteqb peqb (dom_edges (f_rm (e_fs s)) dk) (union_links s dk)) (dkeys s).

(* classifier on (state, request).  crosstalk_case: evaluating the request
   under the per-definition semantics performs a role call that the union of
   all definitions' links answers differently.  known_shared_rm_case: that, or
   the shared manager is out of sync with the stored rules (which a removal
   under one definition causes when another definition stores the same link;
   it is also the normal situation while auto-build is off).  A decision that
   differs from enforce_indep on a case NOT classified here is a new finding
   (theorem independent_partial). *)
Definition crosstalk_case (ptab : text -> option expr) (s : estate) (rv : list value) : bool :=
  is_panic (enforce_probe ptab s rv).
Definition known_shared_rm_case (ptab : text -> option expr) (s : estate) (rv : list value) : bool :=
  negb (graph_in_sync s) || crosstalk_case ptab s rv.

(* ---------- state-level class: the definitions' vocabularies overlap ---------- *)
(* names of a definition, tagged with the domain key *)
Definition vocab (l : tlinks) : list (text * text) :=
  flat_map (fun x => [(fst x, fst (snd x)); (fst x, snd (snd x))]) l.

Definition disjointb (v w : list (text * text)) : bool :=
  forallb (fun x => negb (memb peqb x w)) v.

Fixpoint pairwise_disjoint (vs : list (list (text * text))) : bool :=
  match vs with
  | [] => true
  | v :: r => forallb (disjointb v) r && pairwise_disjoint r
  end.

Fixpoint nodupb (l : list text) : bool :=
  match l with
  | [] => true
  | x :: r => negb (memb teqb x r) && nodupb r
  end.

(* some name occurs, in the same domain, in links of two different
   definitions (this includes the same link asserted twice), or two
   definitions carry the same key *)
Definition Known_shared_rm (s : estate) : bool :=
  negb (nodupb (map fst (all_def_links s)) &&
        pairwise_disjoint (map (fun kl => vocab (snd kl)) (all_def_links s))).

(* every role function that a call can reach is bound to the enforcer's current
   manager (entries shadowed by a newer registration do not matter) *)
Definition all_cur (fs : fstate) : bool :=
  forallb (fun kh => match find_gfun (fst kh) (f_gfuns fs) with
                     | Some HCur => true
                     | _ => false
                     end) (f_gfuns fs).
