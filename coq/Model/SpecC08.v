(* Specification-side definitions for C08 (granting never revokes, revoking
   never grants). Executable definitions only. *)
From CV Require Import Model.Base Model.Effector Model.RoleGraph Model.PathMatch
     Model.Expr Model.Enforce Model.Engine.

(* ---------- the matcher class ---------- *)
Section NegFree.
  (* names of the registered role functions (g, g2, ...) *)
  Variable gn : list text.

  (* no call of a role function and no eval(): the value does not depend on
     the role graph at all (negation is harmless here) *)
  Fixpoint gfree (e : expr) : bool :=
    match e with
    | ELit _ | EVar _ _ => true
    | EProp a _ | ENot a => gfree a
    | EEq a b | ENeq a b | ECmp _ a b | EAnd a b | EOr a b => gfree a && gfree b
    | EIn a xs => gfree a && forallb gfree xs
    | ECall f args => negb (memb teqb f gn) && forallb gfree args
    | EEval _ _ => false
    end.

  (* role calls occur only positively: under &&, ||, and never below ==, !=,
     a comparison, `in`, a negation or as an argument of another call.
     (`g(a,b) == false` is a negation in disguise, hence the operands of ==
     and `in` must be graph-independent.) *)
  Fixpoint negfree_g (e : expr) : bool :=
    gfree e ||
    match e with
    | ELit _ | EVar _ _ => true
    | EProp a _ => negfree_g a
    | EAnd a b | EOr a b => negfree_g a && negfree_g b
    | ECall f args => forallb gfree args
    | EEq _ _ | EIn _ _ | ENeq _ _ | ECmp _ _ _ | ENot _ | EEval _ _ => false
    end.
End NegFree.

(* the purely syntactic class of the property statement: no !, !=, <, <=, >,
   >=, eval() anywhere; operands of ==, `in` and call arguments contain no
   call at all *)
Fixpoint callfree (e : expr) : bool :=
  match e with
  | ELit _ | EVar _ _ => true
  | EProp a _ => callfree a
  | EEq a b | EAnd a b | EOr a b => callfree a && callfree b
  | EIn a xs => callfree a && forallb callfree xs
  | ECall _ _ | ENeq _ _ | ECmp _ _ _ | ENot _ | EEval _ _ => false
  end.

Fixpoint negfree (e : expr) : bool :=
  match e with
  | ELit _ | EVar _ _ => true
  | EProp a _ => negfree a
  | EEq a b => callfree a && callfree b
  | EAnd a b | EOr a b => negfree a && negfree b
  | EIn a xs => callfree a && forallb callfree xs
  | ECall _ args => forallb callfree args
  | ENeq _ _ | ECmp _ _ _ | ENot _ | EEval _ _ => false
  end.

Definition gnames (fs : fstate) : list text := map (fun kh => fst (fst kh)) (f_gfuns fs).

Definition plain_matcher (s : estate) : option expr := assoc s_m (e_mexprs s).

Definition matcher_negfree (s : estate) : bool :=
  match plain_matcher s with
  | Some m => negfree_g (gnames (e_fs s)) m
  | None => true
  end.

Definition effect_rule (s : estate) : option erule :=
  match get_ast (e_model s) s_e s_e with
  | Some e => parse_erule (a_value e)
  | None => None
  end.

Definition is_allow_override (s : estate) : bool :=
  match effect_rule s with Some AllowOverride => true | _ => false end.

(* a p rule whose effect column says "deny" *)
Definition deny_rule (s : estate) (r : rule) : bool :=
  match get_ast (e_model s) s_p s_p with
  | Some p => match index_of (tok s_p s_eft) (a_tokens p) with
              | Some j => teqb (nth j r []) s_deny
              | None => false
              end
  | None => false
  end.

(* ---------- hierarchies below the depth limit ---------- *)
Definition link_names (l : links) : list text := map fst l ++ map snd l.

(* every reachable pair is reachable in at most maxd - 1 steps *)
Definition shallowb (maxd : nat) (l : links) : bool :=
  forallb (fun a =>
    forallb (fun b => implb (reachable l a b) (reach_within l (maxd - 1) a b)) (link_names l))
          (link_names l).

Definition shallow_rm (maxd : nat) (m : rmgr) : bool :=
  forallb (fun kg => shallowb maxd (edges (snd kg))) m.

Definition shallow_state (s : estate) : bool :=
  shallow_rm (f_rm_max (e_fs s)) (f_rm (e_fs s)).

(* ---------- the property on observed decisions ---------- *)
Definition is_grant (o : outcome bool) : bool := match o with Ok true => true | _ => false end.
Definition is_denial (o : outcome bool) : bool := match o with Ok false => true | _ => false end.

Fixpoint forallb2 {A B} (f : A -> B -> bool) (l1 : list A) (l2 : list B) : bool :=
  match l1, l2 with
  | [], [] => true
  | x :: r1, y :: r2 => f x y && forallb2 f r1 r2
  | _, _ => false
  end.

(* what a single step claims about the decisions of a fixed list of requests,
   taken before and after it *)
Inductive c08_kind :=
| KGrow      (* allow rule / link added: no grant becomes a denial *)
| KShrink    (* allow rule / link removed: no denial becomes a grant *)
| KGrowStrict   (* the same when no evaluation error occurs: grants stay grants *)
| KShrinkStrict (* denials stay denials *).

Definition c08_pred (k : c08_kind) (before after : list (outcome bool)) : bool :=
  match k with
  | KGrow => forallb2 (fun b a => implb (is_grant b) (negb (is_denial a))) before after
  | KShrink => forallb2 (fun b a => implb (is_denial b) (negb (is_grant a))) before after
  | KGrowStrict => forallb2 (fun b a => implb (is_grant b) (is_grant a)) before after
  | KShrinkStrict => forallb2 (fun b a => implb (is_denial b) (is_denial a)) before after
  end.
