(* Model of src/rbac/default_role_manager.rs (DefaultRoleManager without
   matching functions): per-domain directed graph, bounded BFS with the
   queue-drain depth counter. Executable definitions only. *)
From CV Require Import Model.Base.

(* edges newest-first: petgraph's StableGraph links a new edge at the head of
   the adjacency lists and unlinks a removed one in place, so the successor
   order of a node is "most recently added first" among present edges *)
Record dgraph := { nodes : list text; edges : list (text * text) }.
Definition empty_graph : dgraph := {| nodes := []; edges := [] |}.

(* domain name -> graph; None is the fixed default domain *)
Definition rmgr := list (text * dgraph).
Definition DEFAULT_DOMAIN : text := T "DEFAULT".
Definition dom_key (d : option text) : text :=
  match d with Some x => x | None => DEFAULT_DOMAIN end.

Definition peqb (a b : text * text) : bool := teqb (fst a) (fst b) && teqb (snd a) (snd b).
Definition has_node (g : dgraph) (n : text) : bool := memb teqb n (nodes g).
Definition has_edge (g : dgraph) (a b : text) : bool := memb peqb (a, b) (edges g).

Definition graph_of (m : rmgr) (d : option text) : option dgraph := assoc (dom_key d) m.

(* get_or_create_role: creates the domain's graph and the node when absent *)
Definition add_node (g : dgraph) (n : text) : dgraph :=
  if has_node g n then g else {| nodes := nodes g ++ [n]; edges := edges g |}.

(* default_role_manager.rs:184-209 *)
Definition g_add_link (g : dgraph) (a b : text) : dgraph :=
  let g2 := add_node (add_node g a) b in
  if has_edge g2 a b then g2 else {| nodes := nodes g2; edges := (a, b) :: edges g2 |}.

Definition add_link (m : rmgr) (a b : text) (d : option text) : rmgr :=
  if teqb a b then m
  else
    let g := match graph_of m d with Some g => g | None => empty_graph end in
    assoc_set (dom_key d) (g_add_link g a b) m.

(* default_role_manager.rs:220-250; false = Err(RbacError::NotFound) *)
Definition g_del_link (g : dgraph) (a b : text) : dgraph :=
  {| nodes := nodes g; edges := filter (fun e => negb (peqb e (a, b))) (edges g) |}.

Definition delete_link (m : rmgr) (a b : text) (d : option text) : rmgr * bool :=
  if teqb a b then (m, true) else
  match graph_of m d with
  | None => (m, false)
  | Some g =>
    if has_node g a && has_node g b
    then (assoc_set (dom_key d) (g_del_link g a b) m, true)
    else (m, false)
  end.

Definition rm_clear (m : rmgr) : rmgr := [].

(* ---- the BFS iterator (matching_bfs::Bfs), without match edges ---- *)
Definition succs (g : dgraph) (n : text) : list text :=
  map snd (filter (fun e => teqb (fst e) n) (edges g)).
Definition preds (g : dgraph) (n : text) : list text :=
  map fst (filter (fun e => teqb (snd e) n) (edges g)).

(* successors not yet discovered, in order; each is marked as it is seen *)
Fixpoint discover (ss disc : list text) : list text :=
  match ss with
  | [] => []
  | s :: r => if memb teqb s disc then discover r disc else s :: discover r (s :: disc)
  end.

(* returns the nodes yielded by Bfs::next, in order *)
Fixpoint bfs_visit (fuel : nat) (g : dgraph) (maxd : nat)
         (q disc : list text) (depth rem : nat) : list text :=
  match fuel with
  | 0 => []
  | S fuel' =>
    if Nat.leb maxd depth then []
    else match q with
         | [] => []
         | v :: q' =>
           let rem1 := rem - 1 in
           let depth' := if Nat.eqb rem1 0 then depth + 1 else depth in
           let nw := discover (succs g v) disc in
           v :: bfs_visit fuel' g maxd (q' ++ nw) (disc ++ nw) depth' (rem1 + length nw)
         end
  end.

Definition bfs_from (g : dgraph) (maxd : nat) (a : text) : list text :=
  bfs_visit (S (length (nodes g))) g maxd [a] [a] 0 1.

(* default_role_manager.rs:252-325 *)
Definition has_link (maxd : nat) (m : rmgr) (a b : text) (d : option text) : bool :=
  if teqb a b then true
  else match graph_of m d with
       | None => false
       | Some g => if has_node g a then memb teqb b (bfs_from g maxd a) else false
       end.

(* default_role_manager.rs:327-387; the code returns these as sets *)
Definition get_roles (m : rmgr) (n : text) (d : option text) : list text :=
  match graph_of m d with
  | None => []
  | Some g => if has_node g n then succs g n else []
  end.
Definition get_users (m : rmgr) (n : text) (d : option text) : list text :=
  match graph_of m d with
  | None => []
  | Some g => if has_node g n then preds g n else []
  end.

(* ---- histories ---- *)
Inductive lop :=
| LAdd (a b : text) (d : option text)
| LDel (a b : text) (d : option text)
| LClear.

Definition lstep (m : rmgr) (o : lop) : rmgr * bool :=
  match o with
  | LAdd a b d => (add_link m a b d, true)
  | LDel a b d => delete_link m a b d
  | LClear => (rm_clear m, true)
  end.

Definition lrun (h : list lop) : rmgr := fold_left (fun m o => fst (lstep m o)) h [].

(* ---- specification: a set of links per domain, no graph, no BFS ---- *)
Definition links := list (text * text).          (* used as a set *)
Definition lset_add (l : links) (p : text * text) : links := if memb peqb p l then l else p :: l.
Definition lset_del (l : links) (p : text * text) : links := filter (fun e => negb (peqb e p)) l.

Fixpoint spec_links (h : list lop) (dk : text) (acc : links) : links :=
  match h with
  | [] => acc
  | LAdd a b d :: h' =>
    spec_links h' dk (if teqb (dom_key d) dk && negb (teqb a b) then lset_add acc (a, b) else acc)
  | LDel a b d :: h' =>
    spec_links h' dk (if teqb (dom_key d) dk then lset_del acc (a, b) else acc)
  | LClear :: h' => spec_links h' dk []
  end.

(* nodes reachable from a in at most k steps *)
Definition lsuccs (l : links) (n : text) : list text :=
  map snd (filter (fun e => teqb (fst e) n) l).
(* append the elements of xs not yet present (keeps the list duplicate-free) *)
Fixpoint add_new (xs acc : list text) : list text :=
  match xs with
  | [] => acc
  | x :: r => if memb teqb x acc then add_new r acc else add_new r (acc ++ [x])
  end.
Fixpoint within (l : links) (k : nat) (a : text) : list text :=
  match k with
  | 0 => [a]
  | S k' => let w := within l k' a in add_new (flat_map (lsuccs l) w) w
  end.
Definition reach_within (l : links) (k : nat) (a b : text) : bool := memb teqb b (within l k a).
(* a simple path never needs more steps than there are links *)
Definition reachable (l : links) (a b : text) : bool := reach_within l (length l) a b.

(* set equality of text lists / link lists, as booleans *)
Definition subsetb {A} (eqb : A -> A -> bool) (x y : list A) : bool :=
  forallb (fun e => memb eqb e y) x.
Definition seteqb {A} (eqb : A -> A -> bool) (x y : list A) : bool :=
  subsetb eqb x y && subsetb eqb y x.

(* ---- observation + property predicate ---- *)
Inductive lquery :=
| QHas (a b : text) (d : option text)
| QRoles (n : text) (d : option text)
| QUsers (n : text) (d : option text).

Inductive lanswer := ABool (b : bool) | ANames (l : list text).

Definition answer (maxd : nat) (m : rmgr) (q : lquery) : lanswer :=
  match q with
  | QHas a b d => ABool (has_link maxd m a b d)
  | QRoles n d => ANames (get_roles m n d)
  | QUsers n d => ANames (get_users m n d)
  end.

(* C03 on one answer, against the specification link set only:
   has_link: true if reflexive or reachable in < maxd steps; false if not
   reachable at all; unconstrained in between (beyond the limit);
   listings: exactly the out-/in-neighbours. *)
Definition c03_pred (maxd : nat) (h : list lop) (q : lquery) (r : lanswer) : bool :=
  match q, r with
  | QHas a b d, ABool v =>
    let l := spec_links h (dom_key d) [] in
    if teqb a b then v
    else if reach_within l (maxd - 1) a b then v
    else if reachable l a b then true
    else negb v
  | QRoles n d, ANames ns =>
    let l := spec_links h (dom_key d) [] in seteqb teqb ns (lsuccs l n)
  | QUsers n d, ANames ns =>
    let l := spec_links h (dom_key d) [] in
    seteqb teqb ns (map fst (filter (fun e => teqb (snd e) n) l))
  | _, _ => false
  end.
