(* Specification-side definitions for C13 (RBAC queries agree with
   enforcement) and the scope predicates shared with C07.
   Executable definitions only. *)
From CV Require Import Model.Base Model.Effector Model.RoleGraph Model.PathMatch
     Model.Expr Model.Enforce Model.Engine.

(* ---------- decidable equality on matcher ASTs ---------- *)
Fixpoint expr_eqb (a b : expr) {struct a} : bool :=
  match a, b with
  | ELit x, ELit y => seqb x y
  | EVar p f, EVar q g => teqb p q && teqb f g
  | EProp a1 f, EProp b1 g => expr_eqb a1 b1 && teqb f g
  | EEq a1 a2, EEq b1 b2 => expr_eqb a1 b1 && expr_eqb a2 b2
  | ENeq a1 a2, ENeq b1 b2 => expr_eqb a1 b1 && expr_eqb a2 b2
  | ECmp c a1 a2, ECmp c' b1 b2 =>
    (match c, c' with CLt, CLt | CLe, CLe | CGt, CGt | CGe, CGe => true | _, _ => false end)
    && expr_eqb a1 b1 && expr_eqb a2 b2
  | EAnd a1 a2, EAnd b1 b2 => expr_eqb a1 b1 && expr_eqb a2 b2
  | EOr a1 a2, EOr b1 b2 => expr_eqb a1 b1 && expr_eqb a2 b2
  | ENot a1, ENot b1 => expr_eqb a1 b1
  | EIn a1 xs, EIn b1 ys => expr_eqb a1 b1 && ((fix go (l1 l2 : list expr) {struct l1} : bool :=
          match l1, l2 with
          | [], [] => true
          | x :: l1', y :: l2' => expr_eqb x y && go l1' l2'
          | _, _ => false
          end) xs ys)
  | ECall f xs, ECall g ys => teqb f g && ((fix go (l1 l2 : list expr) {struct l1} : bool :=
          match l1, l2 with
          | [], [] => true
          | x :: l1', y :: l2' => expr_eqb x y && go l1' l2'
          | _, _ => false
          end) xs ys)
  | EEval p f, EEval q g => teqb p q && teqb f g
  | _, _ => false
  end.

(* ---------- the two RBAC configurations of the scope ---------- *)
Definition ev_ (p f : string) : expr := EVar (T p) (T f).

(* m = g(r.sub, p.sub) && r.obj == p.obj && r.act == p.act *)
Definition rbac_matcher : expr :=
  EAnd (EAnd (ECall (T "g") [ev_ "r" "sub"; ev_ "p" "sub"])
             (EEq (ev_ "r" "obj") (ev_ "p" "obj")))
       (EEq (ev_ "r" "act") (ev_ "p" "act")).

(* m = g(r.sub, p.sub, r.dom) && r.dom == p.dom && r.obj == p.obj && r.act == p.act *)
Definition rbac_dom_matcher : expr :=
  EAnd (EAnd (EAnd (ECall (T "g") [ev_ "r" "sub"; ev_ "p" "sub"; ev_ "r" "dom"])
                   (EEq (ev_ "r" "dom") (ev_ "p" "dom")))
             (EEq (ev_ "r" "obj") (ev_ "p" "obj")))
       (EEq (ev_ "r" "act") (ev_ "p" "act")).

Definition r_toks3 : list text := map (tok s_r) [T "sub"; T "obj"; T "act"].
Definition p_toks3 : list text := map (tok s_p) [T "sub"; T "obj"; T "act"].
Definition r_toks4 : list text := map (tok s_r) [T "sub"; T "dom"; T "obj"; T "act"].
Definition p_toks4 : list text := map (tok s_p) [T "sub"; T "dom"; T "obj"; T "act"].
Definition p_toks5 : list text := p_toks4 ++ [tok s_p s_eft].

Definition toks_eqb : list text -> list text -> bool := list_eqb teqb.
Definition handle_is_cur (h : handle) : bool := match h with HCur => true | _ => false end.
Definition opt_is {A} (f : A -> bool) (o : option A) : bool :=
  match o with Some a => f a | None => false end.
Definition is_none {A} (o : option A) : bool := match o with None => true | Some _ => false end.

(* the shape of a configuration: request tokens, admissible policy tokens,
   admissible effect texts, one role definition g with `cnt` underscores read
   through the enforcer's current manager, the matcher AST, enforcement on *)
Definition scope_core (cnt : nat) (rt : list text) (pt_ok : list text -> bool)
           (e_ok : text -> bool) (m : expr) (s : estate) : bool :=
  let md := e_model s in
  opt_is (fun a => toks_eqb (a_tokens a) rt) (get_ast md s_r s_r) &&
  opt_is (fun a => pt_ok (a_tokens a)) (get_ast md s_p s_p) &&
  opt_is (fun a => Nat.eqb (count_us (a_value a)) cnt && handle_is_cur (a_handle a))
         (get_ast md s_g s_g) &&
  opt_is (fun a => e_ok (a_value a)) (get_ast md s_e s_e) &&
  opt_is (fun _ => true) (get_ast md s_m s_m) &&
  opt_is (fun e => expr_eqb e m) (assoc s_m (e_mexprs s)) &&
  opt_is handle_is_cur (find_gfun (T "g", cnt) (f_gfuns (e_fs s))) &&
  is_none (assoc (T "g") (f_ufuns (e_fs s))) &&
  e_enabled s.

Definition is_allow_override (v : text) : bool :=
  match parse_erule v with Some AllowOverride => true | _ => false end.
Definition is_erule (v : text) : bool :=
  match parse_erule v with Some _ => true | None => false end.

(* C13: plain RBAC and RBAC with domains, allow-override, no eft column *)
Definition rbac_eq (s : estate) : bool :=
  scope_core 2 r_toks3 (toks_eqb p_toks3) is_allow_override rbac_matcher s.
Definition rbac_dom_eq (s : estate) : bool :=
  scope_core 3 r_toks4 (toks_eqb p_toks4) is_allow_override rbac_dom_matcher s.
(* C07: RBAC with domains, any of the four effect rules, optional eft column *)
Definition rbac_dom_any (s : estate) : bool :=
  scope_core 3 r_toks4 (fun t => toks_eqb t p_toks4 || toks_eqb t p_toks5)
             is_erule rbac_dom_matcher s.

(* ---------- side conditions, as booleans ---------- *)
Definition edges_in (m : rmgr) (d : option text) : links :=
  match graph_of m d with Some g => edges g | None => [] end.

(* below the depth limit: whatever is reachable from a node with successors is
   reachable in at most maxd - 1 steps *)
Definition shallowb (maxd : nat) (m : rmgr) (d : option text) : bool :=
  let l := edges_in m d in
  Nat.ltb 0 maxd &&
  forallb (fun a => subsetb teqb (within l (length l) a) (within l (maxd - 1) a)) (map fst l).

(* every stored p/p rule has n fields *)
Definition p_arityb (n : nat) (s : estate) : bool :=
  forallb (fun r => Nat.eqb (length r) n) (m_get_policy (e_model s) s_p s_p).

(* the empty string is a wildcard in filtered listings and the policy value
   of the empty-store evaluation: names must be non-empty *)
Definition nonempty_names (s : estate) (u : text) (d : option text) : bool :=
  negb (memb teqb [] (u :: implicit_roles s u d)).

(* the role graph holds no link that is not a stored g/g rule *)
Definition links_mirrorb (s : estate) : bool :=
  forallb (fun e => rmem [fst e; snd e] (m_get_policy (e_model s) s_g s_g))
          (edges_in (f_rm (e_fs s)) None).

(* the same for a configuration with domains: a link of domain d is a stored
   rule [x; y; d] *)
Definition links_mirror_domb (s : estate) : bool :=
  forallb (fun kg => forallb (fun e => rmem [fst e; snd e; fst kg]
                                            (m_get_policy (e_model s) s_g s_g))
                             (edges (snd kg)))
          (f_rm (e_fs s)).

(* ... and exactly the links denoted by the stored g/g rules (see g_links) *)
Definition rule_links (grules : list rule) : links :=
  filter (fun e => negb (teqb (fst e) (snd e)))
         (map (fun r => (nth 0 r [], nth 1 r [])) grules).
Definition links_exactb (s : estate) : bool :=
  seteqb peqb (edges_in (f_rm (e_fs s)) None) (rule_links (m_get_policy (e_model s) s_g s_g)).

(* adapters whose incremental operations always report success *)
Fixpoint transparent (a : adapter) : bool :=
  match a with
  | ANull | AFile _ _ => true
  | AScripted i [] => transparent i
  | _ => false
  end.
Definition quiet_adapter (s : estate) : bool :=
  negb (e_auto_save s) || transparent (e_adapter s).

(* a rule selected by a filter *)
Definition fsel (idx : nat) (vals : list text) (r : rule) : bool :=
  match fmatch vals (skipn idx r) with Some true => true | _ => false end.

(* ---------- the executable predicate ---------- *)
(* links denoted by stored grouping rules (a self link is never stored in the
   graph) *)
Definition g_links (grules : list rule) : links :=
  filter (fun e => negb (teqb (fst e) (snd e)))
         (map (fun r => (nth 0 r [], nth 1 r [])) grules).

(* nodes reachable in at least one step *)
Definition reach1 (l : links) (u : text) : list text :=
  flat_map (fun v => within l (length l) v) (lsuccs l u).

Definition dec_eqb (a b : outcome bool) : bool :=
  match a, b with
  | Ok x, Ok y => Bool.eqb x y
  | Err x, Err y => errc_eqb x y
  | Panic, Panic => true
  | _, _ => false
  end.

(* observed for one user u of a plain RBAC configuration: the implicit roles
   (set), the implicit permissions (compared as a set: see the remark on
   multiplicities in Properties/C13.v), the stored g and p rules, and the
   decisions for a list of (obj, act) pairs *)
Definition c13_pred (u : text) (grules prules : list rule)
           (iroles : list text) (iperms : list rule)
           (decs : list ((text * text) * outcome bool)) : bool :=
  let l := g_links grules in
  let subjects := u :: reach1 l u in
  let expected := filter (fun r => memb teqb (hd [] r) subjects) prules in
  seteqb teqb iroles (reach1 l u) &&
  seteqb reqb iperms expected &&
  forallb (fun oa_dec =>
             let '((o, a), dec) := oa_dec in
             dec_eqb dec (Ok (existsb (fun r => reqb (tl r) [o; a]) expected)))
          decs.
