(* Executable instantiation of RoleGraphM.v for the correspondence run
   (matching functions by identifier) and the executable form of the
   pattern-aware C03 specification. *)
From CV Require Import Model.Base Model.RoleGraph Model.RoleGraphM Model.PathMatch.

(* the matching functions the harness can install (fn pointers on the Rust
   side): the crate's key_match / key_match2 / key_match3, and a harness-defined
   symmetric one (equal first byte) that creates Match edges in both directions *)
Inductive mfid := FKeyMatch | FKeyMatch2 | FKeyMatch3 | FFirstEq.

Definition first_eq (a b : text) : bool :=
  match a, b with
  | x :: _, y :: _ => Ascii.eqb x y
  | _, _ => false
  end.
Definition ob_false (o : option bool) : bool := match o with Some b => b | None => false end.
Definition mf_apply (i : mfid) : mfun :=
  match i with
  | FKeyMatch => key_match
  | FKeyMatch2 => fun a b => ob_false (key_match2 a b)
  | FKeyMatch3 => fun a b => ob_false (key_match3 a b)
  | FFirstEq => first_eq
  end.
(* all pairs of names are inside the modelled pattern class *)
Definition mf_supported (i : mfid) (names : list text) : bool :=
  match i with
  | FKeyMatch2 => forallb (fun a => forallb (fun b => is_some (key_match2 a b)) names) names
  | FKeyMatch3 => forallb (fun a => forallb (fun b => is_some (key_match3 a b)) names) names
  | _ => true
  end.

Inductive mop_i :=
| IAdd (a b : text) (d : option text)
| IDel (a b : text) (d : option text)
| IClear
| ISetFns (rf df : option mfid).

Definition mop_of_i (o : mop_i) : mop :=
  match o with
  | IAdd a b d => MAdd a b d
  | IDel a b d => MDel a b d
  | IClear => MClear
  | ISetFns rf df => MSetFns (option_map mf_apply rf) (option_map mf_apply df)
  end.

Definition mrun_i (h : list mop_i) : mrm * list bool :=
  let hm := map mop_of_i h in (mrun hm, mrun_flags empty_mrm hm).

(* ---- the executable specification on "pattern histories":
        [ISetFns (Some rf) None] first, then only adds and clears ---- *)
Fixpoint adds_only (h : list mop_i) : bool :=
  match h with
  | [] => true
  | IAdd _ _ _ :: r => adds_only r
  | IClear :: r => adds_only r
  | _ :: _ => false
  end.
Definition pattern_history (h : list mop_i) : option (mfid * list mop_i) :=
  match h with
  | ISetFns (Some rf) None :: r => if adds_only r then Some (rf, r) else None
  | _ => None
  end.

(* nodes (creation order) and links of one domain after an add/clear history *)
Fixpoint spec_nodes (h : list mop_i) (dk : text) (acc : list text) : list text :=
  match h with
  | [] => acc
  | IAdd a b d :: r =>
    spec_nodes r dk (if teqb (dom_key d) dk && negb (teqb a b) then add_new [a; b] acc else acc)
  | IClear :: r => spec_nodes r dk []
  | _ :: r => spec_nodes r dk acc
  end.
Fixpoint spec_mlinks (h : list mop_i) (dk : text) (acc : links) : links :=
  match h with
  | [] => acc
  | IAdd a b d :: r =>
    spec_mlinks r dk (if teqb (dom_key d) dk && negb (teqb a b) then lset_add acc (a, b) else acc)
  | IClear :: r => spec_mlinks r dk []
  | _ :: r => spec_mlinks r dk acc
  end.

Definition spec_start (f : mfun) (ns : list text) (a : text) : option text :=
  if memb teqb a ns then Some a else find (fun w => teqb w a || f a w) ns.

(* C03 extended to role patterns, on one has_link answer:
   reported true  => reflexive or pattern-reachable (any depth);
   pattern-reachable in fewer than maxd steps => reported true *)
Definition c03m_pred (maxd : nat) (h : list mop_i) (q : lquery) (r : lanswer) : option bool :=
  match pattern_history h with
  | None => None
  | Some (rf, adds) =>
    let f := mf_apply rf in
    match q, r with
    | QHas a b d, ABool v =>
      let dk := dom_key d in
      let ns := spec_nodes adds dk [] in
      let l := spec_mlinks adds dk [] in
      if teqb a b then Some v
      else match spec_start f ns a with
           | None => Some (negb v)
           | Some s =>
             if Nat.ltb 0 maxd && mreach_within f ns l (maxd - 1) s b then Some v
             else if mreach_within f ns l (length ns) s b then Some true
             else Some (negb v)
           end
    | _, _ => None
    end
  end.
