(* Model of src/rbac/default_role_manager.rs WITH role / domain matching
   functions (RoleManager::matching_fn): Link and Match edges, the three-part
   successor iterator of matching_bfs::bfs_iterator, pattern lookup of the
   start node, domain_has_role, matched_domains.  RoleGraph.v is the special
   case without matching functions (Proofs/RoleGraphMP.v proves that the two
   agree on every history).  Executable definitions only. *)
From CV Require Import Model.Base Model.RoleGraph.

(* an edge of the petgraph StableDiGraph<String, EdgeVariant>; the list is
   newest-first, which is the order of BOTH adjacency lists (add_edge links
   the new edge at the head of the source's outgoing and of the target's
   incoming list; remove_edge unlinks in place) *)
Inductive ekind := KLink | KMatch.
Definition ekind_eqb (a b : ekind) : bool :=
  match a, b with KLink, KLink | KMatch, KMatch => true | _, _ => false end.
Record medge := { e_src : text; e_dst : text; e_kind : ekind }.
Record mgraph := { m_nodes : list text;            (* node-index order = creation order *)
                   m_edges : list medge }.
Definition empty_mgraph : mgraph := {| m_nodes := []; m_edges := [] |}.

Definition mfun := text -> text -> bool.

Record mrm := { r_doms : list (text * mgraph);     (* all_domains (+ indices: same key set) *)
                r_rfn : option mfun;               (* role_matching_fn *)
                r_dfn : option mfun }.             (* domain_matching_fn *)
Definition empty_mrm : mrm := {| r_doms := []; r_rfn := None; r_dfn := None |}.

Definition m_has_node (g : mgraph) (n : text) : bool := memb teqb n (m_nodes g).

(* petgraph find_edge(a, b): first edge of a's outgoing list with target b *)
Definition m_find_edge (g : mgraph) (a b : text) : option ekind :=
  match filter (fun e => teqb (e_src e) a && teqb (e_dst e) b) (m_edges g) with
  | e :: _ => Some (e_kind e)
  | [] => None
  end.
Definition m_add_edge (g : mgraph) (a b : text) (k : ekind) : mgraph :=
  {| m_nodes := m_nodes g; m_edges := {| e_src := a; e_dst := b; e_kind := k |} :: m_edges g |}.
(* remove the first edge a -> b (the one find_edge returns) *)
Fixpoint remove_first_edge (a b : text) (l : list medge) : list medge :=
  match l with
  | [] => []
  | e :: r => if teqb (e_src e) a && teqb (e_dst e) b then r else e :: remove_first_edge a b r
  end.

(* link_if_matches(graph, f, not_pattern, maybe_pattern) *)
Definition link_if_matches (f : mfun) (g : mgraph) (np mp : text) : mgraph :=
  if negb (f mp np) then g
  else match m_find_edge g np mp with
       | Some KMatch => g
       | _ => m_add_edge g np mp KMatch
       end.

(* get_or_create_role on one domain's graph *)
Definition m_create_node (rf : option mfun) (g : mgraph) (n : text) : mgraph :=
  if m_has_node g n then g
  else
    let g1 := {| m_nodes := m_nodes g ++ [n]; m_edges := m_edges g |} in
    match rf with
    | None => g1
    | Some f =>
      fold_left (fun acc ex => link_if_matches f (link_if_matches f acc n ex) ex n)
                (filter (fun x => negb (teqb x n)) (m_nodes g)) g1
    end.

Definition mgraph_of (m : mrm) (dk : text) : mgraph :=
  match assoc dk (r_doms m) with Some g => g | None => empty_mgraph end.
Definition set_dom (m : mrm) (dk : text) (g : mgraph) : mrm :=
  {| r_doms := assoc_set dk g (r_doms m); r_rfn := r_rfn m; r_dfn := r_dfn m |}.

Definition m_add_link (m : mrm) (a b : text) (d : option text) : mrm :=
  if teqb a b then m
  else
    let dk := dom_key d in
    let g2 := m_create_node (r_rfn m) (m_create_node (r_rfn m) (mgraph_of m dk) a) b in
    let g3 := match m_find_edge g2 a b with
              | Some KLink => g2
              | _ => m_add_edge g2 a b KLink
              end in
    set_dom m dk g3.

(* matched_domains: the keys are returned in HashMap order; every user of the
   result is order-insensitive (any / union), so the stored order is used *)
Definition matched_domains (m : mrm) (d : option text) : list text :=
  let dk := dom_key d in
  match r_dfn m with
  | Some f => filter (fun k => f dk k) (map fst (r_doms m))
  | None => match assoc dk (r_doms m) with Some _ => [dk] | None => [] end
  end.

Definition domain_has_role (m : mrm) (n : text) (d : option text) : bool :=
  existsb (fun dk =>
             let g := mgraph_of m dk in
             m_has_node g n ||
             match r_rfn m with
             | Some f => existsb (fun w => f n w) (m_nodes g)
             | None => false
             end) (matched_domains m d).

Definition m_delete_link (m : mrm) (a b : text) (d : option text) : mrm * bool :=
  if teqb a b then (m, true)
  else if negb (domain_has_role m a d) || negb (domain_has_role m b d) then (m, false)
  else
    let dk := dom_key d in
    let g2 := m_create_node (r_rfn m) (m_create_node (r_rfn m) (mgraph_of m dk) a) b in
    let g3 := {| m_nodes := m_nodes g2; m_edges := remove_first_edge a b (m_edges g2) |} in
    (set_dom m dk g3, true).

Definition m_clear (m : mrm) : mrm := {| r_doms := []; r_rfn := r_rfn m; r_dfn := r_dfn m |}.
Definition m_set_fns (m : mrm) (rf df : option mfun) : mrm :=
  {| r_doms := r_doms m; r_rfn := rf; r_dfn := df |}.

(* ---- bfs_iterator ---- *)
Definition out_edges (g : mgraph) (n : text) : list medge := filter (fun e => teqb (e_src e) n) (m_edges g).
Definition in_edges (g : mgraph) (n : text) : list medge := filter (fun e => teqb (e_dst e) n) (m_edges g).
Definition is_link (e : medge) : bool := ekind_eqb (e_kind e) KLink.
Definition is_match (e : medge) : bool := ekind_eqb (e_kind e) KMatch.
Definition link_succs (g : mgraph) (n : text) : list text := map e_dst (filter is_link (out_edges g n)).
Definition match_succs (g : mgraph) (n : text) : list text := map e_dst (filter is_match (out_edges g n)).

Definition m_succs (withm : bool) (g : mgraph) (n : text) : list text :=
  let direct := link_succs g n in
  if negb withm then direct
  else
    direct
    ++ flat_map (fun x => match_succs g x) direct
    ++ flat_map (fun e => link_succs g (e_src e)) (filter is_match (in_edges g n)).

Fixpoint m_bfs_visit (fuel : nat) (withm : bool) (g : mgraph) (maxd : nat)
         (q disc : list text) (depth rem : nat) : list text :=
  match fuel with
  | 0 => []
  | S fuel' =>
    if Nat.leb maxd depth then []
    else match q with
         | [] => []
         | v :: q' =>
           let rem1 := rem - 1 in
           let depth' := if Nat.eqb rem1 0 then depth + 1 else depth in
           let nw := discover (m_succs withm g v) disc in
           v :: m_bfs_visit fuel' withm g maxd (q' ++ nw) (disc ++ nw) depth' (rem1 + length nw)
         end
  end.
Definition m_bfs_from (withm : bool) (g : mgraph) (maxd : nat) (a : text) : list text :=
  m_bfs_visit (S (length (m_nodes g))) withm g maxd [a] [a] 0 1.

Definition is_some_fn (o : option mfun) : bool := match o with Some _ => true | None => false end.
Definition ap_fn (o : option mfun) (a b : text) : bool := match o with Some f => f a b | None => false end.

(* the start node: the node of that name, else the first node (index order)
   that equals the name or is matched by it *)
Definition start_node (m : mrm) (g : mgraph) (n : text) : option text :=
  if m_has_node g n then Some n
  else find (fun w => teqb w n || ap_fn (r_rfn m) n w) (m_nodes g).

Definition m_has_link_in (maxd : nat) (m : mrm) (g : mgraph) (a b : text) : bool :=
  match start_node m g a with
  | None => false
  | Some s =>
    existsb (fun w => teqb w b || ap_fn (r_rfn m) w b)
            (m_bfs_from (is_some_fn (r_rfn m)) g maxd s)
  end.

Definition m_has_link (maxd : nat) (m : mrm) (a b : text) (d : option text) : bool :=
  if teqb a b then true
  else existsb (fun dk => m_has_link_in maxd m (mgraph_of m dk) a b) (matched_domains m d).

(* get_roles / get_users: sets *)
Definition first_matching_node (m : mrm) (g : mgraph) (n : text) : option text :=
  find (fun w => teqb w n || ap_fn (r_rfn m) n w) (m_nodes g).
Definition m_get_roles (m : mrm) (n : text) (d : option text) : list text :=
  flat_map (fun dk =>
              let g := mgraph_of m dk in
              match first_matching_node m g n with
              | Some s => m_succs (is_some_fn (r_rfn m)) g s
              | None => []
              end) (matched_domains m d).
Definition m_get_users (m : mrm) (n : text) (d : option text) : list text :=
  flat_map (fun dk =>
              let g := mgraph_of m dk in
              match first_matching_node m g n with
              | Some s => map e_src (in_edges g s)
              | None => []
              end) (matched_domains m d).

(* ---- histories ---- *)
Inductive mop :=
| MAdd (a b : text) (d : option text)
| MDel (a b : text) (d : option text)
| MClear
| MSetFns (rf df : option mfun).

Definition mstep (m : mrm) (o : mop) : mrm * bool :=
  match o with
  | MAdd a b d => (m_add_link m a b d, true)
  | MDel a b d => m_delete_link m a b d
  | MClear => (m_clear m, true)
  | MSetFns rf df => (m_set_fns m rf df, true)
  end.
Definition mrun (h : list mop) : mrm := fold_left (fun m o => fst (mstep m o)) h empty_mrm.
Fixpoint mrun_flags (m : mrm) (h : list mop) : list bool :=
  match h with
  | [] => []
  | o :: h' => let (m', b) := mstep m o in b :: mrun_flags m' h'
  end.

Definition manswer (maxd : nat) (m : mrm) (q : lquery) : lanswer :=
  match q with
  | QHas a b d => ABool (m_has_link maxd m a b d)
  | QRoles n d => ANames (m_get_roles m n d)
  | QUsers n d => ANames (m_get_users m n d)
  end.

(* embedding of a plain history *)
Definition mop_of (o : lop) : mop :=
  match o with LAdd a b d => MAdd a b d | LDel a b d => MDel a b d | LClear => MClear end.

(* ---- declarative specification of pattern-aware inheritance ----
   Over a set of Link pairs `l` and the node set `ns` of one domain, with role
   function f.  A Match edge x -> y stands for f y x (y is a pattern that x
   matches).  One BFS step from x reaches:
     y            when Link x y;
     y            when Link x z and f y z   (z's patterns);
     y            when f x w and Link w y   (links of the nodes x is a pattern... of) *)
Section Spec.
  Variable f : mfun.
  Variable ns : list text.
  Variable l : links.
  Definition mstep_succs (x : text) : list text :=
    let direct := lsuccs l x in
    direct
    ++ flat_map (fun z => filter (fun y => negb (teqb y z) && f y z) ns) direct
    ++ flat_map (fun w => lsuccs l w) (filter (fun w => negb (teqb w x) && f x w) ns).
  Fixpoint mwithin (k : nat) (a : text) : list text :=
    match k with
    | 0 => [a]
    | S k' => let w := mwithin k' a in add_new (flat_map mstep_succs w) w
    end.
  Definition mreach_within (k : nat) (a b : text) : bool :=
    existsb (fun w => teqb w b || f w b) (mwithin k a).
End Spec.
