(* C04 — the specification side: the textbook insertion-ordered set on
   `list rule`, the field filter, an ideal store indexed by (section, policy
   type), and the executable trace predicate `c04_check`.
   Nothing here mentions the model's m_* functions or `step`: only the types
   `op`, `rbac_op`, `outcome` and the section names are borrowed.
   Executable definitions only. *)
From CV Require Import Model.Base Model.Enforce Model.Engine.

(* ---------- ordered set of rules ---------- *)
Definition sp_mem (r : rule) (l : list rule) : bool := existsb (reqb r) l.

(* add r: present -> nothing, false; absent -> appended at the end, true *)
Definition sp_add (l : list rule) (r : rule) : list rule * bool :=
  if sp_mem r l then (l, false) else (l ++ [r], true).

(* the first occurrence of every element, in order *)
Fixpoint first_occ (rs : list rule) : list rule :=
  match rs with
  | [] => []
  | r :: rs' => r :: filter (fun x => negb (reqb x r)) (first_occ rs')
  end.

(* batch add: all-or-nothing; the empty batch and a batch containing a stored
   rule change nothing *)
Definition sp_add_many (l : list rule) (rs : list rule) : list rule * bool :=
  match rs with
  | [] => (l, false)
  | _ :: _ => if existsb (fun r => sp_mem r l) rs then (l, false)
              else (l ++ first_occ rs, true)
  end.

Definition sp_remove (l : list rule) (r : rule) : list rule * bool :=
  (filter (fun x => negb (reqb x r)) l, sp_mem r l).

(* batch remove: all-or-nothing; the empty batch and a batch containing an
   absent rule change nothing *)
Definition sp_remove_many (l : list rule) (rs : list rule) : list rule * bool :=
  match rs with
  | [] => (l, false)
  | _ :: _ => if forallb (fun r => sp_mem r l) rs
              then (filter (fun x => negb (sp_mem x rs)) l, true)
              else (l, false)
  end.

(* ---------- the field filter ---------- *)
(* vals.(i) is compared with rule.(idx+i), left to right; an empty value is a
   wildcard (the position is not even looked at).  Some true = every
   non-empty value equals its field; Some false = the first non-wildcard
   position that is not equal holds a different field; None = that position
   lies beyond the end of the rule (the implementation indexes out of
   bounds there). *)
Fixpoint sp_match (idx : nat) (vals : list text) (r : rule) : option bool :=
  match vals with
  | [] => Some true
  | v :: vs =>
    if teqb v [] then sp_match (S idx) vs r
    else match nth_error r idx with
         | None => None
         | Some f => if teqb f v then sp_match (S idx) vs r else Some false
         end
  end.
Definition sp_hit (idx : nat) (vals : list text) (r : rule) : bool :=
  match sp_match idx vals r with Some true => true | _ => false end.
Definition sp_oob (idx : nat) (vals : list text) (r : rule) : bool :=
  match sp_match idx vals r with None => true | _ => false end.

(* the rules selected by a filter; None = some stored rule is too short *)
Definition sp_select (idx : nat) (vals : list text) (l : list rule) : option (list rule) :=
  if existsb (sp_oob idx vals) l then None else Some (filter (sp_hit idx vals) l).

(* filtered removal: (remaining, flag, removed); an empty filter is a no-op *)
Definition sp_remove_filtered (l : list rule) (idx : nat) (vals : list text)
  : option (list rule * bool * list rule) :=
  match vals with
  | [] => Some (l, false, [])
  | _ :: _ =>
    if existsb (sp_oob idx vals) l then None
    else Some (filter (fun r => negb (sp_hit idx vals r)) l,
               existsb (sp_hit idx vals) l,
               filter (sp_hit idx vals) l)
  end.

(* ---------- the five basic operations on one list, uniformly ---------- *)
Inductive bop :=
| BAdd (r : rule)
| BAddMany (rs : list rule)
| BRemove (r : rule)
| BRemoveMany (rs : list rule)
| BFiltered (idx : nat) (vals : list text).

(* (new list, flag, rules handed to the role-link update); None = out of range *)
Definition sp_apply (b : bop) (l : list rule) : option (list rule * bool * list rule) :=
  match b with
  | BAdd r => Some (sp_add l r, [r])
  | BAddMany rs => Some (sp_add_many l rs, rs)
  | BRemove r => Some (sp_remove l r, [r])
  | BRemoveMany rs => Some (sp_remove_many l rs, rs)
  | BFiltered idx vals => sp_remove_filtered l idx vals
  end.

Definition bop_of (o : op) : option (text * text * bop) :=
  match o with
  | OAdd sec pt r => Some (sec, pt, BAdd r)
  | OAddMany sec pt rs => Some (sec, pt, BAddMany rs)
  | ORemove sec pt r => Some (sec, pt, BRemove r)
  | ORemoveMany sec pt rs => Some (sec, pt, BRemoveMany rs)
  | ORemoveFiltered sec pt idx vals => Some (sec, pt, BFiltered idx vals)
  | _ => None
  end.

(* the RBAC helpers as one or two management calls *)
Definition sp_dom_rule (u r : text) (d : option text) : rule :=
  match d with Some x => [u; r; x] | None => [u; r] end.
Definition rbac_ops (o : rbac_op) : op * option op :=
  match o with
  | RAddPermission u p => (OAdd s_p s_p (u :: p), None)
  | RAddPermissions u ps => (OAddMany s_p s_p (map (fun p => u :: p) ps), None)
  | RAddRole u r d => (OAdd s_g s_g (sp_dom_rule u r d), None)
  | RAddRoles u rs d => (OAddMany s_g s_g (map (fun r => sp_dom_rule u r d) rs), None)
  | RDeleteRole u r d => (ORemove s_g s_g (sp_dom_rule u r d), None)
  | RDeleteRoles u d =>
    (ORemoveFiltered s_g s_g 0 (match d with Some x => [u; []; x] | None => [u] end), None)
  | RDeleteUser n => (ORemoveFiltered s_g s_g 0 [n], Some (ORemoveFiltered s_p s_p 0 [n]))
  | RDeleteRoleAll n => (ORemoveFiltered s_g s_g 1 [n], Some (ORemoveFiltered s_p s_p 0 [n]))
  | RDeletePermission p => (ORemoveFiltered s_p s_p 1 p, None)
  | RDeletePermissionFor u p => (ORemove s_p s_p (u :: p), None)
  | RDeletePermissionsFor u => (ORemoveFiltered s_p s_p 0 [u], None)
  end.

(* ---------- distinct values of a column ---------- *)
(* keeps the LAST occurrence of every value *)
Fixpoint last_occ (l : list text) : list text :=
  match l with
  | [] => []
  | x :: l' => if memb teqb x l' then last_occ l' else x :: last_occ l'
  end.

(* ---------- duplicate-freeness as a boolean ---------- *)
Fixpoint nodupb {A} (eqb : A -> A -> bool) (l : list A) : bool :=
  match l with
  | [] => true
  | x :: l' => negb (memb eqb x l') && nodupb eqb l'
  end.
Definition am_invb (am : amap) : bool :=
  nodupb teqb (map fst am) && forallb (fun ka => nodupb reqb (a_policy (snd ka))) am.
Definition model_invb (md : model) : bool := forallb (fun sa => am_invb (snd sa)) md.

(* ---------- the ideal store ---------- *)
Definition ikey := (text * text)%type.
Definition ikeyb (a b : ikey) : bool := teqb (fst a) (fst b) && teqb (snd a) (snd b).
Definition ideal := list (ikey * list rule).

Fixpoint i_get (st : ideal) (k : ikey) : option (list rule) :=
  match st with
  | [] => None
  | (k', l) :: st' => if ikeyb k k' then Some l else i_get st' k
  end.
Fixpoint i_set (st : ideal) (k : ikey) (l : list rule) : ideal :=
  match st with
  | [] => []
  | (k', l') :: st' => if ikeyb k k' then (k', l) :: st' else (k', l') :: i_set st' k l
  end.
(* the listing of a whole section: `sec :: ptype :: rule`, types in order *)
Definition i_all (st : ideal) (sec : text) : list rule :=
  flat_map (fun e => if teqb (fst (fst e)) sec
                     then map (fun r => sec :: snd (fst e) :: r) (snd e) else []) st.

Definition sec_ok (sec : text) : bool := teqb sec s_p || teqb sec s_g.

(* the ideal store a model stands for: the lists of its p and g sections, in
   definition order (used to start a replay from an observed model) *)
Definition sec_entries (sec : text) (am : amap) : ideal :=
  map (fun ka => ((sec, fst ka), a_policy (snd ka))) am.
Definition sec_ideal (md : model) (sec : text) : ideal :=
  match assoc sec md with
  | Some am => sec_entries sec am
  | None => []
  end.
Definition ideal_of (md : model) : ideal := sec_ideal md s_p ++ sec_ideal md s_g.

Definition i_basic (st : ideal) (sec pt : text) (b : bop) : ideal * outcome bool :=
  match i_get st (sec, pt) with
  | None => (st, Ok false)
  | Some l => match sp_apply b l with
              | None => (st, Panic)
              | Some (l', flag, _) => (i_set st (sec, pt) l', Ok flag)
              end
  end.

Definition i_seq (ra : ideal * outcome bool) (f : ideal -> ideal * outcome bool)
  : ideal * outcome bool :=
  match ra with
  | (st, Ok a) => match f st with
                  | (st', Ok b) => (st', Ok (a || b))
                  | other => other
                  end
  | other => other
  end.

Definition i_op (st : ideal) (o : op) : option (ideal * outcome bool) :=
  match bop_of o with
  | Some (sec, pt, b) => if sec_ok sec then Some (i_basic st sec pt b) else None
  | None => None
  end.

(* one management call on the ideal store; None = not a management call *)
Definition ideal_step (st : ideal) (o : op) : option (ideal * outcome bool) :=
  match o with
  | ORbac r =>
    match rbac_ops r with
    | (o1, None) => i_op st o1
    | (o1, Some o2) =>
      match i_op st o1 with
      | None => None
      | Some ra => Some (i_seq ra (fun st' => match i_op st' o2 with
                                              | Some x => x | None => (st', Panic) end))
      end
    end
  | OClear => Some (map (fun e => (fst e, [])) st, Ok true)
  | _ => i_op st o
  end.

Definition outcome_eqb (a b : outcome bool) : bool :=
  match a, b with
  | Ok x, Ok y => Bool.eqb x y
  | Err x, Err y => errc_eqb x y
  | Panic, Panic => true
  | _, _ => false
  end.
Definition rules_eqb (a b : list rule) : bool := list_eqb reqb a b.

(* replay the ideal store along a trace of (call, observed result, observed
   get_all "p", observed get_all "g") and compare after every call *)
Fixpoint c04_check (st : ideal) (trace : list (op * outcome bool * list rule * list rule)) : bool :=
  match trace with
  | [] => true
  | (o, res, allp, allg) :: rest =>
    match ideal_step st o with
    | None => false
    | Some (st', exp) =>
      outcome_eqb res exp && rules_eqb allp (i_all st' s_p) && rules_eqb allg (i_all st' s_g)
      && c04_check st' rest
    end
  end.
Definition c04_pred := c04_check.
