(* Model of src/model/function_map.rs. Executable definitions only.
   Text level: key_match / key_get (after the D1 repair), the query cut of
   key_match5, and the pattern REWRITING pipelines of key_match2..5 and
   key_get2..3 (slash-star becomes slash-dot-star; the MAT_B / MAT_P / in-function
   regexes turn named segments into a non-slash-plus class, with or without a
   capture group). The rewritten text is then read as a regular expression of a
   small class (literal bytes, non-slash-plus with or without capture group,
   dot-star); anything else is None = outside the modelled grammar (never
   compared, only run for totality). The regex crate is third-party: amatch
   restates its semantics on that class (anchored match, leftmost-first
   captures); its tie to the crate is the correspondence run. *)
From CV Require Import Model.Base.

Definition star : ascii := "*"%char.
Definition slash : ascii := "/"%char.
Definition colon : ascii := ":"%char.
Definition lbrace : ascii := "{"%char.
Definition rbrace : ascii := "}"%char.
Definition qmark : ascii := "?"%char.
Definition lf : ascii := ascii_of_nat 10.

(* ------------------------------------------------------------------ *)
(* key_match / key_get                                                  *)
(* everything before the first '*', and whether there was one *)
Fixpoint before_star (p : text) : text * bool :=
  match p with
  | [] => ([], false)
  | c :: p' => if Ascii.eqb c star then ([], true)
               else let (pre, f) := before_star p' in (c :: pre, f)
  end.

Fixpoint is_prefix (pre s : text) : bool :=
  match pre, s with
  | [], _ => true
  | c :: pre', d :: s' => Ascii.eqb c d && is_prefix pre' s'
  | _ :: _, [] => false
  end.

Fixpoint strip_prefix (pre s : text) : option text :=
  match pre, s with
  | [], _ => Some s
  | c :: pre', d :: s' => if Ascii.eqb c d then strip_prefix pre' s' else None
  | _ :: _, [] => None
  end.

(* function_map.rs: key_match *)
Definition key_match (k1 k2 : text) : bool :=
  let (pre, found) := before_star k2 in
  if found then is_prefix pre k1 else teqb k1 k2.

(* function_map.rs: key_get *)
Definition key_get (k1 k2 : text) : text :=
  let (pre, found) := before_star k2 in
  if found then
    match strip_prefix pre k1 with
    | Some (c :: rest) => c :: rest
    | _ => []
    end
  else [].

(* ------------------------------------------------------------------ *)
(* the rewriting pipelines (text -> text)                               *)

(* str::replace of slash-star by slash-dot-star *)
Fixpoint slash_star (s : text) : text :=
  match s with
  | c :: ((d :: r) as s') =>
    if Ascii.eqb c slash && Ascii.eqb d star
    then slash :: "."%char :: star :: slash_star r
    else c :: slash_star s'
  | other => other
  end.

Definition ns_plus : text := T "[^/]+".
Definition ns_plus_cap : text := T "([^/]+)".
Definition ns_plus_cap_lazy : text := T "([^/]+?)".

(* MAT_B = `:[^/]*` replaced by `[^/]+`  (key_match2): a colon swallows the
   rest of its segment *)
Fixpoint mat_b (skip : bool) (s : text) : text :=
  match s with
  | [] => []
  | c :: r =>
    if skip then (if Ascii.eqb c slash then c :: mat_b false r else mat_b true r)
    else if Ascii.eqb c colon then ns_plus ++ mat_b true r
    else c :: mat_b false r
  end.

(* key_get2's regex `:[^/]+` (at least one character after the colon),
   replaced by `([^/]+)`; also returns the names (without the colon) *)
Fixpoint take_nonslash (s : text) : text * text :=
  match s with
  | [] => ([], [])
  | c :: r => if Ascii.eqb c slash then ([], s)
              else let (a, b) := take_nonslash r in (c :: a, b)
  end.
Fixpoint colon_names (skip : bool) (s : text) : text * list text :=
  match s with
  | [] => ([], [])
  | c :: r =>
    if skip then
      if Ascii.eqb c slash then let (t, ns) := colon_names false r in (c :: t, ns)
      else colon_names true r
    else if Ascii.eqb c colon then
      match fst (take_nonslash r) with
      | [] => let (t, ns) := colon_names false r in (c :: t, ns)   (* lone colon: no match *)
      | name => let (t, ns) := colon_names true r in (ns_plus_cap ++ t, name :: ns)
      end
    else let (t, ns) := colon_names false r in (c :: t, ns)
  end.

(* offset of the LAST '}' before the next '/' (greedy `[^/]*\}`), counted from
   the character after the '{'; None if there is none *)
Fixpoint last_close (s : text) (i : nat) (best : option nat) : option nat :=
  match s with
  | [] => best
  | c :: r => if Ascii.eqb c slash then best
              else last_close r (S i) (if Ascii.eqb c rbrace then Some i else best)
  end.
(* offset of the FIRST '}' at offset >= 1 before the next '/' (lazy `[^/]+?\}`) *)
Fixpoint first_close (s : text) (i : nat) : option nat :=
  match s with
  | [] => None
  | c :: r => if Ascii.eqb c slash then None
              else if Ascii.eqb c rbrace && Nat.leb 1 i then Some i
              else first_close r (S i)
  end.

(* MAT_P = `\{[^/]*\}` replaced by `[^/]+` (key_match3) *)
Fixpoint mat_p (skip : nat) (s : text) : text :=
  match s with
  | [] => []
  | c :: r =>
    match skip with
    | S n => mat_p n r
    | 0 =>
      if Ascii.eqb c lbrace then
        match last_close r 0 None with
        | Some k => ns_plus ++ mat_p (S k) r
        | None => c :: mat_p 0 r
        end
      else c :: mat_p 0 r
    end
  end.

(* `\{[^/]+?\}` (lazy) replaced by `rep`; returns the names inside the braces
   (key_get3, key_match4, key_match5) *)
Fixpoint brace_lazy (rep : text) (skip : nat) (s : text) : text * list text :=
  match s with
  | [] => ([], [])
  | c :: r =>
    match skip with
    | S n => brace_lazy rep n r
    | 0 =>
      if Ascii.eqb c lbrace then
        match first_close r 0 with
        | Some k => let (t, ns) := brace_lazy rep (S k) r in (rep ++ t, firstn k r :: ns)
        | None => let (t, ns) := brace_lazy rep 0 r in (c :: t, ns)
        end
      else let (t, ns) := brace_lazy rep 0 r in (c :: t, ns)
    end
  end.

(* Regex::new(r"\{").replace_all(.., "\\{")  (key_get3) *)
Fixpoint escape_lbrace (s : text) : text :=
  match s with
  | [] => []
  | c :: r => if Ascii.eqb c lbrace then "\"%char :: c :: escape_lbrace r else c :: escape_lbrace r
  end.

Definition anchor (s : text) : text := "^"%char :: s ++ ["$"%char].

Definition rewrite_km2 (p : text) : text := anchor (mat_b false (slash_star p)).
Definition rewrite_km3 (p : text) : text := anchor (mat_p 0 (slash_star p)).
Definition rewrite_kg2 (p : text) : text * list text :=
  let (t, ns) := colon_names false (slash_star p) in (anchor t, ns).
Definition rewrite_kg3 (p : text) : text * list text :=
  let (t, ns) := brace_lazy ns_plus_cap_lazy 0 (slash_star p) in (anchor (escape_lbrace t), ns).
Definition rewrite_km4 (p : text) : text * list text :=
  let (t, ns) := brace_lazy ns_plus_cap 0 (slash_star p) in (anchor t, ns).
Definition rewrite_km5 (p : text) : text := anchor (fst (brace_lazy ns_plus 0 (slash_star p))).

(* ------------------------------------------------------------------ *)
(* the regular expressions those texts denote, for the supported class  *)
Inductive atom :=
| AByte (b : ascii)                    (* a literal byte *)
| ASeg (cap : bool) (lazy : bool)      (* [^/]+ , ([^/]+) , ([^/]+?) *)
| AAny.                                (* .*  (any characters except line feed) *)

(* bytes that stand for themselves in a regular expression *)
Definition is_plain (c : ascii) : bool :=
  let n := nat_of_ascii c in
  (Nat.leb 48 n && Nat.leb n 57) || (Nat.leb 65 n && Nat.leb n 90) ||
  (Nat.leb 97 n && Nat.leb n 122) || Nat.eqb n 95 || Nat.eqb n 45 || Nat.eqb n 47 ||
  Nat.eqb n 58 || Nat.eqb n 61 || Nat.eqb n 37 || Nat.eqb n 38 || Nat.eqb n 126 ||
  Nat.leb 128 n.

(* reads the body of a rewritten pattern (between ^ and $); None = not in the class *)
Fixpoint parse_atoms (fuel : nat) (s : text) : option (list atom) :=
  match fuel with
  | 0 => None
  | S f =>
    match s with
    | [] => Some []
    | _ =>
      match strip_prefix ns_plus_cap_lazy s with
      | Some r => option_map (cons (ASeg true true)) (parse_atoms f r)
      | None =>
        match strip_prefix ns_plus_cap s with
        | Some r => option_map (cons (ASeg true false)) (parse_atoms f r)
        | None =>
          match strip_prefix ns_plus s with
          | Some r => option_map (cons (ASeg false false)) (parse_atoms f r)
          | None =>
            match s with
            | c :: d :: r =>
              if Ascii.eqb c "."%char && Ascii.eqb d star then option_map (cons AAny) (parse_atoms f r)
              else if Ascii.eqb c "\"%char && Ascii.eqb d lbrace
                   then option_map (cons (AByte lbrace)) (parse_atoms f r)
              else if is_plain c then option_map (cons (AByte c)) (parse_atoms f (d :: r))
              else None
            | [c] => if is_plain c then Some [AByte c] else None
            | [] => Some []
            end
          end
        end
      end
    end
  end.

Definition parse_regex (t : text) : option (list atom) :=
  match t with
  | c :: r =>
    if Ascii.eqb c "^"%char then
      match rev r with
      | d :: body_rev => if Ascii.eqb d "$"%char then parse_atoms (S (length r)) (rev body_rev) else None
      | [] => None
      end
    else None
  | [] => None
  end.

(* anchored match with leftmost-first captures: greedy groups try the longest
   extent first, lazy ones the shortest; .* is greedy *)
Fixpoint amatch (p : list atom) : text -> option (list text) :=
  match p with
  | [] => fun k => match k with [] => Some [] | _ => None end
  | AByte b :: p' => fun k =>
    match k with
    | c :: k' => if Ascii.eqb b c then amatch p' k' else None
    | [] => None
    end
  | ASeg cap lz :: p' =>
    (* acc = the non-slash characters consumed so far (reversed), at least one *)
    let fin := fun (acc : text) (rest : text) =>
                 match amatch p' rest with
                 | Some cs => Some (if cap then rev acc :: cs else cs)
                 | None => None
                 end in
    (fix seg (acc : text) (k : text) : option (list text) :=
       match k with
       | c :: k' =>
         if Ascii.eqb c slash then (match acc with [] => None | _ => fin acc k end)
         else
           let acc' := c :: acc in
           if lz then
             (* shortest first: stop here if the rest matches, else extend *)
             match (match acc with [] => None | _ => fin acc k end) with
             | Some r => Some r
             | None => seg acc' k'
             end
           else
             (* longest first *)
             match seg acc' k' with
             | Some r => Some r
             | None => match acc with [] => None | _ => fin acc k end
             end
       | [] => match acc with [] => None | _ => fin acc [] end
       end) []
  | AAny :: p' =>
    (fix any (k : text) : option (list text) :=
       match k with
       | c :: k' =>
         if Ascii.eqb c lf then amatch p' k
         else match any k' with
              | Some r => Some r
              | None => amatch p' k
              end
       | [] => amatch p' []
       end)
  end.

Definition is_some {A} (o : option A) : bool := match o with Some _ => true | None => false end.

(* function_map.rs key_match2 / key_match3 / key_match5; None = pattern outside
   the modelled class *)
Definition key_match2 (k1 k2 : text) : option bool :=
  option_map (fun p => is_some (amatch p k1)) (parse_regex (rewrite_km2 k2)).
Definition key_match3 (k1 k2 : text) : option bool :=
  option_map (fun p => is_some (amatch p k1)) (parse_regex (rewrite_km3 k2)).
Fixpoint cut_query (k : text) : text :=
  match k with
  | [] => []
  | c :: r => if Ascii.eqb c qmark then [] else c :: cut_query r
  end.
Definition key_match5 (k1 k2 : text) : option bool :=
  option_map (fun p => is_some (amatch p (cut_query k1))) (parse_regex (rewrite_km5 k2)).

(* the i-th capture for the first name equal to v *)
Fixpoint cap_for (v : text) (names : list text) (caps : list text) : text :=
  match names, caps with
  | n :: ns, c :: cs => if teqb v n then c else cap_for v ns cs
  | _, _ => []
  end.
Definition key_get2 (k1 k2 v : text) : option text :=
  let (t, ns) := rewrite_kg2 k2 in
  option_map (fun p => match amatch p k1 with Some caps => cap_for v ns caps | None => [] end)
             (parse_regex t).
Definition key_get3 (k1 k2 v : text) : option text :=
  let (t, ns) := rewrite_kg3 k2 in
  option_map (fun p => match amatch p k1 with Some caps => cap_for v ns caps | None => [] end)
             (parse_regex t).

(* key_match4: repeated names must bind equal text *)
Fixpoint consistent (names caps : list text) (seen : list (text * text)) : bool :=
  match names, caps with
  | n :: ns, c :: cs =>
    match assoc n seen with
    | Some c0 => teqb c0 c && consistent ns cs seen
    | None => consistent ns cs ((n, c) :: seen)
    end
  | _, _ => true
  end.
(* None also where the source panics with "KeyMatch4: number of tokens is not
   equal to number of values": the key matches and the rewritten text has
   another number of capture groups than there are {name} tokens (a pattern
   that brings its own group, "/([^/]+)/{id}") *)
Definition key_match4 (k1 k2 : text) : option bool :=
  let (t, ns) := rewrite_km4 k2 in
  match parse_regex t with
  | Some p => match amatch p k1 with
              | Some caps => if Nat.eqb (length ns) (length caps)
                             then Some (consistent ns caps []) else None
              | None => Some false
              end
  | None => None
  end.

(* ------------------------------------------------------------------ *)
(* the documented meaning: patterns and keys as '/'-separated segments  *)
Inductive seg := SLit (w : text) | SNamed (n : text) | SStar.

Fixpoint intercalate (sep : text) (l : list text) : text :=
  match l with
  | [] => []
  | [x] => x
  | x :: l' => x ++ sep ++ intercalate sep l'
  end.
Definition render_seg2 (s : seg) : text :=
  match s with SLit w => w | SNamed n => colon :: n | SStar => [star] end.
Definition render_seg3 (s : seg) : text :=
  match s with SLit w => w | SNamed n => lbrace :: n ++ [rbrace] | SStar => [star] end.
(* a pattern is "/" ++ seg ++ "/" ++ seg ... *)
Definition render2 (p : list seg) : text := flat_map (fun s => slash :: render_seg2 s) p.
Definition render3 (p : list seg) : text := flat_map (fun s => slash :: render_seg3 s) p.

(* literal words and names: non-empty, over [A-Za-z0-9_-] *)
Definition is_safe_char (c : ascii) : bool :=
  let n := nat_of_ascii c in
  (Nat.leb 48 n && Nat.leb n 57) || (Nat.leb 65 n && Nat.leb n 90) ||
  (Nat.leb 97 n && Nat.leb n 122) || Nat.eqb n 95 || Nat.eqb n 45.
Definition safe_word (w : text) : bool :=
  match w with [] => false | _ => forallb is_safe_char w end.
(* the documented grammar: literal / named segments, '*' only as the last segment *)
Fixpoint grammar (p : list seg) : bool :=
  match p with
  | [] => true
  | [SStar] => true
  | SStar :: _ => false
  | SLit w :: p' => safe_word w && grammar p'
  | SNamed n :: p' => safe_word n && grammar p'
  end.

(* split a key "/a/b/c" into its segments ["a";"b";"c"]; None if it does not
   start with '/' (the empty key has no segments) *)
Fixpoint split_slash (k : text) (cur : text) : list text :=
  match k with
  | [] => [rev cur]
  | c :: r => if Ascii.eqb c slash then rev cur :: split_slash r [] else split_slash r (c :: cur)
  end.
Definition key_segments (k : text) : option (list text) :=
  match k with
  | c :: r => if Ascii.eqb c slash then Some (split_slash r []) else None
  | [] => None
  end.

Definition no_lf (k : text) : bool := negb (memb Ascii.eqb lf k).

(* the segment-wise specification, with the bindings of the named segments;
   '*' as last segment takes any remainder after its slash (possibly empty,
   possibly with further slashes), provided it has no line feed *)
Fixpoint spec_match (p : list seg) (ks : list text) : option (list (text * text)) :=
  match p, ks with
  | [], [] => Some []
  | [SStar], rest => match rest with
                     | [] => None      (* the slash before the star must be there *)
                     | _ => if forallb no_lf rest then Some [] else None
                     end
  | SLit w :: p', k :: ks' => if teqb w k then spec_match p' ks' else None
  | SNamed n :: p', k :: ks' =>
    match k with
    | [] => None
    | _ => match spec_match p' ks' with
           | Some b => Some ((n, k) :: b)
           | None => None
           end
    end
  | _, _ => None
  end.

Definition spec_km (p : list seg) (k : text) : bool :=
  match p with
  | [] => teqb k []          (* the empty pattern matches only the empty key *)
  | _ => match key_segments k with
         | Some ks => is_some (spec_match p ks)
         | None => false
         end
  end.
Definition spec_get (p : list seg) (k : text) (v : text) : text :=
  match key_segments k with
  | Some ks => match spec_match p ks with
               | Some b => match assoc v b with Some t => t | None => [] end
               | None => []
               end
  | None => []
  end.
(* key_match4: equal names bind equal text *)
Fixpoint bindings_consistent (b : list (text * text)) (seen : list (text * text)) : bool :=
  match b with
  | [] => true
  | (n, t) :: b' =>
    match assoc n seen with
    | Some t0 => teqb t0 t && bindings_consistent b' seen
    | None => bindings_consistent b' ((n, t) :: seen)
    end
  end.
Definition spec_km4 (p : list seg) (k : text) : bool :=
  match p with
  | [] => teqb k []
  | _ => match key_segments k with
         | Some ks => match spec_match p ks with
                      | Some b => bindings_consistent b []
                      | None => false
                      end
         | None => false
         end
  end.
Definition spec_km5 (p : list seg) (k : text) : bool := spec_km p (cut_query k).

(* regex_match(key1, key2) for the documented use (alternatives of literal
   words, optionally anchored): "^(GET|POST)$", "GET", "(GET)|(POST)", "^GET".
   Unanchored search. None = outside that class. *)
Fixpoint is_infix (w s : text) : bool :=
  match s with
  | [] => match w with [] => true | _ => false end
  | _ :: s' => is_prefix w s || is_infix w s'
  end.
Fixpoint split_bar (s : text) (cur : text) : list text :=
  match s with
  | [] => [rev cur]
  | c :: r => if Ascii.eqb c "|"%char then rev cur :: split_bar r [] else split_bar r (c :: cur)
  end.
Definition strip_parens (w : text) : text :=
  match w with
  | c :: r => if Ascii.eqb c "("%char then
                match rev r with
                | d :: m => if Ascii.eqb d ")"%char then rev m else w
                | [] => w
                end
              else w
  | [] => w
  end.
Definition regex_match_words (k pat : text) : option bool :=
  let (body, a_start) := match pat with
                         | c :: r => if Ascii.eqb c "^"%char then (r, true) else (pat, false)
                         | [] => (pat, false) end in
  let (body, a_end) := match rev body with
                       | d :: m => if Ascii.eqb d "$"%char then (rev m, true) else (body, false)
                       | [] => (body, false) end in
  (* an anchored BARE alternation ("^GET|POST$", "^GET|POST", "GET|POST$"): the
     anchors bind tighter than the bar, ("^GET")|("POST$"); outside the class *)
  if (a_start || a_end) && teqb (strip_parens body) body && Nat.ltb 1 (length (split_bar body []))
  then None else
  let body := if a_start || a_end then strip_parens body else body in
  let words := map strip_parens (split_bar body []) in
  if forallb safe_word words then
    Some (existsb (fun w =>
                     match a_start, a_end with
                     | true, true => teqb w k
                     | true, false => is_prefix w k
                     | false, true => is_prefix (rev w) (rev k)
                     | false, false => is_infix w k
                     end) words)
  else None.
