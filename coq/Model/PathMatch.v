(* Model of src/model/function_map.rs (text level). Executable definitions only.
   key_match / key_get follow the code after the D1 repair (prefix test on
   bytes instead of slicing key1 at an offset taken from key2). *)
From CV Require Import Model.Base.

Definition star : ascii := "*"%char.

(* everything before the first '*', and whether there was one *)
Fixpoint before_star (p : text) : text * bool :=
  match p with
  | [] => ([], false)
  | c :: p' => if Ascii.eqb c star then ([], true)
               else let (pre, f) := before_star p' in (c :: pre, f)
  end.

Fixpoint is_prefix (pre s : text) : bool :=
  match pre, s with
  | [], _ => true
  | c :: pre', d :: s' => Ascii.eqb c d && is_prefix pre' s'
  | _ :: _, [] => false
  end.

Fixpoint strip_prefix (pre s : text) : option text :=
  match pre, s with
  | [], _ => Some s
  | c :: pre', d :: s' => if Ascii.eqb c d then strip_prefix pre' s' else None
  | _ :: _, [] => None
  end.

(* function_map.rs: key_match *)
Definition key_match (k1 k2 : text) : bool :=
  let (pre, found) := before_star k2 in
  if found then is_prefix pre k1 else teqb k1 k2.

(* function_map.rs: key_get *)
Definition key_get (k1 k2 : text) : text :=
  let (pre, found) := before_star k2 in
  if found then
    match strip_prefix pre k1 with
    | Some (c :: rest) => c :: rest
    | _ => []
    end
  else [].
