(* The enforcer as one state machine: model-level set operations
   (default_model.rs), adapters (adapter/*.rs, at the level of parsed lines),
   the management sequencing of internal_api.rs, role-link maintenance
   (assertion.rs), load/save/clear and reconfiguration (enforcer.rs), the
   watcher event stream, and the read / RBAC query APIs.
   Follows /repo after the `fix:` commits listed in known_findings.json.
   Executable definitions only. *)
From CV Require Import Model.Base Model.Effector Model.RoleGraph Model.PathMatch
     Model.Expr Model.Enforce.

(* ---------- ordered sets of rules (hashlink LinkedHashSet) ---------- *)
Definition rmem (r : rule) (l : list rule) : bool := memb reqb r l.
Definition rremove (r : rule) (l : list rule) : list rule := filter (fun x => negb (reqb x r)) l.
(* LinkedHashSet::insert: an existing entry is moved to the back *)
Definition oset_insert (l : list rule) (r : rule) : list rule :=
  if rmem r l then rremove r l ++ [r] else l ++ [r].
Definition ins_new (l : list rule) (r : rule) : list rule := if rmem r l then l else l ++ [r].

(* ---------- model-level operations (default_model.rs:198-386) ---------- *)
Definition with_policy (a : assertion) (p : list rule) : assertion :=
  {| a_value := a_value a; a_tokens := a_tokens a; a_policy := p; a_handle := a_handle a |}.
Definition with_handle (a : assertion) (h : handle) : assertion :=
  {| a_value := a_value a; a_tokens := a_tokens a; a_policy := a_policy a; a_handle := h |}.

Definition m_add_policy (md : model) (sec pt : text) (r : rule) : model * bool :=
  match get_ast md sec pt with
  | None => (md, false)
  | Some a => if rmem r (a_policy a) then (md, false)
              else (set_ast md sec pt (with_policy a (a_policy a ++ [r])), true)
  end.

Definition m_add_policies (md : model) (sec pt : text) (rs : list rule) : model * bool :=
  match rs with
  | [] => (md, false)
  | _ =>
    match get_ast md sec pt with
    | None => (md, false)
    | Some a =>
      if existsb (fun r => rmem r (a_policy a)) rs then (md, false)
      else (set_ast md sec pt (with_policy a (fold_left ins_new rs (a_policy a))), true)
    end
  end.

Definition m_remove_policy (md : model) (sec pt : text) (r : rule) : model * bool :=
  match get_ast md sec pt with
  | None => (md, false)
  | Some a => if rmem r (a_policy a)
              then (set_ast md sec pt (with_policy a (rremove r (a_policy a))), true)
              else (md, false)
  end.

Definition m_remove_policies (md : model) (sec pt : text) (rs : list rule) : model * bool :=
  match rs with
  | [] => (md, false)
  | _ =>
    match get_ast md sec pt with
    | None => (md, false)
    | Some a =>
      if forallb (fun r => rmem r (a_policy a)) rs
      then (set_ast md sec pt (with_policy a (fold_left (fun l r => rremove r l) rs (a_policy a))), true)
      else (md, false)
    end
  end.

(* field filter: None = index out of bounds (panic in the code) *)
Fixpoint fmatch (vals : list text) (fields : list text) : option bool :=
  match vals with
  | [] => Some true
  | v :: vs =>
    if teqb v [] then fmatch vs (tl fields)
    else match fields with
         | [] => None
         | f :: fs => if teqb f v then fmatch vs fs else Some false
         end
  end.

(* the rules matched by a filter, in order; None = panic *)
Fixpoint select_filtered (idx : nat) (vals : list text) (l : list rule) : option (list rule) :=
  match l with
  | [] => Some []
  | r :: l' =>
    match fmatch vals (skipn idx r) with
    | None => None
    | Some b => match select_filtered idx vals l' with
                | None => None
                | Some s => Some (if b then r :: s else s)
                end
    end
  end.

Definition m_remove_filtered (md : model) (sec pt : text) (idx : nat) (vals : list text)
  : option (model * bool * list rule) :=
  match vals with
  | [] => Some (md, false, [])
  | _ =>
    match get_ast md sec pt with
    | None => Some (md, false, [])
    | Some a =>
      match select_filtered idx vals (a_policy a) with
      | None => None
      | Some [] => Some (md, false, [])
      | Some rem =>
        Some (set_ast md sec pt (with_policy a (fold_left (fun l r => rremove r l) rem (a_policy a))),
              true, rem)
      end
    end
  end.

Definition clear_sec (md : model) (sec : text) : model :=
  match assoc sec md with
  | Some am => assoc_set sec (map (fun ka => (fst ka, with_policy (snd ka) [])) am) md
  | None => md
  end.
Definition m_clear_policy (md : model) : model := clear_sec (clear_sec md s_p) s_g.

(* read views *)
Definition m_get_policy (md : model) (sec pt : text) : list rule :=
  match get_ast md sec pt with Some a => a_policy a | None => [] end.
Definition m_has_policy (md : model) (sec pt : text) (r : rule) : bool := rmem r (m_get_policy md sec pt).
Definition m_get_filtered (md : model) (sec pt : text) (idx : nat) (vals : list text) : option (list rule) :=
  select_filtered idx vals (m_get_policy md sec pt).
Fixpoint dedup (l : list text) (seen : list text) : list text :=
  match l with
  | [] => []
  | x :: l' => if memb teqb x seen then dedup l' seen else x :: dedup l' (x :: seen)
  end.
(* distinct values through LinkedHashSet::insert: a repeated value moves to
   the back, so the listing is ordered by LAST occurrence *)
Definition tset_insert (l : list text) (x : text) : list text :=
  if memb teqb x l then filter (fun y => negb (teqb y x)) l ++ [x] else l ++ [x].
Definition distinct_last (l : list text) : list text := fold_left tset_insert l [].
(* None = index out of bounds *)
Fixpoint column (idx : nat) (l : list rule) : option (list text) :=
  match l with
  | [] => Some []
  | r :: l' => match nth_error r idx, column idx l' with
               | Some v, Some c => Some (v :: c)
               | _, _ => None
               end
  end.
Definition m_values (md : model) (sec pt : text) (idx : nat) : option (list text) :=
  match column idx (m_get_policy md sec pt) with
  | Some c => Some (distinct_last c)
  | None => None
  end.
Definition m_get_all (md : model) (sec : text) : list rule :=
  match assoc sec md with
  | Some am => flat_map (fun ka => map (fun r => sec :: fst ka :: r) (a_policy (snd ka))) am
  | None => []
  end.

(* ---------- role links (assertion.rs) ---------- *)
Definition count_us (v : text) : nat := length (filter (Ascii.eqb underscore) v).

Inductive lerr := LOk | LErr (e : errc).

(* one rule of a definition with `cnt` underscores; insert or delete *)
Definition link_rule (cnt : nat) (insert : bool) (m : rmgr) (r : rule) : rmgr * lerr :=
  if Nat.ltb (length r) cnt then (m, LErr EPolicy)
  else
    let a := nth 0 r [] in let b := nth 1 r [] in
    let d := if Nat.eqb cnt 2 then None else Some (nth 2 r []) in
    if Nat.leb 4 cnt then (m, LErr EModel)
    else if insert then (add_link m a b d, LOk)
    else match delete_link m a b d with
         | (m', true) => (m', LOk)
         | (m', false) => (m', LErr ERbac)
         end.

Fixpoint link_rules (cnt : nat) (insert : bool) (m : rmgr) (rs : list rule) : rmgr * lerr :=
  match rs with
  | [] => (m, LOk)
  | r :: rs' => match link_rule cnt insert m r with
                | (m', LOk) => link_rules cnt insert m' rs'
                | (m', LErr e) => (m', LErr e)
                end
  end.

(* Assertion::build_role_links for every g definition, in order; the handle of
   a definition is redirected to the enforcer's manager only when it succeeded *)
Fixpoint build_links_am (am : amap) (m : rmgr) : amap * rmgr * lerr :=
  match am with
  | [] => ([], m, LOk)
  | (k, a) :: am' =>
    if Nat.ltb (count_us (a_value a)) 2 then ((k, a) :: am', m, LErr EModel)
    else match link_rules (count_us (a_value a)) true m (a_policy a) with
         | (m', LOk) =>
           match build_links_am am' m' with
           | (am'', m'', e) => ((k, with_handle a HCur) :: am'', m'', e)
           end
         | (m', LErr e) => ((k, a) :: am', m', LErr e)
         end
  end.

Definition set_rm (fs : fstate) (m : rmgr) : fstate :=
  {| f_rm := m; f_rm_max := f_rm_max fs; f_gfuns := f_gfuns fs; f_ufuns := f_ufuns fs |}.

(* ---------- adapters ---------- *)
(* scripted adapter responses. For loads: RFailLate = everything was delivered,
   then Err; RFailPartial = the policy rules were delivered but not the grouping
   rules, then Err *)
Inductive resp := RPass | RRefuse | RFail | RFailLate | RFailPartial.

Inductive adapter :=
| ANull
| AMemory (lines : list rule) (filtered : bool)   (* line = sec :: ptype :: fields *)
| AFile (lines : list rule) (filtered : bool)     (* parsed CSV line = ptype :: fields *)
| AString (lines : list rule) (filtered : bool)
| AScripted (inner : adapter) (script : list resp).

Fixpoint ad_is_filtered (a : adapter) : bool :=
  match a with
  | ANull => false
  | AMemory _ f | AFile _ f | AString _ f => f
  | AScripted i _ => ad_is_filtered i
  end.

Definition mem_line (sec pt : text) (r : rule) : rule := sec :: pt :: r.

(* incremental operations on an unscripted adapter; Panic only for the
   out-of-bounds filter index *)
Definition ad0_add (a : adapter) (sec pt : text) (r : rule) : adapter * outcome bool :=
  match a with
  | AMemory l f => let ln := mem_line sec pt r in
                   if rmem ln l then (a, Ok false) else (AMemory (l ++ [ln]) f, Ok true)
  | AString _ _ => (a, Err EAdapter)
  | _ => (a, Ok true)
  end.
Definition ad0_add_many (a : adapter) (sec pt : text) (rs : list rule) : adapter * outcome bool :=
  match a with
  | AMemory l f => let lns := map (mem_line sec pt) rs in
                   if existsb (fun ln => rmem ln l) lns then (a, Ok false)
                   else (AMemory (fold_left ins_new lns l) f, Ok true)
  | AString _ _ => (a, Err EAdapter)
  | _ => (a, Ok true)
  end.
Definition ad0_remove (a : adapter) (sec pt : text) (r : rule) : adapter * outcome bool :=
  match a with
  | AMemory l f => let ln := mem_line sec pt r in
                   if rmem ln l then (AMemory (rremove ln l) f, Ok true) else (a, Ok false)
  | AString _ _ => (a, Err EAdapter)
  | _ => (a, Ok true)
  end.
Definition ad0_remove_many (a : adapter) (sec pt : text) (rs : list rule) : adapter * outcome bool :=
  match a with
  | AMemory l f => let lns := map (mem_line sec pt) rs in
                   if forallb (fun ln => rmem ln l) lns
                   then (AMemory (fold_left (fun l ln => rremove ln l) lns l) f, Ok true)
                   else (a, Ok false)
  | AString _ _ => (a, Err EAdapter)
  | _ => (a, Ok true)
  end.
(* memory_adapter.rs remove_filtered_policy: lines of (sec, ptype) matching the
   filter are dropped; None = panic *)
Fixpoint mem_filter_lines (sec pt : text) (idx : nat) (vals : list text) (l : list rule)
  : option (list rule * bool) :=
  match l with
  | [] => Some ([], false)
  | ln :: l' =>
    let here :=
        if teqb sec (nth 0 ln []) && teqb pt (nth 1 ln [])
        then fmatch vals (skipn (idx + 2) ln) else Some false in
    match here with
    | None => None
    | Some b => match mem_filter_lines sec pt idx vals l' with
                | None => None
                | Some (kept, res) => Some (if b then kept else ln :: kept, b || res)
                end
    end
  end.
Definition ad0_remove_filtered (a : adapter) (sec pt : text) (idx : nat) (vals : list text)
  : adapter * outcome bool :=
  match a with
  | AMemory l f =>
    match vals with
    | [] => (a, Ok false)
    | _ => match mem_filter_lines sec pt idx vals l with
           | None => (a, Panic)
           | Some (kept, res) => (AMemory kept f, Ok res)
           end
    end
  | AString _ _ => (a, Err EAdapter)
  | _ => (a, Ok true)
  end.

(* scripting: pop one response per adapter entry point *)
Definition scripted (a : adapter) (f : adapter -> adapter * outcome bool) : adapter * outcome bool :=
  match a with
  | AScripted i [] => let (i', o) := f i in (AScripted i' [], o)
  | AScripted i (RPass :: sc) => let (i', o) := f i in (AScripted i' sc, o)
  | AScripted i (RRefuse :: sc) => (AScripted i sc, Ok false)
  | AScripted i (_ :: sc) => (AScripted i sc, Err EAdapter)
  | _ => f a
  end.

Definition ad_add a sec pt r := scripted a (fun x => ad0_add x sec pt r).
Definition ad_add_many a sec pt rs := scripted a (fun x => ad0_add_many x sec pt rs).
Definition ad_remove a sec pt r := scripted a (fun x => ad0_remove x sec pt r).
Definition ad_remove_many a sec pt rs := scripted a (fun x => ad0_remove_many x sec pt rs).
Definition ad_remove_filtered a sec pt idx vals :=
  scripted a (fun x => ad0_remove_filtered x sec pt idx vals).

(* load one line `key :: fields` into the model (load_policy_line): the section
   is the first character of the key; raw LinkedHashSet::insert *)
Definition load_line (md : model) (ln : rule) : model :=
  match ln with
  | (c :: krest) :: fields =>
    let key := c :: krest in
    match get_ast md [c] key with
    | Some a => set_ast md [c] key (with_policy a (oset_insert (a_policy a) fields))
    | None => md
    end
  | _ => md
  end.
Definition load_mem_line (md : model) (ln : rule) : model :=
  match ln with
  | sec :: pt :: fields =>
    match get_ast md sec pt with
    | Some a => set_ast md sec pt (with_policy a (oset_insert (a_policy a) fields))
    | None => md
    end
  | _ => md
  end.

(* filter test of the loaders *)
(* all three bundled adapters (after the repairs): a missing field differs from any value *)
Fixpoint get_filtered_out (fvals : list text) (fields : list text) : bool :=
  match fvals with
  | [] => false
  | v :: vs =>
    (if teqb v [] then false
     else match fields with [] => true | f :: _ => negb (teqb f v) end)
    || get_filtered_out vs (tl fields)
  end.

Definition sec_filter (fp fg : list text) (sec : text) : list text :=
  if teqb sec s_p then fp else if teqb sec s_g then fg else [].

(* returns the model and whether some line was left out (file and string
   adapters share the line format) *)
Fixpoint str_load_filtered (fp fg : list text) (md : model) (lines : list rule) : model * bool :=
  match lines with
  | [] => (md, false)
  | ln :: rest =>
    match ln with
    | (c :: krest) :: fields =>
      let out := get_filtered_out (sec_filter fp fg [c]) fields in
      let (md', fl) := str_load_filtered fp fg (if out then md else load_line md ln) rest in
      (md', out || fl)
    | _ => str_load_filtered fp fg md rest
    end
  end.
Fixpoint mem_load_filtered (fp fg : list text) (md : model) (lines : list rule) : model * bool :=
  match lines with
  | [] => (md, false)
  | ln :: rest =>
    match ln with
    | sec :: pt :: fields =>
      let out := get_filtered_out (sec_filter fp fg sec) fields in
      let (md', fl) := mem_load_filtered fp fg (if out then md else load_mem_line md ln) rest in
      (md', out || fl)
    | _ => mem_load_filtered fp fg md rest
    end
  end.

Inductive lres := LROk | LRErr (e : errc) | LRPanic.

(* Adapter::load_policy on an unscripted adapter *)
Definition ad0_load (a : adapter) (md : model) : adapter * model * lres :=
  match a with
  | ANull => (a, md, LROk)
  | AMemory l _ => (AMemory l false, fold_left load_mem_line l md, LROk)
  | AFile l _ => (AFile l false, fold_left load_line l md, LROk)
  | AString l _ => (AString l false, fold_left load_line l md, LROk)
  | AScripted _ _ => (a, md, LROk)
  end.
Definition ad0_load_filtered (a : adapter) (fp fg : list text) (md : model) : adapter * model * lres :=
  match a with
  | ANull => (a, md, LROk)
  | AMemory l _ => let (md', fl) := mem_load_filtered fp fg md l in (AMemory l fl, md', LROk)
  | AFile l _ => let (md', fl) := str_load_filtered fp fg md l in (AFile l fl, md', LROk)
  | AString l _ => let (md', fl) := str_load_filtered fp fg md l in (AString l fl, md', LROk)
  | AScripted _ _ => (a, md, LROk)
  end.

Definition ad_load (a : adapter) (md : model) : adapter * model * lres :=
  match a with
  | AScripted i [] => match ad0_load i md with (i', md', r) => (AScripted i' [], md', r) end
  | AScripted i (RPass :: sc) => match ad0_load i md with (i', md', r) => (AScripted i' sc, md', r) end
  | AScripted i (RFailLate :: sc) =>
    match ad0_load i md with (i', md', _) => (AScripted i' sc, md', LRErr EAdapter) end
  | AScripted i (RFailPartial :: sc) =>
    match ad0_load i md with (i', md', _) => (AScripted i' sc, clear_sec md' s_g, LRErr EAdapter) end
  | AScripted i (_ :: sc) => (AScripted i sc, md, LRErr EAdapter)
  | _ => ad0_load a md
  end.
Definition ad_load_filtered (a : adapter) (fp fg : list text) (md : model) : adapter * model * lres :=
  match a with
  | AScripted i [] => match ad0_load_filtered i fp fg md with (i', md', r) => (AScripted i' [], md', r) end
  | AScripted i (RPass :: sc) =>
    match ad0_load_filtered i fp fg md with (i', md', r) => (AScripted i' sc, md', r) end
  | AScripted i (RFailLate :: sc) =>
    match ad0_load_filtered i fp fg md with
    | (i', md', _) => (AScripted i' sc, md', LRErr EAdapter) end
  | AScripted i (RFailPartial :: sc) =>
    match ad0_load_filtered i fp fg md with
    | (i', md', _) => (AScripted i' sc, clear_sec md' s_g, LRErr EAdapter) end
  | AScripted i (_ :: sc) => (AScripted i sc, md, LRErr EAdapter)
  | _ => ad0_load_filtered a fp fg md
  end.

(* Adapter::save_policy *)
Definition text_lines (md : model) : list rule :=
  (match assoc s_p md with
   | Some am => flat_map (fun ka => map (fun r => fst ka :: r) (a_policy (snd ka))) am
   | None => [] end) ++
  (match assoc s_g md with
   | Some am => flat_map (fun ka => map (fun r => fst ka :: r) (a_policy (snd ka))) am
   | None => [] end).
Definition first_char (k : text) : option text :=
  match k with c :: _ => Some [c] | [] => None end.
Definition mem_lines_of (am : amap) : list rule :=
  flat_map (fun ka => match first_char (fst ka) with
                      | Some sec => map (fun r => sec :: fst ka :: r) (a_policy (snd ka))
                      | None => [] end) am.
Definition mem_lines (md : model) : list rule :=
  fold_left ins_new
            ((match assoc s_p md with Some am => mem_lines_of am | None => [] end) ++
             (match assoc s_g md with Some am => mem_lines_of am | None => [] end)) [].

Definition ad0_save (a : adapter) (md : model) : adapter * lres :=
  match a with
  | ANull => (a, LROk)
  | AMemory _ f => (AMemory (mem_lines md) f, LROk)
  | AFile _ f => match assoc s_p md with
                 | None => (a, LRErr EModel)
                 | Some _ => (AFile (text_lines md) f, LROk) end
  | AString _ f => match assoc s_p md with
                   | None => (a, LRErr EModel)
                   | Some _ => (AString (text_lines md) f, LROk) end
  | AScripted _ _ => (a, LROk)
  end.
Definition ad0_clear (a : adapter) : adapter * lres :=
  match a with
  | ANull => (a, LROk)
  | AMemory _ _ => (AMemory [] false, LROk)
  | AFile _ f => (AFile [] f, LROk)
  | AString _ _ => (AString [] false, LROk)
  | AScripted _ _ => (a, LROk)
  end.
Definition scripted_unit (a : adapter) (f : adapter -> adapter * lres) : adapter * lres :=
  match a with
  | AScripted i [] => let (i', o) := f i in (AScripted i' [], o)
  | AScripted i (RPass :: sc) => let (i', o) := f i in (AScripted i' sc, o)
  | AScripted i (_ :: sc) => (AScripted i sc, LRErr EAdapter)
  | _ => f a
  end.
Definition ad_save a md := scripted_unit a (fun x => ad0_save x md).
Definition ad_clear a := scripted_unit a ad0_clear.

(* ---------- events ---------- *)
Inductive event :=
| EvAdd (sec pt : text) (r : rule)
| EvAddMany (sec pt : text) (rs : list rule)
| EvRemove (sec pt : text) (r : rule)
| EvRemoveMany (sec pt : text) (rs : list rule)
| EvRemoveFiltered (sec pt : text) (rs : list rule)
| EvSave (rs : list rule)
| EvClear.

(* ---------- the enforcer state ---------- *)
Record estate := {
  e_model : model;
  e_mexprs : list (text * expr);
  e_adapter : adapter;
  e_fs : fstate;
  e_enabled : bool; e_auto_save : bool; e_auto_build : bool; e_auto_notify : bool;
  e_callbacks : nat;        (* registered PolicyChange callbacks *)
  e_watcher : bool;         (* a watcher is installed *)
  e_wlog : list event;      (* what the watcher received, oldest first *)
}.

Definition upd_model (s : estate) (md : model) : estate :=
  {| e_model := md; e_mexprs := e_mexprs s; e_adapter := e_adapter s; e_fs := e_fs s;
     e_enabled := e_enabled s; e_auto_save := e_auto_save s; e_auto_build := e_auto_build s;
     e_auto_notify := e_auto_notify s; e_callbacks := e_callbacks s; e_watcher := e_watcher s;
     e_wlog := e_wlog s |}.
Definition upd_adapter (s : estate) (a : adapter) : estate :=
  {| e_model := e_model s; e_mexprs := e_mexprs s; e_adapter := a; e_fs := e_fs s;
     e_enabled := e_enabled s; e_auto_save := e_auto_save s; e_auto_build := e_auto_build s;
     e_auto_notify := e_auto_notify s; e_callbacks := e_callbacks s; e_watcher := e_watcher s;
     e_wlog := e_wlog s |}.
Definition upd_fs (s : estate) (fs : fstate) : estate :=
  {| e_model := e_model s; e_mexprs := e_mexprs s; e_adapter := e_adapter s; e_fs := fs;
     e_enabled := e_enabled s; e_auto_save := e_auto_save s; e_auto_build := e_auto_build s;
     e_auto_notify := e_auto_notify s; e_callbacks := e_callbacks s; e_watcher := e_watcher s;
     e_wlog := e_wlog s |}.
Definition upd_wlog (s : estate) (w : list event) : estate :=
  {| e_model := e_model s; e_mexprs := e_mexprs s; e_adapter := e_adapter s; e_fs := e_fs s;
     e_enabled := e_enabled s; e_auto_save := e_auto_save s; e_auto_build := e_auto_build s;
     e_auto_notify := e_auto_notify s; e_callbacks := e_callbacks s; e_watcher := e_watcher s;
     e_wlog := w |}.
Definition upd_flags (s : estate) (en sv bl nt : bool) (cb : nat) : estate :=
  {| e_model := e_model s; e_mexprs := e_mexprs s; e_adapter := e_adapter s; e_fs := e_fs s;
     e_enabled := en; e_auto_save := sv; e_auto_build := bl;
     e_auto_notify := nt; e_callbacks := cb; e_watcher := e_watcher s;
     e_wlog := e_wlog s |}.

(* emit(PolicyChange, d): every registered callback forwards to the watcher *)
Definition emit (s : estate) (ev : event) : estate :=
  if e_watcher s then upd_wlog s (e_wlog s ++ repeat ev (e_callbacks s)) else s.
(* the management paths also test the auto-notify flag *)
Definition emit_mgmt (s : estate) (changed : bool) (ev : event) : estate :=
  if changed && e_auto_notify s then emit s ev else s.

(* Enforcer::build_role_links *)
Definition build_role_links (s : estate) : estate * lerr :=
  match assoc s_g (e_model s) with
  | None => (upd_fs s (set_rm (e_fs s) []), LOk)
  | Some am =>
    match build_links_am am [] with
    | (am', m', e) =>
      (upd_fs (upd_model s (assoc_set s_g am' (e_model s))) (set_rm (e_fs s) m'), e)
    end
  end.

(* Model::build_incremental_role_links for a g-section event *)
Definition incremental_links (s : estate) (pt : text) (insert : bool) (rs : list rule) : estate * lerr :=
  match get_ast (e_model s) s_g pt with
  | None => (s, LOk)
  | Some a =>
    if Nat.ltb (count_us (a_value a)) 2 then (s, LErr EModel)
    else match link_rules (count_us (a_value a)) insert (f_rm (e_fs s)) rs with
         | (m', LOk) =>
           (upd_fs (upd_model s (set_ast (e_model s) s_g pt (with_handle a HCur)))
                   (set_rm (e_fs s) m'), LOk)
         | (m', LErr e) => (upd_fs s (set_rm (e_fs s) m'), LErr e)
         end
  end.

Definition lerr_out (e : lerr) (b : bool) : outcome bool :=
  match e with LOk => Ok b | LErr c => Err c end.

(* the tail shared by the five internal entry points (after the fix: commits
   the incremental update runs only when the model changed) *)
Definition after_change (s : estate) (sec pt : text) (changed insert : bool) (rs : list rule)
  : estate * outcome bool :=
  if negb (teqb sec s_g) || negb (e_auto_build s) || negb changed then (s, Ok changed)
  else let (s', e) := incremental_links s pt insert rs in (s', lerr_out e changed).

(* ---------- operations ---------- *)
Inductive rbac_op :=
| RAddPermission (user : text) (perm : rule)
| RAddPermissions (user : text) (perms : list rule)
| RAddRole (user role : text) (dom : option text)
| RAddRoles (user : text) (roles : list text) (dom : option text)
| RDeleteRole (user role : text) (dom : option text)
| RDeleteRoles (user : text) (dom : option text)
| RDeleteUser (name : text)
| RDeleteRoleAll (name : text)
| RDeletePermission (perm : rule)
| RDeletePermissionFor (user : text) (perm : rule)
| RDeletePermissionsFor (user : text).

(* what a model definition text stands for, already parsed (Ini/Csv models
   cover the parsing): sections with keys, values, tokens; matcher ASTs *)
Record modeldef := { d_model : model; d_mexprs : list (text * expr) }.

Inductive op :=
| OAdd (sec pt : text) (r : rule)
| OAddMany (sec pt : text) (rs : list rule)
| ORemove (sec pt : text) (r : rule)
| ORemoveMany (sec pt : text) (rs : list rule)
| ORemoveFiltered (sec pt : text) (idx : nat) (vals : list text)
| ORbac (r : rbac_op)
| OClear
| OLoad
| OLoadFiltered (fp fg : list text)
| OSave
| OBuildRoleLinks
| OSetModel (d : modeldef)
| OSetAdapter (a : adapter)
| OSetRoleManager (maxd : nat)
| OSetEffector
| OAddFunction (name : text) (u : ufun)
| OEnableEnforce (b : bool)
| OEnableAutoSave (b : bool)
| OEnableAutoBuild (b : bool)
| OEnableAutoNotify (b : bool).

Definition step_add (s : estate) (sec pt : text) (r : rule) : estate * outcome bool :=
  let (ad, ares) := if e_auto_save s then ad_add (e_adapter s) sec pt r else (e_adapter s, Ok true) in
  let s1 := upd_adapter s ad in
  match ares with
  | Ok true =>
    let (md, added) := m_add_policy (e_model s1) sec pt r in
    let s2 := emit_mgmt (upd_model s1 md) added (EvAdd sec pt r) in
    after_change s2 sec pt added true [r]
  | other => (s1, other)
  end.

Definition step_add_many (s : estate) (sec pt : text) (rs : list rule) : estate * outcome bool :=
  let (ad, ares) := if e_auto_save s then ad_add_many (e_adapter s) sec pt rs else (e_adapter s, Ok true) in
  let s1 := upd_adapter s ad in
  match ares with
  | Ok true =>
    let (md, added) := m_add_policies (e_model s1) sec pt rs in
    let s2 := emit_mgmt (upd_model s1 md) added (EvAddMany sec pt rs) in
    after_change s2 sec pt added true rs
  | other => (s1, other)
  end.

Definition step_remove (s : estate) (sec pt : text) (r : rule) : estate * outcome bool :=
  let (ad, ares) := if e_auto_save s then ad_remove (e_adapter s) sec pt r else (e_adapter s, Ok true) in
  let s1 := upd_adapter s ad in
  match ares with
  | Ok true =>
    let (md, removed) := m_remove_policy (e_model s1) sec pt r in
    let s2 := emit_mgmt (upd_model s1 md) removed (EvRemove sec pt r) in
    after_change s2 sec pt removed false [r]
  | other => (s1, other)
  end.

Definition step_remove_many (s : estate) (sec pt : text) (rs : list rule) : estate * outcome bool :=
  let (ad, ares) := if e_auto_save s then ad_remove_many (e_adapter s) sec pt rs else (e_adapter s, Ok true) in
  let s1 := upd_adapter s ad in
  match ares with
  | Ok true =>
    let (md, removed) := m_remove_policies (e_model s1) sec pt rs in
    let s2 := emit_mgmt (upd_model s1 md) removed (EvRemoveMany sec pt rs) in
    after_change s2 sec pt removed false rs
  | other => (s1, other)
  end.

Definition step_remove_filtered (s : estate) (sec pt : text) (idx : nat) (vals : list text)
  : estate * outcome bool :=
  let (ad, ares) := if e_auto_save s then ad_remove_filtered (e_adapter s) sec pt idx vals
                    else (e_adapter s, Ok true) in
  let s1 := upd_adapter s ad in
  match ares with
  | Ok true =>
    match m_remove_filtered (e_model s1) sec pt idx vals with
    | None => (s1, Panic)
    | Some (md, removed, rs) =>
      let s2 := emit_mgmt (upd_model s1 md) removed (EvRemoveFiltered sec pt rs) in
      (* the filtered path is already change-guarded by its payload: with
         nothing removed the rule list is empty *)
      if negb (teqb sec s_g) || negb (e_auto_build s2) then (s2, Ok removed)
      else let (s3, e) := incremental_links s2 pt false rs in (s3, lerr_out e removed)
    end
  | other => (s1, other)
  end.

(* run b after a when a succeeded (the `?` operator); result = a || b *)
Definition seq_or (ra : estate * outcome bool) (f : estate -> estate * outcome bool) : estate * outcome bool :=
  match ra with
  | (s, Ok a) => match f s with
                 | (s', Ok b) => (s', Ok (a || b))
                 | other => other
                 end
  | other => other
  end.

Definition dom_rule (u r : text) (d : option text) : rule :=
  match d with Some x => [u; r; x] | None => [u; r] end.

Definition step_rbac (s : estate) (o : rbac_op) : estate * outcome bool :=
  match o with
  | RAddPermission u p => step_add s s_p s_p (u :: p)
  | RAddPermissions u ps => step_add_many s s_p s_p (map (fun p => u :: p) ps)
  | RAddRole u r d => step_add s s_g s_g (dom_rule u r d)
  | RAddRoles u rs d => step_add_many s s_g s_g (map (fun r => dom_rule u r d) rs)
  | RDeleteRole u r d => step_remove s s_g s_g (dom_rule u r d)
  | RDeleteRoles u d =>
    step_remove_filtered s s_g s_g 0 (match d with Some x => [u; []; x] | None => [u] end)
  | RDeleteUser n =>
    seq_or (step_remove_filtered s s_g s_g 0 [n]) (fun s' => step_remove_filtered s' s_p s_p 0 [n])
  | RDeleteRoleAll n =>
    seq_or (step_remove_filtered s s_g s_g 1 [n]) (fun s' => step_remove_filtered s' s_p s_p 0 [n])
  | RDeletePermission p => step_remove_filtered s s_p s_p 1 p
  | RDeletePermissionFor u p => step_remove s s_p s_p (u :: p)
  | RDeletePermissionsFor u => step_remove_filtered s s_p s_p 0 [u]
  end.

Definition lres_out (r : lres) : outcome bool :=
  match r with LROk => Ok true | LRErr e => Err e | LRPanic => Panic end.

(* enforcer.rs load_policy / load_filtered_policy (after the fix: restore on error) *)
Definition finish_load (s : estate) (ad : adapter) (md : model) (r : lres) : estate * outcome bool :=
  match r with
  | LROk =>
    let s1 := upd_model (upd_adapter s ad) md in
    if e_auto_build s1 then let (s2, e) := build_role_links s1 in (s2, lerr_out e true)
    else (s1, Ok true)
  | LRErr e => (upd_adapter s ad, Err e)       (* model restored from the backup *)
  | LRPanic => (upd_adapter s ad, Panic)
  end.
Definition step_load (s : estate) : estate * outcome bool :=
  match ad_load (e_adapter s) (m_clear_policy (e_model s)) with
  | (ad, md, r) => finish_load s ad md r
  end.
Definition step_load_filtered (s : estate) (fp fg : list text) : estate * outcome bool :=
  match ad_load_filtered (e_adapter s) fp fg (m_clear_policy (e_model s)) with
  | (ad, md, r) => finish_load s ad md r
  end.

Definition step_save (s : estate) : estate * outcome bool :=
  if ad_is_filtered (e_adapter s) then (s, Panic)
  else match ad_save (e_adapter s) (e_model s) with
       | (ad, LROk) =>
         let s1 := upd_adapter s ad in
         (emit s1 (EvSave (m_get_all (e_model s1) s_p ++ m_get_all (e_model s1) s_g)), Ok true)
       | (ad, r) => (upd_adapter s ad, lres_out r)
       end.

Definition step_clear (s : estate) : estate * outcome bool :=
  let (ad, r) := if e_auto_save s then ad_clear (e_adapter s) else (e_adapter s, LROk) in
  let s1 := upd_adapter s ad in
  match r with
  | LROk =>
    let s2 := upd_model s1 (m_clear_policy (e_model s1)) in
    if e_auto_build s2 then
      match build_role_links s2 with
      | (s3, LOk) => (emit s3 EvClear, Ok true)
      | (s3, LErr e) => (s3, Err e)
      end
    else (emit s2 EvClear, Ok true)
  | other => (s1, lres_out other)
  end.

(* register_g_functions: one closure per role definition, capturing the
   current manager; stops at the first malformed definition *)
Fixpoint register_g (am : amap) (gf : list ((text * nat) * handle)) : list ((text * nat) * handle) * lerr :=
  match am with
  | [] => (gf, LOk)
  | (k, a) :: am' =>
    let c := count_us (a_value a) in
    if Nat.eqb c 2 then register_g am' (((k, 2), HCur) :: gf)
    else if Nat.eqb c 3 then register_g am' (((k, 3), HCur) :: gf)
    else (gf, LErr EModel)
  end.
Definition register_g_functions (s : estate) : estate * lerr :=
  match assoc s_g (e_model s) with
  | None => (s, LOk)
  | Some am =>
    let (gf, e) := register_g am (f_gfuns (e_fs s)) in
    (upd_fs s {| f_rm := f_rm (e_fs s); f_rm_max := f_rm_max (e_fs s);
                 f_gfuns := gf; f_ufuns := f_ufuns (e_fs s) |}, e)
  end.

Definition freeze_handle (m : rmgr) (mx : nat) (h : handle) : handle :=
  match h with HCur => HFrozen m mx | other => other end.

Definition step_set_model (s : estate) (d : modeldef) : estate * outcome bool :=
  let s0 := {| e_model := d_model d; e_mexprs := d_mexprs d; e_adapter := e_adapter s; e_fs := e_fs s;
               e_enabled := e_enabled s; e_auto_save := e_auto_save s; e_auto_build := e_auto_build s;
               e_auto_notify := e_auto_notify s; e_callbacks := e_callbacks s;
               e_watcher := e_watcher s; e_wlog := e_wlog s |} in
  match step_load s0 with
  | (s1, Ok _) => let (s2, e) := register_g_functions s1 in (s2, lerr_out e true)
  | other => other
  end.

Definition step_set_adapter (s : estate) (a : adapter) : estate * outcome bool :=
  step_load (upd_adapter s a).

Definition step_set_role_manager (s : estate) (maxd : nat) : estate * outcome bool :=
  let fs := e_fs s in
  let fz := freeze_handle (f_rm fs) (f_rm_max fs) in
  let md := match assoc s_g (e_model s) with
            | Some am => assoc_set s_g (map (fun ka => (fst ka, with_handle (snd ka) (fz (a_handle (snd ka))))) am)
                                   (e_model s)
            | None => e_model s end in
  let fs' := {| f_rm := []; f_rm_max := maxd;
                f_gfuns := map (fun kh => (fst kh, fz (snd kh))) (f_gfuns fs);
                f_ufuns := f_ufuns fs |} in
  let s1 := upd_fs (upd_model s md) fs' in
  let (s2, e) := if e_auto_build s1 then build_role_links s1 else (s1, LOk) in
  match e with
  | LErr c => (s2, Err c)
  | LOk => let (s3, e') := register_g_functions s2 in (s3, lerr_out e' true)
  end.

Definition step (s : estate) (o : op) : estate * outcome bool :=
  match o with
  | OAdd sec pt r => step_add s sec pt r
  | OAddMany sec pt rs => step_add_many s sec pt rs
  | ORemove sec pt r => step_remove s sec pt r
  | ORemoveMany sec pt rs => step_remove_many s sec pt rs
  | ORemoveFiltered sec pt idx vals => step_remove_filtered s sec pt idx vals
  | ORbac r => step_rbac s r
  | OClear => step_clear s
  | OLoad => step_load s
  | OLoadFiltered fp fg => step_load_filtered s fp fg
  | OSave => step_save s
  | OBuildRoleLinks => let (s', e) := build_role_links s in (s', lerr_out e true)
  | OSetModel d => step_set_model s d
  | OSetAdapter a => step_set_adapter s a
  | OSetRoleManager mx => step_set_role_manager s mx
  | OSetEffector => (s, Ok true)
  | OAddFunction n u =>
    (upd_fs s {| f_rm := f_rm (e_fs s); f_rm_max := f_rm_max (e_fs s); f_gfuns := f_gfuns (e_fs s);
                 f_ufuns := (n, u) :: f_ufuns (e_fs s) |}, Ok true)
  | OEnableEnforce b =>
    (upd_flags s b (e_auto_save s) (e_auto_build s) (e_auto_notify s) (e_callbacks s), Ok true)
  | OEnableAutoSave b =>
    (upd_flags s (e_enabled s) b (e_auto_build s) (e_auto_notify s) (e_callbacks s), Ok true)
  | OEnableAutoBuild b =>
    (upd_flags s (e_enabled s) (e_auto_save s) b (e_auto_notify s) (e_callbacks s), Ok true)
  | OEnableAutoNotify b =>
    (* enforcer.rs enable_auto_notify_watcher after the fix *)
    let cb := if negb b then 0
              else if negb (e_auto_notify s) then e_callbacks s + 1 else e_callbacks s in
    (upd_flags s (e_enabled s) (e_auto_save s) (e_auto_build s) b cb, Ok true)
  end.

(* Enforcer::new_raw + new: built-ins, g-functions, then the initial load
   unless the adapter is marked filtered *)
Definition new_raw (d : modeldef) (a : adapter) (watcher : bool) : estate * lerr :=
  register_g_functions
    {| e_model := d_model d; e_mexprs := d_mexprs d; e_adapter := a;
       e_fs := {| f_rm := []; f_rm_max := 10; f_gfuns := []; f_ufuns := [] |};
       e_enabled := true; e_auto_save := true; e_auto_build := true; e_auto_notify := true;
       e_callbacks := 1; e_watcher := watcher; e_wlog := [] |}.

Definition new_enforcer (d : modeldef) (a : adapter) (watcher : bool) : estate * outcome bool :=
  match new_raw d a watcher with
  | (s, LErr e) => (s, Err e)
  | (s, LOk) => if ad_is_filtered (e_adapter s) then (s, Ok true) else step_load s
  end.

(* ---------- queries ---------- *)
Definition handle_get_roles (fs : fstate) (h : handle) (n : text) (d : option text) : list text :=
  match h with
  | HOwn => []
  | HCur => get_roles (f_rm fs) n d
  | HFrozen m _ => get_roles m n d
  end.
Definition handle_get_users (fs : fstate) (h : handle) (n : text) (d : option text) : list text :=
  match h with
  | HOwn => []
  | HCur => get_users (f_rm fs) n d
  | HFrozen m _ => get_users m n d
  end.

Definition roles_for_user (s : estate) (n : text) (d : option text) : list text :=
  match get_ast (e_model s) s_g s_g with
  | Some a => handle_get_roles (e_fs s) (a_handle a) n d
  | None => []
  end.
Definition users_for_role (s : estate) (n : text) (d : option text) : list text :=
  match get_ast (e_model s) s_g s_g with
  | Some a => handle_get_users (e_fs s) (a_handle a) n d
  | None => []
  end.

(* rbac_api.rs get_implicit_roles_for_user: work-list closure over the
   enforcer's current manager; the result is a set *)
Fixpoint implicit_roles_go (fuel : nat) (m : rmgr) (d : option text) (q res : list text) : list text :=
  match fuel with
  | 0 => res
  | S fuel' =>
    match q with
    | [] => res
    | n :: q' =>
      let nw := discover (get_roles m n d) res in
      implicit_roles_go fuel' m d (q' ++ nw) (res ++ nw)
    end
  end.
Definition graph_size (m : rmgr) (d : option text) : nat :=
  match graph_of m d with Some g => length (nodes g) | None => 0 end.
Definition implicit_roles (s : estate) (n : text) (d : option text) : list text :=
  let m := f_rm (e_fs s) in
  implicit_roles_go (S (S (graph_size m d))) m d [n] [].

Definition perms_for_user (s : estate) (u : text) (d : option text) : option (list rule) :=
  m_get_filtered (e_model s) s_p s_p 0 (match d with Some x => [u; x] | None => [u] end).

Fixpoint concat_opt {A} (l : list (option (list A))) : option (list A) :=
  match l with
  | [] => Some []
  | None :: _ => None
  | Some x :: r => match concat_opt r with Some y => Some (x ++ y) | None => None end
  end.
Definition implicit_perms (s : estate) (u : text) (d : option text) : option (list rule) :=
  concat_opt (map (fun r => perms_for_user s r d) (u :: implicit_roles s u d)).

Section Queries.
  Variable ptab : text -> option expr.

  Definition enforce (s : estate) (rv : list value) : outcome bool :=
    enforce_plain ptab (e_enabled s) (e_model s) (e_mexprs s) (e_fs s) rv.
  Definition enforce_with_ctx (s : estate) (k : text) (rv : list value) : outcome bool :=
    enforce_ctx ptab (e_enabled s) (e_model s) (e_mexprs s) (e_fs s) k rv.

  (* enforce_with_context with a hand-assembled EnforceContext: the four section
     names are independent public fields; EnforceContext::new(k) is the special
     case (r++k, p++k, e++k, m++k) *)
  Definition enforce_with_ctx4 (s : estate) (rk pk ek mk : text) (rv : list value) : outcome bool :=
    enforce_core ptab (e_enabled s) (e_model s) (e_mexprs s) (e_fs s) rk pk ek mk (tok pk s_eft) rv.

  (* rbac_api.rs get_implicit_users_for_permission: `if let Ok(r) = self.enforce(req)`
     ignores an Err; a panic inside enforce (e.g. "unsupported effect") unwinds
     through the helper: None *)
  Definition implicit_users (s : estate) (perm : rule) : option (list text) :=
    match m_values (e_model s) s_p s_p 0, m_values (e_model s) s_g s_g 1 with
    | Some subjects, Some roles =>
      let cand := subjects ++ flat_map (fun r => get_users (f_rm (e_fs s)) r None) roles in
      let users := filter (fun u => negb (memb teqb u roles)) cand in
      if existsb (fun u => match enforce s (map VStr (u :: perm)) with
                           | Panic => true | _ => false end) users
      then None
      else Some (dedup (filter (fun u => match enforce s (map VStr (u :: perm)) with
                                         | Ok true => true | _ => false end) users) [])
    | _, _ => None
    end.

  Inductive query :=
  | QEnforce (rv : list value)
  | QEnforceCtx (k : text) (rv : list value)
  | QGetPolicy (sec pt : text)
  | QGetAll (sec : text)
  | QHasPolicy (sec pt : text) (r : rule)
  | QGetFiltered (sec pt : text) (idx : nat) (vals : list text)
  | QValues (sec pt : text) (idx : nat)
  | QRolesFor (n : text) (d : option text)
  | QUsersFor (n : text) (d : option text)
  | QHasRole (n r : text) (d : option text)
  | QImplicitRoles (n : text) (d : option text)
  | QPermsFor (n : text) (d : option text)
  | QImplicitPerms (n : text) (d : option text)
  | QImplicitUsers (perm : rule)
  | QIsFiltered
  | QHasLink (a b : text) (d : option text).   (* through get_role_manager() *)

  Inductive answer :=
  | AnsDec (o : outcome bool)
  | AnsRules (l : list rule)          (* ordered *)
  | AnsRuleBag (l : list rule)        (* order not specified by the code *)
  | AnsNames (l : list text)          (* ordered *)
  | AnsNameSet (l : list text)        (* order not specified by the code *)
  | AnsBool (b : bool)
  | AnsPanic.

  Definition ask (s : estate) (q : query) : answer :=
    match q with
    | QEnforce rv => AnsDec (enforce s rv)
    | QEnforceCtx k rv => AnsDec (enforce_with_ctx s k rv)
    | QGetPolicy sec pt => AnsRules (m_get_policy (e_model s) sec pt)
    | QGetAll sec => AnsRules (m_get_all (e_model s) sec)
    | QHasPolicy sec pt r => AnsBool (m_has_policy (e_model s) sec pt r)
    | QGetFiltered sec pt idx vals =>
      match m_get_filtered (e_model s) sec pt idx vals with Some l => AnsRules l | None => AnsPanic end
    | QValues sec pt idx =>
      match m_values (e_model s) sec pt idx with Some l => AnsNames l | None => AnsPanic end
    | QRolesFor n d => AnsNameSet (roles_for_user s n d)
    | QUsersFor n d => AnsNameSet (users_for_role s n d)
    | QHasRole n r d => AnsBool (memb teqb r (roles_for_user s n d))
    | QImplicitRoles n d => AnsNameSet (implicit_roles s n d)
    | QPermsFor n d => match perms_for_user s n d with Some l => AnsRules l | None => AnsPanic end
    | QImplicitPerms n d => match implicit_perms s n d with Some l => AnsRuleBag l | None => AnsPanic end
    | QImplicitUsers p => match implicit_users s p with Some l => AnsNameSet l | None => AnsPanic end
    | QIsFiltered => AnsBool (ad_is_filtered (e_adapter s))
    | QHasLink a b d => AnsBool (has_link (f_rm_max (e_fs s)) (f_rm (e_fs s)) a b d)
    end.
End Queries.

(* the "reload view" of C09: Adapter::load_policy into a scratch copy of the
   model (emptied). It goes through the adapter, so it consumes a scripted
   response and resets the adapter's filtered mark like any load. *)
Definition reload_view (s : estate) : estate * model * lres :=
  match ad_load (e_adapter s) (m_clear_policy (e_model s)) with
  | (ad, md, r) => (upd_adapter s ad, md, r)
  end.

Definition run_ops (s : estate) (ops : list op) : estate :=
  fold_left (fun st o => fst (step st o)) ops s.
