(* Executable specification helpers for C11 (caching never changes a
   decision): final states of the two runs, runs with arbitrary eviction,
   defective variants of the cached step used for the necessity witnesses, and
   the trace predicate. Executable definitions only. *)
From CV Require Import Model.Base Model.Expr Model.Enforce Model.Engine Model.Cached.

Section Runs.
  Variable ptab : text -> option expr.

  (* the states the two runs of Model/Cached.v end in *)
  Fixpoint crun_state (c : cstate) (h : list citem) : cstate :=
    match h with
    | [] => c
    | CIOp o :: h' => crun_state (fst (cstep c o)) h'
    | CIReq k :: h' => crun_state (fst (cenforce ptab c k)) h'
    end.
  Fixpoint prun_state (s : estate) (h : list citem) : estate :=
    match h with
    | [] => s
    | CIOp o :: h' => prun_state (fst (step s o)) h'
    | CIReq _ :: h' => prun_state s h'
    end.

  (* eviction: before every item the cache may forget any set of keys *)
  Definition evict (keep : ckey -> bool) (c : cstate) : cstate :=
    {| c_inner := c_inner c; c_cache := filter (fun e => keep (fst e)) (c_cache c) |}.

  Fixpoint crun_evict (c : cstate) (h : list ((ckey -> bool) * citem)) : list (outcome bool) :=
    match h with
    | [] => []
    | (keep, CIOp o) :: h' => let (c', r) := cstep (evict keep c) o in r :: crun_evict c' h'
    | (keep, CIReq k) :: h' => let (c', r) := cenforce ptab (evict keep c) k in r :: crun_evict c' h'
    end.
End Runs.

(* the cached step with the clearing rule as a parameter *)
Definition cstep_prim_with (clr : op -> outcome bool -> bool) (c : cstate) (o : op)
  : cstate * outcome bool :=
  let (s', r) := step (c_inner c) o in
  ({| c_inner := s'; c_cache := if clr o r then [] else c_cache c |}, r).

Definition cstep_with (clr : op -> outcome bool -> bool) (c : cstate) (o : op)
  : cstate * outcome bool :=
  match o with
  | ORbac r =>
    let (o1, o2) := rbac_prims r in
    match cstep_prim_with clr c o1 with
    | (c1, Ok a) =>
      match o2 with
      | None => (c1, Ok a)
      | Some o2' => match cstep_prim_with clr c1 o2' with
                    | (c2, Ok b) => (c2, Ok (a || b))
                    | other => other
                    end
      end
    | other => other
    end
  | _ => cstep_prim_with clr c o
  end.

Section RunWith.
  Variable ptab : text -> option expr.
  Variable clr : op -> outcome bool -> bool.
  Fixpoint crun_with (c : cstate) (h : list citem) : list (outcome bool) :=
    match h with
    | [] => []
    | CIOp o :: h' => let (c', r) := cstep_with clr c o in r :: crun_with c' h'
    | CIReq k :: h' => let (c', r) := cenforce ptab c k in r :: crun_with c' h'
    end.
End RunWith.

(* defective clearing rules: as the real one except that calls selected by
   `skip` never clear *)
Definition clears_except (skip : op -> bool) (o : op) (r : outcome bool) : bool :=
  if skip o then false else clears_after o r.

Definition never_clears (o : op) (r : outcome bool) : bool := false.

(* the trace predicate: the outputs observed on a cached enforcer and on its
   uncached twin driven through the same history are the same list *)
Definition outcome_eqb (a b : outcome bool) : bool :=
  match a, b with
  | Ok x, Ok y => Bool.eqb x y
  | Err x, Err y => errc_eqb x y
  | Panic, Panic => true
  | _, _ => false
  end.

Definition c11_pred (cached plain : list (outcome bool)) : bool := list_eqb outcome_eqb cached plain.

(* defective keying: context-qualified and plain requests share one slot *)
Definition strip_ctx (k : ckey) : ckey :=
  match k with CKCtx4 _ _ _ _ rv => CKPlain rv | other => other end.

Section Shared.
  Variable ptab : text -> option expr.
  Definition cenforce_shared (c : cstate) (k : ckey) : cstate * outcome bool :=
    match cache_get (strip_ctx k) (c_cache c) with
    | Some b => (c, Ok b)
    | None =>
      match decide ptab (c_inner c) k with
      | Ok b => ({| c_inner := c_inner c; c_cache := (strip_ctx k, b) :: c_cache c |}, Ok b)
      | other => (c, other)
      end
    end.
  Fixpoint crun_shared (c : cstate) (h : list citem) : list (outcome bool) :=
    match h with
    | [] => []
    | CIOp o :: h' => let (c', r) := cstep c o in r :: crun_shared c' h'
    | CIReq k :: h' => let (c', r) := cenforce_shared c k in r :: crun_shared c' h'
    end.
End Shared.

(* selectors of call kinds for `clears_except` *)
Definition is_clear o := match o with OClear => true | _ => false end.
Definition is_load o := match o with OLoad => true | _ => false end.
Definition is_load_filtered o := match o with OLoadFiltered _ _ => true | _ => false end.
Definition is_set_model o := match o with OSetModel _ => true | _ => false end.
Definition is_set_adapter o := match o with OSetAdapter _ => true | _ => false end.
Definition is_set_rm o := match o with OSetRoleManager _ => true | _ => false end.
Definition is_build o := match o with OBuildRoleLinks => true | _ => false end.
Definition is_enable o := match o with OEnableEnforce _ => true | _ => false end.
Definition is_add_function o := match o with OAddFunction _ _ => true | _ => false end.
Definition is_mgmt o :=
  match o with
  | OAdd _ _ _ | OAddMany _ _ _ | ORemove _ _ _ | ORemoveMany _ _ _ | ORemoveFiltered _ _ _ _ => true
  | _ => false
  end.

(* management calls clear only on Ok true (not when the link update failed) *)
Definition clears_ok_only (o : op) (r : outcome bool) : bool :=
  if is_mgmt o then match r with Ok true => true | _ => false end else clears_after o r.
