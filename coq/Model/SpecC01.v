(* Specification-side entry points for C01 / C17 on an enforcer state. *)
From CV Require Import Model.Base Model.Effector Model.Expr Model.Enforce Model.Engine.

Section S.
  Variable ptab : text -> option expr.
  (* the PERM reference decision for a plain request in state s *)
  Definition perm_ref_plain (s : estate) (rv : list value) : outcome bool :=
    perm_ref ptab (e_enabled s) (e_model s) (e_mexprs s) (e_fs s) s_r s_p s_e s_m (tok s_p s_eft) rv.
  Definition perm_ref_ctx (s : estate) (k : text) (rv : list value) : outcome bool :=
    perm_ref ptab (e_enabled s) (e_model s) (e_mexprs s) (e_fs s)
             (s_r ++ k) (s_p ++ k) (s_e ++ k) (s_m ++ k) (tok (s_p ++ k) s_eft) rv.
  (* hand-assembled EnforceContext: four independent section names *)
  Definition perm_ref_ctx4 (s : estate) (rk pk ek mk : text) (rv : list value) : outcome bool :=
    perm_ref ptab (e_enabled s) (e_model s) (e_mexprs s) (e_fs s) rk pk ek mk (tok pk s_eft) rv.
End S.

Definition outcome_eqb (a b : outcome bool) : bool :=
  match a, b with
  | Ok x, Ok y => Bool.eqb x y
  | Err x, Err y => errc_eqb x y
  | Panic, Panic => true
  | _, _ => false
  end.
