(* Specification-side definitions for C07 (tenants are isolated in domain
   models). Executable definitions only. *)
From CV Require Import Model.Base Model.Effector Model.RoleGraph Model.PathMatch
     Model.Expr Model.Enforce Model.Engine Model.SpecC13.

(* what is stored for one domain: its p/p rules (domain in column 1) and g/g
   rules (domain in column 2), in order, and its role graph *)
Definition view (d : text) (s : estate) : list rule * list rule * option dgraph :=
  (filter (fun r => teqb (nth 1 r []) d) (m_get_policy (e_model s) s_p s_p),
   filter (fun r => teqb (nth 2 r []) d) (m_get_policy (e_model s) s_g s_g),
   graph_of (f_rm (e_fs s)) (Some d)).

(* the two tables of the scope and their domain column *)
Definition is_pp (sec pt : text) : bool := teqb sec s_p && teqb pt s_p.
Definition is_gg (sec pt : text) : bool := teqb sec s_g && teqb pt s_g.
Definition dcol (sec : text) : nat := if teqb sec s_p then 1 else 2.

Definition rule_in (sec pt d' : text) (r : rule) : bool :=
  (is_pp sec pt || is_gg sec pt) && teqb (nth (dcol sec) r []) d'.

(* a filter that pins the domain column to the non-empty value d' *)
Definition filter_in (sec pt d' : text) (idx : nat) (vals : list text) : bool :=
  (is_pp sec pt || is_gg sec pt) && negb (teqb d' []) &&
  Nat.leb idx (dcol sec) && teqb (nth (dcol sec - idx) vals []) d'.

(* the RBAC helpers that are one call of a generic operation *)
Definition rbac_base (o : rbac_op) : option op :=
  match o with
  | RAddPermission u p => Some (OAdd s_p s_p (u :: p))
  | RAddPermissions u ps => Some (OAddMany s_p s_p (map (fun p => u :: p) ps))
  | RAddRole u r d => Some (OAdd s_g s_g (dom_rule u r d))
  | RAddRoles u rs d => Some (OAddMany s_g s_g (map (fun r => dom_rule u r d) rs))
  | RDeleteRole u r d => Some (ORemove s_g s_g (dom_rule u r d))
  | RDeleteRoles u d =>
    Some (ORemoveFiltered s_g s_g 0 (match d with Some x => [u; []; x] | None => [u] end))
  | RDeletePermission p => Some (ORemoveFiltered s_p s_p 1 p)
  | RDeletePermissionFor u p => Some (ORemove s_p s_p (u :: p))
  | RDeletePermissionsFor u => Some (ORemoveFiltered s_p s_p 0 [u])
  | RDeleteUser _ | RDeleteRoleAll _ => None     (* these span all domains *)
  end.

Definition confined_base (d' : text) (o : op) : bool :=
  match o with
  | OAdd sec pt r | ORemove sec pt r => rule_in sec pt d' r
  | OAddMany sec pt rs | ORemoveMany sec pt rs => forallb (rule_in sec pt d') rs
  | ORemoveFiltered sec pt idx vals => filter_in sec pt d' idx vals
  | _ => false
  end.

(* the operation touches only rules / links of domain d' *)
Definition confined (d' : text) (o : op) : bool :=
  match o with
  | ORbac r => match rbac_base r with Some o' => confined_base d' o' | None => false end
  | _ => confined_base d' o
  end.

(* every operation of a history is confined to some domain other than d *)
Definition foreign_op (d : text) (o : op) (d' : text) : bool :=
  negb (teqb d' d) && confined d' o.

(* ---------- the executable predicate ---------- *)
Fixpoint count_rule (r : rule) (l : list rule) : nat :=
  match l with
  | [] => 0
  | x :: l' => (if reqb x r then 1 else 0) + count_rule r l'
  end.
Definition bag_eqb (x y : list rule) : bool :=
  Nat.eqb (length x) (length y) &&
  forallb (fun r => Nat.eqb (count_rule r x) (count_rule r y)) x.

(* equality of canonicalised answers: sets as sets, bags as bags *)
Definition answer_eqb (a b : answer) : bool :=
  match a, b with
  | AnsDec x, AnsDec y => dec_eqb x y
  | AnsRules x, AnsRules y => list_eqb reqb x y
  | AnsRuleBag x, AnsRuleBag y => bag_eqb x y
  | AnsNames x, AnsNames y => list_eqb teqb x y
  | AnsNameSet x, AnsNameSet y => seteqb teqb x y
  | AnsBool x, AnsBool y => Bool.eqb x y
  | AnsPanic, AnsPanic => true
  | _, _ => false
  end.

(* C07 on an observation: the answers to the observed domain's queries taken
   before and after a history confined to other domains coincide *)
Definition c07_pred (before after : list answer) : bool := list_eqb answer_eqb before after.

(* the queries of one domain *)
Definition dom_query (d : text) (q : query) : bool :=
  match q with
  | QEnforce [VStr _; VStr d0; VStr _; VStr _] => teqb d0 d
  | QRolesFor _ (Some d0) | QUsersFor _ (Some d0) | QHasRole _ _ (Some d0)
  | QImplicitRoles _ (Some d0) | QPermsFor _ (Some d0) | QImplicitPerms _ (Some d0)
  | QHasLink _ _ (Some d0) => teqb d0 d
  | _ => false
  end.
