(* C10, file-save atomicity at the level of file-system calls.
   A tiny file system (path -> bytes), the four calls save_policy_file uses,
   and interrupted executions of a call sequence.  Definitions only.

   TRUSTED ASSUMPTIONS (about the operating system, not proved here):
   - `Rename p q` is atomic: an observer (or a crash) sees either the state
     before it or the state after it, never an intermediate one; it replaces
     an existing `q`.  (POSIX rename(2) on one file system.)
   - `Create`, `Remove` are atomic in the same sense; `Append` is NOT: it may
     stop after any prefix of its bytes (short write, ENOSPC, EFBIG, crash).
   - Nothing is assumed or claimed about durability (no fsync is modelled:
     the statements are about the file-system state as seen by the next
     open(), not about what survives a power loss). *)
From CV Require Import Model.Base.

Definition fsys := list (text * list ascii).

Inductive fop :=
| Create (p : text)                      (* open(O_CREAT|O_TRUNC): empty file *)
| Append (p : text) (bytes : list ascii) (* write_all on the open file *)
| Rename (p q : text)                    (* atomic replace of q by p *)
| Remove (p : text).

Definition content (fs : fsys) (p : text) : option (list ascii) := assoc p fs.

Definition apply_fop (fs : fsys) (o : fop) : fsys :=
  match o with
  | Create p => assoc_set p [] fs
  | Append p bs => match assoc p fs with
                   | Some old => assoc_set p (old ++ bs) fs
                   | None => fs                       (* no such file: the call fails *)
                   end
  | Rename p q => match assoc p fs with
                  | Some c => assoc_set q c (assoc_remove p fs)
                  | None => fs                        (* ENOENT *)
                  end
  | Remove p => assoc_remove p fs
  end.

Definition run_fops (fs : fsys) (ops : list fop) : fsys := fold_left apply_fop ops fs.

(* an interrupted execution: the first n calls complete; the next one, if it
   is an Append, writes only the first k of its bytes (k >= length = all of
   them); nothing after it runs *)
Fixpoint run_cut (ops : list fop) (n k : nat) (fs : fsys) : fsys :=
  match ops with
  | [] => fs
  | o :: rest =>
    match n with
    | S n' => run_cut rest n' k (apply_fop fs o)
    | 0 => match o with
           | Append p bs => apply_fop fs (Append p (firstn k bs))
           | _ => fs
           end
    end
  end.

(* FileAdapter::save_policy_file after the repair: write beside the policy
   file, then rename into place *)
Definition save_new (tmp path : text) (bytes : list ascii) : list fop :=
  [Create tmp; Append tmp bytes; Rename tmp path].
(* before the repair: truncate the policy file, then write *)
Definition save_old (path : text) (bytes : list ascii) : list fop :=
  [Create path; Append path bytes].

(* what the repaired code does when create / write_all / flush reported an
   error (n < 2: the rename has not been attempted): remove the temporary
   file, ignore the result.  A crash (process killed) skips this. *)
Definition save_new_failed (tmp path : text) (bytes : list ascii) (n k : nat) (fs : fsys) : fsys :=
  apply_fop (run_cut (save_new tmp path bytes) n k fs) (Remove tmp).

(* the acceptance test: the policy file holds one complete policy *)
Definition opt_bytes_eqb (a b : option (list ascii)) : bool :=
  match a, b with
  | Some x, Some y => teqb x y
  | None, None => true
  | _, _ => false
  end.
Definition complete_policy (old : option (list ascii)) (new : list ascii) (now : option (list ascii)) : bool :=
  opt_bytes_eqb now old || opt_bytes_eqb now (Some new).
