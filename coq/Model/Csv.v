(* Model of util::parse_csv_line (after the ESC_C repair), util::csv_field, the
   policy line loaders and renderers of the file / string adapters. Byte level.
   Executable definitions only.
   The splitter restates `ESC_C.find_iter` of the regex crate as a deterministic
   scanner: the expression always matches at the search position (its second
   alternative accepts the empty string), and find_iter skips an empty match
   adjacent to the previous match by restarting one character further.
   White space = the ASCII members of Unicode White_Space (9-13, 32); values
   starting or ending with NON-ASCII white space are outside the model. *)
From CV Require Import Model.Base.

Definition comma : ascii := ","%char.
Definition dquote : ascii := """"%char.
Definition hash : ascii := "#"%char.

Definition is_ws (c : ascii) : bool :=
  let n := nat_of_ascii c in (Nat.leb 9 n && Nat.leb n 13) || Nat.eqb n 32.

Fixpoint trim_start (s : text) : text :=
  match s with
  | c :: r => if is_ws c then trim_start r else s
  | [] => []
  end.
Definition trim_end (s : text) : text := rev (trim_start (rev s)).
Definition trim (s : text) : text := trim_end (trim_start s).

(* leading white space of s, and the rest *)
Fixpoint span_ws (s : text) : text * text :=
  match s with
  | c :: r => if is_ws c then let (a, b) := span_ws r in (c :: a, b) else ([], s)
  | [] => ([], [])
  end.
Fixpoint span_not (x : ascii) (s : text) : text * text :=
  match s with
  | c :: r => if Ascii.eqb c x then ([], s) else let (a, b) := span_not x r in (c :: a, b)
  | [] => ([], [])
  end.

(* one match of ESC_C at the start of s: (matched span, rest) *)
Definition esc_c_match (s : text) : text * text :=
  let (w, r) := span_ws s in
  match r with
  | c :: r1 =>
    if Ascii.eqb c dquote then
      (* first alternative: blanks, quote, non-quotes, optional quote, blanks *)
      let (body, r2) := span_not dquote r1 in
      match r2 with
      | q :: r3 => let (w2, r4) := span_ws r3 in (w ++ c :: body ++ q :: w2, r4)
      | [] => (w ++ c :: body, [])       (* no closing quote: blanks already in body *)
      end
    else
      (* second alternative: the maximal comma-free run from the start *)
      span_not comma s
  | [] => (w, [])
  end.

(* a column: trimmed; unquoted when it starts and ends with a quote *)
Definition column_of (span : text) : text :=
  let t := trim span in
  match t with
  | c :: r =>
    if Ascii.eqb c dquote then
      match rev r with
      | d :: m => if Ascii.eqb d dquote then rev m else t
      | [] => t
      end
    else t
  | [] => []
  end.

(* find_iter: adj = a previous match ended exactly at the current position *)
Fixpoint scan_cols (fuel : nat) (s : text) (adj : bool) : list text :=
  match fuel with
  | 0 => []
  | S f =>
    let (span, rest) := esc_c_match s in
    match span with
    | [] =>
      match s with
      | [] => if adj then [] else [[]]
      | _ :: s' => if adj then scan_cols f s' false else [] :: scan_cols f s' false
      end
    | _ => column_of span :: scan_cols f rest true
    end
  end.

(* util.rs parse_csv_line *)
Definition parse_csv_line (line : text) : option (list text) :=
  let l := trim line in
  match l with
  | [] => None
  | c :: _ =>
    if Ascii.eqb c hash then None
    else match scan_cols (S (S (length l))) l false with
         | [] => None
         | cols => Some cols
         end
  end.

(* util.rs csv_field *)
Definition csv_field (v : text) : text :=
  if memb Ascii.eqb comma v then dquote :: v ++ [dquote] else v.

Fixpoint join (sep : text) (l : list text) : text :=
  match l with
  | [] => []
  | [x] => x
  | x :: l' => x ++ sep ++ join sep l'
  end.

(* file_adapter.rs / string_adapter.rs save_policy: one line per rule *)
Definition render_line_file (ptype : text) (r : list text) : text :=
  ptype ++ T ", " ++ join [comma] (map csv_field r).
Definition render_line_string (ptype : text) (r : list text) : text :=
  ptype ++ T ", " ++ join (T ", ") (map csv_field r).

(* load_policy_line: skipped when empty or starting with '#' (before trimming) *)
Definition load_line_tokens (line : text) : option (list text) :=
  match line with
  | [] => None
  | c :: _ => if Ascii.eqb c hash then None else parse_csv_line line
  end.

(* str::split('\n') and BufRead::lines (the latter also drops a final '\r',
   which trimming removes anyway, and yields no last empty line) *)
Definition nl : ascii := ascii_of_nat 10.
Fixpoint split_lines (s : text) (cur : text) : list text :=
  match s with
  | [] => [rev cur]
  | c :: r => if Ascii.eqb c nl then rev cur :: split_lines r [] else split_lines r (c :: cur)
  end.
(* the parsed lines an adapter's text stands for (what Engine.v's AFile /
   AString adapters hold) *)
Definition parsed_lines (content : text) : list (list text) :=
  flat_map (fun l => match load_line_tokens l with Some t => [t] | None => [] end)
           (split_lines content []).

(* values the format can carry: non-empty, no quote, no line break, no
   leading/trailing white space, no leading '#' needed only for the first
   column (the policy type) *)
Definition csv_safe (v : text) : bool :=
  match v with
  | [] => false
  | c :: _ =>
    negb (is_ws c) && negb (is_ws (last v c)) &&
    negb (memb Ascii.eqb dquote v) && negb (memb Ascii.eqb nl v) &&
    negb (memb Ascii.eqb (ascii_of_nat 13) v)
  end.
Definition ptype_safe (v : text) : bool :=
  csv_safe v && negb (memb Ascii.eqb comma v) &&
  match v with c :: _ => negb (Ascii.eqb c hash) | [] => false end.

(* layout freedom of a policy line: blanks before / after every column (also
   after a closing quote), optional quoting of comma-free values *)
Record colfmt := { cf_pre : text; cf_post : text; cf_quote : bool }.
Definition blanks_only (s : text) : bool := forallb (fun c => Ascii.eqb c " "%char || Ascii.eqb c (ascii_of_nat 9)) s.
Definition colfmt_ok (f : colfmt) : bool := blanks_only (cf_pre f) && blanks_only (cf_post f).
Definition render_col (f : colfmt) (v : text) : text :=
  cf_pre f ++ (if cf_quote f || memb Ascii.eqb comma v then dquote :: v ++ [dquote] else v) ++ cf_post f.
Fixpoint render_row (fs : list colfmt) (vs : list text) : text :=
  match fs, vs with
  | f :: fs', v :: vs' =>
    render_col f v ++ (match vs' with [] => [] | _ => comma :: render_row fs' vs' end)
  | _, _ => []
  end.

(* ------------------------------------------------------------------ *)
(* wider value classes: a value written in double quotes keeps its inner text
   verbatim, edge white space included (column_of trims the span, strips the
   two quotes and does not trim inside)                                   *)
(* ------------------------------------------------------------------ *)
(* what a QUOTED column can carry: non-empty, no quote, no line break; leading
   and trailing white space allowed *)
Definition csv_safe_q (v : text) : bool :=
  match v with
  | [] => false
  | _ :: _ =>
    negb (memb Ascii.eqb dquote v) && negb (memb Ascii.eqb nl v) &&
    negb (memb Ascii.eqb (ascii_of_nat 13) v)
  end.
Definition has_comma (v : text) : bool := memb Ascii.eqb comma v.
(* what csv_field renders losslessly: it quotes exactly the values containing
   a comma *)
Definition csv_safe_r (v : text) : bool := csv_safe v || (csv_safe_q v && has_comma v).
(* a (format, value) column that reads back as the value: edge white space is
   kept only when the column is written quoted *)
Definition col_ok (f : colfmt) (v : text) : bool :=
  colfmt_ok f && (csv_safe v || (csv_safe_q v && (cf_quote f || has_comma v))).
