(* C20: the lock protocol of concurrent enforcement, as a small-step system.
   Two read-write locks: OUTER (the user's lock around the enforcer: enforce
   under read, management under write) and RM (the role-manager handle,
   parking_lot::RwLock inside casbin). Both are writer-preferring and not
   re-entrant: a queued writer blocks NEW readers.
   Threads run straight-line programs that follow the code's shapes (pinned to
   the source: every guard is a statement temporary, never held across another
   acquisition):
     enforce     = Acq OUTER R; (Acq RM R; read; Rel RM)*; Rel OUTER
     management  = Acq OUTER W; begin; (Acq RM W; write; Rel RM)*; end; Rel OUTER
     handle read = (Acq RM R; read; Rel RM)*
   Data: a version counter of completed management calls and an in-call flag;
   a read records what it saw. Executable/inductive definitions only.
   What this cannot carry: that rustc / parking_lot / mini-moka implement these
   semantics, fairness, memory model, actual run-time behaviour. *)
From CV Require Import Model.Base.

Inductive lockid := OUTER | RM.
Inductive mode := MR | MW.
Definition lockid_eqb (a b : lockid) : bool :=
  match a, b with OUTER, OUTER | RM, RM => true | _, _ => false end.

Inductive instr :=
| Acq (l : lockid) (m : mode)
| Rel (l : lockid)
| Read              (* observe the data under a read guard *)
| Begin | End       (* bracket a management call *)
| Write.            (* one mutation of the role manager under its write guard *)

Record lockst := { readers : nat; writer : bool; wqueue : nat }.
Definition free_lock : lockst := {| readers := 0; writer := false; wqueue := 0 |}.

Record data := { version : nat; in_call : bool; writes : nat }.

Record thread := {
  prog : list instr;                    (* remaining program *)
  held : list (lockid * mode);          (* locks held, most recent first *)
  queued : bool;                        (* registered as a waiting writer for the lock its next Acq names *)
  seen : list (nat * bool);             (* what its Reads observed: (version, in_call) *)
}.

Record sys := { l_outer : lockst; l_rm : lockst; dat : data; threads : list thread }.

Definition get_lock (s : sys) (l : lockid) : lockst :=
  match l with OUTER => l_outer s | RM => l_rm s end.
Definition set_lock (s : sys) (l : lockid) (x : lockst) : sys :=
  match l with
  | OUTER => {| l_outer := x; l_rm := l_rm s; dat := dat s; threads := threads s |}
  | RM => {| l_outer := l_outer s; l_rm := x; dat := dat s; threads := threads s |}
  end.
Definition set_threads (s : sys) (ts : list thread) : sys :=
  {| l_outer := l_outer s; l_rm := l_rm s; dat := dat s; threads := ts |}.
Definition set_data (s : sys) (d : data) : sys :=
  {| l_outer := l_outer s; l_rm := l_rm s; dat := d; threads := threads s |}.

Fixpoint replace_nth {A} (n : nat) (x : A) (l : list A) : list A :=
  match n, l with
  | 0, _ :: r => x :: r
  | S n', y :: r => y :: replace_nth n' x r
  | _, [] => []
  end.

Definition can_read (k : lockst) : bool := negb (writer k) && Nat.eqb (wqueue k) 0.
Definition can_write (k : lockst) : bool := negb (writer k) && Nat.eqb (readers k) 0.

(* one step of thread i; None = the thread cannot move (finished or blocked) *)
Definition step_thread (s : sys) (i : nat) : option sys :=
  match nth_error (threads s) i with
  | None => None
  | Some t =>
    let upd (t' : thread) (s' : sys) := Some (set_threads s' (replace_nth i t' (threads s'))) in
    match prog t with
    | [] => None
    | Acq l MR :: p' =>
      let k := get_lock s l in
      if can_read k then
        upd {| prog := p'; held := (l, MR) :: held t; queued := false; seen := seen t |}
            (set_lock s l {| readers := S (readers k); writer := false; wqueue := wqueue k |})
      else None
    | Acq l MW :: p' =>
      let k := get_lock s l in
      if can_write k then
        upd {| prog := p'; held := (l, MW) :: held t; queued := false; seen := seen t |}
            (set_lock s l {| readers := 0; writer := true;
                             wqueue := if queued t then wqueue k - 1 else wqueue k |})
      else if queued t then None
      else (* register as a waiting writer: new readers are now held back *)
        upd {| prog := prog t; held := held t; queued := true; seen := seen t |}
            (set_lock s l {| readers := readers k; writer := writer k; wqueue := S (wqueue k) |})
    | Rel l :: p' =>
      let k := get_lock s l in
      match held t with
      | (l', m) :: h' =>
        if lockid_eqb l l' then
          upd {| prog := p'; held := h'; queued := false; seen := seen t |}
              (set_lock s l (match m with
                             | MR => {| readers := readers k - 1; writer := writer k; wqueue := wqueue k |}
                             | MW => {| readers := readers k; writer := false; wqueue := wqueue k |}
                             end))
        else None
      | [] => None
      end
    | Read :: p' =>
      upd {| prog := p'; held := held t; queued := false;
             seen := seen t ++ [(version (dat s), in_call (dat s))] |} s
    | Begin :: p' =>
      upd {| prog := p'; held := held t; queued := false; seen := seen t |}
          (set_data s {| version := version (dat s); in_call := true; writes := writes (dat s) |})
    | Write :: p' =>
      upd {| prog := p'; held := held t; queued := false; seen := seen t |}
          (set_data s {| version := version (dat s); in_call := in_call (dat s); writes := S (writes (dat s)) |})
    | End :: p' =>
      upd {| prog := p'; held := held t; queued := false; seen := seen t |}
          (set_data s {| version := S (version (dat s)); in_call := false; writes := writes (dat s) |})
    end
  end.

Inductive sstep : sys -> sys -> Prop :=
| sstep_i : forall s i s', step_thread s i = Some s' -> sstep s s'.

(* a schedule is a list of thread indices; a choice that cannot move is skipped *)
Fixpoint run_schedule (s : sys) (sched : list nat) : sys :=
  match sched with
  | [] => s
  | i :: r => match step_thread s i with
              | Some s' => run_schedule s' r
              | None => run_schedule s r
              end
  end.

(* ---- the thread programs of the code ---- *)
Fixpoint repeat_prog (n : nat) (p : list instr) : list instr :=
  match n with 0 => [] | S n' => p ++ repeat_prog n' p end.
Definition enforce_prog (k : nat) : list instr :=
  Acq OUTER MR :: repeat_prog k [Acq RM MR; Read; Rel RM] ++ [Rel OUTER].
Definition mgmt_prog (k : nat) : list instr :=
  Acq OUTER MW :: Begin :: repeat_prog k [Acq RM MW; Write; Rel RM] ++ [End; Rel OUTER].
Definition handle_read_prog (k : nat) : list instr := repeat_prog k [Acq RM MR; Read; Rel RM].
(* several calls in sequence on one thread *)
Inductive call := CEnforce (k : nat) | CMgmt (k : nat) | CHandle (k : nat).
Definition call_prog (c : call) : list instr :=
  match c with CEnforce k => enforce_prog k | CMgmt k => mgmt_prog k | CHandle k => handle_read_prog k end.
Definition thread_of (cs : list call) : thread :=
  {| prog := flat_map call_prog cs; held := []; queued := false; seen := [] |}.
Definition init_sys (tss : list (list call)) : sys :=
  {| l_outer := free_lock; l_rm := free_lock;
     dat := {| version := 0; in_call := false; writes := 0 |};
     threads := map thread_of tss |}.

Definition all_done (s : sys) : bool := forallb (fun t => match prog t with [] => true | _ => false end) (threads s).
