(* Model of src/effector.rs: DefaultEffector / DefaultEffectStream. *)
From CV Require Import Model.Base.

Inductive eff := Allow | Indet | Deny.
Inductive erule := AllowOverride | DenyOverride | AllowAndDeny | Priority.

Definition eff_eqb (a b : eff) : bool :=
  match a, b with Allow, Allow | Indet, Indet | Deny, Deny => true | _, _ => false end.
Definition is_allow (e : eff) := eff_eqb e Allow.
Definition is_deny (e : eff) := eff_eqb e Deny.

(* the four effect expressions, literally as in effector.rs:39-44 (pinned) *)
Definition s_allow_override : text := T "some(where (p_eft == allow))".
Definition s_deny_override : text := T "!some(where (p_eft == deny))".
Definition s_allow_and_deny : text :=
  T "some(where (p_eft == allow)) && !some(where (p_eft == deny))".
Definition s_priority : text := T "priority(p_eft) || deny".

Definition parse_erule (s : text) : option erule :=
  if teqb s s_allow_override then Some AllowOverride
  else if teqb s s_allow_and_deny then Some AllowAndDeny
  else if teqb s s_priority then Some Priority
  else if teqb s s_deny_override then Some DenyOverride
  else None.

Definition erule_text (r : erule) : text :=
  match r with
  | AllowOverride => s_allow_override
  | DenyOverride => s_deny_override
  | AllowAndDeny => s_allow_and_deny
  | Priority => s_priority
  end.

Record stream := { done : bool; res : bool; idx : nat; cap : nat; srule : erule }.

(* effector.rs:36-56; None = panic (cap = 0 assertion or unsupported text) *)
Definition init_res (r : erule) : bool :=
  match r with DenyOverride => true | _ => false end.

Definition new_stream_r (r : erule) (c : nat) : stream :=
  {| done := false; res := init_res r; idx := 0; cap := c; srule := r |}.

Definition new_stream (e : text) (c : nat) : option stream :=
  if Nat.eqb c 0 then None
  else match parse_erule e with
       | Some r => Some (new_stream_r r c)
       | None => None
       end.

(* effector.rs:77-123 *)
Definition push_core (s : stream) (e : eff) : bool * bool (* done, res *) :=
  match srule s, e with
  | AllowOverride, Allow => (true, true)
  | AllowAndDeny, Allow => (done s, true)
  | AllowAndDeny, Deny => (true, false)
  | DenyOverride, Deny => (true, false)
  | Priority, Allow => (true, true)
  | Priority, Deny => (true, false)
  | _, _ => (done s, res s)
  end.

Definition push (s : stream) (e : eff) : stream :=
  let (d, r) := push_core s e in
  if Nat.eqb (idx s + 1) (cap s)
  then {| done := true; res := r; idx := cap s; cap := cap s; srule := srule s |}
  else {| done := d; res := r; idx := idx s + 1; cap := cap s; srule := srule s |}.

(* effector.rs:61-64; None = assertion failure *)
Definition next (s : stream) : option bool := if done s then Some (res s) else None.

(* what the enforcer does: push until push_effect returns true *)
Fixpoint run (s : stream) (l : list eff) : stream :=
  match l with
  | [] => s
  | e :: l' => let s' := push s e in if done s' then s' else run s' l'
  end.

(* pushing everything, ignoring the flag; the flags after every push *)
Fixpoint push_all (s : stream) (l : list eff) : stream * list bool :=
  match l with
  | [] => (s, [])
  | e :: l' => let s' := push s e in
               let (s'', fl) := push_all s' l' in (s'', done s' :: fl)
  end.

(* ---- declarative meaning (the four logical definitions, verbatim) ---- *)
Fixpoint first_decided (l : list eff) : bool :=
  match l with
  | [] => false
  | Allow :: _ => true
  | Deny :: _ => false
  | Indet :: l' => first_decided l'
  end.

Definition decl (r : erule) (l : list eff) : bool :=
  match r with
  | AllowOverride => existsb is_allow l
  | DenyOverride => negb (existsb is_deny l)
  | AllowAndDeny => existsb is_allow l && negb (existsb is_deny l)
  | Priority => first_decided l
  end.

(* forced r p = Some b  iff  every continuation of p has declarative result b *)
Definition forced (r : erule) (p : list eff) : option bool :=
  match r with
  | AllowOverride => if existsb is_allow p then Some true else None
  | DenyOverride => if existsb is_deny p then Some false else None
  | AllowAndDeny => if existsb is_deny p then Some false else None
  | Priority => if existsb (fun e => negb (eff_eqb e Indet)) p
                then Some (first_decided p) else None
  end.

(* ---- the observation the harness makes, and the property predicate ---- *)
Record eobs := { o_flags : list bool;        (* flag after every push (push_all) *)
                 o_run : option bool;        (* next() after pushing until first true *)
                 o_all : option bool }.      (* next() after pushing everything *)

Definition observe_effector (r : erule) (l : list eff) : eobs :=
  let s0 := new_stream_r r (length l) in
  let (sa, fl) := push_all s0 l in
  {| o_flags := fl; o_run := next (run s0 l); o_all := next sa |}.

Fixpoint first_true (l : list bool) (i : nat) : option nat :=
  match l with
  | [] => None
  | true :: _ => Some i
  | false :: l' => first_true l' (S i)
  end.

Definition obool_eqb (a b : option bool) : bool :=
  match a, b with
  | Some x, Some y => Bool.eqb x y
  | None, None => true
  | _, _ => false
  end.

(* C02 as a decidable predicate on an observation (implementation's or model's):
   (1) stopping at the first completion yields the declarative result;
   (2) the last flag is true (complete once cap effects were pushed);
   (3) if completion is signalled before the end, the result is forced for
       every continuation. *)
Definition c02_pred (r : erule) (l : list eff) (o : eobs) : bool :=
  match l with
  | [] => true
  | _ =>
    obool_eqb (o_run o) (Some (decl r l))
    && Nat.eqb (length (o_flags o)) (length l)
    && last (o_flags o) false
    && match first_true (o_flags o) 0 with
       | Some i => if Nat.ltb (i + 1) (length l)
                   then obool_eqb (forced r (firstn (i + 1) l)) (o_run o)
                   else true
       | None => false
       end
  end.
