(* C09 — executable vocabulary: what a MemoryAdapter stores for one
   (section, ptype), the boolean form of "adapter and model are in sync",
   the well-formedness of model keys, and the class of management calls the
   property quantifies over.  Executable definitions only. *)
From CV Require Import Model.Base Model.Effector Model.RoleGraph Model.PathMatch
     Model.Expr Model.Enforce Model.Engine.

(* a memory line `sec :: ptype :: fields` belongs to (sec, pt) *)
Definition line_of (sec pt : text) (ln : rule) : bool :=
  match ln with s :: p :: _ => teqb s sec && teqb p pt | _ => false end.
(* the rules stored for (sec, pt), in storage order *)
Definition lines_for (sec pt : text) (l : list rule) : list rule :=
  map (skipn 2) (filter (line_of sec pt) l).

(* the lines of a MemoryAdapter, possibly behind one scripting wrapper *)
Definition mem0 (a : adapter) : option (list rule) :=
  match a with AMemory l _ => Some l | _ => None end.
Definition mem_of (a : adapter) : option (list rule) :=
  match a with AScripted i _ => mem0 i | _ => mem0 a end.

Definition is_pg (sec : text) : bool := teqb sec s_p || teqb sec s_g.

Definition rules_eqb : list rule -> list rule -> bool := list_eqb reqb.
Fixpoint nodupb (l : list rule) : bool :=
  match l with [] => true | x :: r => negb (rmem x r) && nodupb r end.
Fixpoint tnodupb (l : list text) : bool :=
  match l with [] => true | x :: r => negb (memb teqb x r) && tnodupb r end.

(* every definition of section sec holds exactly the adapter's rules *)
Definition sec_sync_b (l : list rule) (md : model) (sec : text) : bool :=
  match assoc sec md with
  | None => true
  | Some am =>
    forallb (fun k => match assoc k am with
                      | Some a => rules_eqb (lines_for sec k l) (a_policy a)
                      | None => true end) (map fst am)
  end.
Definition sync_lines_b (l : list rule) (md : model) : bool :=
  nodupb l && sec_sync_b l md s_p && sec_sync_b l md s_g.
Definition adapter_sync_b (s : estate) : bool :=
  match mem_of (e_adapter s) with
  | Some l => sync_lines_b l (e_model s)
  | None => false
  end.

(* keys of sections p and g: pairwise distinct (they are HashMap keys in the
   code) and starting with the section letter (p, p2, ... / g, g2, ...) *)
Definition first_is (sec k : text) : bool :=
  match first_char k with Some c => teqb c sec | None => false end.
Definition sec_keys_ok_b (md : model) (sec : text) : bool :=
  match assoc sec md with
  | None => true
  | Some am => tnodupb (map fst am) && forallb (first_is sec) (map fst am)
  end.
Definition keys_ok_b (md : model) : bool := sec_keys_ok_b md s_p && sec_keys_ok_b md s_g.

(* every policy list of sections p and g is duplicate-free *)
Definition sec_pol_nodup_b (md : model) (sec : text) : bool :=
  match assoc sec md with
  | None => true
  | Some am => forallb (fun ka => nodupb (a_policy (snd ka))) am
  end.
Definition pol_nodup_b (md : model) : bool := sec_pol_nodup_b md s_p && sec_pol_nodup_b md s_g.

(* the calls C09 quantifies over: everything except the calls that swap the
   model or the adapter, load a subset on purpose, or switch auto-save off *)
Definition c09_op (o : op) : bool :=
  match o with
  | OLoadFiltered _ _ | OSetModel _ | OSetAdapter _ | OEnableAutoSave false => false
  | _ => true
  end.

(* what a reload would deliver for (sec, pt), computed from the adapter
   contents alone (ideal ordered-set semantics, independent of load_mem_line) *)
Definition c09_pred (lines : list rule) (sec pt : text) (in_memory : list rule) : bool :=
  rules_eqb (lines_for sec pt lines) in_memory.

(* a parsed CSV line `ptype :: fields` seen as a memory line: the section is
   the first character of the ptype; lines without a ptype carry nothing *)
Definition to_mem (ln : rule) : list rule :=
  match ln with (c :: kr) :: fields => [[c] :: (c :: kr) :: fields] | _ => [] end.
Definition conv (l : list rule) : list rule := flat_map to_mem l.
(* what a bundled adapter stores, in memory-line format *)
Definition stored_lines (a : adapter) : option (list rule) :=
  match a with
  | AMemory l _ => Some l
  | AFile l _ | AString l _ => Some (conv l)
  | _ => None
  end.
Definition is_bundled (a : adapter) : bool :=
  match a with AMemory _ _ | AFile _ _ | AString _ _ => true | _ => false end.
