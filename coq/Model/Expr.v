(* Model of the matcher-expression fragment of rhai (pinned 1.x, features
   no_optimize, only_i32, no_float) as casbin uses it, of util::escape_assertion,
   and a printer from expressions to matcher text. Executable definitions only.
   rhai's parser/evaluator are third-party: this file restates their measured
   behaviour; its tie to the real engine is the correspondence run. *)
From CV Require Import Model.Base Model.PathMatch.
From Coq Require Export ZArith.

(* ---------- values ---------- *)
Inductive scalar := SStr (s : text) | SInt (z : Z) | SBool (b : bool).
Inductive value :=
| VStr (s : text) | VInt (z : Z) | VBool (b : bool) | VUnit
| VMap (fs : list (text * scalar)).   (* flat attribute map, keys sorted and distinct *)

Definition of_scalar (s : scalar) : value :=
  match s with SStr x => VStr x | SInt z => VInt z | SBool b => VBool b end.

Definition seqb (a b : scalar) : bool :=
  match a, b with
  | SStr x, SStr y => teqb x y
  | SInt x, SInt y => Z.eqb x y
  | SBool x, SBool y => Bool.eqb x y
  | _, _ => false
  end.

(* rhai `==`: false across types, by value within a type *)
Definition veqb (a b : value) : bool :=
  match a, b with
  | VStr x, VStr y => teqb x y
  | VInt x, VInt y => Z.eqb x y
  | VBool x, VBool y => Bool.eqb x y
  | VUnit, VUnit => true
  | VMap x, VMap y => list_eqb (fun p q => teqb (fst p) (fst q) && seqb (snd p) (snd q)) x y
  | _, _ => false
  end.

Inductive cmpop := CLt | CLe | CGt | CGe.

(* byte-wise lexicographic order, as Rust's String Ord *)
Fixpoint tcompare (a b : text) : comparison :=
  match a, b with
  | [], [] => Eq
  | [], _ :: _ => Lt
  | _ :: _, [] => Gt
  | x :: a', y :: b' =>
    match Nat.compare (nat_of_ascii x) (nat_of_ascii y) with
    | Eq => tcompare a' b'
    | c => c
    end
  end.

Definition cmp_holds (c : cmpop) (o : comparison) : bool :=
  match c, o with
  | CLt, Lt => true | CLe, Lt => true | CLe, Eq => true
  | CGt, Gt => true | CGe, Gt => true | CGe, Eq => true
  | _, _ => false
  end.

Definition bool_compare (a b : bool) : comparison :=
  match a, b with
  | false, true => Lt | true, false => Gt | _, _ => Eq
  end.

(* ---------- expressions ---------- *)
Inductive expr :=
| ELit (v : scalar)
| EVar (pre fld : text)            (* r.sub: pre = "r", fld = "sub"; token r_sub *)
| EProp (e : expr) (f : text)      (* e.f *)
| EEq (a b : expr)
| ENeq (a b : expr)
| ECmp (c : cmpop) (a b : expr)
| EAnd (a b : expr)
| EOr (a b : expr)
| ENot (a : expr)
| EIn (a : expr) (xs : list expr)  (* a in [x1, ..., xn] *)
| ECall (f : text) (args : list expr)
| EEval (pre fld : text).          (* eval(p.rule): the argument is a variable *)

Inductive eres := EV (v : value) | EErr | EPanic.

Definition underscore : ascii := "_"%char.
Definition dot : ascii := "."%char.
Definition tok (pre fld : text) : text := pre ++ underscore :: fld.

(* ---------- util::escape_assertion: at a word boundary, `r` or `p`, digits, `.`
   becomes the same with `_` for the dot (regex ESC_A, pinned) ---------- *)
Definition is_digit (c : ascii) : bool :=
  let n := nat_of_ascii c in Nat.leb 48 n && Nat.leb n 57.
(* ASCII word characters; bytes >= 128 are treated as word characters (the
   regex crate's \b is Unicode-aware: modelling limit for non-ASCII text
   directly before r./p.) *)
Definition is_word (c : ascii) : bool :=
  let n := nat_of_ascii c in
  (Nat.leb 48 n && Nat.leb n 57) || (Nat.leb 65 n && Nat.leb n 90) ||
  (Nat.leb 97 n && Nat.leb n 122) || Nat.eqb n 95 || Nat.leb 128 n.

(* after zero or more digits comes a '.' *)
Fixpoint tok_ahead (s : text) : bool :=
  match s with
  | [] => false
  | c :: s' => if Ascii.eqb c dot then true else if is_digit c then tok_ahead s' else false
  end.

Definition is_rp (c : ascii) : bool := Ascii.eqb c "r"%char || Ascii.eqb c "p"%char.

Fixpoint esc_go (rw prevw : bool) (s : text) : text :=
  match s with
  | [] => []
  | c :: s' =>
    if rw then
      if is_digit c then c :: esc_go true true s'
      else underscore :: esc_go false false s'          (* the '.' *)
    else if negb prevw && is_rp c && tok_ahead s' then c :: esc_go true true s'
    else c :: esc_go false (is_word c) s'
  end.

Definition escape_assertion (s : text) : text := esc_go false false s.

(* ---------- evaluation ---------- *)
Section Eval.
  (* registered functions: name, evaluated arguments -> result.
     `None` = no function of that name for these argument types *)
  Variable call : text -> list value -> option eres.
  (* rhai's parser on the texts eval() may receive: a section variable, the
     theorems hold for every table *)
  Variable ptab : text -> option expr.
  Variable sc : list (text * value).     (* innermost binding first *)

  Definition as_bool (r : eres) : eres :=
    match r with
    | EV (VBool b) => EV (VBool b)
    | EV _ => EErr
    | other => other
    end.

  Definition cmp_values (c : cmpop) (x y : value) : eres :=
    match x, y with
    | VInt a, VInt b => EV (VBool (cmp_holds c (Z.compare a b)))
    | VStr a, VStr b => EV (VBool (cmp_holds c (tcompare a b)))
    | VBool a, VBool b => EV (VBool (cmp_holds c (bool_compare a b)))
    | VMap _, VMap _ => EErr
    | _, _ => EV (VBool false)
    end.

  Fixpoint eval (fuel : nat) : expr -> eres :=
    fix ev (e : expr) : eres :=
      match e with
      | ELit v => EV (of_scalar v)
      | EVar p f => match assoc (tok p f) sc with Some v => EV v | None => EErr end
      | EProp a f =>
        match ev a with
        | EV (VMap fs) => EV (match assoc f fs with Some s => of_scalar s | None => VUnit end)
        | EV _ => EErr
        | other => other
        end
      | EEq a b =>
        match ev a with
        | EV x => match ev b with EV y => EV (VBool (veqb x y)) | other => other end
        | other => other
        end
      | ENeq a b =>
        match ev a with
        | EV x => match ev b with EV y => EV (VBool (negb (veqb x y))) | other => other end
        | other => other
        end
      | ECmp c a b =>
        match ev a with
        | EV x => match ev b with EV y => cmp_values c x y | other => other end
        | other => other
        end
      | EAnd a b =>
        match as_bool (ev a) with
        | EV (VBool true) => as_bool (ev b)
        | other => other
        end
      | EOr a b =>
        match as_bool (ev a) with
        | EV (VBool false) => as_bool (ev b)
        | other => other
        end
      | ENot a =>
        match as_bool (ev a) with
        | EV (VBool b) => EV (VBool (negb b))
        | other => other
        end
      | EIn a xs =>
        match ev a with
        | EV x =>
          (fix go (l : list expr) (found : bool) : eres :=
             match l with
             | [] => EV (VBool found)
             | y :: l' => match ev y with
                          | EV v => go l' (found || veqb x v)
                          | other => other
                          end
             end) xs false
        | other => other
        end
      | ECall f args =>
        (fix go (l : list expr) (acc : list value) : eres :=
           match l with
           | [] => match call f (rev acc) with Some r => r | None => EErr end
           | y :: l' => match ev y with
                        | EV v => go l' (v :: acc)
                        | other => other
                        end
           end) args []
      | EEval p f =>
        match fuel with
        | 0 => EErr
        | S fuel' =>
          match assoc (tok p f) sc with
          | Some (VStr s) =>
            if teqb s [] then EV VUnit
            else match ptab (escape_assertion s) with
                 | Some e' => eval fuel' e'
                 | None => EErr
                 end
          | _ => EErr
          end
        end
      end.
End Eval.

(* ---------- printer: expression -> matcher text as written in a .conf ---------- *)
Definition tcat (l : list text) : text := concat l.

Definition quote : ascii := """"%char.
Definition backslash : ascii := "\"%char.
Fixpoint esc_lit (s : text) : text :=
  match s with
  | [] => []
  | c :: s' => if Ascii.eqb c quote || Ascii.eqb c backslash then backslash :: c :: esc_lit s'
               else c :: esc_lit s'
  end.

Definition digit_char (n : nat) : ascii := ascii_of_nat (48 + n).
Fixpoint print_pos_fuel (fuel : nat) (n : N) (acc : text) : text :=
  match fuel with
  | 0 => acc
  | S f => let d := N.to_nat (N.modulo n 10) in
           let q := N.div n 10 in
           if N.eqb q 0 then digit_char d :: acc else print_pos_fuel f q (digit_char d :: acc)
  end.
Definition print_Z (z : Z) : text :=
  match z with
  | Z0 => T "0"
  | Zpos p => print_pos_fuel 20 (Npos p) []
  | Zneg p => "-"%char :: print_pos_fuel 20 (Npos p) []
  end.

Definition print_scalar (v : scalar) : text :=
  match v with
  | SStr s => quote :: esc_lit s ++ [quote]
  | SInt z => print_Z z
  | SBool true => T "true"
  | SBool false => T "false"
  end.

Definition cmp_text (c : cmpop) : text :=
  match c with CLt => T " < " | CLe => T " <= " | CGt => T " > " | CGe => T " >= " end.

Definition paren (s : text) : text := "("%char :: s ++ [")"%char].

Fixpoint sep_by (sep : text) (l : list text) : text :=
  match l with
  | [] => []
  | [x] => x
  | x :: l' => x ++ sep ++ sep_by sep l'
  end.

(* precedences as in rhai: || 1 < && 2 < ==,!= 3 < in 4 < <,<=,>,>= 5 < unary/atoms 6.
   An expression is parenthesised when its precedence is below the context
   level. Operands of ==, !=, in and comparisons are printed at level 6 (atoms
   bare, everything else parenthesised); && and || are left-associative. *)
Definition wrap (ctx prec : nat) (s : text) : text :=
  if Nat.ltb prec ctx then paren s else s.

Fixpoint print_expr_at (ctx : nat) (e : expr) : text :=
  match e with
  | ELit v => print_scalar v
  | EVar p f => p ++ dot :: f
  | EProp a f => print_expr_at 6 a ++ dot :: f
  | EEq a b => wrap ctx 3 (print_expr_at 6 a ++ T " == " ++ print_expr_at 6 b)
  | ENeq a b => wrap ctx 3 (print_expr_at 6 a ++ T " != " ++ print_expr_at 6 b)
  | ECmp c a b => wrap ctx 5 (print_expr_at 6 a ++ cmp_text c ++ print_expr_at 6 b)
  | EAnd a b => wrap ctx 2 (print_expr_at 2 a ++ T " && " ++ print_expr_at 3 b)
  | EOr a b => wrap ctx 1 (print_expr_at 1 a ++ T " || " ++ print_expr_at 2 b)
  | ENot a => wrap ctx 6 ("!"%char :: print_expr_at 7 a)
  | EIn a xs =>
    wrap ctx 4 (print_expr_at 6 a ++ T " in [" ++ sep_by (T ", ") (map (print_expr_at 0) xs) ++ T "]")
  | ECall f args => f ++ paren (sep_by (T ", ") (map (print_expr_at 0) args))
  | EEval p f => T "eval(" ++ p ++ dot :: f ++ T ")"
  end.

Definition print_expr (e : expr) : text := print_expr_at 0 e.
