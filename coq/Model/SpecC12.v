(* C12 — specification of filtered loading, independent of the loaders:
   which rules a filter keeps, the filtered model, and the predicate on
   observed data.
   Executable definitions only. *)
From CV Require Import Model.Base Model.Effector Model.RoleGraph Model.PathMatch
     Model.Expr Model.Enforce Model.Engine Model.SpecC09.

(* for every i: f[i] = "" or (i < length rule and rule[i] = f[i]) *)
Fixpoint keeps (f : list text) (r : rule) : bool :=
  match f with
  | [] => true
  | v :: vs =>
    (teqb v [] || match r with [] => false | x :: _ => teqb x v end) && keeps vs (tl r)
  end.

(* rewrite every policy list of one section *)
Definition map_sec (md : model) (sec : text) (g : list rule -> list rule) : model :=
  match assoc sec md with
  | Some am =>
    assoc_set sec (map (fun ka => (fst ka, with_policy (snd ka) (g (a_policy (snd ka))))) am) md
  | None => md
  end.

(* the filtered model: section p keeps the rules passing fp, section g those
   passing fg; rules unchanged, order kept, every other section untouched *)
Definition filter_spec (fp fg : list text) (md : model) : model :=
  map_sec (map_sec md s_p (filter (keeps fp))) s_g (filter (keeps fg)).

(* a stored line (memory format) is left out by the filters *)
Definition line_out (fp fg : list text) (ln : rule) : bool :=
  match ln with
  | sec :: _ :: fields => negb (keeps (sec_filter fp fg sec) fields)
  | _ => false
  end.
(* observed data, in m_get_all format (`sec :: ptype :: fields`): the rules of
   sections p and g after a full load and after the filtered load, and the
   is_filtered flag after the filtered load *)
Definition c12_subset (f : list text) (full loaded : list rule) : bool :=
  rules_eqb loaded (filter (fun ln => keeps f (skipn 2 ln)) full).
Definition c12_flag (full_p full_g loaded_p loaded_g : list rule) (flag : bool) : bool :=
  Bool.eqb flag (negb (rules_eqb (loaded_p ++ loaded_g) (full_p ++ full_g))).
Definition c12_pred (fp fg : list text) (full_p full_g loaded_p loaded_g : list rule)
           (flag : bool) : bool :=
  c12_subset fp full_p loaded_p && c12_subset fg full_g loaded_g &&
  c12_flag full_p full_g loaded_p loaded_g flag.
