(* Model of src/cached_enforcer.rs (after the fix: commits): an Enforcer plus a
   decision cache keyed by the request values (and the context for
   context-qualified requests). mini-moka may forget entries at any time
   (capacity 200, TinyLFU admission): theorems are stated for every sub-cache.
   The 64-bit SipHash of the key is assumed injective on the keys in play. *)
From CV Require Import Model.Base Model.Expr Model.Enforce Model.Engine.

Inductive ckey :=
| CKPlain (rv : list value)
| CKCtx4 (rk pk ek mk : text) (rv : list value).   (* EnforceContext {r_type, p_type, e_type, m_type} *)

(* EnforceContext::new(k) *)
Definition CKCtx (k : text) (rv : list value) : ckey :=
  CKCtx4 (s_r ++ k) (s_p ++ k) (s_e ++ k) (s_m ++ k) rv.

Definition ckey_eqb (a b : ckey) : bool :=
  match a, b with
  | CKPlain x, CKPlain y => list_eqb veqb x y
  | CKCtx4 r1 p1 e1 m1 x, CKCtx4 r2 p2 e2 m2 y =>
    teqb r1 r2 && teqb p1 p2 && teqb e1 e2 && teqb m1 m2 && list_eqb veqb x y
  | _, _ => false
  end.

Record cstate := { c_inner : estate; c_cache : list (ckey * bool) }.

Fixpoint cache_get (k : ckey) (l : list (ckey * bool)) : option bool :=
  match l with
  | [] => None
  | (k', b) :: l' => if ckey_eqb k k' then Some b else cache_get k l'
  end.

Section CachedEnforce.
  Variable ptab : text -> option expr.

  Definition decide (s : estate) (k : ckey) : outcome bool :=
    match k with
    | CKPlain rv => enforce ptab s rv
    | CKCtx4 rk pk ek mk rv => enforce_with_ctx4 ptab s rk pk ek mk rv
    end.

  (* CachedEnforcer::enforce / enforce_with_context: a hit answers from the
     cache; a miss evaluates and stores the decision only when it is Ok *)
  Definition cenforce (c : cstate) (k : ckey) : cstate * outcome bool :=
    match cache_get k (c_cache c) with
    | Some b => (c, Ok b)
    | None =>
      match decide (c_inner c) k with
      | Ok b => ({| c_inner := c_inner c; c_cache := (k, b) :: c_cache c |}, Ok b)
      | other => (c, other)
      end
    end.
End CachedEnforce.

(* does the call clear the cache? management calls emit ClearCache when the
   model reported a change (also when the role-link update fails afterwards);
   the delegating mutators clear unconditionally (pinned to the source) *)
Definition clears_after (o : op) (r : outcome bool) : bool :=
  match o with
  | OAdd _ _ _ | OAddMany _ _ _ | ORemove _ _ _ | ORemoveMany _ _ _ | ORemoveFiltered _ _ _ _ =>
    match r with
    | Ok true => true
    | Err e => negb (errc_eqb e EAdapter)
    | _ => false
    end
  | OClear | OLoad | OLoadFiltered _ _ | OSetModel _ | OSetAdapter _ | OSetRoleManager _
  | OBuildRoleLinks | OEnableEnforce _ | OSetEffector | OAddFunction _ _ => true
  | OSave | OEnableAutoSave _ | OEnableAutoBuild _ | OEnableAutoNotify _ => false
  | ORbac _ => false   (* expanded into primitive calls below *)
  end.

Definition cstep_prim (c : cstate) (o : op) : cstate * outcome bool :=
  let (s', r) := step (c_inner c) o in
  ({| c_inner := s'; c_cache := if clears_after o r then [] else c_cache c |}, r).

(* rbac_api.rs: every helper is one or two management calls *)
Definition rbac_prims (o : rbac_op) : op * option op :=
  match o with
  | RAddPermission u p => (OAdd s_p s_p (u :: p), None)
  | RAddPermissions u ps => (OAddMany s_p s_p (map (fun p => u :: p) ps), None)
  | RAddRole u r d => (OAdd s_g s_g (dom_rule u r d), None)
  | RAddRoles u rs d => (OAddMany s_g s_g (map (fun r => dom_rule u r d) rs), None)
  | RDeleteRole u r d => (ORemove s_g s_g (dom_rule u r d), None)
  | RDeleteRoles u d =>
    (ORemoveFiltered s_g s_g 0 (match d with Some x => [u; []; x] | None => [u] end), None)
  | RDeleteUser n => (ORemoveFiltered s_g s_g 0 [n], Some (ORemoveFiltered s_p s_p 0 [n]))
  | RDeleteRoleAll n => (ORemoveFiltered s_g s_g 1 [n], Some (ORemoveFiltered s_p s_p 0 [n]))
  | RDeletePermission p => (ORemoveFiltered s_p s_p 1 p, None)
  | RDeletePermissionFor u p => (ORemove s_p s_p (u :: p), None)
  | RDeletePermissionsFor u => (ORemoveFiltered s_p s_p 0 [u], None)
  end.

Definition cstep (c : cstate) (o : op) : cstate * outcome bool :=
  match o with
  | ORbac r =>
    let (o1, o2) := rbac_prims r in
    match cstep_prim c o1 with
    | (c1, Ok a) =>
      match o2 with
      | None => (c1, Ok a)
      | Some o2' => match cstep_prim c1 o2' with
                    | (c2, Ok b) => (c2, Ok (a || b))
                    | other => other
                    end
      end
    | other => other
    end
  | _ => cstep_prim c o
  end.

(* histories interleaving calls and requests *)
Inductive citem := CIOp (o : op) | CIReq (k : ckey).

Section Runs.
  Variable ptab : text -> option expr.
  Fixpoint crun (c : cstate) (h : list citem) : list (outcome bool) :=
    match h with
    | [] => []
    | CIOp o :: h' => let (c', r) := cstep c o in r :: crun c' h'
    | CIReq k :: h' => let (c', r) := cenforce ptab c k in r :: crun c' h'
    end.
  Fixpoint prun (s : estate) (h : list citem) : list (outcome bool) :=
    match h with
    | [] => []
    | CIOp o :: h' => let (s', r) := step s o in r :: prun s' h'
    | CIReq k :: h' => decide ptab s k :: prun s h'
    end.
End Runs.
