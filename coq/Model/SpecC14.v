(* C14 — change notifications are a faithful changelog: the specification
   side.  A replica that folds the notification stream with IDEAL ordered-set
   operations, the classification of the public operations into adapter/model
   calls, and an executable predicate over observed traces.
   Executable definitions only; nothing here runs the model's `step`. *)
From CV Require Import Model.Base Model.Effector Model.RoleGraph Model.PathMatch
     Model.Expr Model.Enforce Model.Engine.

(* ---------- which internal calls a public operation makes ---------- *)
Inductive prim :=
| PAdd (sec pt : text) (r : rule)
| PAddMany (sec pt : text) (rs : list rule)
| PRemove (sec pt : text) (r : rule)
| PRemoveMany (sec pt : text) (rs : list rule)
| PRemoveFiltered (sec pt : text) (idx : nat) (vals : list text).

Definition rbac_prim (o : rbac_op) : option prim :=
  match o with
  | RAddPermission u p => Some (PAdd s_p s_p (u :: p))
  | RAddPermissions u ps => Some (PAddMany s_p s_p (map (fun p => u :: p) ps))
  | RAddRole u r d => Some (PAdd s_g s_g (dom_rule u r d))
  | RAddRoles u rs d => Some (PAddMany s_g s_g (map (fun r => dom_rule u r d) rs))
  | RDeleteRole u r d => Some (PRemove s_g s_g (dom_rule u r d))
  | RDeleteRoles u d =>
    Some (PRemoveFiltered s_g s_g 0 (match d with Some x => [u; []; x] | None => [u] end))
  | RDeleteUser _ | RDeleteRoleAll _ => None
  | RDeletePermission p => Some (PRemoveFiltered s_p s_p 1 p)
  | RDeletePermissionFor u p => Some (PRemove s_p s_p (u :: p))
  | RDeletePermissionsFor u => Some (PRemoveFiltered s_p s_p 0 [u])
  end.
Definition rbac_two (o : rbac_op) : option (prim * prim) :=
  match o with
  | RDeleteUser n => Some (PRemoveFiltered s_g s_g 0 [n], PRemoveFiltered s_p s_p 0 [n])
  | RDeleteRoleAll n => Some (PRemoveFiltered s_g s_g 1 [n], PRemoveFiltered s_p s_p 0 [n])
  | _ => None
  end.

(* the single-call management operations *)
Definition op_prim (o : op) : option prim :=
  match o with
  | OAdd sec pt r => Some (PAdd sec pt r)
  | OAddMany sec pt rs => Some (PAddMany sec pt rs)
  | ORemove sec pt r => Some (PRemove sec pt r)
  | ORemoveMany sec pt rs => Some (PRemoveMany sec pt rs)
  | ORemoveFiltered sec pt idx vals => Some (PRemoveFiltered sec pt idx vals)
  | ORbac r => rbac_prim r
  | _ => None
  end.
(* the two-call RBAC helpers (delete_user, delete_role) *)
Definition op_two (o : op) : option (prim * prim) :=
  match o with ORbac r => rbac_two r | _ => None end.

Definition is_mgmt (o : op) : bool :=
  match op_prim o, op_two o with None, None => false | _, _ => true end.
(* operations that may change the stored policy and are notified *)
Definition mutating (o : op) : bool :=
  is_mgmt o || match o with OClear => true | _ => false end.
(* operations whose policy changes are NOT notified by the code at all
   (a reload or a reconfiguration): outside the changelog *)
Definition notified_op (o : op) : bool :=
  match o with
  | OLoad | OLoadFiltered _ _ | OSetModel _ | OSetAdapter _ => false
  | _ => true
  end.

(* every mutating call of the history runs with notifications on; toggles may
   occur anywhere, any number of times.  n = the flag before the history *)
Fixpoint toggles_ok (n : bool) (ops : list op) : bool :=
  match ops with
  | [] => true
  | OEnableAutoNotify b :: rest => toggles_ok b rest
  | o :: rest => (negb (mutating o) || n) && toggles_ok n rest
  end.

(* ---------- the replica ---------- *)
(* the p and g policies per (section, policy type), in definition order *)
Definition store := list ((text * text) * list rule).

Definition key_eqb (sec pt : text) (k : text * text) : bool := teqb sec (fst k) && teqb pt (snd k).

(* update the list of (sec, pt); an unknown key is ignored *)
Fixpoint st_upd (st : store) (sec pt : text) (f : list rule -> list rule) : store :=
  match st with
  | [] => []
  | (k, l) :: st' => if key_eqb sec pt k then (k, f l) :: st' else (k, l) :: st_upd st' sec pt f
  end.
Fixpoint st_get (st : store) (sec pt : text) : option (list rule) :=
  match st with
  | [] => None
  | (k, l) :: st' => if key_eqb sec pt k then Some l else st_get st' sec pt
  end.

(* ideal insertion-ordered sets *)
Definition os_mem (r : rule) (l : list rule) : bool := existsb (reqb r) l.
Definition os_add (l : list rule) (r : rule) : list rule := if os_mem r l then l else l ++ [r].
Definition os_add_many (l : list rule) (rs : list rule) : list rule := fold_left os_add rs l.
Definition os_remove (l : list rule) (r : rule) : list rule := filter (fun x => negb (reqb x r)) l.
Definition os_remove_many (l : list rule) (rs : list rule) : list rule :=
  filter (fun x => negb (os_mem x rs)) l.
(* old minus new, in the order of old *)
Definition os_diff (old new : list rule) : list rule := filter (fun x => negb (os_mem x new)) old.

(* EvSave: the primary's policy does not change on a save, so the replica does
   not either; that the snapshot it carries equals the replica is CHECKED (by
   c14_pred / proved in save_snapshot_is_replica), which is the stricter test:
   a replica that reloaded itself from the snapshot would hide an earlier
   divergence. EvClear empties every tracked list (only p and g are tracked). *)
Definition apply_event (st : store) (ev : event) : store :=
  match ev with
  | EvAdd sec pt r => st_upd st sec pt (fun l => os_add l r)
  | EvAddMany sec pt rs => st_upd st sec pt (fun l => os_add_many l rs)
  | EvRemove sec pt r => st_upd st sec pt (fun l => os_remove l r)
  | EvRemoveMany sec pt rs => st_upd st sec pt (fun l => os_remove_many l rs)
  | EvRemoveFiltered sec pt rs => st_upd st sec pt (fun l => os_remove_many l rs)
  | EvSave _ => st
  | EvClear => map (fun e => (fst e, [])) st
  end.
Definition replay (evs : list event) (st : store) : store := fold_left apply_event evs st.

(* the listing get_all_policy ("p") / get_all_grouping_policy ("g") of a store *)
Definition st_flat (sec : text) (st : store) : list rule :=
  flat_map (fun e => if teqb (fst (fst e)) sec
                     then map (fun r => sec :: snd (fst e) :: r) (snd e) else []) st.

(* the primary's store *)
Definition sec_store (md : model) (sec : text) : store :=
  match assoc sec md with
  | Some am => map (fun ka => ((sec, fst ka), a_policy (snd ka))) am
  | None => []
  end.
Definition store_of (md : model) : store := sec_store md s_p ++ sec_store md s_g.

(* every role definition has at least two placeholders (what the model
   loader guarantees; see clear_needs_gdefs) *)
Definition gdefs_ok (md : model) : bool :=
  match assoc s_g md with
  | Some am => forallb (fun ka => Nat.leb 2 (count_us (a_value (snd ka)))) am
  | None => true
  end.

(* ---------- the executable predicate over an observed trace ---------- *)
Record obs := {
  o_op : op;
  o_res : outcome bool;
  o_events : list event;     (* delivered to the watcher during this call *)
  o_p : list rule;           (* get_all_policy after the call *)
  o_g : list rule;           (* get_all_grouping_policy after the call *)
}.

Definition rules_eqb : list rule -> list rule -> bool := list_eqb reqb.

Definition is_nil {A} (l : list A) : bool := match l with [] => true | _ => false end.

(* is ev the notification call c must deliver, given the replica before it *)
Definition call_event (st : store) (c : prim) (ev : event) : bool :=
  match c, ev with
  | PAdd sec pt r, EvAdd sec' pt' r' => teqb sec sec' && teqb pt pt' && reqb r r'
  | PAddMany sec pt rs, EvAddMany sec' pt' rs' => teqb sec sec' && teqb pt pt' && rules_eqb rs rs'
  | PRemove sec pt r, EvRemove sec' pt' r' => teqb sec sec' && teqb pt pt' && reqb r r'
  | PRemoveMany sec pt rs, EvRemoveMany sec' pt' rs' => teqb sec sec' && teqb pt pt' && rules_eqb rs rs'
  | PRemoveFiltered sec pt _ _, EvRemoveFiltered sec' pt' rs =>
    teqb sec sec' && teqb pt pt' && negb (is_nil rs) &&
    match st_get st sec pt with
    | Some old => rules_eqb rs (os_diff old (os_remove_many old rs))   (* = old minus new *)
    | None => true                                                     (* untracked section *)
    end
  | _, _ => false
  end.

Definition is_late_err (r : outcome bool) : bool :=
  match r with Err EAdapter => false | Err _ => true | _ => false end.

(* the events of a single call: exactly one when it reports a change (or
   fails late, after the change), none otherwise *)
Definition single_ok (st : store) (c : prim) (res : outcome bool) (evs : list event) : bool :=
  match res with
  | Ok true => match evs with [ev] => call_event st c ev | _ => false end
  | Err e => if is_late_err res then match evs with [ev] => call_event st c ev | _ => false end
             else is_nil evs
  | _ => is_nil evs
  end.

(* zero or one valid event for call c *)
Definition opt_event_ok (st : store) (c : prim) (evs : list event) : bool :=
  match evs with
  | [] => true
  | [ev] => call_event st c ev
  | _ => false
  end.

(* the two-call helpers: each call delivers zero or one event, in call order;
   Ok false means neither changed anything, Ok true that at least one did *)
Definition two_ok (st : store) (c1 c2 : prim) (res : outcome bool) (evs : list event) : bool :=
  (match evs with
   | [] => true
   | [ev] => call_event st c1 ev || call_event st c2 ev
   | [ev1; ev2] => call_event st c1 ev1 && call_event (apply_event st ev1) c2 ev2
   | _ => false
   end) &&
  (match res with
   | Ok false => is_nil evs
   | Ok true => negb (is_nil evs)
   | _ => true
   end).

Definition events_ok (n : bool) (st : store) (old_p old_g : list rule) (o : op) (res : outcome bool)
           (evs : list event) : bool :=
  if negb n then is_nil evs
  else
    match op_prim o, op_two o with
    | Some c, _ => single_ok st c res evs
    | None, Some (c1, c2) => two_ok st c1 c2 res evs
    | None, None =>
      match o, res with
      | OClear, Ok _ => match evs with [EvClear] => true | _ => false end
      | OSave, Ok _ => match evs with
                       | [EvSave snap] => rules_eqb snap (old_p ++ old_g)
                       | _ => false
                       end
      | _, _ => is_nil evs
      end
    end.

Definition next_notify (n : bool) (o : op) : bool :=
  match o with OEnableAutoNotify b => b | _ => n end.

(* n: notifications enabled; st: the replica; the listings observed before *)
Fixpoint c14_go (n : bool) (st : store) (old_p old_g : list rule) (tr : list obs) : bool :=
  match tr with
  | [] => true
  | ob :: rest =>
    let st' := replay (o_events ob) st in
    events_ok n st old_p old_g (o_op ob) (o_res ob) (o_events ob)
    && rules_eqb (st_flat s_p st') (o_p ob)
    && rules_eqb (st_flat s_g st') (o_g ob)
    && c14_go (next_notify n (o_op ob)) st' (o_p ob) (o_g ob) rest
  end.

(* init: the store at the start, per (section, policy type) *)
Definition c14_pred (n0 : bool) (init : store) (tr : list obs) : bool :=
  c14_go n0 init (st_flat s_p init) (st_flat s_g init) tr.
