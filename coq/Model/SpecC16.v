(* Specification-side definitions for C16 (text formats) and the text clause
   of C09: layout grammars, renderers, safety predicates, the pre-repair CSV
   splitter (for the D18 witness), executable predicates for checking the
   implementation. Executable definitions only. *)
From CV Require Import Model.Base Model.PathMatch Model.Expr Model.Enforce Model.Engine.
From CV Require Import Model.Csv Model.Ini.

(* ------------------------------------------------------------------ *)
(* generic text predicates                                              *)
(* ------------------------------------------------------------------ *)
Definition all_ws (s : text) : bool := forallb is_ws s.
(* empty, or first and last byte are not white space *)
Definition tight (s : text) : bool :=
  match s with [] => true | c :: _ => negb (is_ws c) && negb (is_ws (last s c)) end.
Definition has_c (c : ascii) (s : text) : bool := memb Ascii.eqb c s.
Definition no_nl (s : text) : bool := negb (has_c nl s).
Definition cr : ascii := ascii_of_nat 13.
Definition is_nil {A} (l : list A) : bool := match l with [] => true | _ => false end.

(* ------------------------------------------------------------------ *)
(* A. CSV                                                               *)
(* ------------------------------------------------------------------ *)
(* column formats with ANY white space around the value (colfmt_ok of Csv.v
   allows blanks and tabs only; a CR before the line end is also fine) *)
Definition colfmt_wsok (f : colfmt) : bool := all_ws (cf_pre f) && all_ws (cf_post f).

(* the splitter before the repair of ESC_C (no `\s*` after the closing quote):
   documents D18 *)
Definition esc_c_match_old (s : text) : text * text :=
  let (w, r) := span_ws s in
  match r with
  | c :: r1 =>
    if Ascii.eqb c dquote then
      let (body, r2) := span_not dquote r1 in
      match r2 with
      | q :: r3 => (w ++ c :: body ++ [q], r3)
      | [] => (w ++ c :: body, [])
      end
    else span_not comma s
  | [] => (w, [])
  end.
Fixpoint scan_cols_old (fuel : nat) (s : text) (adj : bool) : list text :=
  match fuel with
  | 0 => []
  | S f =>
    let (span, rest) := esc_c_match_old s in
    match span with
    | [] =>
      match s with
      | [] => if adj then [] else [[]]
      | _ :: s' => if adj then scan_cols_old f s' false else [] :: scan_cols_old f s' false
      end
    | _ => column_of span :: scan_cols_old f rest true
    end
  end.
Definition parse_csv_line_old (line : text) : option (list text) :=
  let l := trim line in
  match l with
  | [] => None
  | c :: _ =>
    if Ascii.eqb c hash then None
    else match scan_cols_old (S (S (length l))) l false with
         | [] => None
         | cols => Some cols
         end
  end.
(* rendering without quoting (the adapters before the repair): documents D17 *)
Definition render_line_unquoted (ptype : text) (r : list text) : text :=
  ptype ++ T ", " ++ join [comma] r.

(* layout of a policy file: rows (any column formats), blank lines, comment
   lines; every line ends with LF or CRLF; an optional last line without
   terminator *)
Inductive fitem :=
| FRow (fs : list colfmt) (pt : text) (vs : list text)
| FBlank (ws : text)
| FComment (pre body : text).       (* pre ++ '#' ++ body *)
Definition fitem_text (it : fitem) : text :=
  match it with
  | FRow fs pt vs => render_row fs (pt :: vs)
  | FBlank ws => ws
  | FComment pre body => pre ++ hash :: body
  end.
Definition eol (crlf : bool) : text := if crlf then [cr; nl] else [nl].
Definition render_file (items : list (fitem * bool)) (final : option fitem) : text :=
  flat_map (fun ib => fitem_text (fst ib) ++ eol (snd ib)) items ++
  match final with Some it => fitem_text it | None => [] end.
Definition fitem_ok (it : fitem) : bool :=
  match it with
  | FRow fs pt vs => ptype_safe pt && forallb csv_safe vs && forallb colfmt_ok fs &&
                     Nat.eqb (length fs) (S (length vs))
  | FBlank ws => all_ws ws && no_nl ws
  | FComment pre body => all_ws pre && no_nl pre && no_nl body
  end.
Definition fitem_rows (it : fitem) : list (list text) :=
  match it with FRow _ pt vs => [pt :: vs] | _ => [] end.
Definition file_rows (items : list (fitem * bool)) (final : option fitem) : list (list text) :=
  flat_map (fun ib => fitem_rows (fst ib)) items ++
  match final with Some it => fitem_rows it | None => [] end.

(* the text the file / string adapters write for a model store *)
Definition save_text_file (md : model) : text :=
  flat_map (fun l => render_line_file (hd [] l) (tl l) ++ [nl]) (text_lines md).
Definition save_text_string (md : model) : text :=
  flat_map (fun l => render_line_string (hd [] l) (tl l) ++ [nl]) (text_lines md).
(* keys are safe policy types, rules are non-empty lists of safe values *)
Definition rule_text_safe (r : rule) : bool := negb (is_nil r) && forallb csv_safe r.
Definition amap_text_safe (am : amap) : bool :=
  forallb (fun ka => ptype_safe (fst ka) && forallb rule_text_safe (a_policy (snd ka))) am.
Definition model_text_safe (md : model) : bool :=
  (match assoc s_p md with Some am => amap_text_safe am | None => true end) &&
  (match assoc s_g md with Some am => amap_text_safe am | None => true end).

(* executable predicate: the implementation's parse of a rendered line must be
   exactly the expected columns *)
Definition c16_csv_pred (expected : list text) (observed : option (list text)) : bool :=
  match observed with
  | Some cols => reqb expected cols
  | None => false
  end.
(* file level: the observed parsed lines are exactly the expected rows *)
Definition c16_file_pred (expected observed : list (list text)) : bool :=
  list_eqb reqb expected observed.

(* ---- the wider classes (quoted values keep their edge white space) ---- *)
(* a row: the policy type with its own format, then (format, value) columns
   that are col_ok (Csv.v) *)
Definition fitem_ok_q (it : fitem) : bool :=
  match it with
  | FRow fs pt vs =>
    match fs with
    | f0 :: fs' => ptype_safe pt && colfmt_ok f0 && Nat.eqb (length fs') (length vs) &&
                   forallb (fun fv => col_ok (fst fv) (snd fv)) (combine fs' vs)
    | [] => false
    end
  | FBlank ws => all_ws ws && no_nl ws
  | FComment pre body => all_ws pre && no_nl pre && no_nl body
  end.
(* rules the adapters (csv_field) write losslessly *)
Definition rule_text_safe_r (r : rule) : bool := negb (is_nil r) && forallb csv_safe_r r.
Definition amap_text_safe_r (am : amap) : bool :=
  forallb (fun ka => ptype_safe (fst ka) && forallb rule_text_safe_r (a_policy (snd ka))) am.
Definition model_text_safe_r (md : model) : bool :=
  (match assoc s_p md with Some am => amap_text_safe_r am | None => true end) &&
  (match assoc s_g md with Some am => amap_text_safe_r am | None => true end).

(* ------------------------------------------------------------------ *)
(* B. INI / model text                                                  *)
(* ------------------------------------------------------------------ *)
(* white space that may stand inside a line (CR included: a CRLF file is a
   file whose lines end with a CR, which is trailing white space) *)
Definition ws_line (w : text) : bool := all_ws w && no_nl w.

(* a continuation break: the physical line ends with wsa ++ '\' ++ wsb, the next
   one starts with the indentation ind followed by the next piece of the value *)
Record cont := { k_wsa : text; k_wsb : text; k_ind : text; k_val : text }.

Inductive litem :=
| LBlank (ws : text)
| LComment (pre : text) (c : ascii) (body : text)          (* c = '#' or ';' *)
| LHeader (pre name post : text)                           (* pre [name] post *)
| LDef (pre key m1 m2 v1 : text) (conts : list cont) (post : text).
                                    (* pre key m1 = m2 v1 {wsa \ wsb NL ind v}* post *)

Fixpoint def_lines (cur : text) (conts : list cont) (post : text) : list text :=
  match conts with
  | [] => [cur ++ post]
  | k :: more => (cur ++ k_wsa k ++ bslash :: k_wsb k) :: def_lines (k_ind k ++ k_val k) more post
  end.
Definition item_lines (it : litem) : list text :=
  match it with
  | LBlank ws => [ws]
  | LComment pre c body => [pre ++ c :: body]
  | LHeader pre name post => [pre ++ lbracket :: name ++ rbracket :: post]
  | LDef pre key m1 m2 v1 conts post => def_lines (pre ++ key ++ m1 ++ equals :: m2 ++ v1) conts post
  end.
(* every line terminated by LF; `final` = an optional last line without one *)
Definition render_lines (ls : list text) : text := flat_map (fun l => l ++ [nl]) ls.
Definition render_layout (items : list litem) : text := render_lines (flat_map item_lines items).

(* a piece of a value: non-empty, no blank at either end, one line, not ending
   with a backslash *)
Definition chunk_ok (v : text) : bool :=
  negb (is_nil v) && tight v && no_nl v && negb (ends_with_c bslash v).
(* a piece that starts a continuation line must not look like a comment or a
   section header *)
Definition cont_chunk_ok (v : text) : bool :=
  chunk_ok v && negb (is_comment_or_blank v) && negb (is_section v).
Definition key_ok (k : text) : bool :=
  negb (is_nil k) && tight k && no_nl k && negb (has_c equals k) &&
  negb (is_comment_or_blank k) && negb (starts_with_c lbracket k).
Definition cont_ok (k : cont) : bool :=
  ws_line (k_wsa k) && ws_line (k_wsb k) && ws_line (k_ind k) && cont_chunk_ok (k_val k).
Definition litem_ok (it : litem) : bool :=
  match it with
  | LBlank ws => ws_line ws
  | LComment pre c body => ws_line pre && (Ascii.eqb c hash || Ascii.eqb c semicolon) && no_nl body
  | LHeader pre name post => ws_line pre && ws_line post && no_nl name
  | LDef pre key m1 m2 v1 conts post =>
    ws_line pre && ws_line m1 && ws_line m2 && ws_line post && key_ok key && chunk_ok v1 &&
    forallb cont_ok conts
  end.

(* what a layout means: the value of a definition is the concatenation of its
   pieces (the blank at a continuation break is lost) *)
Definition def_value (v1 : text) (conts : list cont) : text := v1 ++ concat (map k_val conts).
Definition sec_or_default (sec : text) : text := match sec with [] => DEFAULT_SECTION | _ => sec end.
Definition item_step (st : text * cfg) (it : litem) : text * cfg :=
  match it with
  | LBlank _ | LComment _ _ _ => st
  | LHeader _ name _ => (name, snd st)
  | LDef _ key _ _ v1 conts _ =>
    (fst st, cfg_set (sec_or_default (fst st), key) (def_value v1 conts) (snd st))
  end.
Definition run_items (items : list litem) (st : text * cfg) : text * cfg := fold_left item_step items st.
Definition cfg_of_layout (items : list litem) : cfg := snd (run_items items ([], [])).

(* plain rendering: `[section]` then `key = value` lines *)
Definition plain_items (secs : list (text * list (text * text))) : list litem :=
  flat_map (fun sd => LHeader [] (fst sd) [] ::
                      map (fun kv => LDef [] (fst kv) (T " ") (T " ") (snd kv) [] []) (snd sd)) secs.
Definition render_plain (secs : list (text * list (text * text))) : text :=
  render_layout (plain_items secs).
Definition plain_ok (secs : list (text * list (text * text))) : bool :=
  forallb (fun sd => no_nl (fst sd) &&
                     forallb (fun kv => key_ok (fst kv) && chunk_ok (snd kv)) (snd sd)) secs.
Definition cfg_of_plain (secs : list (text * list (text * text))) : cfg :=
  fold_left (fun c sd => fold_left (fun c kv => cfg_set (sec_or_default (fst sd), fst kv) (snd kv) c) (snd sd) c)
            secs [].

(* the same layout with every continuation break replaced by a single blank *)
Definition def_value_sp (v1 : text) (conts : list cont) : text :=
  v1 ++ concat (map (fun k => " "%char :: k_val k) conts).
Definition unbreak (it : litem) : litem :=
  match it with
  | LDef pre key m1 m2 v1 conts post => LDef pre key m1 m2 (def_value_sp v1 conts) [] post
  | other => other
  end.

(* white space outside string literals removed *)
Fixpoint norm_go (instr : bool) (s : text) : text :=
  match s with
  | [] => []
  | c :: r =>
    if Ascii.eqb c dquote then c :: norm_go (negb instr) r
    else if negb instr && is_ws c then norm_go instr r
    else c :: norm_go instr r
  end.
Definition norm_ws (s : text) : text := norm_go false s.
Fixpoint quotes_even (b : bool) (s : text) : bool :=
  match s with
  | [] => b
  | c :: r => quotes_even (if Ascii.eqb c dquote then negb b else b) r
  end.
(* every piece has balanced quotes: no break inside a string literal *)
Definition breaks_outside_strings (it : litem) : bool :=
  match it with
  | LDef _ _ _ _ v1 conts _ => quotes_even true v1 && forallb (fun k => quotes_even true (k_val k)) conts
  | _ => true
  end.
Definition cfg_equiv (c c' : cfg) : Prop :=
  Forall2 (fun kv kv' => fst kv = fst kv' /\ norm_ws (snd kv) = norm_ws (snd kv')) c c'.
Fixpoint cfg_equivb (c c' : cfg) : bool :=
  match c, c' with
  | [], [] => true
  | (k, v) :: r, (k', v') :: r' => pair_eqb k k' && teqb (norm_ws v) (norm_ws v') && cfg_equivb r r'
  | _, _ => false
  end.

(* ------------------------------------------------------------------ *)
(* escape_assertion                                                     *)
(* ------------------------------------------------------------------ *)
(* a place where escape_assertion rewrites: at a word boundary, r or p,
   digits, a dot *)
Fixpoint has_site (pw : bool) (s : text) : bool :=
  match s with
  | [] => false
  | c :: s' => (negb pw && is_rp c && tok_ahead s') || has_site (is_word c) s'
  end.
(* prefixes r, p, r2, p2, ... *)
Definition rp_prefix (p : text) : bool :=
  match p with c :: ds => is_rp c && forallb is_digit ds | [] => false end.
(* the text cannot complete a pending `r12` look-ahead: empty, or its first
   byte is neither a digit nor a dot *)
Definition la_dead (s : text) : bool :=
  match s with [] => true | c :: _ => negb (is_digit c) && negb (Ascii.eqb c dot) end.
(* was the last byte a word byte *)
Fixpoint pw_after (pw : bool) (a : text) : bool :=
  match a with [] => pw | c :: a' => pw_after (is_word c) a' end.
(* a continuation break between a and b is harmless for escape_assertion when
   b cannot complete a look-ahead and a and b do not fuse into one word *)
Definition break_ok (a b : text) : bool :=
  la_dead b && (negb (pw_after false a) || match b with c :: _ => negb (is_word c) | [] => true end).

(* ------------------------------------------------------------------ *)
(* layouts: what a layout means, independent of the parser              *)
(* ------------------------------------------------------------------ *)
Fixpoint layout_defs (items : list litem) (sec : text) : cfg :=
  match items with
  | [] => []
  | LHeader _ n _ :: r => layout_defs r n
  | LDef _ key _ _ v1 conts _ :: r => ((sec_or_default sec, key), def_value v1 conts) :: layout_defs r sec
  | _ :: r => layout_defs r sec
  end.
Definition cfg_of_defs (ds : cfg) : cfg := fold_left (fun c kv => cfg_set (fst kv) (snd kv) c) ds [].

(* ------------------------------------------------------------------ *)
(* Model::to_text                                                       *)
(* ------------------------------------------------------------------ *)
Definition written_value (tb : list (text * text)) (rw : bool) (d : adef) : text :=
  if rw then apply_table tb (ad_value d) else ad_value d.
Definition totext_kvs (tb : list (text * text)) (rw : bool) (ds : list adef) : list (text * text) :=
  map (fun d => (ad_key d, written_value tb rw d)) ds.
Definition totext_secs (m : mdefs) : list (text * list (text * text)) :=
  let tb := token_table m in
  [ (T "request_definition", totext_kvs tb true (sec_defs m (T "r")));
    (T "policy_definition", totext_kvs tb true (sec_defs m (T "p"))) ] ++
  (match assoc (T "g") m with
   | Some ds => [(T "role_definition", totext_kvs tb false ds)]
   | None => [] end) ++
  [ (T "policy_effect", totext_kvs tb true (sec_defs m (T "e")));
    (T "matchers", totext_kvs tb true (sec_defs m (T "m"))) ].

Definition flat_cfg (secs : list (text * list (text * text))) : cfg :=
  flat_map (fun sd => map (fun kv => ((sec_or_default (fst sd), fst kv), snd kv)) (snd sd)) secs.
Fixpoint cfg_nodup (l : cfg) : bool :=
  match l with
  | [] => true
  | (k, _) :: r => negb (existsb (fun kv => pair_eqb k (fst kv)) r) && cfg_nodup r
  end.
Fixpoint nodupb (l : list text) : bool :=
  match l with [] => true | x :: r => negb (memb teqb x r) && nodupb r end.
(* the keys of a section are sec, sec2, sec3, ... and the next one is fresh *)
Definition sec_key (sec : text) (i : nat) : text := sec ++ key_suffix i.
Definition sec_keys_ok (sec : text) (ds : list adef) : bool :=
  list_eqb teqb (map ad_key ds) (map (sec_key sec) (seq 1 (length ds))) &&
  nodupb (map (sec_key sec) (seq 1 (S (length ds)))).
Definition rw_of (sec : text) : bool := negb (teqb sec (T "g")).
Definition model_secs : list text := [T "r"; T "p"; T "e"; T "m"; T "g"].
Definition totext_wf (m : mdefs) : bool :=
  plain_ok (totext_secs m) && cfg_nodup (flat_cfg (totext_secs m)) &&
  forallb (fun sec => sec_keys_ok sec (sec_defs m sec)) model_secs.

(* what reading the written text back yields, definition by definition *)
Fixpoint reload_defs (sec : text) (kvs : list (text * text)) : list adef :=
  match kvs with
  | [] => []
  | (k, v) :: r => match add_def sec k v with
                   | None => []
                   | Some d => d :: reload_defs sec r
                   end
  end.
Definition reload_model (m : mdefs) : mdefs :=
  let tb := token_table m in
  flat_map (fun sec => match reload_defs sec (totext_kvs tb (rw_of sec) (sec_defs m sec)) with
                       | [] => []
                       | ds => [(sec, ds)]
                       end) model_secs.

(* dumps of definitions, as the harness observes them *)
Definition dump := list (text * text * list text).
Definition dump_of (m : mdefs) : dump :=
  flat_map (fun sd => map (fun d => (ad_key d, ad_value d, ad_tokens d)) (snd sd)) m.
(* same keys and tokens; effect and role values equal; matcher values up to
   blanks outside string literals; request / policy values (which only serve to
   build the tokens) up to blanks *)
Definition c16_def_equiv (a b : text * text * list text) : bool :=
  match a, b with
  | (k1, v1, t1), (k2, v2, t2) =>
    teqb k1 k2 && list_eqb teqb t1 t2 &&
    (if starts_with_c "m"%char k1 || starts_with_c "r"%char k1 || starts_with_c "p"%char k1
     then teqb (norm_ws v1) (norm_ws v2) else teqb v1 v2)
  end.
Definition c16_model_equiv (d1 d2 : dump) : bool := list_eqb c16_def_equiv d1 d2.

Definition adef_eqb (a b : adef) : bool :=
  teqb (ad_key a) (ad_key b) && teqb (ad_value a) (ad_value b) && list_eqb teqb (ad_tokens a) (ad_tokens b).
Definition mdefs_eqb (a b : mdefs) : bool :=
  list_eqb (fun x y => teqb (fst x) (fst y) && list_eqb adef_eqb (snd x) (snd y)) a b.
(* the whole to_text check on a model text: parses, is well-formed for
   to_text, and the written text parses back to the same definitions *)
Definition totext_roundtrip_ok (t : text) : bool :=
  match model_of_text t with
  | Some m => totext_wf m && mdefs_eqb (reload_model m) m &&
              match model_of_text (to_text m) with Some m' => mdefs_eqb m' m | None => false end
  | None => false
  end.

(* ------------------------------------------------------------------ *)
(* continuation breaks inside a matcher                                 *)
(* ------------------------------------------------------------------ *)
Fixpoint breaks_ok (prev : text) (conts : list cont) : bool :=
  match conts with
  | [] => true
  | k :: r => break_ok prev (k_val k) && breaks_ok (k_val k) r
  end.
Definition no_hash (s : text) : bool := negb (has_c hash s).
(* pieces of a matcher value: legal pieces, no comment sign, no break inside a
   string literal, every break between two lexemes that do not fuse *)
Definition matcher_chunks_ok (v1 : text) (conts : list cont) : bool :=
  chunk_ok v1 && forallb (fun k => chunk_ok (k_val k)) conts &&
  no_hash v1 && forallb (fun k => no_hash (k_val k)) conts &&
  quotes_even true v1 && forallb (fun k => quotes_even true (k_val k)) conts &&
  breaks_ok v1 conts.
(* continuation is used in the [matchers] section only *)
Definition s_matchers : text := T "matchers".
Fixpoint breaks_in_matchers_only (items : list litem) (sec : text) : bool :=
  match items with
  | [] => true
  | LHeader _ n _ :: r => breaks_in_matchers_only r n
  | LDef _ _ _ _ v1 conts _ :: r =>
    (is_nil conts || (teqb sec s_matchers && matcher_chunks_ok v1 conts)) && breaks_in_matchers_only r sec
  | _ :: r => breaks_in_matchers_only r sec
  end.

(* ------------------------------------------------------------------ *)
(* to_text: structural conditions for the replace-based un-escaping     *)
(* ------------------------------------------------------------------ *)
(* a field name: word bytes only, non-empty, not itself of the form r12 / p *)
Definition f_ok (f : text) : bool := negb (is_nil f) && forallb is_word f && negb (rp_prefix f).
(* token = prefix, underscore, field *)
Definition split_tok (t : text) : option (text * text) :=
  match t with
  | c :: r =>
    if is_rp c then
      let fix go (s : text) (acc : text) : option (text * text) :=
          match s with
          | d :: s' => if is_digit d then go s' (d :: acc)
                       else if Ascii.eqb d underscore then Some (c :: rev acc, s')
                       else None
          | [] => None
          end in go r []
    else None
  | [] => None
  end.
Definition tok_ok (t : text) : bool :=
  match split_tok t with Some (_, f) => f_ok f | None => false end.
(* the replacement table maps well-formed tokens to their dotted form *)
Definition table_ok (tb : list (text * text)) : bool :=
  forallb (fun tu => tok_ok (fst tu) && teqb (snd tu) (untoken (fst tu))) tb.
(* no token of T starts right after a word byte of x (pw: the byte before x is
   a word byte) *)
Fixpoint no_inner_occ (T : list text) (pw : bool) (x : text) : bool :=
  match x with
  | [] => true
  | c :: r => (negb pw || forallb (fun t => negb (is_prefix t x)) T) && no_inner_occ T (is_word c) r
  end.
(* "tokens independent" for a value: every occurrence of a token is at a word
   boundary, and the value is in escaped form *)
Definition value_totext_ok (tb : list (text * text)) (v : text) : bool :=
  no_inner_occ (map fst tb) false v && negb (has_site false v).

(* per-definition conditions under which to_text + from_str is the identity *)
Definition def_canon (sec : text) (d : adef) : bool :=
  match add_def sec (ad_key d) (ad_value d) with Some d' => adef_eqb d' d | None => false end.
Definition no_token_infix (tb : list (text * text)) (v : text) : bool :=
  forallb (fun tu => negb (is_infix (fst tu) v)) tb.
Definition def_totext_ok (tb : list (text * text)) (sec : text) (d : adef) : bool :=
  if teqb sec (T "r") || teqb sec (T "p") then no_token_infix tb (ad_value d) && def_canon sec d
  else if teqb sec (T "g") then def_canon sec d
  else value_totext_ok tb (ad_value d) && is_nil (ad_tokens d) && no_hash (apply_table tb (ad_value d)).
Definition totext_defs_ok (m : mdefs) : bool :=
  forallb (fun sec => forallb (def_totext_ok (token_table m) sec) (sec_defs m sec)) model_secs.
(* sections in the order r, p, e, m, g, none empty (what load_model builds) *)
Definition mdefs_canon (m : mdefs) : bool :=
  mdefs_eqb m (flat_map (fun sec => match sec_defs m sec with [] => [] | ds => [(sec, ds)] end) model_secs).

(* ------------------------------------------------------------------ *)
(* request / policy definitions: spacing of the field list              *)
(* ------------------------------------------------------------------ *)
Definition rp_field_ok (f : text) : bool :=
  negb (is_nil f) && tight f && negb (has_c comma f) && no_hash f.
Definition rp_seg (pf : (text * text) * text) : text := fst (fst pf) ++ snd pf ++ snd (fst pf).
(* fields separated by commas, any blanks around each field *)
Definition rp_value (pads : list (text * text)) (fields : list text) : text :=
  join [comma] (map rp_seg (combine pads fields)).
