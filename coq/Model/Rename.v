(* Definitions for C17: the k-suffixed copy of a model's sections. *)
From CV Require Import Model.Base Model.Expr Model.Enforce.

Fixpoint rename_expr (k : text) (e : expr) : expr :=
  match e with
  | ELit v => ELit v
  | EVar p f => EVar (p ++ k) f
  | EProp a f => EProp (rename_expr k a) f
  | EEq a b => EEq (rename_expr k a) (rename_expr k b)
  | ENeq a b => ENeq (rename_expr k a) (rename_expr k b)
  | ECmp c a b => ECmp c (rename_expr k a) (rename_expr k b)
  | EAnd a b => EAnd (rename_expr k a) (rename_expr k b)
  | EOr a b => EOr (rename_expr k a) (rename_expr k b)
  | ENot a => ENot (rename_expr k a)
  | EIn a xs => EIn (rename_expr k a) (map (rename_expr k) xs)
  | ECall f args => ECall f (map (rename_expr k) args)
  | EEval p f => EEval (p ++ k) f
  end.

(* variables of the matcher are r.<field> or p.<field>; no eval() *)
Fixpoint rp_vars (e : expr) : bool :=
  match e with
  | ELit _ => true
  | EVar p _ => teqb p s_r || teqb p s_p
  | EProp a _ => rp_vars a
  | EEq a b | ENeq a b | ECmp _ a b | EAnd a b | EOr a b => rp_vars a && rp_vars b
  | ENot a => rp_vars a
  | EIn a xs => rp_vars a && forallb rp_vars xs
  | ECall _ args => forallb rp_vars args
  | EEval _ _ => false
  end.

Definition no_underscore (s : text) : bool := negb (memb Ascii.eqb underscore s).

(* md2's k-suffixed r/p/e/m definitions are md1's unsuffixed ones with tokens
   renamed, holding the same rules *)
Definition renamed_copy (k : text) (md1 md2 : model)
           (mx1 mx2 : list (text * expr)) : Prop :=
  exists rf pf r1 p1 e1 m1 r2 p2 e2 m2 mx,
    get_ast md1 s_r s_r = Some r1 /\ get_ast md1 s_p s_p = Some p1 /\
    get_ast md1 s_e s_e = Some e1 /\ get_ast md1 s_m s_m = Some m1 /\
    get_ast md2 s_r (s_r ++ k) = Some r2 /\ get_ast md2 s_p (s_p ++ k) = Some p2 /\
    get_ast md2 s_e (s_e ++ k) = Some e2 /\ get_ast md2 s_m (s_m ++ k) = Some m2 /\
    a_tokens r1 = map (tok s_r) rf /\ a_tokens r2 = map (tok (s_r ++ k)) rf /\
    a_tokens p1 = map (tok s_p) pf /\ a_tokens p2 = map (tok (s_p ++ k)) pf /\
    a_policy p2 = a_policy p1 /\ a_value e2 = a_value e1 /\
    assoc s_m mx1 = Some mx /\ assoc (s_m ++ k) mx2 = Some (rename_expr k mx) /\
    rp_vars mx = true.
