(* C20 — executable predicate on what the threads of a finished concurrent run
   observed.  Input: the call lists of the threads; observation: for every
   thread the list of (version, in_call) pairs its reads returned, where
   version = number of management calls whose effect the read reflected and
   in_call = "the read reflected a partially applied management call".
   The predicate encodes the specification only; it does not run the model. *)
From CV Require Import Model.Base Model.Locks.

Definition obs := list (nat * bool).

Definition reads_of (c : call) : nat :=
  match c with CEnforce k => k | CHandle k => k | CMgmt _ => 0 end.

(* the reads of one enforce call agree on one version and never see a call in
   progress; handle reads are unconstrained individually *)
Definition block_okb (c : call) (b : obs) : bool :=
  match c with
  | CEnforce _ =>
    match b with
    | [] => true
    | (v, ic) :: r => negb ic && forallb (fun y => Nat.eqb (fst y) v && negb (snd y)) r
    end
  | _ => true
  end.

(* cut the observation list along the calls *)
Fixpoint chunks_ok (cs : list call) (l : obs) : bool :=
  match cs with
  | [] => match l with [] => true | _ => false end
  | c :: cs' =>
    Nat.eqb (length (firstn (reads_of c) l)) (reads_of c) &&
    block_okb c (firstn (reads_of c) l) &&
    chunks_ok cs' (skipn (reads_of c) l)
  end.

Fixpoint nondecrb (l : list nat) : bool :=
  match l with
  | [] => true
  | x :: r => forallb (fun y => Nat.leb x y) r && nondecrb r
  end.

Definition total_mgmt (tss : list (list call)) : nat :=
  length (filter (fun c => match c with CMgmt _ => true | _ => false end) (concat tss)).

(* one thread: chunking, versions non-decreasing, never ahead of the number of
   management calls issued; without any management call only the initial state *)
Definition thread_pred (total : nat) (cs : list call) (l : obs) : bool :=
  chunks_ok cs l &&
  nondecrb (map fst l) &&
  forallb (fun v => Nat.leb v total) (map fst l) &&
  (if Nat.eqb total 0 then forallb (fun x => Nat.eqb (fst x) 0 && negb (snd x)) l else true).

Fixpoint all2 {A B} (f : A -> B -> bool) (l1 : list A) (l2 : list B) : bool :=
  match l1, l2 with
  | [], [] => true
  | a :: r1, b :: r2 => f a b && all2 f r1 r2
  | _, _ => false
  end.

Definition c20_pred (tss : list (list call)) (observed : list obs) : bool :=
  all2 (thread_pred (total_mgmt tss)) tss observed.
