(* Specification-side definitions for C15 (built-in path matchers) and C06
   (totality / fail-closed).  Executable definitions only.

   - `compile`: the regular expression (as a list of atoms of the supported
     class) that a pattern of the documented grammar DENOTES; the proofs show
     the text pipelines of function_map.rs produce exactly a text that reads
     back as this list.
   - `names`: the names of the named segments, in order.
   - `spec_kg`: key_get restated without strip_prefix (as in the OCaml driver).
   - `c15_pred` / `c15_pred_text`: decide C15 on one observation of an exported
     matcher (inputs + observed output) against the segment-wise specification
     of Model/PathMatch.v (spec_km, spec_km4, spec_km5, spec_get): no regular
     expression, no rewriting.
   - `c06_pred`: decides C06 on one observed enforcement outcome. *)
From CV Require Import Model.Base Model.PathMatch.

(* ---------- what a grammar pattern denotes ---------- *)
Definition compile_seg (cap lz : bool) (s : seg) : list atom :=
  match s with
  | SLit w => AByte slash :: map AByte w
  | SNamed _ => [AByte slash; ASeg cap lz]
  | SStar => [AByte slash; AAny]
  end.
Definition compile (cap lz : bool) (p : list seg) : list atom :=
  flat_map (compile_seg cap lz) p.

Fixpoint names (p : list seg) : list text :=
  match p with
  | [] => []
  | SNamed n :: p' => n :: names p'
  | _ :: p' => names p'
  end.

(* ---------- key_match / key_get, text level ---------- *)
Definition spec_kg (k p : text) : text :=
  let (pre, found) := before_star p in
  if found && is_prefix pre k && Nat.ltb (length pre) (length k)
  then skipn (length pre) k else [].

(* ---------- C15 as a predicate on observations ---------- *)
Inductive pm_fn := FKm2 | FKm3 | FKm4 | FKm5 | FKg2 (v : text) | FKg3 (v : text).
(* what an exported function returned; None = the model declines (pattern
   outside the modelled class): never happens on grammar patterns *)
Inductive pm_out := OB (b : option bool) | OT (t : option text).

Definition c15_pred (f : pm_fn) (p : list seg) (k : text) (o : pm_out) : bool :=
  if grammar p then
    match f, o with
    | FKm2, OB (Some b) | FKm3, OB (Some b) => Bool.eqb b (spec_km p k)
    | FKm4, OB (Some b) => Bool.eqb b (spec_km4 p k)
    | FKm5, OB (Some b) => Bool.eqb b (spec_km5 p k)
    | FKg2 v, OT (Some t) | FKg3 v, OT (Some t) => teqb t (spec_get p k v)
    | _, _ => false
    end
  else true.

(* the model's own observation *)
Definition c15_observe (f : pm_fn) (p : list seg) (k : text) : pm_out :=
  match f with
  | FKm2 => OB (key_match2 k (render2 p))
  | FKm3 => OB (key_match3 k (render3 p))
  | FKm4 => OB (key_match4 k (render3 p))
  | FKm5 => OB (key_match5 k (render3 p))
  | FKg2 v => OT (key_get2 k (render2 p) v)
  | FKg3 v => OT (key_get3 k (render3 p) v)
  end.

(* key_match / key_get on arbitrary pattern TEXT ('*' anywhere) *)
Definition c15_pred_text (k p : text) (km : bool) (kg : text) : bool :=
  let (pre, found) := before_star p in
  Bool.eqb km (if found then is_prefix pre k else teqb k p) && teqb kg (spec_kg k p).

(* ---------- C06 as a predicate on one observed enforcement ---------- *)
(* enabled = the enforcer's switch (a disabled enforcer grants everything,
   before any check: enforcer.rs), ntoks = number of request tokens of the
   model, nvals = number of request values supplied: never a panic; with the
   enforcer enabled a wrong arity is a request error, never a decision *)
Definition c06_pred (enabled : bool) (ntoks nvals : nat) (o : outcome bool) : bool :=
  if enabled then
    match o with
    | Panic => false
    | Ok _ => Nat.eqb ntoks nvals
    | Err c => if Nat.eqb ntoks nvals then true else errc_eqb c ERequest
    end
  else match o with Ok true => true | _ => false end.
