(* Model of the model store (DefaultModel / Assertion) as far as enforcement
   reads it, of the registered-function table, and of the two enforcement
   loops of src/enforcer.rs. Executable definitions only. *)
From CV Require Import Model.Base Model.Effector Model.RoleGraph Model.PathMatch Model.Expr.

(* ---------- model store ---------- *)
(* which role manager a handle (an Arc<RwLock<dyn RoleManager>> clone) points
   at: the assertion's private default manager (never written, limit 0), the
   enforcer's current manager, or a manager that was replaced (nobody writes
   to it any more, so a snapshot is exact) *)
Inductive handle := HOwn | HCur | HFrozen (m : rmgr) (maxd : nat).

Record assertion := {
  a_value : text;            (* r, p: raw value; g, e, m: escaped *)
  a_tokens : list text;      (* r, p only: key_field *)
  a_policy : list rule;      (* insertion-ordered, duplicate-free *)
  a_handle : handle;         (* meaningful for g *)
}.

(* section -> key -> assertion; keys of a section in definition order *)
Definition amap := list (text * assertion).
Definition model := list (text * amap).

Definition get_sec (m : model) (sec : text) : option amap := assoc sec m.
Definition get_ast (m : model) (sec key : text) : option assertion :=
  match assoc sec m with Some am => assoc key am | None => None end.

Definition set_ast (m : model) (sec key : text) (a : assertion) : model :=
  match assoc sec m with
  | Some am => assoc_set sec (assoc_set key a am) m
  | None => m
  end.

Definition s_r := T "r". Definition s_p := T "p". Definition s_g := T "g".
Definition s_e := T "e". Definition s_m := T "m".
Definition s_eft := T "eft".
Definition s_allow := T "allow". Definition s_deny := T "deny".

(* ---------- registered functions ---------- *)
Inductive ufun := UEq | UNeq | UPrefix | UTrue.   (* user functions the harness registers *)

Record fstate := {
  f_rm : rmgr; f_rm_max : nat;                       (* the enforcer's current manager *)
  f_gfuns : list ((text * nat) * handle);            (* name, arity -> captured manager; newest first *)
  f_ufuns : list (text * ufun);                      (* add_function; newest first *)
}.

Definition handle_has_link (fs : fstate) (h : handle) (a b : text) (d : option text) : bool :=
  match h with
  | HOwn => has_link 0 [] a b d
  | HCur => has_link (f_rm_max fs) (f_rm fs) a b d
  | HFrozen m mx => has_link mx m a b d
  end.

Fixpoint all_strs (vs : list value) : option (list text) :=
  match vs with
  | [] => Some []
  | VStr s :: r => match all_strs r with Some l => Some (s :: l) | None => None end
  | _ :: _ => None
  end.

Definition gkey_eqb (a b : text * nat) : bool := teqb (fst a) (fst b) && Nat.eqb (snd a) (snd b).
Fixpoint find_gfun (k : text * nat) (l : list ((text * nat) * handle)) : option handle :=
  match l with
  | [] => None
  | (k', h) :: l' => if gkey_eqb k k' then Some h else find_gfun k l'
  end.

Definition run_ufun (u : ufun) (ss : list text) : option eres :=
  match u, ss with
  | UEq, [a; b] => Some (EV (VBool (teqb a b)))
  | UNeq, [a; b] => Some (EV (VBool (negb (teqb a b))))
  | UPrefix, [a; b] => Some (EV (VBool (is_prefix b a)))
  | UTrue, [a] => Some (EV (VBool true))
  | _, _ => None
  end.

(* FunctionMap::default (features glob/ip off) *)
(* a pattern outside the modelled regex class evaluates to an error in the
   model (the real function would consult the regex crate): generated policies
   stay inside the class, a disagreement shows up in the correspondence *)
Definition ob_res (o : option bool) : eres := match o with Some b => EV (VBool b) | None => EErr end.
Definition ot_res (o : option text) : eres := match o with Some t => EV (VStr t) | None => EErr end.
Definition builtin (f : text) (ss : list text) : option eres :=
  match ss with
  | [a; b] =>
    if teqb f (T "keyMatch") then Some (EV (VBool (key_match a b)))
    else if teqb f (T "keyGet") then Some (EV (VStr (key_get a b)))
    else if teqb f (T "keyMatch2") then Some (ob_res (key_match2 a b))
    else if teqb f (T "keyMatch3") then Some (ob_res (key_match3 a b))
    else if teqb f (T "keyMatch4") then Some (ob_res (key_match4 a b))
    else if teqb f (T "keyMatch5") then Some (ob_res (key_match5 a b))
    else if teqb f (T "regexMatch") then Some (ob_res (regex_match_words a b))
    else None
  | [a; b; c] =>
    if teqb f (T "keyGet2") then Some (ot_res (key_get2 a b c))
    else if teqb f (T "keyGet3") then Some (ot_res (key_get3 a b c))
    else None
  | _ => None
  end.

(* every registered function takes ImmutableString parameters: any other
   argument type means "function not found" *)
Definition call_fn (fs : fstate) (f : text) (args : list value) : option eres :=
  match all_strs args with
  | None => None
  | Some ss =>
    match (match assoc f (f_ufuns fs) with Some u => run_ufun u ss | None => None end) with
    | Some r => Some r
    | None =>
      match find_gfun (f, length ss) (f_gfuns fs) with
      | Some h =>
        match ss with
        | [a; b] => Some (EV (VBool (handle_has_link fs h a b None)))
        | [a; b; d] => Some (EV (VBool (handle_has_link fs h a b (Some d))))
        | _ => None
        end
      | None => builtin f ss
      end
    end
  end.

(* ---------- the enforcement loop ---------- *)
Definition eval_fuel : nat := 4.

Section Enforce.
  Variable ptab : text -> option expr.

  (* scope: later pushes shadow earlier ones *)
  Definition bind (toks : list text) (vals : list value) (sc : list (text * value)) :=
    rev (combine toks vals) ++ sc.

  Fixpoint index_of (x : text) (l : list text) : option nat :=
    match l with
    | [] => None
    | y :: l' => if teqb x y then Some 0
                 else match index_of x l' with Some n => Some (S n) | None => None end
    end.

  (* enforcer.rs:193-206 *)
  Definition rule_effect (eft_tok : text) (ptoks : list text) (pvals : rule) (matched : bool) : eff :=
    if matched then
      match index_of eft_tok ptoks with
      | Some j =>
        let v := nth j pvals [] in
        if teqb v s_deny then Deny else if teqb v s_allow then Allow else Indet
      | None => Allow
      end
    else Indet.

  Definition eval_matcher (fs : fstate) (m : expr) (sc : list (text * value)) : outcome bool :=
    match eval (call_fn fs) ptab sc eval_fuel m with
    | EV (VBool b) => Ok b
    | EV _ => Err EEvalc
    | EErr => Err EEvalc
    | EPanic => Panic
    end.

  Fixpoint rules_loop (fs : fstate) (m : expr) (eft_tok : text) (ptoks : list text)
           (sc0 : list (text * value)) (st : stream) (rules : list rule) : outcome bool :=
    match rules with
    | [] => match next st with Some b => Ok b | None => Panic end
    | pvals :: rest =>
      if negb (Nat.eqb (length ptoks) (length pvals)) then Err EPolicy
      else
        match eval_matcher fs m (bind ptoks (map VStr pvals) sc0) with
        | Ok b =>
          let st' := push st (rule_effect eft_tok ptoks pvals b) in
          if done st' then (match next st' with Some v => Ok v | None => Panic end)
          else rules_loop fs m eft_tok ptoks sc0 st' rest
        | Err e => Err e
        | Panic => Panic
        end
    end.

  (* enforcer.rs:120-223 (rk = "r", ..., eft_tok = "p_eft") and 225-352
     (rk = "r"+suffix, ..., eft_tok = "p"+suffix+"_eft") *)
  Definition enforce_core (enabled : bool) (md : model) (mexprs : list (text * expr))
             (fs : fstate) (rk pk ek mk eft_tok : text) (rvals : list value) : outcome bool :=
    if negb enabled then Ok true
    else
      match get_ast md s_r rk, get_ast md s_p pk, get_ast md s_m mk, get_ast md s_e ek with
      | Some r_ast, Some p_ast, Some m_ast, Some e_ast =>
        if negb (Nat.eqb (length (a_tokens r_ast)) (length rvals)) then Err ERequest
        else
          let sc0 := bind (a_tokens r_ast) rvals [] in
          let rules := a_policy p_ast in
          match new_stream (a_value e_ast) (Nat.max (length rules) 1) with
          | None => Panic
          | Some st =>
            match assoc mk mexprs with
            | None => Err EEvalc
            | Some m =>
              match rules with
              | [] =>
                let sc := bind (a_tokens p_ast) (map (fun _ => VStr []) (a_tokens p_ast)) sc0 in
                match eval_matcher fs m sc with
                | Ok b =>
                  match next (push st (if b then Allow else Indet)) with
                  | Some v => Ok v
                  | None => Panic
                  end
                | Err e => Err e
                | Panic => Panic
                end
              | _ => rules_loop fs m eft_tok (a_tokens p_ast) sc0 st rules
              end
            end
          end
      | _, _, _, _ => Err EModel
      end.

  Definition enforce_plain enabled md mexprs fs rvals :=
    enforce_core enabled md mexprs fs s_r s_p s_e s_m (tok s_p s_eft) rvals.

  Definition enforce_ctx enabled md mexprs fs (suffix : text) rvals :=
    enforce_core enabled md mexprs fs (s_r ++ suffix) (s_p ++ suffix) (s_e ++ suffix)
                 (s_m ++ suffix) (tok (s_p ++ suffix) s_eft) rvals.

  (* ---------- PERM reference semantics (the specification of C01) ---------- *)
  (* per-rule effect or the error reached when evaluating that rule *)
  Definition rule_outcome (fs : fstate) (m : expr) (eft_tok : text) (ptoks : list text)
             (sc0 : list (text * value)) (pvals : rule) : outcome eff :=
    if negb (Nat.eqb (length ptoks) (length pvals)) then Err EPolicy
    else match eval_matcher fs m (bind ptoks (map VStr pvals) sc0) with
         | Ok b => Ok (rule_effect eft_tok ptoks pvals b)
         | Err e => Err e
         | Panic => Panic
         end.

  (* combine per-rule outcomes: an error counts only if it is reached, i.e. no
     prefix before it already forces the declarative result *)
  Fixpoint perm_combine (r : erule) (seen : list eff) (outs : list (outcome eff)) : outcome bool :=
    match outs with
    | [] => Ok (decl r seen)
    | Ok e :: rest =>
      match forced r (seen ++ [e]) with
      | Some b => Ok b
      | None => perm_combine r (seen ++ [e]) rest
      end
    | Err c :: _ => Err c
    | Panic :: _ => Panic
    end.

  Definition perm_ref (enabled : bool) (md : model) (mexprs : list (text * expr))
             (fs : fstate) (rk pk ek mk eft_tok : text) (rvals : list value) : outcome bool :=
    if negb enabled then Ok true
    else
      match get_ast md s_r rk, get_ast md s_p pk, get_ast md s_m mk, get_ast md s_e ek with
      | Some r_ast, Some p_ast, Some m_ast, Some e_ast =>
        if negb (Nat.eqb (length (a_tokens r_ast)) (length rvals)) then Err ERequest
        else
          match parse_erule (a_value e_ast), assoc mk mexprs with
          | None, _ => Panic
          | Some _, None => Err EEvalc
          | Some er, Some m =>
            let sc0 := bind (a_tokens r_ast) rvals [] in
            match a_policy p_ast with
            | [] =>
              let sc := bind (a_tokens p_ast) (map (fun _ => VStr []) (a_tokens p_ast)) sc0 in
              match eval_matcher fs m sc with
              | Ok b => Ok (decl er [if b then Allow else Indet])
              | Err e => Err e
              | Panic => Panic
              end
            | rules =>
              perm_combine er [] (map (rule_outcome fs m eft_tok (a_tokens p_ast) sc0) rules)
            end
          end
      | _, _, _, _ => Err EModel
      end.
End Enforce.
