(* C05 — specification side: the link set a stored grouping policy stands for,
   the side conditions g_exact / defs_disjoint, a decidable version of the
   RoleSync invariant, and the trace predicate.  Executable definitions only. *)
From CV Require Import Model.Base Model.RoleGraph Model.Expr Model.Enforce Model.Engine.

(* a link with its domain key *)
Definition lkey := (text * (text * text))%type.
Definition lkeqb (x y : lkey) : bool := teqb (fst x) (fst y) && peqb (snd x) (snd y).

(* the domain a rule of a definition with `cnt` underscores is linked in *)
Definition rule_dom (cnt : nat) (r : rule) : option text :=
  if Nat.eqb cnt 2 then None else Some (nth 2 r []).

(* the link one stored rule stands for: (r[0], r[1]) in the default domain
   (2 underscores) or in domain r[2] (3 underscores); a reflexive rule stands
   for no link (add_link ignores it) *)
Definition rule_link (cnt : nat) (r : rule) : option lkey :=
  let a := nth 0 r [] in let b := nth 1 r [] in
  if teqb a b then None else Some (dom_key (rule_dom cnt r), (a, b)).

Definition olist {A} (o : option A) : list A := match o with Some x => [x] | None => [] end.
Definition rules_links (cnt : nat) (pol : list rule) : list lkey :=
  flat_map (fun r => olist (rule_link cnt r)) pol.
Definition def_links (a : assertion) : list lkey :=
  rules_links (count_us (a_value a)) (a_policy a).
(* ALL g definitions: they share one role manager (finding D7) *)
Definition all_links (am : amap) : list lkey := flat_map (fun ka => def_links (snd ka)) am.

Definition gsec (md : model) : amap := match assoc s_g md with Some am => am | None => [] end.

Definition links_of_am (am : amap) (dk : text) : links :=
  map snd (filter (fun l => teqb (fst l) dk) (all_links am)).
(* (1) the specification link set of the stored grouping policy, per domain *)
Definition links_of (md : model) (d : option text) : links := links_of_am (gsec md) (dom_key d).

(* (a) every g definition has 2 or 3 underscores and every stored rule has
   exactly that many fields *)
Definition def_exact (a : assertion) : bool :=
  let c := count_us (a_value a) in
  (Nat.eqb c 2 || Nat.eqb c 3) && forallb (fun r => Nat.eqb (length r) c) (a_policy a).
Definition g_exact_am (am : amap) : bool := forallb (fun ka => def_exact (snd ka)) am.
Definition g_exact (md : model) : bool := g_exact_am (gsec md).

(* (b) two different g definitions never hold rules standing for the same link *)
Fixpoint defs_disjoint_am (am : amap) : bool :=
  match am with
  | [] => true
  | ka :: am' =>
    forallb (fun l => negb (memb lkeqb l (all_links am'))) (def_links (snd ka))
    && defs_disjoint_am am'
  end.
Definition defs_disjoint (md : model) : bool := defs_disjoint_am (gsec md).

Definition side_ok (s : estate) : bool := g_exact (e_model s) && defs_disjoint (e_model s).
Definition single_def (md : model) : bool :=
  match gsec md with [_] => true | _ => false end.

(* ---- decidable well-formedness of a role manager ---- *)
Fixpoint nodupb {A} (eqb : A -> A -> bool) (l : list A) : bool :=
  match l with
  | [] => true
  | x :: l' => negb (memb eqb x l') && nodupb eqb l'
  end.
Definition wf_graph_b (g : dgraph) : bool :=
  nodupb teqb (nodes g) && nodupb peqb (edges g) &&
  forallb (fun e => memb teqb (fst e) (nodes g) && memb teqb (snd e) (nodes g)
                    && negb (teqb (fst e) (snd e))) (edges g).
Definition wf_b (m : rmgr) : bool :=
  nodupb teqb (map fst m) && forallb (fun kg => wf_graph_b (snd kg)) m.

Definition is_cur (h : handle) : bool := match h with HCur => true | _ => false end.

(* decidable RoleSync *)
Definition role_sync_b (s : estate) : bool :=
  let am := gsec (e_model s) in
  let m := f_rm (e_fs s) in
  wf_b m &&
  forallb (fun kg => subsetb peqb (edges (snd kg)) (links_of_am am (fst kg))) m &&
  forallb (fun l => memb peqb (snd l)
                         (match assoc (fst l) m with Some g => edges g | None => [] end))
          (all_links am) &&
  forallb (fun ka => is_cur (a_handle (snd ka))) am &&
  forallb (fun ka => match find_gfun (fst ka, count_us (a_value (snd ka))) (f_gfuns (e_fs s)) with
                     | Some HCur => true | _ => false end) am.

(* the hierarchy of every domain is shallower than the limit: whatever is
   reachable is reachable within maxd - 1 steps *)
Definition shallow_links_b (maxd : nat) (l : links) : bool :=
  forallb (fun a => forallb (fun b => teqb a b || reach_within l (maxd - 1) a b && Nat.ltb 0 maxd)
                            (within l (length l) a))
          (map fst l).
Definition shallow_b (maxd : nat) (m : rmgr) : bool :=
  forallb (fun kg => shallow_links_b maxd (edges (snd kg))) m.

(* ---- (5) the trace predicate: answers to the same queries before and after
   an explicit rebuild; set-valued answers are compared as sets ---- *)
Definition ans_equiv (x y : answer) : bool :=
  match x, y with
  | AnsDec (Ok a), AnsDec (Ok b) => Bool.eqb a b
  | AnsDec (Err a), AnsDec (Err b) => errc_eqb a b
  | AnsDec Panic, AnsDec Panic => true
  | AnsRules a, AnsRules b => list_eqb reqb a b
  | AnsRuleBag a, AnsRuleBag b => seteqb reqb a b
  | AnsNames a, AnsNames b => list_eqb teqb a b
  | AnsNameSet a, AnsNameSet b => seteqb teqb a b
  | AnsBool a, AnsBool b => Bool.eqb a b
  | AnsPanic, AnsPanic => true
  | _, _ => false
  end.
Fixpoint answers_equiv (xs ys : list answer) : bool :=
  match xs, ys with
  | [], [] => true
  | x :: xs', y :: ys' => ans_equiv x y && answers_equiv xs' ys'
  | _, _ => false
  end.
Definition c05_pred (before after : list answer) : bool := answers_equiv before after.
