(* Executable specification helpers for C18 (a reconfigured enforcer equals a
   freshly built one): the model definition of a state, the fresh enforcer
   built through the public API from a definition, an adapter and the
   components of a state, comparison of answers, the registered role-function
   keys, and the defective set_model used by the witness. *)
From CV Require Import Model.Base Model.Effector Model.RoleGraph Model.Expr
     Model.Enforce Model.Engine.

(* ---- the definition part of a model store ---- *)
Definition reset_ast (a : assertion) : assertion :=
  {| a_value := a_value a; a_tokens := a_tokens a; a_policy := []; a_handle := HOwn |}.

(* all policies emptied, all handles back to the assertion's own manager:
   what parsing the model text again would give *)
Definition defs_of (md : model) : model :=
  map (fun sa => (fst sa, map (fun ka => (fst ka, reset_ast (snd ka))) (snd sa))) md.

Definition def_of (s : estate) : modeldef :=
  {| d_model := defs_of (e_model s); d_mexprs := e_mexprs s |}.

(* the model store itself used as a definition (a clone of the Model object:
   the constructor's load empties p and g first) *)
Definition cur_def (s : estate) : modeldef :=
  {| d_model := e_model s; d_mexprs := e_mexprs s |}.

(* a definition as a parser produces it *)
Definition clean_ast (a : assertion) : bool :=
  match a_policy a, a_handle a with [], HOwn => true | _, _ => false end.
Definition clean_model (md : model) : bool :=
  forallb (fun sa => forallb (fun ka => clean_ast (snd ka)) (snd sa)) md.
Definition clean_def (d : modeldef) : bool := clean_model (d_model d).

(* ---- the fresh enforcer ---- *)
(* add_function for every user function, oldest first (the list is newest first) *)
Definition replay_ufuns (st : estate) (ufs : list (text * ufun)) : estate :=
  fold_right (fun nu st' => fst (step st' (OAddFunction (fst nu) (snd nu)))) st ufs.

Definition default_rm_max : nat := 10.

(* Enforcer::new(d, a), then the components and flags of `s` installed through
   the public API: set_role_manager (only when the limit differs from the
   default manager's), add_function, the four toggles *)
Definition fresh_from (d : modeldef) (a : adapter) (s : estate) : estate * outcome bool :=
  match new_enforcer d a (e_watcher s) with
  | (s0, Ok b) =>
    let (s1, r1) := if Nat.eqb (f_rm_max (e_fs s)) default_rm_max then (s0, Ok true)
                    else step s0 (OSetRoleManager (f_rm_max (e_fs s))) in
    match r1 with
    | Ok _ =>
      let s2 := replay_ufuns s1 (f_ufuns (e_fs s)) in
      let s3 := fst (step s2 (OEnableAutoSave (e_auto_save s))) in
      let s4 := fst (step s3 (OEnableAutoBuild (e_auto_build s))) in
      let s5 := fst (step s4 (OEnableAutoNotify (e_auto_notify s))) in
      let s6 := fst (step s5 (OEnableEnforce (e_enabled s))) in
      (s6, Ok b)
    | other => (s1, other)
    end
  | other => other
  end.

(* from the re-parsed definition and the adapter the state holds now *)
Definition fresh_of (s : estate) : estate * outcome bool :=
  fresh_from (def_of s) (e_adapter s) s.

(* ---- registered role functions ---- *)
Definition gkeys (am : amap) : list (text * nat) :=
  map (fun ka => (fst ka, count_us (a_value (snd ka)))) am.
Definition model_gkeys (md : model) : list (text * nat) :=
  match assoc s_g md with Some am => gkeys am | None => [] end.

(* no role function registered earlier survives under a name/arity the model
   does not define *)
Definition no_leftover (gf : list ((text * nat) * handle)) (md : model) : bool :=
  forallb (fun kh => memb gkey_eqb (fst kh) (model_gkeys md)) gf.

(* every role definition of the model is registered, bound to the current manager *)
Definition gfuns_current (gf : list ((text * nat) * handle)) (md : model) : bool :=
  forallb (fun k => match find_gfun k gf with Some HCur => true | _ => false end) (model_gkeys md).

(* ---- adapters ---- *)
Definition ad_unscripted (a : adapter) : bool :=
  match a with AScripted _ _ => false | _ => true end.

(* ---- comparing answers ---- *)
Definition count_rule (r : rule) (l : list rule) : nat := length (filter (reqb r) l).
Definition bageqb (x y : list rule) : bool :=
  Nat.eqb (length x) (length y) && forallb (fun r => Nat.eqb (count_rule r x) (count_rule r y)) x.
Definition outcome_beqb (a b : outcome bool) : bool :=
  match a, b with
  | Ok x, Ok y => Bool.eqb x y
  | Err x, Err y => errc_eqb x y
  | Panic, Panic => true
  | _, _ => false
  end.
Definition answer_eqb (a b : answer) : bool :=
  match a, b with
  | AnsDec x, AnsDec y => outcome_beqb x y
  | AnsRules x, AnsRules y => list_eqb reqb x y
  | AnsRuleBag x, AnsRuleBag y => bageqb x y
  | AnsNames x, AnsNames y => list_eqb teqb x y
  | AnsNameSet x, AnsNameSet y => seteqb teqb x y
  | AnsBool x, AnsBool y => Bool.eqb x y
  | AnsPanic, AnsPanic => true
  | _, _ => false
  end.

(* C18 on one observation: the answers of the reconfigured and of the fresh
   enforcer to the same query *)
Definition c18_pred (reconfigured fresh : answer) : bool := answer_eqb reconfigured fresh.

(* ---- the defect D14: set_model without re-registering the role functions ---- *)
Definition step_set_model_noreg (s : estate) (d : modeldef) : estate * outcome bool :=
  let s0 := {| e_model := d_model d; e_mexprs := d_mexprs d; e_adapter := e_adapter s; e_fs := e_fs s;
               e_enabled := e_enabled s; e_auto_save := e_auto_save s; e_auto_build := e_auto_build s;
               e_auto_notify := e_auto_notify s; e_callbacks := e_callbacks s;
               e_watcher := e_watcher s; e_wlog := e_wlog s |} in
  step_load s0.

(* every role definition has 2 or 3 placeholders (register_g_functions accepts it) *)
Definition gdefs_ok (md : model) : bool :=
  forallb (fun kc => Nat.eqb (snd kc) 2 || Nat.eqb (snd kc) 3) (model_gkeys md).

(* the registered role functions are exactly the model's, bound to the current manager *)
Definition gfuns_exactb (gf : list ((text * nat) * handle)) (md : model) : bool :=
  gdefs_ok md && gfuns_current gf md && no_leftover gf md.

(* hypothesis (i) in its weak form: a function name is safe when no role
   function registered earlier under that name is left undefined by the model *)
Definition safe_name (gf : list ((text * nat) * handle)) (md : model) (f : text) : bool :=
  forallb (fun kh => negb (teqb (fst (fst kh)) f) || memb gkey_eqb (fst kh) (model_gkeys md)) gf.

(* ---- Synced as a decidable predicate ---- *)
Definition dgraph_eqb (g1 g2 : dgraph) : bool :=
  list_eqb teqb (nodes g1) (nodes g2) && list_eqb peqb (edges g1) (edges g2).
Definition rmgr_eqb (m1 m2 : rmgr) : bool :=
  list_eqb (fun x y => teqb (fst x) (fst y) && dgraph_eqb (snd x) (snd y)) m1 m2.
Definition handle_eqb (h1 h2 : handle) : bool :=
  match h1, h2 with
  | HOwn, HOwn | HCur, HCur => true
  | HFrozen m1 x1, HFrozen m2 x2 => rmgr_eqb m1 m2 && Nat.eqb x1 x2
  | _, _ => false
  end.
Definition assertion_eqb (a b : assertion) : bool :=
  teqb (a_value a) (a_value b) && list_eqb teqb (a_tokens a) (a_tokens b) &&
  list_eqb reqb (a_policy a) (a_policy b) && handle_eqb (a_handle a) (a_handle b).
Definition amap_eqb (x y : amap) : bool :=
  list_eqb (fun p q => teqb (fst p) (fst q) && assertion_eqb (snd p) (snd q)) x y.
Definition model_eqb (x y : model) : bool :=
  list_eqb (fun p q => teqb (fst p) (fst q) && amap_eqb (snd p) (snd q)) x y.

(* build_role_links as a function of the model store *)
Definition build_model (md : model) : model * rmgr * lerr :=
  match assoc s_g md with
  | None => (md, [], LOk)
  | Some am => match build_links_am am [] with
               | (am', m', e) => (assoc_set s_g am' md, m', e)
               end
  end.

(* loading from the adapter and building the links reproduces the model store
   and the role manager the state holds *)
Definition syncedb (s : estate) : bool :=
  match ad_load (e_adapter s) (m_clear_policy (e_model s)) with
  | (ad, md, LROk) =>
    match build_model md with
    | (md', m', LOk) =>
      model_eqb md' (e_model s) && rmgr_eqb m' (f_rm (e_fs s)) &&
      Bool.eqb (ad_is_filtered ad) (ad_is_filtered (e_adapter s))
    | _ => false
    end
  | _ => false
  end.

(* every line of the adapter is keyed in section p or g (or is ignored by the
   loader) *)
Definition pg_sec (sec : text) : bool := teqb sec s_p || teqb sec s_g.
Definition pg_text_line (ln : rule) : bool :=
  match ln with (c :: _) :: _ => pg_sec [c] | _ => true end.
Definition pg_mem_line (ln : rule) : bool :=
  match ln with sec :: _ :: _ => pg_sec sec | _ => true end.
Definition pg_lines (a : adapter) : bool :=
  match a with
  | ANull => true
  | AMemory l _ => forallb pg_mem_line l
  | AFile l _ | AString l _ => forallb pg_text_line l
  | AScripted _ _ => true
  end.

(* the calls along which the reconfiguration theorems chain *)
Definition reconf_ok (o : op) : bool :=
  match o with
  | OSetModel _ | OSetRoleManager _ | OSetEffector | OAddFunction _ _ | OLoad
  | OEnableEnforce _ | OEnableAutoSave _ | OEnableAutoNotify _ | OEnableAutoBuild true => true
  | OSetAdapter a => ad_unscripted a && pg_lines a && negb (ad_is_filtered a)
  | _ => false
  end.

(* every call of the list returns Ok *)
Fixpoint run_all_ok (s : estate) (ops : list op) : bool :=
  match ops with
  | [] => true
  | o :: r => match step s o with
              | (s', Ok _) => run_all_ok s' r
              | _ => false
              end
  end.

(* ================= C18obs: observational version of Synced ================= *)
(* (helpers added at the end; nothing above is changed) *)
From CV Require Import Model.SpecC05 Model.SpecC09.

(* the STORE half of syncedb: loading from the adapter and building the links
   reproduces the model store (the role manager built on the way is not
   compared), and the adapter's filtered mark agrees *)
Definition store_syncedb (s : estate) : bool :=
  match ad_load (e_adapter s) (m_clear_policy (e_model s)) with
  | (ad, md, LROk) =>
    match build_model md with
    | (md', _, LOk) =>
      model_eqb md' (e_model s) && Bool.eqb (ad_is_filtered ad) (ad_is_filtered (e_adapter s))
    | _ => false
    end
  | _ => false
  end.

(* the weaker hypothesis: the store is what the adapter reloads to; the role
   graph only has to hold the right edge SET per domain (role_sync_b: well-formed
   manager, edges = links of the stored grouping rules, handles and role
   functions current), every grouping rule has the arity of its definition
   (g_exact), and every hierarchy is below the depth limit (shallow_b) *)
Definition obs_syncedb (s : estate) : bool :=
  store_syncedb s && role_sync_b s && g_exact (e_model s) &&
  shallow_b (f_rm_max (e_fs s)) (f_rm (e_fs s)).

(* ---- re-parsing the definition ---- *)
(* every handle back to the assertion's own manager *)
Definition hreset_am (am : amap) : amap := map (fun ka => (fst ka, with_handle (snd ka) HOwn)) am.
Definition hreset (md : model) : model := map (fun sa => (fst sa, hreset_am (snd sa))) md.
(* the store without the contents of its g section *)
Definition gdrop (md : model) : model :=
  match assoc s_g md with Some _ => assoc_set s_g [] md | None => md end.
(* the model store is what a load into the RE-PARSED definition can produce:
   emptying sections p and g empties everything (no rules are stored outside
   p and g), and outside g every handle is the assertion's own *)
Definition reparse_ok (md : model) : bool :=
  model_eqb (defs_of md) (hreset (m_clear_policy md)) && model_eqb (hreset (gdrop md)) (gdrop md).

(* ---- the calls of the incremental histories ---- *)
(* a management call that names a section names p or g *)
Definition pg_op (o : op) : bool :=
  match o with
  | OAdd sec _ _ | OAddMany sec _ _ | ORemove sec _ _ | ORemoveMany sec _ _
  | ORemoveFiltered sec _ _ _ => pg_sec sec
  | _ => true
  end.
(* every call C09 quantifies over (all but set_model, set_adapter,
   load_filtered_policy, enable_auto_save(false)), on sections p and g *)
Definition obs_op (o : op) : bool := c09_op o && pg_op o.

(* a plain memory adapter, not marked filtered, holding p and g lines only *)
Definition mem_plain (a : adapter) : bool :=
  match a with AMemory l f => negb f && forallb pg_mem_line l | _ => false end.
