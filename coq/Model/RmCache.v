(* Model of the has_link cache of DefaultRoleManager (feature `cached`,
   src/rbac/default_role_manager.rs): the manager plus a cache keyed by
   (name1, name2, domain-or-DEFAULT). add_link clears iff an edge was added,
   delete_link iff an edge was removed, clear always; has_link answers a
   reflexive query directly, otherwise from the cache or computes and stores.
   The 64-bit hash of the key is assumed injective on the keys in play; the
   cache may forget entries (theorems hold for every sub-cache).
   Without matching functions (as Model/RoleGraph.v). Executable definitions only. *)
From CV Require Import Model.Base Model.RoleGraph.

Definition rkey := (text * text * text)%type.
Definition rkey_of (a b : text) (d : option text) : rkey := (a, b, dom_key d).
Definition rkey_eqb (x y : rkey) : bool :=
  teqb (fst (fst x)) (fst (fst y)) && teqb (snd (fst x)) (snd (fst y)) && teqb (snd x) (snd y).

Record rmc := { rc_rm : rmgr; rc_cache : list (rkey * bool) }.

Fixpoint rc_get (k : rkey) (l : list (rkey * bool)) : option bool :=
  match l with
  | [] => None
  | (k', b) :: l' => if rkey_eqb k k' then Some b else rc_get k l'
  end.

(* was a Link edge added / removed by the call? *)
Definition edge_present (m : rmgr) (a b : text) (d : option text) : bool :=
  match graph_of m d with Some g => has_edge g a b | None => false end.
Definition link_added (m : rmgr) (a b : text) (d : option text) : bool :=
  negb (teqb a b) && negb (edge_present m a b d).
Definition link_removed (m : rmgr) (a b : text) (d : option text) : bool :=
  negb (teqb a b) &&
  match graph_of m d with
  | Some g => has_node g a && has_node g b && has_edge g a b
  | None => false
  end.

Definition rc_add_link (c : rmc) (a b : text) (d : option text) : rmc :=
  {| rc_rm := add_link (rc_rm c) a b d;
     rc_cache := if link_added (rc_rm c) a b d then [] else rc_cache c |}.

Definition rc_delete_link (c : rmc) (a b : text) (d : option text) : rmc * bool :=
  let (m', ok) := delete_link (rc_rm c) a b d in
  ({| rc_rm := m'; rc_cache := if link_removed (rc_rm c) a b d then [] else rc_cache c |}, ok).

Definition rc_clear (c : rmc) : rmc := {| rc_rm := rm_clear (rc_rm c); rc_cache := [] |}.

Definition rc_has_link (maxd : nat) (c : rmc) (a b : text) (d : option text) : rmc * bool :=
  if teqb a b then (c, true)
  else match rc_get (rkey_of a b d) (rc_cache c) with
       | Some r => (c, r)
       | None => let r := has_link maxd (rc_rm c) a b d in
                 ({| rc_rm := rc_rm c; rc_cache := (rkey_of a b d, r) :: rc_cache c |}, r)
       end.

(* histories of writes and has_link queries; the outputs are the query answers
   and the delete_link results *)
Inductive rcop := RCWrite (o : lop) | RCHas (a b : text) (d : option text).

Definition rc_write (c : rmc) (o : lop) : rmc * bool :=
  match o with
  | LAdd a b d => (rc_add_link c a b d, true)
  | LDel a b d => rc_delete_link c a b d
  | LClear => (rc_clear c, true)
  end.

Fixpoint rc_run (maxd : nat) (c : rmc) (h : list rcop) : list bool :=
  match h with
  | [] => []
  | RCWrite o :: h' => let (c', r) := rc_write c o in r :: rc_run maxd c' h'
  | RCHas a b d :: h' => let (c', r) := rc_has_link maxd c a b d in r :: rc_run maxd c' h'
  end.

(* the uncached manager through the same history *)
Fixpoint rm_run (maxd : nat) (m : rmgr) (h : list rcop) : list bool :=
  match h with
  | [] => []
  | RCWrite o :: h' => let (m', r) := lstep m o in r :: rm_run maxd m' h'
  | RCHas a b d :: h' => has_link maxd m a b d :: rm_run maxd m h'
  end.

(* defective variant for the witnesses: never clears on writes *)
Definition rc_write_noclear (c : rmc) (o : lop) : rmc * bool :=
  let (m', r) := lstep (rc_rm c) o in ({| rc_rm := m'; rc_cache := rc_cache c |}, r).
Fixpoint rc_run_noclear (maxd : nat) (c : rmc) (h : list rcop) : list bool :=
  match h with
  | [] => []
  | RCWrite o :: h' => let (c', r) := rc_write_noclear c o in r :: rc_run_noclear maxd c' h'
  | RCHas a b d :: h' => let (c', r) := rc_has_link maxd c a b d in r :: rc_run_noclear maxd c' h'
  end.
