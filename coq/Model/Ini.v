(* Model of src/config.rs (ini-style reader with sections, comments and
   backslash continuation), of DefaultModel::from_str / load_section / add_def
   (default_model.rs:47-146), util::remove_comment, and Model::to_text (after
   the repair). Byte level; executable definitions only. *)
From CV Require Import Model.Base Model.PathMatch Model.Expr Model.Csv.

Definition lbracket : ascii := "["%char.
Definition rbracket : ascii := "]"%char.
Definition bslash : ascii := "\"%char.
Definition semicolon : ascii := ";"%char.
Definition equals : ascii := "="%char.

Definition starts_with_c (c : ascii) (s : text) : bool :=
  match s with d :: _ => Ascii.eqb c d | [] => false end.
Definition ends_with_c (c : ascii) (s : text) : bool :=
  match rev s with d :: _ => Ascii.eqb c d | [] => false end.
Definition drop_last (s : text) : text := rev (tl (rev s)).

Definition is_comment_or_blank (l : text) : bool :=
  match l with [] => true | c :: _ => Ascii.eqb c hash || Ascii.eqb c semicolon end.
Definition is_section (l : text) : bool := starts_with_c lbracket l && ends_with_c rbracket l.
Definition section_name (l : text) : text := drop_last (tl l).

(* config data: (section, key) -> value, later keys override *)
Definition cfg := list ((text * text) * text).
Definition pair_eqb (a b : text * text) : bool := teqb (fst a) (fst b) && teqb (snd a) (snd b).
Fixpoint cfg_set (k : text * text) (v : text) (c : cfg) : cfg :=
  match c with
  | [] => [(k, v)]
  | (k', v') :: c' => if pair_eqb k k' then (k', v) :: c' else (k', v') :: cfg_set k v c'
  end.
Fixpoint cfg_get (k : text * text) (c : cfg) : option text :=
  match c with
  | [] => None
  | (k', v) :: c' => if pair_eqb k k' then Some v else cfg_get k c'
  end.

(* first '=' splits option and value (splitn(2, '=')), both trimmed; None = no '=' *)
Definition split_option (line : text) : option (text * text) :=
  let (a, b) := span_not equals line in
  match b with
  | _ :: v => Some (trim a, trim v)
  | [] => None
  end.

(* trim_end_matches(white space or backslash) *)
Fixpoint trim_start_wsb (s : text) : text :=
  match s with
  | c :: r => if is_ws c || Ascii.eqb c bslash then trim_start_wsb r else s
  | [] => []
  end.
Definition trim_end_wsb (s : text) : text := rev (trim_start_wsb (rev s)).

Definition DEFAULT_SECTION : text := T "default".

(* the continuation loop of parse_buffer: `line` ends with a backslash.
   Returns the joined line, the deferred section header (if one was read inside
   the continuation) and the remaining input lines. A blank or comment line
   ends the continuation; a section header inside it is deferred. *)
Fixpoint continuation (fuel : nat) (line : text) (next_sec : text) (rest : list text)
  : text * text * list text :=
  match fuel with
  | 0 => (line, next_sec, rest)
  | S f =>
    if ends_with_c bslash line then
      let line1 := trim_end (drop_last line) in
      match rest with
      | [] => (line1, next_sec, [])                      (* EOF: break *)
      | raw :: rest' =>
        let inner := trim raw in
        if is_comment_or_blank inner then continuation f line1 next_sec rest'
        else if is_section inner then continuation f line1 (section_name inner) rest'
        else continuation f (line1 ++ inner) next_sec rest'
      end
    else (line, next_sec, rest)
  end.

(* Config::parse_buffer over the lines of the text; None = parse error *)
Fixpoint parse_lines (fuel : nat) (lines : list text) (section : text) (c : cfg) : option cfg :=
  match fuel with
  | 0 => Some c
  | S f =>
    match lines with
    | [] => Some c
    | raw :: rest =>
      let line := trim raw in
      if is_comment_or_blank line then parse_lines f rest section c
      else if is_section line then parse_lines f rest (section_name line) c
      else
        match continuation (S (length rest)) line [] rest with
        | (joined, next_sec, rest') =>
          match split_option (trim_end_wsb joined) with
          | None => None
          | Some (k, v) =>
            let sec := match section with [] => DEFAULT_SECTION | _ => section end in
            parse_lines f rest' (match next_sec with [] => section | _ => next_sec end)
                        (cfg_set (sec, k) v c)
          end
        end
    end
  end.

(* read_line keeps the line terminator; trimming removes it. The last line may
   lack a terminator; an empty tail yields no line. *)
Definition ini_lines (t : text) : list text :=
  match rev (split_lines t []) with
  | [] :: more => rev more
  | other => rev other
  end.
Definition parse_config (t : text) : option cfg :=
  let ls := ini_lines t in parse_lines (S (length ls)) ls [] [].

(* util::remove_comment *)
Definition remove_comment (s : text) : text := trim_end (fst (span_not hash s)).

(* ---- DefaultModel::from_str ---- *)
Record adef := { ad_key : text; ad_value : text; ad_tokens : list text }.
Definition mdefs := list (text * list adef).       (* section letter -> definitions in load order *)

Definition sec_name (sec : text) : text :=
  if teqb sec (T "r") then T "request_definition"
  else if teqb sec (T "p") then T "policy_definition"
  else if teqb sec (T "g") then T "role_definition"
  else if teqb sec (T "e") then T "policy_effect"
  else T "matchers".

Fixpoint split_commas (s : text) (cur : text) : list text :=
  match s with
  | [] => [rev cur]
  | c :: r => if Ascii.eqb c comma then rev cur :: split_commas r [] else split_commas r (c :: cur)
  end.

(* Config::get lower-cases the whole lookup key (section names and keys in a
   model text are lower case already in every supported model) *)
Definition add_def (sec key value : text) : option adef :=
  let v := remove_comment value in
  match v with
  | [] => None
  | _ =>
    if teqb sec (T "r") || teqb sec (T "p")
    then Some {| ad_key := key; ad_value := v;
                 ad_tokens := map (fun x => key ++ underscore :: trim x) (split_commas v []) |}
    else Some {| ad_key := key; ad_value := escape_assertion v; ad_tokens := [] |}
  end.

Definition digit_text (n : nat) : text := print_Z (Z.of_nat n).
Definition key_suffix (i : nat) : text := if Nat.eqb i 1 then [] else digit_text i.

(* load_section: key, key2, key3, ... until the first missing or empty one *)
Fixpoint load_section (fuel : nat) (c : cfg) (sec : text) (i : nat) : list adef :=
  match fuel with
  | 0 => []
  | S f =>
    let key := sec ++ key_suffix i in
    match cfg_get (sec_name sec, key) c with
    | None => []
    | Some v => match add_def sec key v with
                | None => []
                | Some d => d :: load_section f c sec (S i)
                end
    end
  end.

Definition load_model (c : cfg) : mdefs :=
  flat_map (fun sec => match load_section (S (length c)) c sec 1 with
                       | [] => []
                       | ds => [(sec, ds)]
                       end)
           [T "r"; T "p"; T "e"; T "m"; T "g"].

Definition model_of_text (t : text) : option mdefs := option_map load_model (parse_config t).

(* ---- Model::to_text (after the repair) ---- *)
Fixpoint replace_all (fuel : nat) (from to s : text) : text :=
  match fuel with
  | 0 => s
  | S f =>
    match s with
    | [] => []
    | c :: r =>
      match from with
      | [] => s
      | _ => match strip_prefix from s with
             | Some rest => to ++ replace_all f from to rest
             | None => c :: replace_all f from to r
             end
      end
    end
  end.

(* a leading r or p, digits, underscore: the underscore becomes a dot *)
Definition untoken (t : text) : text :=
  match t with
  | c :: r =>
    if is_rp c then
      let fix go (s : text) (acc : text) : text :=
          match s with
          | d :: s' => if is_digit d then go s' (d :: acc)
                       else if Ascii.eqb d underscore then c :: rev acc ++ dot :: s'
                       else t
          | [] => t
          end in go r []
    else t
  | [] => t
  end.

(* the replacement table is a HashMap in the code (iteration order
   unspecified); the model applies it in definition order. For the supported
   models the order does not matter (no token is a proper part of another
   replacement's output): stated as a hypothesis where it is used. *)
Definition token_table (m : mdefs) : list (text * text) :=
  let toks := flat_map (fun sd => if teqb (fst sd) (T "r") || teqb (fst sd) (T "p")
                                  then flat_map ad_tokens (snd sd) else []) m in
  map (fun t => (t, untoken t)) toks ++
  (match assoc (T "e") m with
   | Some ds => if existsb (fun d => teqb (ad_key d) (T "e") &&
                                     is_infix (T "p_eft") (ad_value d)) ds
                then [(T "p_eft", T "p.eft")] else []
   | None => [] end).

Definition apply_table (tb : list (text * text)) (v : text) : text :=
  fold_left (fun acc ft => replace_all (S (length acc)) (fst ft) (snd ft) acc) tb v.

Definition nlt : text := [nl].
Definition write_defs (tb : list (text * text)) (ds : list adef) (rewrite : bool) : text :=
  flat_map (fun d => ad_key d ++ T " = " ++ (if rewrite then apply_table tb (ad_value d) else ad_value d) ++ nlt) ds.
Definition sec_defs (m : mdefs) (sec : text) : list adef :=
  match assoc sec m with Some ds => ds | None => [] end.

Definition to_text (m : mdefs) : text :=
  let tb := token_table m in
  T "[request_definition]" ++ nlt ++ write_defs tb (sec_defs m (T "r")) true ++
  T "[policy_definition]" ++ nlt ++ write_defs tb (sec_defs m (T "p")) true ++
  (match assoc (T "g") m with
   | Some ds => T "[role_definition]" ++ nlt ++ write_defs tb ds false
   | None => [] end) ++
  T "[policy_effect]" ++ nlt ++ write_defs tb (sec_defs m (T "e")) true ++
  T "[matchers]" ++ nlt ++ write_defs tb (sec_defs m (T "m")) true.
