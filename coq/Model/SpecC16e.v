(* C16e: specification-level definitions for "escaping commutes with printing".
   New file; nothing of the validated executable model (Expr.v ...) is changed.

   - print_expr_at_tok / print_expr_tok : the printer of Expr.v with a variable
     `EVar p f` printed as its scope token `tok p f` = p_f, and `EEval p f` as
     eval(p_f); every other clause is literally that of print_expr_at.
   - print_gen : the same printer abstracted over how a variable is rendered;
     print_expr_at and print_expr_at_tok are its two instances (proved).
   - esc_wf : the decidable well-formedness condition under which
     escape_assertion (print_expr e) = print_expr_tok e. *)
From CV Require Import Model.Base Model.PathMatch Model.Expr Model.SpecC16.

(* ---------- the printer with variables as tokens ---------- *)
Fixpoint print_expr_at_tok (ctx : nat) (e : expr) : text :=
  match e with
  | ELit v => print_scalar v
  | EVar p f => tok p f
  | EProp a f => print_expr_at_tok 6 a ++ dot :: f
  | EEq a b => wrap ctx 3 (print_expr_at_tok 6 a ++ T " == " ++ print_expr_at_tok 6 b)
  | ENeq a b => wrap ctx 3 (print_expr_at_tok 6 a ++ T " != " ++ print_expr_at_tok 6 b)
  | ECmp c a b => wrap ctx 5 (print_expr_at_tok 6 a ++ cmp_text c ++ print_expr_at_tok 6 b)
  | EAnd a b => wrap ctx 2 (print_expr_at_tok 2 a ++ T " && " ++ print_expr_at_tok 3 b)
  | EOr a b => wrap ctx 1 (print_expr_at_tok 1 a ++ T " || " ++ print_expr_at_tok 2 b)
  | ENot a => wrap ctx 6 ("!"%char :: print_expr_at_tok 7 a)
  | EIn a xs =>
    wrap ctx 4 (print_expr_at_tok 6 a ++ T " in [" ++ sep_by (T ", ") (map (print_expr_at_tok 0) xs) ++ T "]")
  | ECall f args => f ++ paren (sep_by (T ", ") (map (print_expr_at_tok 0) args))
  | EEval p f => T "eval(" ++ tok p f ++ T ")"
  end.

Definition print_expr_tok (e : expr) : text := print_expr_at_tok 0 e.

(* ---------- the printer, abstracted over the rendering of a variable ---------- *)
Fixpoint print_gen (var : text -> text -> text) (ctx : nat) (e : expr) : text :=
  match e with
  | ELit v => print_scalar v
  | EVar p f => var p f
  | EProp a f => print_gen var 6 a ++ dot :: f
  | EEq a b => wrap ctx 3 (print_gen var 6 a ++ T " == " ++ print_gen var 6 b)
  | ENeq a b => wrap ctx 3 (print_gen var 6 a ++ T " != " ++ print_gen var 6 b)
  | ECmp c a b => wrap ctx 5 (print_gen var 6 a ++ cmp_text c ++ print_gen var 6 b)
  | EAnd a b => wrap ctx 2 (print_gen var 2 a ++ T " && " ++ print_gen var 3 b)
  | EOr a b => wrap ctx 1 (print_gen var 1 a ++ T " || " ++ print_gen var 2 b)
  | ENot a => wrap ctx 6 ("!"%char :: print_gen var 7 a)
  | EIn a xs =>
    wrap ctx 4 (print_gen var 6 a ++ T " in [" ++ sep_by (T ", ") (map (print_gen var 0) xs) ++ T "]")
  | ECall f args => f ++ paren (sep_by (T ", ") (map (print_gen var 0) args))
  | EEval p f => T "eval(" ++ var p f ++ T ")"
  end.

(* `p.f` as written in a .conf *)
Definition dotted (p f : text) : text := p ++ dot :: f.

(* the variable occurrences of an expression, left to right, as (prefix, field) *)
Fixpoint evars (e : expr) : list (text * text) :=
  match e with
  | ELit _ => []
  | EVar p f => [(p, f)]
  | EProp a _ => evars a
  | EEq a b | ENeq a b | ECmp _ a b | EAnd a b | EOr a b => evars a ++ evars b
  | ENot a => evars a
  | EIn a xs => evars a ++ flat_map evars xs
  | ECall _ args => flat_map evars args
  | EEval p f => [(p, f)]
  end.

(* ---------- well-formedness for escape_assertion ---------- *)
(* an identifier: word bytes only ([A-Za-z0-9_], and bytes >= 128 which the
   model's \b treats as word bytes); in particular no dot. The empty text is
   accepted: non-emptiness is a matter for the parser, the equation does not
   need it. *)
Definition ident (f : text) : bool := forallb is_word f.

(* a field name `f` after a dot.  When another dot follows (`dn` = "dot next":
   the field is the base of a property access, r.obj.owner) the field must not
   itself look like a prefix r, p, r2, ...: in `r.p2.x` the crate rewrites BOTH
   dots (r_p2_x), because after the first dot `p2.` again stands at a word
   boundary (esc_quirk_prop). Without a following dot, `r.p2` is harmless. *)
Definition field_ok (dn : bool) (f : text) : bool :=
  ident f && (negb dn || negb (rp_prefix f)).

(* a string literal must contain no rewriting site: the crate's regex does not
   know about quotes, "r.x" becomes "r_x" (documented exclusion D23).
   Integer and boolean literals are always fine. *)
Definition lit_ok (v : scalar) : bool :=
  match v with
  | SStr s => negb (has_site false (esc_lit s))
  | _ => true
  end.

(* dn: is the printed text of this expression immediately followed by a dot
   (it is the base of an EProp)?  Only atoms and `!a` are printed bare at the
   base position (level 6); everything else is parenthesised there, so the flag
   is reset below binary operators, `in`, and inside argument lists. *)
Fixpoint esc_wf_at (dn : bool) (e : expr) : bool :=
  match e with
  | ELit v => lit_ok v
  | EVar p f => rp_prefix p && field_ok dn f
  | EProp a f => esc_wf_at true a && field_ok dn f
  | EEq a b | ENeq a b | ECmp _ a b | EAnd a b | EOr a b =>
    esc_wf_at false a && esc_wf_at false b
  | ENot a => esc_wf_at dn a
  | EIn a xs => esc_wf_at false a && forallb (esc_wf_at false) xs
  | ECall f args => ident f && forallb (esc_wf_at false) args
  | EEval p f => rp_prefix p && ident f
  end.

Definition esc_wf (e : expr) : bool := esc_wf_at false e.

(* ---------- the printed text as a sequence of pieces ---------- *)
(* The AST has no bare-identifier node, so "the tokenised text is the printed
   text with every variable renamed" cannot be said by an AST renaming.  It is
   said on pieces instead: the printer's output is a sequence of fixed chunks
   and variable occurrences that does not depend on how a variable is rendered
   (`pieces`); print_expr renders an occurrence as p.f (`dotted`),
   print_expr_tok as the evaluator's scope key `tok p f`. *)
Inductive piece := PTxt (s : text) | PVar (p f : text).

Definition render1 (var : text -> text -> text) (x : piece) : text :=
  match x with PTxt s => s | PVar p f => var p f end.
Definition render (var : text -> text -> text) (l : list piece) : text :=
  concat (map (render1 var) l).
Definition pvars (l : list piece) : list (text * text) :=
  flat_map (fun x => match x with PTxt _ => [] | PVar p f => [(p, f)] end) l.

Definition pwrap (ctx prec : nat) (l : list piece) : list piece :=
  if Nat.ltb prec ctx then PTxt (T "(") :: l ++ [PTxt (T ")")] else l.
Fixpoint psep (sep : text) (l : list (list piece)) : list piece :=
  match l with
  | [] => []
  | [x] => x
  | x :: l' => x ++ PTxt sep :: psep sep l'
  end.

Fixpoint pieces (ctx : nat) (e : expr) : list piece :=
  match e with
  | ELit v => [PTxt (print_scalar v)]
  | EVar p f => [PVar p f]
  | EProp a f => pieces 6 a ++ [PTxt (dot :: f)]
  | EEq a b => pwrap ctx 3 (pieces 6 a ++ PTxt (T " == ") :: pieces 6 b)
  | ENeq a b => pwrap ctx 3 (pieces 6 a ++ PTxt (T " != ") :: pieces 6 b)
  | ECmp c a b => pwrap ctx 5 (pieces 6 a ++ PTxt (cmp_text c) :: pieces 6 b)
  | EAnd a b => pwrap ctx 2 (pieces 2 a ++ PTxt (T " && ") :: pieces 3 b)
  | EOr a b => pwrap ctx 1 (pieces 1 a ++ PTxt (T " || ") :: pieces 2 b)
  | ENot a => pwrap ctx 6 (PTxt (T "!") :: pieces 7 a)
  | EIn a xs =>
    pwrap ctx 4 (pieces 6 a ++ PTxt (T " in [") :: psep (T ", ") (map (pieces 0) xs) ++ [PTxt (T "]")])
  | ECall f args => PTxt f :: PTxt (T "(") :: psep (T ", ") (map (pieces 0) args) ++ [PTxt (T ")")]
  | EEval p f => [PTxt (T "eval("); PVar p f; PTxt (T ")")]
  end.
