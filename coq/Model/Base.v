(* Base definitions shared by every model file: text, decidable equality on
   text, small list helpers.  Executable definitions only. *)
From Coq Require Export Ascii String.
From Coq Require Export List Bool Arith.
Export ListNotations.
Open Scope list_scope.

(* text = UTF-8 bytes, as a Rust `String`/`&str`.  `list ascii` (not `string`)
   so the whole List library applies; extraction yields `char list`. *)
Definition text := list ascii.
Definition T (s : string) : text := list_ascii_of_string s.

Fixpoint teqb (a b : text) : bool :=
  match a, b with
  | [], [] => true
  | x :: a', y :: b' => Ascii.eqb x y && teqb a' b'
  | _, _ => false
  end.

Definition rule := list text.

Fixpoint list_eqb {A} (eqb : A -> A -> bool) (a b : list A) : bool :=
  match a, b with
  | [], [] => true
  | x :: a', y :: b' => eqb x y && list_eqb eqb a' b'
  | _, _ => false
  end.

Definition reqb : rule -> rule -> bool := list_eqb teqb.

Definition memb {A} (eqb : A -> A -> bool) (x : A) (l : list A) : bool :=
  existsb (eqb x) l.

Fixpoint assoc {A} (k : text) (l : list (text * A)) : option A :=
  match l with
  | [] => None
  | (k', v) :: l' => if teqb k k' then Some v else assoc k l'
  end.

(* replace the binding of k (keeping its position) or append a new one *)
Fixpoint assoc_set {A} (k : text) (v : A) (l : list (text * A)) : list (text * A) :=
  match l with
  | [] => [(k, v)]
  | (k', v') :: l' => if teqb k k' then (k', v) :: l' else (k', v') :: assoc_set k v l'
  end.

Fixpoint assoc_remove {A} (k : text) (l : list (text * A)) : list (text * A) :=
  match l with
  | [] => []
  | (k', v') :: l' => if teqb k k' then assoc_remove k l' else (k', v') :: assoc_remove k l'
  end.

(* outcome classes observable through the public API *)
Inductive errc := ERequest | EPolicy | EEvalc | EModel | ERbac | EAdapter | EIo.
Inductive outcome (A : Type) := Ok (a : A) | Err (e : errc) | Panic.
Arguments Ok {A} a.
Arguments Err {A} e.
Arguments Panic {A}.

Definition errc_eqb (a b : errc) : bool :=
  match a, b with
  | ERequest, ERequest | EPolicy, EPolicy | EEvalc, EEvalc | EModel, EModel
  | ERbac, ERbac | EAdapter, EAdapter | EIo, EIo => true
  | _, _ => false
  end.
