(* Obligations tying the TRANSLATED enforcement loops (Gen/EnforceGen.v,
   regenerated on every run by tools/rs2coq.py - part 10, tools/rs2coq_loop.py -
   from Enforcer::private_enforce / private_enforce_with_context of
   /repo/src/enforcer.rs and the lookup macros of /repo/src/macros.rs) to the
   hand-written model (Model/Enforce.v): each of the two functions equals
   `enforce_core` with the corresponding keys, for EVERY parse table, enabled
   flag, model store, matcher table, function state and request (unbounded
   policies, rules and requests), errors and panics included.

   Method (as in PcStoreGen.v).  No induction is done on a generated term.
   - The loops that only push into the scope are folds (rs_for_fold); what they
     compute is the model's `bind` (Proofs/RustLoopP.v, C).
   - The loop over the rules is an instance of the `until` shape
     (Proofs/RustLoopP.v, A: rs_for_until), of which the model's `rules_loop`
     is the reference instance (rules_loop_until).  The shape lemma asks for a
     POINTWISE simulation of one iteration of the translated body by one
     `rule_step` of the model, under an invariant of the loop-carried state -
     here: the scope only grew since the request was pushed, so that
     `scope.rewind(scope_len)` gives back exactly the request scope.  That
     pointwise fact is proved by one tactic that never looks at the shape of
     the generated term: it rewrites the RustVec / RustEnf operations into the
     model's vocabulary and splits on every scrutinee of either side.
   A rewrite of the Rust source that keeps its meaning (and stays in the
   translated subset) keeps these proofs; a change of meaning leaves an
   unprovable leaf and this file no longer compiles
   (tools/rs2coq_demo_loop.py).

   Where the translation abstracts (see the header of tools/rs2coq_loop.py):
   compile + evaluate of the matcher is the model's `eval_matcher` on the
   expression registered for the matcher key; the effect stream is the model's
   (new_stream / push / done / next - tied to src/effector.rs by
   PcEffectorGen.v). *)
From CV Require Import Model.Base Model.Effector Model.Expr Model.Enforce.
From CV Require Import Gen.RustStr Gen.RustVec Gen.RustEnf Gen.EnforceGen.
From CV Require Import Proofs.BaseP Proofs.RustVecP Proofs.RustLoopP.
From Coq Require Import Lia.

Lemma gen_enforce_translated_ok : gen_enforce_translated = true.
Proof. reflexivity. Qed.

(* ------------------------------------------------------------------ *)
(* the tactics                                                         *)

(* the RustStr / RustVec / RustEnf operations and the literals in the model's
   vocabulary; string literals become explicit character lists on both sides
   (so that "p_eft" and tok "p" "eft" are the same term) *)
Ltac norm :=
  cbv beta iota zeta;
  cbv delta [rs_eq rs_index rs_zip sc_new sc_push sc_len rs_string_new rs_format1 rs_result is_nil
             s_r s_p s_e s_m s_eft s_deny s_allow tok underscore T];
  cbn [list_ascii_of_string app length Nat.eqb negb fst snd flow_sim result_sim];
  rewrite ?rs_position_index_of, ?rs_position_index_of', ?rs_is_empty_nil, ?rs_vec_is_empty_nil, ?rs_for_nil.

(* booleans in the context become equations / disequations / inequalities *)
Ltac bool_hyps :=
  repeat match goal with
         | H : teqb _ _ = true |- _ => apply teqb_eq in H
         | H : teqb _ _ = false |- _ => apply teqb_neq in H
         | H : negb _ = true |- _ => apply negb_true_iff in H
         | H : negb _ = false |- _ => apply negb_false_iff in H
         | H : andb _ _ = true |- _ => apply andb_true_iff in H; destruct H
         | H : orb _ _ = false |- _ => apply orb_false_iff in H; destruct H
         end.
Ltac nat_hyps :=
  repeat match goal with
         | H : Nat.eqb _ _ = true |- _ => apply Nat.eqb_eq in H
         | H : Nat.eqb _ _ = false |- _ => apply Nat.eqb_neq in H
         | H : Nat.ltb _ _ = true |- _ => apply Nat.ltb_lt in H
         | H : Nat.ltb _ _ = false |- _ => apply Nat.ltb_ge in H
         | H : Nat.leb _ _ = true |- _ => apply Nat.leb_le in H
         | H : Nat.leb _ _ = false |- _ => apply Nat.leb_gt in H
         end.

(* the column of the effect exists in a rule of the right arity: `pvals[j]` does
   not panic and is the model's `nth j pvals []`.  nth_sync: in the goal, before
   `pvals[j]` is split on; nth_facts: in the hypotheses of a leaf *)
Ltac nth_sync :=
  repeat match goal with
         | H : negb ?b = false |- _ =>
             lazymatch goal with
             | _ : b = true |- _ => fail
             | _ => pose proof (proj1 (negb_false_iff b) H)
             end
         end;
  repeat match goal with
         | Hj : index_of ?t ?toks = Some ?j, Hl : Nat.eqb (length ?toks) (length ?vals) = true
           |- context [nth_error ?vals ?j] => rewrite (index_of_nth_error t toks vals j Hj Hl)
         | Hj : index_of ?t ?toks = Some ?j, Hl : Nat.eqb (length ?vals) (length ?toks) = true
           |- context [nth_error ?vals ?j] =>
             rewrite (index_of_nth_error t toks vals j Hj (eq_trans (Nat.eqb_sym _ _) Hl))
         end.
Ltac nth_facts :=
  repeat match goal with
         | Hj : index_of ?x ?toks = Some ?j, Hl : Nat.eqb (length ?toks) (length ?vals) = true,
           H : nth_error ?vals ?j = _ |- _ =>
             rewrite (index_of_nth_error x toks vals j Hj Hl) in H
         | Hj : index_of ?x ?toks = Some ?j, Hl : Nat.eqb (length ?vals) (length ?toks) = true,
           H : nth_error ?vals ?j = _ |- _ =>
             rewrite Nat.eqb_sym in Hl
         end.

(* the capacity of the effect stream, however it is written (max(1, n),
   if n == 0 { 1 } else { n }, ..): two capacities met for the same effect text
   are made the same term when arithmetic says that they are equal *)
Ltac solve_cap :=
  cbn [length];
  repeat match goal with |- context [if ?b then _ else _] => let E := fresh "E" in destruct b eqn:E end;
  bool_hyps; nat_hyps; lia.
Ltac cap_norm :=
  repeat match goal with
         | H : new_stream ?e ?c' = _ |- context [new_stream ?e ?c] =>
             lazymatch c with
             | c' => fail
             | _ => replace c with c' by solve_cap
             end
         | |- context [new_stream ?e ?c] =>
             match goal with
             | |- context [new_stream e ?c'] =>
                 lazymatch c with
                 | c' => fail
                 | _ => replace c with c' by solve_cap
                 end
             end
         end.

(* split on every scrutinee of either side, innermost first; a scrutinee
   already decided by a hypothesis is rewritten instead (the two sides stay in
   step); a loop is never split on (it has to be rewritten first) *)
Ltac split_all :=
  repeat (norm; nth_sync; cap_norm;
          match goal with
          | |- context [match ?x with _ => _ end] => is_var x; destruct x
          | |- context [match ?x with _ => _ end] =>
              match goal with H : x = _ |- _ => rewrite H end
          | |- context [match ?x with _ => _ end] =>
              lazymatch x with
              | context [match _ with _ => _ end] => fail
              | context [rs_for] => fail
              | _ => let E := fresh "E" in destruct x eqn:E
              end
          end).

(* a leaf: syntactic equality, or contradictory hypotheses *)
Ltac leaf :=
  first [ reflexivity | assumption | discriminate | congruence
        | bool_hyps; nth_facts; first [ discriminate | congruence | exfalso; congruence
                                       | subst; first [reflexivity | congruence]
                                       | nat_hyps; cbn [length] in *; first [lia | exfalso; lia] ] ].

(* the loops that only push into the scope: folds, whose result is the model's `bind` *)
Ltac scope_loop :=
  match goal with
  | |- context [rs_for ?b ?l ?s] =>
      let H := fresh "Hbody" in
      first
        [ assert (H : forall x s0, b x s0 = LNext ((fun (s1 : scope) (p : text * value) => (fst p, snd p) :: s1) s0 x))
            by (intros [? ?] ?; reflexivity);
          rewrite (rs_for_fold b _ H), ?fold_push_bind; clear H
        | assert (H : forall x s0, b x s0 = LNext ((fun (s1 : scope) (p : text * text) => (fst p, VStr (snd p)) :: s1) s0 x))
            by (intros [? ?] ?; reflexivity);
          rewrite (rs_for_fold b _ H), ?fold_push_str_bind; clear H
        | assert (H : forall x s0, b x s0 = LNext ((fun (s1 : scope) (t : text) => (t, VStr []) :: s1) s0 x))
            by (intros ? ?; reflexivity);
          rewrite (rs_for_fold b _ H), ?(fold_push_const_bind (VStr [])); clear H ]
  end.

(* one iteration of the translated rule loop against one rule_step of the model *)
Ltac sim_leaf :=
  norm; repeat split; first [ solve [auto using sc_extends_refl, sc_extends_bind, sc_extends_cons] | leaf ].
Ltac pointwise :=
  let x := fresh "x" in let s0 := fresh "s0" in let Hinv := fresh "Hinv" in
  intros x s0 Hinv; try destruct s0 as [? ?]; cbn [fst snd] in Hinv |- *;
  unfold rule_step, rule_effect; norm;
  rewrite ?(sc_rewind_extends _ _ Hinv);
  repeat (progress (split_all; repeat scope_loop));
  sim_leaf.

(* the loop over the rules: the `until` shape.  The carried state is the pair
   (stream, scope) in either order, or the stream alone; the invariant: the
   scope only grew since the request scope sc0 *)
Ltac rule_loop :=
  match goal with
  | |- context [rules_loop ?pt ?fs ?m ?eft ?ptoks ?sc0 ?st ?l] =>
      rewrite (rules_loop_until pt fs m eft ptoks sc0 l st);
      match goal with
      | |- context [rs_for ?b l ?s] =>
          let H := fresh "Hloop" in
          let step := constr:(rule_step pt fs m eft ptoks sc0) in
          first
            [ assert (H : result_sim (fun s1 => sc_extends sc0 (snd s1)) fst (rs_for b l s) (until_loop step done l st))
                by (apply (rs_for_until b step done (fun s1 => sc_extends sc0 (snd s1)) fst);
                    [ pointwise | cbn [fst snd]; auto using sc_extends_refl ])
            | assert (H : result_sim (fun s1 => sc_extends sc0 (fst s1)) snd (rs_for b l s) (until_loop step done l st))
                by (apply (rs_for_until b step done (fun s1 => sc_extends sc0 (fst s1)) snd);
                    [ pointwise | cbn [fst snd]; auto using sc_extends_refl ])
            | assert (H : result_sim (fun _ => True) (fun s1 => s1) (rs_for b l s) (until_loop step done l st))
                by (apply (rs_for_until b step done (fun _ => True) (fun s1 => s1));
                    [ pointwise | exact I ]) ];
          revert H; destruct (rs_for b l s) as [?ls|?lr|]; cbn [result_sim]; intros H;
          [ destruct H as [_ H] | | ]; rewrite H; clear H
      end
  end.

Ltac enforce_eq :=
  norm;
  repeat (progress (split_all; repeat scope_loop; try rule_loop));
  norm; leaf.

(* ------------------------------------------------------------------ *)
(* the obligations                                                     *)

Section EnforceGen.
  Variable ptab : text -> option expr.

  (* Enforcer::private_enforce *)
  Theorem gen_private_enforce_ok : forall en md mx fs rv,
    gen_private_enforce ptab en md mx fs rv
    = enforce_core ptab en md mx fs s_r s_p s_e s_m (tok s_p s_eft) rv.
  Proof. intros en md mx fs rv. unfold gen_private_enforce, enforce_core. enforce_eq. Qed.

  (* Enforcer::private_enforce_with_context, for any four keys *)
  Theorem gen_private_enforce_with_context_ok : forall en md mx fs rk pk ek mk rv,
    gen_private_enforce_with_context ptab en md mx fs rk pk ek mk rv
    = enforce_core ptab en md mx fs rk pk ek mk (tok pk s_eft) rv.
  Proof. intros en md mx fs rk pk ek mk rv. unfold gen_private_enforce_with_context, enforce_core. enforce_eq. Qed.

  (* in the model's own packaging *)
  Corollary gen_private_enforce_plain : forall en md mx fs rv,
    gen_private_enforce ptab en md mx fs rv = enforce_plain ptab en md mx fs rv.
  Proof. intros en md mx fs rv. apply gen_private_enforce_ok. Qed.

  (* EnforceContext::new(suffix): r_type = "r" + suffix, .. *)
  Corollary gen_private_enforce_ctx : forall en md mx fs suffix rv,
    gen_private_enforce_with_context ptab en md mx fs
      (s_r ++ suffix) (s_p ++ suffix) (s_e ++ suffix) (s_m ++ suffix) rv
    = enforce_ctx ptab en md mx fs suffix rv.
  Proof. intros en md mx fs suffix rv. apply gen_private_enforce_with_context_ok. Qed.

  (* the plain function is the context function at the plain keys *)
  Corollary gen_private_enforce_is_ctx : forall en md mx fs rv,
    gen_private_enforce ptab en md mx fs rv
    = gen_private_enforce_with_context ptab en md mx fs s_r s_p s_e s_m rv.
  Proof.
    intros en md mx fs rv. rewrite gen_private_enforce_ok, gen_private_enforce_with_context_ok. reflexivity.
  Qed.
End EnforceGen.

Print Assumptions gen_private_enforce_ok.
Print Assumptions gen_private_enforce_with_context_ok.
Print Assumptions gen_private_enforce_plain.
Print Assumptions gen_private_enforce_ctx.
Print Assumptions gen_private_enforce_is_ctx.

(* ------------------------------------------------------------------ *)
(* the translated functions compute: concrete, non-trivial instances   *)

Definition xg_no_ptab : text -> option expr := fun _ => None.
Definition xg_ast (v : text) (toks : list text) (pol : list rule) : assertion :=
  {| a_value := v; a_tokens := toks; a_policy := pol; a_handle := HOwn |}.
Definition xg_fs : fstate := {| f_rm := []; f_rm_max := 10; f_gfuns := []; f_ufuns := [] |}.
Definition xg_eq (k1 k2 f : text) : expr := EEq (EVar k1 f) (EVar k2 f).
(* ACL with an effect column, allow-and-deny; a second family "r2/p2/e2/m2" (deny-override, ignores the action) *)
Definition xg_policy : list rule :=
  [[T "alice"; T "data1"; T "read"; T "allow"];
   [T "bob"; T "data2"; T "write"; T "allow"];
   [T "bob"; T "data2"; T "write"; T "deny"];
   [T "carol"; T "data3"; T "read"; T "maybe"]].
Definition xg_model (pol : list rule) : model :=
  [(s_r, [(s_r, xg_ast (T "sub, obj, act") [T "r_sub"; T "r_obj"; T "r_act"] []);
          (T "r2", xg_ast (T "sub, obj, act") [T "r2_sub"; T "r2_obj"; T "r2_act"] [])]);
   (s_p, [(s_p, xg_ast (T "sub, obj, act, eft") [T "p_sub"; T "p_obj"; T "p_act"; T "p_eft"] pol);
          (T "p2", xg_ast (T "sub, obj, act, eft") [T "p2_sub"; T "p2_obj"; T "p2_act"; T "p2_eft"] pol)]);
   (s_e, [(s_e, xg_ast s_allow_and_deny [] []); (T "e2", xg_ast s_deny_override [] [])]);
   (s_m, [(s_m, xg_ast (T "r_sub == p_sub && r_obj == p_obj && r_act == p_act") [] []);
          (T "m2", xg_ast (T "r2_sub == p2_sub && r2_obj == p2_obj") [] [])])].
Definition xg_mexprs : list (text * expr) :=
  [(s_m, EAnd (EAnd (xg_eq s_r s_p (T "sub")) (xg_eq s_r s_p (T "obj"))) (xg_eq s_r s_p (T "act")));
   (T "m2", EAnd (xg_eq (T "r2") (T "p2") (T "sub")) (xg_eq (T "r2") (T "p2") (T "obj")))].
Definition xg_req (a b c : text) : list value := [VStr a; VStr b; VStr c].
Definition xg_run (pol : list rule) (rv : list value) : outcome bool :=
  gen_private_enforce xg_no_ptab true (xg_model pol) xg_mexprs xg_fs rv.
Definition xg_run2 (pol : list rule) (rv : list value) : outcome bool :=
  gen_private_enforce_with_context xg_no_ptab true (xg_model pol) xg_mexprs xg_fs (T "r2") (T "p2") (T "e2") (T "m2") rv.

(* allowed by the first rule; allowed then denied (the loop goes on after the allow and breaks at the deny);
   an effect that is neither allow nor deny; no rule; a disabled enforcer; the error classes; the empty policy *)
Example xg_allow : xg_run xg_policy (xg_req (T "alice") (T "data1") (T "read")) = Ok true.
Proof. vm_compute. reflexivity. Qed.
Example xg_allow_then_deny : xg_run xg_policy (xg_req (T "bob") (T "data2") (T "write")) = Ok false.
Proof. vm_compute. reflexivity. Qed.
Example xg_other_effect : xg_run xg_policy (xg_req (T "carol") (T "data3") (T "read")) = Ok false.
Proof. vm_compute. reflexivity. Qed.
Example xg_no_rule : xg_run xg_policy (xg_req (T "zed") (T "data1") (T "read")) = Ok false.
Proof. vm_compute. reflexivity. Qed.
Example xg_request_arity : xg_run xg_policy [VStr (T "alice")] = Err ERequest.
Proof. vm_compute. reflexivity. Qed.
Example xg_policy_arity : xg_run [[T "alice"; T "data1"]] (xg_req (T "alice") (T "data1") (T "read")) = Err EPolicy.
Proof. vm_compute. reflexivity. Qed.
Example xg_empty_policy : xg_run [] (xg_req (T "alice") (T "data1") (T "read")) = Ok false.
Proof. vm_compute. reflexivity. Qed.
Example xg_missing_section :
  gen_private_enforce xg_no_ptab true [] xg_mexprs xg_fs (xg_req (T "alice") (T "data1") (T "read")) = Err EModel.
Proof. vm_compute. reflexivity. Qed.
Example xg_no_matcher :
  gen_private_enforce xg_no_ptab true (xg_model xg_policy) [] xg_fs (xg_req (T "alice") (T "data1") (T "read")) = Err EEvalc.
Proof. vm_compute. reflexivity. Qed.
Example xg_disabled :
  gen_private_enforce xg_no_ptab false [] [] xg_fs [] = Ok true.
Proof. vm_compute. reflexivity. Qed.
(* the second family: its effect column is p2_eft (found: the deny rule denies), and a deny-override stream is true
   on an empty policy *)
Example xg_ctx_deny : xg_run2 xg_policy (xg_req (T "bob") (T "data2") (T "read")) = Ok false.
Proof. vm_compute. reflexivity. Qed.
Example xg_ctx_allow : xg_run2 xg_policy (xg_req (T "alice") (T "data1") (T "write")) = Ok true.
Proof. vm_compute. reflexivity. Qed.
Example xg_ctx_empty : xg_run2 [] (xg_req (T "alice") (T "data1") (T "write")) = Ok true.
Proof. vm_compute. reflexivity. Qed.
(* an unsupported effect text: new_stream panics (before the matcher is looked up) *)
Example xg_bad_effect :
  gen_private_enforce xg_no_ptab true
    [(s_r, [(s_r, xg_ast [] [] [])]); (s_p, [(s_p, xg_ast [] [] [])]); (s_e, [(s_e, xg_ast (T "nonsense") [] [])]);
     (s_m, [(s_m, xg_ast [] [] [])])] [] xg_fs [] = Panic.
Proof. vm_compute. reflexivity. Qed.
