(* Obligations tying the TRANSLATED role manager (Gen/RoleManagerGen.v, regenerated on
   every run by tools/rs2coq.py / tools/rs2coq_rm.py from
   /repo/src/rbac/default_role_manager.rs: DefaultRoleManager, link_if_matches, mod
   matching_bfs) to the hand-written model Model/RoleGraphM.v.  All 16 functions of the
   covered set are translated and proved:

     link_if_matches       = link_if_matches + its flag; None exactly on an invalid index
     new / clear / matching_fn                = empty_mrm / m_clear / m_set_fns
     get_or_create_role    = m_create_node on the domain's graph (created when absent)
     add_link, delete_link = m_add_link, m_delete_link (state and Ok / Err flag)
     matched_domains       a PERMUTATION of matched_domains (HashMap::keys order)
     domain_has_role       = domain_has_role
     bfs_iterator          = m_succs (the three-part chain, order included)
     Bfs::new / update_depth / next           one unfolding of m_bfs_visit; iterating
                           `next` yields m_bfs_visit / m_bfs_from (bfs_yields_ok)
     has_link              = m_has_link, for every fuel above the node counts
     get_roles, get_users  the same SET as m_get_roles / m_get_users (HashSet results)
     gen_history_ok / gen_answers_ok          whole histories from `new`: no panic, the
                           model's state, flags and answers

   State.  The Rust struct keeps TWO maps (all_domains, all_domains_indices); the model
   only the first.  `rm_abs` forgets the index maps; `rm_inv` says that the two maps have
   the same keys, that each index map is exact (`idx_ok`: name -> the node of that name)
   and that each graph is a well-formed petgraph graph (`pg_wf`: distinct node weights -
   which is what makes "NodeIndex = name" faithful - and edges between nodes).  Every
   mutator is proved to PRESERVE rm_inv, so the hypothesis `rm_inv s` of the query
   theorems holds of every reachable state (gen_history_ok).  Under rm_inv no translated
   function panics (the result is `Some _`); without it a panic is really modelled
   (ex_invalid_index_panics).

   Hash containers.  Every theorem is for ALL iteration orders `ord` with
   `ord_ok ord : forall l, Permutation (ord l) l`.  `while let`: for ALL `fuel` with
   `fuel_ok fuel s` (more than the number of nodes of any graph); gen_answers_ok hides
   the bound behind an existential.

   Method.  As in part 3, no induction is done on a generated term: loops are handled by
   the relational shape `rs_for_rel` (a loop simulates a fold of the model), the
   `while let` of has_link by `while_bfs_scan` (which also proves that fuel > |nodes|
   suffices), closures by pointwise descriptions discharged by small tactics.  A rewrite
   of the Rust source that keeps its meaning and stays in the translated subset keeps
   these proofs (tools/rs2coq_demo_rm.py, P1-P7); a change of meaning breaks one (N1-N12). *)
From CV Require Import Model.Base Model.RoleGraph Model.RoleGraphM.
From CV Require Import Gen.RustStr Gen.RustVec Gen.RustIter Gen.Petgraph Gen.RoleManagerGen.
From CV Require Import Proofs.ListAux Proofs.BaseP Proofs.RoleGraphP Proofs.GenBfsP Proofs.RoleGraphMA Proofs.RoleGraphMP
                       Proofs.RustVecP Proofs.PetgraphP.
From Coq Require Import Lia Permutation.

Lemma gen_rm_translated_ok : gen_rm_translated = true.
Proof. reflexivity. Qed.

Lemma gen_default_domain_ok : gen_DEFAULT_DOMAIN = DEFAULT_DOMAIN.
Proof. reflexivity. Qed.

(* ------------------------------------------------------------------ *)
(* tactics                                                             *)

(* the petgraph / std operations in the model's vocabulary *)
Ltac norm :=
  cbv beta iota zeta;
  cbv delta [rs_eq rs_fn pg_node_weight pg_add_edge pg_node_indices pg_node_weights er_weight er_source er_target
             rs_iter_filter rs_iter_map rs_iter_flat_map rs_iter_chain rs_iter_find rs_iter_any
             dq_new dq_push_front dq_push_back gen_DEFAULT_DOMAIN];
  cbv beta iota zeta;
  cbn [negb andb orb fst snd app];
  repeat match goal with |- context [pg_valid ?g ?i] => change (pg_valid g i) with (m_has_node g i) end;
  rewrite ?ek_is_eqb, ?hm_get_assoc, ?hm_insert_assoc_set, ?hm_contains_key_assoc,
          ?hm_entry_or_assoc, ?pg_edges_out, ?pg_edges_in.

(* split on find_edge, bringing in what the model's m_find_edge says *)
Ltac find_edge_split :=
  match goal with
  | |- context [pg_find_edge ?g ?a ?b] =>
      let E := fresh "E" in
      destruct (pg_find_edge g a b) as [?ix|] eqn:E;
      [ let k := fresh "k" in let Ew := fresh "Ew" in let Em := fresh "Em" in
        destruct (pg_find_edge_Some_weight _ _ _ _ E) as (k & Ew & Em); rewrite ?Ew, ?Em
      | let Em := fresh "Em" in pose proof (pg_find_edge_None _ _ _ E) as Em; rewrite ?Em ]
  end.

Ltac split_all :=
  repeat (norm;
          match goal with
          | |- context [pg_find_edge _ _ _] => find_edge_split
          | |- context [match ?x with _ => _ end] => is_var x; destruct x
          | |- context [match negb ?y with _ => _ end] =>
              lazymatch y with
              | context [match _ with _ => _ end] => fail
              | _ => let E := fresh "E" in destruct y eqn:E
              end
          | |- context [match ?x with _ => _ end] =>
              lazymatch x with
              | context [match _ with _ => _ end] => fail
              | context [rs_for] => fail
              | context [rs_while_some] => fail
              | _ => let E := fresh "E" in destruct x eqn:E
              end
          end).

Ltac use_bools :=
  repeat match goal with
         | H : ?x = true |- context [?x] => rewrite H
         | H : ?x = false |- context [?x] => rewrite H
         end.

(* contradictory boolean hypotheses *)
Ltac contra :=
  exfalso;
  repeat match goal with
         | H : _ && _ = true |- _ => apply andb_true_iff in H; destruct H
         | H : _ || _ = false |- _ => apply orb_false_iff in H; destruct H
         | H : negb _ = true |- _ => apply negb_true_iff in H
         | H : negb _ = false |- _ => apply negb_false_iff in H
         end;
  congruence.

Ltac leaf :=
  first [ discriminate | reflexivity | congruence
        | exfalso; congruence
        | contra
        | use_bools; cbn [negb andb orb]; unfold m_add_edge; first [reflexivity | congruence] ].

Ltac finish := split_all; norm; leaf.

(* ------------------------------------------------------------------ *)
(* link_if_matches                                                     *)
(* did link_if_matches add the Match edge (its returned flag) *)
Definition lim_added (f : mfun) (g : mgraph) (np mp : text) : bool :=
  f mp np && match m_find_edge g np mp with Some KMatch => false | _ => true end.

Theorem gen_link_if_matches_ok : forall g f np mp,
  gen_link_if_matches g f np mp =
  if m_has_node g np && m_has_node g mp
  then Some (link_if_matches f g np mp, lim_added f g np mp)
  else None.
Proof.
  intros g f np mp. unfold gen_link_if_matches, link_if_matches, lim_added.
  finish.
Qed.

(* ------------------------------------------------------------------ *)
(* the state: abstraction and invariant                                *)
Definition rm_abs (s : rm_state) : mrm :=
  {| r_doms := rm_all_domains s; r_rfn := rm_role_matching_fn s; r_dfn := rm_domain_matching_fn s |}.

(* the index map of a domain: every node of its graph, under its name, and nothing else
   (a NodeIndex is represented by the name of its node, Gen/Petgraph.v) *)
Definition idx_ok (ix : hashmap node_index) (g : mgraph) : Prop :=
  forall n, assoc n ix = if m_has_node g n then Some n else None.

(* all_domains and all_domains_indices have the same keys; each graph is a
   well-formed petgraph graph and its index map is exact *)
Definition rm_inv (s : rm_state) : Prop :=
  forall dk, match assoc dk (rm_all_domains s), assoc dk (rm_all_domains_indices s) with
             | Some g, Some ix => pg_wf g /\ idx_ok ix g
             | None, None => True
             | _, _ => False
             end.

Definition rm_same_cfg (s s' : rm_state) : Prop :=
  rm_max_hierarchy_level s' = rm_max_hierarchy_level s /\
  rm_role_matching_fn s' = rm_role_matching_fn s /\
  rm_domain_matching_fn s' = rm_domain_matching_fn s.

Lemma idx_ok_empty : idx_ok hm_new pg_new.
Proof. intros n. reflexivity. Qed.

Lemma rm_inv_dom : forall s dk, rm_inv s ->
  pg_wf (mgraph_of (rm_abs s) dk) /\
  idx_ok (match assoc dk (rm_all_domains_indices s) with Some ix => ix | None => hm_new end) (mgraph_of (rm_abs s) dk).
Proof.
  intros s dk H. specialize (H dk). unfold mgraph_of, rm_abs. cbn [r_doms].
  destruct (assoc dk (rm_all_domains s)), (assoc dk (rm_all_domains_indices s)); try contradiction.
  - exact H.
  - split; [apply pg_wf_new|apply idx_ok_empty].
Qed.

(* replacing the graph and the index map of one domain together *)
Lemma rm_inv_set : forall s s' dk g ix, rm_inv s -> pg_wf g -> idx_ok ix g ->
  rm_all_domains s' = assoc_set dk g (rm_all_domains s) ->
  rm_all_domains_indices s' = assoc_set dk ix (rm_all_domains_indices s) ->
  rm_inv s'.
Proof.
  intros s s' dk g ix H W I E1 E2 dk'. rewrite E1, E2.
  destruct (teqb dk' dk) eqn:E.
  - apply teqb_eq in E. subst dk'. rewrite !assoc_set_same. split; assumption.
  - apply teqb_neq in E. rewrite !assoc_set_other by (intros X; apply E; symmetry; exact X). apply H.
Qed.

Lemma idx_ok_insert : forall ix g n, idx_ok ix g ->
  idx_ok (assoc_set n n ix) {| m_nodes := m_nodes g ++ [n]; m_edges := m_edges g |}.
Proof.
  intros ix g n H x. unfold m_has_node. cbn [m_nodes]. unfold memb. rewrite existsb_app. cbn [existsb]. rewrite orb_false_r.
  destruct (teqb x n) eqn:E.
  - apply teqb_eq in E. subst x. rewrite assoc_set_same, orb_true_r. reflexivity.
  - rewrite orb_false_r. apply teqb_neq in E. rewrite assoc_set_other by (intros X; apply E; symmetry; exact X). apply H.
Qed.

Lemma idx_ok_nodes : forall ix g g', idx_ok ix g -> m_nodes g' = m_nodes g -> idx_ok ix g'.
Proof. intros ix g g' H E n. unfold m_has_node. rewrite E. apply H. Qed.

Lemma hm_entry_or_uniform : forall {V} (m : hashmap V) k d,
  hm_entry_or m k d =
  (assoc_set k (match assoc k m with Some v => v | None => d end) m,
   match assoc k m with Some v => v | None => d end).
Proof.
  intros V m k d. rewrite hm_entry_or_assoc. destruct (assoc k m) eqn:E; [|reflexivity].
  rewrite (assoc_set_same_value _ _ _ E). reflexivity.
Qed.

(* record updates: setters unfolded, projections of a built record computed *)
Ltac rec_simpl :=
  cbv delta [set_rm_all_domains set_rm_all_domains_indices set_rm_max_hierarchy_level set_rm_role_matching_fn
             set_rm_domain_matching_fn set_bfs_queue set_bfs_discovered set_bfs_max_depth set_bfs_with_pattern_matching
             set_bfs_depth set_bfs_depth_elements_remaining] in *;
  cbv beta in *;
  cbn [rm_all_domains rm_all_domains_indices rm_max_hierarchy_level rm_role_matching_fn rm_domain_matching_fn
       bfs_queue bfs_discovered bfs_max_depth bfs_with_pattern_matching bfs_depth bfs_depth_elements_remaining] in *.
(* ------------------------------------------------------------------ *)
(* get_or_create_role                                                  *)
Lemma gen_get_or_create_role_detail : forall s n d, rm_inv s ->
  exists s' ix, gen_get_or_create_role s n d = Some (s', n) /\
    rm_all_domains s' = assoc_set (dom_key d) (m_create_node (rm_role_matching_fn s) (mgraph_of (rm_abs s) (dom_key d)) n) (rm_all_domains s) /\
    rm_all_domains_indices s' = assoc_set (dom_key d) ix (rm_all_domains_indices s) /\
    idx_ok ix (m_create_node (rm_role_matching_fn s) (mgraph_of (rm_abs s) (dom_key d)) n) /\
    rm_same_cfg s s'.
Proof.
  intros s n d Hinv. unfold gen_get_or_create_role.
  change (rs_unwrap_or d gen_DEFAULT_DOMAIN) with (dom_key d).
  set (dk := dom_key d).
  destruct (rm_inv_dom s dk Hinv) as [W0 I0].
  unfold mgraph_of, rm_same_cfg in *. destruct s as [doms idxs lvl rfn dfn]. cbn [rm_abs r_doms] in *. rec_simpl.
  set (g0 := match assoc dk doms with Some g => g | None => empty_mgraph end) in *.
  set (ix0 := match assoc dk idxs with Some ix => ix | None => hm_new end) in *.
  rewrite hm_entry_or_uniform. fold g0. cbv zeta iota beta. rec_simpl.
  rewrite hm_entry_or_uniform. change pg_new with empty_mgraph. fold g0. fold ix0. cbv iota beta. rec_simpl.
  rewrite hm_get_assoc, I0.
  unfold m_create_node. destruct (m_has_node g0 n) eqn:Hn.
  - cbn [rs_fn]. eexists _, ix0. split; [reflexivity|]. rec_simpl. repeat split; try reflexivity. exact I0.
  - unfold pg_add_node. cbv iota beta zeta.
    set (g1 := {| m_nodes := m_nodes g0 ++ [n]; m_edges := m_edges g0 |}).
    rewrite !hm_insert_assoc_set, !assoc_set_set.
    assert (I1 : idx_ok (assoc_set n n ix0) g1) by (apply idx_ok_insert, I0).
    destruct rfn as [f|].
    + rewrite (rs_iter_filter_opt_total _ (fun x => negb (teqb x n)))
        by (intros x Hx; rewrite (pg_node_weight_In _ _ Hx); cbv delta [rs_eq]; cbv beta;
            first [reflexivity | rewrite (teqb_sym n x); reflexivity]).
      set (Rel := fun (st : rm_state * bool * mgraph) (m : mgraph) =>
                    let '(self, _, g) := st in
                    g = m /\ m_nodes m = m_nodes g1 /\
                    rm_all_domains self = assoc_set dk m doms /\
                    rm_all_domains_indices self = assoc_set dk (assoc_set n n ix0) idxs /\
                    rm_max_hierarchy_level self = lvl /\ rm_role_matching_fn self = Some f /\
                    rm_domain_matching_fn self = dfn).
      match goal with
      | |- context [rs_for ?b ?l ?s0] =>
          destruct (rs_for_rel b Rel (fun acc ex => link_if_matches f (link_if_matches f acc n ex) ex n) l s0 g1)
            as ([[self added] g] & Hfor & Hrel)
      end.
      * cbn. repeat split; reflexivity.
      * intros x [[self added] g] m Hx (-> & Hnodes & Hd & Hi & H1 & H2 & H3).
        apply filter_In in Hx. destruct Hx as [Hx _]. change (pg_node_indices g1) with (m_nodes g1) in Hx.
        assert (Vn : m_has_node m n = true).
        { apply m_has_node_In. rewrite Hnodes. apply in_or_app. right. left. reflexivity. }
        assert (Vx : m_has_node m x = true) by (apply m_has_node_In; rewrite Hnodes; exact Hx).
        cbv beta iota. rewrite gen_link_if_matches_ok, Vn, Vx. cbn [andb].
        rewrite gen_link_if_matches_ok. unfold m_has_node in *. rewrite !lim_nodes, Vn, Vx. cbn [andb].
        eexists. split; [reflexivity|]. cbn. rec_simpl. rewrite !lim_nodes, !hm_insert_assoc_set, Hd, !assoc_set_set.
        repeat split; assumption.
      * rewrite Hfor. cbn [rs_fn]. destruct Hrel as (-> & Hnodes & Hd & Hi & H1 & H2 & H3).
        eexists self, _. split; [reflexivity|].
        assert (Hl : filter (fun x => negb (teqb x n)) (pg_node_indices g1) = filter (fun x => negb (teqb x n)) (m_nodes g0)).
        { change (pg_node_indices g1) with (m_nodes g0 ++ [n]). rewrite filter_app. cbn [filter].
          rewrite teqb_refl. cbn [negb]. apply app_nil_r. }
        rewrite Hl in Hd, Hnodes.
        split; [exact Hd|]. split; [exact Hi|]. split; [|repeat split; assumption].
        eapply idx_ok_nodes; [exact I1|exact Hnodes].
    + cbn [rs_fn]. eexists _, _. split; [reflexivity|]. rec_simpl. repeat split; try reflexivity. exact I1.
Qed.

Lemma rm_abs_set : forall s s' dk g, rm_all_domains s' = assoc_set dk g (rm_all_domains s) -> rm_same_cfg s s' ->
  rm_abs s' = set_dom (rm_abs s) dk g.
Proof.
  intros s s' dk g E (_ & E2 & E3). unfold rm_abs, set_dom. cbn [r_doms r_rfn r_dfn]. rewrite E, E2, E3. reflexivity.
Qed.

(* get_or_create_role = m_create_node on the graph of the domain (created when absent);
   the returned NodeIndex is the one of the node called `n` *)
Theorem gen_get_or_create_role_ok : forall s n d, rm_inv s ->
  exists s', gen_get_or_create_role s n d = Some (s', n) /\
    rm_abs s' = set_dom (rm_abs s) (dom_key d)
                  (m_create_node (r_rfn (rm_abs s)) (mgraph_of (rm_abs s) (dom_key d)) n) /\
    rm_inv s' /\ rm_max_hierarchy_level s' = rm_max_hierarchy_level s.
Proof.
  intros s n d Hinv. destruct (gen_get_or_create_role_detail s n d Hinv) as (s' & ix & E & Hd & Hi & Hok & Hc).
  exists s'. split; [exact E|]. split; [apply rm_abs_set; assumption|]. split; [|apply Hc].
  eapply (rm_inv_set s s'); [exact Hinv| |exact Hok|exact Hd|exact Hi]. apply pg_wf_create. apply (rm_inv_dom s _ Hinv).
Qed.

(* ------------------------------------------------------------------ *)
(* add_link                                                            *)
(* two calls of get_or_create_role in a row, as in add_link / delete_link *)
Lemma create_two : forall s a b d, rm_inv s ->
  exists s1 s2 ix,
    gen_get_or_create_role s a d = Some (s1, a) /\
    gen_get_or_create_role s1 b d = Some (s2, b) /\
    let g2 := m_create_node (rm_role_matching_fn s) (m_create_node (rm_role_matching_fn s) (mgraph_of (rm_abs s) (dom_key d)) a) b in
    rm_all_domains s2 = assoc_set (dom_key d) g2 (rm_all_domains s) /\
    rm_all_domains_indices s2 = assoc_set (dom_key d) ix (rm_all_domains_indices s) /\
    idx_ok ix g2 /\ pg_wf g2 /\ rm_same_cfg s s2.
Proof.
  intros s a b d Hinv.
  destruct (gen_get_or_create_role_detail s a d Hinv) as (s1 & ix1 & E1 & Hd1 & Hi1 & Hok1 & Hc1).
  assert (W1 : pg_wf (m_create_node (rm_role_matching_fn s) (mgraph_of (rm_abs s) (dom_key d)) a)).
  { apply pg_wf_create. apply (rm_inv_dom s _ Hinv). }
  assert (Hinv1 : rm_inv s1) by (eapply (rm_inv_set s s1); eassumption).
  destruct (gen_get_or_create_role_detail s1 b d Hinv1) as (s2 & ix2 & E2 & Hd2 & Hi2 & Hok2 & Hc2).
  assert (Hg : mgraph_of (rm_abs s1) (dom_key d) = m_create_node (rm_role_matching_fn s) (mgraph_of (rm_abs s) (dom_key d)) a).
  { unfold mgraph_of at 1. unfold rm_abs at 1. cbn [r_doms]. rewrite Hd1, assoc_set_same. reflexivity. }
  destruct Hc1 as (C1 & C2 & C3). destruct Hc2 as (D1 & D2 & D3).
  rewrite Hg, C2 in Hd2, Hok2. rewrite Hd1, assoc_set_set in Hd2. rewrite Hi1, assoc_set_set in Hi2.
  exists s1, s2, ix2. cbv zeta.
  split; [exact E1|]. split; [exact E2|]. split; [exact Hd2|]. split; [exact Hi2|]. split; [exact Hok2|].
  split; [apply pg_wf_create, W1|]. unfold rm_same_cfg. repeat split; congruence.
Qed.

Lemma create_has_node : forall rf g n, m_has_node (m_create_node rf g n) n = true.
Proof. intros rf g n. apply m_has_node_In. apply create_nodes_In. left. reflexivity. Qed.
Lemma create_keeps_node : forall rf g n x, m_has_node g x = true -> m_has_node (m_create_node rf g n) x = true.
Proof. intros rf g n x H. apply m_has_node_In. apply create_nodes_In. right. apply m_has_node_In, H. Qed.

(* the end of add_link / delete_link: the graph g of the domain is replaced by g' (same nodes) *)
Lemma finish_set : forall s s2 dk g ix g' doms',
  rm_inv s ->
  rm_all_domains s2 = assoc_set dk g (rm_all_domains s) ->
  rm_all_domains_indices s2 = assoc_set dk ix (rm_all_domains_indices s) ->
  idx_ok ix g -> pg_wf g' -> m_nodes g' = m_nodes g -> rm_same_cfg s s2 ->
  doms' = assoc_set dk g' (rm_all_domains s) ->
  rm_abs (set_rm_all_domains s2 doms') = set_dom (rm_abs s) dk g' /\
  rm_inv (set_rm_all_domains s2 doms') /\
  rm_max_hierarchy_level (set_rm_all_domains s2 doms') = rm_max_hierarchy_level s.
Proof.
  intros s s2 dk g ix g' doms' Hinv Hd Hi Hok W Hn (C1 & C2 & C3) ->.
  split; [|split].
  - apply rm_abs_set; [reflexivity|]. split; [|split]; assumption.
  - eapply (rm_inv_set s _ dk g' ix Hinv W); [|reflexivity|exact Hi]. eapply idx_ok_nodes; eassumption.
  - exact C1.
Qed.

Lemma finish_same : forall s s2 dk g ix,
  rm_inv s ->
  rm_all_domains s2 = assoc_set dk g (rm_all_domains s) ->
  rm_all_domains_indices s2 = assoc_set dk ix (rm_all_domains_indices s) ->
  idx_ok ix g -> pg_wf g -> rm_same_cfg s s2 ->
  rm_abs s2 = set_dom (rm_abs s) dk g /\ rm_inv s2 /\ rm_max_hierarchy_level s2 = rm_max_hierarchy_level s.
Proof.
  intros s s2 dk g ix Hinv Hd Hi Hok W Hc. split; [|split].
  - apply rm_abs_set; assumption.
  - eapply (rm_inv_set s s2); eassumption.
  - apply Hc.
Qed.

Theorem gen_add_link_ok : forall s a b d, rm_inv s ->
  exists s', gen_add_link s a b d = Some s' /\
    rm_abs s' = m_add_link (rm_abs s) a b d /\
    rm_inv s' /\ rm_max_hierarchy_level s' = rm_max_hierarchy_level s.
Proof.
  intros s a b d Hinv. unfold gen_add_link, m_add_link. norm.
  destruct (teqb a b) eqn:Eab.
  - exists s. repeat split; try reflexivity. exact Hinv.
  - destruct (create_two s a b d Hinv) as (s1 & s2 & ix & E1 & E2 & Hd & Hi & Hok & W2 & Hc).
    cbv zeta in Hd, Hok, W2. rewrite E1. cbv beta iota zeta. rewrite E2. cbv beta iota zeta.
    change (rs_unwrap_or d (T "DEFAULT")) with (dom_key d).
    set (dk := dom_key d) in *.
    set (g2 := m_create_node (rm_role_matching_fn s) (m_create_node (rm_role_matching_fn s) (mgraph_of (rm_abs s) dk) a) b) in *.
    rewrite hm_get_assoc, Hd, assoc_set_same.
    assert (Va : m_has_node g2 a = true) by (apply create_keeps_node, create_has_node).
    assert (Vb : m_has_node g2 b = true) by apply create_has_node.
    change (r_rfn (rm_abs s)) with (rm_role_matching_fn s). fold g2.
    norm. rewrite ?Va, ?Vb. cbn [andb].
    split_all; norm.
    all: try (exfalso; cbn in *; congruence).
    all: eexists; (split; [reflexivity|]).
    all: try (eapply finish_same; eassumption).
    all: eapply finish_set; try eassumption; try reflexivity;
         [ apply pg_wf_add_edge; [exact W2| |]; apply m_has_node_In; assumption
         | rewrite ?hm_insert_assoc_set, assoc_set_set; reflexivity ].
Qed.

(* ------------------------------------------------------------------ *)
(* new, clear, matching_fn                                             *)
Theorem gen_new_ok : forall lvl,
  rm_abs (gen_new lvl) = empty_mrm /\ rm_inv (gen_new lvl) /\ rm_max_hierarchy_level (gen_new lvl) = lvl.
Proof. intros lvl. split; [reflexivity|]. split; [intros dk; exact I|reflexivity]. Qed.

Theorem gen_clear_ok : forall s,
  exists s', gen_clear s = Some s' /\ rm_abs s' = m_clear (rm_abs s) /\ rm_inv s' /\
             rm_max_hierarchy_level s' = rm_max_hierarchy_level s.
Proof.
  intros s. eexists. split; [reflexivity|]. split; [reflexivity|]. split; [intros dk; exact I|reflexivity].
Qed.

Theorem gen_matching_fn_ok : forall s rf df, rm_inv s ->
  exists s', gen_matching_fn s rf df = Some s' /\ rm_abs s' = m_set_fns (rm_abs s) rf df /\ rm_inv s' /\
             rm_max_hierarchy_level s' = rm_max_hierarchy_level s.
Proof.
  intros s rf df Hinv. eexists. split; [reflexivity|]. split; [reflexivity|]. split; [exact Hinv|reflexivity].
Qed.

(* ------------------------------------------------------------------ *)
(* matched_domains, domain_has_role                                    *)
(* an admissible iteration order of a hash container *)
Definition ord_ok (ord : list text -> list text) : Prop := forall l, Permutation (ord l) l.

Lemma ord_ok_id : ord_ok (fun l => l).
Proof. intros l. apply Permutation_refl. Qed.
Lemma ord_ok_rev : ord_ok (@rev text).
Proof. intros l. apply Permutation_sym, Permutation_rev. Qed.

Lemma Permutation_filter' : forall {A} (p : A -> bool) l l', Permutation l l' -> Permutation (filter p l) (filter p l').
Proof.
  intros A p l l' H. induction H as [|x l l' H IH|x y l|l l' l'' H1 IH1 H2 IH2]; cbn [filter].
  - constructor.
  - destruct (p x); [constructor|]; exact IH.
  - destruct (p x), (p y); try apply Permutation_refl. constructor.
  - eapply Permutation_trans; eassumption.
Qed.

Lemma existsb_Permutation : forall {A} (p : A -> bool) l l', Permutation l l' -> existsb p l = existsb p l'.
Proof.
  intros A p l l' H. induction H as [|x l l' H IH|x y l|l l' l'' H1 IH1 H2 IH2]; cbn [existsb].
  - reflexivity.
  - rewrite IH. reflexivity.
  - destruct (p x), (p y); reflexivity.
  - congruence.
Qed.

(* matched_domains: the same domains, in the order given by `ord` (a PERMUTATION of the model's list) *)
Theorem gen_matched_domains_ok : forall ord s d, ord_ok ord ->
  Permutation (gen_matched_domains ord s d) (matched_domains (rm_abs s) d).
Proof.
  intros ord s d Hord. unfold gen_matched_domains, matched_domains. cbv zeta.
  change (rs_unwrap_or d gen_DEFAULT_DOMAIN) with (dom_key d). cbn [rm_abs r_dfn r_doms].
  destruct (rm_domain_matching_fn s) as [f|].
  - rewrite (rs_iter_filter_map_filter _ (fun k => f (dom_key d) k)) by (intros x; destruct (f (dom_key d) x); reflexivity).
    apply Permutation_filter'. apply Hord.
  - unfold rs_map_or. rewrite hm_get_assoc. destruct (assoc (dom_key d) (rm_all_domains s)); apply Permutation_refl.
Qed.

(* with the stored order it is the model's list itself *)
Corollary gen_matched_domains_id : forall s d,
  gen_matched_domains (fun l => l) s d = matched_domains (rm_abs s) d.
Proof.
  intros s d. unfold gen_matched_domains, matched_domains. cbv zeta.
  change (rs_unwrap_or d gen_DEFAULT_DOMAIN) with (dom_key d). cbn [rm_abs r_dfn r_doms].
  destruct (rm_domain_matching_fn s) as [f|].
  - apply rs_iter_filter_map_filter. intros x; destruct (f (dom_key d) x); reflexivity.
  - unfold rs_map_or. rewrite hm_get_assoc. reflexivity.
Qed.

Lemma matched_in_doms : forall m d x, In x (matched_domains m d) -> assoc x (r_doms m) <> None.
Proof.
  intros m d x. unfold matched_domains. destruct (r_dfn m) as [f|].
  - intros H. apply filter_In in H. destruct H as [H _]. intros N. apply assoc_None in N. contradiction.
  - destruct (assoc (dom_key d) (r_doms m)) eqn:E; intros H; [|destruct H].
    destruct H as [<-|[]]. congruence.
Qed.

(* a matched domain has a well-formed graph and an exact index map *)
Lemma rm_inv_matched : forall ord s d x, ord_ok ord -> rm_inv s -> In x (gen_matched_domains ord s d) ->
  exists g ix, assoc x (rm_all_domains s) = Some g /\ assoc x (rm_all_domains_indices s) = Some ix /\
               pg_wf g /\ idx_ok ix g /\ mgraph_of (rm_abs s) x = g.
Proof.
  intros ord s d x Hord Hinv Hx.
  apply (Permutation_in _ (gen_matched_domains_ok ord s d Hord)) in Hx. apply matched_in_doms in Hx.
  specialize (Hinv x). unfold mgraph_of. cbn [rm_abs r_doms] in *.
  destruct (assoc x (rm_all_domains s)) as [g|]; [|congruence].
  destruct (assoc x (rm_all_domains_indices s)) as [ix|]; [|contradiction].
  exists g, ix. destruct Hinv as [W Hok]. split; [reflexivity|]. split; [reflexivity|]. split; [exact W|]. split; [exact Hok|reflexivity].
Qed.

Theorem gen_domain_has_role_ok : forall ord s n d, ord_ok ord -> rm_inv s ->
  gen_domain_has_role ord s n d = Some (domain_has_role (rm_abs s) n d).
Proof.
  intros ord s n d Hord Hinv. unfold gen_domain_has_role, domain_has_role. cbv zeta.
  rewrite <- (existsb_Permutation _ _ _ (gen_matched_domains_ok ord s d Hord)).
  apply rs_iter_any_opt_total. intros x Hx.
  destruct (rm_inv_matched ord s d x Hord Hinv Hx) as (g & ix & Eg & Ei & W & Hok & Hg).
  rewrite Hg. norm. rewrite Ei. norm. rewrite Eg, (Hok n). cbn [rm_abs r_rfn].
  destruct (m_has_node g n); [reflexivity|]. destruct (rm_role_matching_fn s); reflexivity.
Qed.

(* ------------------------------------------------------------------ *)
(* delete_link                                                         *)
Lemma mgraph_eta : forall g, {| m_nodes := m_nodes g; m_edges := m_edges g |} = g.
Proof. intros []. reflexivity. Qed.

Theorem gen_delete_link_ok : forall ord s a b d, ord_ok ord -> rm_inv s ->
  exists s' r, gen_delete_link ord s a b d = Some (s', r) /\
    rm_abs s' = fst (m_delete_link (rm_abs s) a b d) /\
    rs_is_ok r = snd (m_delete_link (rm_abs s) a b d) /\
    rm_inv s' /\ rm_max_hierarchy_level s' = rm_max_hierarchy_level s.
Proof.
  intros ord s a b d Hord Hinv. unfold gen_delete_link, m_delete_link. norm.
  destruct (teqb a b) eqn:Eab.
  - exists s, (ROk tt). repeat split; try reflexivity. exact Hinv.
  - rewrite !(gen_domain_has_role_ok ord s _ d Hord Hinv).
    destruct (domain_has_role (rm_abs s) a d); cbn [negb orb];
      [destruct (domain_has_role (rm_abs s) b d); cbn [negb orb]|].
    2, 3: eexists s, _; split; [reflexivity|]; repeat split; try reflexivity; exact Hinv.
    destruct (create_two s a b d Hinv) as (s1 & s2 & ix & E1 & E2 & Hd & Hi & Hok & W2 & Hc).
    cbv zeta in Hd, Hok, W2. rewrite E1. cbv beta iota zeta. rewrite E2. cbv beta iota zeta.
    change (rs_unwrap_or d (T "DEFAULT")) with (dom_key d).
    set (dk := dom_key d) in *.
    change (r_rfn (rm_abs s)) with (rm_role_matching_fn s).
    set (g2 := m_create_node (rm_role_matching_fn s) (m_create_node (rm_role_matching_fn s) (mgraph_of (rm_abs s) dk) a) b) in *.
    rewrite hm_get_assoc, Hd, assoc_set_same. cbn [fst snd].
    destruct (pg_find_edge g2 a b) as [ei|] eqn:E.
    + destruct (pg_remove_found _ _ _ _ E) as (k & ->). cbv beta iota zeta.
      eexists _, _. split; [reflexivity|].
      match goal with
      | |- rm_abs (set_rm_all_domains _ ?dd) = set_dom _ _ ?g3 /\ _ =>
          destruct (finish_set s s2 dk g2 ix g3 dd Hinv Hd Hi Hok) as (A & B & C);
          [ apply pg_wf_remove, W2 | reflexivity | exact Hc
          | rewrite ?hm_insert_assoc_set, assoc_set_set; reflexivity | ]
      end.
      split; [exact A|]. split; [reflexivity|]. split; [exact B|exact C].
    + rewrite (pg_remove_not_found _ _ _ E), mgraph_eta.
      eexists _, _. split; [reflexivity|].
      destruct (finish_same s s2 dk g2 ix Hinv Hd Hi Hok W2 Hc) as (A & B & C).
      split; [exact A|]. split; [reflexivity|]. split; [exact B|exact C].
Qed.

(* ------------------------------------------------------------------ *)
(* bfs_iterator                                                        *)
Lemma flat_map_map : forall {A B C} (f : B -> list C) (h : A -> B) l, flat_map f (map h l) = flat_map (fun x => f (h x)) l.
Proof. intros A B C f h l. induction l as [|x l IH]; [reflexivity|]. cbn [map flat_map]. rewrite IH. reflexivity. Qed.

(* the Link / Match targets of a list of edges, however the closure is written *)
Lemma link_targets_fm : forall (F : medge -> option text) l,
  (forall e, F e = if is_link e then Some (e_dst e) else None) ->
  rs_iter_filter_map F l = map e_dst (filter is_link l).
Proof. intros F l H. apply rs_iter_filter_map_spec, H. Qed.
Lemma match_targets_fm : forall (F : medge -> option text) l,
  (forall e, F e = if is_match e then Some (e_dst e) else None) ->
  rs_iter_filter_map F l = map e_dst (filter is_match l).
Proof. intros F l H. apply rs_iter_filter_map_spec, H. Qed.

Ltac kind_cases :=
  let e0 := fresh "e" in
  intros e0; unfold is_link, is_match; cbv beta; rewrite ?ek_is_eqb; destruct (e_kind e0); reflexivity.

(* every filter_map that is not under a binder, as map e_dst o filter is_link / is_match *)
Ltac fm_top :=
  repeat first [ rewrite (link_targets_fm _ _) by kind_cases
               | rewrite (match_targets_fm _ _) by kind_cases ];
  change (fun e : medge => ekind_eqb (e_kind e) KLink) with is_link;
  change (fun e : medge => ekind_eqb (e_kind e) KMatch) with is_match;
  change (fun e : medge => e_dst e) with e_dst.

(* one of the three parts of the successor list *)
Ltac succ_part :=
  fm_top; unfold link_succs, match_succs; rewrite ?flat_map_map;
  first [ reflexivity
        | apply flat_map_ext; intros; fm_top; reflexivity ].

Theorem gen_bfs_iterator_ok : forall g n withm, gen_bfs_iterator g n withm = m_succs withm g n.
Proof.
  intros g n withm. unfold gen_bfs_iterator, m_succs. cbv zeta. norm.
  destruct (negb withm); [succ_part|]. rewrite <- ?app_assoc.
  apply (f_equal2 (@app text)); [succ_part|]. apply (f_equal2 (@app text)); succ_part.
Qed.

(* ------------------------------------------------------------------ *)
(* matching_bfs::Bfs                                                   *)
(* the iterator state with queue q, discovered set disc, depth counters *)
Definition mk_bfs (g : mgraph) (q disc : list text) (maxd : nat) (withm : bool) (depth rem : nat) : bfs_state :=
  {| bfs_queue := q; bfs_discovered := {| vm_bound := m_nodes g; vm_seen := disc |};
     bfs_max_depth := maxd; bfs_with_pattern_matching := withm; bfs_depth := depth;
     bfs_depth_elements_remaining := rem |}.

(* Bfs::new: panics when `start` is not a node of the graph (the visit map has no such bit) *)
Theorem gen_bfs_new_ok : forall g start maxd withm,
  gen_bfs_new g start maxd withm =
  if m_has_node g start then Some (mk_bfs g [start] [start] maxd withm 0 1) else None.
Proof.
  intros g start maxd withm. unfold gen_bfs_new, mk_bfs. norm. rewrite vm_visit_spec.
  unfold pg_visit_map. cbn [vm_bound vm_seen memb existsb app]. change (existsb (teqb start) (m_nodes g)) with (m_has_node g start).
  destruct (m_has_node g start); reflexivity.
Qed.

(* update_depth: the usize subtraction underflows when nothing remains *)
Theorem gen_bfs_update_depth_ok : forall g q disc maxd withm depth rem,
  gen_bfs_update_depth (mk_bfs g q disc maxd withm depth rem) =
  if Nat.leb 1 rem
  then Some (mk_bfs g q disc maxd withm (if Nat.eqb (rem - 1) 0 then depth + 1 else depth) (rem - 1))
  else None.
Proof.
  intros g q disc maxd withm depth rem. unfold gen_bfs_update_depth, mk_bfs, rs_usize_sub. rec_simpl. norm.
  destruct (Nat.leb 1 rem); [|reflexivity]. rec_simpl. rewrite ?(Nat.eqb_sym 0). destruct (Nat.eqb (rem - 1) 0); reflexivity.
Qed.

Section BfsFields.
  Variables (g : mgraph) (q disc : list text) (maxd : nat) (withm : bool) (depth rem : nat).
  Let s := mk_bfs g q disc maxd withm depth rem.
  Lemma bfs_queue_mk : bfs_queue s = q. Proof. reflexivity. Qed.
  Lemma bfs_discovered_mk : bfs_discovered s = {| vm_bound := m_nodes g; vm_seen := disc |}. Proof. reflexivity. Qed.
  Lemma bfs_max_depth_mk : bfs_max_depth s = maxd. Proof. reflexivity. Qed.
  Lemma bfs_withm_mk : bfs_with_pattern_matching s = withm. Proof. reflexivity. Qed.
  Lemma bfs_depth_mk : bfs_depth s = depth. Proof. reflexivity. Qed.
  Lemma bfs_rem_mk : bfs_depth_elements_remaining s = rem. Proof. reflexivity. Qed.
  Lemma set_bfs_queue_mk : forall q', set_bfs_queue s q' = mk_bfs g q' disc maxd withm depth rem. Proof. reflexivity. Qed.
  Lemma set_bfs_discovered_mk : forall d',
    set_bfs_discovered s {| vm_bound := m_nodes g; vm_seen := d' |} = mk_bfs g q d' maxd withm depth rem.
  Proof. reflexivity. Qed.
  Lemma set_bfs_depth_mk : forall d', set_bfs_depth s d' = mk_bfs g q disc maxd withm d' rem. Proof. reflexivity. Qed.
  Lemma set_bfs_rem_mk : forall r', set_bfs_depth_elements_remaining s r' = mk_bfs g q disc maxd withm depth r'. Proof. reflexivity. Qed.
End BfsFields.
#[export] Hint Rewrite bfs_queue_mk bfs_discovered_mk bfs_max_depth_mk bfs_withm_mk bfs_depth_mk bfs_rem_mk
  set_bfs_queue_mk set_bfs_discovered_mk set_bfs_depth_mk set_bfs_rem_mk : bfs.

(* Bfs::next on a state of the translated iterator over a well-formed graph:
   exactly one unfolding of the model's m_bfs_visit *)
Theorem gen_bfs_next_ok : forall g q disc maxd withm depth rem, pg_wf g -> (q <> [] -> 1 <= rem) ->
  gen_bfs_next (mk_bfs g q disc maxd withm depth rem) g =
  Some (if Nat.leb maxd depth then (mk_bfs g q disc maxd withm depth rem, None)
        else match q with
             | [] => (mk_bfs g q disc maxd withm depth rem, None)
             | v :: q' =>
               let nw := discover (m_succs withm g v) disc in
               (mk_bfs g (q' ++ nw) (disc ++ nw) maxd withm
                       (if Nat.eqb (rem - 1) 0 then depth + 1 else depth) (rem - 1 + length nw), Some v)
             end).
Proof.
  intros g q disc maxd withm depth rem W Hrem. unfold gen_bfs_next. autorewrite with bfs.
  destruct (Nat.leb maxd depth); [reflexivity|].
  destruct q as [|v q']; cbn [dq_pop_front]; autorewrite with bfs; [reflexivity|].
  assert (Hr : Nat.leb 1 rem = true) by (apply Nat.leb_le, Hrem; discriminate).
  rewrite gen_bfs_update_depth_ok, Hr. cbv beta iota zeta. rewrite gen_bfs_iterator_ok. autorewrite with bfs.
  set (depth' := if Nat.eqb (rem - 1) 0 then depth + 1 else depth).
  set (Rel := fun (st : bfs_state * nat) (m : list text * list text * nat) =>
                let '(seen, qq, c) := m in st = (mk_bfs g qq seen maxd withm depth' (rem - 1), c)).
  match goal with
  | |- context [rs_for ?b ?l ?s0] =>
      destruct (rs_for_rel b Rel visit_step l s0 (disc, q', 0)) as (s' & Hfor & Hrel)
  end.
  - reflexivity.
  - intros x st [[seen qq] c] Hx Hst. cbn in Hst. subst st. cbv beta iota. autorewrite with bfs.
    assert (Vx : memb teqb x (m_nodes g) = true) by (apply memb_In; eapply m_succs_closed; eassumption).
    rewrite vm_visit_spec. cbn [vm_bound vm_seen]. rewrite Vx. unfold visit_step.
    destruct (memb teqb x seen); cbv beta iota zeta; autorewrite with bfs; eexists; (split; [reflexivity|]); reflexivity.
  - rewrite Hfor. rewrite fold_visit_step, visit_all_discover in Hrel. cbn in Hrel. subst s'.
    cbv beta iota zeta. autorewrite with bfs. reflexivity.
Qed.

(* the nodes yielded by at most `fuel` calls of the translated Bfs::next (None = a call panicked) *)
Fixpoint bfs_yields (fuel : nat) (g : mgraph) (s : bfs_state) : option (list node_index) :=
  match fuel with
  | 0 => Some []
  | S fuel' =>
    match gen_bfs_next s g with
    | None => None
    | Some (_, None) => Some []
    | Some (s', Some v) => match bfs_yields fuel' g s' with Some r => Some (v :: r) | None => None end
    end
  end.

(* iterating the translated `next` yields the model's m_bfs_visit, for every state whose
   depth_elements_remaining covers the queue (no usize underflow) *)
Theorem bfs_yields_ok : forall g, pg_wf g -> forall fuel q disc maxd withm depth rem, length q <= rem ->
  bfs_yields fuel g (mk_bfs g q disc maxd withm depth rem) = Some (m_bfs_visit fuel withm g maxd q disc depth rem).
Proof.
  intros g W. induction fuel as [|fuel IH]; intros q disc maxd withm depth rem Hrem; [reflexivity|].
  cbn [bfs_yields m_bfs_visit]. rewrite gen_bfs_next_ok by first [exact W | intros Hq; destruct q; [congruence|cbn [length] in Hrem; lia]].
  destruct (Nat.leb maxd depth); [reflexivity|]. destruct q as [|v q']; [reflexivity|]. cbv beta iota zeta.
  rewrite IH; [reflexivity|]. rewrite app_length. cbn [length] in Hrem. lia.
Qed.

(* from Bfs::new: the model's m_bfs_from *)
Corollary bfs_from_ok : forall g a maxd withm, pg_wf g -> In a (m_nodes g) ->
  exists s0, gen_bfs_new g a maxd withm = Some s0 /\
             bfs_yields (S (length (m_nodes g))) g s0 = Some (m_bfs_from withm g maxd a).
Proof.
  intros g a maxd withm W Ha. rewrite gen_bfs_new_ok. apply m_has_node_In in Ha. rewrite Ha.
  eexists. split; [reflexivity|]. apply bfs_yields_ok; [exact W|]. cbn [length]. lia.
Qed.

(* ------------------------------------------------------------------ *)
(* the `while let Some(node) = bfs.next(graph)` loop of has_link        *)
Lemma while_bfs_scan : forall g (p : text -> bool)
    (next : bfs_state * bool -> option (bfs_state * bool * option node_index))
    (body : node_index -> bfs_state * bool -> flow (bfs_state * bool) bool),
  pg_wf g ->
  (forall b r, next (b, r) = match gen_bfs_next b g with Some (b', x) => Some ((b', r), x) | None => None end) ->
  (forall x b r, In x (m_nodes g) -> body x (b, r) = if p x then LBreak (b, true) else LNext (b, r)) ->
  forall fuel P q maxd withm depth r0,
    gshape (m_nodes g) P q -> length (m_nodes g) < fuel + length P ->
    exists b', rs_while_some fuel next body (mk_bfs g q (P ++ q) maxd withm depth (length q), r0) =
               Done (b', r0 || existsb p (m_bfs_visit fuel withm g maxd q (P ++ q) depth (length q))).
Proof.
  intros g p next body W Hnext Hbody.
  assert (Hclosed : forall withm x y, In x (m_nodes g) -> In y (m_succs withm g x) -> In y (m_nodes g)).
  { intros withm x y _ Hy. eapply m_succs_closed; eassumption. }
  induction fuel as [|fuel IH]; intros P q maxd withm depth r0 Hs Hf.
  - apply gshape_len in Hs. lia.
  - rewrite rs_while_some_S, Hnext. cbn [m_bfs_visit].
    rewrite gen_bfs_next_ok by first [exact W | intros Hq; destruct q; [congruence|cbn [length]; lia]].
    destruct (Nat.leb maxd depth); [eexists; rewrite orb_false_r; reflexivity|].
    destruct q as [|v q']; [eexists; rewrite orb_false_r; reflexivity|]. cbv beta iota zeta.
    assert (Hv : In v (m_nodes g)).
    { destruct Hs as [_ Hin]. apply Hin. apply in_or_app. right. left. reflexivity. }
    rewrite (Hbody v _ _ Hv). cbn [existsb]. destruct (p v).
    + eexists. rewrite orb_true_r. reflexivity.
    + cbn [orb]. set (nw := discover (m_succs withm g v) (P ++ v :: q')).
      rewrite gstep_disc, gstep_rem. apply IH.
      * apply (gshape_step (m_succs withm g) (m_nodes g) (Hclosed withm)), Hs.
      * rewrite app_length. cbn [length]. lia.
Qed.

(* ------------------------------------------------------------------ *)
(* has_link                                                            *)
(* enough iterations for the `while let` over any graph of the state *)
Definition fuel_ok (fuel : nat) (s : rm_state) : Prop :=
  forall dk g, assoc dk (rm_all_domains s) = Some g -> length (m_nodes g) < fuel.

Lemma ap_fn_unwrap : forall (rf : option mfun) a b,
  rs_unwrap_or (rs_opt_map (fun f : mfun => f a b) rf) false = ap_fn rf a b.
Proof. intros [f|] a b; reflexivity. Qed.

Lemma fold_orb_existsb : forall {A} (q : A -> bool) l r0, fold_left (fun r x => r || q x) l r0 = r0 || existsb q l.
Proof.
  intros A q. induction l as [|x l IH]; intros r0; cbn [fold_left existsb]; [rewrite orb_false_r; reflexivity|].
  rewrite IH, orb_assoc. reflexivity.
Qed.

Lemma m_bfs_from_fuel : forall withm g maxd a fuel, pg_wf g -> In a (m_nodes g) -> length (m_nodes g) < fuel ->
  m_bfs_visit fuel withm g maxd [a] [a] 0 1 = m_bfs_from withm g maxd a.
Proof.
  intros withm g maxd a fuel W Ha Hf. unfold m_bfs_from. rewrite !m_bfs_visit_gbfs.
  replace fuel with (S (length (m_nodes g)) + (fuel - S (length (m_nodes g)))) by lia.
  apply gfuel_enough; [|exact Ha]. intros x y _ Hy. eapply m_succs_closed; eassumption.
Qed.

Lemma start_node_In : forall m g a r, start_node m g a = Some r -> In r (m_nodes g).
Proof.
  intros m g a r. unfold start_node. destruct (m_has_node g a) eqn:E.
  - intros H. injection H as <-. apply m_has_node_In, E.
  - apply find_some_In.
Qed.

Theorem gen_has_link_ok : forall ord fuel s a b d, ord_ok ord -> rm_inv s -> fuel_ok fuel s ->
  gen_has_link ord fuel s a b d = Some (m_has_link (rm_max_hierarchy_level s) (rm_abs s) a b d).
Proof.
  intros ord fuel s a b d Hord Hinv Hfuel. unfold gen_has_link, m_has_link. norm.
  destruct (teqb a b); [reflexivity|]. cbv zeta.
  rewrite <- (existsb_Permutation _ _ _ (gen_matched_domains_ok ord s d Hord)).
  set (qd := fun dk => m_has_link_in (rm_max_hierarchy_level s) (rm_abs s) (mgraph_of (rm_abs s) dk) a b).
  match goal with
  | |- context [rs_for ?bd ?l ?s0] =>
      destruct (rs_for_rel bd (fun (r : bool) (m : bool) => r = m) (fun r x => r || qd x) l s0 false) as (r' & Hfor & Hrel)
  end.
  - reflexivity.
  - intros x r m Hx ->.
    destruct (rm_inv_matched ord s d x Hord Hinv Hx) as (g & ix & Eg & Ei & W & Hok & Hg).
    unfold qd. rewrite Hg. norm. rewrite Eg, Ei. cbv beta iota zeta. norm. rewrite (Hok a).
    match goal with
    | |- exists s', match ?S with _ => _ end = _ /\ _ =>
        assert (Hstart : S = Some (start_node (rm_abs s) g a))
    end.
    { unfold start_node. destruct (m_has_node g a); [reflexivity|].
      apply rs_iter_find_opt_total. intros i Hi. norm. rewrite (proj2 (m_has_node_In g i) Hi), ap_fn_unwrap. reflexivity. }
    rewrite Hstart. unfold m_has_link_in. destruct (start_node (rm_abs s) g a) as [r|] eqn:Es.
    + pose proof (start_node_In _ _ _ _ Es) as Hr.
      rewrite gen_bfs_new_ok, (proj2 (m_has_node_In g r) Hr).
      match goal with
      | |- context [rs_while_some fuel ?nx ?bd _] =>
          destruct (while_bfs_scan g (fun w => teqb w b || ap_fn (rm_role_matching_fn s) w b) nx bd W) with
            (fuel := fuel) (P := @nil text) (q := [r]) (maxd := rm_max_hierarchy_level s)
            (withm := rs_is_some (rm_role_matching_fn s)) (depth := 0) (r0 := m) as (b' & Hw)
      end.
      * intros bb rr. reflexivity.
      * intros y bb rr Hy. norm. rewrite (proj2 (m_has_node_In g y) Hy), ap_fn_unwrap. reflexivity.
      * apply gshape_init, Hr.
      * cbn [length]. rewrite Nat.add_0_r. apply (Hfuel x g Eg).
      * cbn [app length] in Hw. cbv beta iota. unfold node_index in *. rewrite Hw. eexists. split; [reflexivity|]. f_equal.
        rewrite (m_bfs_from_fuel _ _ _ _ _ W Hr (Hfuel x g Eg)). reflexivity.
    + eexists. split; [reflexivity|]. rewrite orb_false_r. reflexivity.
  - rewrite Hfor. subst r'. rewrite fold_orb_existsb. reflexivity.
Qed.

(* ------------------------------------------------------------------ *)
(* get_roles, get_users (HashSet results: equal as SETS)               *)
(* a fold that extends a HashSet with f x for every x: the elements of flat_map f *)
Lemma fold_sets : forall (body : text -> list text -> flow (list text) unit) (f : text -> list text) l,
  (forall x set, In x l -> body x set = LNext (hs_extend set (f x))) ->
  exists res, rs_fold body l hs_new = Some res /\ forall y, In y res <-> In y (flat_map f l).
Proof.
  intros body f l Hb. unfold rs_fold.
  destruct (rs_for_rel body (fun (set m : list text) => forall y, In y set <-> In y m) (fun acc x => acc ++ f x) l hs_new [])
    as (res & Hfor & Hrel).
  - intros y. reflexivity.
  - intros x set m Hx Hrel. exists (hs_extend set (f x)). split; [apply Hb, Hx|].
    intros y. rewrite hs_extend_In, in_app_iff, Hrel. reflexivity.
  - rewrite Hfor. exists res. split; [reflexivity|]. intros y. rewrite Hrel.
    assert (E : forall l0 acc, fold_left (fun acc x => acc ++ f x) l0 acc = acc ++ flat_map f l0).
    { induction l0 as [|x l0 IH]; intros acc; cbn [fold_left flat_map]; [rewrite app_nil_r; reflexivity|].
      rewrite IH, app_assoc. reflexivity. }
    rewrite E. reflexivity.
Qed.

Lemma flat_map_Permutation_In : forall {A B} (f : A -> list B) l l' y, Permutation l l' ->
  (In y (flat_map f l) <-> In y (flat_map f l')).
Proof.
  intros A B f l l' y H. rewrite !in_flat_map. split; intros (x & Hx & Hy); exists x; split; try assumption.
  - apply (Permutation_in _ H), Hx.
  - apply (Permutation_in _ (Permutation_sym H)), Hx.
Qed.

Lemma ord_In : forall ord l y, ord_ok ord -> (In y (ord l) <-> In y l).
Proof.
  intros ord l y H. split; [apply Permutation_in, H|apply Permutation_in, Permutation_sym, H].
Qed.

Lemma ap_fn_unwrap_or : forall (rf : option mfun) a b, rs_unwrap_or rf (fun _ _ => false) a b = ap_fn rf a b.
Proof. intros [f|] a b; reflexivity. Qed.

Theorem gen_get_roles_ok : forall ord s n d, ord_ok ord -> rm_inv s ->
  exists l, gen_get_roles ord s n d = Some l /\
            forall y, In y l <-> In y (m_get_roles (rm_abs s) n d).
Proof.
  intros ord s n d Hord Hinv. unfold gen_get_roles, m_get_roles. cbv zeta.
  match goal with
  | |- context [rs_fold ?bd ?l ?s0] =>
      destruct (fold_sets bd (fun dk => let g := mgraph_of (rm_abs s) dk in
                                         match first_matching_node (rm_abs s) g n with
                                         | Some r => m_succs (is_some_fn (r_rfn (rm_abs s))) g r
                                         | None => []
                                         end) l) as (res & Hf & Hin)
  end.
  - intros x set Hx.
    destruct (rm_inv_matched ord s d x Hord Hinv Hx) as (g & ix & Eg & Ei & W & Hok & Hg).
    cbv zeta. rewrite Hg. norm. rewrite Eg. cbv beta iota zeta.
    rewrite (rs_iter_find_opt_total _ (fun w => teqb w n || ap_fn (rm_role_matching_fn s) n w))
      by (intros i Hi; norm; rewrite (proj2 (m_has_node_In g i) Hi); cbv beta iota;
          rewrite ?ap_fn_unwrap_or, ?ap_fn_unwrap; destruct (teqb i n); reflexivity).
    change (find (fun w => teqb w n || ap_fn (rm_role_matching_fn s) n w) (m_nodes g)) with (first_matching_node (rm_abs s) g n).
    destruct (first_matching_node (rm_abs s) g n) as [r|]; [|reflexivity].
    rewrite gen_bfs_iterator_ok.
    rewrite (rs_iter_map_opt_total _ (fun i => i))
      by (intros i Hi; apply pg_node_weight_In; eapply m_succs_closed; eassumption).
    rewrite map_id. reflexivity.
  - rewrite Hf. eexists. split; [reflexivity|]. intros y. unfold hs_to_vec. rewrite (ord_In ord _ _ Hord), Hin.
    apply flat_map_Permutation_In, gen_matched_domains_ok, Hord.
Qed.

Lemma in_edges_src_nodes : forall g r y, pg_wf g -> In y (map e_src (in_edges g r)) -> In y (m_nodes g).
Proof.
  intros g r y [_ He] H. apply in_map_iff in H. destruct H as (e & <- & H).
  unfold in_edges in H. apply filter_In in H. apply He, H.
Qed.

Theorem gen_get_users_ok : forall ord s n d, ord_ok ord -> rm_inv s ->
  exists l, gen_get_users ord s n d = Some l /\
            forall y, In y l <-> In y (m_get_users (rm_abs s) n d).
Proof.
  intros ord s n d Hord Hinv. unfold gen_get_users, m_get_users. cbv zeta.
  match goal with
  | |- context [rs_fold ?bd ?l ?s0] =>
      destruct (fold_sets bd (fun dk => let g := mgraph_of (rm_abs s) dk in
                                         match first_matching_node (rm_abs s) g n with
                                         | Some r => map e_src (in_edges g r)
                                         | None => []
                                         end) l) as (res & Hf & Hin)
  end.
  - intros x set Hx.
    destruct (rm_inv_matched ord s d x Hord Hinv Hx) as (g & ix & Eg & Ei & W & Hok & Hg).
    cbv zeta. rewrite Hg. norm. rewrite Eg. cbv beta iota zeta.
    rewrite (rs_iter_find_opt_total _ (fun w => teqb w n || ap_fn (rm_role_matching_fn s) n w))
      by (intros i Hi; norm; rewrite (proj2 (m_has_node_In g i) Hi); cbv beta iota;
          destruct (teqb i n); [reflexivity|]; destruct (rm_role_matching_fn s); reflexivity).
    change (find (fun w => teqb w n || ap_fn (rm_role_matching_fn s) n w) (m_nodes g)) with (first_matching_node (rm_abs s) g n).
    destruct (first_matching_node (rm_abs s) g n) as [r|]; [|reflexivity].
    unfold pg_neighbors_directed. rewrite pg_edges_in.
    rewrite (rs_iter_map_opt_total _ (fun i => i))
      by (intros i Hi; apply pg_node_weight_In; eapply in_edges_src_nodes; eassumption).
    rewrite map_id. reflexivity.
  - rewrite Hf. eexists. split; [reflexivity|]. intros y. unfold hs_to_vec. rewrite (ord_In ord _ _ Hord), Hin.
    apply flat_map_Permutation_In, gen_matched_domains_ok, Hord.
Qed.

(* ------------------------------------------------------------------ *)
(* whole histories: the translated mutators, run from DefaultRoleManager::new,
   never panic, keep the invariant and compute the model's state and flags *)
Definition gen_step (ord : list text -> list text) (s : rm_state) (o : mop) : option (rm_state * bool) :=
  match o with
  | MAdd a b d => match gen_add_link s a b d with Some s' => Some (s', true) | None => None end
  | MDel a b d => match gen_delete_link ord s a b d with Some (s', r) => Some (s', rs_is_ok r) | None => None end
  | MClear => match gen_clear s with Some s' => Some (s', true) | None => None end
  | MSetFns rf df => match gen_matching_fn s rf df with Some s' => Some (s', true) | None => None end
  end.

Fixpoint gen_run (ord : list text -> list text) (s : rm_state) (h : list mop) : option (rm_state * list bool) :=
  match h with
  | [] => Some (s, [])
  | o :: h' => match gen_step ord s o with
               | None => None
               | Some (s', b) => match gen_run ord s' h' with
                                 | None => None
                                 | Some (s'', bs) => Some (s'', b :: bs)
                                 end
               end
  end.

Lemma gen_step_ok : forall ord s o, ord_ok ord -> rm_inv s ->
  exists s', gen_step ord s o = Some (s', snd (mstep (rm_abs s) o)) /\
             rm_abs s' = fst (mstep (rm_abs s) o) /\ rm_inv s' /\
             rm_max_hierarchy_level s' = rm_max_hierarchy_level s.
Proof.
  intros ord s o Hord Hinv. destruct o as [a b d|a b d| |rf df]; cbn [gen_step mstep fst snd].
  - destruct (gen_add_link_ok s a b d Hinv) as (s' & E & A & I & L). rewrite E. exists s'. split; [reflexivity|]. split; [exact A|]. split; [exact I|exact L].
  - destruct (gen_delete_link_ok ord s a b d Hord Hinv) as (s' & r & E & A & R & I & L). rewrite E, R.
    exists s'. split; [reflexivity|]. split; [exact A|]. split; [exact I|exact L].
  - destruct (gen_clear_ok s) as (s' & E & A & I & L). rewrite E. exists s'. split; [reflexivity|]. split; [exact A|]. split; [exact I|exact L].
  - destruct (gen_matching_fn_ok s rf df Hinv) as (s' & E & A & I & L). rewrite E. exists s'. split; [reflexivity|]. split; [exact A|]. split; [exact I|exact L].
Qed.

Theorem gen_run_ok : forall ord h s, ord_ok ord -> rm_inv s ->
  exists s', gen_run ord s h = Some (s', mrun_flags (rm_abs s) h) /\
             rm_abs s' = fold_left (fun m o => fst (mstep m o)) h (rm_abs s) /\ rm_inv s' /\
             rm_max_hierarchy_level s' = rm_max_hierarchy_level s.
Proof.
  intros ord. induction h as [|o h IH]; intros s Hord Hinv.
  - exists s. split; [reflexivity|]. split; [reflexivity|]. split; [exact Hinv|reflexivity].
  - destruct (gen_step_ok ord s o Hord Hinv) as (s1 & E & A & I & L).
    destruct (IH s1 Hord I) as (s2 & E2 & A2 & I2 & L2).
    cbn [gen_run mrun_flags fold_left]. rewrite E, E2. exists s2.
    destruct (mstep (rm_abs s) o) as [m1 b1] eqn:Em. cbn [fst snd] in *. rewrite A in *.
    split; [reflexivity|]. split; [exact A2|]. split; [exact I2|congruence].
Qed.

(* from DefaultRoleManager::new(lvl): the model's mrun, and every query answered as the model does *)
Corollary gen_history_ok : forall ord lvl h, ord_ok ord ->
  exists s, gen_run ord (gen_new lvl) h = Some (s, mrun_flags empty_mrm h) /\
            rm_abs s = mrun h /\ rm_inv s /\ rm_max_hierarchy_level s = lvl.
Proof.
  intros ord lvl h Hord. destruct (gen_new_ok lvl) as (A & I & L).
  destruct (gen_run_ok ord h (gen_new lvl) Hord I) as (s & E & A2 & I2 & L2).
  exists s. rewrite A in *. split; [exact E|]. split; [exact A2|]. split; [exact I2|congruence].
Qed.

(* every state has a sufficient fuel, and more fuel is as good *)
Lemma fuel_ok_exists : forall s, exists F, forall fuel, F <= fuel -> fuel_ok fuel s.
Proof.
  intros s. unfold fuel_ok. induction (rm_all_domains s) as [|[k g] l IH].
  - exists 0. intros fuel _ dk g H. discriminate.
  - destruct IH as (F & HF). exists (S (length (m_nodes g)) + F). intros fuel Hf dk g' H.
    cbn [assoc] in H. destruct (teqb dk k).
    + injection H as <-. lia.
    + apply (HF fuel ltac:(lia) dk g' H).
Qed.

(* END TO END: after any history run from DefaultRoleManager::new(lvl) by the translated mutators, the
   translated queries answer as the model does on the model's state `mrun h` - for every iteration order
   of the hash containers and every sufficiently large bound on the `while let` loop *)
Theorem gen_answers_ok : forall ord lvl h, ord_ok ord ->
  exists s F, gen_run ord (gen_new lvl) h = Some (s, mrun_flags empty_mrm h) /\
    (forall fuel a b d, F <= fuel -> gen_has_link ord fuel s a b d = Some (m_has_link lvl (mrun h) a b d)) /\
    (forall n d, exists l, gen_get_roles ord s n d = Some l /\ forall y, In y l <-> In y (m_get_roles (mrun h) n d)) /\
    (forall n d, exists l, gen_get_users ord s n d = Some l /\ forall y, In y l <-> In y (m_get_users (mrun h) n d)) /\
    (forall n d, gen_domain_has_role ord s n d = Some (domain_has_role (mrun h) n d)) /\
    (forall d, Permutation (gen_matched_domains ord s d) (matched_domains (mrun h) d)).
Proof.
  intros ord lvl h Hord. destruct (gen_history_ok ord lvl h Hord) as (s & E & A & I & L).
  destruct (fuel_ok_exists s) as (F & HF). exists s, F. split; [exact E|]. rewrite <- A, <- L.
  split; [|split; [|split; [|split]]].
  - intros fuel a b d Hf. apply gen_has_link_ok; [exact Hord|exact I|apply HF, Hf].
  - intros n d. apply gen_get_roles_ok; assumption.
  - intros n d. apply gen_get_users_ok; assumption.
  - intros n d. apply gen_domain_has_role_ok; assumption.
  - intros d. apply gen_matched_domains_ok, Hord.
Qed.

(* ------------------------------------------------------------------ *)
(* the hypotheses are satisfiable: a concrete history with a role matching
   function, two domains, a deletion; translated code and model side by side *)
Definition ex_km : mfun := fun a b =>
  match b with c :: _ => if Ascii.eqb c "*"%char then true else teqb a b | [] => teqb a b end.
Definition ex_history : list mop :=
  [MSetFns (Some ex_km) None;
   MAdd (T "bob") (T "book_group") None; MAdd (T "*") (T "book_group") None;
   MAdd (T "*") (T "pen_group") None; MAdd (T "eve") (T "pen_group") None;
   MAdd (T "u1") (T "g1") (Some (T "dom1")); MAdd (T "g1") (T "g2") (Some (T "dom1"));
   MDel (T "bob") (T "book_group") None; MDel (T "zed") (T "zed2") (Some (T "nowhere"))].
Definition ex_state : option rm_state := option_map fst (gen_run (@rev text) (gen_new 10) ex_history).

Example ex_history_runs :
  option_map (fun p => (rm_all_domains (fst p), snd p)) (gen_run (@rev text) (gen_new 10) ex_history)
  = Some (r_doms (mrun ex_history), mrun_flags empty_mrm ex_history).
Proof. vm_compute. reflexivity. Qed.

Example ex_queries :
  match ex_state with
  | Some s =>
      (gen_has_link (@rev text) 6 s (T "alice") (T "book_group") None,
       gen_has_link (@rev text) 6 s (T "u1") (T "g2") (Some (T "dom1")),
       gen_has_link (@rev text) 6 s (T "u1") (T "g2") None,
       gen_domain_has_role (@rev text) s (T "eve") None,
       gen_matched_domains (@rev text) s (Some (T "dom1")))
      = (Some (m_has_link 10 (mrun ex_history) (T "alice") (T "book_group") None),
         Some true, Some false, Some true, [T "dom1"])
  | None => False
  end.
Proof. vm_compute. reflexivity. Qed.

(* fuel_ok: 6 iterations are enough for the graphs of this state (5 and 3 nodes) *)
Example ex_fuel_ok : match ex_state with Some s => fuel_ok 6 s | None => False end.
Proof.
  vm_compute. intros dk g H.
  repeat match type of H with
         | (if ?c then _ else _) = _ => destruct c
         end; try discriminate; injection H as <-; cbn [m_nodes length]; lia.
Qed.

(* a panic is really modelled: an index that is not a node of the graph *)
Example ex_invalid_index_panics :
  gen_link_if_matches pg_new ex_km (T "a") (T "b") = None /\
  gen_bfs_new pg_new (T "a") 10 false = None.
Proof. split; reflexivity. Qed.

Print Assumptions gen_link_if_matches_ok.
Print Assumptions gen_get_or_create_role_ok.
Print Assumptions gen_add_link_ok.
Print Assumptions gen_delete_link_ok.
Print Assumptions gen_clear_ok.
Print Assumptions gen_matching_fn_ok.
Print Assumptions gen_matched_domains_ok.
Print Assumptions gen_domain_has_role_ok.
Print Assumptions gen_bfs_iterator_ok.
Print Assumptions gen_bfs_new_ok.
Print Assumptions gen_bfs_update_depth_ok.
Print Assumptions gen_bfs_next_ok.
Print Assumptions bfs_yields_ok.
Print Assumptions gen_has_link_ok.
Print Assumptions gen_get_roles_ok.
Print Assumptions gen_get_users_ok.
Print Assumptions gen_history_ok.
Print Assumptions gen_answers_ok.
